(* Python conventions shared by the hand models: exceptions as values, list indexing with
   negative wrap-around, int() truncation of a rational, a value extended by +inf. *)
From Coq Require Import List ZArith QArith Qround Bool.
Import ListNotations.

Inductive errcls := TypeError | ValueError | IndexError | KeyError | AttributeError | ZeroDivisionError | OtherError.
Inductive result (A : Type) := Ok (a : A) | Err (e : errcls).
Arguments Ok {A}. Arguments Err {A}.

Definition rbind {A B} (r : result A) (f : A -> result B) : result B :=
  match r with Ok a => f a | Err e => Err e end.
Definition rmap {A B} (f : A -> B) (r : result A) : result B :=
  match r with Ok a => Ok (f a) | Err e => Err e end.

(* l[i] for a Python int i: 0 <= i < len, or -len <= i < 0 counted from the end, else IndexError *)
Definition pyget {A} (l : list A) (i : Z) : result A :=
  let n := Z.of_nat (length l) in
  let j := if (i <? 0)%Z then (n + i)%Z else i in
  if (j <? 0)%Z then Err IndexError
  else match nth_error l (Z.to_nat j) with Some a => Ok a | None => Err IndexError end.

(* int(x) of a finite float seen as a rational: truncation toward zero *)
Definition Qtrunc (x : Q) : Z :=
  if Qle_bool 0 x then Qfloor x else (- Qfloor (- x))%Z.

(* a value or float("inf") *)
Inductive ext (T : Type) := Val (t : T) | Inf.
Arguments Val {T}. Arguments Inf {T}.

(* Shared lemmas about the list/array primitives of Model/Histogram.v (used by C09, C10, C14). *)
From Coq Require Import List ZArith QArith Qcanon Bool Arith Lia.
From SX Require Import Model.Histogram.
Import ListNotations.
Local Open Scope nat_scope.

(* ---------------------------------------------------------------- results *)
Lemma bind_ok {A B} (r : result A) (f : A -> result B) b :
  bind r f = Ok b -> exists a, r = Ok a /\ f a = Ok b.
Proof. destruct r as [a|c]; simpl; intros H; [eauto | discriminate]. Qed.

Ltac inv_bind H :=
  let a := fresh "a" in let E := fresh "E" in
  apply bind_ok in H; destruct H as [a [E H]].

Ltac inv_ok :=
  repeat match goal with
  | H : bind _ _ = Ok _ |- _ => inv_bind H
  | H : Ok _ = Ok _ |- _ => injection H as H; try subst
  | H : Err _ = Ok _ |- _ => discriminate H
  | H : (if ?b then Err _ else _) = Ok _ |- _ => destruct b eqn:?; [discriminate H|]
  | H : (if ?b then _ else Err _) = Ok _ |- _ => destruct b eqn:?; [|discriminate H]
  end.

(* ---------------------------------------------------------------- order on Qc *)
Lemma Qcleb_le x y : Qcleb x y = true <-> (x <= y)%Qc.
Proof. unfold Qcleb, Qcle. apply Qle_bool_iff. Qed.

Lemma Qcltb_lt x y : Qcltb x y = true <-> (x < y)%Qc.
Proof.
  unfold Qcltb, Qclt. rewrite negb_true_iff. split; intros H.
  - apply Qnot_le_lt. intros L. apply Qle_bool_iff in L. congruence.
  - destruct (Qle_bool y x) eqn:E; [|reflexivity]. apply Qle_bool_iff in E. exfalso. revert E. apply Qlt_not_le, H.
Qed.

Lemma Qcleb_false x y : Qcleb x y = false <-> (y < x)%Qc.
Proof.
  rewrite <- Qcltb_lt. unfold Qcltb. destruct (Qcleb x y) eqn:E; unfold Qcleb in E; rewrite E; simpl; split; congruence.
Qed.

Lemma Qc_eq_bool_true x y : Qc_eq_bool x y = true <-> x = y.
Proof. unfold Qc_eq_bool. destruct (Qc_eq_dec x y); split; congruence. Qed.

(* ---------------------------------------------------------------- lists *)
Lemma upd_nth_length {A} (f : A -> A) l : forall i, length (upd_nth i f l) = length l.
Proof. induction l as [|x t IH]; intros [|i]; simpl; auto. Qed.

Lemma nth_upd_nth {A} (f : A -> A) d l : forall i j, j < length l ->
  nth i (upd_nth j f l) d = if Nat.eqb i j then f (nth i l d) else nth i l d.
Proof.
  induction l as [|x t IH]; intros i j Hj; simpl in Hj; [lia|].
  destruct j as [|j]; destruct i as [|i]; simpl; auto.
  apply IH. lia.
Qed.

Lemma insert_at_length {A} (x : A) l : forall i, i <= length l -> length (insert_at i x l) = S (length l).
Proof.
  induction l as [|y t IH]; intros [|i] H; simpl in *; auto; try lia.
  rewrite IH; lia.
Qed.

Lemma delete_at_length {A} (l : list A) : forall i, i < length l -> length (delete_at i l) = length l - 1.
Proof.
  induction l as [|y t IH]; intros [|i] H; simpl in *; try lia.
  rewrite IH; lia.
Qed.

Lemma map2_length {A B C} (f : A -> B -> C) a b : length (map2 f a b) = Nat.min (length a) (length b).
Proof. unfold map2. now rewrite map_length, combine_length. Qed.

Lemma nth_map2 {A B C} (f : A -> B -> C) da db dc a : forall b i,
  i < length a -> i < length b -> nth i (map2 f a b) dc = f (nth i a da) (nth i b db).
Proof.
  unfold map2. induction a as [|x a IH]; intros [|y b] i Ha Hb; simpl in *; try lia.
  destruct i; [reflexivity|]. apply IH; lia.
Qed.

Lemma zipw_ok f a b r : zipw f a b = Ok r -> length a = length b /\ r = map2 f a b.
Proof.
  unfold zipw. destruct (Nat.eqb (length a) (length b)) eqn:E; [|discriminate].
  intros H; injection H as <-. apply Nat.eqb_eq in E. auto.
Qed.

Lemma zipw_eq f a b : length a = length b -> zipw f a b = Ok (map2 f a b).
Proof. intros H. unfold zipw. now rewrite H, Nat.eqb_refl. Qed.

Lemma mapM_length {A B} (f : A -> result B) l : forall r, mapM f l = Ok r -> length r = length l.
Proof.
  induction l as [|x t IH]; simpl; intros r H.
  - injection H as <-. reflexivity.
  - inv_ok. simpl. f_equal. eauto.
Qed.

Lemma mapM_nth {A B} (f : A -> result B) da db l : forall r i, mapM f l = Ok r -> i < length l ->
  f (nth i l da) = Ok (nth i r db).
Proof.
  induction l as [|x t IH]; simpl; intros r i H Hi; [lia|].
  inv_ok. destruct i; simpl; [assumption|]. apply IH; [assumption | lia].
Qed.

Lemma mapM_Forall {A B} (f : A -> result B) (P : B -> Prop) l :
  (forall x y, In x l -> f x = Ok y -> P y) -> forall r, mapM f l = Ok r -> Forall P r.
Proof.
  induction l as [|x t IH]; simpl; intros HP r H.
  - injection H as <-. constructor.
  - inv_ok. constructor; [eapply HP; eauto | apply IH; eauto].
Qed.

Lemma mapM_ok {A B} (f : A -> result B) l :
  (forall x, In x l -> exists y, f x = Ok y) -> exists r, mapM f l = Ok r.
Proof.
  induction l as [|x t IH]; simpl; intros H; [eauto|].
  destruct (H x (or_introl eq_refl)) as [y Ey]. rewrite Ey. simpl.
  destruct IH as [r Er]; [intros; apply H; auto|]. rewrite Er. simpl. eauto.
Qed.

Lemma upd_last_snoc {A} (f : A -> result A) x : forall pre,
  upd_last f (pre ++ [x]) = bind (f x) (fun y => Ok (pre ++ [y])).
Proof.
  induction pre as [|p pre IH].
  - simpl. destruct (f x); reflexivity.
  - cbn [app]. remember (pre ++ [x]) as l eqn:E. destruct l as [|q t]; [destruct pre; discriminate|].
    change (upd_last f (p :: q :: t)) with (bind (upd_last f (q :: t)) (fun r => Ok (p :: r))).
    rewrite IH. destruct (f x); reflexivity.
Qed.

Lemma upd_last_ok {A} (f : A -> result A) l r :
  upd_last f l = Ok r -> exists pre x y, l = pre ++ [x] /\ f x = Ok y /\ r = pre ++ [y].
Proof.
  destruct l as [|a l] using rev_ind; [discriminate|]. clear IHl.
  rewrite upd_last_snoc. intros H. inv_ok. eauto 7.
Qed.

Lemma last_snoc {A} (pre : list A) x d : last (pre ++ [x]) d = x.
Proof. apply last_last. Qed.

Lemma nonempty_snoc {A} (l : list A) : l <> [] -> exists pre x, l = pre ++ [x].
Proof. destruct l as [|x l] using rev_ind; [congruence | eauto]. Qed.

(* ---------------------------------------------------------------- shapes *)
Definition Shape2 (k n : nat) (a : arr) : Prop :=
  exists rows, a = A2 rows /\ length rows = k /\ Forall (fun r => length r = n) rows.

Definition Shape (h : hist) : Prop :=
  1 <= nhist h /\ length (edges h) = S (nbins h)
  /\ Shape2 (nhist h) (nbins h) (hH h) /\ Shape2 (nhist h) (nbins h) (hRAW h)
  /\ Shape2 (nhist h) (nbins h) (hERR h) /\ Shape2 (nhist h) (nbins h) (hSCAL h)
  /\ Shape2 (nhist h) (nbins h) (hSYS h).

Lemma forallb_Forall_len n rows :
  forallb (fun r : list cell => Nat.eqb (length r) n) rows = true <-> Forall (fun r => length r = n) rows.
Proof.
  rewrite forallb_forall, Forall_forall. split; intros H x Hx; specialize (H x Hx); now apply Nat.eqb_eq.
Qed.

Lemma shape2b_Shape2 k n a : shape2b k n a = true <-> Shape2 k n a.
Proof.
  unfold shape2b, Shape2. destruct a as [v|rows].
  - split; [discriminate | intros [r [E _]]; discriminate].
  - rewrite andb_true_iff, Nat.eqb_eq, forallb_Forall_len. split.
    + intros [H1 H2]. eauto.
    + intros [r [E [H1 H2]]]. injection E as <-. auto.
Qed.

Lemma shapeb_Shape h : shapeb h = true <-> Shape h.
Proof.
  unfold shapeb, Shape. rewrite !andb_true_iff, !shape2b_Shape2, Nat.leb_le, Nat.eqb_eq. tauto.
Qed.

Lemma Shape2_snoc k n a : Shape2 (S k) n a ->
  exists pre row, a = A2 (pre ++ [row]) /\ length pre = k /\ length row = n /\ Forall (fun r => length r = n) pre.
Proof.
  intros [rows [-> [L F]]].
  destruct rows as [|x rows] using rev_ind; [discriminate|]. clear IHrows.
  rewrite app_length in L. simpl in L. apply Forall_app in F. destruct F as [F1 F2].
  inversion F2; subst. exists rows, x. repeat split; auto. lia.
Qed.

Lemma Shape2_of_snoc k n pre row :
  length pre = k -> length row = n -> Forall (fun r => length r = n) pre -> Shape2 (S k) n (A2 (pre ++ [row])).
Proof.
  intros L1 L2 F. exists (pre ++ [row]). repeat split.
  - rewrite app_length. simpl. lia.
  - apply Forall_app. split; auto.
Qed.

Lemma Forall_repeat {A} (P : A -> Prop) x n : P x -> Forall P (repeat x n).
Proof. intros H. induction n; simpl; constructor; auto. Qed.

Lemma zeros_length n : length (zeros n) = n.
Proof. apply repeat_length. Qed.
Lemma ones_length n : length (ones n) = n.
Proof. apply repeat_length. Qed.

Lemma fresh_Shape n es : length es = S n -> Shape (fresh n es).
Proof.
  intros L. unfold Shape, fresh; simpl.
  assert (Z : Shape2 1 n (A2 [zeros n])) by (exists [zeros n]; repeat split; repeat constructor; apply zeros_length).
  assert (O : Shape2 1 n (A2 [ones n])) by (exists [ones n]; repeat split; repeat constructor; apply ones_length).
  repeat split; auto.
Qed.

(* Lemmas about the Python run-time fragment Model/PyRt.v: comparisons on the extended line,
   indexing, and the loop skeletons the filters are written in. *)
From Coq Require Import List ZArith QArith Qabs Bool String Lia Lqa.
From SX Require Import Model.PyRt.
Import ListNotations.
Local Notation length := List.length.

#[global] Arguments Qle_bool : simpl never.
#[global] Arguments Qeq_bool : simpl never.
#[global] Arguments inject_Z : simpl never.
#[global] Arguments qtrunc : simpl never.
#[global] Arguments in_int64 : simpl never.

(* ------------------------------------------------------------------ Q booleans as propositions *)
Lemma Qle_bool_true x y : Qle_bool x y = true -> x <= y.
Proof. apply Qle_bool_iff. Qed.
Lemma Qle_bool_false x y : Qle_bool x y = false -> y < x.
Proof.
  intros H. apply Qnot_le_lt. intros L. apply Qle_bool_iff in L. congruence.
Qed.
Lemma Qeq_bool_true x y : Qeq_bool x y = true -> x == y.
Proof. apply Qeq_bool_iff. Qed.
Lemma Qeq_bool_false x y : Qeq_bool x y = false -> ~ x == y.
Proof. intros H E. apply Qeq_bool_iff in E. congruence. Qed.
Lemma Qle_bool_of_le x y : x <= y -> Qle_bool x y = true.
Proof. apply Qle_bool_iff. Qed.
Lemma Qle_bool_of_lt x y : y < x -> Qle_bool x y = false.
Proof.
  intros H. destruct (Qle_bool x y) eqn:E; [|reflexivity].
  apply Qle_bool_iff in E. exfalso. apply (Qlt_not_le _ _ H E).
Qed.

Lemma inject_Z_le x y : (x <= y)%Z -> inject_Z x <= inject_Z y.
Proof. rewrite <- Zle_Qle. trivial. Qed.
Lemma inject_Z_lt x y : (x < y)%Z -> inject_Z x < inject_Z y.
Proof. rewrite <- Zlt_Qlt. trivial. Qed.

(* ------------------------------------------------------------------ the result monad *)
Lemma bind_ok {A B} (a : A) (f : A -> result B) : bind (Ok a) f = f a.
Proof. reflexivity. Qed.

Lemma filterM_ok {A} (c : A -> result bool) (f : A -> bool) l :
  (forall x, In x l -> c x = Ok (f x)) -> filterM c l = Ok (filter f l).
Proof.
  induction l as [|x t IH]; intros H; [reflexivity|].
  cbn [filterM filter]. rewrite (H x (or_introl eq_refl)). cbn [bind].
  rewrite IH by (intros y Hy; apply H; right; exact Hy). cbn [bind].
  destruct (f x); reflexivity.
Qed.

Lemma mapM_ok {A B} (c : A -> result B) (f : A -> B) l :
  (forall x, In x l -> c x = Ok (f x)) -> mapM c l = Ok (map f l).
Proof.
  induction l as [|x t IH]; intros H; [reflexivity|].
  cbn [mapM map]. rewrite (H x (or_introl eq_refl)). cbn [bind].
  rewrite IH by (intros y Hy; apply H; right; exact Hy). reflexivity.
Qed.

(* ------------------------------------------------------------------ indexing *)
Definition idx_list (n : nat) : list pyv := map (fun k => VInt (Z.of_nat k)) (seq 0 n).

Lemma py_range_len {A} (l : list A) : py_range (VInt 0) (vlen l) = Ok (idx_list (length l)).
Proof.
  unfold py_range, vlen, idx_list. cbn [int_of]. f_equal.
  rewrite Z.sub_0_r, Nat2Z.id. apply map_ext. intros k. reflexivity.
Qed.

Lemma py_index_nat n k : (k < n)%nat -> py_index n (VInt (Z.of_nat k)) = Ok k.
Proof.
  intros H. unfold py_index. cbn [int_of].
  replace (0 <=? Z.of_nat k)%Z with true by (symmetry; apply Z.leb_le; lia).
  replace (Z.of_nat k <? Z.of_nat n)%Z with true by (symmetry; apply Z.ltb_lt; lia).
  cbn. rewrite Nat2Z.id. reflexivity.
Qed.

Lemma seq_get_nat {A} (l : list A) k e : nth_error l k = Some e -> seq_get l (VInt (Z.of_nat k)) = Ok e.
Proof.
  intros H. unfold seq_get.
  rewrite py_index_nat by (apply nth_error_Some; congruence). cbn [bind]. rewrite H. reflexivity.
Qed.

Definition list_set {A} (l : list A) (k : nat) (e : A) : list A := firstn k l ++ e :: skipn (S k) l.
Lemma seq_set_nat {A} (l : list A) k e : (k < length l)%nat -> seq_set l (VInt (Z.of_nat k)) e = Ok (list_set l k e).
Proof. intros H. unfold seq_set. rewrite py_index_nat by exact H. reflexivity. Qed.

(* ------------------------------------------------------------------ loop skeletons *)
Lemma fold_leftM_idx_shift {S} (step : S -> pyv -> result S) (P : nat -> S -> Prop) n :
  forall m s, P m s ->
  (forall k s, (m <= k < m + n)%nat -> P k s -> exists s', step s (VInt (Z.of_nat k)) = Ok s' /\ P (Datatypes.S k) s') ->
  exists s', fold_leftM step (map (fun k => VInt (Z.of_nat k)) (seq m n)) s = Ok s' /\ P (m + n)%nat s'.
Proof.
  induction n as [|n IH]; intros m s H0 Hs.
  - exists s. rewrite Nat.add_0_r. split; [reflexivity|exact H0].
  - cbn [seq map fold_leftM].
    destruct (Hs m s ltac:(lia) H0) as [s1 [E1 P1]]. rewrite E1. cbn [bind].
    destruct (IH (Datatypes.S m) s1 P1) as [s2 [E2 P2]].
    + intros k s' Hk Pk. apply Hs; [lia|exact Pk].
    + exists s2. split; [exact E2|]. replace (m + Datatypes.S n)%nat with (Datatypes.S m + n)%nat by lia. exact P2.
Qed.

(* loop "for i in range(0, len(pl))" with an invariant *)
Lemma fold_leftM_idx {S} (step : S -> pyv -> result S) (P : nat -> S -> Prop) n s0 :
  P 0%nat s0 ->
  (forall k s, (k < n)%nat -> P k s -> exists s', step s (VInt (Z.of_nat k)) = Ok s' /\ P (Datatypes.S k) s') ->
  exists s', fold_leftM step (idx_list n) s0 = Ok s' /\ P n s'.
Proof.
  intros H0 Hs. apply (fold_leftM_idx_shift step P n 0 s0 H0).
  intros k s Hk. apply Hs. lia.
Qed.

(* "rebuild and append": updated.append(f(pl[i])) for every i *)
Lemma append_loop_spec {B} (step : plist -> pyv -> result plist) (f : pevent -> pevent) (pl : plist)
      (kont : plist -> result B) :
  (forall upd k ev, nth_error pl k = Some ev -> step upd (VInt (Z.of_nat k)) = Ok (upd ++ [f ev])) ->
  bind (fold_leftM step (idx_list (length pl)) []) kont = kont (map f pl).
Proof.
  intros H.
  destruct (fold_leftM_idx step (fun k upd => upd = map f (firstn k pl)) (length pl) []) as [s [E P]].
  - reflexivity.
  - intros k upd Hk ->.
    destruct (nth_error pl k) as [ev|] eqn:Ek; [|apply nth_error_None in Ek; lia].
    exists (map f (firstn k pl) ++ [f ev]). split; [apply H; exact Ek|].
    clear -Ek. revert k Ek. induction pl as [|x t IH]; intros [|k] Ek; cbn in *; try discriminate.
    + injection Ek as ->. reflexivity.
    + f_equal. apply IH. exact Ek.
  - rewrite E. cbn [bind]. rewrite P, firstn_all. reflexivity.
Qed.

(* "in place": pl[i] = f(pl[i]) for every i *)
Lemma list_set_length {A} (l : list A) k e : (k < length l)%nat -> length (list_set l k e) = length l.
Proof.
  intros H. unfold list_set. rewrite app_length. cbn [length]. rewrite firstn_length, skipn_length. lia.
Qed.

Lemma inplace_inv {A} (f : A -> A) (l : list A) k e :
  nth_error l k = Some e ->
  list_set (map f (firstn k l) ++ skipn k l) k (f e) = map f (firstn (S k) l) ++ skipn (S k) l.
Proof.
  revert k. induction l as [|x t IH]; intros [|k] E; cbn in *; try discriminate.
  - injection E as ->. reflexivity.
  - unfold list_set in *. cbn. f_equal. apply IH. exact E.
Qed.

Lemma inplace_loop_spec {B} (step : plist -> pyv -> result plist) (f : pevent -> pevent) (pl : plist)
      (kont : plist -> result B) :
  (forall cur k ev, nth_error pl k = Some ev -> nth_error cur k = Some ev -> length cur = length pl ->
                    step cur (VInt (Z.of_nat k)) = Ok (list_set cur k (f ev))) ->
  bind (fold_leftM step (idx_list (length pl)) pl) kont = kont (map f pl).
Proof.
  intros H.
  destruct (fold_leftM_idx step (fun k cur => cur = map f (firstn k pl) ++ skipn k pl) (length pl) pl) as [s [E P]].
  - reflexivity.
  - intros k cur Hk ->.
    destruct (nth_error pl k) as [ev|] eqn:Ek; [|apply nth_error_None in Ek; lia].
    exists (map f (firstn (S k) pl) ++ skipn (S k) pl). split; [|reflexivity].
    rewrite (H _ k ev Ek).
    + rewrite inplace_inv by exact Ek. reflexivity.
    + rewrite nth_error_app2; rewrite map_length, firstn_length_le by lia; [|lia].
      rewrite Nat.sub_diag. clear -Ek. revert k Ek. induction pl as [|x t IH]; intros [|k] Ek; cbn in *; try discriminate; auto.
    + rewrite app_length, map_length, firstn_length_le, skipn_length by lia. lia.
  - rewrite E. cbn [bind]. rewrite P, firstn_all, skipn_all, app_nil_r. reflexivity.
Qed.

(* "for ev in pl: if keep(ev): updated.append(ev)" *)
Lemma keep_loop_spec {B} (step : plist -> pevent -> result plist) (keep : pevent -> bool) (pl : plist)
      (kont : plist -> result B) :
  (forall upd ev, In ev pl -> step upd ev = Ok (if keep ev then upd ++ [ev] else upd)) ->
  bind (fold_leftM step pl []) kont = kont (filter keep pl).
Proof.
  intros H.
  assert (G : forall l acc, (forall ev, In ev l -> In ev pl) -> fold_leftM step l acc = Ok (acc ++ filter keep l)).
  { induction l as [|x t IH]; intros acc Hin; cbn [fold_leftM filter].
    - rewrite app_nil_r. reflexivity.
    - rewrite H by (apply Hin; left; reflexivity). cbn [bind].
      rewrite IH by (intros ev Hev; apply Hin; right; exact Hev).
      destruct (keep x); [rewrite <- app_assoc|]; reflexivity. }
  rewrite G by auto. reflexivity.
Qed.

(* ------------------------------------------------------------------ id lists (PDG ids, status codes) *)
Lemma existsM_pure {A} (f : A -> bool) l : existsM (fun x => Ok (f x)) l = Ok (existsb f l).
Proof.
  induction l as [|x t IH]; [reflexivity|]. cbn [existsM existsb bind]. rewrite IH. destruct (f x); reflexivity.
Qed.
Lemma existsM_ok {A} (c : A -> result bool) (f : A -> bool) l :
  (forall x, In x l -> c x = Ok (f x)) -> existsM c l = Ok (existsb f l).
Proof.
  induction l as [|x t IH]; intros H; [reflexivity|]. cbn [existsM existsb].
  rewrite (H x (or_introl eq_refl)). cbn [bind].
  rewrite IH by (intros y Hy; apply H; right; exact Hy). destruct (f x); reflexivity.
Qed.
Lemma existsb_map {A B} (f : B -> bool) (g : A -> B) l : existsb f (map g l) = existsb (fun x => f (g x)) l.
Proof. induction l as [|x t IH]; [reflexivity|]. cbn. rewrite IH. reflexivity. Qed.
Lemma forallb_map {A B} (f : B -> bool) (g : A -> B) l : forallb f (map g l) = forallb (fun x => f (g x)) l.
Proof. induction l as [|x t IH]; [reflexivity|]. cbn. rewrite IH. reflexivity. Qed.
Lemma forallb_ext' {A} (f g : A -> bool) l : (forall x, f x = g x) -> forallb f l = forallb g l.
Proof. intros H. induction l as [|x t IH]; [reflexivity|]. cbn. rewrite H, IH. reflexivity. Qed.
Lemma existsb_ext' {A} (f g : A -> bool) l : (forall x, f x = g x) -> existsb f l = existsb g l.
Proof. intros H. induction l as [|x t IH]; [reflexivity|]. cbn. rewrite H, IH. reflexivity. Qed.
Lemma existsb_false {A} (l : list A) : existsb (fun _ => false) l = false.
Proof. induction l; [reflexivity|]. cbn. assumption. Qed.
Lemma forallb_true {A} (l : list A) : forallb (fun _ => true) l = true.
Proof. induction l; [reflexivity|]. cbn. assumption. Qed.

(* an element constructor under which every element is an integer number *)
Definition int_ctor (mk : Z -> pyv) : Prop :=
  forall z, num_of (mk z) = Some (fofZ z) /\ int_of (mk z) = Some z /\ is_seq (mk z) = false.
Lemma int_ctor_VInt : int_ctor VInt.
Proof. intros z. repeat split. Qed.
Lemma int_ctor_VNpInt : int_ctor VNpInt.
Proof. intros z. repeat split. Qed.

Lemma isnan_any_ints_aux mk zs : int_ctor mk ->
  (if forallb (fun e => match num_of e with Some _ => true | None => false end) (map mk zs)
   then Ok (existsb (fun e => match num_of e with Some f => fisnan f | None => false end) (map mk zs))
   else if existsb is_seq (map mk zs) then Err Unmodelled else Err TypeError) = Ok false.
Proof.
  intros H. rewrite forallb_map, existsb_map.
  rewrite (forallb_ext' _ (fun _ => true)) by (intros z; destruct (H z) as [-> _]; reflexivity).
  rewrite forallb_true.
  rewrite (existsb_ext' _ (fun _ => false)) by (intros z; destruct (H z) as [-> _]; reflexivity).
  rewrite existsb_false. reflexivity.
Qed.
Lemma isnan_any_list mk zs : int_ctor mk -> py_isnan_any (VList (map mk zs)) = Ok false.
Proof. apply isnan_any_ints_aux. Qed.
Lemma isnan_any_tuple mk zs : int_ctor mk -> py_isnan_any (VTuple (map mk zs)) = Ok false.
Proof. apply isnan_any_ints_aux. Qed.
Lemma isnan_any_arr mk zs : int_ctor mk -> py_isnan_any (VArr (map mk zs)) = Ok false.
Proof. apply isnan_any_ints_aux. Qed.

Definition all_int64 (zs : list Z) : Prop := forallb in_int64 zs = true.
Lemma mapM_to_int64_VInt zs : all_int64 zs -> mapM to_int64 (map VInt zs) = Ok (map VNpInt zs).
Proof.
  unfold all_int64. induction zs as [|z t IH]; intros H; [reflexivity|].
  cbn [forallb] in H. apply andb_true_iff in H. destruct H as [Hz Ht].
  cbn [map mapM to_int64]. rewrite Hz. cbn [bind]. rewrite IH by exact Ht. reflexivity.
Qed.
Lemma mapM_to_int64_VNpInt zs : mapM to_int64 (map VNpInt zs) = Ok (map VNpInt zs).
Proof. induction zs as [|z t IH]; [reflexivity|]. cbn [map mapM to_int64 bind]. rewrite IH. reflexivity. Qed.
Lemma asarray_list zs : all_int64 zs -> py_asarray_int64 (VList (map VInt zs)) = Ok (VArr (map VNpInt zs)).
Proof. intros H. unfold py_asarray_int64. rewrite mapM_to_int64_VInt by exact H. reflexivity. Qed.
Lemma asarray_tuple zs : all_int64 zs -> py_asarray_int64 (VTuple (map VInt zs)) = Ok (VArr (map VNpInt zs)).
Proof. intros H. unfold py_asarray_int64. rewrite mapM_to_int64_VInt by exact H. reflexivity. Qed.
Lemma asarray_arr zs : py_asarray_int64 (VArr (map VNpInt zs)) = Ok (VArr (map VNpInt zs)).
Proof. unfold py_asarray_int64. rewrite mapM_to_int64_VNpInt. reflexivity. Qed.

(* int(pdg) in array / float status in array *)
Lemma py_in_int_arr k zs : py_in (VInt k) (VArr (map VNpInt zs)) = Ok (existsb (Z.eqb k) zs).
Proof.
  unfold py_in. rewrite (existsM_ok _ (fun e => match int_of e with Some z => Z.eqb k z | None => false end)).
  - rewrite existsb_map. reflexivity.
  - intros x Hx. apply in_map_iff in Hx. destruct Hx as [z [<- _]]. reflexivity.
Qed.
Lemma py_not_in_int_arr k zs : py_not_in (VInt k) (VArr (map VNpInt zs)) = Ok (negb (existsb (Z.eqb k) zs)).
Proof. unfold py_not_in. rewrite py_in_int_arr. reflexivity. Qed.
Lemma py_in_float_arr v zs : py_in (VFloat v) (VArr (map VNpInt zs)) = Ok (existsb (fun z => feq v (fofZ z)) zs).
Proof.
  unfold py_in. rewrite (existsM_ok _ (fun e => match num_of e with Some y => feq v y | None => false end)).
  - rewrite existsb_map. reflexivity.
  - intros x Hx. apply in_map_iff in Hx. destruct Hx as [z [<- _]]. reflexivity.
Qed.

(* ------------------------------------------------------------------ event-level skeletons *)
Lemma len_zero_test {A} (l : list A) : py_eq (vlen l) (VInt 0) = Ok (match l with [] => true | _ => false end).
Proof. destruct l; reflexivity. Qed.

Definition vnat (k : nat) : pyv := VInt (Z.of_nat k).
Definition keep_at (keep : list pobs -> bool) (pl : list (list pobs)) (k : nat) : bool :=
  match nth_error pl k with Some ev => keep ev | None => false end.

Lemma enum_loop_aux (step : pyv -> pyv * list pobs -> result pyv) (keep : list pobs -> bool) (pl : list (list pobs)) :
  (forall idxs k ev, nth_error pl k = Some ev ->
     step (VList idxs) (vnat k, ev) = Ok (VList (if keep ev then idxs ++ [vnat k] else idxs))) ->
  forall l off idxs, (forall j ev, nth_error l j = Some ev -> nth_error pl (off + j) = Some ev) ->
  fold_leftM step (combine (map vnat (seq off (length l))) l) (VList idxs)
  = Ok (VList (idxs ++ map vnat (filter (keep_at keep pl) (seq off (length l))))).
Proof.
  intros H. induction l as [|x t IH]; intros off idxs Hl; cbn [length seq map combine fold_leftM filter].
  - rewrite app_nil_r. reflexivity.
  - pose proof (Hl 0%nat x eq_refl) as H0. rewrite Nat.add_0_r in H0.
    rewrite (H idxs off x H0). cbn [bind].
    rewrite IH by (intros j ev Hj; replace (S off + j)%nat with (off + S j)%nat by lia; apply Hl; exact Hj).
    unfold keep_at at 2. rewrite H0. destruct (keep x); cbn [map]; [rewrite <- app_assoc|]; reflexivity.
Qed.

(* "for idx, ev in enumerate(pl): if keep(ev): idxs.append(idx)" *)
Lemma enum_loop_spec {B} (step : pyv -> pyv * list pobs -> result pyv) (keep : list pobs -> bool) (pl : list (list pobs)) (kont : pyv -> result B) :
  (forall idxs k ev, nth_error pl k = Some ev ->
     step (VList idxs) (vnat k, ev) = Ok (VList (if keep ev then idxs ++ [vnat k] else idxs))) ->
  bind (fold_leftM step (py_enumerate pl) (VList [])) kont
  = kont (VList (map vnat (filter (keep_at keep pl) (seq 0 (length pl))))).
Proof.
  intros H. unfold py_enumerate. change (fun k : nat => VInt (Z.of_nat k)) with vnat.
  rewrite (enum_loop_aux step keep pl H pl 0 []) by (intros j ev Hj; exact Hj). reflexivity.
Qed.

Lemma filter_map_comm {A B} (f : B -> bool) (g : A -> B) l : filter f (map g l) = map g (filter (fun x => f (g x)) l).
Proof. induction l as [|x t IH]; [reflexivity|]. cbn. rewrite IH. destruct (f (g x)); reflexivity. Qed.

Lemma map_nth_seq {A} (d : A) l : map (fun k => nth k l d) (seq 0 (length l)) = l.
Proof.
  induction l as [|x t IH]; [reflexivity|]. cbn [length seq map nth]. f_equal.
  rewrite <- seq_shift, map_map. exact IH.
Qed.

(* "[pl[idx] for idx in idxs]" for the kept indices *)
Lemma pick_kept keep (pl : list (list pobs)) :
  mapM (fun idx => seq_get pl idx) (map vnat (filter (keep_at keep pl) (seq 0 (length pl)))) = Ok (filter keep pl).
Proof.
  rewrite (mapM_ok _ (fun idx => match int_of idx with Some z => nth (Z.to_nat z) pl [] | None => [] end)).
  - f_equal. rewrite map_map. cbn [vnat int_of].
    rewrite <- (map_nth_seq [] pl) at 3. rewrite filter_map_comm.
    erewrite map_ext; [|intros k; rewrite Nat2Z.id; reflexivity].
    f_equal. apply filter_ext_in. intros k Hk. apply in_seq in Hk. unfold keep_at.
    destruct (nth_error pl k) as [ev|] eqn:E.
    + rewrite (nth_error_nth _ _ _ E). reflexivity.
    + apply nth_error_None in E. lia.
  - intros x Hx. apply in_map_iff in Hx. destruct Hx as [k [<- Hk]]. apply filter_In in Hk. destruct Hk as [Hk _].
    apply in_seq in Hk. cbn [vnat int_of]. rewrite Nat2Z.id.
    destruct (nth_error pl k) as [ev|] eqn:E; [|apply nth_error_None in E; lia].
    rewrite (nth_error_nth _ _ _ E). apply seq_get_nat. exact E.
Qed.

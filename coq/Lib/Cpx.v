(* Complex numbers as pairs (re, im) over a generic commutative ring K.
   Definitions are parametric in the carrier operations (executable at Q),
   lemmas live in a section with a [ring_theory] hypothesis; [cpx_ring] is the
   ring_theory of the pairs, so that [ring] works on complex expressions too. *)
From Coq Require Import List ZArith Ring Ring_theory Arith Lia.
From SX Require Import Lib.KRing.
Import ListNotations.

Section Defs.
  Variable K : Type.
  Variables (k0 k1 : K) (kadd kmul ksub : K -> K -> K) (kopp : K -> K).

  Definition cpx := (K * K)%type.
  Definition re (z : cpx) : K := fst z.
  Definition im (z : cpx) : K := snd z.
  Definition c0 : cpx := (k0, k0).
  Definition c1 : cpx := (k1, k0).
  Definition ci : cpx := (k0, k1).
  Definition ofK (x : K) : cpx := (x, k0).
  Definition cadd (a b : cpx) : cpx := (kadd (re a) (re b), kadd (im a) (im b)).
  Definition csub (a b : cpx) : cpx := (ksub (re a) (re b), ksub (im a) (im b)).
  Definition copp (a : cpx) : cpx := (kopp (re a), kopp (im a)).
  Definition cmul (a b : cpx) : cpx :=
    (ksub (kmul (re a) (re b)) (kmul (im a) (im b)),
     kadd (kmul (re a) (im b)) (kmul (im a) (re b))).
  Definition conj (a : cpx) : cpx := (re a, kopp (im a)).
  (* real scalar times complex, complex divided by a real scalar *)
  Definition cscale (x : K) (a : cpx) : cpx := (kmul x (re a), kmul x (im a)).
  Variable kdiv : K -> K -> K.
  Definition cdivr (a : cpx) (x : K) : cpx := (kdiv (re a) x, kdiv (im a) x).
  (* |z|^2 *)
  Definition norm2 (a : cpx) : K := kadd (kmul (re a) (re a)) (kmul (im a) (im a)).
  Definition cpow (z : cpx) (n : nat) : cpx := kpow c1 cmul z n.
  Definition csum (l : list cpx) : cpx := ksum c0 cadd l.
  (* unit modulus:  z * conj z = 1 *)
  Definition cunit (z : cpx) : Prop := cmul z (conj z) = c1.
End Defs.

Arguments re {K}. Arguments im {K}. Arguments ofK {K}. Arguments conj {K}.

Section Lemmas.
  Variable K : Type.
  Variables (k0 k1 : K) (kadd kmul ksub : K -> K -> K) (kopp : K -> K).
  Hypothesis Kth : ring_theory k0 k1 kadd kmul ksub kopp (@eq K).
  Add Ring KringC : Kth.

  Notation C := (cpx K).
  Notation "0" := k0. Notation "1" := k1.
  Infix "+" := kadd. Infix "*" := kmul. Infix "-" := ksub.
  Notation C0 := (c0 K k0). Notation C1 := (c1 K k0 k1).
  Notation Cadd := (cadd K kadd). Notation Cmul := (cmul K kadd kmul ksub).
  Notation Csub := (csub K ksub). Notation Copp := (copp K kopp).
  Notation Conj := (@conj K kopp).
  Notation Csum := (csum K k0 kadd).
  Notation Cpow := (cpow K k0 k1 kadd kmul ksub).

  Lemma cpx_ext (a b : C) : re a = re b -> im a = im b -> a = b.
  Proof. destruct a, b; simpl; intros -> ->; reflexivity. Qed.

  Ltac cpx := intros; apply cpx_ext; cbn [re im fst snd cadd cmul csub copp conj c0 c1 ofK cscale]; ring.

  Lemma cpx_ring : ring_theory C0 C1 Cadd Cmul Csub Copp (@eq C).
  Proof.
    constructor.
    - cpx.
    - cpx.
    - cpx.
    - cpx.
    - cpx.
    - cpx.
    - cpx.
    - cpx.
    - cpx.
  Qed.

  Lemma conj_add a b : Conj (Cadd a b) = Cadd (Conj a) (Conj b).
  Proof. cpx. Qed.
  Lemma conj_mul a b : Conj (Cmul a b) = Cmul (Conj a) (Conj b).
  Proof. cpx. Qed.
  Lemma conj_0 : Conj C0 = C0.
  Proof. cpx. Qed.
  Lemma conj_1 : Conj C1 = C1.
  Proof. cpx. Qed.
  Lemma conj_conj a : Conj (Conj a) = a.
  Proof. cpx. Qed.

  Lemma re_add a b : re (Cadd a b) = re a + re b.
  Proof. reflexivity. Qed.
  Lemma im_add a b : im (Cadd a b) = im a + im b.
  Proof. reflexivity. Qed.
  Lemma re_conj a : re (Conj a) = re a.
  Proof. reflexivity. Qed.

  Lemma cunit_iff z : cunit K k0 k1 kadd kmul ksub kopp z <-> re z * re z + im z * im z = 1.
  Proof.
    unfold cunit; destruct z as [c s]; unfold cmul, conj, c1, re, im; simpl. split.
    - intros H. injection H as H1 _. rewrite <- H1. ring.
    - intros H. f_equal; [rewrite <- H; ring | ring].
  Qed.

  Lemma cunit_mul a b : cunit K k0 k1 kadd kmul ksub kopp a -> cunit K k0 k1 kadd kmul ksub kopp b ->
    cunit K k0 k1 kadd kmul ksub kopp (Cmul a b).
  Proof.
    rewrite !cunit_iff. destruct a as [a1 a2], b as [b1 b2]; unfold cmul, re, im; simpl. intros Ha Hb.
    transitivity ((a1 * a1 + a2 * a2) * (b1 * b1 + b2 * b2)); [ring | rewrite Ha, Hb; ring].
  Qed.

  Lemma csum_cons a l : Csum (a :: l) = Cadd a (Csum l).
  Proof. reflexivity. Qed.
  Lemma re_csum l : re (Csum l) = ksum k0 kadd (map re l).
  Proof. induction l as [|a l IH]; [reflexivity | cbn [csum ksum map] in *; rewrite re_add; unfold csum in IH; now rewrite IH]. Qed.

  (* natural numbers embed on the real axis *)
  Lemma cknat n : knat C0 C1 Cadd n = ofK k0 (knat k0 k1 kadd n).
  Proof. induction n as [|n IH]; [reflexivity | cbn [knat]; rewrite IH; cpx]. Qed.
End Lemmas.

(* Runtime vocabulary of Gen/GenHistogram.v (written by tools/py2coq/gen_histogram.py from the CURRENT
   src/sparkx/Histogram.py).  Every Python / numpy construct the translator accepts is rendered by one of the
   functions below; they are the list semantics of the numpy primitives on the types of Model/Histogram.v
   (arrays with shape [arr], cells [option Qc], results [Ok | Err cls]) with the model's conventions:
     - a 1-D array where the code expects rows gives [Err Unmodelled] (as [rows_of], [map_rows] of the model);
     - Python ints are [Z]; the two counters kept by the object (number_of_bins_, number_of_histograms_) are
       stored as [nat] in the model's record, so an assignment of a negative count is reported as [ValueError]
       at the assignment (the next np.zeros(n) of the code raises it);
     - negative indices wrap around as in Python ([norm_index]).
   No proofs here (Proofs/C09_Source.v, C10_Source.v hold the equalities with the hand model). *)
From Coq Require Import String List ZArith QArith Qcanon Bool Arith.
From SX Require Import Model.Histogram.
Import ListNotations.
Local Open Scope Z_scope.

(* ---------------------------------------------------------------- arguments: None | number | list/ndarray *)
Inductive pyarg := PNone | PScalar (c : cell) | PList (l : list cell).
Definition of_vals (v : vals) : pyarg := match v with VScalar c => PScalar c | VList l => PList l end.
Definition of_wts (w : wts) : pyarg := match w with WNone => PNone | WScalar c => PScalar c | WList l => PList l end.
Definition of_scl (s : scl) : pyarg := match s with SScalar c => PScalar c | SList l => PList l end.
Definition is_none (a : pyarg) : bool := match a with PNone => true | _ => false end.
Definition is_scalar (a : pyarg) : bool := match a with PScalar _ => true | _ => false end.
Definition is_list (a : pyarg) : bool := match a with PList _ => true | _ => false end.
Definition opt_is_none {A} (o : option A) : bool := match o with None => true | Some _ => false end.

(* ---------------------------------------------------------------- the object: attribute assignment *)
Definition set_nbins (h : hist) (n : nat) := mkH n (edges h) (nhist h) (hH h) (hRAW h) (hERR h) (hSCAL h) (hSYS h).
Definition set_edges (h : hist) (e : list Qc) := mkH (nbins h) e (nhist h) (hH h) (hRAW h) (hERR h) (hSCAL h) (hSYS h).
Definition set_nhist (h : hist) (n : nat) := mkH (nbins h) (edges h) n (hH h) (hRAW h) (hERR h) (hSCAL h) (hSYS h).
Definition set_hH (h : hist) (a : arr) := mkH (nbins h) (edges h) (nhist h) a (hRAW h) (hERR h) (hSCAL h) (hSYS h).
Definition set_hRAW (h : hist) (a : arr) := mkH (nbins h) (edges h) (nhist h) (hH h) a (hERR h) (hSCAL h) (hSYS h).
Definition set_hERR (h : hist) (a : arr) := mkH (nbins h) (edges h) (nhist h) (hH h) (hRAW h) a (hSCAL h) (hSYS h).
Definition set_hSCAL (h : hist) (a : arr) := mkH (nbins h) (edges h) (nhist h) (hH h) (hRAW h) (hERR h) a (hSYS h).
Definition set_hSYS (h : hist) (a : arr) := mkH (nbins h) (edges h) (nhist h) (hH h) (hRAW h) (hERR h) (hSCAL h) a.
(* the object before __init__ has assigned anything (every attribute None); the translator checks that each
   constructor branch assigns all eight attributes, so none of these placeholders survives *)
Definition hist_blank : hist := mkH 0 [] 0 (A1 []) (A1 []) (A1 []) (A1 []) (A1 []).
(* a Python int stored into number_of_bins_ / number_of_histograms_ *)
Definition to_count (z : Z) : result nat := if z <? 0 then Err ValueError else Ok (Z.to_nat z).

(* ---------------------------------------------------------------- control *)
Definition andM (a b : result bool) : result bool := do x <- a; if x then b else Ok false.
Definition orM (a b : result bool) : result bool := do x <- a; if x then Ok true else b.
Definition notM (a : result bool) : result bool := do x <- a; Ok (negb x).
Fixpoint fold_leftM {S A} (f : S -> A -> result S) (l : list A) (s : S) : result S :=
  match l with
  | [] => Ok s
  | x :: t => do s' <- f s x; fold_leftM f t s'
  end.
Fixpoint forallM {A} (f : A -> result bool) (l : list A) : result bool :=
  match l with
  | [] => Ok true
  | x :: t => do b <- f x; if b then forallM f t else Ok false
  end.

(* ---------------------------------------------------------------- numbers *)
Definition c_ltb (a b : cell) : bool := match a, b with Some x, Some y => Qcltb x y | _, _ => false end.
Definition c_leb (a b : cell) : bool := match a, b with Some x, Some y => Qcleb x y | _, _ => false end.
Definition c_eqb (a b : cell) : bool := match a, b with Some x, Some y => Qc_eq_bool x y | _, _ => false end.
Definition zlen {A} (l : list A) : Z := Z.of_nat (length l).

(* ---------------------------------------------------------------- sequences *)
Definition norm_index (len : nat) (i : Z) : result nat :=
  if (0 <=? i) && (i <? Z.of_nat len) then Ok (Z.to_nat i)
  else if (i <? 0) && (- Z.of_nat len <=? i) then Ok (Z.to_nat (Z.of_nat len + i))
  else Err IndexError.
(* l[i] *)
Definition py_get {A} (l : list A) (i : Z) : result A := do k <- norm_index (length l) i; nth_res l k.
(* l[1:], l[:-1] *)
Definition py_tail {A} (l : list A) : list A := tl l.
Definition py_init {A} (l : list A) : list A := removelast l.
(* np.insert(l, i, x): i in [-len, len], np.delete(l, i): i in [-len, len) *)
Definition np_insert {A} (l : list A) (i : Z) (x : A) : result (list A) :=
  if (0 <=? i) && (i <=? zlen l) then Ok (insert_at (Z.to_nat i) x l)
  else if (i <? 0) && (- zlen l <=? i) then Ok (insert_at (Z.to_nat (zlen l + i)) x l)
  else Err IndexError.
Definition np_delete {A} (l : list A) (i : Z) : result (list A) :=
  do k <- norm_index (length l) i; Ok (delete_at k l).
(* l * n (list repetition) *)
Definition py_list_repeat {A} (l : list A) (n : Z) : list A := concat (repeat l (Z.to_nat n)).
(* range(n) *)
Definition py_range (n : Z) : list Z := map Z.of_nat (seq 0 (Z.to_nat n)).
(* element-wise arithmetic of two 1-D arrays over Qc (bin edges); shapes must agree *)
Definition zipq (f : Qc -> Qc -> Qc) (a b : list Qc) : result (list Qc) :=
  if Nat.eqb (length a) (length b) then Ok (map2 f a b) else Err ValueError.
Definition qcells (l : list Qc) : list cell := map (@Some Qc) l.

(* ---------------------------------------------------------------- arguments as Python values *)
Definition py_len (a : pyarg) : result Z :=
  match a with PList l => Ok (zlen l) | _ => Err TypeError end.
(* np.atleast_1d(a).shape[0] *)
Definition py_atleast1d_len (a : pyarg) : Z := match a with PList l => zlen l | _ => 1 end.
(* np.isnan(a).any() *)
Definition py_isnan_any (a : pyarg) : result bool :=
  match a with PScalar c => Ok (c_nan c) | PList l => Ok (existsb c_nan l) | PNone => Err TypeError end.
(* iteration over an argument that is not known to be a list *)
Definition py_iter (a : pyarg) : result (list cell) :=
  match a with PList l => Ok l | _ => Err TypeError end.

(* ---------------------------------------------------------------- numpy on shaped arrays *)
Definition arr_ndim (a : arr) : Z := match a with A1 _ => 1 | A2 _ => 2 end.
Definition np_zeros (n : Z) : result (list cell) := do k <- to_count n; Ok (zeros k).
Definition np_ones (n : Z) : result (list cell) := do k <- to_count n; Ok (ones k).
(* np.digitize(v, edges) (right=False) *)
Definition np_digitize (v : cell) (es : list Qc) : result Z :=
  match v with Some x => do k <- digitize x es; Ok (Z.of_nat k) | None => Err Unmodelled end.
(* a[-1, j] += w : w a number adds to one cell of the last row; w a list cannot be stored into one cell *)
Definition add_at_z (j : Z) (w : cell) (row : list cell) : result (list cell) :=
  do k <- norm_index (length row) j; Ok (upd_nth k (fun c => cadd c w) row).
Definition np_iadd_last2 (a : arr) (j : Z) (w : pyarg) : result arr :=
  match w with
  | PScalar c => upd_last_row a (add_at_z j c)
  | PList _ => Err ValueError
  | PNone => Err TypeError
  end.
(* a[-1] *= c,  a[-1] *= np.asarray(l),  a[-1] = l *)
Definition np_imul_last_scalar := scale_last_scalar.
Definition np_imul_last_list := scale_last_list.
Definition np_set_last := set_last_row.
(* a[i] = row, for a 2-D array *)
Fixpoint set_nth_row (i : nat) (r : list cell) (rows : list (list cell)) : result (list (list cell)) :=
  match rows, i with
  | [], _ => Err IndexError
  | e :: t, O => if Nat.eqb (length e) (length r) then Ok (r :: t) else Err ValueError
  | e :: t, S j => do t' <- set_nth_row j r t; Ok (e :: t')
  end.
Definition np_setitem_row (a : arr) (i : Z) (r : list cell) : result arr :=
  match a with
  | A2 rows => do k <- norm_index (length rows) i; do rows' <- set_nth_row k r rows; Ok (A2 rows')
  | A1 _ => Err Unmodelled
  end.
(* iteration over a 2-D array yields its rows *)
Definition np_rows := rows_of.
(* np.asarray([g(row) for row in a]) *)
Definition np_rows_map := map_rows.
(* a[-1] as a row;  np.asarray(l).shape != a[-1].shape *)
Definition np_last_row := last_row.
Definition np_shape_ne_last (l : list cell) (a : arr) : result bool :=
  match a with
  | A2 _ => do r <- last_row a; Ok (negb (Nat.eqb (length l) (length r)))
  | A1 _ => Ok true
  end.
(* np.vstack((a, row)),  x.reshape(1, -1) *)
Definition np_vstack := vstack.
Definition np_reshape_row := reshape_row.
(* a[i] of a 2-D array: a 1-D array *)
Definition np_getitem (a : arr) (i : Z) : result arr :=
  match a with
  | A2 rows => do r <- py_get rows i; Ok (A1 r)
  | A1 _ => Err Unmodelled
  end.
(* a[idx][i] *)
Definition np_cell2 (a : arr) (idx i : Z) : result cell :=
  if (idx <? 0) || (i <? 0) then Err Unmodelled else cell2 a (Z.to_nat idx) (Z.to_nat i).
(* element-wise on a whole array *)
Definition arr_map (f : cell -> cell) (a : arr) : arr :=
  match a with A1 v => A1 (map f v) | A2 rows => A2 (map (map f) rows) end.
Definition np_sq (a : arr) : arr := arr_map csq a.
Definition np_rdiv (c : cell) (a : arr) : arr := arr_map (cdiv c) a.
(* (a - v) with a 2-D and v 1-D of the row length (broadcast over the rows) *)
Definition np_sub_rows (a v : arr) : result arr :=
  match a, v with
  | A2 rows, A1 r => Ok (A2 (map (fun row => map2 csub row r) rows))
  | _, _ => Err Unmodelled
  end.
(* np.any(a == 0) *)
Definition np_any_eq0 (a : arr) : result bool :=
  do rows <- rows_of a; Ok (existsb (existsb c_is0) rows).
(* np.sum(a, axis=0),  np.average(a, axis=0, weights=w) with w 1-D / of the shape of a *)
Definition np_sum0 (a : arr) : result arr := do rows <- rows_of a; Ok (A1 (colsum rows)).
Definition np_average0 (a : arr) (ws : list cell) : result arr :=
  do rows <- rows_of a; do r <- average0 rows ws; Ok (A1 r).
Definition np_average0_2d (a w : arr) : result arr :=
  do rows <- rows_of a; do wr <- rows_of w; do r <- average0_2d rows wr; Ok (A1 r).

(* ---------------------------------------------------------------- write_to_file: names as numbers *)
(* the i-th literal of `default_columns` is the number i (the abstraction of Model/Histogram.v) *)
Definition colkeys (names : list string) : list nat := seq 0 (length names).
Definition col_in (c : nat) (l : list nat) : bool := existsb (Nat.eqb c) l.
(* l.index(c) *)
Fixpoint col_index_from (k : nat) (c : nat) (l : list nat) : result nat :=
  match l with
  | [] => Err ValueError
  | x :: t => if Nat.eqb c x then Ok k else col_index_from (S k) c t
  end.
Definition col_index (l : list nat) (c : nat) : result nat := col_index_from 0 c l.
(* np.linspace(lo, hi, num=num) through the linspace oracle of the model (which takes the number of bins) *)
Definition np_linspace (ul : Qc -> Qc -> nat -> list Qc) (lo hi : Qc) (num : Z) : list Qc := ul lo hi (Z.to_nat (num - 1)).

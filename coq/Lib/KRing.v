(* Generic commutative-ring toolkit: definitions are parametric in the carrier and
   its operations (so they can be *executed* at Q/Z), lemmas live in a section with
   a [ring_theory] hypothesis (so they can be *instantiated* at Z, Qc, R). *)
From Coq Require Import List ZArith Ring Ring_theory Arith Lia.
Import ListNotations.

Section Defs.
  Variable K : Type.
  Variables (k0 k1 : K) (kadd kmul ksub : K -> K -> K) (kopp : K -> K).

  (* positive integer constants by binary expansion: no coefficient morphism needed *)
  Fixpoint kpos (p : positive) : K :=
    match p with
    | xH => k1
    | xO q => kmul (kadd k1 k1) (kpos q)
    | xI q => kadd k1 (kmul (kadd k1 k1) (kpos q))
    end.
  Definition kz (z : Z) : K :=
    match z with Z0 => k0 | Zpos p => kpos p | Zneg p => kopp (kpos p) end.

  Fixpoint knat (n : nat) : K :=
    match n with O => k0 | S m => kadd k1 (knat m) end.

  Fixpoint kpow (x : K) (n : nat) : K :=
    match n with O => k1 | S m => kmul x (kpow x m) end.

  Fixpoint ksum (l : list K) : K :=
    match l with [] => k0 | x :: t => kadd x (ksum t) end.
  Fixpoint kprod (l : list K) : K :=
    match l with [] => k1 | x :: t => kmul x (kprod t) end.

  (* every way of picking one element, with the remaining list (order kept) *)
  Fixpoint picks {A} (l : list A) : list (A * list A) :=
    match l with
    | [] => []
    | x :: t => (x, t) :: map (fun yr => (fst yr, x :: snd yr)) (picks t)
    end.

  (* sum over all ORDERED k-tuples of DISTINCT positions of l of the product *)
  Fixpoint dsum (k : nat) (l : list K) : K :=
    match k with
    | O => k1
    | S k' => ksum (map (fun xr => kmul (fst xr) (dsum k' (snd xr))) (picks l))
    end.

  (* power sum  p_j(l) = sum_i l_i^j *)
  Definition psum (j : nat) (l : list K) : K := ksum (map (fun x => kpow x j) l).
End Defs.

Arguments kpos {K}. Arguments kz {K}. Arguments knat {K}. Arguments kpow {K}. Arguments ksum {K}.
Arguments kprod {K}. Arguments dsum {K}. Arguments psum {K}. Arguments picks {A}.

Section Lemmas.
  Variable K : Type.
  Variables (k0 k1 : K) (kadd kmul ksub : K -> K -> K) (kopp : K -> K).
  Hypothesis Kth : ring_theory k0 k1 kadd kmul ksub kopp (@eq K).
  Add Ring Kring : Kth.

  Notation "0" := k0. Notation "1" := k1.
  Infix "+" := kadd. Infix "*" := kmul. Infix "-" := ksub.
  Notation sum := (ksum k0 kadd).
  Notation DS := (dsum k0 k1 kadd kmul).
  Notation PS := (psum k0 k1 kadd kmul).
  Notation KN := (knat k0 k1 kadd).
  Notation pw := (kpow k1 kmul).

  Lemma ksum_app l1 l2 : sum (l1 ++ l2) = sum l1 + sum l2.
  Proof. induction l1 as [|x t IH]; simpl; [ring | rewrite IH; ring]. Qed.

  Lemma ksum_map_ext {A} (f g : A -> K) l :
    (forall x, f x = g x) -> sum (map f l) = sum (map g l).
  Proof. intros H; induction l as [|x t IH]; simpl; [reflexivity | now rewrite H, IH]. Qed.

  Lemma ksum_map_add {A} (f g : A -> K) l :
    sum (map (fun x => f x + g x) l) = sum (map f l) + sum (map g l).
  Proof. induction l as [|x t IH]; simpl; [ring | rewrite IH; ring]. Qed.

  Lemma ksum_map_mul {A} c (f : A -> K) l :
    sum (map (fun x => c * f x) l) = c * sum (map f l).
  Proof. induction l as [|x t IH]; simpl; [ring | rewrite IH; ring]. Qed.

  Lemma dsum_0 l : DS 0%nat l = 1.
  Proof. reflexivity. Qed.

  Lemma dsum_S k l :
    DS (S k) l = sum (map (fun xr => fst xr * DS k (snd xr)) (picks l)).
  Proof. reflexivity. Qed.

  Lemma dsum_unfold k a l :
    DS (S k) (a :: l) =
    a * DS k l + sum (map (fun x => fst x * DS k (a :: snd x)) (picks l)).
  Proof.
    rewrite dsum_S. cbn [picks map ksum fst snd]. rewrite map_map. reflexivity.
  Qed.

  (* the recursion that drives every closed form *)
  Lemma dsum_cons k : forall a l,
    DS (S k) (a :: l) = DS (S k) l + KN (S k) * a * DS k l.
  Proof.
    induction k as [|k IH]; intros a l.
    - rewrite dsum_unfold, dsum_S. cbn [dsum knat]. ring.
    - rewrite dsum_unfold.
      rewrite (ksum_map_ext _ (fun x => fst x * DS (S k) (snd x)
                 + (KN (S k) * a) * (fst x * DS k (snd x)))).
      2:{ intros x. rewrite IH. ring. }
      rewrite ksum_map_add, ksum_map_mul, <- !dsum_S.
      change (KN (S (S k))) with (1 + KN (S k)). ring.
  Qed.

  Lemma dsum_nil k : DS (S k) [] = 0.
  Proof. reflexivity. Qed.

  Lemma psum_nil j : PS j [] = 0.
  Proof. reflexivity. Qed.

  Lemma psum_cons j a l : PS j (a :: l) = pw a j + PS j l.
  Proof. reflexivity. Qed.
End Lemmas.

(* Extended real results used by the generated kinematics model (C08):
   a value of a numpy/Python float expression read over the reals, or a raised exception.
     Fin r        a finite double, read as the real number it denotes (rounding NOT modelled)
     PInf / NInf  +inf / -inf
     NaN          not-a-number; an attribute that was never set holds NaN
     Raise cls    a Python exception left the expression
   The operations follow IEEE-754 / numpy scalar conventions: division by zero gives an
   infinity or NaN (numpy float64 never raises ZeroDivisionError), log of a negative number and
   sqrt of a negative number are NaN, log 0 = -inf, every comparison with NaN is false.
   The reals have no signed zero: 0 stands for +0 (x / 0 = +inf for x > 0).
   Comparisons are bool-valued wrappers of the stdlib deciders so that a model applied to a
   concrete particle can be evaluated inside a proof by rewriting (Rltb_true, ...). *)
From Coq Require Import Reals List Bool ZArith Lra.
From SX Require Import Lib.RealAux.
Import ListNotations.
Local Open Scope R_scope.

Inductive pyexc := ValueError | TypeError | ZeroDivisionError | OtherError.

Inductive ext := Fin (r : R) | PInf | NInf | NaN | Raise (e : pyexc).

(* np.isnan *)
Definition is_nan (v : ext) : bool := match v with NaN => true | _ => false end.
Definition is_fin (v : ext) : bool := match v with Fin _ => true | _ => false end.

Definition einf (positive : bool) : ext := if positive then PInf else NInf.

Definition eneg (a : ext) : ext :=
  match a with Fin x => Fin (- x) | PInf => NInf | NInf => PInf | NaN => NaN | Raise e => Raise e end.

Definition eadd (a b : ext) : ext :=
  match a, b with
  | Raise e, _ => Raise e
  | _, Raise e => Raise e
  | NaN, _ => NaN
  | _, NaN => NaN
  | Fin x, Fin y => Fin (x + y)
  | PInf, NInf => NaN
  | NInf, PInf => NaN
  | PInf, _ => PInf
  | _, PInf => PInf
  | NInf, _ => NInf
  | _, NInf => NInf
  end.

Definition esub (a b : ext) : ext :=
  match a, b with
  | Raise e, _ => Raise e
  | _, Raise e => Raise e
  | NaN, _ => NaN
  | _, NaN => NaN
  | Fin x, Fin y => Fin (x - y)
  | PInf, PInf => NaN
  | NInf, NInf => NaN
  | PInf, _ => PInf
  | _, NInf => PInf
  | NInf, _ => NInf
  | _, PInf => NInf
  end.

(* infinity times a finite number: 0 * inf = NaN *)
Definition emul_inf (positive : bool) (x : R) : ext :=
  if Reqb x 0 then NaN else if Rltb 0 x then einf positive else einf (negb positive).

Definition emul (a b : ext) : ext :=
  match a, b with
  | Raise e, _ => Raise e
  | _, Raise e => Raise e
  | NaN, _ => NaN
  | _, NaN => NaN
  | Fin x, Fin y => Fin (x * y)
  | Fin x, PInf => emul_inf true x
  | Fin x, NInf => emul_inf false x
  | PInf, Fin y => emul_inf true y
  | NInf, Fin y => emul_inf false y
  | PInf, PInf => PInf
  | NInf, NInf => PInf
  | PInf, NInf => NInf
  | NInf, PInf => NInf
  end.

Definition ediv (a b : ext) : ext :=
  match a, b with
  | Raise e, _ => Raise e
  | _, Raise e => Raise e
  | NaN, _ => NaN
  | _, NaN => NaN
  | Fin x, Fin y =>
      if Reqb y 0 then (if Reqb x 0 then NaN else if Rltb 0 x then PInf else NInf)
      else Fin (x / y)
  | Fin _, PInf => Fin 0
  | Fin _, NInf => Fin 0
  | PInf, Fin y => if Rltb y 0 then NInf else PInf
  | NInf, Fin y => if Rltb y 0 then PInf else NInf
  | _, _ => NaN
  end.

(* x ** 2.0 *)
Definition esqr (a : ext) : ext :=
  match a with Fin x => Fin (x * x) | PInf => PInf | NInf => PInf | NaN => NaN | Raise e => Raise e end.

(* abs / np.abs *)
Definition eabs (a : ext) : ext :=
  match a with Fin x => Fin (Rabs x) | PInf => PInf | NInf => PInf | NaN => NaN | Raise e => Raise e end.

(* np.sqrt *)
Definition esqrt (a : ext) : ext :=
  match a with
  | Fin x => if Rltb x 0 then NaN else Fin (sqrt x)
  | PInf => PInf | NInf => NaN | NaN => NaN | Raise e => Raise e
  end.

(* np.log *)
Definition elog (a : ext) : ext :=
  match a with
  | Fin x => if Rltb x 0 then NaN else if Reqb x 0 then NInf else Fin (ln x)
  | PInf => PInf | NInf => NaN | NaN => NaN | Raise e => Raise e
  end.

(* np.arccos *)
Definition eacos (a : ext) : ext :=
  match a with
  | Fin x => if Rltb x (-1) then NaN else if Rltb 1 x then NaN else Fin (acos x)
  | PInf => NaN | NInf => NaN | NaN => NaN | Raise e => Raise e
  end.

(* comparisons: false as soon as one side is NaN *)
Definition elt (a b : ext) : bool :=
  match a, b with
  | Fin x, Fin y => Rltb x y
  | NInf, Fin _ => true | NInf, PInf => true | Fin _, PInf => true
  | _, _ => false
  end.
Definition ele (a b : ext) : bool :=
  match a, b with
  | Fin x, Fin y => Rleb x y
  | NInf, Fin _ => true | NInf, PInf => true | Fin _, PInf => true
  | NInf, NInf => true | PInf, PInf => true
  | _, _ => false
  end.
Definition egt (a b : ext) : bool := elt b a.
Definition ege (a b : ext) : bool := ele b a.
Definition eeq (a b : ext) : bool :=
  match a, b with
  | Fin x, Fin y => Reqb x y
  | PInf, PInf => true | NInf, NInf => true
  | _, _ => false
  end.

(* `v in [k1, k2, ...]` for a list of integer literals: equality with one of them *)
Definition ein (v : ext) (l : list Z) : bool :=
  match v with
  | Fin x => existsb (fun k => Reqb x (IZR k)) l
  | _ => false
  end.

Lemma ein_nan l : ein NaN l = false.
Proof. reflexivity. Qed.

(* math.atan2 (y, x), C99 annex F for the infinite arguments *)
Definition eatan2 (a b : ext) : ext :=
  match a, b with
  | Raise e, _ => Raise e
  | _, Raise e => Raise e
  | NaN, _ => NaN
  | _, NaN => NaN
  | Fin y, Fin x => Fin (atan2 y x)
  | Fin _, PInf => Fin 0
  | Fin y, NInf => if Rltb y 0 then Fin (- PI) else Fin PI
  | PInf, Fin _ => Fin (PI / 2)
  | NInf, Fin _ => Fin (- (PI / 2))
  | PInf, PInf => Fin (PI / 4)
  | PInf, NInf => Fin (3 * PI / 4)
  | NInf, PInf => Fin (- (PI / 4))
  | NInf, NInf => Fin (- (3 * PI / 4))
  end.

(* ------------------------------------------------------------------ evaluation lemmas *)
Lemma esqrt_fin x : 0 <= x -> esqrt (Fin x) = Fin (sqrt x).
Proof. intros H; unfold esqrt; rewrite Rltb_false by exact H; reflexivity. Qed.
Lemma esqrt_neg x : x < 0 -> esqrt (Fin x) = NaN.
Proof. intros H; unfold esqrt; rewrite Rltb_true by exact H; reflexivity. Qed.
Lemma elog_fin x : 0 < x -> elog (Fin x) = Fin (ln x).
Proof.
  intros H; unfold elog; rewrite Rltb_false by lra; rewrite Reqb_false_gt by exact H; reflexivity.
Qed.
Lemma elog_neg x : x < 0 -> elog (Fin x) = NaN.
Proof. intros H; unfold elog; rewrite Rltb_true by exact H; reflexivity. Qed.
Lemma ediv_fin x y : y <> 0 -> ediv (Fin x) (Fin y) = Fin (x / y).
Proof. intros H; unfold ediv; rewrite Reqb_false by exact H; reflexivity. Qed.
Lemma eacos_fin x : -1 <= x <= 1 -> eacos (Fin x) = Fin (acos x).
Proof. intros [H1 H2]; unfold eacos; rewrite !Rltb_false by lra; reflexivity. Qed.

(* a result that is not a finite number *)
Definition not_fin (v : ext) : Prop := forall r, v <> Fin r.
Lemma not_fin_nan : not_fin NaN.
Proof. intros r H; discriminate H. Qed.
Lemma not_fin_raise e : not_fin (Raise e).
Proof. intros r H; discriminate H. Qed.

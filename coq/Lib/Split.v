(* character level: a line is the join of its tokens with single blanks (Python `" ".join(tokens)`), and
   `line.split(" ")` gives the tokens back; a blank-free pattern occurs in the line iff it occurs inside a token.
   This is the step from the raw text the loaders test (`"#" in line`) to the token-level tests of the models. *)
From Coq Require Import List String Ascii Bool Arith Lia.
From SX Require Import Lib.Strs Lib.StrLemmas.
Import ListNotations.
Local Open Scope string_scope.

Definition sp : ascii := " "%char.

Fixpoint split_on (c : ascii) (s : string) : list string :=
  match s with
  | EmptyString => [EmptyString]
  | String a s' =>
    if Ascii.eqb a c then EmptyString :: split_on c s'
    else match split_on c s' with
         | [] => [String a EmptyString]
         | t :: ts => String a t :: ts
         end
  end.

Fixpoint join (c : ascii) (l : list string) : string :=
  match l with
  | [] => EmptyString
  | [t] => t
  | t :: ts => t ++ String c (join c ts)
  end.

Definition no_char (c : ascii) (s : string) : bool := forallb (fun a => negb (Ascii.eqb a c)) (chars s).

Lemma split_nosep c : forall t, no_char c t = true -> split_on c t = [t].
Proof.
  induction t as [|a t IH]; intros H; [reflexivity|].
  cbn in H. apply andb_true_iff in H. destruct H as [Ha Ht]. apply negb_true_iff in Ha.
  cbn [split_on]. rewrite Ha, (IH Ht). reflexivity.
Qed.

Lemma split_app_sep c : forall t r, no_char c t = true -> split_on c (t ++ String c r) = t :: split_on c r.
Proof.
  induction t as [|a t IH]; intros r H.
  - cbn [append split_on]. rewrite Ascii.eqb_refl. reflexivity.
  - cbn in H. apply andb_true_iff in H. destruct H as [Ha Ht]. apply negb_true_iff in Ha.
    cbn [append split_on]. rewrite Ha, (IH r Ht). reflexivity.
Qed.

(* Python: " ".join(tokens).split(" ") == tokens for blank-free tokens (empty tokens allowed) *)
Theorem split_join c : forall l, l <> [] -> forallb (no_char c) l = true -> split_on c (join c l) = l.
Proof.
  induction l as [|t l IH]; intros Hne H; [congruence|].
  cbn in H. apply andb_true_iff in H. destruct H as [Ht Hl].
  destruct l as [|t' l'].
  - cbn [join]. apply split_nosep, Ht.
  - change (join c (t :: t' :: l')) with (t ++ String c (join c (t' :: l'))).
    rewrite (split_app_sep c t _ Ht). f_equal. apply IH; [discriminate|exact Hl].
Qed.

(* ---------------------------------------------------------------- substrings *)
Lemma prefix_app_sep p : forall x r, no_char sp p = true -> p <> EmptyString ->
  prefix p (x ++ String sp r) = prefix p x.
Proof.
  induction p as [|a p IH]; intros x r Hn Hne; [congruence|].
  cbn in Hn. apply andb_true_iff in Hn. destruct Hn as [Ha Hp]. apply negb_true_iff in Ha.
  destruct x as [|b x].
  - cbn [append prefix]. destruct (Ascii.ascii_dec a sp) as [E|_]; [|reflexivity].
    subst. rewrite Ascii.eqb_refl in Ha. discriminate.
  - cbn [append prefix]. destruct (Ascii.ascii_dec a b); [|reflexivity].
    destruct p as [|a' p']; [destruct x; reflexivity|]. apply IH; [exact Hp|discriminate].
Qed.

Lemma contains_app_sep p : forall x r, no_char sp p = true -> p <> EmptyString ->
  contains p (x ++ String sp r) = contains p x || contains p r.
Proof.
  intros x r Hn Hne. induction x as [|b x IH].
  - cbn [append contains]. destruct p as [|a p]; [congruence|].
    cbn in Hn. apply andb_true_iff in Hn. destruct Hn as [Ha _]. apply negb_true_iff in Ha.
    cbn [prefix]. destruct (Ascii.ascii_dec a sp) as [E|_]; [subst; rewrite Ascii.eqb_refl in Ha; discriminate|].
    reflexivity.
  - change (String b x ++ String sp r) with (String b (x ++ String sp r)).
    cbn [contains]. rewrite IH.
    change (String b (x ++ String sp r)) with (String b x ++ String sp r).
    rewrite (prefix_app_sep p (String b x) r Hn Hne). rewrite orb_assoc. reflexivity.
Qed.

(* Python: `p in " ".join(tokens)` for a blank-free, non-empty p  <->  p occurs inside one of the tokens *)
Theorem contains_join p : no_char sp p = true -> p <> EmptyString ->
  forall l, contains p (join sp l) = has p l.
Proof.
  intros Hn Hne. induction l as [|t l IH].
  - cbn. destruct p; [congruence|reflexivity].
  - destruct l as [|t' l'].
    + cbn [join has existsb]. rewrite orb_false_r. reflexivity.
    + change (join sp (t :: t' :: l')) with (t ++ String sp (join sp (t' :: l'))).
      rewrite (contains_app_sep p t _ Hn Hne), IH. reflexivity.
Qed.

(* the final newline of a raw line does not matter for a pattern without newline *)
Lemma prefix_app_nl p : forall x, no_char "010"%char p = true -> p <> EmptyString ->
  prefix p (x ++ String "010"%char EmptyString) = prefix p x.
Proof.
  induction p as [|a p IH]; intros x Hn Hne; [congruence|].
  cbn in Hn. apply andb_true_iff in Hn. destruct Hn as [Ha Hp]. apply negb_true_iff in Ha.
  destruct x as [|b x].
  - cbn [append prefix]. destruct (Ascii.ascii_dec a "010"%char) as [E|_]; [|reflexivity].
    subst. rewrite Ascii.eqb_refl in Ha. discriminate.
  - cbn [append prefix]. destruct (Ascii.ascii_dec a b); [|reflexivity].
    destruct p as [|a' p']; [destruct x; reflexivity|]. apply IH; [exact Hp|discriminate].
Qed.

Theorem contains_line p : no_char "010"%char p = true -> p <> EmptyString ->
  forall x, contains p (x ++ String "010"%char EmptyString) = contains p x.
Proof.
  intros Hn Hne. induction x as [|b x IH].
  - cbn [append contains]. destruct p as [|a p]; [congruence|].
    cbn in Hn. apply andb_true_iff in Hn. destruct Hn as [Ha _]. apply negb_true_iff in Ha.
    cbn [prefix]. destruct (Ascii.ascii_dec a "010"%char) as [E|_]; [subst; rewrite Ascii.eqb_refl in Ha; discriminate|].
    destruct p; reflexivity.
  - change (String b x ++ String "010"%char EmptyString) with (String b (x ++ String "010"%char EmptyString)).
    cbn [contains]. rewrite IH.
    change (String b (x ++ String "010"%char EmptyString)) with (String b x ++ String "010"%char EmptyString).
    rewrite (prefix_app_nl p (String b x) Hn Hne). reflexivity.
Qed.

(* ---------------------------------------------------------------- " p " : a blank-delimited word *)
Lemma blankfree_no_contains q t : In sp (chars q) -> no_char sp t = true -> contains q t = false.
Proof.
  intros Hq Ht. destruct (contains q t) eqn:E; [|reflexivity].
  apply contains_chars in E. specialize (E sp Hq). unfold no_char in Ht. rewrite forallb_forall in Ht.
  specialize (Ht sp E). rewrite Ascii.eqb_refl in Ht. discriminate.
Qed.
Lemma blankfree_no_prefix q t : In sp (chars q) -> no_char sp t = true -> prefix q t = false.
Proof.
  intros Hq Ht. destruct (prefix q t) eqn:E; [|reflexivity].
  apply prefix_chars in E. specialize (E sp Hq). unfold no_char in Ht. rewrite forallb_forall in Ht.
  specialize (Ht sp E). rewrite Ascii.eqb_refl in Ht. discriminate.
Qed.

Lemma chars_app a b : chars (a ++ b) = (chars a ++ chars b)%list.
Proof. induction a as [|c a IH]; cbn; [reflexivity|now rewrite IH]. Qed.

(* p followed by a blank at the start of  t ++ " " ++ r : exactly when t is p *)
Lemma prefix_word p : forall t r, no_char sp p = true -> no_char sp t = true ->
  prefix (p ++ String sp EmptyString) (t ++ String sp r) = String.eqb p t.
Proof.
  induction p as [|a p IH]; intros t r Hp Ht.
  - destruct t as [|b t]; cbn [append prefix String.eqb].
    + destruct (Ascii.ascii_dec sp sp); [destruct r; reflexivity|congruence].
    + cbn in Ht. apply andb_true_iff in Ht. destruct Ht as [Hb _]. apply negb_true_iff in Hb.
      destruct (Ascii.ascii_dec sp b) as [E|_]; [subst; rewrite Ascii.eqb_refl in Hb; discriminate|reflexivity].
  - cbn in Hp. apply andb_true_iff in Hp. destruct Hp as [Ha Hp]. apply negb_true_iff in Ha.
    destruct t as [|b t]; cbn [append prefix String.eqb].
    + destruct (Ascii.ascii_dec a sp) as [E|_]; [subst; rewrite Ascii.eqb_refl in Ha; discriminate|reflexivity].
    + cbn in Ht. apply andb_true_iff in Ht. destruct Ht as [_ Ht].
      destruct (Ascii.ascii_dec a b) as [->|Hne].
      * rewrite Ascii.eqb_refl. apply IH; assumption.
      * replace (Ascii.eqb a b) with false by (symmetry; apply Ascii.eqb_neq; exact Hne). reflexivity.
Qed.

Definition word (p : string) : string := String sp (p ++ String sp EmptyString).

Lemma contains_word_step p : forall t R, no_char sp t = true ->
  contains (word p) (t ++ String sp R) = prefix (p ++ String sp EmptyString) R || contains (word p) R.
Proof.
  induction t as [|b t IH]; intros R Ht.
  - cbn [append contains]. unfold word at 1. cbn [prefix].
    destruct (Ascii.ascii_dec sp sp); [reflexivity|congruence].
  - cbn in Ht. apply andb_true_iff in Ht. destruct Ht as [Hb Ht]. apply negb_true_iff in Hb.
    change (String b t ++ String sp R) with (String b (t ++ String sp R)). cbn [contains].
    rewrite (IH R Ht). unfold word at 1. cbn [prefix].
    destruct (Ascii.ascii_dec sp b) as [E|_]; [subst; rewrite Ascii.eqb_refl in Hb; discriminate|reflexivity].
Qed.

(* Python: `" p " in " ".join(tokens)`  <->  an inner token (neither first nor last) equals p *)
Theorem contains_word_join p : no_char sp p = true ->
  forall l, forallb (no_char sp) l = true -> contains (word p) (join sp l) = has_mid p l.
Proof.
  intros Hp. assert (Hq : In sp (chars (word p))) by (left; reflexivity).
  induction l as [|t l IH]; intros Hl; [reflexivity|].
  cbn in Hl. apply andb_true_iff in Hl. destruct Hl as [Ht Hl].
  destruct l as [|t' l'].
  - cbn [join]. unfold has_mid. cbn. apply blankfree_no_contains; assumption.
  - change (join sp (t :: t' :: l')) with (t ++ String sp (join sp (t' :: l'))).
    rewrite (contains_word_step p t _ Ht), (IH Hl).
    cbn in Hl. apply andb_true_iff in Hl. destruct Hl as [Ht' Hl'].
    unfold has_mid. cbn [tl]. destruct l' as [|t'' l''].
    + cbn [join removelast_s existsb]. rewrite orb_false_r.
      apply blankfree_no_prefix; [|exact Ht']. rewrite chars_app. apply in_or_app. right. left. reflexivity.
    + change (join sp (t' :: t'' :: l'')) with (t' ++ String sp (join sp (t'' :: l''))).
      rewrite (prefix_word p t' _ Hp Ht'). cbn [removelast_s existsb tl]. reflexivity.
Qed.

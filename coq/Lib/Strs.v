(* strings as the loaders use them: a line is the list of its blank-separated tokens
   (Python `line.replace("\n","").split(" ")`, which keeps empty tokens) *)
From Coq Require Import List String Ascii Bool Arith Lia.
Import ListNotations.
Local Open Scope string_scope.

Fixpoint contains (p s : string) : bool :=
  prefix p s || match s with EmptyString => false | String _ s' => contains p s' end.

Fixpoint srev_aux (s acc : string) : string :=
  match s with EmptyString => acc | String c s' => srev_aux s' (String c acc) end.
Definition srev (s : string) := srev_aux s EmptyString.
Definition suffix (p s : string) : bool := prefix (srev p) (srev s).

(* `p in line` for a blank-free pattern p: it occurs inside one token *)
Definition has (p : string) (l : list string) : bool := existsb (contains p) l.

Fixpoint removelast_s (l : list string) : list string :=
  match l with [] => [] | [x] => [] | x :: t => x :: removelast_s t end.

(* `" p " in line`: an inner token (neither first nor last) equals p *)
Definition has_mid (p : string) (l : list string) : bool :=
  existsb (String.eqb p) (removelast_s (tl l)).
(* `"p " in line`: a token that is not the last one ends with p *)
Definition has_suffix_sp (p : string) (l : list string) : bool :=
  existsb (suffix p) (removelast_s l).
(* `" p" in line`: a token that is not the first one starts with p *)
Definition has_sp_prefix (p : string) (l : list string) : bool :=
  existsb (prefix p) (tl l).
(* `" p" in line` where the line still carries its final newline: " end" etc.; same as above *)

Definition mem_str (s : string) (l : list string) : bool := existsb (String.eqb s) l.

Fixpoint index_of (s : string) (l : list string) : option nat :=
  match l with
  | [] => None
  | x :: t => if String.eqb s x then Some 0 else option_map S (index_of s t)
  end.

Fixpoint assoc {A} (k : string) (l : list (string * A)) : option A :=
  match l with [] => None | (k', v) :: t => if String.eqb k k' then Some v else assoc k t end.

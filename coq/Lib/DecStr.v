(* decimal digit strings and prefixes of tokens: what a cut through a token leaves behind *)
From Coq Require Import List String Ascii Bool Arith Lia.
From SX Require Import Lib.Strs Lib.StrLemmas.
Import ListNotations.
Local Open Scope string_scope.

(* ------------------------------------------------------------------ prefixes *)
Lemma prefix_split p : forall s, prefix p s = true -> exists r, s = p ++ r.
Proof.
  induction p as [|c p IH]; intros s H; [exists s; reflexivity|].
  destruct s as [|d s]; [discriminate|]. cbn in H.
  destruct (Ascii.ascii_dec c d) as [->|]; [|discriminate].
  destruct (IH s H) as (r & ->). exists r. reflexivity.
Qed.

Lemma prefix_app p r : prefix p (p ++ r) = true.
Proof.
  induction p as [|c p IH]; [destruct r; reflexivity|].
  cbn. destruct (Ascii.ascii_dec c c); [exact IH|congruence].
Qed.

Lemma prefix_refl s : prefix s s = true.
Proof. induction s as [|c s IH]; [reflexivity|]. cbn. destruct (Ascii.ascii_dec c c); [exact IH|congruence]. Qed.

Lemma prefix_nil s : prefix "" s = true.
Proof. destruct s; reflexivity. Qed.

Lemma prefix_trans q : forall p s, prefix q p = true -> prefix p s = true -> prefix q s = true.
Proof.
  induction q as [|c q IH]; intros p s H1 H2; [apply prefix_nil|].
  destruct p as [|d p]; [discriminate|]. cbn in H1.
  destruct (Ascii.ascii_dec c d) as [->|]; [|discriminate].
  destruct s as [|e s]; [discriminate|]. cbn in H2.
  destruct (Ascii.ascii_dec d e) as [->|]; [|discriminate].
  cbn. destruct (Ascii.ascii_dec e e); [|congruence]. exact (IH p s H1 H2).
Qed.

Lemma prefix_contains p s : prefix p s = true -> contains p s = true.
Proof. intros H. destruct s; cbn [contains]; rewrite H; reflexivity. Qed.

(* a pattern found inside a prefix of s is found inside s *)
Lemma contains_of_prefix q : forall p s, contains q p = true -> prefix p s = true -> contains q s = true.
Proof.
  induction p as [|c p IH]; intros s Hc Hp.
  - cbn in Hc. rewrite orb_false_r in Hc. destruct q; [|discriminate].
    apply prefix_contains, prefix_nil.
  - destruct s as [|d s]; [discriminate|]. cbn in Hp.
    destruct (Ascii.ascii_dec c d) as [->|]; [|discriminate].
    cbn [contains] in Hc. apply orb_true_iff in Hc. destruct Hc as [Hc|Hc].
    + cbn [contains]. apply orb_true_iff. left.
      apply (prefix_trans q (String d p) (String d s) Hc). cbn.
      destruct (Ascii.ascii_dec d d); [exact Hp|congruence].
    + cbn [contains]. apply orb_true_iff. right. exact (IH s Hc Hp).
Qed.

Lemma contains_prefix_false q p s : contains q s = false -> prefix p s = true -> contains q p = false.
Proof.
  intros H Hp. destruct (contains q p) eqn:E; [|reflexivity].
  rewrite (contains_of_prefix q p s E Hp) in H. discriminate.
Qed.

(* the prefixes of a literal, shortest first *)
Fixpoint prefixes (s : string) : list string :=
  match s with
  | EmptyString => [EmptyString]
  | String c t => EmptyString :: map (String c) (prefixes t)
  end.

Lemma prefix_in_prefixes p : forall s, prefix p s = true -> In p (prefixes s).
Proof.
  induction p as [|c p IH]; intros s H; [destruct s; left; reflexivity|].
  destruct s as [|d s]; [discriminate|]. cbn in H.
  destruct (Ascii.ascii_dec c d) as [->|]; [|discriminate].
  cbn [prefixes]. right. apply in_map, IH, H.
Qed.

Lemma prefix_length p : forall s, prefix p s = true -> String.length p <= String.length s.
Proof.
  induction p as [|c p IH]; intros s H; [cbn; lia|].
  destruct s as [|d s]; [discriminate|]. cbn in H.
  destruct (Ascii.ascii_dec c d); [|discriminate]. cbn. specialize (IH s H). lia.
Qed.

(* ------------------------------------------------------------------ decimal digit strings *)
Definition is_digit (c : ascii) : bool := existsb (Ascii.eqb c) (chars "0123456789").
Definition digit_val (c : ascii) : nat := nat_of_ascii c - 48.
Definition digits (s : string) : bool := forallb is_digit (chars s).

Fixpoint dval_acc (s : string) (acc : nat) : nat :=
  match s with EmptyString => acc | String c t => dval_acc t (10 * acc + digit_val c) end.
Definition dval (s : string) : nat := dval_acc s 0.

(* a decimal numeral as int -> str writes it: non-empty, digits only, no leading zero unless it is "0" *)
Definition canon (s : string) : bool :=
  digits s && match s with
              | EmptyString => false
              | String c EmptyString => true
              | String c _ => negb (Ascii.eqb c "0"%char)
              end.

Lemma dval_acc_app p : forall r acc, dval_acc (p ++ r) acc = dval_acc r (dval_acc p acc).
Proof. induction p as [|c p IH]; intros r acc; [reflexivity|]. cbn. apply IH. Qed.

Lemma dval_acc_lin r : forall acc, dval_acc r acc = acc * 10 ^ String.length r + dval_acc r 0.
Proof.
  induction r as [|c r IH]; intros acc; [cbn; lia|].
  cbn [dval_acc String.length]. rewrite IH. rewrite (IH (10 * 0 + digit_val c)).
  rewrite Nat.pow_succ_r'. lia.
Qed.

Lemma dval_app p r : dval (p ++ r) = dval p * 10 ^ String.length r + dval r.
Proof. unfold dval. rewrite dval_acc_app, dval_acc_lin. reflexivity. Qed.

Lemma digits_app p r : digits (p ++ r) = digits p && digits r.
Proof. induction p as [|c p IH]; [reflexivity|]. unfold digits in *. cbn. rewrite IH. apply andb_assoc. Qed.

Lemma digits_prefix p s : digits s = true -> prefix p s = true -> digits p = true.
Proof.
  intros Hd Hp. destruct (prefix_split p s Hp) as (r & ->). rewrite digits_app in Hd.
  apply andb_true_iff in Hd. tauto.
Qed.

Lemma is_digit_numeric c : is_digit c = true -> numeric_char c = true.
Proof.
  unfold is_digit, numeric_char. cbn [chars existsb]. intros H.
  repeat (apply orb_true_iff in H; destruct H as [H|H]; [rewrite H; repeat rewrite orb_true_r; reflexivity|]).
  discriminate.
Qed.

Lemma digits_numeric s : digits s = true -> numeric s = true.
Proof.
  unfold digits, numeric. rewrite !forallb_forall. intros H c Hc. apply is_digit_numeric, H, Hc.
Qed.

Lemma canon_digits s : canon s = true -> digits s = true.
Proof. unfold canon. intros H. apply andb_true_iff in H. tauto. Qed.
Lemma canon_ne s : canon s = true -> s <> "".
Proof. intros H ->. discriminate. Qed.

Lemma pow10_pos n : 1 <= 10 ^ n.
Proof. induction n; cbn; lia. Qed.

Lemma dval_first_nonzero c t : is_digit c = true -> Ascii.eqb c "0"%char = false -> 1 <= dval (String c t).
Proof.
  intros Hd Hz. change (String c t) with (String c "" ++ t). rewrite dval_app.
  assert (1 <= dval (String c "")).
  { unfold dval. cbn. unfold is_digit in Hd. cbn [chars existsb] in Hd.
    repeat (apply orb_true_iff in Hd; destruct Hd as [Hd|Hd];
            [apply Ascii.eqb_eq in Hd; subst c; first [discriminate Hz | cbn; lia]|]).
    discriminate. }
  pose proof (pow10_pos (String.length t)). nia.
Qed.

(* what a cut inside a canonical numeral leaves: the whole numeral, nothing, or a numeral at least ten times
   smaller that is not zero *)
Lemma canon_prefix s p :
  canon s = true -> prefix p s = true ->
  p = s \/ p = "" \/ (digits p = true /\ p <> "" /\ 1 <= dval p /\ 10 * dval p <= dval s).
Proof.
  intros Hc Hp. destruct (prefix_split p s Hp) as (r & ->).
  destruct r as [|d r]; [left; clear; induction p; cbn; congruence|].
  destruct p as [|c p]; [right; left; reflexivity|].
  right; right. pose proof (canon_digits _ Hc) as Hd. rewrite digits_app in Hd.
  apply andb_true_iff in Hd. destruct Hd as [Hdp Hdr].
  split; [exact Hdp|]. split; [discriminate|].
  assert (Hnz : Ascii.eqb c "0"%char = false).
  { unfold canon in Hc. apply andb_true_iff in Hc. destruct Hc as [_ Hc].
    cbn [append] in Hc. destruct (p ++ String d r) eqn:E.
    - destruct p; discriminate.
    - apply negb_true_iff in Hc. exact Hc. }
  assert (Hc0 : is_digit c = true).
  { unfold digits in Hdp. cbn in Hdp. apply andb_true_iff in Hdp. tauto. }
  split; [apply dval_first_nonzero; assumption|].
  rewrite dval_app. cbn [String.length]. rewrite Nat.pow_succ_r'.
  pose proof (pow10_pos (String.length r)). nia.
Qed.

(* character-level facts behind the token-level line tests *)
From Coq Require Import List String Ascii Bool Arith Lia.
From SX Require Import Lib.Strs.
Import ListNotations.
Local Open Scope string_scope.

Fixpoint chars (s : string) : list ascii :=
  match s with EmptyString => [] | String c t => c :: chars t end.

Lemma prefix_chars p : forall s, prefix p s = true -> incl (chars p) (chars s).
Proof.
  induction p as [|c p IH]; intros s H; [intros x []|].
  destruct s as [|d s]; [discriminate|]. cbn in H.
  destruct (Ascii.ascii_dec c d) as [->|Hne]; [|discriminate].
  intros x [<-|Hx]; [left; reflexivity|right; apply (IH s H x Hx)].
Qed.

Lemma contains_chars p : forall s, contains p s = true -> incl (chars p) (chars s).
Proof.
  induction s as [|d s IH]; intros H; cbn [contains] in H.
  - apply orb_true_iff in H. destruct H as [H|H]; [|discriminate]. apply (prefix_chars p "" H).
  - apply orb_true_iff in H. destruct H as [H|H].
    + apply (prefix_chars p _ H).
    + intros x Hx. right. apply (IH H x Hx).
Qed.

Lemma srev_aux_chars s : forall acc, chars (srev_aux s acc) = (rev (chars s) ++ chars acc)%list.
Proof.
  induction s as [|c s IH]; intros acc; [reflexivity|].
  cbn [srev_aux chars rev]. rewrite IH. cbn [chars]. rewrite <- app_assoc. reflexivity.
Qed.
Lemma srev_chars s : chars (srev s) = rev (chars s).
Proof. unfold srev. rewrite srev_aux_chars. cbn. apply app_nil_r. Qed.

Lemma suffix_chars p s : suffix p s = true -> incl (chars p) (chars s).
Proof.
  unfold suffix. intros H x Hx. apply prefix_chars in H.
  rewrite !srev_chars in H. apply in_rev. apply H. apply in_rev in Hx. exact Hx.
Qed.

(* the characters a numeric literal can consist of *)
Definition numeric_char (c : ascii) : bool :=
  existsb (Ascii.eqb c) (chars "0123456789+-.eE").
Definition numeric (s : string) : bool := forallb numeric_char (chars s).

Lemma numeric_no (test : string -> string -> bool) p c t :
  (forall s, test p s = true -> incl (chars p) (chars s)) ->
  In c (chars p) -> numeric_char c = false -> numeric t = true -> test p t = false.
Proof.
  intros Hincl Hin Hc Hn. destruct (test p t) eqn:E; [|reflexivity].
  specialize (Hincl t E c Hin). unfold numeric in Hn. rewrite forallb_forall in Hn.
  rewrite (Hn c Hincl) in Hc. discriminate.
Qed.

Lemma numeric_contains_hash t : numeric t = true -> contains "#" t = false.
Proof. apply (numeric_no contains "#" "#"%char); [apply contains_chars|left; reflexivity|reflexivity]. Qed.
Lemma numeric_contains_event t : numeric t = true -> contains "event" t = false.
Proof. apply (numeric_no contains "event" "v"%char); [apply contains_chars|cbn; tauto|reflexivity]. Qed.
Lemma numeric_contains_out t : numeric t = true -> contains "out" t = false.
Proof. apply (numeric_no contains "out" "o"%char); [apply contains_chars|cbn; tauto|reflexivity]. Qed.
Lemma numeric_contains_end t : numeric t = true -> contains "end" t = false.
Proof. apply (numeric_no contains "end" "n"%char); [apply contains_chars|cbn; tauto|reflexivity]. Qed.
Lemma numeric_suffix_in t : numeric t = true -> suffix "in" t = false.
Proof. apply (numeric_no suffix "in" "i"%char); [intros s; apply suffix_chars|cbn; tauto|reflexivity]. Qed.
Lemma numeric_prefix_start t : numeric t = true -> prefix "start" t = false.
Proof. apply (numeric_no prefix "start" "s"%char); [intros s; apply prefix_chars|cbn; tauto|reflexivity]. Qed.
Lemma numeric_neq t (w : string) c :
  In c (chars w) -> numeric_char c = false -> numeric t = true -> String.eqb w t = false.
Proof.
  intros Hin Hc Hn. destruct (String.eqb_spec w t) as [<-|]; [|reflexivity].
  unfold numeric in Hn. rewrite forallb_forall in Hn. rewrite (Hn c Hin) in Hc. discriminate.
Qed.

Lemma has_numeric_false (f : string -> bool) l :
  (forall t, numeric t = true -> f t = false) -> forallb numeric l = true -> existsb f l = false.
Proof.
  intros Hf. induction l as [|t l IH]; [reflexivity|]. cbn. intros H.
  apply andb_true_iff in H. destruct H as [Ht Hl]. rewrite (Hf t Ht), (IH Hl). reflexivity.
Qed.

(* order-preserving sub-lists: what "survivors keep their relative order and identity and are never
   duplicated" means for a filtered list *)
From Coq Require Import List Lia.
Import ListNotations.

Inductive subseq {A} : list A -> list A -> Prop :=
| subseq_nil : subseq [] []
| subseq_skip x l1 l2 : subseq l1 l2 -> subseq l1 (x :: l2)
| subseq_keep x l1 l2 : subseq l1 l2 -> subseq (x :: l1) (x :: l2).

Lemma subseq_refl {A} (l : list A) : subseq l l.
Proof. induction l; constructor; assumption. Qed.

Lemma subseq_filter {A} (f : A -> bool) l : subseq (filter f l) l.
Proof. induction l as [|x t IH]; cbn; [constructor|]. destruct (f x); constructor; exact IH. Qed.

Lemma subseq_In {A} (l1 l2 : list A) x : subseq l1 l2 -> In x l1 -> In x l2.
Proof.
  induction 1 as [|y l1 l2 _ IH|y l1 l2 _ IH]; cbn; intros H; [exact H|right; auto|].
  destruct H; [left; assumption|right; auto].
Qed.

Lemma subseq_length {A} (l1 l2 : list A) : subseq l1 l2 -> length l1 <= length l2.
Proof. induction 1; cbn; lia. Qed.

Lemma subseq_map {A B} (f : A -> B) l1 l2 : subseq l1 l2 -> subseq (map f l1) (map f l2).
Proof. induction 1; cbn; constructor; assumption. Qed.

Lemma subseq_NoDup {A} (l1 l2 : list A) : subseq l1 l2 -> NoDup l2 -> NoDup l1.
Proof.
  induction 1 as [|y l1 l2 S IH|y l1 l2 S IH]; intros N; [constructor| |].
  - inversion N; subst. auto.
  - inversion N as [|? ? Hn Hd]; subst. constructor; [|auto].
    intros Hi. apply Hn. eapply subseq_In; eassumption.
Qed.

Lemma subseq_trans {A} (l1 l2 l3 : list A) : subseq l1 l2 -> subseq l2 l3 -> subseq l1 l3.
Proof.
  intros H12 H23. revert l1 H12. induction H23 as [|x l2 l3 _ IH|x l2 l3 _ IH]; intros l1 H12.
  - exact H12.
  - constructor. apply IH. exact H12.
  - inversion H12; subst; constructor; apply IH; assumption.
Qed.

(* Facts about the Python conventions of Lib/Py.v (kept apart so that Lib/Py.v stays definitions-only). *)
From Coq Require Import List ZArith QArith Qround Bool Lia.
From SX Require Import Lib.Py.
Import ListNotations.

Lemma Qtrunc_comp x y : (x == y)%Q -> Qtrunc x = Qtrunc y.
Proof.
  intros E. unfold Qtrunc.
  assert (H : Qle_bool 0 x = Qle_bool 0 y) by (apply eq_true_iff_eq; rewrite !Qle_bool_iff, E; reflexivity).
  rewrite H. destruct (Qle_bool 0 y); [apply Qfloor_comp, E | f_equal; apply Qfloor_comp; rewrite E; reflexivity].
Qed.

Lemma Qtrunc_nonneg x : (0 <= x)%Q -> Qtrunc x = Qfloor x.
Proof. intros H. unfold Qtrunc. apply Qle_bool_iff in H. rewrite H. reflexivity. Qed.

Lemma pyget_ok {A} (l : list A) (i : Z) (d : A) : (0 <= i < Z.of_nat (length l))%Z ->
  pyget l i = Ok (nth (Z.to_nat i) l d).
Proof.
  intros H. unfold pyget.
  destruct (i <? 0)%Z eqn:E; [apply Z.ltb_lt in E; lia|]. rewrite E.
  rewrite (nth_error_nth' l d) by lia. reflexivity.
Qed.

(* the ordered k-tuples of DISTINCT positions of a list, written out: [sel k l] lists, for every way of picking
   k different positions in order, the values found there.  [dsum] (Lib/KRing.v) is the sum of their products, and
   there are n(n-1)...(n-k+1) of them. *)
From Coq Require Import List ZArith Ring Ring_theory Arith Lia.
From SX Require Import Lib.KRing.
Import ListNotations.

Fixpoint sel {A} (k : nat) (l : list A) : list (list A) :=
  match k with
  | O => [[]]
  | S k' => flat_map (fun xr => map (cons (fst xr)) (sel k' (snd xr))) (picks l)
  end.

Fixpoint falling (n k : nat) : nat :=
  match k with O => 1 | S k' => n * falling (n - 1) k' end.

Lemma picks_length {A} (l : list A) : length (picks l) = length l.
Proof. induction l as [|x t IH]; cbn; [reflexivity|]. rewrite map_length, IH. reflexivity. Qed.

Lemma picks_rest_length {A} (l : list A) : forall xr, In xr (picks l) -> length (snd xr) = length l - 1.
Proof.
  induction l as [|x t IH]; intros xr H; [destruct H|]. cbn [picks] in H. destruct H as [<-|H].
  - cbn. lia.
  - apply in_map_iff in H. destruct H as (yr & <- & Hy). cbn [snd length]. rewrite (IH yr Hy).
    destruct t; [destruct Hy|cbn; lia].
Qed.

Lemma flat_map_const_length {A B} (f : A -> list B) (l : list A) c :
  (forall x, In x l -> length (f x) = c) -> length (flat_map f l) = length l * c.
Proof.
  induction l as [|x t IH]; intros H; [reflexivity|]. cbn [flat_map length]. rewrite app_length, H by (left; reflexivity).
  rewrite IH by (intros; apply H; right; assumption). lia.
Qed.

(* how many tuples there are *)
Theorem sel_count {A} : forall k (l : list A), length (sel k l) = falling (length l) k.
Proof.
  induction k as [|k IH]; intros l; [reflexivity|]. cbn [sel falling].
  rewrite (flat_map_const_length _ _ (falling (length l - 1) k)).
  - rewrite picks_length. reflexivity.
  - intros xr H. rewrite map_length, IH, (picks_rest_length l xr H). reflexivity.
Qed.

(* every tuple has k entries *)
Theorem sel_length {A} : forall k (l : list A) t, In t (sel k l) -> length t = k.
Proof.
  induction k as [|k IH]; intros l t H; cbn [sel] in H.
  - destruct H as [<-|[]]. reflexivity.
  - apply in_flat_map in H. destruct H as (xr & _ & H). apply in_map_iff in H. destruct H as (t' & <- & H').
    cbn. f_equal. apply (IH _ _ H').
Qed.

Section Sum.
  Variable K : Type.
  Variables (k0 k1 : K) (kadd kmul ksub : K -> K -> K) (kopp : K -> K).
  Hypothesis Kth : ring_theory k0 k1 kadd kmul ksub kopp (@eq K).
  Add Ring KringT : Kth.

  (* dsum is the sum, over all ordered k-tuples of distinct positions, of the product of the entries *)
  Theorem dsum_is_tuple_sum : forall k l,
    dsum k0 k1 kadd kmul k l = ksum k0 kadd (map (kprod k1 kmul) (sel k l)).
  Proof.
    induction k as [|k IH]; intros l; [cbn; ring|].
    cbn [dsum sel]. induction (picks l) as [|xr ps IHp]; [reflexivity|].
    cbn [map ksum flat_map]. rewrite map_app, (ksum_app K k0 k1 kadd kmul ksub kopp Kth), <- IHp. f_equal.
    rewrite IH, map_map. cbn [kprod].
    rewrite <- (ksum_map_mul K k0 k1 kadd kmul ksub kopp Kth). reflexivity.
  Qed.
End Sum.

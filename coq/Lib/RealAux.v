(* Real-analysis helpers for the kinematics development (C08):
   bool-valued comparisons, atanh, atan2 (the stdlib has neither), the half-angle formula and
   the identity atanh c = - ln tan (acos c / 2). *)
From Coq Require Import Reals Bool Lra Lia.
Local Open Scope R_scope.

(* ---------------------------------------------------------------- bool-valued comparisons *)
Definition Rltb (a b : R) : bool := if Rlt_dec a b then true else false.
Definition Rleb (a b : R) : bool := if Rle_dec a b then true else false.
Definition Reqb (a b : R) : bool := if Req_EM_T a b then true else false.

Lemma Rltb_true a b : a < b -> Rltb a b = true.
Proof. intros H; unfold Rltb; destruct (Rlt_dec a b); [reflexivity | contradiction]. Qed.
Lemma Rltb_false a b : b <= a -> Rltb a b = false.
Proof. intros H; unfold Rltb; destruct (Rlt_dec a b); [lra | reflexivity]. Qed.
Lemma Rleb_true a b : a <= b -> Rleb a b = true.
Proof. intros H; unfold Rleb; destruct (Rle_dec a b); [reflexivity | contradiction]. Qed.
Lemma Rleb_false a b : b < a -> Rleb a b = false.
Proof. intros H; unfold Rleb; destruct (Rle_dec a b); [lra | reflexivity]. Qed.
Lemma Reqb_true a b : a = b -> Reqb a b = true.
Proof. intros H; unfold Reqb; destruct (Req_EM_T a b); [reflexivity | contradiction]. Qed.
Lemma Reqb_false a b : a <> b -> Reqb a b = false.
Proof. intros H; unfold Reqb; destruct (Req_EM_T a b); [contradiction | reflexivity]. Qed.
Lemma Reqb_false_lt a b : a < b -> Reqb a b = false.
Proof. intros H; apply Reqb_false; lra. Qed.
Lemma Reqb_false_gt a b : b < a -> Reqb a b = false.
Proof. intros H; apply Reqb_false; lra. Qed.

(* ---------------------------------------------------------------- squares and roots *)
Lemma sqrt_sq_nonneg x : 0 <= x -> sqrt x * sqrt x = x.
Proof. intros; apply sqrt_sqrt; assumption. Qed.

Lemma sum_sq_nonneg2 a b : 0 <= a * a + b * b.
Proof. nra. Qed.
Lemma sum_sq_nonneg3 a b c : 0 <= a * a + b * b + c * c.
Proof. nra. Qed.

Lemma Rabs_le_sqrt3 a b c : Rabs c <= sqrt (a * a + b * b + c * c).
Proof.
  rewrite <- (sqrt_Rsqr_abs c). apply sqrt_le_1_alt. unfold Rsqr. nra.
Qed.

Lemma Rabs_lt_sqrt3 a b c : 0 < a * a + b * b -> Rabs c < sqrt (a * a + b * b + c * c).
Proof.
  intros H. rewrite <- (sqrt_Rsqr_abs c). apply sqrt_lt_1_alt. unfold Rsqr. nra.
Qed.

(* ---------------------------------------------------------------- atanh *)
Definition atanh (x : R) : R := / 2 * ln ((1 + x) / (1 - x)).

Lemma atanh_0 : atanh 0 = 0.
Proof. unfold atanh. replace ((1 + 0) / (1 - 0)) with 1 by field. rewrite ln_1. ring. Qed.

Lemma atanh_opp x : -1 < x < 1 -> atanh (- x) = - atanh x.
Proof.
  intros [Hl Hu]. unfold atanh.
  replace ((1 + - x) / (1 - - x)) with (/ ((1 + x) / (1 - x))) by (field; lra).
  rewrite ln_Rinv.
  - ring.
  - apply Rdiv_lt_0_compat; lra.
Qed.

(* the form the code computes: 1/2 ln ((a + b) / (a - b)) = atanh (b / a) *)
Lemma half_ln_ratio a b : a <> 0 -> a - b <> 0 ->
  1 / 2 * ln ((a + b) / (a - b)) = atanh (b / a).
Proof.
  intros Ha Hab. unfold atanh.
  replace ((1 + b / a) / (1 - b / a)) with ((a + b) / (a - b)) by (field; split; assumption).
  lra.
Qed.

(* ---------------------------------------------------------------- atan2 *)
(* the angle of the point (x, y) in (-PI, PI]; atan2 0 0 = 0 (C99 convention for +0) *)
Definition atan2 (y x : R) : R :=
  if Rltb 0 x then atan (y / x)
  else if Rltb x 0 then (if Rleb 0 y then atan (y / x) + PI else atan (y / x) - PI)
  else if Rltb 0 y then PI / 2
  else if Rltb y 0 then - (PI / 2)
  else 0.

Lemma atan_pos u : 0 < u -> 0 < atan u.
Proof. intros H. rewrite <- atan_0. apply atan_increasing. exact H. Qed.
Lemma atan_neg u : u < 0 -> atan u < 0.
Proof. intros H. rewrite <- atan_0. apply atan_increasing. exact H. Qed.
Lemma atan_nonpos u : u <= 0 -> atan u <= 0.
Proof. intros [H | H]; [left; apply atan_neg; exact H | subst; rewrite atan_0; lra]. Qed.

Lemma atan2_bound y x : - PI < atan2 y x <= PI.
Proof.
  unfold atan2, Rltb, Rleb. pose proof PI_RGT_0 as Hpi.
  destruct (Rlt_dec 0 x) as [Hx | Hx].
  - pose proof (atan_bound (y / x)). lra.
  - destruct (Rlt_dec x 0) as [Hx' | Hx'].
    + destruct (Rle_dec 0 y) as [Hy | Hy].
      * pose proof (atan_bound (y / x)) as Hb.
        assert (Hq : y / x <= 0).
        { unfold Rdiv. assert (/ x < 0) by (apply Rinv_lt_0_compat; exact Hx'). nra. }
        pose proof (atan_nonpos _ Hq). lra.
      * pose proof (atan_bound (y / x)) as Hb.
        assert (Hq : 0 < y / x).
        { unfold Rdiv. assert (/ x < 0) by (apply Rinv_lt_0_compat; exact Hx'). nra. }
        pose proof (atan_pos _ Hq). lra.
    + destruct (Rlt_dec 0 y); [lra |]. destruct (Rlt_dec y 0); lra.
Qed.

Lemma sqrt_ratio_pos x y : 0 < x -> sqrt (1 + (y / x)²) = sqrt (x * x + y * y) / x.
Proof.
  intros Hx. unfold Rsqr.
  replace (1 + y / x * (y / x)) with ((x * x + y * y) / (x * x)) by (field; lra).
  rewrite sqrt_div_alt by nra. rewrite sqrt_square by lra. reflexivity.
Qed.

Lemma sqrt_ratio_neg x y : x < 0 -> sqrt (1 + (y / x)²) = sqrt (x * x + y * y) / (- x).
Proof.
  intros Hx. unfold Rsqr.
  replace (1 + y / x * (y / x)) with ((x * x + y * y) / ((- x) * (- x))) by (field; lra).
  rewrite sqrt_div_alt by nra. rewrite sqrt_square by lra. reflexivity.
Qed.

(* atan2 is THE polar angle: together with atan2_bound this determines it uniquely *)
Lemma atan2_cos_sin y x : x * x + y * y <> 0 ->
  cos (atan2 y x) = x / sqrt (x * x + y * y) /\ sin (atan2 y x) = y / sqrt (x * x + y * y).
Proof.
  intros Hne.
  assert (Hpos : 0 < x * x + y * y) by (pose proof (sum_sq_nonneg2 x y); lra).
  assert (Hs : 0 < sqrt (x * x + y * y)) by (apply sqrt_lt_R0; exact Hpos).
  unfold atan2, Rltb, Rleb.
  destruct (Rlt_dec 0 x) as [Hx | Hx].
  - rewrite cos_atan, sin_atan, sqrt_ratio_pos by exact Hx. split; field; lra.
  - destruct (Rlt_dec x 0) as [Hx' | Hx'].
    + destruct (Rle_dec 0 y) as [Hy | Hy].
      * rewrite neg_cos, neg_sin, cos_atan, sin_atan, sqrt_ratio_neg by exact Hx'. split; field; lra.
      * unfold Rminus. rewrite cos_plus, sin_plus, cos_neg, sin_neg, cos_PI, sin_PI.
        rewrite cos_atan, sin_atan, sqrt_ratio_neg by exact Hx'. split; field; lra.
    + assert (x = 0) by lra. subst x.
      assert (Hyy : 0 < y * y) by lra.
      destruct (Rlt_dec 0 y) as [Hy | Hy].
      * rewrite cos_PI2, sin_PI2.
        replace (0 * 0 + y * y) with (y * y) by ring. rewrite sqrt_square by lra. split; field; lra.
      * destruct (Rlt_dec y 0) as [Hy' | Hy'].
        -- rewrite cos_neg, sin_neg, cos_PI2, sin_PI2.
           replace (0 * 0 + y * y) with ((- y) * (- y)) by ring. rewrite sqrt_square by lra. split; field; lra.
        -- exfalso. assert (y = 0) by lra. subst y. lra.
Qed.

(* ---------------------------------------------------------------- logarithm *)
Lemma ln_quot x y : 0 < x -> 0 < y -> ln (x / y) = ln x - ln y.
Proof.
  intros Hx Hy. unfold Rdiv. rewrite ln_mult by (try apply Rinv_0_lt_compat; assumption).
  rewrite ln_Rinv by assumption. ring.
Qed.

Lemma ln_sqrt_half x : 0 < x -> ln (sqrt x) = ln x / 2.
Proof.
  intros Hx. assert (Hs : 0 < sqrt x) by (apply sqrt_lt_R0; exact Hx).
  assert (H : ln x = ln (sqrt x) + ln (sqrt x)).
  { rewrite <- ln_mult by exact Hs. rewrite sqrt_sqrt by lra. reflexivity. }
  lra.
Qed.

(* ---------------------------------------------------------------- half angle *)
Lemma tan_half x : 0 < x < PI -> tan (x / 2) = sin x / (1 + cos x).
Proof.
  intros [Hl Hu].
  assert (Hc : 0 < cos (x / 2)) by (apply cos_gt_0; lra).
  replace x with (2 * (x / 2)) at 2 3 by field.
  rewrite sin_2a, cos_2a_cos. unfold tan. field. split; nra.
Qed.

Lemma tan_half_pos x : 0 < x < PI -> 0 < tan (x / 2).
Proof. intros [Hl Hu]. apply tan_gt_0; lra. Qed.

(* pseudorapidity as a function of the polar angle *)
Lemma atanh_acos c : -1 < c < 1 -> atanh c = - ln (tan (acos c / 2)).
Proof.
  intros Hc.
  assert (Hb : 0 < acos c < PI) by (apply acos_bound_lt; exact Hc).
  rewrite tan_half by exact Hb.
  rewrite cos_acos, sin_acos by lra.
  assert (H1 : 0 < 1 - c) by lra. assert (H2 : 0 < 1 + c) by lra.
  assert (Hp : 0 < 1 - c²) by (unfold Rsqr; nra).
  unfold atanh.
  rewrite (ln_quot (sqrt (1 - c²)) (1 + c)) by (try apply sqrt_lt_R0; lra).
  rewrite ln_sqrt_half by exact Hp.
  replace (1 - c²) with ((1 - c) * (1 + c)) by (unfold Rsqr; ring).
  rewrite ln_mult by lra. rewrite (ln_quot (1 + c) (1 - c)) by lra. lra.
Qed.

(* cos of the polar angle determines it on [0, PI] *)
Lemma acos_range_cos c : -1 <= c <= 1 -> 0 <= acos c <= PI /\ cos (acos c) = c.
Proof. intros H. split; [apply acos_bound | apply cos_acos; exact H]. Qed.

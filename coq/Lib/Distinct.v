(* Sums over ordered tuples of DISTINCT positions of a list, with a prescribed
   number of conjugated factors:

     dsum2 a b l  =  sum over ordered (a+b)-tuples (i1..ia, j1..jb) of pairwise distinct
                     positions of l of   z_i1 ... z_ia * conj z_j1 ... conj z_jb

   defined by picking positions one after the other ([picks] of Lib/KRing.v), and

     pdsum2 a b l =  the same sum with one more, leading, unconjugated factor whose position is
                     restricted to the flagged ("particle of interest") elements of l.

   The carrier is any commutative ring with a ring endomorphism [cj]; the cons-recursions are
   proved once here.  Lib/Cpx.v instantiates it with pairs over K and complex conjugation. *)
From Coq Require Import List ZArith Ring Ring_theory Arith Lia Bool.
From SX Require Import Lib.KRing.
Import ListNotations.

Section Defs.
  Variable C : Type.
  Variables (c0 c1 : C) (cadd cmul : C -> C -> C) (cj : C -> C).

  Fixpoint dsumc (b : nat) (l : list C) : C :=
    match b with
    | O => c1
    | S b' => ksum c0 cadd (map (fun xr => cmul (cj (fst xr)) (dsumc b' (snd xr))) (picks l))
    end.

  Fixpoint dsum2 (a b : nat) (l : list C) : C :=
    match a with
    | O => dsumc b l
    | S a' => ksum c0 cadd (map (fun xr => cmul (fst xr) (dsum2 a' b (snd xr))) (picks l))
    end.

  (* first position restricted to the flagged elements *)
  Definition pdsum2 (a b : nat) (l : list (C * bool)) : C :=
    ksum c0 cadd (map (fun xr : (C * bool) * list (C * bool) =>
                        if snd (fst xr) then cmul (fst (fst xr)) (dsum2 a b (map fst (snd xr))) else c0)
                      (picks l)).

  (* number of ordered k-tuples of distinct positions of a list of length m: m (m-1) ... (m-k+1) *)
  Fixpoint ffact (k m : nat) : nat :=
    match k with O => 1 | S k' => m * ffact k' (pred m) end.
End Defs.

Arguments dsumc {C}. Arguments dsum2 {C}. Arguments pdsum2 {C}.

Section Lemmas.
  Variable C : Type.
  Variables (c0 c1 : C) (cadd cmul csub : C -> C -> C) (copp : C -> C) (cj : C -> C).
  Hypothesis Cth : ring_theory c0 c1 cadd cmul csub copp (@eq C).
  Add Ring CringD : Cth.

  Notation "0" := c0. Notation "1" := c1.
  Infix "+" := cadd. Infix "*" := cmul. Infix "-" := csub.
  Notation sum := (ksum c0 cadd).
  Notation DC := (dsumc c0 c1 cadd cmul cj).
  Notation DS := (dsum2 c0 c1 cadd cmul cj).
  Notation PD := (pdsum2 c0 c1 cadd cmul cj).
  Notation KN := (knat c0 c1 cadd).

  Lemma sum_ext {A} (f g : A -> C) l : (forall x, f x = g x) -> sum (map f l) = sum (map g l).
  Proof. apply ksum_map_ext. Qed.
  Lemma sum_add {A} (f g : A -> C) l : sum (map (fun x => f x + g x) l) = sum (map f l) + sum (map g l).
  Proof. apply (ksum_map_add C c0 c1 cadd cmul csub copp Cth). Qed.
  Lemma sum_mul {A} c (f : A -> C) l : sum (map (fun x => c * f x) l) = c * sum (map f l).
  Proof. apply (ksum_map_mul C c0 c1 cadd cmul csub copp Cth). Qed.

  Lemma picks_map {A B} (f : A -> B) l :
    picks (map f l) = map (fun xr => (f (fst xr), map f (snd xr))) (picks l).
  Proof.
    induction l as [|x t IH]; [reflexivity|].
    cbn [picks map fst snd]. rewrite IH, !map_map. reflexivity.
  Qed.

  Lemma sum_map_0 {A} (l : list A) : sum (map (fun _ => 0) l) = 0.
  Proof. induction l as [|x t IH]; simpl; [reflexivity | rewrite IH; ring]. Qed.

  Lemma dsumc_S b l : DC (S b) l = sum (map (fun xr => cj (fst xr) * DC b (snd xr)) (picks l)).
  Proof. reflexivity. Qed.

  Lemma dsumc_cons b : forall z l, DC (S b) (z :: l) = DC (S b) l + KN (S b) * cj z * DC b l.
  Proof.
    induction b as [|b IH]; intros z l.
    - rewrite !dsumc_S. cbn [picks map ksum fst snd dsumc knat]. rewrite map_map. cbn [fst snd]. ring.
    - rewrite dsumc_S. cbn [picks map ksum fst snd]. rewrite map_map. cbn [fst snd].
      rewrite (sum_ext _
                 (fun x => cj (fst x) * DC (S b) (snd x) + (KN (S b) * cj z) * (cj (fst x) * DC b (snd x)))).
      2:{ intros x. rewrite IH. ring. }
      rewrite sum_add, sum_mul, <- !dsumc_S.
      change (KN (S (S b))) with (1 + KN (S b)). ring.
  Qed.

  Lemma dsum2_0 b l : DS 0 b l = DC b l.
  Proof. reflexivity. Qed.

  Lemma dsum2_S a b l : DS (S a) b l = sum (map (fun xr => fst xr * DS a b (snd xr)) (picks l)).
  Proof. reflexivity. Qed.

  (* the cons-recursion:  a fresh element z enters a tuple either not at all, at one of the a plain
     slots, or at one of the b conjugated slots *)
  Lemma dsum2_cons a : forall b z l,
    DS a b (z :: l) = DS a b l + KN a * z * DS (pred a) b l + KN b * cj z * DS a (pred b) l.
  Proof.
    induction a as [|a IH]; intros b z l.
    - rewrite !dsum2_0. destruct b as [|b].
      + cbn [dsumc knat pred]. ring.
      + rewrite dsumc_cons. cbn [pred]. change (KN 0) with 0. ring.
    - rewrite dsum2_S. cbn [picks map ksum fst snd]. rewrite map_map. cbn [fst snd pred].
      rewrite (sum_ext _
                 (fun x => fst x * DS a b (snd x)
                           + ((KN a * z) * (fst x * DS (pred a) b (snd x))
                              + (KN b * cj z) * (fst x * DS a (pred b) (snd x))))).
      2:{ intros x. rewrite IH. ring. }
      rewrite !sum_add, !sum_mul.
      rewrite <- !dsum2_S.
      destruct a as [|a].
      + change (KN 0) with 0. change (KN 1) with (1 + 0). cbn [pred]. ring.
      + cbn [pred]. change (KN (S (S a))) with (1 + KN (S a)). ring.
  Qed.

  Lemma dsum2_nil a b : DS a b [] = match a, b with O, O => 1 | _, _ => 0 end.
  Proof. destruct a, b; reflexivity. Qed.

  (* multiplying every element by rho multiplies the sum by rho^a (cj rho)^b: with a = b and
     rho * cj rho = 1 the sum is invariant under a common rotation *)
  Hypothesis cj_mul : forall x y, cj (x * y) = cj x * cj y.

  Lemma dsumc_scale rho b : forall l,
    DC b (map (cmul rho) l) = kpow c1 cmul (cj rho) b * DC b l.
  Proof.
    induction b as [|b IH]; intros l; [cbn; ring|].
    rewrite !dsumc_S, picks_map, map_map. cbn [fst snd kpow].
    rewrite <- sum_mul.
    apply sum_ext. intros x. rewrite IH, cj_mul. ring.
  Qed.

  Lemma dsum2_scale rho a : forall b l,
    DS a b (map (cmul rho) l) = kpow c1 cmul rho a * kpow c1 cmul (cj rho) b * DS a b l.
  Proof.
    induction a as [|a IH]; intros b l.
    - rewrite !dsum2_0, dsumc_scale. cbn [kpow]. ring.
    - rewrite !dsum2_S, picks_map, map_map. cbn [fst snd kpow].
      rewrite <- sum_mul.
      apply sum_ext. intros x. rewrite IH. ring.
  Qed.

  Lemma kpow_unit rho n : rho * cj rho = 1 -> kpow c1 cmul rho n * kpow c1 cmul (cj rho) n = 1.
  Proof.
    intros H. induction n as [|n IH]; cbn [kpow]; [ring|].
    transitivity ((rho * cj rho) * (kpow c1 cmul rho n * kpow c1 cmul (cj rho) n)); [ring|].
    rewrite H, IH. ring.
  Qed.

  Lemma dsum2_rot rho k l : rho * cj rho = 1 -> DS k k (map (cmul rho) l) = DS k k l.
  Proof. intros H. rewrite dsum2_scale, (kpow_unit rho k H). ring. Qed.

  (* ---- first position restricted to flagged elements ---- *)
  Lemma pdsum2_nil a b : PD a b [] = 0.
  Proof. reflexivity. Qed.

  Lemma pdsum2_cons a b z f l :
    PD a b ((z, f) :: l) =
      (if f then z * DS a b (map fst l) else 0)
      + PD a b l + KN a * z * PD (pred a) b l + KN b * cj z * PD a (pred b) l.
  Proof.
    unfold pdsum2. cbn [picks map ksum fst snd]. rewrite map_map. cbn [fst snd map].
    rewrite (sum_ext _
               (fun x : (C * bool) * list (C * bool) => (if snd (fst x) then fst (fst x) * DS a b (map fst (snd x)) else 0)
                         + ((KN a * z) * (if snd (fst x) then fst (fst x) * DS (pred a) b (map fst (snd x)) else 0)
                            + (KN b * cj z) * (if snd (fst x) then fst (fst x) * DS a (pred b) (map fst (snd x)) else 0)))).
    2:{ intros x. destruct (snd (fst x)); [rewrite dsum2_cons|]; ring. }
    rewrite !sum_add, !sum_mul.
    ring.
  Qed.

  (* the restricted sum is covariant under a common rotation in the same way *)
  Lemma pdsum2_scale rho a b l :
    PD a b (map (fun p : C * bool => (rho * fst p, snd p)) l)
    = rho * (kpow c1 cmul rho a * kpow c1 cmul (cj rho) b) * PD a b l.
  Proof.
    unfold pdsum2. rewrite picks_map, map_map. cbn [fst snd].
    rewrite <- sum_mul.
    apply sum_ext. intros x.
    destruct (snd (fst x)); [|ring].
    rewrite map_map. cbn [fst].
    rewrite <- (map_map fst (cmul rho)), dsum2_scale. ring.
  Qed.

  (* auxiliary: a - b = 0 -> a = b, used by the generated step lemmas *)
  Lemma csub_eq0 x y : x - y = 0 -> x = y.
  Proof. intros H. transitivity ((x - y) + y); [ring | rewrite H; ring]. Qed.
End Lemmas.

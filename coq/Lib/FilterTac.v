(* Proof automation shared by the per-filter theorems of C03/C05: evaluate the argument handling on
   constructor-shaped arguments, split on the (few) rational comparisons, close by linear arithmetic. *)
From Coq Require Import List ZArith QArith Qabs Bool String Lia Lqa.
From SX Require Import Model.PyRt Model.FilterSpec Lib.PyRtLemmas.
Import ListNotations.

#[global] Opaque py_range.
#[global] Arguments seq_get : simpl never.
#[global] Arguments seq_set : simpl never.
#[global] Arguments get_obs : simpl never.
#[global] Arguments py_enumerate : simpl never.
#[global] Arguments vlen : simpl never.
#[global] Arguments py_isnan_any : simpl never.
#[global] Arguments py_asarray_int64 : simpl never.
#[global] Arguments py_in : simpl never.
#[global] Arguments py_not_in : simpl never.

(* integer facts as rational facts; numerals made visible to lra *)
Ltac z2q :=
  repeat match goal with
  | H : (_ <= _)%Z |- _ => apply inject_Z_le in H
  | H : (_ < _)%Z |- _ => apply inject_Z_lt in H
  end;
  unfold fofZ in *;
  rewrite ?Z.opp_involutive, ?inject_Z_opp in *;
  repeat match goal with
  | H : context [inject_Z ?c] |- _ =>
      lazymatch c with 0%Z => idtac | Zpos _ => idtac | Zneg _ => idtac end;
      change (inject_Z c) with (c # 1) in H
  | |- context [inject_Z ?c] =>
      lazymatch c with 0%Z => idtac | Zpos _ => idtac | Zneg _ => idtac end;
      change (inject_Z c) with (c # 1)
  end.
Ltac qlra := z2q; lra.

(* split on one rational comparison that occurs (outside binders) in the goal *)
Ltac qatom :=
  match goal with
  | |- context [Qle_bool ?a ?b] =>
      let E := fresh "Q" in destruct (Qle_bool a b) eqn:E; [apply Qle_bool_true in E | apply Qle_bool_false in E]
  | |- context [Qeq_bool ?a ?b] =>
      let E := fresh "Q" in destruct (Qeq_bool a b) eqn:E; [apply Qeq_bool_true in E | apply Qeq_bool_false in E]
  end.
Ltac qcases := repeat (qatom; simpl).
Ltac qdone := solve [ reflexivity | exfalso; qlra | exfalso; congruence ].

Lemma no_raise_obs accs evs ev p a : no_raise accs evs -> In ev evs -> In p ev -> In a accs ->
  exists v, obs p a = Ret v /\ oval p a = v.
Proof. intros H He Hp Ha. destruct (H ev p a He Hp Ha) as [v E]. exists v. unfold oval. rewrite E. auto. Qed.
Lemma int_or_nan_obs a evs ev p : int_or_nan a evs -> In ev evs -> In p ev ->
  exists v, obs p a = Ret v /\ oval p a = v /\ v <> PInf /\ v <> NInf.
Proof. intros H He Hp. destruct (H ev p He Hp) as [v [E [N1 N2]]]. exists v. unfold oval. rewrite E. auto. Qed.

Ltac unfold_spec_preds :=
  unfold window, window2, window_sym, between, between_excl, lo_of, hi_of, lim_val, num_val,
         holds, vanishes, nonzero, iszero, pdg_in, pdg_notin, status_in.

(* goal: forall p, In p ev -> <generated condition> p = Ok (<spec predicate> p) *)
Ltac particle_goal_with finish Hnr Hev :=
  let p := fresh "p" in let Hp := fresh "Hp" in
  intros p Hp; unfold_spec_preds;
  repeat match goal with
  | |- context [get_obs p ?a] =>
      let v := fresh "v" in let E1 := fresh "E" in let E2 := fresh "E" in
      first
      [ destruct (no_raise_obs _ _ _ p a Hnr Hev Hp ltac:(simpl; tauto)) as [v [E1 E2]]
      | let N1 := fresh "N" in let N2 := fresh "N" in
        destruct (int_or_nan_obs a _ _ p Hnr Hev Hp) as [v [E1 [E2 [N1 N2]]]] ];
      unfold get_obs; rewrite E1; try rewrite E2; clear E1 E2; destruct v
  end;
  simpl; finish.
Ltac particle_goal Hnr Hev := particle_goal_with ltac:(qcases; qdone) Hnr Hev.

(* the loop "updated.append([elem for elem in pl[i] if cond])" against map (filter pred) *)
Ltac append_loop_with finish Hnr :=
  rewrite py_range_len; simpl;
  erewrite append_loop_spec; [reflexivity|];
  let upd := fresh "upd" in let k := fresh "k" in let ev := fresh "ev" in let Hk := fresh "Hk" in
  intros upd k ev Hk; simpl;
  rewrite (seq_get_nat _ _ _ Hk); simpl;
  erewrite filterM_ok; [reflexivity|];
  apply nth_error_In in Hk;
  particle_goal_with finish Hnr Hk.
Ltac append_loop Hnr := append_loop_with ltac:(qcases; qdone) Hnr.

(* the loop "pl[i] = [elem for elem in pl[i] if cond]" against map (filter pred) *)
Ltac inplace_loop_with finish Hnr :=
  rewrite py_range_len; simpl;
  erewrite inplace_loop_spec; [reflexivity|];
  let cur := fresh "cur" in let k := fresh "k" in let ev := fresh "ev" in
  let Hk := fresh "Hk" in let Hc := fresh "Hc" in let Hl := fresh "Hl" in
  intros cur k ev Hk Hc Hl; simpl;
  rewrite (seq_get_nat _ _ _ Hc); simpl;
  erewrite filterM_ok; [simpl; rewrite seq_set_nat by (apply nth_error_Some; congruence); reflexivity|];
  apply nth_error_In in Hk;
  particle_goal_with finish Hnr Hk.
Ltac inplace_loop Hnr := inplace_loop_with ltac:(qcases; qdone) Hnr.

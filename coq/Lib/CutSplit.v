(* what `split` makes of a PREFIX of a joined string: the first j pieces unchanged, then a prefix of piece j *)
From Coq Require Import List String Ascii Bool Arith Lia.
From SX Require Import Lib.Strs Lib.StrLemmas Lib.Split Lib.DecStr.
Import ListNotations.
Local Open Scope string_scope.

Lemma no_char_app c a b : no_char c (a ++ b) = no_char c a && no_char c b.
Proof. unfold no_char. rewrite chars_app, forallb_app. reflexivity. Qed.

Lemma no_char_prefix c p s : no_char c s = true -> prefix p s = true -> no_char c p = true.
Proof.
  intros Hs Hp. destruct (prefix_split p s Hp) as (r & ->). rewrite no_char_app in Hs.
  apply andb_true_iff in Hs. tauto.
Qed.

Lemma prefix_app_sep_inv c : forall t r P, prefix P (t ++ String c r) = true ->
  prefix P t = true \/ exists P', P = t ++ String c P' /\ prefix P' r = true.
Proof.
  induction t as [|a t IH]; intros r P H.
  - destruct P as [|b P0]; [left; reflexivity|]. cbn [append] in H. cbn in H.
    destruct (Ascii.ascii_dec b c) as [->|]; [|discriminate]. right. exists P0. split; [reflexivity|exact H].
  - destruct P as [|b P0]; [left; reflexivity|]. cbn [append] in H. cbn in H.
    destruct (Ascii.ascii_dec b a) as [->|]; [|discriminate].
    destruct (IH r P0 H) as [Hl|(P' & -> & Hr)].
    + left. cbn. destruct (Ascii.ascii_dec a a); [exact Hl|congruence].
    + right. exists P'. split; [reflexivity|exact Hr].
Qed.

Lemma split_on_single_empty c P : split_on c P = [""] -> P = "".
Proof.
  destruct P as [|a P']; [reflexivity|]. cbn [split_on]. destruct (Ascii.eqb a c).
  - destruct P'; cbn; [discriminate|]. destruct (Ascii.eqb _ _); [discriminate|].
    destruct (split_on c P'); discriminate.
  - destruct (split_on c P'); discriminate.
Qed.

Theorem split_prefix_join c : forall l P,
  l <> [] -> forallb (no_char c) l = true -> prefix P (join c l) = true ->
  exists j p, (j < List.length l)%nat /\ prefix p (nth j l "") = true /\
              split_on c P = (firstn j l ++ [p])%list /\ (P <> "" -> j = 0%nat -> p <> "").
Proof.
  induction l as [|t l IH]; intros P Hne Hall Hp; [congruence|].
  cbn [forallb] in Hall. apply andb_true_iff in Hall. destruct Hall as [Ht Hl].
  assert (Hzero : prefix P t = true ->
          exists j p, (j < List.length (t :: l))%nat /\ prefix p (nth j (t :: l) "") = true /\
                      split_on c P = (firstn j (t :: l) ++ [p])%list /\ (P <> "" -> j = 0%nat -> p <> "")).
  { intros H. exists 0%nat, P. split; [cbn; lia|]. split; [exact H|]. split.
    - cbn [firstn app]. apply split_nosep. apply (no_char_prefix c P t Ht H).
    - intros HP _. exact HP. }
  destruct l as [|t' l'].
  - cbn [join] in Hp. apply Hzero, Hp.
  - change (join c (t :: t' :: l')) with (t ++ String c (join c (t' :: l'))) in Hp.
    destruct (prefix_app_sep_inv c t _ P Hp) as [H|(P' & -> & HP')]; [apply Hzero, H|].
    destruct (IH P' ltac:(discriminate) Hl HP') as (j & p & Hj & Hpj & Hs & _).
    exists (S j), p. split; [cbn [List.length] in *; lia|]. split; [exact Hpj|]. split.
    + rewrite (split_app_sep c t P' Ht), Hs. reflexivity.
    + intros _ E. discriminate E.
Qed.

Lemma no_char_join c d : d <> c -> forall l, forallb (no_char c) l = true -> no_char c (join d l) = true.
Proof.
  intros Hdc. induction l as [|t l IH]; intros H; [reflexivity|].
  cbn [forallb] in H. apply andb_true_iff in H. destruct H as [Ht Hl].
  destruct l as [|t' l']; [exact Ht|].
  change (join d (t :: t' :: l')) with (t ++ String d (join d (t' :: l'))).
  rewrite no_char_app, Ht. cbn [andb]. unfold no_char at 1. cbn [chars forallb].
  fold (no_char c (join d (t' :: l'))). rewrite (IH Hl), andb_true_r.
  apply negb_true_iff. destruct (Ascii.eqb_spec d c); [contradiction|reflexivity].
Qed.

(* comparison helpers used only by the generated correspondence cases *)
From Coq Require Import List ZArith QArith Qabs Bool.
Import ListNotations.

(* implementation value: a finite double as an exact rational, or NaN/inf tags *)
Inductive fv := Fin (q : Q) | PInf | NInf | NaN.

Definition close (tol : Q) (m i : Q) : bool :=
  Qle_bool (Qabs (m - i)) (tol * (Qabs m + Qabs i)).

(* 0 = exact, 1 = within tolerance, 2 = mismatch *)
Definition cmpq (tol : Q) (m i : Q) : nat :=
  if Qeq_bool m i then 0 else if close tol m i then 1 else 2.

Definition cmp_opt (tol : Q) (m : option Q) (i : fv) : nat :=
  match m, i with
  | Some a, Fin b => cmpq tol a b
  | None, Fin _ => 2
  | Some _, _ => 2
  | None, _ => 0
  end.

Fixpoint worst (l : list nat) : nat :=
  match l with [] => 0 | x :: t => Nat.max x (worst t) end.

Fixpoint cmp_list (tol : Q) (m : list (option Q)) (i : list fv) : nat :=
  match m, i with
  | [], [] => 0
  | a :: m', b :: i' => Nat.max (cmp_opt tol a b) (cmp_list tol m' i')
  | _, _ => 3
  end.

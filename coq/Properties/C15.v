(* C15 - the jackknife estimate is schedule-independent and matches the delete-d formula.
   Only statements closed by [exact]; proofs in Proofs/C15_*.v about Model/Pool.v over Gen/GenJackknife.v (number of
   deleted points, task seed, variance summand and scaling factor regenerated from the Python source on every run).
   St: generator state of a process; reseed / draw: rd.seed / rd.sample(range(n), d) (oracle); a schedule is a list of
   (worker, task index); init gives every worker's generator state when it starts (arbitrary: parent state at fork,
   initializer, earlier calls).  The model cannot exhibit the OS scheduler or multiprocessing itself. *)
From Coq Require Import List ZArith QArith Bool Permutation Field_theory Reals RealField.
From SX Require Import Lib.Py Lib.KRing Gen.GenJackknife Model.Pool Proofs.C15_Sched Proofs.C15_Formula Proofs.C15_Data.
Import ListNotations.

(* any assignment of the tasks to any workers in any order (re-executions allowed), any worker states: the pool
   returns the task values in index order, and a task value mentions neither the schedule nor a worker state *)
Theorem C15_sched :
  forall (St A R : Type) (reseed : Z -> St) (draw : St -> nat -> nat -> list nat * St) (stat : list A -> R)
         (seed : Z) (dfrac : Q) (data : list A) (N : nat) (sched : list (nat * nat)) (init : nat -> St),
  (forall i, (i < N)%nat -> In i (map snd sched)) ->
  pool_samples St A R reseed draw stat seed dfrac data N sched init
  = Some (map (task_value St A R reseed draw stat seed dfrac data) (seq 0 N)).
Proof. exact pool_any_schedule. Qed.
Print Assumptions C15_sched.

Theorem C15_sched_permutation :
  forall (St A R : Type) (reseed : Z -> St) (draw : St -> nat -> nat -> list nat * St) (stat : list A -> R)
         (seed : Z) (dfrac : Q) (data : list A) (N : nat) (sched : list (nat * nat)) (init : nat -> St),
  Permutation (map snd sched) (seq 0 N) ->
  pool_samples St A R reseed draw stat seed dfrac data N sched init
  = Some (map (task_value St A R reseed draw stat seed dfrac data) (seq 0 N)).
Proof. exact pool_permutation. Qed.
Print Assumptions C15_sched_permutation.

(* compute_jackknife_estimates is a function of (data, statistic, fraction, number of samples, seed):
   two runs with different schedules, worker counts and generator states return the same value or the same error *)
Theorem C15_deterministic :
  forall (K : Type) (k0 k1 : K) (kadd kmul ksub kdiv : K -> K -> K) (kopp kinv : K -> K),
  field_theory k0 k1 kadd kmul ksub kopp kdiv kinv (@eq K) ->
  forall (ksqrt : K -> K) (St A : Type) (reseed : Z -> St) (draw : St -> nat -> nat -> list nat * St)
         (stat : list A -> K) dfrac N seed data sched init sched' init',
  Permutation (map snd sched) (seq 0 (Z.to_nat N)) -> Permutation (map snd sched') (seq 0 (Z.to_nat N)) ->
  jackknife K k0 k1 kadd kmul ksub kdiv kopp ksqrt St A reseed draw dfrac N seed data stat sched init
  = jackknife K k0 k1 kadd kmul ksub kdiv kopp ksqrt St A reseed draw dfrac N seed data stat sched' init'.
Proof.
  exact (fun K k0 k1 kadd kmul ksub kdiv kopp kinv _ ksqrt St A reseed draw =>
           jackknife_deterministic K k0 k1 kadd kmul ksub kdiv kopp ksqrt St A reseed draw).
Qed.
Print Assumptions C15_deterministic.

(* the delete-d formula, any field of characteristic 0, every admissible d (d = 1 included), any schedule *)
Theorem C15_formula :
  forall (K : Type) (k0 k1 : K) (kadd kmul ksub kdiv : K -> K -> K) (kopp kinv : K -> K),
  field_theory k0 k1 kadd kmul ksub kopp kdiv kinv (@eq K) ->
  forall (ksqrt : K -> K) (St A : Type) (reseed : Z -> St) (draw : St -> nat -> nat -> list nat * St)
         (stat : list A -> K) dfrac N seed data sched init e,
  (forall z, z <> 0%Z -> kz k0 k1 kadd kmul kopp z <> k0) ->
  Permutation (map snd sched) (seq 0 (Z.to_nat N)) ->
  jackknife K k0 k1 kadd kmul ksub kdiv kopp ksqrt St A reseed draw dfrac N seed data stat sched init = Ok e ->
  let n := Z.of_nat (length data) in
  let d := gen_jk_delete_n dfrac n in
  let th := map (task_value St A K reseed draw stat seed dfrac data) (seq 0 (Z.to_nat N)) in
  (1 <= d)%Z /\ (1 <= N)%Z /\
  e = ksqrt (kmul (kdiv (ksub (kz k0 k1 kadd kmul kopp n) (kz k0 k1 kadd kmul kopp d))
                        (kmul (kz k0 k1 kadd kmul kopp d) (kz k0 k1 kadd kmul kopp N)))
                  (ksum k0 kadd (map (sqdev K kmul ksub (mean_samples K k0 k1 kadd kmul kdiv kopp th)) th))).
Proof. exact jackknife_formula. Qed.
Print Assumptions C15_formula.

(* the number of deleted points is floor(fraction * n), at least 1 and below n for every accepted configuration *)
Theorem C15_delete_n :
  forall f n, (0 <= f)%Q -> (f < 1)%Q -> (0 < n)%Z -> (0 <= gen_jk_delete_n f n < n)%Z.
Proof. exact delete_n_lt. Qed.
Print Assumptions C15_delete_n.

(* fraction outside [0,1), fewer than one sample, fewer than one deleted point: ValueError *)
Theorem C15_rejects :
  forall (K : Type) (k0 k1 : K) (kadd kmul ksub kdiv : K -> K -> K) (kopp ksqrt : K -> K)
         (St A : Type) (reseed : Z -> St) (draw : St -> nat -> nat -> list nat * St)
         dfrac N seed (data : list A) (stat : list A -> K) sched init,
  (~ (0 <= dfrac)%Q \/ (1 <= dfrac)%Q \/ (N < 1)%Z \/ (gen_jk_delete_n dfrac (Z.of_nat (length data)) < 1)%Z) ->
  jackknife K k0 k1 kadd kmul ksub kdiv kopp ksqrt St A reseed draw dfrac N seed data stat sched init = Err ValueError.
Proof. exact jackknife_rejects. Qed.
Print Assumptions C15_rejects.

(* reals: data multiplied by c (g) and a statistic with stat(c x) = c stat(x): the estimate is multiplied by |c| *)
Theorem C15_scale_R :
  forall (St A : Type) (reseed : Z -> St) (draw : St -> nat -> nat -> list nat * St)
         (g : A -> A) (c : R) (stat : list A -> R) dfrac N seed data sched init sched' init',
  Permutation (map snd sched) (seq 0 (Z.to_nat N)) -> Permutation (map snd sched') (seq 0 (Z.to_nat N)) ->
  (forall l, stat (map g l) = (c * stat l)%R) ->
  jackknife R 0%R 1%R Rplus Rmult Rminus Rdiv Ropp sqrt St A reseed draw dfrac N seed (map g data) stat sched' init'
  = rmap (Rmult (Rabs c))
         (jackknife R 0%R 1%R Rplus Rmult Rminus Rdiv Ropp sqrt St A reseed draw dfrac N seed data stat sched init).
Proof. exact jackknife_scale_R. Qed.
Print Assumptions C15_scale_R.

(* reals: the statistic is the mean, the data are shifted by a: same estimate (rd.sample returns d indices) *)
Theorem C15_shift_mean_R :
  forall (St : Type) (reseed : Z -> St) (draw : St -> nat -> nat -> list nat * St)
         (a : R) dfrac N seed (data : list R) sched init sched' init',
  Permutation (map snd sched) (seq 0 (Z.to_nat N)) -> Permutation (map snd sched') (seq 0 (Z.to_nat N)) ->
  (forall s n d, length (fst (draw s n d)) = d) ->
  jackknife R 0%R 1%R Rplus Rmult Rminus Rdiv Ropp sqrt St R reseed draw dfrac N seed
            (map (fun x => x + a)%R data) (kmean R 0%R 1%R Rplus Rmult Rdiv Ropp) sched' init'
  = jackknife R 0%R 1%R Rplus Rmult Rminus Rdiv Ropp sqrt St R reseed draw dfrac N seed
            data (kmean R 0%R 1%R Rplus Rmult Rdiv Ropp) sched init.
Proof. exact jackknife_shift_mean_R. Qed.
Print Assumptions C15_shift_mean_R.

(* any field: scaling / shifting for the schedule-free form (radicand times c^2 is in Proofs/C15_Data.spec_sq_scale) *)
Theorem C15_shift :
  forall (K : Type) (k0 k1 : K) (kadd kmul ksub kdiv : K -> K -> K) (kopp kinv : K -> K),
  field_theory k0 k1 kadd kmul ksub kopp kdiv kinv (@eq K) ->
  forall (ksqrt : K -> K) (St A : Type) (reseed : Z -> St) (draw : St -> nat -> nat -> list nat * St)
         (g : A -> A) (a : K) (stat : list A -> K) dfrac N seed data,
  (forall z, z <> 0%Z -> kz k0 k1 kadd kmul kopp z <> k0) ->
  (forall s n d, length (fst (draw s n d)) = d) ->
  (forall l, l <> [] -> stat (map g l) = kadd (stat l) a) ->
  jackknife_spec K k0 k1 kadd kmul ksub kdiv kopp ksqrt St A reseed draw dfrac N seed (map g data) stat
  = jackknife_spec K k0 k1 kadd kmul ksub kdiv kopp ksqrt St A reseed draw dfrac N seed data stat.
Proof. exact spec_shift. Qed.
Print Assumptions C15_shift.

(* non-vacuity: 4 data points, fraction 1/4 (d = 1), 2 samples on 3 workers started in reverse order; the oracle
   deletes index 0 for task 0 and index 3 for task 1; statistic = sum: samples 9 and 6, radicand (4-1)/(1*2) * 4.5 *)
Theorem C15_example :
  qjackknife_sq [(7, [0%nat]); (8, [3%nat])]%Z Q (1 # 4) 2 7 [1; 2; 3; 4]%Q (fun l => fold_left rplus l 0%Q)
                [(2, 1); (0, 0)]%nat (fun _ => None)
  = Ok ([9; 6]%Q, (27 # 4)%Q).
Proof. exact (eq_refl _). Qed.
Print Assumptions C15_example.

(* C13 source tie - the hand model Model/PtCorr.v (power sums with the unit weight for an unset weight, per-event numerators
   and denominators, ratio of the event sums, cumulant driver) equals the method bodies of
   src/sparkx/MultiParticlePtCorrelations.py as regenerated on every run (Gen/GenPtCorrMethods.v by
   tools/py2coq/gen_ptcorr_methods.py over the runtime Model/PtCorrRt.v).  Only statements closed by [exact]; proofs in
   Proofs/PtCorr_Source.v.

   K, k0 .. kis0: any commutative ring with a division and a zero test (the carrier of the C13 theorems); a float is
   [option K] (None: NaN / inf), a particle is the hand model's (pT_abs(), weight) with weight None = NaN.
   jk_new / jk_estimate: the constructor and compute_jackknife_estimates of sparkx.Jackknife (universally quantified);
   junk: the content of np.empty.  Domain: max_order = n in 1..8 (what __init__ accepts), at least one event.
   [norm]: what the loop of _P_W_k leaves in the caller's particles (a NaN weight has become 1.0);
   [push] / [with_arrays]: the object with the given N_events / D_events rows (a list, resp. 2-D arrays);
   [nd_pairs] / [nd_inter]: the (numerator, denominator) array of one order, resp. the alternating columns up to
   2*(order+1) (capped at max_order) that mean_pT_cumulants hands to its helper and to the jackknife. *)
From Coq Require Import String List ZArith QArith Bool Ring_theory.
From SX Require Import Lib.Py Lib.KRing Gen.GenPtCorr Model.PtCorr Model.PtCorrRt Gen.GenPtCorrMethods Proofs.PtCorr_Source.
Import ListNotations.

(* __init__: ValueError outside the orders 1..8 of the hand model (C13: c < 8), else the attributes as assigned:
   mean_pt_correlation(_error), kappa(_error), N_events, D_events = None; mean_pT_correlation(_error) do not exist yet *)
Theorem C13_source_init :
  forall (K : Type) (mo : Z),
  gen___init__ K mo =
  if ((mo <? 1) || (8 <? mo))%Z then Err ValueError
  else Ok (MkObj mo ANone ANone ANone ANone SNone SNone AUnset AUnset).
Proof. exact source___init__. Qed.
Print Assumptions C13_source_init.

(* _P_W_k: the two arrays are the hand model's power sums Pk, Wk (orders 1..n); every particle comes back with its
   weight replaced by 1 when it was NaN *)
Theorem C13_source_P_W_k :
  forall (K : Type) (k0 k1 : K) (kadd kmul ksub : K -> K -> K) (kopp : K -> K),
  ring_theory k0 k1 kadd kmul ksub kopp eq ->
  forall (kdiv : K -> K -> K) (kis0 : K -> bool) (self : obj K) (ev : list (particle K)) (n : nat),
  o_max_order self = Z.of_nat n -> (1 <= n <= 8)%nat ->
  gen__P_W_k K k0 k1 kadd kmul kopp kdiv kis0 self ev =
  Ok (map (fun i => Some (Pk K k0 k1 kadd kmul ev i)) (seq 0 n), map (fun i => Some (Wk K k0 k1 kadd kmul ev i)) (seq 0 n),
      map (fun p => (fst p, Some (wgt K k1 p))) ev).
Proof. exact source__P_W_k. Qed.
Print Assumptions C13_source_P_W_k.

(* max_order = 0 (not constructible): empty arrays, particles untouched; negative: np.zeros raises *)
Theorem C13_source_P_W_k_degenerate :
  forall (K : Type) (k0 k1 : K) (kadd kmul : K -> K -> K) (kopp : K -> K) (kdiv : K -> K -> K) (kis0 : K -> bool) (self : obj K)
         (ev : list (particle K)),
  (o_max_order self = 0%Z -> gen__P_W_k K k0 k1 kadd kmul kopp kdiv kis0 self ev = Ok ([], [], ev)) /\
  ((o_max_order self < 0)%Z -> gen__P_W_k K k0 k1 kadd kmul kopp kdiv kis0 self ev = Err ValueError).
Proof. exact source__P_W_k_degenerate. Qed.
Print Assumptions C13_source_P_W_k_degenerate.

(* _transverse_momentum_correlations_event_num_denom: one row [N_event 0 ev; ..; N_event (n-1) ev] is appended to
   N_events, one row of D_event to D_events (the which-polynomial-for-which-order chain) *)
Theorem C13_source_event :
  forall (K : Type) (k0 k1 : K) (kadd kmul ksub : K -> K -> K) (kopp : K -> K),
  ring_theory k0 k1 kadd kmul ksub kopp eq ->
  forall (kdiv : K -> K -> K) (kis0 : K -> bool) (self : obj K) (ev : list (particle K)) (n : nat) (rn rd : list (list (F K))),
  o_max_order self = Z.of_nat n -> (1 <= n <= 8)%nat ->
  o_N_events self = SList rn -> o_D_events self = SList rd ->
  gen__transverse_momentum_correlations_event_num_denom K k0 k1 kadd kmul ksub kopp kdiv kis0 self ev =
  Ok (push K self (rn ++ [map (fun c => N_event K k0 k1 kadd kmul ksub kopp c ev) (seq 0 n)])
                  (rd ++ [map (fun c => D_event K k0 k1 kadd kmul ksub kopp c ev) (seq 0 n)]),
      map (norm K k1) ev).
Proof. exact source__event. Qed.
Print Assumptions C13_source_event.

(* ... on an object whose N_events is not a list (None after __init__, an array after a public method): AttributeError *)
Theorem C13_source_event_no_list :
  forall (K : Type) (k0 k1 : K) (kadd kmul ksub : K -> K -> K) (kopp : K -> K),
  ring_theory k0 k1 kadd kmul ksub kopp eq ->
  forall (kdiv : K -> K -> K) (kis0 : K -> bool) (self : obj K) (ev : list (particle K)) (n : nat),
  o_max_order self = Z.of_nat n -> (1 <= n <= 8)%nat ->
  (forall r : list (list (F K)), o_N_events self <> SList r) ->
  gen__transverse_momentum_correlations_event_num_denom K k0 k1 kadd kmul ksub kopp kdiv kis0 self ev = Err AttributeError.
Proof. exact source__event_no_list. Qed.
Print Assumptions C13_source_event_no_list.

(* _compute_numerator_denominator_all_events: one row per event, in event order *)
Theorem C13_source_all_events :
  forall (K : Type) (k0 k1 : K) (kadd kmul ksub : K -> K -> K) (kopp : K -> K),
  ring_theory k0 k1 kadd kmul ksub kopp eq ->
  forall (kdiv : K -> K -> K) (kis0 : K -> bool) (self : obj K) (evs : list (list (particle K))) (n : nat) (rn rd : list (list (F K))),
  o_max_order self = Z.of_nat n -> (1 <= n <= 8)%nat ->
  o_N_events self = SList rn -> o_D_events self = SList rd ->
  gen__compute_numerator_denominator_all_events K k0 k1 kadd kmul ksub kopp kdiv kis0 self evs =
  Ok (push K self (rn ++ map (fun ev => map (fun c => N_event K k0 k1 kadd kmul ksub kopp c ev) (seq 0 n)) evs)
                  (rd ++ map (fun ev => map (fun c => D_event K k0 k1 kadd kmul ksub kopp c ev) (seq 0 n)) evs),
      map (map (norm K k1)) evs).
Proof. exact source__all_events. Qed.
Print Assumptions C13_source_all_events.

(* _compute_mean_pT_correlations on an (events x 2) array with at least one row: the ratio of the two column sums of the
   hand model (osum, then the division that is non-finite on a vanishing denominator), as a numpy scalar *)
Theorem C13_source_ratio :
  forall (K : Type) (k0 k1 : K) (kadd kmul ksub : K -> K -> K) (kopp : K -> K),
  ring_theory k0 k1 kadd kmul ksub kopp eq ->
  forall (kdiv : K -> K -> K) (kis0 : K -> bool) (A : Type) (self : obj K) (fn fd : A -> F K) (l : list A),
  l <> [] ->
  gen__compute_mean_pT_correlations K k0 k1 kadd kmul kopp kdiv kis0 self (map (fun a : A => [fn a; fd a]) l) =
  Ok (NpF (match osum K k0 kadd (map fn l), osum K k0 kadd (map fd l) with
           | Some a, Some d => if kis0 d then None else Some (kdiv a d)
           | _, _ => None
           end)).
Proof. exact source__compute_mean_pT_correlations. Qed.
Print Assumptions C13_source_ratio.

(* ... on an array without rows both sums are still the Python float 0.0: ZeroDivisionError (the hand model's corr says
   "non-finite" for an empty event list; the public methods never get here, see C13_source_correlations_no_events) *)
Theorem C13_source_ratio_no_rows :
  forall (K : Type) (k0 k1 : K) (kadd kmul : K -> K -> K) (kopp : K -> K) (kdiv : K -> K -> K) (kis0 : K -> bool) (self : obj K),
  kis0 k0 = true -> gen__compute_mean_pT_correlations K k0 k1 kadd kmul kopp kdiv kis0 self [] = Err ZeroDivisionError.
Proof. exact source__compute_mean_pT_correlations_no_rows. Qed.
Print Assumptions C13_source_ratio_no_rows.

(* mean_pT_correlations on accepted arguments and at least one event: the returned array is [corr 0 evs; ..; corr (n-1) evs]
   of the hand model; with compute_error the second array holds what the jackknife returns for the (numerator, denominator)
   array of each order and this very function; the attributes N_events / D_events / mean_pT_correlation(_error) are set;
   the caller's particles have their NaN weights replaced *)
Theorem C13_source_correlations :
  forall (K : Type) (k0 k1 : K) (kadd kmul ksub : K -> K -> K) (kopp : K -> K),
  ring_theory k0 k1 kadd kmul ksub kopp eq ->
  forall (kdiv : K -> K -> K) (kis0 : K -> bool) (JK : Type) (jk_new : pyval -> pyval -> pyval -> result JK)
         (jk_estimate : JK -> nd K -> (nd K -> result (scalar K)) -> result (scalar K)) (self : obj K) (evs : list (list (particle K)))
         (n : nat) (ce df ns seed : pyval) (b : bool) (errs : nat -> scalar K),
  o_max_order self = Z.of_nat n -> (1 <= n <= 8)%nat -> evs <> [] -> valid_args ce df ns seed b ->
  (b = true -> forall c : nat, (c < n)%nat ->
     bind (jk_new df ns seed)
          (fun jk : JK =>
             jk_estimate jk (nd_pairs K k0 k1 kadd kmul ksub kopp c evs)
               (fun a : nd K => gen__compute_mean_pT_correlations K k0 k1 kadd kmul kopp kdiv kis0
                                  (with_arrays K k0 k1 kadd kmul ksub kopp self n evs) a)) = Ok (errs c)) ->
  let cs := map (fun c => corr K k0 k1 kadd kmul ksub kopp kdiv kis0 c evs) (seq 0 n) in
  let es := map (fun c => sval (errs c)) (seq 0 n) in
  gen_mean_pT_correlations K k0 k1 kadd kmul ksub kopp kdiv kis0 JK jk_new jk_estimate self evs ce df ns seed =
  Ok (if b then RetPair cs es else RetArr cs,
      (let s := set_mean_pT_correlation (with_arrays K k0 k1 kadd kmul ksub kopp self n evs) (AArr cs) in
       if b then set_mean_pT_correlation_error s (AArr es) else s),
      map (map (norm K k1)) evs).
Proof. exact source_mean_pT_correlations. Qed.
Print Assumptions C13_source_correlations.

(* which arguments are rejected with which exception, in the order of the checks ([rejected] in Proofs/PtCorr_Source.v:
   delete_fraction not a float TypeError / outside (0,1) or NaN ValueError, number_samples not an int TypeError / <= 0
   ValueError, seed not an int TypeError, compute_error not a bool TypeError) *)
Theorem C13_source_correlations_rejects :
  forall (K : Type) (k0 k1 : K) (kadd kmul ksub : K -> K -> K) (kopp : K -> K) (kdiv : K -> K -> K) (kis0 : K -> bool)
         (JK : Type) (jk_new : pyval -> pyval -> pyval -> result JK) (jk_estimate : JK -> nd K -> (nd K -> result (scalar K)) -> result (scalar K))
         (self : obj K) (evs : list (list (particle K))) (ce df ns seed : pyval) (e : errcls),
  rejected ce df ns seed = Some e ->
  gen_mean_pT_correlations K k0 k1 kadd kmul ksub kopp kdiv kis0 JK jk_new jk_estimate self evs ce df ns seed = Err e.
Proof. exact source_mean_pT_correlations_rejects. Qed.
Print Assumptions C13_source_correlations_rejects.

(* no event: np.array([]) is one-dimensional and the first column access raises IndexError (the hand model's corr c []
   is "non-finite": the two differ on the empty event list, which the theorems above exclude) *)
Theorem C13_source_correlations_no_events :
  forall (K : Type) (k0 k1 : K) (kadd kmul ksub : K -> K -> K) (kopp : K -> K) (kdiv : K -> K -> K) (kis0 : K -> bool)
         (JK : Type) (jk_new : pyval -> pyval -> pyval -> result JK) (jk_estimate : JK -> nd K -> (nd K -> result (scalar K)) -> result (scalar K))
         (self : obj K) (n : nat) (ce df ns seed : pyval) (b : bool),
  o_max_order self = Z.of_nat n -> (1 <= n <= 8)%nat -> valid_args ce df ns seed b ->
  gen_mean_pT_correlations K k0 k1 kadd kmul ksub kopp kdiv kis0 JK jk_new jk_estimate self [] ce df ns seed = Err IndexError.
Proof. exact source_mean_pT_correlations_no_events. Qed.
Print Assumptions C13_source_correlations_no_events.

(* _kappa_cumulant: which polynomial of Gen/GenPtCorr.v for which k (evaluated at the floats), IndexError on a too short
   array, ValueError outside 1..8 *)
Theorem C13_source_kappa_cumulant :
  forall (K : Type) (k0 k1 : K) (kadd kmul ksub : K -> K -> K) (kopp : K -> K) (self : obj K) (C : list (F K)) (k : Z),
  gen__kappa_cumulant K k0 k1 kadd kmul ksub kopp self C k =
  if ((1 <=? k) && (k <=? 8))%Z then
    if (length C <? Z.to_nat k)%nat then Err IndexError
    else poly_val (gen_kappa (F K) (f0 k0) (f1 k1) (fadd kadd) (fmul kmul) (fsub ksub) (fopp kopp) (Z.to_nat k) (arr_fn C))
  else Err ValueError.
Proof. exact source__kappa_cumulant. Qed.
Print Assumptions C13_source_kappa_cumulant.

(* _compute_mean_pT_cumulants on an array whose columns 2j / 2j+1 hold the numerators / denominators of order index j:
   the cumulant polynomial of order c+1 of the ratios of the column sums, non-finite as soon as one ratio is
   ([cf], [kappa_l] in Proofs/PtCorr_Source.v; kappa_l of the hand model's correlations is the hand model's kappa) *)
Theorem C13_source_cumulant_helper :
  forall (K : Type) (k0 k1 : K) (kadd kmul ksub : K -> K -> K) (kopp : K -> K),
  ring_theory k0 k1 kadd kmul ksub kopp eq ->
  forall (kdiv : K -> K -> K) (kis0 : K -> bool) (self : obj K) (data : nd K) (c : nat),
  (c < 8)%nat -> data <> [] -> (forall r : list (F K), In r data -> (2 * S c <= length r)%nat) ->
  gen__compute_mean_pT_cumulants K k0 k1 kadd kmul ksub kopp kdiv kis0 self data (Z.of_nat c) =
  Ok (NpF (kappa_l K k0 k1 kadd kmul ksub kopp (map (cf K k0 kadd kdiv kis0 data) (seq 0 (S c))) c)).
Proof. exact source__compute_mean_pT_cumulants. Qed.
Print Assumptions C13_source_cumulant_helper.

Theorem C13_source_kappa_l_is_model :
  forall (K : Type) (k0 k1 : K) (kadd kmul ksub : K -> K -> K) (kopp : K -> K) (kdiv : K -> K -> K) (kis0 : K -> bool)
         (c : nat) (evs : list (list (particle K))),
  (c < 8)%nat ->
  kappa_l K k0 k1 kadd kmul ksub kopp (map (fun i => corr K k0 k1 kadd kmul ksub kopp kdiv kis0 i evs) (seq 0 (S c))) c
  = kappa K k0 k1 kadd kmul ksub kopp kdiv kis0 c evs.
Proof. exact kappa_l_model. Qed.
Print Assumptions C13_source_kappa_l_is_model.

(* mean_pT_cumulants on accepted arguments and at least one event: the returned array is [kappa 0 evs; ..; kappa (n-1) evs]
   of the hand model (which correlations are fed to which cumulant polynomial, through the slicing / interleaving of the
   columns); error estimates and attributes as for the correlations *)
Theorem C13_source_cumulants :
  forall (K : Type) (k0 k1 : K) (kadd kmul ksub : K -> K -> K) (kopp : K -> K),
  ring_theory k0 k1 kadd kmul ksub kopp eq ->
  forall (kdiv : K -> K -> K) (kis0 : K -> bool) (junk : F K) (JK : Type) (jk_new : pyval -> pyval -> pyval -> result JK)
         (jk_estimate : JK -> nd K -> (nd K -> result (scalar K)) -> result (scalar K)) (self : obj K) (evs : list (list (particle K)))
         (n : nat) (ce df ns seed : pyval) (b : bool) (errs : nat -> scalar K),
  o_max_order self = Z.of_nat n -> (1 <= n <= 8)%nat -> evs <> [] -> valid_args ce df ns seed b ->
  (b = true -> forall c : nat, (c < n)%nat ->
     bind (jk_new df ns seed)
          (fun jk : JK =>
             jk_estimate jk (nd_inter K k0 k1 kadd kmul ksub kopp n c evs)
               (fun a : nd K => gen__compute_mean_pT_cumulants K k0 k1 kadd kmul ksub kopp kdiv kis0
                                  (with_arrays K k0 k1 kadd kmul ksub kopp self n evs) a (Z.of_nat c))) = Ok (errs c)) ->
  let ks := map (fun c => kappa K k0 k1 kadd kmul ksub kopp kdiv kis0 c evs) (seq 0 n) in
  let es := map (fun c => sval (errs c)) (seq 0 n) in
  gen_mean_pT_cumulants K k0 k1 kadd kmul ksub kopp kdiv kis0 junk JK jk_new jk_estimate self evs ce df ns seed =
  Ok (if b then RetPair ks es else RetArr ks,
      (let s := set_kappa (with_arrays K k0 k1 kadd kmul ksub kopp self n evs) (AArr ks) in
       if b then set_kappa_error s (AArr es) else s),
      map (map (norm K k1)) evs).
Proof. exact source_mean_pT_cumulants. Qed.
Print Assumptions C13_source_cumulants.

Theorem C13_source_cumulants_rejects :
  forall (K : Type) (k0 k1 : K) (kadd kmul ksub : K -> K -> K) (kopp : K -> K) (kdiv : K -> K -> K) (kis0 : K -> bool)
         (junk : F K) (JK : Type) (jk_new : pyval -> pyval -> pyval -> result JK)
         (jk_estimate : JK -> nd K -> (nd K -> result (scalar K)) -> result (scalar K)) (self : obj K) (evs : list (list (particle K)))
         (ce df ns seed : pyval) (e : errcls),
  rejected ce df ns seed = Some e ->
  gen_mean_pT_cumulants K k0 k1 kadd kmul ksub kopp kdiv kis0 junk JK jk_new jk_estimate self evs ce df ns seed = Err e.
Proof. exact source_mean_pT_cumulants_rejects. Qed.
Print Assumptions C13_source_cumulants_rejects.

Theorem C13_source_cumulants_no_events :
  forall (K : Type) (k0 k1 : K) (kadd kmul ksub : K -> K -> K) (kopp : K -> K) (kdiv : K -> K -> K) (kis0 : K -> bool)
         (junk : F K) (JK : Type) (jk_new : pyval -> pyval -> pyval -> result JK)
         (jk_estimate : JK -> nd K -> (nd K -> result (scalar K)) -> result (scalar K)) (self : obj K) (n : nat) (ce df ns seed : pyval)
         (b : bool),
  o_max_order self = Z.of_nat n -> (1 <= n <= 8)%nat -> valid_args ce df ns seed b ->
  gen_mean_pT_cumulants K k0 k1 kadd kmul ksub kopp kdiv kis0 junk JK jk_new jk_estimate self [] ce df ns seed = Err IndexError.
Proof. exact source_mean_pT_cumulants_no_events. Qed.
Print Assumptions C13_source_cumulants_no_events.

(* names, order and defaults of the arguments of the two public methods; the defaults are accepted arguments *)
Theorem C13_source_public_arguments :
  gen_mean_pT_correlations_args
  = ["particle_list_all_events"; "compute_error"; "delete_fraction"; "number_samples"; "seed"]%string /\
  gen_mean_pT_cumulants_args = gen_mean_pT_correlations_args /\
  gen_mean_pT_correlations_default_compute_error = PBool true /\
  gen_mean_pT_correlations_default_number_samples = PInt 100 /\
  gen_mean_pT_correlations_default_seed = PInt 42 /\
  gen_mean_pT_cumulants_default_compute_error = PBool true /\
  gen_mean_pT_cumulants_default_number_samples = PInt 100 /\
  gen_mean_pT_cumulants_default_seed = PInt 42 /\
  gen_mean_pT_cumulants_default_delete_fraction = gen_mean_pT_correlations_default_delete_fraction.
Proof. exact source_public_arguments. Qed.
Print Assumptions C13_source_public_arguments.

Theorem C13_source_defaults_valid :
  valid_args gen_mean_pT_correlations_default_compute_error gen_mean_pT_correlations_default_delete_fraction
             gen_mean_pT_correlations_default_number_samples gen_mean_pT_correlations_default_seed true.
Proof. exact source_defaults_valid. Qed.
Print Assumptions C13_source_defaults_valid.

(* C05 - passing filters={...} to a constructor is equivalent to loading without it and calling the filter
   methods with the same arguments in the same order.
   Statements only, closed by [exact].  Generated on every run (tools/py2coq/gen_dispatch.py, gen_filters.py):
   gen_apply_kwargs_X = the `__apply_kwargs_filters` chain of loader X as written; gen_method_X / gen_arity_X = the
   filter methods of storer class X (BaseStorer wrappers and the class's overrides / refusals).
   Hand model (Model/CtorFilters.v, tied by the correspondence): [entry]/[ctor_spec] = the documented contract of
   a filters dictionary stated through the METHOD table; [file_loader]/[pobj_loader] = the per-event application
   loop of set_particle_list; [method_path] = one method call per dictionary entry. *)
From Coq Require Import List ZArith QArith Bool String.
From SX Require Import Model.PyRt Model.FilterSpec Model.CtorFilters Lib.PyRtLemmas Gen.GenFilters Gen.GenDispatch
  Proofs.C05_Tables Proofs.C05_Tables_Oscar Proofs.C05_Tables_Jetscape Proofs.C05_Tables_PObj
  Proofs.C05_Abstract Proofs.C05_Link Proofs.C05_Main.
Import ListNotations.

(* ---- the three dispatch tables: for EVERY dictionary (distinct keys, as in Python) and every event list the
   chain does, key by key and in order, what the filter method of that name does with that value: a switch value
   decides whether the argument-less method is called, other values are passed as the method's argument,
   spacetime_cut's [dim, limits] as its two arguments; a key that is not a filter method of the class ends in
   ValueError *)
Theorem C05_tables_Oscar : forall d ev, NoDup (map fst d) -> spacetime_ok d ->
  gen_apply_kwargs_Oscar ev (VDict d) = ctor_spec gen_arity_Oscar gen_method_Oscar d ev.
Proof. exact apply_kwargs_Oscar_spec. Qed.
Print Assumptions C05_tables_Oscar.

Theorem C05_tables_Jetscape : forall d ev, NoDup (map fst d) -> spacetime_ok d ->
  gen_apply_kwargs_Jetscape ev (VDict d) = ctor_spec gen_arity_Jetscape gen_method_Jetscape d ev.
Proof. exact apply_kwargs_Jetscape_spec. Qed.
Print Assumptions C05_tables_Jetscape.

Theorem C05_tables_PObj : forall d ev, NoDup (map fst d) -> spacetime_ok d ->
  gen_apply_kwargs_PObj ev (VDict d) = ctor_spec gen_arity_PObj gen_method_PObj d ev.
Proof. exact apply_kwargs_PObj_spec. Qed.
Print Assumptions C05_tables_PObj.

(* ---- key sets (finite tables, by computation): the keys a chain compares against are exactly the filter
   methods the storer class implements ("the names of the filters are the same as the names of the filter
   methods"), and each of them is a filter method of the class *)
Theorem C05_keys_Oscar :
  same_strings gen_dispatch_keys_Oscar gen_filter_methods_Oscar = true /\
  all_have_arity gen_arity_Oscar gen_dispatch_keys_Oscar = true.
Proof. exact keys_Oscar. Qed.
Print Assumptions C05_keys_Oscar.
Theorem C05_keys_Jetscape :
  same_strings gen_dispatch_keys_Jetscape gen_filter_methods_Jetscape = true /\
  all_have_arity gen_arity_Jetscape gen_dispatch_keys_Jetscape = true.
Proof. exact keys_Jetscape. Qed.
Print Assumptions C05_keys_Jetscape.
Theorem C05_keys_PObj :
  same_strings gen_dispatch_keys_PObj gen_filter_methods_PObj = true /\
  all_have_arity gen_arity_PObj gen_dispatch_keys_PObj = true.
Proof. exact keys_PObj. Qed.
Print Assumptions C05_keys_PObj.

(* the class tables are BaseStorer's wherever the class has the method *)
Theorem C05_class_tables :
  table_from_base gen_arity_Oscar gen_method_Oscar /\ table_from_base gen_arity_Jetscape gen_method_Jetscape /\
  table_from_base gen_arity_PObj gen_method_PObj.
Proof. exact (conj table_Oscar (conj table_Jetscape table_PObj)). Qed.
Print Assumptions C05_class_tables.

(* ---- a switch that is False has no effect, wherever it stands *)
Theorem C05_false_switch : forall arity method d1 d2 k ev, arity k = Some 0%nat ->
  ctor_spec arity method (d1 ++ (k, VBool false) :: d2) ev = ctor_spec arity method (d1 ++ d2) ev.
Proof. exact false_switch. Qed.
Print Assumptions C05_false_switch.

(* ---- an unknown filter name is rejected, never ignored *)
Theorem C05_unknown_key : forall arity method d ev k, In k (map fst d) -> arity k = None ->
  forall r, ctor_spec arity method d ev <> Ok r.
Proof. exact unknown_key. Qed.
Print Assumptions C05_unknown_key.
Theorem C05_unknown_key_first : forall arity method d ev k v, arity k = None ->
  ctor_spec arity method ((k, v) :: d) ev = Err ValueError.
Proof. exact unknown_key_first. Qed.
Print Assumptions C05_unknown_key_first.

Theorem C05_not_a_dict : forall ev v, py_isinstance v [T_dict] = false ->
  gen_apply_kwargs_Oscar ev v = Ok ev /\ gen_apply_kwargs_Jetscape ev v = Ok ev /\ gen_apply_kwargs_PObj ev v = Ok ev.
Proof. exact not_a_dict. Qed.
Print Assumptions C05_not_a_dict.

(* ---- the two lemmas about the generated filters: every documented call is a particle-level map or an
   event-level filter (run_op), whatever the class *)
Theorem C05_call_is_operation : forall c evs, admissible c -> obs_total evs ->
  entry gen_arity_Base gen_method_Base (call_key c) (call_val c) evs = Ok (run_op (call_op c) evs).
Proof. exact entry_op_Base. Qed.
Print Assumptions C05_call_is_operation.

(* ---- abstract equivalence: per-event application (loaders) = whole-list application (methods) on the events
   that still contain particles, for every chain of operations and every event list *)
Theorem C05_abstract_file : forall ops evs, nonempty (abs_file_loader ops evs) = nonempty (run_ops ops evs).
Proof. exact abs_equiv_file. Qed.
Print Assumptions C05_abstract_file.
Theorem C05_abstract_pobj : forall ops evs, nonempty (abs_pobj_loader ops evs) = nonempty (run_ops ops evs).
Proof. exact abs_equiv_pobj. Qed.
Print Assumptions C05_abstract_pobj.

(* ---- the property, per class: for every list of documented filter calls with distinct names that the class
   has, and every event list whose accessors do not raise: constructor path and method path both succeed, the
   events that still contain particles are identical (same particles, same order), and the positive entries of
   the constructor's count column are their sizes *)
Theorem C05_equiv_Oscar : forall cs evs,
  Forall admissible cs -> Forall (available gen_arity_Oscar) cs -> keys_distinct cs -> obs_total evs ->
  exists ctor counts meth,
    file_loader (fun ev => gen_apply_kwargs_Oscar ev (VDict (dict_of cs))) evs = Ok (ctor, counts) /\
    method_path gen_arity_Oscar gen_method_Oscar (dict_of cs) evs = Ok meth /\
    nonempty ctor = nonempty meth /\
    positive_counts counts = map zlen (nonempty meth).
Proof. exact (equiv_file _ _ table_Oscar _ apply_kwargs_Oscar_spec). Qed.
Print Assumptions C05_equiv_Oscar.

Theorem C05_equiv_Jetscape : forall cs evs,
  Forall admissible cs -> Forall (available gen_arity_Jetscape) cs -> keys_distinct cs -> obs_total evs ->
  exists ctor counts meth,
    file_loader (fun ev => gen_apply_kwargs_Jetscape ev (VDict (dict_of cs))) evs = Ok (ctor, counts) /\
    method_path gen_arity_Jetscape gen_method_Jetscape (dict_of cs) evs = Ok meth /\
    nonempty ctor = nonempty meth /\
    positive_counts counts = map zlen (nonempty meth).
Proof. exact (equiv_file _ _ table_Jetscape _ apply_kwargs_Jetscape_spec). Qed.
Print Assumptions C05_equiv_Jetscape.

Theorem C05_equiv_PObj : forall cs evs,
  Forall admissible cs -> Forall (available gen_arity_PObj) cs -> keys_distinct cs -> obs_total evs ->
  exists ctor counts meth,
    pobj_loader (fun ev => gen_apply_kwargs_PObj ev (VDict (dict_of cs))) evs = Ok (ctor, counts) /\
    method_path gen_arity_PObj gen_method_PObj (dict_of cs) evs = Ok meth /\
    nonempty ctor = nonempty meth /\
    positive_counts counts = map zlen (nonempty meth).
Proof. exact (equiv_pobj _ _ table_PObj _ apply_kwargs_PObj_spec). Qed.
Print Assumptions C05_equiv_PObj.

(* ---- non-vacuity: three events; charged_particles (True), keep_hadrons (False = no effect), multiplicity >= 1.
   Constructor path (event by event, emptied events dropped) and method path agree on the non-empty events *)
Theorem C05_example :
  match file_loader (fun ev => gen_apply_kwargs_Oscar ev (VDict ex5_dict)) ex5_evs,
        method_path gen_arity_Oscar gen_method_Oscar ex5_dict ex5_evs with
  | Ok (ctor, counts), Ok meth =>
      map (map pid) ctor = [[1]; []; [4]]%Z /\ map (map pid) meth = [[1]; [4]]%Z /\ counts = [1; 0; 1]%Z
  | _, _ => False
  end.
Proof. exact example_ctor_vs_methods. Qed.
Print Assumptions C05_example.

(* C17 - lattice addressing, arithmetic and CSV persistence are consistent.
   Statements only; proofs in Proofs/C17_*.v, the model in Model/Lattice.v (hand model, tied to the code by the
   correspondence of every run).  Axes are strictly increasing lists of rationals ([increasing]), coordinates are
   float values (finite / inf / NaN), indices are Python ints. *)
From Coq Require Import List ZArith QArith Qabs Bool.
From SX Require Import Lib.Py Lib.QCheck Model.Lattice Proofs.C17_Index Proofs.C17_Grid Proofs.C17_Csv.
Import ListNotations.

(* find_closest_indices is the inverse of get_coordinates at every node (any node counts, any increasing axes) *)
Theorem C17_closest_inverse_at_nodes :
  forall V (L : lattice V) (i j k : nat), incr_axes V L ->
    (i < npts (ax L))%nat -> (j < npts (ay L))%nat -> (k < npts (az L))%nat ->
    exists x y z, get_coordinates V L (Z.of_nat i) (Z.of_nat j) (Z.of_nat k) = Ok (x, y, z)
      /\ (find_closest_indices V L (Fin x) (Fin y) (Fin z) = WOk (i, j, k)
          \/ find_closest_indices V L (Fin x) (Fin y) (Fin z) = Warned (i, j, k))
      /\ (is_within_range V L (Fin x) (Fin y) (Fin z) = true ->
          find_closest_indices V L (Fin x) (Fin y) (Fin z) = WOk (i, j, k)).
Proof. exact closest_of_coordinates. Qed.
Print Assumptions C17_closest_inverse_at_nodes.

Theorem C17_closest_at_node :
  forall vs i, increasing vs -> (i < length vs)%nat -> find_closest_index (Fin (nth i vs 0)) vs = Ok i.
Proof. exact find_closest_at_node. Qed.
Print Assumptions C17_closest_at_node.

(* the closest-node search returns a node of minimal distance, the first one on ties *)
Theorem C17_closest_minimal :
  forall vs x m, find_closest_index (Fin x) vs = Ok m ->
    (m < length vs)%nat
    /\ (forall j, (j < length vs)%nat -> Qabs (nth m vs 0 - x) <= Qabs (nth j vs 0 - x))
    /\ (forall j, (j < m)%nat -> Qabs (nth m vs 0 - x) < Qabs (nth j vs 0 - x)).
Proof. exact find_closest_spec. Qed.
Print Assumptions C17_closest_minimal.

(* __get_index: Ok i exactly for the cell of x: v_i <= x < v_(i+1) (x <= v_last), i.e. i = max{i | v_i <= x} *)
Theorem C17_get_index_sound :
  forall vs x i, increasing vs -> get_index (Fin x) vs = Ok i ->
    ((i < length vs)%nat /\ nth i vs 0 <= x /\ ((S i < length vs)%nat -> x < nth (S i) vs 0) /\ x <= last vs 0)
    /\ nth 0 vs 0 <= x.
Proof. exact get_index_sound. Qed.
Print Assumptions C17_get_index_sound.

Theorem C17_get_index_complete :
  forall vs x i, increasing vs ->
    ((i < length vs)%nat /\ nth i vs 0 <= x /\ ((S i < length vs)%nat -> x < nth (S i) vs 0) /\ x <= last vs 0) ->
    get_index (Fin x) vs = Ok i.
Proof. exact get_index_complete. Qed.
Print Assumptions C17_get_index_complete.

(* outside [v_0, v_last] and for NaN / inf coordinates: ValueError - never another cell *)
Theorem C17_get_index_outside :
  forall vs x, vs <> [] -> x < nth 0 vs 0 \/ last vs 0 < x -> get_index (Fin x) vs = Err ValueError.
Proof. exact get_index_outside. Qed.
Print Assumptions C17_get_index_outside.

Theorem C17_get_index_nonfinite :
  forall vs v, vs <> [] -> match v with Fin _ => False | _ => True end -> get_index v vs = Err ValueError.
Proof. exact get_index_nonfinite. Qed.
Print Assumptions C17_get_index_nonfinite.

(* set_value then get_value anywhere in the same cell returns the value; every other node is unchanged *)
Theorem C17_set_get_same_cell :
  forall V (L : lattice V) i j k x y z x' y' z' v, incr_axes V L ->
    in_cell V L i j k x y z -> in_cell V L i j k x' y' z' ->
    exists L', set_value V L (Fin x) (Fin y) (Fin z) v = WOk L'
      /\ get_value V L' (Fin x') (Fin y') (Fin z') = WOk (Some v)
      /\ (forall a b c, (a, b, c) <> (i, j, k) -> grid L' a b c = grid L a b c)
      /\ ax L' = ax L /\ ay L' = ay L /\ az L' = az L.
Proof. exact set_get_same_cell. Qed.
Print Assumptions C17_set_get_same_cell.

Theorem C17_get_value_is_cell_corner :
  forall V (L : lattice V) i j k x y z, incr_axes V L -> in_cell V L i j k x y z ->
    get_value V L (Fin x) (Fin y) (Fin z) = WOk (Some (grid L i j k)).
Proof. exact get_value_cell. Qed.
Print Assumptions C17_get_value_is_cell_corner.

(* a point outside the lattice on any axis, or a non-finite coordinate, is rejected by all four accessors *)
Theorem C17_outside_rejected :
  forall V (L : lattice V) x y z v, nonempty_axes V L ->
    coord_rejected (avals (ax L)) x \/ coord_rejected (avals (ay L)) y \/ coord_rejected (avals (az L)) z ->
    set_value V L x y z v = WErr ValueError /\ get_value V L x y z = WErr ValueError
    /\ set_value_nearest_neighbor V L x y z v = WErr ValueError
    /\ get_value_nearest_neighbor V L x y z = WErr ValueError.
Proof. exact outside_rejected. Qed.
Print Assumptions C17_outside_rejected.

(* nearest-neighbour access addresses the closest node *)
Theorem C17_nearest_neighbor :
  forall V (L : lattice V) x y z v, nonempty_axes V L ->
    in_range (avals (ax L)) x -> in_range (avals (ay L)) y -> in_range (avals (az L)) z ->
    exists i j k, closest (avals (ax L)) x i /\ closest (avals (ay L)) y j /\ closest (avals (az L)) z k
      /\ set_value_nearest_neighbor V L (Fin x) (Fin y) (Fin z) v = WOk (with_grid V L (upd V (grid L) i j k v))
      /\ get_value_nearest_neighbor V L (Fin x) (Fin y) (Fin z) = WOk (Some (grid L i j k)).
Proof. exact nn_addresses_closest. Qed.
Print Assumptions C17_nearest_neighbor.

(* by-index access outside [0,n) - negative indices included - warns and touches nothing: no wrap-around *)
Theorem C17_by_index_outside :
  forall V (L : lattice V) i j k v,
    (i < 0 \/ Z.of_nat (npts (ax L)) <= i \/ j < 0 \/ Z.of_nat (npts (ay L)) <= j
     \/ k < 0 \/ Z.of_nat (npts (az L)) <= k)%Z ->
    set_value_by_index V L i j k v = Warned L /\ get_value_by_index V L i j k = Warned None.
Proof. exact by_index_outside. Qed.
Print Assumptions C17_by_index_outside.

Theorem C17_coordinates_outside :
  forall V (L : lattice V) i j k,
    (i < 0 \/ Z.of_nat (npts (ax L)) <= i \/ j < 0 \/ Z.of_nat (npts (ay L)) <= j
     \/ k < 0 \/ Z.of_nat (npts (az L)) <= k)%Z ->
    get_coordinates V L i j k = Err ValueError.
Proof. exact get_coordinates_outside. Qed.
Print Assumptions C17_coordinates_outside.

Theorem C17_by_index_inside :
  forall V (L : lattice V) (i j k : nat) v,
    (i < npts (ax L))%nat -> (j < npts (ay L))%nat -> (k < npts (az L))%nat ->
    set_value_by_index V L (Z.of_nat i) (Z.of_nat j) (Z.of_nat k) v = WOk (with_grid V L (upd V (grid L) i j k v))
    /\ get_value_by_index V L (Z.of_nat i) (Z.of_nat j) (Z.of_nat k) = WOk (Some (grid L i j k)).
Proof. exact by_index_inside. Qed.
Print Assumptions C17_by_index_inside.

(* interpolate_value: the node value at nodes (given that scipy's interpn returns it there), TypeError outside *)
Theorem C17_interpolate_at_node :
  forall V (interpn : lattice V -> fv * fv * fv -> V),
    (forall (L : lattice V) (i j k : nat),
      (i < npts (ax L))%nat -> (j < npts (ay L))%nat -> (k < npts (az L))%nat ->
      interpn L (Fin (nth i (avals (ax L)) 0), Fin (nth j (avals (ay L)) 0), Fin (nth k (avals (az L)) 0))
      = grid L i j k) ->
    forall (L : lattice V) (i j k : nat) x y z,
      (i < npts (ax L))%nat -> (j < npts (ay L))%nat -> (k < npts (az L))%nat ->
      get_coordinates V L (Z.of_nat i) (Z.of_nat j) (Z.of_nat k) = Ok (x, y, z) ->
      is_within_range V L (Fin x) (Fin y) (Fin z) = true ->
      interpolate_value V interpn L (Fin x) (Fin y) (Fin z) = Ok (grid L i j k).
Proof. exact interpolate_at_node. Qed.
Print Assumptions C17_interpolate_at_node.

Theorem C17_interpolate_outside :
  forall V (interpn : lattice V -> fv * fv * fv -> V) (L : lattice V) x y z,
    is_within_range V L x y z = false -> interpolate_value V interpn L x y z = Err TypeError.
Proof. exact interpolate_outside. Qed.
Print Assumptions C17_interpolate_outside.

(* +, -, *, / (any binary f), average and rescale act point-wise; wrong operands are reported *)
Theorem C17_operators_pointwise :
  forall V f (a b : lattice V), same_shape V a b = true ->
    exists r, operate V f a (OLat b) = Ok r
      /\ (forall i j k, grid r i j k = f (grid a i j k) (grid b i j k))
      /\ ax r = ax a /\ ay r = ay a /\ az r = az a.
Proof. exact operate_pointwise. Qed.
Print Assumptions C17_operators_pointwise.

Theorem C17_operators_errors :
  forall V f (a : lattice V),
    operate V f a ONotLattice = Err TypeError
    /\ forall b, same_shape V a b = false -> operate V f a (OLat b) = Err ValueError.
Proof. exact operate_errors. Qed.
Print Assumptions C17_operators_errors.

Theorem C17_average_pointwise :
  forall V vsum vdivn (self : lattice V) others, all_ok V self others ->
    exists r, average V vsum vdivn self others = Ok r
      /\ (forall i j k, grid r i j k
            = vdivn (vsum (grid self i j k :: map (fun l => grid l i j k) (lats V others))) (S (length others)))
      /\ ax r = ax self /\ ay r = ay self /\ az r = az self.
Proof. exact average_pointwise. Qed.
Print Assumptions C17_average_pointwise.

Theorem C17_average_errors :
  forall V vsum vdivn (self : lattice V) pre bad post, all_ok V self pre ->
    (bad = ONotLattice -> average V vsum vdivn self (pre ++ bad :: post) = Err TypeError)
    /\ (forall b, bad = OLat b -> same_shape V self b = false ->
        average V vsum vdivn self (pre ++ bad :: post) = Err ValueError).
Proof. exact average_errors. Qed.
Print Assumptions C17_average_errors.

Theorem C17_rescale_pointwise :
  forall V vmul (L : lattice V) f,
    (forall i j k, grid (rescale V vmul L f) i j k = vmul (grid L i j k) f)
    /\ ax (rescale V vmul L f) = ax L /\ ay (rescale V vmul L f) = ay L /\ az (rescale V vmul L f) = az L.
Proof. exact rescale_pointwise. Qed.
Print Assumptions C17_rescale_pointwise.

(* histories: after ANY sequence of set operations (by index, by coordinate, nearest neighbour; rejected ones
   included) a node holds the value of the last operation that addressed it ... *)
Theorem C17_history_last_write :
  forall V (L : lattice V) pre o post i j k,
    target V L o = Some (i, j, k) ->
    (forall o', In o' post -> target V L o' <> Some (i, j, k)) ->
    grid (run V L (pre ++ o :: post)) i j k = written V o.
Proof. exact run_last_write. Qed.
Print Assumptions C17_history_last_write.

(* ... and its initial value when no operation addressed it; the axes never change *)
Theorem C17_history_untouched :
  forall V (L : lattice V) ops i j k,
    (forall o, In o ops -> target V L o <> Some (i, j, k)) -> grid (run V L ops) i j k = grid L i j k.
Proof. exact run_never_written. Qed.
Print Assumptions C17_history_untouched.

Theorem C17_history_axes :
  forall V ops (L : lattice V), ax (run V L ops) = ax L /\ ay (run V L ops) = ay L /\ az (run V L ops) = az L.
Proof. exact run_axes. Qed.
Print Assumptions C17_history_axes.

(* CSV: extents, node counts and every grid value survive save_to_csv / load_from_csv, for any number format
   that satisfies the round-trip law (numpy's "%.18e" does; the law is exercised on random doubles every run) *)
Theorem C17_csv :
  forall tok (fmt : fv -> tok) (parse : tok -> fv), (forall d, parse (fmt d) = d) ->
  forall s : pstate, length (ext s) = 6%nat ->
    exists s', load tok parse (save tok fmt s) = Ok s'
      /\ ext s' = ext s /\ cnt s' = cnt s
      /\ forall i j k, (i < fst (fst (cnt s)))%nat -> (j < snd (fst (cnt s)))%nat -> (k < snd (cnt s))%nat ->
           pgrid s' i j k = pgrid s i j k.
Proof. exact csv_roundtrip. Qed.
Print Assumptions C17_csv.

(* non-vacuity: a 3 x 2 x 2 lattice with negative and mixed-sign axes; a point in the cell of node (1,0,1),
   one at the upper edge, one outside, a negative index *)
Theorem C17_example :
  let L := {| ax := {| amin := -1; amax := 1; avals := [-1; 0; 1] |};
              ay := {| amin := -3; amax := -2; avals := [-3; -2] |};
              az := {| amin := 0; amax := 1 # 2; avals := [0; 1 # 2] |};
              grid := fun _ _ _ => 0%Z |} in
  match set_value Z L (Fin (1 # 3)) (Fin (-5 # 2)) (Fin (1 # 2)) 7%Z with
  | WOk L' =>
    (get_value Z L' (Fin (1 # 2)) (Fin (-3)) (Fin (1 # 2)), get_value Z L' (Fin 1) (Fin (-2)) (Fin 0),
     get_value Z L' (Fin (3 # 2)) (Fin (-3)) (Fin 0), get_value Z L' NaN (Fin (-3)) (Fin 0),
     get_value_by_index Z L' (-1) 0 0, get_value_by_index Z L' 1 0 1,
     find_closest_indices Z L' (Fin (1 # 2)) (Fin (-2)) (Fin (1 # 4)))
    = (WOk (Some 7%Z), WOk (Some 0%Z), WErr ValueError, WErr ValueError, Warned None, WOk (Some 7%Z),
       WOk (1, 1, 0)%nat)
  | _ => False
  end.
Proof. exact (eq_refl _). Qed.
Print Assumptions C17_example.

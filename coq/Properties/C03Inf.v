(* C03, window limits that are an EXPLICIT infinite float (float('inf'), float('-inf'), math.inf, numpy.inf,
   numpy.float64 infinities) - closes the gap "limits are None/int/finite float" of Properties/C03.v.
   Statements only, closed by [exact]; proofs in Proofs/C03_InfLimits.v are about Gen/GenFilters.v, which is
   regenerated from src/sparkx/Filter.py on every run (tools/py2coq/gen_filters.py).

   Reading guide (new vocabulary, all defined in Proofs/C03_InfLimits.v; the rest is Model/FilterSpec.v).
   [xlim] = [XL l] (a limit of FilterSpec.v: None, int, finite float) or [XInf np pos] (an infinite float:
   pos = true is +inf, false is -inf; np = false is the Python float, np = true a numpy.float64).
   [v_xlim] is the Python value ([VFloat PInf], [VFloat NInf], [VNpFloat PInf], [VNpFloat NInf] of Model/PyRt.v).
   [xlo_of] / [xhi_of]: the limit value on the extended line (None = -inf / +inf, an infinite float = itself).
   [xlim_set l]: l is not None.  [xlim_nonneg l]: l is None, a number >= 0 or +inf (what pT, mT and the
   multiplicity cut accept).  [between a b v]: v lies between a and b, either order, false on NaN;
   [between_excl]: [min, max).  Every theorem is for ALL event lists (any number of events, empty events) and all
   particles (unset attributes = NaN, infinite quantities); [no_raise accs evs]: the accessors the filter reads
   returned a value on every particle. *)
From Coq Require Import List ZArith QArith Bool String.
From SX Require Import Model.PyRt Model.FilterSpec Lib.PyRtLemmas Gen.GenFilters Proofs.C03_Args Proofs.C03_InfLimits.
Import ListNotations.

(* ---- the limit validation accepts an infinite float wherever it accepts a number *)
Theorem C03_inf_limit_validation :
  forall a b an, (an = false -> xlim_set a /\ xlim_set b) -> (xlim_set a \/ xlim_set b) ->
  gen_ensure_tuple_is_valid_else_raise_error (v_pair (v_xlim a) (v_xlim b)) (VBool an) = Ok VNone.
Proof. exact ensure_tuple_inf_ok. Qed.
Print Assumptions C03_inf_limit_validation.

(* ---- inclusive windows with any mixture of None, finite and infinite limits, in either order *)
Theorem C03_inf_pT_cut :
  forall evs lo hi, (xlim_set lo \/ xlim_set hi) -> xlim_nonneg lo -> xlim_nonneg hi -> no_raise [M_pT_abs] evs ->
  gen_pT_cut evs (v_pair (v_xlim lo) (v_xlim hi)) =
  Ok (particle_level (fun p => between (xlo_of lo) (xhi_of hi) (oval p M_pT_abs)) evs).
Proof. exact pT_cut_inf_ok. Qed.
Print Assumptions C03_inf_pT_cut.

Theorem C03_inf_mT_cut :
  forall evs lo hi, (xlim_set lo \/ xlim_set hi) -> xlim_nonneg lo -> xlim_nonneg hi -> no_raise [M_mT] evs ->
  gen_mT_cut evs (v_pair (v_xlim lo) (v_xlim hi)) =
  Ok (particle_level (fun p => between (xlo_of lo) (xhi_of hi) (oval p M_mT)) evs).
Proof. exact mT_cut_inf_ok. Qed.
Print Assumptions C03_inf_mT_cut.

Theorem C03_inf_spacetime_cut :
  forall evs d lo hi, (xlim_set lo \/ xlim_set hi) -> no_raise [dim_acc d] evs ->
  gen_spacetime_cut evs (v_dim d) (v_pair (v_xlim lo) (v_xlim hi)) =
  Ok (particle_level (fun p => between (xlo_of lo) (xhi_of hi) (oval p (dim_acc d))) evs).
Proof. exact spacetime_cut_inf_ok. Qed.
Print Assumptions C03_inf_spacetime_cut.

Theorem C03_inf_rapidity_cut :
  forall evs c1 c2, xlim_set c1 -> xlim_set c2 -> no_raise [M_rapidity] evs ->
  gen_rapidity_cut evs (v_pair (v_xlim c1) (v_xlim c2)) =
  Ok (particle_level (fun p => between (xlo_of c1) (xhi_of c2) (oval p M_rapidity)) evs).
Proof. exact rapidity_cut_inf_ok. Qed.
Print Assumptions C03_inf_rapidity_cut.

Theorem C03_inf_pseudorapidity_cut :
  forall evs c1 c2, xlim_set c1 -> xlim_set c2 -> no_raise [M_pseudorapidity] evs ->
  gen_pseudorapidity_cut evs (v_pair (v_xlim c1) (v_xlim c2)) =
  Ok (particle_level (fun p => between (xlo_of c1) (xhi_of c2) (oval p M_pseudorapidity)) evs).
Proof. exact pseudorapidity_cut_inf_ok. Qed.
Print Assumptions C03_inf_pseudorapidity_cut.

Theorem C03_inf_spacetime_rapidity_cut :
  forall evs c1 c2, xlim_set c1 -> xlim_set c2 -> no_raise [M_spacetime_rapidity] evs ->
  gen_spacetime_rapidity_cut evs (v_pair (v_xlim c1) (v_xlim c2)) =
  Ok (particle_level (fun p => between (xlo_of c1) (xhi_of c2) (oval p M_spacetime_rapidity)) evs).
Proof. exact spacetime_rapidity_cut_inf_ok. Qed.
Print Assumptions C03_inf_spacetime_rapidity_cut.

(* ---- a single infinite number c: the window [-|c|, |c|] is the whole line, only an undefined quantity is dropped *)
Theorem C03_inf_rapidity_cut_single :
  forall evs np pos, no_raise [M_rapidity] evs ->
  gen_rapidity_cut evs (v_xlim (XInf np pos)) =
  Ok (particle_level (fun p => between (fneg (inf_val pos)) (inf_val pos) (oval p M_rapidity)) evs).
Proof. exact rapidity_cut_sym_inf_ok. Qed.
Print Assumptions C03_inf_rapidity_cut_single.

Theorem C03_inf_pseudorapidity_cut_single :
  forall evs np pos, no_raise [M_pseudorapidity] evs ->
  gen_pseudorapidity_cut evs (v_xlim (XInf np pos)) =
  Ok (particle_level (fun p => between (fneg (inf_val pos)) (inf_val pos) (oval p M_pseudorapidity)) evs).
Proof. exact pseudorapidity_cut_sym_inf_ok. Qed.
Print Assumptions C03_inf_pseudorapidity_cut_single.

Theorem C03_inf_spacetime_rapidity_cut_single :
  forall evs np pos, no_raise [M_spacetime_rapidity] evs ->
  gen_spacetime_rapidity_cut evs (v_xlim (XInf np pos)) =
  Ok (particle_level (fun p => between (fneg (inf_val pos)) (inf_val pos) (oval p M_spacetime_rapidity)) evs).
Proof. exact spacetime_rapidity_cut_sym_inf_ok. Qed.
Print Assumptions C03_inf_spacetime_rapidity_cut_single.

Theorem C03_inf_single_keeps_all_defined :
  forall a pos p, between (fneg (inf_val pos)) (inf_val pos) (oval p a) = negb (fisnan (oval p a)).
Proof. exact xwindow_sym_all. Qed.
Print Assumptions C03_inf_single_keeps_all_defined.

(* ---- multiplicity window [min, max) *)
Theorem C03_inf_multiplicity_cut :
  forall evs lo hi, (xlim_set lo \/ xlim_set hi) -> xlim_nonneg lo -> xlim_nonneg hi ->
  gen_multiplicity_cut evs (v_pair (v_xlim lo) (v_xlim hi)) =
  Ok (event_level (fun ev => between_excl (xlo_of lo) (xhi_of hi) (fofZ (Z.of_nat (List.length ev)))) evs).
Proof. exact multiplicity_cut_inf_ok. Qed.
Print Assumptions C03_inf_multiplicity_cut.

(* ---- the extended predicates are those of FilterSpec.v on its limits; NaN never passes; one-sided windows *)
Theorem C03_inf_spec_on_finite_limits :
  forall a lo hi p, between (xlo_of (XL lo)) (xhi_of (XL hi)) (oval p a) = window a lo hi p.
Proof. exact xwindow_finite. Qed.
Print Assumptions C03_inf_spec_on_finite_limits.

Theorem C03_inf_spec_on_numbers :
  forall a c1 c2 p,
  between (xlo_of (XL (lim_of_num c1))) (xhi_of (XL (lim_of_num c2))) (oval p a) = window2 a c1 c2 p.
Proof. exact xwindow_num. Qed.
Print Assumptions C03_inf_spec_on_numbers.

Theorem C03_inf_spec_multiplicity_on_finite_limits :
  forall evs lo hi,
  event_level (fun ev => between_excl (xlo_of (XL lo)) (xhi_of (XL hi)) (fofZ (Z.of_nat (List.length ev)))) evs =
  spec_multiplicity_cut evs lo hi.
Proof. exact xmult_finite. Qed.
Print Assumptions C03_inf_spec_multiplicity_on_finite_limits.

Theorem C03_inf_value_is_none_value :
  forall np, xhi_of (XInf np true) = hi_of LNone /\ xlo_of (XInf np false) = lo_of LNone.
Proof. exact xinf_is_none. Qed.
Print Assumptions C03_inf_value_is_none_value.

Theorem C03_inf_nan_dropped :
  forall a lo hi p, oval p a = NaN -> between (xlo_of lo) (xhi_of hi) (oval p a) = false.
Proof. exact xwindow_nan. Qed.
Print Assumptions C03_inf_nan_dropped.

Theorem C03_inf_upper_unbounded :
  forall a lo np p, xlim_set lo ->
  between (xlo_of lo) (xhi_of (XInf np true)) (oval p a) = fle (xlo_of lo) (oval p a).
Proof. exact xwindow_upper_inf. Qed.
Print Assumptions C03_inf_upper_unbounded.

Theorem C03_inf_lower_unbounded :
  forall a hi np p, xlim_set hi ->
  between (xlo_of (XInf np false)) (xhi_of hi) (oval p a) = fle (oval p a) (xhi_of hi).
Proof. exact xwindow_lower_inf. Qed.
Print Assumptions C03_inf_lower_unbounded.

(* ---- an explicit infinity on the side where None stands for it gives the result of None *)
Theorem C03_inf_limit_as_none :
  forall evs lo np, lo <> LNone ->
  (lim_nonneg lo -> no_raise [M_pT_abs] evs ->
     gen_pT_cut evs (v_pair (v_lim lo) (v_xlim (XInf np true))) = gen_pT_cut evs (v_pair (v_lim lo) VNone)) /\
  (lim_nonneg lo -> no_raise [M_mT] evs ->
     gen_mT_cut evs (v_pair (v_lim lo) (v_xlim (XInf np true))) = gen_mT_cut evs (v_pair (v_lim lo) VNone)) /\
  (lim_nonneg lo ->
     gen_multiplicity_cut evs (v_pair (v_lim lo) (v_xlim (XInf np true))) =
     gen_multiplicity_cut evs (v_pair (v_lim lo) VNone)) /\
  (forall d, no_raise [dim_acc d] evs ->
     gen_spacetime_cut evs (v_dim d) (v_pair (v_lim lo) (v_xlim (XInf np true))) =
     gen_spacetime_cut evs (v_dim d) (v_pair (v_lim lo) VNone) /\
     gen_spacetime_cut evs (v_dim d) (v_pair (v_xlim (XInf np false)) (v_lim lo)) =
     gen_spacetime_cut evs (v_dim d) (v_pair VNone (v_lim lo))).
Proof. exact inf_limit_as_none. Qed.
Print Assumptions C03_inf_limit_as_none.

(* ---- what the code rejects: -inf is a negative limit for pT / mT / multiplicity (ValueError whatever the other
   limit is); None next to an infinity in the rapidity cuts (ValueError, as None next to any number) *)
Theorem C03_inf_pT_cut_neginf_rejected :
  forall evs np other,
  gen_pT_cut evs (v_pair (v_xlim (XInf np false)) (v_xlim other)) = Err ValueError /\
  gen_pT_cut evs (v_pair (v_xlim other) (v_xlim (XInf np false))) = Err ValueError.
Proof. exact pT_cut_neginf_rejected. Qed.
Print Assumptions C03_inf_pT_cut_neginf_rejected.

Theorem C03_inf_mT_cut_neginf_rejected :
  forall evs np other,
  gen_mT_cut evs (v_pair (v_xlim (XInf np false)) (v_xlim other)) = Err ValueError /\
  gen_mT_cut evs (v_pair (v_xlim other) (v_xlim (XInf np false))) = Err ValueError.
Proof. exact mT_cut_neginf_rejected. Qed.
Print Assumptions C03_inf_mT_cut_neginf_rejected.

Theorem C03_inf_multiplicity_cut_neginf_rejected :
  forall evs np other,
  gen_multiplicity_cut evs (v_pair (v_xlim (XInf np false)) (v_xlim other)) = Err ValueError /\
  gen_multiplicity_cut evs (v_pair (v_xlim other) (v_xlim (XInf np false))) = Err ValueError.
Proof. exact multiplicity_cut_neginf_rejected. Qed.
Print Assumptions C03_inf_multiplicity_cut_neginf_rejected.

Theorem C03_inf_rapidity_cuts_none_rejected :
  forall evs np pos,
  gen_rapidity_cut evs (v_pair VNone (v_xlim (XInf np pos))) = Err ValueError /\
  gen_rapidity_cut evs (v_pair (v_xlim (XInf np pos)) VNone) = Err ValueError /\
  gen_pseudorapidity_cut evs (v_pair VNone (v_xlim (XInf np pos))) = Err ValueError /\
  gen_pseudorapidity_cut evs (v_pair (v_xlim (XInf np pos)) VNone) = Err ValueError /\
  gen_spacetime_rapidity_cut evs (v_pair VNone (v_xlim (XInf np pos))) = Err ValueError /\
  gen_spacetime_rapidity_cut evs (v_pair (v_xlim (XInf np pos)) VNone) = Err ValueError.
Proof. exact rapidity_cuts_inf_none_rejected. Qed.
Print Assumptions C03_inf_rapidity_cuts_none_rejected.

(* ---- non-vacuity: one event list (values 0, 1, 3, unset, +inf, -inf | empty event | 1/2), limit pairs with explicit
   infinities in both orders, next to None and a finite number, accepted and rejected; the same inputs were run
   on the real code (ids = particle identities per event) *)
Theorem C03_inf_example :
  ids (gen_pT_cut ex_evs (VTuple [VFloat (Fin (1 # 2)); VFloat PInf])) = Some [[2; 3; 5]; []; [6]]%Z /\
  ids (gen_pT_cut ex_evs (VTuple [VFloat PInf; VFloat (Fin (1 # 2))])) = Some [[2; 3; 5]; []; [6]]%Z /\
  ids (gen_pT_cut ex_evs (VTuple [VFloat PInf; VNone])) = Some [[5]; []; []]%Z /\
  ids (gen_pT_cut ex_evs (VTuple [VNpFloat PInf; VFloat PInf])) = Some [[5]; []; []]%Z /\
  gen_pT_cut ex_evs (VTuple [VNone; VFloat NInf]) = Err ValueError /\
  ids (gen_spacetime_cut ex_evs (VStr "t") (VTuple [VFloat NInf; VInt 1])) = Some [[1; 2; 7]; []; [6]]%Z /\
  ids (gen_spacetime_cut ex_evs (VStr "t") (VTuple [VFloat PInf; VFloat NInf])) = Some [[1; 2; 3; 5; 7]; []; [6]]%Z /\
  ids (gen_spacetime_cut ex_evs (VStr "t") (VTuple [VNone; VFloat NInf])) = Some [[7]; []; []]%Z /\
  ids (gen_rapidity_cut ex_evs (VTuple [VFloat NInf; VFloat (Fin 1)])) = Some [[1; 2; 7]; []; [6]]%Z /\
  ids (gen_rapidity_cut ex_evs (VFloat NInf)) = Some [[1; 2; 3; 5; 7]; []; [6]]%Z /\
  gen_rapidity_cut ex_evs (VTuple [VFloat NInf; VNone]) = Err ValueError /\
  ids (gen_multiplicity_cut ex_evs (VTuple [VFloat PInf; VInt 1])) = Some [[1; 2; 3; 4; 5; 7]; [6]]%Z /\
  ids (gen_multiplicity_cut ex_evs (VTuple [VFloat PInf; VNone])) = Some [[]]%Z /\
  gen_multiplicity_cut ex_evs (VTuple [VFloat NInf; VFloat PInf]) = Err ValueError.
Proof. exact example_inf_limits. Qed.
Print Assumptions C03_inf_example.

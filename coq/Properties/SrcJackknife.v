(* C15 source tie - the hand model Model/Pool.v (per-task computation, pool, driver) equals the method bodies of
   src/sparkx/Jackknife.py as regenerated on every run (Gen/GenJackknifeMethods.v by tools/py2coq/gen_jackknife_methods.py over
   the runtime Model/JackknifeRt.v).  Only statements closed by [exact]; proofs in Proofs/Jackknife_Source.v.
   K, k0 .. ksqrt: the carrier of the statistic's values and np.sqrt; is_number: what isinstance(x, (int, float)) answers;
   St / reseed / draw: the `random` generator of a process (rd.seed, rd.sample(range(n), d): oracle); A: one entry of the data
   along axis 0; Args / Kwargs: the extra arguments handed to the statistic; cpu_count: what os.cpu_count() returns.
   multiprocessing is ASSUMED to behave as Model/JackknifeRt.v rt_pool / rt_starmap say (tasks in order on one initialised
   worker, results by position); that every real schedule gives the same list is C15_sched on the hand model, whose task is
   proved equal to the translated one here (C15_source_helper_unpack_model). *)
From Coq Require Import List ZArith QArith Bool Permutation Ring_theory.
From SX Require Import Lib.Py Lib.KRing Model.Pool Model.JackknifeRt Gen.GenJackknifeMethods Proofs.Jackknife_Source.
Import ListNotations.

(* __init__ on a float fraction and int number of samples / seed: the two range checks are the first two lines of the hand
   model's driver (Pool.jackknife_sq); otherwise the object holds the three arguments and the parent's generator is seeded *)
Theorem C15_source_init :
  forall (K : Type) (k0 k1 : K) (kadd kmul ksub kdiv : K -> K -> K) (kopp ksqrt : K -> K) (is_number : K -> bool)
         (St : Type) (reseed : Z -> St) (draw : St -> nat -> nat -> list nat * St) (A Args Kwargs : Type) (cpu_count : pyval)
         (dfrac : Q) (N seed : Z) (g : St),
  gen_init K k0 k1 kadd kmul ksub kdiv kopp ksqrt is_number St reseed draw A Args Kwargs cpu_count (VFloat dfrac) (VInt N) (VInt seed) g
  = if negb (Qle_bool 0 dfrac) || Qle_bool 1 dfrac then Err ValueError
    else if (N <? 1)%Z then Err ValueError
    else Ok (jk_object dfrac N seed, reseed seed).
Proof. exact source_init. Qed.
Print Assumptions C15_source_init.

(* a fraction that is not a float, a number of samples or a seed that is not an int (bool counts as int): TypeError *)
Theorem C15_source_init_type_error :
  forall (K : Type) (k0 k1 : K) (kadd kmul ksub kdiv : K -> K -> K) (kopp ksqrt : K -> K) (is_number : K -> bool)
         (St : Type) (reseed : Z -> St) (draw : St -> nat -> nat -> list nat * St) (A Args Kwargs : Type) (cpu_count : pyval)
         (vd vn vs : pyval) (g : St),
  (forall q, vd <> VFloat q) \/ (forall z, vn <> VInt z) \/ (forall z, vs <> VInt z) ->
  gen_init K k0 k1 kadd kmul ksub kdiv kopp ksqrt is_number St reseed draw A Args Kwargs cpu_count vd vn vs g = Err TypeError.
Proof. exact source_init_type_error. Qed.
Print Assumptions C15_source_init_type_error.

(* _init_random: rd.seed(self.seed) *)
Theorem C15_source_init_random :
  forall (K : Type) (k0 k1 : K) (kadd kmul ksub kdiv : K -> K -> K) (kopp ksqrt : K -> K) (is_number : K -> bool)
         (St : Type) (reseed : Z -> St) (draw : St -> nat -> nat -> list nat * St) (A Args Kwargs : Type) (cpu_count : pyval)
         (df : option Q) (ns : option Z) (seed : Z) (g : St),
  gen_init_random K k0 k1 kadd kmul ksub kdiv kopp ksqrt is_number St reseed draw A Args Kwargs cpu_count (JSelf df ns (Some seed)) g = Ok (tt, reseed seed).
Proof. exact source_init_random. Qed.
Print Assumptions C15_source_init_random.

(* _init_random_subprocess (the pool initializer): rd.seed(seed) *)
Theorem C15_source_init_random_subprocess :
  forall (K : Type) (k0 k1 : K) (kadd kmul ksub kdiv : K -> K -> K) (kopp ksqrt : K -> K) (is_number : K -> bool)
         (St : Type) (reseed : Z -> St) (draw : St -> nat -> nat -> list nat * St) (A Args Kwargs : Type) (cpu_count : pyval)
         (self : jself) (z : Z) (g : St),
  gen_init_random_subprocess K k0 k1 kadd kmul ksub kdiv kopp ksqrt is_number St reseed draw A Args Kwargs cpu_count self z g = Ok (tt, reseed z).
Proof. exact source_init_random_subprocess. Qed.
Print Assumptions C15_source_init_random_subprocess.

(* _randomly_delete_data on a process whose generator is in state g: d = int(f * n) of the n indices are drawn and deleted
   (np_delete is the hand model's); the value and the generator state afterwards *)
Theorem C15_source_randomly_delete_data :
  forall (K : Type) (k0 k1 : K) (kadd kmul ksub kdiv : K -> K -> K) (kopp ksqrt : K -> K) (is_number : K -> bool)
         (St : Type) (reseed : Z -> St) (draw : St -> nat -> nat -> list nat * St) (A Args Kwargs : Type) (cpu_count : pyval)
         (dfrac : Q) (ns sd : option Z) (data : list A) (g : St),
  (0 <= dfrac)%Q -> (dfrac < 1)%Q ->
  let n := length data in
  let d := Z.to_nat (delete_count dfrac (Z.of_nat n)) in
  gen_randomly_delete_data K k0 k1 kadd kmul ksub kdiv kopp ksqrt is_number St reseed draw A Args Kwargs cpu_count (JSelf (Some dfrac) ns sd) data g
  = Ok (np_delete A (fst (draw g n d)) data, snd (draw g n d)).
Proof. exact source_randomly_delete_data. Qed.
Print Assumptions C15_source_randomly_delete_data.

(* _apply_function_to_reduced_data: function(reduced_data, *args, **kwargs) *)
Theorem C15_source_apply_function_to_reduced_data :
  forall (K : Type) (k0 k1 : K) (kadd kmul ksub kdiv : K -> K -> K) (kopp ksqrt : K -> K) (is_number : K -> bool)
         (St : Type) (reseed : Z -> St) (draw : St -> nat -> nat -> list nat * St) (A Args Kwargs : Type) (cpu_count : pyval)
         (self : jself) (reduced : list A) (function : list A -> Args -> Kwargs -> K) (args : Args) (kwargs : Kwargs) (g : St),
  gen_apply_function_to_reduced_data K k0 k1 kadd kmul ksub kdiv kopp ksqrt is_number St reseed draw A Args Kwargs cpu_count self reduced function args kwargs g
  = Ok (bound K A Args Kwargs function args kwargs reduced, g).
Proof. exact source_apply_function_to_reduced_data. Qed.
Print Assumptions C15_source_apply_function_to_reduced_data.

(* _compute_one_jackknife_sample: delete, then apply *)
Theorem C15_source_compute_one_jackknife_sample :
  forall (K : Type) (k0 k1 : K) (kadd kmul ksub kdiv : K -> K -> K) (kopp ksqrt : K -> K) (is_number : K -> bool)
         (St : Type) (reseed : Z -> St) (draw : St -> nat -> nat -> list nat * St) (A Args Kwargs : Type) (cpu_count : pyval)
         (dfrac : Q) (ns sd : option Z) (data : list A) (function : list A -> Args -> Kwargs -> K) (args : Args) (kwargs : Kwargs) (g : St),
  (0 <= dfrac)%Q -> (dfrac < 1)%Q ->
  let n := length data in
  let d := Z.to_nat (delete_count dfrac (Z.of_nat n)) in
  gen_compute_one_jackknife_sample K k0 k1 kadd kmul ksub kdiv kopp ksqrt is_number St reseed draw A Args Kwargs cpu_count (JSelf (Some dfrac) ns sd) data function args kwargs g
  = Ok (bound K A Args Kwargs function args kwargs (np_delete A (fst (draw g n d)) data), snd (draw g n d)).
Proof. exact source_compute_one_jackknife_sample. Qed.
Print Assumptions C15_source_compute_one_jackknife_sample.

(* _helper_unpack (one task) in closed form: reseed with seed + index whatever the state was, then one sample *)
Theorem C15_source_helper_unpack :
  forall (K : Type) (k0 k1 : K) (kadd kmul ksub kdiv : K -> K -> K) (kopp ksqrt : K -> K) (is_number : K -> bool)
         (St : Type) (reseed : Z -> St) (draw : St -> nat -> nat -> list nat * St) (A Args Kwargs : Type) (cpu_count : pyval)
         (dfrac : Q) (ns : option Z) (seed : Z) (i : nat) (data : list A) (function : list A -> Args -> Kwargs -> K) (args : Args) (kwargs : Kwargs) (g : St),
  (0 <= dfrac)%Q -> (dfrac < 1)%Q ->
  let n := length data in
  let d := Z.to_nat (delete_count dfrac (Z.of_nat n)) in
  gen_helper_unpack K k0 k1 kadd kmul ksub kdiv kopp ksqrt is_number St reseed draw A Args Kwargs cpu_count (JSelf (Some dfrac) ns (Some seed)) (Z.of_nat i) data function args kwargs g
  = Ok (task_closed K St reseed draw A (bound K A Args Kwargs function args kwargs) seed dfrac data i,
        snd (draw (reseed (seed + Z.of_nat i)%Z) n d)).
Proof. exact source_helper_unpack. Qed.
Print Assumptions C15_source_helper_unpack.

(* ... which is the hand model's run_task: the value and the state the worker process is left in *)
Theorem C15_source_helper_unpack_model :
  forall (K : Type) (k0 k1 : K) (kadd kmul ksub kdiv : K -> K -> K) (kopp ksqrt : K -> K) (is_number : K -> bool)
         (St : Type) (reseed : Z -> St) (draw : St -> nat -> nat -> list nat * St) (A Args Kwargs : Type) (cpu_count : pyval)
         (dfrac : Q) (ns : option Z) (seed : Z) (i : nat) (data : list A) (function : list A -> Args -> Kwargs -> K) (args : Args) (kwargs : Kwargs) (g : St),
  (0 <= dfrac)%Q -> (dfrac < 1)%Q ->
  gen_helper_unpack K k0 k1 kadd kmul ksub kdiv kopp ksqrt is_number St reseed draw A Args Kwargs cpu_count (JSelf (Some dfrac) ns (Some seed)) (Z.of_nat i) data function args kwargs g
  = Ok (run_task St A K reseed draw (bound K A Args Kwargs function args kwargs) seed dfrac data g i).
Proof. exact source_helper_unpack_model. Qed.
Print Assumptions C15_source_helper_unpack_model.

(* _compute_jackknife_samples (num_cores and os.cpu_count() None or an int >= 1; starmap in order on one initialised worker):
   the task values in index order, the parent's generator untouched *)
Theorem C15_source_compute_jackknife_samples :
  forall (K : Type) (k0 k1 : K) (kadd kmul ksub kdiv : K -> K -> K) (kopp ksqrt : K -> K) (is_number : K -> bool)
         (St : Type) (reseed : Z -> St) (draw : St -> nat -> nat -> list nat * St) (A Args Kwargs : Type) (cpu_count : pyval)
         (dfrac : Q) (N seed : Z) (data : list A) (function : list A -> Args -> Kwargs -> K) (nc : pyval) (args : Args)
         (kwargs : Kwargs) (g : St),
  (0 <= dfrac)%Q -> (dfrac < 1)%Q -> cores_ok nc -> cores_ok cpu_count ->
  gen_compute_jackknife_samples K k0 k1 kadd kmul ksub kdiv kopp ksqrt is_number St reseed draw A Args Kwargs cpu_count (jk_object dfrac N seed) data function nc args kwargs g
  = Ok (map (task_closed K St reseed draw A (bound K A Args Kwargs function args kwargs) seed dfrac data) (seq 0 (Z.to_nat N)), g).
Proof. exact source_compute_jackknife_samples. Qed.
Print Assumptions C15_source_compute_jackknife_samples.

(* ... which is what the hand model's pool returns for EVERY schedule that runs each task once (any workers, any order,
   any initial worker states) *)
Theorem C15_source_compute_jackknife_samples_model :
  forall (K : Type) (k0 k1 : K) (kadd kmul ksub kdiv : K -> K -> K) (kopp ksqrt : K -> K) (is_number : K -> bool)
         (St : Type) (reseed : Z -> St) (draw : St -> nat -> nat -> list nat * St) (A Args Kwargs : Type) (cpu_count : pyval)
         (dfrac : Q) (N seed : Z) (data : list A) (function : list A -> Args -> Kwargs -> K) (nc : pyval) (args : Args)
         (kwargs : Kwargs) (g : St) (sched : list (nat * nat)) (init : nat -> St),
  (0 <= dfrac)%Q -> (dfrac < 1)%Q -> cores_ok nc -> cores_ok cpu_count ->
  Permutation (map snd sched) (seq 0 (Z.to_nat N)) ->
  gen_compute_jackknife_samples K k0 k1 kadd kmul ksub kdiv kopp ksqrt is_number St reseed draw A Args Kwargs cpu_count (jk_object dfrac N seed) data function nc args kwargs g
  = match pool_samples St A K reseed draw (bound K A Args Kwargs function args kwargs) seed dfrac data (Z.to_nat N) sched init with
    | Some th => Ok (th, g)
    | None => Err OtherError
    end.
Proof. exact source_compute_jackknife_samples_model. Qed.
Print Assumptions C15_source_compute_jackknife_samples_model.

(* an int below 1 as num_cores: ValueError, whatever the object and the data *)
Theorem C15_source_compute_jackknife_samples_num_cores :
  forall (K : Type) (k0 k1 : K) (kadd kmul ksub kdiv : K -> K -> K) (kopp ksqrt : K -> K) (is_number : K -> bool)
         (St : Type) (reseed : Z -> St) (draw : St -> nat -> nat -> list nat * St) (A Args Kwargs : Type) (cpu_count : pyval)
         (self : jself) (data : list A) (function : list A -> Args -> Kwargs -> K) (z : Z) (args : Args) (kwargs : Kwargs) (g : St),
  (z < 1)%Z -> gen_compute_jackknife_samples K k0 k1 kadd kmul ksub kdiv kopp ksqrt is_number St reseed draw A Args Kwargs cpu_count self data function (VInt z) args kwargs g = Err ValueError.
Proof. exact source_compute_jackknife_samples_num_cores. Qed.
Print Assumptions C15_source_compute_jackknife_samples_num_cores.

(* compute_jackknife_estimates in closed form for an object that passed __init__: ValueError below one deleted point, else
   sqrt of [sum_i (theta_i - mean)^2 accumulated from 0 in index order] * [(n - d) / (d * N)] (radicand_closed) *)
Theorem C15_source_compute_jackknife_estimates :
  forall (K : Type) (k0 k1 : K) (kadd kmul ksub kdiv : K -> K -> K) (kopp ksqrt : K -> K) (is_number : K -> bool)
         (St : Type) (reseed : Z -> St) (draw : St -> nat -> nat -> list nat * St) (A Args Kwargs : Type) (cpu_count : pyval)
         (dfrac : Q) (N seed : Z) (data : list A) (function : list A -> Args -> Kwargs -> K) (nc : pyval) (args : Args)
         (kwargs : Kwargs) (g : St),
  (0 <= dfrac)%Q -> (dfrac < 1)%Q -> (1 <= N)%Z -> cores_ok nc -> cores_ok cpu_count ->
  is_number (bound K A Args Kwargs function args kwargs (test_slice A data)) = true ->
  let n := zlen data in
  let d := delete_count dfrac n in
  let th := map (task_closed K St reseed draw A (bound K A Args Kwargs function args kwargs) seed dfrac data) (seq 0 (Z.to_nat N)) in
  gen_compute_jackknife_estimates K k0 k1 kadd kmul ksub kdiv kopp ksqrt is_number St reseed draw A Args Kwargs cpu_count (jk_object dfrac N seed) data function nc args kwargs g
  = if (d <? 1)%Z then Err ValueError else Ok (ksqrt (radicand_closed K k0 k1 kadd kmul ksub kdiv kopp n d th), g).
Proof. exact source_compute_jackknife_estimates. Qed.
Print Assumptions C15_source_compute_jackknife_estimates.

(* fewer than one point to delete: ValueError before anything else is looked at *)
Theorem C15_source_estimates_rejects_small_fraction :
  forall (K : Type) (k0 k1 : K) (kadd kmul ksub kdiv : K -> K -> K) (kopp ksqrt : K -> K) (is_number : K -> bool)
         (St : Type) (reseed : Z -> St) (draw : St -> nat -> nat -> list nat * St) (A Args Kwargs : Type) (cpu_count : pyval)
         (dfrac : Q) (ns sd : option Z) (data : list A) (function : list A -> Args -> Kwargs -> K) (nc : pyval) (args : Args)
         (kwargs : Kwargs) (g : St),
  (delete_count dfrac (zlen data) < 1)%Z ->
  gen_compute_jackknife_estimates K k0 k1 kadd kmul ksub kdiv kopp ksqrt is_number St reseed draw A Args Kwargs cpu_count (JSelf (Some dfrac) ns sd) data function nc args kwargs g = Err ValueError.
Proof. exact source_estimates_rejects_small_fraction. Qed.
Print Assumptions C15_source_estimates_rejects_small_fraction.

(* the function does not return an int / float on data[: max(1, len(data) // 100)]: TypeError, the pool is never started *)
Theorem C15_source_estimates_rejects_non_number :
  forall (K : Type) (k0 k1 : K) (kadd kmul ksub kdiv : K -> K -> K) (kopp ksqrt : K -> K) (is_number : K -> bool)
         (St : Type) (reseed : Z -> St) (draw : St -> nat -> nat -> list nat * St) (A Args Kwargs : Type) (cpu_count : pyval)
         (dfrac : Q) (ns sd : option Z) (data : list A) (function : list A -> Args -> Kwargs -> K) (nc : pyval) (args : Args)
         (kwargs : Kwargs) (g : St),
  (1 <= delete_count dfrac (zlen data))%Z ->
  is_number (bound K A Args Kwargs function args kwargs (test_slice A data)) = false ->
  gen_compute_jackknife_estimates K k0 k1 kadd kmul ksub kdiv kopp ksqrt is_number St reseed draw A Args Kwargs cpu_count (JSelf (Some dfrac) ns sd) data function nc args kwargs g = Err TypeError.
Proof. exact source_estimates_rejects_non_number. Qed.
Print Assumptions C15_source_estimates_rejects_non_number.

(* compute_jackknife_estimates = the hand model's driver Pool.jackknife, for every schedule / worker states of its pool
   (the carrier is a ring: the source computes n - d and d * N on ints, the model in K) *)
Theorem C15_source_compute_jackknife_estimates_model :
  forall (K : Type) (k0 k1 : K) (kadd kmul ksub kdiv : K -> K -> K) (kopp ksqrt : K -> K) (is_number : K -> bool)
         (St : Type) (reseed : Z -> St) (draw : St -> nat -> nat -> list nat * St) (A Args Kwargs : Type) (cpu_count : pyval),
  ring_theory k0 k1 kadd kmul ksub kopp (@eq K) ->
  forall (dfrac : Q) (N seed : Z) (data : list A) (function : list A -> Args -> Kwargs -> K) (nc : pyval) (args : Args)
         (kwargs : Kwargs) (g : St) (sched : list (nat * nat)) (init : nat -> St),
  (0 <= dfrac)%Q -> (dfrac < 1)%Q -> (1 <= N)%Z -> cores_ok nc -> cores_ok cpu_count ->
  is_number (bound K A Args Kwargs function args kwargs (test_slice A data)) = true ->
  Permutation (map snd sched) (seq 0 (Z.to_nat N)) ->
  gen_compute_jackknife_estimates K k0 k1 kadd kmul ksub kdiv kopp ksqrt is_number St reseed draw A Args Kwargs cpu_count (jk_object dfrac N seed) data function nc args kwargs g
  = rmap (fun e => (e, g))
         (jackknife K k0 k1 kadd kmul ksub kdiv kopp ksqrt St A reseed draw dfrac N seed data
                    (bound K A Args Kwargs function args kwargs) sched init).
Proof. exact source_compute_jackknife_estimates_model. Qed.
Print Assumptions C15_source_compute_jackknife_estimates_model.

(* Jackknife(f, N, seed).compute_jackknife_estimates(data, function, num_cores, *args, **kwargs), every float f and ints
   N, seed: the hand model's driver including which inputs are rejected with which class; the parent's generator is left
   as __init__ seeded it *)
Theorem C15_source_jackknife :
  forall (K : Type) (k0 k1 : K) (kadd kmul ksub kdiv : K -> K -> K) (kopp ksqrt : K -> K) (is_number : K -> bool)
         (St : Type) (reseed : Z -> St) (draw : St -> nat -> nat -> list nat * St) (A Args Kwargs : Type) (cpu_count : pyval),
  ring_theory k0 k1 kadd kmul ksub kopp (@eq K) ->
  forall (dfrac : Q) (N seed : Z) (data : list A) (function : list A -> Args -> Kwargs -> K) (nc : pyval) (args : Args)
         (kwargs : Kwargs) (g : St) (sched : list (nat * nat)) (init : nat -> St),
  cores_ok nc -> cores_ok cpu_count ->
  is_number (bound K A Args Kwargs function args kwargs (test_slice A data)) = true ->
  Permutation (map snd sched) (seq 0 (Z.to_nat N)) ->
  rbind (gen_init K k0 k1 kadd kmul ksub kdiv kopp ksqrt is_number St reseed draw A Args Kwargs cpu_count (VFloat dfrac) (VInt N) (VInt seed) g)
        (fun sg => gen_compute_jackknife_estimates K k0 k1 kadd kmul ksub kdiv kopp ksqrt is_number St reseed draw A Args Kwargs cpu_count
                     (fst sg) data function nc args kwargs (snd sg))
  = rmap (fun e => (e, reseed seed))
         (jackknife K k0 k1 kadd kmul ksub kdiv kopp ksqrt St A reseed draw dfrac N seed data
                    (bound K A Args Kwargs function args kwargs) sched init).
Proof. exact source_jackknife. Qed.
Print Assumptions C15_source_jackknife.

(* defaults of the keyword arguments: seed = 42, num_cores = None (twice) *)
Theorem C15_source_defaults :
  gen_default_init_seed = VInt 42
  /\ gen_default_compute_jackknife_samples_num_cores = VNone
  /\ gen_default_compute_jackknife_estimates_num_cores = VNone.
Proof. exact source_defaults. Qed.
Print Assumptions C15_source_defaults.

(* non-vacuity: the case of C15_example (4 points, fraction 1/4, 2 samples, seed 7, statistic = sum, oracle table for the
   generator) run through the TRANSLATED __init__ and compute_jackknife_estimates on exact rationals, np.sqrt as identity *)
Theorem C15_source_example :
  rbind (gen_init Q 0%Q 1%Q rplus rmult rminus rdiv Qopp (fun x => x) (fun _ => true) ostate (fun z => Some z)
                  (table_draw [(7, [0%nat]); (8, [3%nat])]%Z) Q unit unit VNone
                  (VFloat (1 # 4)) (VInt 2) (VInt 7) None)
        (fun sg => gen_compute_jackknife_estimates Q 0%Q 1%Q rplus rmult rminus rdiv Qopp (fun x => x) (fun _ => true) ostate
                     (fun z => Some z) (table_draw [(7, [0%nat]); (8, [3%nat])]%Z) Q unit unit VNone
                     (fst sg) [1; 2; 3; 4]%Q (fun l _ _ => fold_left rplus l 0%Q) (VInt 3) tt tt (snd sg))
  = Ok ((27 # 4)%Q, Some 7%Z).
Proof. exact source_example. Qed.
Print Assumptions C15_source_example.

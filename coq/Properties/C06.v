From Coq Require Import List.
Theorem C06_placeholder : True. Proof. exact I. Qed.
Print Assumptions C06_placeholder.

(* C06 - written files read back to the same data; re-writing is a fixpoint.
   Writer model: Model/Writer.v (formats regenerated from the source, Gen/GenFormats.v); reader: the loader model of
   C01.  Oracle laws (hypotheses, DESIGN.md 4.4): [fmt f v] is what Python's % formatting prints for the double v,
   float()/int() parse it back to [rnd f v] (v rounded to the printed precision), printing [rnd f v] again gives
   the same text; [dec] prints event numbers / counts.
   Proved for every state that satisfies [Inv] (counts describe the held events, every held label has an end line) -
   the states C04 proves reachable.  Statements only; proofs in Proofs/C06_*.v.
   The per-format row round trip is proved for Oscar2013, 20-, 21- and 22-column Oscar2013Extended, custom ASCII files
   with any duplicate-free list of known columns, and JETSCAPE.  Footers after an event-REMOVING filter: open finding
   C06-footers-after-event-removal (the theorems take the state as it is: they then speak about the footers the
   state holds under its renumbered labels). *)
From Coq Require Import List String ZArith QArith Bool Arith.
From SX Require Import Lib.Strs Lib.StrLemmas Gen.GenParticleMap Gen.GenFormats Model.Oscar Model.OscarDoc Model.Jetscape
  Model.JetscapeDoc Model.Writer
  Proofs.C01_Oscar Proofs.C01_Shapes Proofs.C06_Row Proofs.C06_Oscar Proofs.C06_Formats Proofs.C06_Example Proofs.C06_Jetscape.
Import ListNotations.
Local Open Scope string_scope.

(* the file written is the rendering of [doc_of s]: the three header lines, then per held event, numbered
   0,1,.. by position: "# event i out n", one line per held particle, and that event's own end line renumbered i *)
Theorem C06_write_is_render :
  forall fmt dec s, Inv s -> printable fmt s -> os_events s <> [] ->
  write_oscar fmt dec s = Ok (render (doc_of fmt dec s)).
Proof. exact write_is_render. Qed.
Print Assumptions C06_write_is_render.

(* reading the written file back (C01 applied to the written document) *)
Theorem C06_read_back :
  forall tok_float tok_int pdg_valid fmt dec s format attrs,
  Inv s -> printable fmt s -> os_events s <> [] ->
  wf tok_float tok_int pdg_valid (doc_of fmt dec s) format attrs ->
  exists file, write_oscar fmt dec s = Ok file /\
               load tok_float tok_int pdg_valid None file SelAll
               = Ok (expected tok_float tok_int pdg_valid (doc_of fmt dec s) format attrs).
Proof. exact read_back. Qed.
Print Assumptions C06_read_back.

(* the object read back has the same number of events and the same per-event counts, under labels 0.. *)
Theorem C06_read_back_counts :
  forall tok_float tok_int pdg_valid fmt dec s format attrs, Inv s ->
  l_nevents (expected tok_float tok_int pdg_valid (doc_of fmt dec s) format attrs) = os_nevents s /\
  map snd (l_counts (expected tok_float tok_int pdg_valid (doc_of fmt dec s) format attrs)) = map snd (os_counts s) /\
  map fst (l_counts (expected tok_float tok_int pdg_valid (doc_of fmt dec s) format attrs))
    = map Z.of_nat (seq 0 (List.length (os_events s))).
Proof. exact read_back_counts. Qed.
Print Assumptions C06_read_back_counts.

(* the written document is well-formed (so C06_read_back applies): SMASH end lines, numeric printing, rows that
   survive their round trip *)
Theorem C06_written_doc_wf :
  forall tok_float tok_int pdg_valid fmt dec,
  (forall z, numeric (dec z) = true) -> (forall z, (0 <= z)%Z -> tok_int (dec z) = Some (zq z)) ->
  forall s, Inv s -> os_events s <> [] ->
  oscar_format (nth 0 (os_header s) []) = Ok (os_format s, os_attrs s) -> std_format (os_format s) ->
  kind_scan (nth 0 (os_header s) []) = SOther -> kind_scan (nth 1 (os_header s) []) = SOther ->
  kind_scan (nth 2 (os_header s) []) = SOther ->
  footers_std tok_float (os_footers s) (os_counts s) ->
  Forall (Forall (row_rt tok_float tok_int pdg_valid fmt (os_format s) (os_attrs s) (ncols_of s))) (os_events s) ->
  wf tok_float tok_int pdg_valid (doc_of fmt dec s) (os_format s) (os_attrs s).
Proof. exact doc_wf. Qed.
Print Assumptions C06_written_doc_wf.

(* writing the re-read object gives the same file, byte for byte *)
Theorem C06_rewrite_fixpoint :
  forall tok_float tok_int pdg_valid fmt dec s, Inv s -> os_events s <> [] ->
  Forall (Forall (row_rt tok_float tok_int pdg_valid fmt (os_format s) (os_attrs s) (ncols_of s))) (os_events s) ->
  write_oscar fmt dec (reread tok_float tok_int pdg_valid fmt dec s) = write_oscar fmt dec s.
Proof. exact rewrite_fixpoint. Qed.
Print Assumptions C06_rewrite_fixpoint.

(* one particle line, any column scheme: each printed column comes back, rounded, in its own slot; nothing else is set *)
Theorem C06_row_roundtrip :
  forall tok_float tok_int fmt rnd,
  (forall f v, is_int_fmt f = false -> tok_float (fmt f v) = Some (rnd f v)) ->
  (forall v, tok_int (fmt FD v) = Some (rnd FD v)) ->
  forall ascii (cs : scheme) (vs : list Q) (p0 : particle),
  List.length vs = List.length cs -> forallb (cast_ok ascii) cs = true ->
  NoDup (map s_slot cs) -> Forall (fun c => (s_slot c < 25)%nat) cs -> List.length p0 = 25%nat ->
  exists p',
    fill tok_float tok_int ascii (mapping_from 0 cs) (toks_of fmt cs vs) p0 = Ok p' /\
    (forall j x v, nth_error cs j = Some x -> nth_error vs j = Some v ->
                   get_slot (s_slot x) p' = Some (rnd (s_fmt x) v)) /\
    (forall s, ~ In s (map s_slot cs) -> get_slot s p' = get_slot s p0) /\
    List.length p' = 25%nat.
Proof. exact row_roundtrip. Qed.
Print Assumptions C06_row_roundtrip.

(* the writer's columns/formats and the loader's column tables (both regenerated) agree: Oscar2013 and Extended/22 *)
Theorem C06_row_oscar2013 :
  forall tok_float tok_int pdg_valid fmt rnd,
  (forall f v, is_int_fmt f = false -> tok_float (fmt f v) = Some (rnd f v)) ->
  (forall v, tok_int (fmt FD v) = Some (rnd FD v)) ->
  (forall f v, fmt f (rnd f v) = fmt f v) -> (forall f v, numeric (fmt f v) = true) ->
  forall ncols p vs, has_vals cs_2013 p vs -> row_rt tok_float tok_int pdg_valid fmt "Oscar2013" [] ncols p.
Proof. exact row_rt_2013. Qed.
Print Assumptions C06_row_oscar2013.

Theorem C06_row_extended22 :
  forall tok_float tok_int pdg_valid fmt rnd,
  (forall f v, is_int_fmt f = false -> tok_float (fmt f v) = Some (rnd f v)) ->
  (forall v, tok_int (fmt FD v) = Some (rnd FD v)) ->
  (forall f v, fmt f (rnd f v) = fmt f v) -> (forall f v, numeric (fmt f v) = true) ->
  forall p vs, has_vals cs_ext22 p vs -> row_rt tok_float tok_int pdg_valid fmt "Oscar2013Extended" [] 22 p.
Proof. exact row_rt_ext22. Qed.
Print Assumptions C06_row_extended22.

(* old 20- and 21-column Extended lines: the optional trailing columns are written only when set, and skipped on reading *)
Theorem C06_row_extended20 :
  forall tok_float tok_int pdg_valid fmt rnd,
  (forall f v, is_int_fmt f = false -> tok_float (fmt f v) = Some (rnd f v)) ->
  (forall v, tok_int (fmt FD v) = Some (rnd FD v)) ->
  (forall f v, fmt f (rnd f v) = fmt f v) -> (forall f v, numeric (fmt f v) = true) ->
  forall p vs, has_vals cs_ext20 p vs -> get_slot 22 p = None -> get_slot 23 p = None ->
  row_rt tok_float tok_int pdg_valid fmt "Oscar2013Extended" [] 20 p.
Proof. exact row_rt_ext20. Qed.
Print Assumptions C06_row_extended20.

Theorem C06_row_extended21 :
  forall tok_float tok_int pdg_valid fmt rnd,
  (forall f v, is_int_fmt f = false -> tok_float (fmt f v) = Some (rnd f v)) ->
  (forall v, tok_int (fmt FD v) = Some (rnd FD v)) ->
  (forall f v, fmt f (rnd f v) = fmt f v) -> (forall f v, numeric (fmt f v) = true) ->
  forall p vs, has_vals cs_ext21 p vs -> get_slot 23 p = None ->
  row_rt tok_float tok_int pdg_valid fmt "Oscar2013Extended" [] 21 p.
Proof. exact row_rt_ext21. Qed.
Print Assumptions C06_row_extended21.

(* composition, no row hypothesis left: an Oscar2013 object is written, read back, and re-written to the same file *)
Theorem C06_oscar2013_roundtrip :
  forall tok_float tok_int pdg_valid fmt dec rnd,
  (forall f v, is_int_fmt f = false -> tok_float (fmt f v) = Some (rnd f v)) ->
  (forall v, tok_int (fmt FD v) = Some (rnd FD v)) ->
  (forall f v, fmt f (rnd f v) = fmt f v) -> (forall f v, numeric (fmt f v) = true) ->
  (forall z, numeric (dec z) = true) -> (forall z, (0 <= z)%Z -> tok_int (dec z) = Some (zq z)) ->
  forall s, Inv s -> os_events s <> [] -> os_format s = "Oscar2013" -> os_attrs s = [] ->
  oscar_format (nth 0 (os_header s) []) = Ok ("Oscar2013", []) ->
  kind_scan (nth 0 (os_header s) []) = SOther -> kind_scan (nth 1 (os_header s) []) = SOther ->
  kind_scan (nth 2 (os_header s) []) = SOther ->
  footers_std tok_float (os_footers s) (os_counts s) ->
  Forall (Forall (fun p => exists vs, has_vals cs_2013 p vs)) (os_events s) ->
  exists file,
    write_oscar fmt dec s = Ok file /\
    load tok_float tok_int pdg_valid None file SelAll
      = Ok (expected tok_float tok_int pdg_valid (doc_of fmt dec s) "Oscar2013" []) /\
    write_oscar fmt dec (reread tok_float tok_int pdg_valid fmt dec s) = Ok file.
Proof. exact oscar2013_roundtrip. Qed.
Print Assumptions C06_oscar2013_roundtrip.

(* non-vacuity: the single held event (original label 3) is written as event 0 with its own end line *)
Theorem C06_example :
  Inv ex_state /\
  write_oscar ex_fmt ex_dec ex_state
  = Ok [["#!OSCAR2013"; "particle_lists"]; ["#"; "Units:"]; ["#"; "SMASH"];
        ["#"; "event"; "0"; "out"; "1"];
        ["1"; "0.5"; "0.5"; "0.5"; "0.5"; "1"; "0.5"; "0.5"; "0.5"; "2212"; "1"; "1"];
        smash_footer "0" "7.125" "yes"].
Proof. exact example_state. Qed.
Print Assumptions C06_example.

(* custom ASCII files, ANY duplicate-free list of known attribute names in any order: one line round-trips *)
Theorem C06_row_ascii :
  forall tok_float tok_int pdg_valid fmt rnd,
  (forall f v, is_int_fmt f = false -> tok_float (fmt f v) = Some (rnd f v)) ->
  (forall v, tok_int (fmt FD v) = Some (rnd FD v)) ->
  (forall f v, fmt f (rnd f v) = fmt f v) -> (forall f v, numeric (fmt f v) = true) ->
  forall attrs ncols p vs, NoDup attrs -> Forall known attrs -> has_vals (cs_ascii attrs) p vs ->
  row_rt tok_float tok_int pdg_valid fmt "ASCII" attrs ncols p.
Proof. exact row_rt_ascii. Qed.
Print Assumptions C06_row_ascii.

(* composition for custom ASCII objects: written, read back, re-written to the same file *)
Theorem C06_ascii_roundtrip :
  forall tok_float tok_int pdg_valid fmt dec rnd,
  (forall f v, is_int_fmt f = false -> tok_float (fmt f v) = Some (rnd f v)) ->
  (forall v, tok_int (fmt FD v) = Some (rnd FD v)) ->
  (forall f v, fmt f (rnd f v) = fmt f v) -> (forall f v, numeric (fmt f v) = true) ->
  (forall z, numeric (dec z) = true) -> (forall z, (0 <= z)%Z -> tok_int (dec z) = Some (zq z)) ->
  forall s, Inv s -> os_events s <> [] -> os_format s = "ASCII" -> NoDup (os_attrs s) -> Forall known (os_attrs s) ->
  oscar_format (nth 0 (os_header s) []) = Ok ("ASCII", os_attrs s) ->
  kind_scan (nth 0 (os_header s) []) = SOther -> kind_scan (nth 1 (os_header s) []) = SOther ->
  kind_scan (nth 2 (os_header s) []) = SOther ->
  footers_std tok_float (os_footers s) (os_counts s) ->
  Forall (Forall (fun p => exists vs, has_vals (cs_ascii (os_attrs s)) p vs)) (os_events s) ->
  exists file,
    write_oscar fmt dec s = Ok file /\
    load tok_float tok_int pdg_valid None file SelAll
      = Ok (expected tok_float tok_int pdg_valid (doc_of fmt dec s) "ASCII" (os_attrs s)) /\
    write_oscar fmt dec (reread tok_float tok_int pdg_valid fmt dec s) = Ok file.
Proof. exact ascii_roundtrip. Qed.
Print Assumptions C06_ascii_roundtrip.

(* composition for any Oscar-family format, from the row round trip of the held particles *)
Theorem C06_oscar_roundtrip :
  forall tok_float tok_int pdg_valid fmt dec,
  (forall z, numeric (dec z) = true) -> (forall z, (0 <= z)%Z -> tok_int (dec z) = Some (zq z)) ->
  forall s, Inv s -> os_events s <> [] ->
  oscar_format (nth 0 (os_header s) []) = Ok (os_format s, os_attrs s) -> std_format (os_format s) ->
  kind_scan (nth 0 (os_header s) []) = SOther -> kind_scan (nth 1 (os_header s) []) = SOther ->
  kind_scan (nth 2 (os_header s) []) = SOther ->
  footers_std tok_float (os_footers s) (os_counts s) ->
  Forall (Forall (row_rt tok_float tok_int pdg_valid fmt (os_format s) (os_attrs s) (ncols_of s))) (os_events s) ->
  exists file,
    write_oscar fmt dec s = Ok file /\
    load tok_float tok_int pdg_valid None file SelAll
      = Ok (expected tok_float tok_int pdg_valid (doc_of fmt dec s) (os_format s) (os_attrs s)) /\
    write_oscar fmt dec (reread tok_float tok_int pdg_valid fmt dec s) = Ok file.
Proof. exact oscar_roundtrip_generic. Qed.
Print Assumptions C06_oscar_roundtrip.

(* ------------------------------------------------------------------ JETSCAPE *)
(* one JETSCAPE particle line round-trips: the seven printed columns come back rounded, the line prints again the same *)
Theorem C06_jetscape_row :
  forall tok_float tok_int pdg_valid pdg_charge usqrt fmt rnd,
  (forall f v, is_int_fmt f = false -> tok_float (fmt f v) = Some (rnd f v)) ->
  (forall v, tok_int (fmt FD v) = Some (rnd FD v)) ->
  (forall f v, fmt f (rnd f v) = fmt f v) -> (forall f v, numeric (fmt f v) = true) ->
  forall p vs, has_vals cs_jet p vs -> jrow_rt tok_float tok_int pdg_valid pdg_charge usqrt fmt p.
Proof. exact jrow_rt_ok. Qed.
Print Assumptions C06_jetscape_row.

(* the written file: header line, per held event "# Event i+1 weight 1 EPangle 0 N_xxx n" and its lines, the trailer *)
Theorem C06_jetscape_write_is_render :
  forall tok_float tok_int pdg_valid pdg_charge usqrt fmt dec s,
  JInv s -> js_events s <> [] -> Forall (Forall (jrow_rt tok_float tok_int pdg_valid pdg_charge usqrt fmt)) (js_events s) ->
  write_jetscape fmt dec s = Ok (jrender (jdoc_of fmt dec s)).
Proof. exact jwrite_is_render. Qed.
Print Assumptions C06_jetscape_write_is_render.

Theorem C06_jetscape_written_doc_wf :
  forall tok_float tok_int pdg_valid pdg_charge usqrt fmt dec,
  (forall z, numeric (dec z) = true) -> (forall z, (0 <= z)%Z -> tok_int (dec z) = Some (zq z)) ->
  forall s s1 s2, JInv s -> js_events s <> [] -> std_defstr (js_defstr s) ->
  is_count_line (js_defstr s) (js_header s) = false ->
  is_trailer (js_last s) = true -> is_count_line (js_defstr s) (js_last s) = false ->
  first_floats tok_float 2 (filter (fun t => negb (t =? "")) (js_last s)) = [s1; s2] ->
  Forall (Forall (jrow_rt tok_float tok_int pdg_valid pdg_charge usqrt fmt)) (js_events s) ->
  jwf tok_float tok_int pdg_valid pdg_charge usqrt (js_defstr s) (jdoc_of fmt dec s) s1 s2.
Proof. exact jdoc_wf. Qed.
Print Assumptions C06_jetscape_written_doc_wf.

Theorem C06_jetscape_read_back :
  forall tok_float tok_int pdg_valid pdg_charge usqrt fmt dec s s1 s2,
  JInv s -> js_events s <> [] -> Forall (Forall (jrow_rt tok_float tok_int pdg_valid pdg_charge usqrt fmt)) (js_events s) ->
  jwf tok_float tok_int pdg_valid pdg_charge usqrt (js_defstr s) (jdoc_of fmt dec s) s1 s2 ->
  exists file, write_jetscape fmt dec s = Ok file /\
               jload tok_float tok_int pdg_valid pdg_charge usqrt None file (js_defstr s) SelAll
               = Ok (jexpected tok_float tok_int pdg_valid pdg_charge usqrt (jdoc_of fmt dec s) s1 s2).
Proof. exact jread_back. Qed.
Print Assumptions C06_jetscape_read_back.

Theorem C06_jetscape_rewrite_fixpoint :
  forall tok_float tok_int pdg_valid pdg_charge usqrt fmt dec s s1 s2,
  JInv s -> js_events s <> [] -> Forall (Forall (jrow_rt tok_float tok_int pdg_valid pdg_charge usqrt fmt)) (js_events s) ->
  write_jetscape fmt dec (jreread tok_float tok_int pdg_valid pdg_charge usqrt fmt dec s s1 s2) = write_jetscape fmt dec s.
Proof. exact jrewrite_fixpoint. Qed.
Print Assumptions C06_jetscape_rewrite_fixpoint.

(* C16 - smearing particles onto a lattice conserves the smeared quantity.
   Statements only; proofs in Proofs/C16_*.v; model Model/Smear.v (hand model in index space around the pieces
   regenerated from add_particle_data: quantity table, value_to_add, normalisation guard and division).
   K is any field (instances below: the canonical rationals Qc - every finite double is one - and R).
   [dk d o] is the kernel value the implementation obtained for stencil offset o (None = NaN), [kv] the same with
   0 for NaN, [norm_ok] the guard the code puts in front of the normalisation. *)
From Coq Require Import List ZArith QArith Qcanon Bool Field_theory Permutation String Reals.
From SX Require Import Lib.KRing Lib.Py Lib.QCheck Gen.GenLattice Model.Lattice Model.Smear Proofs.C16_Smear Proofs.C16_Inst.
Import ListNotations.

(* conservation, any particle list: if for every particle the kernel values are finite, the guard lets the
   normalisation happen and the whole stencil lies inside the lattice, then
   cell_volume * sum(grid') = cell_volume * sum(grid) + sum of the particles' quantities *)
Theorem C16_conserve :
  forall K k0 k1 kadd kmul ksub kdiv kopp kinv, field_theory k0 k1 kadd kmul ksub kopp kdiv kinv (@eq K) ->
  forall norm_ok : K -> bool, (forall N, norm_ok N = true -> N <> k0) ->
  forall (n : Z * Z * Z) (vol : K) (g : zgrid K) (ds : list (dep K)), vol <> k0 ->
    Forall (fun d =>
      (forall o, In o (stencil (dm d)) -> dk d o <> None)
      /\ norm_ok (ksum k0 kadd (map (kv K k0 d) (stencil (dm d)))) = true
      /\ (forall o, In o (stencil (dm d)) -> inside n (add3 (dc d) o) = true)) ds ->
    kmul vol (gsum K k0 kadd n (deposit_all K k0 kadd kmul kdiv norm_ok n vol g ds))
    = kadd (kmul vol (gsum K k0 kadd n g)) (ksum k0 kadd (map dv ds)).
Proof. exact conserve_list. Qed.
Print Assumptions C16_conserve.

Theorem C16_conserve_one :
  forall K k0 k1 kadd kmul ksub kdiv kopp kinv, field_theory k0 k1 kadd kmul ksub kopp kdiv kinv (@eq K) ->
  forall norm_ok : K -> bool, (forall N, norm_ok N = true -> N <> k0) ->
  forall (n : Z * Z * Z) (vol : K) (g : zgrid K) (d : dep K), vol <> k0 ->
    (forall o, In o (stencil (dm d)) -> dk d o <> None)
    /\ norm_ok (ksum k0 kadd (map (kv K k0 d) (stencil (dm d)))) = true
    /\ (forall o, In o (stencil (dm d)) -> inside n (add3 (dc d) o) = true) ->
    kmul vol (gsum K k0 kadd n (deposit_one K k0 kadd kmul kdiv norm_ok n vol g d))
    = kadd (kmul vol (gsum K k0 kadd n g)) (dv d).
Proof. exact conserve_one. Qed.
Print Assumptions C16_conserve_one.

(* clipped support (any part of the stencil may fall outside): with a non-negative kernel and non-negative
   quantities the deposited amount never exceeds the quantities; any ordered field *)
Theorem C16_clip :
  forall K k0 k1 kadd kmul ksub kdiv kopp kinv, field_theory k0 k1 kadd kmul ksub kopp kdiv kinv (@eq K) ->
  forall norm_ok : K -> bool, (forall N, norm_ok N = true -> N <> k0) ->
  forall kle : K -> K -> Prop,
    (forall a, kle a a) -> (forall a b c, kle a b -> kle b c -> kle a c) ->
    (forall a b c, kle a b -> kle (kadd a c) (kadd b c)) ->
    (forall a b, kle k0 a -> kle k0 b -> kle k0 (kmul a b)) ->
    (forall a, kle k0 a -> a <> k0 -> kle k0 (kinv a)) ->
  forall (n : Z * Z * Z) (vol : K) (g : zgrid K) (ds : list (dep K)), vol <> k0 ->
    Forall (fun d =>
      (forall o, In o (stencil (dm d)) -> dk d o <> None)
      /\ norm_ok (ksum k0 kadd (map (kv K k0 d) (stencil (dm d)))) = true
      /\ (forall o, In o (stencil (dm d)) -> kle k0 (kv K k0 d o))
      /\ kle k0 (dv d)) ds ->
    kle (kmul vol (ksub (gsum K k0 kadd n (deposit_all K k0 kadd kmul kdiv norm_ok n vol g ds)) (gsum K k0 kadd n g)))
        (ksum k0 kadd (map dv ds)).
Proof. exact clip_list. Qed.
Print Assumptions C16_clip.

(* the grid after the deposit is, node by node, the old content plus every particle's contribution:
   order independence (Permutation) and accumulation follow *)
Theorem C16_order :
  forall K k0 k1 kadd kmul ksub kdiv kopp kinv, field_theory k0 k1 kadd kmul ksub kopp kdiv kinv (@eq K) ->
  forall (norm_ok : K -> bool) (n : Z * Z * Z) (vol : K) (g : zgrid K) (ds ds' : list (dep K)) (q : Z * Z * Z),
    Permutation ds ds' ->
    deposit_all K k0 kadd kmul kdiv norm_ok n vol g ds q = deposit_all K k0 kadd kmul kdiv norm_ok n vol g ds' q.
Proof. exact deposit_perm. Qed.
Print Assumptions C16_order.

(* the public method: its result is the deposit of the validated particles onto the old grid (add=True) or onto
   zero (add=False) *)
Theorem C16_method :
  forall K k0 k1 kadd kmul kdiv (norm_ok : K -> bool) (L : slat K) nsig ps sigma quantity kern add L',
    add_particle_data K k0 k1 kadd kmul kdiv norm_ok L nsig ps sigma quantity kern add = Ok L' ->
    exists ds, mapM (prep K k1 (sax L) (say L) (saz L) nsig sigma quantity kern) ps = Ok ds
      /\ sgrid L' = deposit_all K k0 kadd kmul kdiv norm_ok (sdims L) (svol L) (if add then sgrid L else fun _ => k0) ds
      /\ sax L' = sax L /\ say L' = say L /\ saz L' = saz L /\ svol L' = svol L.
Proof. exact apd_spec. Qed.
Print Assumptions C16_method.

Theorem C16_method_conserves :
  forall K k0 k1 kadd kmul ksub kdiv kopp kinv, field_theory k0 k1 kadd kmul ksub kopp kdiv kinv (@eq K) ->
  forall norm_ok : K -> bool, (forall N, norm_ok N = true -> N <> k0) ->
  forall (L : slat K) nsig ps sigma quantity kern add L' ds,
    add_particle_data K k0 k1 kadd kmul kdiv norm_ok L nsig ps sigma quantity kern add = Ok L' ->
    mapM (prep K k1 (sax L) (say L) (saz L) nsig sigma quantity kern) ps = Ok ds ->
    svol L <> k0 -> Forall (good K k0 kadd norm_ok (sdims L)) ds ->
    kmul (svol L) (gsum K k0 kadd (sdims L) (sgrid L'))
    = kadd (kmul (svol L) (gsum K k0 kadd (sdims L) (if add then sgrid L else fun _ => k0))) (ksum k0 kadd (map dv ds)).
Proof. exact apd_conserves. Qed.
Print Assumptions C16_method_conserves.

Theorem C16_add_false_starts_from_zero :
  forall K k0 k1 kadd kmul kdiv (norm_ok : K -> bool) (L : slat K) nsig ps sigma quantity kern,
    add_particle_data K k0 k1 kadd kmul kdiv norm_ok L nsig ps sigma quantity kern false
    = add_particle_data K k0 k1 kadd kmul kdiv norm_ok
        {| sax := sax L; say := say L; saz := saz L; svol := svol L; sgrid := fun _ => k0 |}
        nsig ps sigma quantity kern true.
Proof. exact apd_add_flag. Qed.
Print Assumptions C16_add_false_starts_from_zero.

Theorem C16_add_true_accumulates :
  forall K k0 k1 kadd kmul ksub kdiv kopp kinv, field_theory k0 k1 kadd kmul ksub kopp kdiv kinv (@eq K) ->
  forall (norm_ok : K -> bool) (L : slat K) nsig ps sigma quantity kern La Lf,
    add_particle_data K k0 k1 kadd kmul kdiv norm_ok L nsig ps sigma quantity kern true = Ok La ->
    add_particle_data K k0 k1 kadd kmul kdiv norm_ok L nsig ps sigma quantity kern false = Ok Lf ->
    forall q, sgrid La q = kadd (sgrid L q) (sgrid Lf q).
Proof. exact apd_accumulates. Qed.
Print Assumptions C16_add_true_accumulates.

Theorem C16_method_order :
  forall K k0 k1 kadd kmul ksub kdiv kopp kinv, field_theory k0 k1 kadd kmul ksub kopp kdiv kinv (@eq K) ->
  forall (norm_ok : K -> bool) (L : slat K) nsig ps ps' sigma quantity kern add L1,
    Permutation ps ps' ->
    add_particle_data K k0 k1 kadd kmul kdiv norm_ok L nsig ps sigma quantity kern add = Ok L1 ->
    exists L2, add_particle_data K k0 k1 kadd kmul kdiv norm_ok L nsig ps' sigma quantity kern add = Ok L2
      /\ forall q, sgrid L1 q = sgrid L2 q.
Proof. exact apd_order. Qed.
Print Assumptions C16_method_order.

(* the guard the source puts in front of `/= norm` never lets a zero divisor through *)
Theorem C16_guard_nonzero : forall q : Q, gen_norm_ok q = true -> ~ (q == 0)%Q.
Proof. exact gen_norm_ok_nz. Qed.
Print Assumptions C16_guard_nonzero.

(* the five quantities: which particle attribute each keyword deposits (read from the dispatch in the source) *)
Theorem C16_quantities :
  gen_quantity_table = [("energy_density", QAttr "E"); ("number_density", QOne); ("charge_density", QAttr "charge");
                        ("baryon_density", QAttr "baryon_number"); ("strangeness_density", QAttr "strangeness")]%string
  /\ gen_quantity_unknown = ValueError.
Proof. exact quantity_table_spec. Qed.
Print Assumptions C16_quantities.

(* instances: canonical rationals with the generated guard; reals with any guard that excludes zero *)
Theorem C16_conserve_Qc :
  forall (n : Z * Z * Z) (vol : Qc) (g : zgrid Qc) (ds : list (dep Qc)), vol <> 0%Qc ->
    Forall (good Qc 0%Qc Qcplus qc_norm_ok n) ds ->
    (vol * gsum Qc 0%Qc Qcplus n (deposit_all Qc 0%Qc Qcplus Qcmult Qcdiv qc_norm_ok n vol g ds)
     = vol * gsum Qc 0%Qc Qcplus n g + ksum 0%Qc Qcplus (map dv ds))%Qc.
Proof. exact qc_conserve. Qed.
Print Assumptions C16_conserve_Qc.

Theorem C16_clip_Qc :
  forall (n : Z * Z * Z) (vol : Qc) (g : zgrid Qc) (ds : list (dep Qc)), vol <> 0%Qc ->
    Forall (clip_ok Qc 0%Qc Qcplus qc_norm_ok Qcle) ds ->
    (vol * (gsum Qc 0%Qc Qcplus n (deposit_all Qc 0%Qc Qcplus Qcmult Qcdiv qc_norm_ok n vol g ds)
            - gsum Qc 0%Qc Qcplus n g) <= ksum 0%Qc Qcplus (map dv ds))%Qc.
Proof. exact qc_clip. Qed.
Print Assumptions C16_clip_Qc.

Theorem C16_conserve_R :
  forall norm_ok : R -> bool, (forall N, norm_ok N = true -> N <> 0%R) ->
  forall (n : Z * Z * Z) (vol : R) (g : zgrid R) (ds : list (dep R)), vol <> 0%R ->
    Forall (good R 0%R Rplus norm_ok n) ds ->
    (vol * gsum R 0 Rplus n (deposit_all R 0 Rplus Rmult Rdiv norm_ok n vol g ds)
     = vol * gsum R 0 Rplus n g + ksum 0 Rplus (map dv ds))%R.
Proof. exact r_conserve. Qed.
Print Assumptions C16_conserve_R.

Theorem C16_clip_R :
  forall norm_ok : R -> bool, (forall N, norm_ok N = true -> N <> 0%R) ->
  forall (n : Z * Z * Z) (vol : R) (g : zgrid R) (ds : list (dep R)), vol <> 0%R ->
    Forall (clip_ok R 0%R Rplus norm_ok Rle) ds ->
    (vol * (gsum R 0 Rplus n (deposit_all R 0 Rplus Rmult Rdiv norm_ok n vol g ds) - gsum R 0 Rplus n g)
     <= ksum 0 Rplus (map dv ds))%R.
Proof. exact r_clip. Qed.
Print Assumptions C16_clip_R.

(* non-vacuity: 5 x 3 x 3 nodes, cell volume 1/2, one particle of quantity 3 at node (2,1,1), half-widths (1,1,1),
   kernel 2 at the centre and 1 elsewhere (sum 28): everything inside, 2 * sum(grid) = 3; the same stencil
   centred on the corner node (0,0,0) keeps only 8 of the 27 offsets: 2 * sum = 3 * 9/28 <= 3 *)
Theorem C16_example :
  let kap := fun o : Z * Z * Z => Some (if eq3 o (0, 0, 0)%Z then 2%Q else 1%Q) in
  let d1 := {| dc := (2, 1, 1)%Z; dv := 3%Q; dm := (1, 1, 1)%Z; dk := kap |} in
  let d2 := {| dc := (0, 0, 0)%Z; dv := 3%Q; dm := (1, 1, 1)%Z; dk := kap |} in
  let dep1 := deposit_one Q 0%Q qadd qmul qdiv gen_norm_ok (5, 3, 3)%Z (1 # 2)%Q (fun _ => 0%Q) in
  (Qred ((1 # 2) * gsum Q 0%Q qadd (5, 3, 3)%Z (dep1 d1))%Q, Qred ((1 # 2) * gsum Q 0%Q qadd (5, 3, 3)%Z (dep1 d2))%Q,
   dep1 d1 (2, 1, 1)%Z, dep1 d1 (5, 1, 1)%Z)
  = (3%Q, (27 # 28)%Q, (3 # 7)%Q, 0%Q).
Proof. exact (eq_refl _). Qed.
Print Assumptions C16_example.

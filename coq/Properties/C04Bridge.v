(* C04 bridge (attached to C04): the loader hand-over of Model/Storer.v in closed form - [load_oscar], [load_jetscape]
   ([load_file]) and [load_pobj], i.e. what a storer holds right after construction, the starting point of every
   history in the C04 theorems - equals the observables of the loader models Model/Oscar.v [load], Model/Jetscape.v
   [jload], Model/PObj.v [pload], which are proved equal to the method bodies regenerated from OscarLoader.py /
   JetscapeLoader.py / ParticleObjectLoader.py (+ ParticleObjectStorer.__init__) on every run (Properties/SrcOscarLoader.v,
   SrcJetscapeLoader.v, SrcPObj.v).  So the closed form no longer rests on the correspondence alone.
   Statements only, closed by [exact]; proofs in Proofs/C04_Bridge.v (loads: Proofs/Bridge_Loads.v over C01/C02).

   Reading guide.
   - Model/Storer.v identifies a particle with a number; [ident] is ANY function from a loaded particle (25 slots) to
     its identity.  [full] = the load without options: its events, mapped by [ident], are the file handed to the closed
     form.  ld0 = the load without filters for the same selector ("the selected events").
   - [oscar_state code ld] / [jetscape_state pt ld] / [pobj_state ps] = the storer record read off the loader model's
     observables: events = particle_list_, nevents = num_events_, counts = [table_of rows] = num_output_per_event_
     WITH labels and shape - the 2-D table A2 rows, or, when no event is left, the empty 1-D array A1 [] that the file
     loaders leave (np.array([])) together with the placeholder [[]] and num_events_ = 0; Oscar: one end line per event
     of the FILE (not of the selection); JETSCAPE: sigmaGen_[0].  The format / particle type are carried as the number
     Model/Storer.v names them by (no counterpart is claimed).  The loader models do not record the shape of an empty
     table (Model/Jetscape.v's flag j_counts_2d is constantly true, by the convention of its harness); the shape A1 []
     is Model/Storer.v's, and it is what the real loaders return (checked on the code, see the builder's report).
   - [realises4 ident filt flt evs]: no filter on either side, or  map ident (f data) = chain_event ch (map ident data)
     on every event of evs, where chain_event ch data is the single event of  gchain ch [data]  (what [ctor_apply]
     returns; Model/Storer.v's chains never raise).  For chains of sub-list filters and event-level cuts ([sfop]) the
     function is given explicitly ([lift_chain]) and the theorems [*_sub] have no hypothesis about it.
   - [sel_in_range], [sel_storer]: no selector / events=k / events=(a,b) in range; [sel_past_end]: events=k with k >= N,
     events=(a,b) with 0 <= a <= b and b >= N.  Selector VALIDATION (negative,
     reversed, non-int) is done before [load] / [jload] are entered (SrcOscarLoader_load_rejects ...) and is therefore
     bridged for particle objects only, whose model [pload] contains it. *)
From Coq Require Import List String ZArith QArith Bool.
From SX Require Import Lib.Strs Gen.GenParticleMap Model.Oscar Model.OscarDoc Model.Jetscape Model.JetscapeDoc
  Proofs.Bridge_Loads Proofs.Bridge_Example Proofs.C02_JetscapeExample.
From SX Require Import Model.PObj.
From SX Require Import Lib.Py Model.Storer Model.StorerSpec Proofs.C04_Bridge.
Import ListNotations.

(* ---- Oscar: every well-formed document, every selector in range, with or without a constructor filter chain *)
Theorem C04_bridge_oscar :
  forall tok_float tok_int pdg_valid (ident : particle -> pid) d fmt attrs sel filt flt code full ld0,
  wf tok_float tok_int pdg_valid d fmt attrs -> sel_in_range sel (List.length (d_events d)) ->
  load tok_float tok_int pdg_valid None (render d) SelAll = Oscar.Ok full ->
  load tok_float tok_int pdg_valid None (render d) sel = Oscar.Ok ld0 ->
  realises4 ident filt flt (l_events ld0) ->
  exists ld, load tok_float tok_int pdg_valid flt (render d) sel = Oscar.Ok ld /\
    load_oscar (map (map ident) (l_events full)) (sel_storer sel) filt code = Ok (oscar_state ident code ld) /\
    Inv (oscar_state ident code ld).
Proof. exact bridge4_oscar. Qed.
Print Assumptions C04_bridge_oscar.

Theorem C04_bridge_oscar_sub :
  forall tok_float tok_int pdg_valid (ident : particle -> pid) d fmt attrs sel ch code full,
  wf tok_float tok_int pdg_valid d fmt attrs -> sel_in_range sel (List.length (d_events d)) ->
  load tok_float tok_int pdg_valid None (render d) SelAll = Oscar.Ok full ->
  exists ld, load tok_float tok_int pdg_valid (Some (lift_chain ident ch)) (render d) sel = Oscar.Ok ld /\
    load_oscar (map (map ident) (l_events full)) (sel_storer sel) (Some (map to_fop ch)) code
    = Ok (oscar_state ident code ld) /\
    Inv (oscar_state ident code ld).
Proof. exact bridge4_oscar_sub. Qed.
Print Assumptions C04_bridge_oscar_sub.

(* a valid selector reaching past the last event: IndexError on both sides, with or without filters *)
Theorem C04_bridge_oscar_past_end :
  forall tok_float tok_int pdg_valid (ident : particle -> pid) d fmt attrs sel filt flt code full,
  wf tok_float tok_int pdg_valid d fmt attrs -> sel_past_end sel (List.length (d_events d)) ->
  load tok_float tok_int pdg_valid None (render d) SelAll = Oscar.Ok full ->
  load tok_float tok_int pdg_valid flt (render d) sel = Oscar.Err Oscar.IndexError /\
  load_oscar (map (map ident) (l_events full)) (sel_storer sel) filt code = Err IndexError.
Proof. exact bridge4_oscar_past_end. Qed.
Print Assumptions C04_bridge_oscar_past_end.

(* C04_loaded_inv_oscar restated about the loader model alone: whatever the per-event filter function, the state read off
   a load of a well-formed document satisfies the invariant *)
Theorem C04_bridge_loaded_inv_oscar :
  forall tok_float tok_int pdg_valid (ident : particle -> pid) d fmt attrs sel flt code ld,
  wf tok_float tok_int pdg_valid d fmt attrs -> sel_in_range sel (List.length (d_events d)) ->
  load tok_float tok_int pdg_valid flt (render d) sel = Oscar.Ok ld -> Inv (oscar_state ident code ld).
Proof. exact loaded_inv_oscar. Qed.
Print Assumptions C04_bridge_loaded_inv_oscar.

(* ---- JETSCAPE (labels start at 1; sigmaGen_[0] handed over) *)
Theorem C04_bridge_jetscape :
  forall tok_float tok_int pdg_valid pdg_charge usqrt defstr (ident : particle -> pid) d s1 s2 sel filt flt pt full ld0,
  jwf tok_float tok_int pdg_valid pdg_charge usqrt defstr d s1 s2 -> sel_in_range sel (List.length (jd_events d)) ->
  jload tok_float tok_int pdg_valid pdg_charge usqrt None (jrender d) defstr SelAll = Oscar.Ok full ->
  jload tok_float tok_int pdg_valid pdg_charge usqrt None (jrender d) defstr sel = Oscar.Ok ld0 ->
  realises4 ident filt flt (j_events ld0) ->
  exists ld, jload tok_float tok_int pdg_valid pdg_charge usqrt flt (jrender d) defstr sel = Oscar.Ok ld /\
    load_jetscape (map (map ident) (j_events full)) (sel_storer sel) filt pt (fst (j_sigma full))
    = Ok (jetscape_state ident pt ld) /\
    Inv (jetscape_state ident pt ld).
Proof. exact bridge4_jetscape. Qed.
Print Assumptions C04_bridge_jetscape.

Theorem C04_bridge_jetscape_sub :
  forall tok_float tok_int pdg_valid pdg_charge usqrt defstr (ident : particle -> pid) d s1 s2 sel ch pt full,
  jwf tok_float tok_int pdg_valid pdg_charge usqrt defstr d s1 s2 -> sel_in_range sel (List.length (jd_events d)) ->
  jload tok_float tok_int pdg_valid pdg_charge usqrt None (jrender d) defstr SelAll = Oscar.Ok full ->
  exists ld, jload tok_float tok_int pdg_valid pdg_charge usqrt (Some (lift_chain ident ch)) (jrender d) defstr sel = Oscar.Ok ld /\
    load_jetscape (map (map ident) (j_events full)) (sel_storer sel) (Some (map to_fop ch)) pt (fst (j_sigma full))
    = Ok (jetscape_state ident pt ld) /\
    Inv (jetscape_state ident pt ld).
Proof. exact bridge4_jetscape_sub. Qed.
Print Assumptions C04_bridge_jetscape_sub.

Theorem C04_bridge_jetscape_past_end :
  forall tok_float tok_int pdg_valid pdg_charge usqrt defstr (ident : particle -> pid) d s1 s2 sel filt flt pt full,
  jwf tok_float tok_int pdg_valid pdg_charge usqrt defstr d s1 s2 -> sel_past_end sel (List.length (jd_events d)) ->
  jload tok_float tok_int pdg_valid pdg_charge usqrt None (jrender d) defstr SelAll = Oscar.Ok full ->
  jload tok_float tok_int pdg_valid pdg_charge usqrt flt (jrender d) defstr sel = Oscar.Err Oscar.IndexError /\
  load_jetscape (map (map ident) (j_events full)) (sel_storer sel) filt pt (fst (j_sigma full)) = Err IndexError.
Proof. exact bridge4_jetscape_past_end. Qed.
Print Assumptions C04_bridge_jetscape_past_end.

Theorem C04_bridge_loaded_inv_jetscape :
  forall tok_float tok_int pdg_valid pdg_charge usqrt defstr (ident : particle -> pid) d s1 s2 sel flt pt ld,
  jwf tok_float tok_int pdg_valid pdg_charge usqrt defstr d s1 s2 -> sel_in_range sel (List.length (jd_events d)) ->
  jload tok_float tok_int pdg_valid pdg_charge usqrt flt (jrender d) defstr sel = Oscar.Ok ld ->
  Inv (jetscape_state ident pt ld).
Proof. exact loaded_inv_jetscape. Qed.
Print Assumptions C04_bridge_loaded_inv_jetscape.

(* ---- particle objects: full equality for EVERY event list, selector (valid or not) and chain, exception classes
   included (ValueError for a negative or reversed selector, IndexError for events=k past the list).  The raw tuple of
   ParticleObjectLoader.load() ([pobj_loader]: counts of ALL events as a plain list, un-sliced num_events_) has no
   counterpart in Model/PObj.v, which models the storer after ParticleObjectStorer.__init__; that step of the closed
   form is tied to the source by C04_source_load_pobj / C04_source_pobj_init *)
Theorem C04_bridge_pobj :
  forall evs s filt,
  load_pobj evs s filt = rmap pobj_state (pload pid (option_map ctor_apply filt) (psel_of s) evs).
Proof. exact bridge4_pobj. Qed.
Print Assumptions C04_bridge_pobj.

Theorem C04_bridge_loaded_inv_pobj :
  forall flt s evs ps, pload pid flt s evs = Ok ps -> Inv (pobj_state ps).
Proof. exact loaded_inv_pobj. Qed.
Print Assumptions C04_bridge_loaded_inv_pobj.

(* ---- the chain of Model/Storer.v on one event, and its explicit realisation on particle lists *)
Theorem C04_bridge_chain_event :
  forall ch data, ctor_apply ch data = Ok (chain_event ch data).
Proof. exact ctor_apply_chain. Qed.
Print Assumptions C04_bridge_chain_event.

Theorem C04_bridge_lift :
  forall (ident : particle -> pid) ch data,
  map ident (lift_chain ident ch data) = chain_event (map to_fop ch) (map ident data).
Proof. exact lift_chain_realises. Qed.
Print Assumptions C04_bridge_lift.

(* ---- non-vacuity: the three-event Oscar2013 document of Proofs/Bridge_Example.v (IDs [7;1], [], [1]; well-formed:
   C05_bridge_example), chain = keep the particle with ID 7, then keep the events with at least one particle.  Both sides
   by computation: the unrestricted load keeps [7] and the empty event and drops event 2; events=(1,2) leaves the empty
   event under label 1; events=2 leaves no event - placeholder, A1 [], num_events_ = 0; three end lines throughout *)
Theorem C04_bridge_example :
  bx4_all = [[7; 1]; []; [1]]%Z /\
  bx4_state SelAll = Some (mkS COscar [[7]; []] (A2 [(0, 1); (1, 0)]) 2 [0; 1; 2] 0 0 0%Q)%Z /\
  load_oscar bx4_all SAll (Some (map to_fop bx4_chain)) 0
  = Ok (mkS COscar [[7]; []] (A2 [(0, 1); (1, 0)]) 2 [0; 1; 2] 0 0 0%Q)%Z /\
  bx4_state (SelRange 1 2) = Some (mkS COscar [[]] (A2 [(1, 0)]) 1 [0; 1; 2] 0 0 0%Q)%Z /\
  load_oscar bx4_all (SRange 1 2) (Some (map to_fop bx4_chain)) 0
  = Ok (mkS COscar [[]] (A2 [(1, 0)]) 1 [0; 1; 2] 0 0 0%Q)%Z /\
  bx4_state (SelOne 2) = Some (mkS COscar [[]] (A1 []) 0 [0; 1; 2] 0 0 0%Q)%Z /\
  load_oscar bx4_all (SOne 2) (Some (map to_fop bx4_chain)) 0
  = Ok (mkS COscar [[]] (A1 []) 0 [0; 1; 2] 0 0 0%Q)%Z.
Proof. exact bridge4_example. Qed.
Print Assumptions C04_bridge_example.

(* a file without events is outside [wf] (at least one event) and outside the bridges; on the header-only variants of the
   example documents both models answer with the same exception class, which is also what the real code raises *)
Theorem C04_bridge_no_events_example :
  load bx_tf bx_ti bx_pv None (render {| d_h1 := d_h1 bx_doc; d_h2 := d_h2 bx_doc; d_h3 := d_h3 bx_doc; d_events := [] |}) SelAll
  = Oscar.Err Oscar.TypeError /\
  load_oscar [] SAll None 0 = Err TypeError /\
  jload exj_tf exj_ti exj_pv exj_pc exj_sqrt None
        (jrender {| jd_h0 := jd_h0 exj_doc; jd_events := []; jd_trailer := jd_trailer exj_doc |}) "N_hadrons"%string SelAll
  = Oscar.Err Oscar.IndexError /\
  load_jetscape [] SAll None 0 0%Q = Err IndexError.
Proof. exact bridge4_no_events_example. Qed.
Print Assumptions C04_bridge_no_events_example.

(* the same document through the theorem, for every selector in range *)
Theorem C04_bridge_example_by_theorem :
  forall sel, sel_in_range sel 3 ->
  exists full ld,
    load bx_tf bx_ti bx_pv None (render bx_doc) SelAll = Oscar.Ok full /\
    load bx_tf bx_ti bx_pv (Some bx4_f) (render bx_doc) sel = Oscar.Ok ld /\
    load_oscar (map (map bx_id) (l_events full)) (sel_storer sel) (Some (map to_fop bx4_chain)) 0
    = Ok (oscar_state bx_id 0 ld) /\
    Inv (oscar_state bx_id 0 ld).
Proof. exact bridge4_example_by_theorem. Qed.
Print Assumptions C04_bridge_example_by_theorem.

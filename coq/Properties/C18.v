(* C18 - eccentricities obey their symmetry relations and bound.
   Statements only; proofs in Proofs/C18_*.v; model Model/Ecc.v around Gen/GenEcc.v (weight table, radial-power
   chain, loop body, return expression and argument checks regenerated from EventCharacteristics.py every run).
   K is any field with decidable zero test.  A point is (x, y, r, weight); the model uses the unit vector
   u = (x/r, y/r) and u^n for (cos n phi, sin n phi) - C18_code_form_R ties this to the polar angle over R.
   [eps E n l] = ( - sum w r^E Re u^n / sum w r^E ,  - sum w r^E Im u^n / sum w r^E ). *)
From Coq Require Import List ZArith QArith Bool Field_theory Permutation String Reals.
From SX Require Import Lib.KRing Lib.Py Gen.GenEcc Model.Ecc Proofs.C18_Ecc Proofs.C18_Std Proofs.C18_Model Proofs.C18_Real.
Import ListNotations.

(* both generated loop bodies have the shape  real += rn*cos*w, imag += rn*sin*w, norm += rn*w, -(re/norm + i im/norm) *)
Theorem C18_body_particles : forall K kmul kdiv kopp, std_body K kmul kdiv kopp (body_particles K kmul kdiv kopp).
Proof. exact std_particles. Qed.
Print Assumptions C18_body_particles.
Theorem C18_body_lattice : forall K kmul kdiv kopp, std_body K kmul kdiv kopp (body_lattice K kmul kdiv kopp).
Proof. exact std_lattice. Qed.
Print Assumptions C18_body_lattice.

(* the five weights: which particle attribute each keyword selects *)
Theorem C18_weights :
  gen_weight_table = [("energy", WAttr "E"); ("number", WOne); ("charge", WAttr "charge");
                      ("baryon", WAttr "baryon_number"); ("strangeness", WAttr "strangeness")]%string.
Proof. exact weight_table_spec. Qed.
Print Assumptions C18_weights.

(* the value: eps = - sum(w r^m e^{i n phi}) / sum(w r^m) whenever the denominator is not zero *)
Theorem C18_formula :
  forall K k0 k1 kadd kmul ksub kdiv kopp kinv, field_theory k0 k1 kadd kmul ksub kopp kdiv kinv (@eq K) ->
  forall kis0 : K -> bool, (forall a, kis0 a = true <-> a = k0) ->
  forall B, std_body K kmul kdiv kopp B ->
  forall E n pts l, pts <> [] -> weights K pts = Some l -> SN K k0 k1 kadd kmul E l <> k0 ->
    ecc_core K k0 k1 kadd kmul ksub kdiv kis0 B E n pts = Ok (Some (eps K k0 k1 kadd kmul ksub kdiv kopp kis0 E n l)).
Proof. exact formula_std. Qed.
Print Assumptions C18_formula.

Theorem C18_zero_denominator :
  forall K k0 k1 kadd kmul ksub kdiv kopp kinv, field_theory k0 k1 kadd kmul ksub kopp kdiv kinv (@eq K) ->
  forall kis0 : K -> bool, (forall a, kis0 a = true <-> a = k0) ->
  forall B, std_body K kmul kdiv kopp B ->
  forall E n pts l, pts <> [] -> weights K pts = Some l -> SN K k0 k1 kadd kmul E l = k0 ->
    ecc_core K k0 k1 kadd kmul ksub kdiv kis0 B E n pts = Ok None.
Proof. exact zero_norm_std. Qed.
Print Assumptions C18_zero_denominator.

(* the radial power: m = 3 for n = 1 and no m, m = n otherwise, the given m when there is one; the particle
   variant is the core applied to the particles with the weight selected by the table *)
Theorem C18_particles :
  forall K k0 k1 kadd kmul ksub kdiv kopp (kis0 : K -> bool) n m wq sel (ps : list (pobs K)),
    (1 <= n)%Z -> match m with Some v => (1 <= v)%Z | None => True end -> ps <> [] ->
    Ecc.lookup wq gen_weight_table = Some sel ->
    ecc_from_particles K k0 k1 kadd kmul ksub kdiv kopp kis0 n m wq ps
    = ecc_core K k0 k1 kadd kmul ksub kdiv kis0 (body_particles K kmul kdiv kopp)
        (Z.to_nat (match m with Some v => v | None => if (n =? 1)%Z then 3%Z else n end)) (Z.to_nat n)
        (map (to_pt K k1 sel) ps).
Proof. exact particles_core. Qed.
Print Assumptions C18_particles.

(* the lattice variant: the same core over the nodes (every z), the node value as weight *)
Theorem C18_lattice :
  forall K k0 k1 kadd kmul ksub kdiv kopp (kis0 : K -> bool) n m xs ys nz rad dens,
    (1 <= n)%Z -> match m with Some v => (1 <= v)%Z | None => True end ->
    nodes K k0 xs ys nz rad dens <> [] ->
    ecc_from_lattice K k0 k1 kadd kmul ksub kdiv kopp kis0 n m xs ys nz rad dens
    = ecc_core K k0 k1 kadd kmul ksub kdiv kis0 (body_lattice K kmul kdiv kopp)
        (Z.to_nat (match m with Some v => v | None => if (n =? 1)%Z then 3%Z else n end)) (Z.to_nat n)
        (nodes K k0 xs ys nz rad dens).
Proof. exact lattice_core. Qed.
Print Assumptions C18_lattice.

Theorem C18_lattice_weights :
  forall K k0 xs ys nz rad dens,
    weights K (nodes K k0 xs ys nz rad dens)
    = Some (map (fun p => (p, match pw p with Some w => w | None => k0 end)) (nodes K k0 xs ys nz rad dens)).
Proof. exact nodes_weights. Qed.
Print Assumptions C18_lattice_weights.

Theorem C18_rejected_arguments :
  forall K k0 k1 kadd kmul ksub kdiv kopp (kis0 : K -> bool) n m wq (ps : list (pobs K)),
    ((n < 1)%Z -> ecc_from_particles K k0 k1 kadd kmul ksub kdiv kopp kis0 n m wq ps = Err ValueError)
    /\ ((exists v, m = Some v /\ (v < 1)%Z) -> ecc_from_particles K k0 k1 kadd kmul ksub kdiv kopp kis0 n m wq ps = Err ValueError)
    /\ ((1 <= n)%Z -> match m with Some v => (1 <= v)%Z | None => True end -> ps <> [] ->
        Ecc.lookup wq gen_weight_table = None ->
        ecc_from_particles K k0 k1 kadd kmul ksub kdiv kopp kis0 n m wq ps = Err ValueError)
    /\ ((1 <= n)%Z -> match m with Some v => (1 <= v)%Z | None => True end ->
        ecc_from_particles K k0 k1 kadd kmul ksub kdiv kopp kis0 n m wq [] = Err ZeroDivisionError).
Proof. exact particles_errors. Qed.
Print Assumptions C18_rejected_arguments.

(* rotation of all positions by the angle alpha (unit vector (ca, sa)): eps -> e^{i n alpha} eps *)
Theorem C18_rotation :
  forall K k0 k1 kadd kmul ksub kdiv kopp kinv, field_theory k0 k1 kadd kmul ksub kopp kdiv kinv (@eq K) ->
  forall kis0 : K -> bool, (forall a, kis0 a = true <-> a = k0) ->
  forall B, std_body K kmul kdiv kopp B ->
  forall ca sa E n pts l, (1 <= E)%nat -> pts <> [] -> weights K pts = Some l -> SN K k0 k1 kadd kmul E l <> k0 ->
    ecc_core K k0 k1 kadd kmul ksub kdiv kis0 B E n (map (rot K kadd kmul ksub ca sa) pts)
    = Ok (Some (cmul K kadd kmul ksub (eps K k0 k1 kadd kmul ksub kdiv kopp kis0 E n l) (cis_pow K k0 k1 kadd kmul ksub ca sa n))).
Proof. exact rotation_std. Qed.
Print Assumptions C18_rotation.

(* reflection x -> -x: eps -> (-1)^n conj(eps) *)
Theorem C18_reflection :
  forall K k0 k1 kadd kmul ksub kdiv kopp kinv, field_theory k0 k1 kadd kmul ksub kopp kdiv kinv (@eq K) ->
  forall kis0 : K -> bool, (forall a, kis0 a = true <-> a = k0) ->
  forall B, std_body K kmul kdiv kopp B ->
  forall E n pts l, (1 <= E)%nat -> pts <> [] -> weights K pts = Some l -> SN K k0 k1 kadd kmul E l <> k0 ->
    ecc_core K k0 k1 kadd kmul ksub kdiv kis0 B E n (map (refl K kopp) pts)
    = Ok (Some (kmul (kpow k1 kmul (kopp k1) n) (fst (eps K k0 k1 kadd kmul ksub kdiv kopp kis0 E n l)),
                kopp (kmul (kpow k1 kmul (kopp k1) n) (snd (eps K k0 k1 kadd kmul ksub kdiv kopp kis0 E n l))))).
Proof. exact reflection_std. Qed.
Print Assumptions C18_reflection.

(* uniform scaling of the positions (radius scales along) or of the weights, and reordering, change nothing *)
Theorem C18_scale_positions :
  forall K k0 k1 kadd kmul ksub kdiv kopp kinv, field_theory k0 k1 kadd kmul ksub kopp kdiv kinv (@eq K) ->
  forall kis0 : K -> bool, (forall a, kis0 a = true <-> a = k0) ->
  forall B, std_body K kmul kdiv kopp B ->
  forall lam E n pts l, lam <> k0 -> pts <> [] -> weights K pts = Some l -> SN K k0 k1 kadd kmul E l <> k0 ->
    ecc_core K k0 k1 kadd kmul ksub kdiv kis0 B E n (map (scalep K kmul lam) pts)
    = Ok (Some (eps K k0 k1 kadd kmul ksub kdiv kopp kis0 E n l)).
Proof. exact scale_positions_std. Qed.
Print Assumptions C18_scale_positions.

Theorem C18_scale_weights :
  forall K k0 k1 kadd kmul ksub kdiv kopp kinv, field_theory k0 k1 kadd kmul ksub kopp kdiv kinv (@eq K) ->
  forall kis0 : K -> bool, (forall a, kis0 a = true <-> a = k0) ->
  forall B, std_body K kmul kdiv kopp B ->
  forall mu E n pts l, mu <> k0 -> pts <> [] -> weights K pts = Some l -> SN K k0 k1 kadd kmul E l <> k0 ->
    ecc_core K k0 k1 kadd kmul ksub kdiv kis0 B E n (map (scalew K kmul mu) pts)
    = Ok (Some (eps K k0 k1 kadd kmul ksub kdiv kopp kis0 E n l)).
Proof. exact scale_weights_std. Qed.
Print Assumptions C18_scale_weights.

Theorem C18_permutation :
  forall K k0 k1 kadd kmul ksub kdiv kopp kinv, field_theory k0 k1 kadd kmul ksub kopp kdiv kinv (@eq K) ->
  forall kis0 : K -> bool, (forall a, kis0 a = true <-> a = k0) ->
  forall B, std_body K kmul kdiv kopp B ->
  forall E n pts pts' l, Permutation pts pts' -> pts <> [] -> weights K pts = Some l -> SN K k0 k1 kadd kmul E l <> k0 ->
    ecc_core K k0 k1 kadd kmul ksub kdiv kis0 B E n pts' = Ok (Some (eps K k0 k1 kadd kmul ksub kdiv kopp kis0 E n l)).
Proof. exact permutation_std. Qed.
Print Assumptions C18_permutation.

(* over the reals: the bound for non-negative weights (r >= 0, r^2 = x^2 + y^2) *)
Theorem C18_bound_R :
  forall E n (l : list (pt R * R)),
    Forall (fun q => 0 <= snd q /\ 0 <= pr (fst q)
                     /\ pr (fst q) * pr (fst q) = px (fst q) * px (fst q) + py (fst q) * py (fst q))%R l ->
    SN R 0%R 1%R Rplus Rmult E l <> 0%R ->
    (fst (eps R 0 1 Rplus Rmult Rminus Rdiv Ropp ris0 E n l) * fst (eps R 0 1 Rplus Rmult Rminus Rdiv Ropp ris0 E n l)
     + snd (eps R 0 1 Rplus Rmult Rminus Rdiv Ropp ris0 E n l) * snd (eps R 0 1 Rplus Rmult Rminus Rdiv Ropp ris0 E n l) <= 1)%R.
Proof. exact eps_bound. Qed.
Print Assumptions C18_bound_R.

(* over the reals: with phi the polar angle of each point (what arctan2(y, x) returns), the sums of the model are the
   sums the code accumulates: r^E cos(n phi) w and r^E sin(n phi) w  (De Moivre) *)
Theorem C18_code_form_R :
  forall E n (l : list (pt R * R)) (phi : pt R -> R),
    (forall q, In q l -> (0 < pr (fst q))%R /\ px (fst q) = (pr (fst q) * cos (phi (fst q)))%R
                         /\ py (fst q) = (pr (fst q) * sin (phi (fst q)))%R) ->
    SRe R 0%R 1%R Rplus Rmult Rminus Rdiv ris0 E n l
    = ksum 0%R Rplus (map (fun q => (kpow 1 Rmult (pr (fst q)) E * cos (INR n * phi (fst q)) * snd q)%R) l)
    /\ SIm R 0%R 1%R Rplus Rmult Rminus Rdiv ris0 E n l
    = ksum 0%R Rplus (map (fun q => (kpow 1 Rmult (pr (fst q)) E * sin (INR n * phi (fst q)) * snd q)%R) l).
Proof. exact eps_polar. Qed.
Print Assumptions C18_code_form_R.

Theorem C18_de_moivre_R :
  forall phi n, cis_pow R 0%R 1%R Rplus Rmult Rminus (cos phi) (sin phi) n = (cos (INR n * phi), sin (INR n * phi))%R.
Proof. exact de_moivre. Qed.
Print Assumptions C18_de_moivre_R.

(* non-vacuity: two particles at (3,4) and (-4,3) (radius 5) with charges 1 and 3, n = 2 (so m = 2):
   eps_2 = -(25 (-7/25 + 24/25 i) + 75 (7/25 - 24/25 i)) / 100 = -7/50 + 12/25 i;  n = 1 uses m = 3; the table *)
Theorem C18_example :
  let ev := [ {| ox := 3%Q; oy := 4%Q; orad := 5%Q; oattr := fun a => if String.eqb a "charge" then Some 1%Q else None |};
              {| ox := (-4)%Q; oy := 3%Q; orad := 5%Q; oattr := fun a => if String.eqb a "charge" then Some 3%Q else None |} ] in
  (q_ecc_from_particles 2 None "charge"%string ev, q_ecc_from_particles 0 None "charge"%string ev,
   q_ecc_from_particles 2 None "energy"%string ev,
   gen_rpow_particles 1 None, gen_rpow_particles 5 None, gen_rpow_particles 1 (Some 4%Z), gen_rpow_lattice 1 None,
   Ecc.lookup "entropy"%string gen_weight_table)
  = (Ok (Some ((-7 # 50)%Q, (12 # 25)%Q)), Err ValueError, Ok None, Ok 3%Z, Ok 5%Z, Ok 4%Z, Ok 3%Z, None).
Proof. exact (eq_refl _). Qed.
Print Assumptions C18_example.

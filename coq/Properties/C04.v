(* C04 - storer bookkeeping stays consistent over any history of filters / additions.
   Statements only, closed by [exact]; proofs in Proofs/C04_*.v; the model Model/Storer.v is a hand
   model of BaseStorer.py / Oscar.py / Jetscape.py / ParticleObjectStorer.py and of the loaders'
   hand-over, run against the real classes by harness/props/c04.py on every check.

   Reading guide.  events s = particle_list_, counts s = num_output_per_event_ WITH its numpy shape,
   nevents s = num_events_.  held s = the events an object holds ([] when num_events_ = 0: the
   placeholder [[]] is not an event).  A filter is ANY function: a particle-level filter is
   [map f] for an arbitrary per-event function f with f [] = [] (every filter of Filter.py returns
   a sub-list of the event), an event-level cut is [filter keep] for an arbitrary predicate, with
   Filter.py's convention [] -> [[]]. *)
From Coq Require Import List ZArith Bool QArith.
From SX Require Import Lib.Py Model.Storer Model.StorerSpec Model.StorerCheck Model.StorerWrappers
  Proofs.C04_Wrappers Proofs.C04_Core Proofs.C04_Add Proofs.C04_Run Proofs.C04_Load Proofs.C04_Examples.
Import ListNotations.
Local Open Scope Z_scope.

(* the invariant, spelled out: either at least one event, a 2-D count array with one row per event,
   counts = sizes, labels consecutive from the first, num_events_ = number of events; or no events:
   num_events_ = 0, an empty count array, the placeholder *)
Theorem C04_Inv_unfold : forall s, Inv s <->
  ((exists rows l0, counts s = A2 rows /\ events s <> [] /\ nevents s = zlen (events s) /\
      map snd rows = map zlen (events s) /\ map fst rows = labels_from l0 (length (events s)))
   \/ (nevents s = 0 /\ (counts s = A1 [] \/ counts s = A2 []) /\ (events s = [] \/ events s = [[]]))).
Proof. exact (fun s => iff_refl _). Qed.
Print Assumptions C04_Inv_unfold.

(* every finite history of admissible operations preserves the invariant *)
Theorem C04_inv : forall s0 ops s,
  Inv s0 -> Forall (adm_op s0) ops -> run s0 ops = Ok s -> Inv s.
Proof. exact history_inv. Qed.
Print Assumptions C04_inv.

(* ... and never ends in an exception, including histories that empty some or all events and
   additions of objects that hold no events *)
Theorem C04_total : forall s0 ops,
  Inv s0 -> Forall (adm_op s0) ops -> exists s, run s0 ops = Ok s.
Proof. exact history_total. Qed.
Print Assumptions C04_total.

(* the contents equal the same operations applied to the plain nested list *)
Theorem C04_refine : forall s0 ops,
  Inv s0 -> Forall (adm_op s0) ops -> rmap held (run s0 ops) = Ok (run_spec (held s0) ops).
Proof. exact history_refine. Qed.
Print Assumptions C04_refine.

(* what the accessors report under the invariant: num_events() = number of events held, the count
   array reshapes to rows whose counts are the sizes of the held events and whose labels are
   consecutive, it is 2-D whenever an event is held *)
Theorem C04_counts : forall s, Inv s ->
  nevents s = zlen (held s) /\
  (exists rows, reshape2 (counts s) = Ok rows /\ rows = rows_of s /\
     map snd rows = map zlen (held s) /\
     exists l0, map fst rows = labels_from l0 (length (held s))) /\
  (0 < nevents s -> exists rows, counts s = A2 rows).
Proof. exact counts_Inv. Qed.
Print Assumptions C04_counts.

(* particle_objects_list() is the list of held events, or the placeholder when none is held *)
Theorem C04_objects : forall s, Inv s ->
  (0 < nevents s /\ events s = held s) \/
  (nevents s = 0 /\ held s = [] /\ (events s = [] \/ events s = [[]])).
Proof. exact objects_Inv. Qed.
Print Assumptions C04_objects.

(* particle_list() never raises and mirrors the held events element by element (flat for exactly
   one event, as the code does) *)
Theorem C04_plist : forall s, Inv s ->
  particle_list s = Ok (match held s with [e] => Flat e | l => Nested l end).
Proof. exact plist_Inv. Qed.
Print Assumptions C04_plist.

(* the event labels keep counting from the object's first label through any history *)
Theorem C04_first_label : forall s0 ops s l0,
  Inv s0 -> Forall (adm_op s0) ops -> run s0 ops = Ok s ->
  counts s0 = A2 (recount l0 (events s0)) -> events s0 <> [] -> nevents s0 = zlen (events s0) ->
  counts s = A2 (recount l0 (events s)) /\ events s <> [].
Proof. exact history_first_label. Qed.
Print Assumptions C04_first_label.

(* a + b: a's events followed by b's, counts of both, b's labels continuing after a's last label *)
Theorem C04_add : forall a b, Inv a -> Inv b -> compatible a b ->
  exists c, add a b = Ok c /\ Inv c /\
    events c = held a ++ held b /\ held c = held a ++ held b /\
    nevents c = nevents a + nevents b /\
    counts c = A2 (rows_of a ++ (if 0 <? nevents a then relabel_rows (last_label a + 1) (rows_of b)
                                 else rows_of b)).
Proof. exact add_rows. Qed.
Print Assumptions C04_add.

Theorem C04_add_labelled : forall a b, Inv a -> Inv b -> compatible a b ->
  exists c, add a b = Ok c /\
    labelled c = labelled a ++ (if 0 <? nevents a then relabel (last_label a + 1) (labelled b)
                                else labelled b).
Proof. exact add_labelled. Qed.
Print Assumptions C04_add_labelled.

(* associative in events, counts (with labels) and number of events *)
Theorem C04_add_assoc : forall a b c,
  Inv a -> Inv b -> Inv c -> compatible a b -> compatible a c ->
  exists ab bc x y, add a b = Ok ab /\ add ab c = Ok x /\ add b c = Ok bc /\ add a bc = Ok y /\
                    core x = core y.
Proof. exact add_assoc. Qed.
Print Assumptions C04_add_assoc.

(* incompatible operands are rejected the way the code does *)
Theorem C04_add_other_class : forall a b, scls a <> scls b -> add a b = Err TypeError.
Proof. exact add_other_class. Qed.
Print Assumptions C04_add_other_class.

(* source tie of the filter step: the translator accepted every filter method of BaseStorer and of the
   subclasses as `particle_list_ = f(particle_list_, args); recount; return self` (or a plain refusal), and the
   regenerated tables cover exactly the public functions of Filter.py, each wrapped under its own name *)
Theorem C04_wrappers : wrappers_ok = true.
Proof. exact wrappers_cover. Qed.
Print Assumptions C04_wrappers.

(* what the three loaders hand to the storer (full, single-event, range loads, with or without
   constructor filters) satisfies the invariant *)
Theorem C04_loaded_inv_oscar : forall evs s filt fmt st, load_oscar evs s filt fmt = Ok st -> Inv st.
Proof. exact load_oscar_Inv. Qed.
Print Assumptions C04_loaded_inv_oscar.

Theorem C04_loaded_inv_jetscape : forall evs s filt pt sg st, load_jetscape evs s filt pt sg = Ok st -> Inv st.
Proof. exact load_jetscape_Inv. Qed.
Print Assumptions C04_loaded_inv_jetscape.

Theorem C04_loaded_inv_pobj : forall evs s filt st, load_pobj evs s filt = Ok st -> Inv st.
Proof. exact load_pobj_Inv. Qed.
Print Assumptions C04_loaded_inv_pobj.

(* the property in one statement: construction by any of the loaders followed by any finite admissible
   history never raises, keeps the invariant, reports the number of events held, mirrors them in
   particle_list() and holds what the same operations give on the plain list *)
Theorem C04_loaded_history_file : forall c base evs s filt xe fmt pt sg s0 ops,
  load_file c base evs s filt xe fmt pt sg = Ok s0 -> Forall (adm_op s0) ops ->
  exists st, run s0 ops = Ok st /\ Inv st /\ held st = run_spec (held s0) ops /\
             nevents st = zlen (held st) /\ particle_list st = Ok (plist_spec st).
Proof. exact loaded_file_history. Qed.
Print Assumptions C04_loaded_history_file.

Theorem C04_loaded_history_pobj : forall evs s filt s0 ops,
  load_pobj evs s filt = Ok s0 -> Forall (adm_op s0) ops ->
  exists st, run s0 ops = Ok st /\ Inv st /\ held st = run_spec (held s0) ops /\
             nevents st = zlen (held st) /\ particle_list st = Ok (plist_spec st).
Proof. exact loaded_pobj_history. Qed.
Print Assumptions C04_loaded_history_pobj.

(* the shapes the unrepaired loaders handed over are unusable: the loader tuple of
   ParticleObjectLoader taken as is, and a 1-D count array *)
Theorem C04_raw_pobj_tuple_unusable : forall l n cnt o,
  let s := mkS CPobj l (PyL cnt) n [] 0 0 0%Q in
  n <> 0 -> cnt <> [] ->
  (exists e, particle_list s = Err e) /\ apply_filter s o = Err AttributeError.
Proof. exact raw_pobj_tuple_unusable. Qed.
Print Assumptions C04_raw_pobj_tuple_unusable.

Theorem C04_one_dim_counts_unusable : forall c l lab cnt xe f p sg,
  particle_list (mkS c l (A1 [lab; cnt]) 1 xe f p sg) = Err IndexError.
Proof. exact one_dim_counts_unusable. Qed.
Print Assumptions C04_one_dim_counts_unusable.

(* non-vacuity: a range load with a constructor filter, a history that empties an event, then all
   events, then adds a partially loaded object; and an object emptied on construction *)
(* ex_charged keeps the particles 1, 3, 6; ex_big keeps the events with at least two particles *)
Theorem C04_example_load :
  load_oscar [[1; 2]; [3]; [4; 5; 6]; [7]] (SRange 1 3) (Some [ex_charged]) 0
  = Ok (mkS COscar [[3]; [6]] (A2 [(1, 1); (2, 1)]) 2 [0; 1; 2; 3] 0 0 0%Q).
Proof. exact example_load. Qed.
Print Assumptions C04_example_load.

Theorem C04_example_history :
  exists a b,
  load_oscar [[1; 2]; [3]; [4; 5; 6]; [7]] SAll None 0 = Ok a /\
  load_oscar [[11; 12]; [13]] (SOne 1) None 0 = Ok b /\
  Forall (adm_op a) [F ex_charged; F ex_big; ADD b; ADD a] /\
  rmap core (run a [F ex_charged; F ex_big; ADD b; ADD a])
  = Ok ([[]; [13]; [1; 2]; [3]; [4; 5; 6]; [7]],
        A2 [(0, 0); (1, 1); (2, 2); (3, 1); (4, 3); (5, 1)], 6).
Proof. exact example_history. Qed.
Print Assumptions C04_example_history.

Theorem C04_example_no_events :
  exists e b,
  load_jetscape [[1; 2]; [3]] SAll (Some [EV (fun _ => false)]) 0 (1 # 2) = Ok e /\
  load_jetscape [[11; 12]; [13]] (SRange 0 1) None 0 (1 # 4) = Ok b /\
  core e = ([[]], A1 [], 0) /\ Inv e /\
  particle_list e = Ok (Nested []) /\
  rmap core (run e [F ex_charged; F ex_big; ADD b]) = Ok ([[11; 12]; [13]], A2 [(1, 2); (2, 1)], 2).
Proof. exact example_no_events. Qed.
Print Assumptions C04_example_no_events.

(* ------------------------------------------------------------------------------------------------
   Tie to the source.  Gen/GenStorer.v is regenerated on every run by tools/py2coq/gen_storer.py from the
   CURRENT text of BaseStorer.py / Oscar.py / Jetscape.py / ParticleObjectStorer.py: each method body is
   translated statement by statement into a function over Python values [pv] (Model/StorerRt.v: the
   Python/numpy fragment these methods are written in; [VObj s] is a storer object with state s).  The
   theorems below state that the hand model of Model/Storer.v - which all theorems above are about -
   computes exactly what the translated source computes, for every state (inside or outside the
   invariant) and every outcome including the exception class. *)
From Coq Require Import String.
From SX Require Import Model.StorerRt Gen.GenStorer Proofs.C04_Source.

(* BaseStorer._update_num_output_per_event_after_filter *)
Theorem C04_source_recount : forall s,
  gen_update_after_filter (VObj s) = rmap VObj (update_after_filter s).
Proof. exact source_update_after_filter. Qed.
Print Assumptions C04_source_recount.

(* every filter wrapper of BaseStorer and of the subclasses (the translator checks that they all translate to
   the one term gen_filter_method); g = the Filter.py function with the method's arguments *)
Theorem C04_source_filter_method : forall s o,
  gen_filter_method (gfun o) (VObj s) = rmap VObj (apply_filter s o).
Proof. exact source_filter_method. Qed.
Print Assumptions C04_source_filter_method.

(* BaseStorer.particle_list; plres_pv shows the model's result as Python does (a flat and a nested empty
   list are both []) *)
Theorem C04_source_particle_list : forall s,
  gen_particle_list (VObj s) = rmap plres_pv (particle_list s).
Proof. exact source_particle_list. Qed.
Print Assumptions C04_source_particle_list.

(* num_events(), num_output_per_event(), particle_objects_list() return the attributes unchanged *)
Theorem C04_source_accessors : forall s,
  gen_num_events (VObj s) = Ok (VInt (nevents s)) /\
  gen_num_output_per_event (VObj s) = Ok (VArr (counts s)) /\
  gen_particle_objects_list (VObj s) = Ok (VEvs (events s)).
Proof. exact source_accessors. Qed.
Print Assumptions C04_source_accessors.

(* _update_after_merge of the three classes, dispatched on the class of the left operand (called by __add__
   after the class check, hence the hypothesis) *)
Theorem C04_source_update_after_merge : forall a b, scls a = scls b ->
  gen_update_after_merge (VObj a) (VObj b)
  = rmap (fun x => VObj (set_xsigma (set_xend a (fst x)) (snd x))) (update_after_merge a b).
Proof. exact source_update_after_merge. Qed.
Print Assumptions C04_source_update_after_merge.

(* BaseStorer.__add__, for any two storer objects *)
Theorem C04_source_add : forall a b, gen_add (VObj a) (VObj b) = rmap VObj (add a b).
Proof. exact source_add. Qed.
Print Assumptions C04_source_add.

(* __add__ assigns these attributes (sorted by name) on the sum, each from an object built by __add__ itself (a + b, a call) and
   not from an object an operand holds *)
Theorem C04_source_add_assigned :
  gen_add_assigned = [("loader_", true); ("num_events_", true); ("num_output_per_event_", true); ("particle_list_", true)]%string.
Proof. exact source_add_assigned. Qed.
Print Assumptions C04_source_add_assigned.

(* ParticleObjectStorer.__init__: the recount after BaseStorer.__init__, and with it the model's load_pobj *)
Theorem C04_source_pobj_init : forall first s,
  gen_pobj_init_recount (VInt first) (VObj s)
  = Ok (VObj (set_counts (set_nevents s (zlen (events s))) (A2 (recount first (events s))))).
Proof. exact source_pobj_init. Qed.
Print Assumptions C04_source_pobj_init.

Theorem C04_source_load_pobj : forall evs sel filt st,
  load_pobj evs sel filt = Ok st ->
  exists first l n c, pobj_loader evs sel filt = Ok (first, l, n, c) /\
    gen_pobj_init_recount (VInt first) (VObj (mkS CPobj l c n [] 0 0 0%Q)) = Ok (VObj st).
Proof. exact source_load_pobj. Qed.
Print Assumptions C04_source_load_pobj.

(* BaseStorer.__init__ stores the loader's tuple in this order, and every loader returns it in this order *)
Theorem C04_source_handover :
  gen_handover_targets = ["particle_list_"; "num_events_"; "num_output_per_event_"; "custom_attr_list"]%string /\
  map (fun r => (fst r, firstn 3 (snd r))) gen_loader_returns
  = [("Oscar", ["self.set_particle_list(kwargs)"; "self.num_events_"; "self.num_output_per_event_"]);
     ("Jetscape", ["self.set_particle_list(kwargs)"; "self.num_events_"; "self.num_output_per_event_"]);
     ("PObj", ["self.set_particle_list(kwargs)"; "self.num_events_"; "self.num_output_per_event_"])]%string.
Proof. exact source_handover. Qed.
Print Assumptions C04_source_handover.

(* histories run on the translated methods are the model's histories ... *)
Theorem C04_source_run : forall s ops, src_run (VObj s) ops = rmap VObj (run s ops).
Proof. exact source_run. Qed.
Print Assumptions C04_source_run.

(* ... so the property theorems hold of the translated source: any history of admissible operations run on
   the translated methods ends, without an exception, in an object that satisfies the invariant and holds
   what the same operations give on the plain nested list *)
Theorem C04_source_history : forall s0 ops,
  Inv s0 -> Forall (adm_op s0) ops ->
  exists s, src_run (VObj s0) ops = Ok (VObj s) /\ Inv s /\ held s = run_spec (held s0) ops.
Proof. exact source_history. Qed.
Print Assumptions C04_source_history.

(* non-vacuity: the translated methods run on concrete objects *)
Theorem C04_source_example :
  gen_add (VObj ex_j1) (VObj ex_j2)
  = Ok (VObj (mkS CJetscape [[1; 2]; [3; 4]; [5]] (A2 [(1, 2); (2, 2); (3, 1)]) 3 [] 0 0 (3 # 8)%Q)) /\
  gen_particle_list (VObj ex_j1) = Ok (VRows [1; 2]) /\
  gen_particle_list (VObj ex_j2) = Ok (VRowss [[3; 4]; [5]]) /\
  gen_filter_method (map (filter Z.even)) (VObj ex_j2)
  = Ok (VObj (mkS CJetscape [[4]; []] (A2 [(7, 1); (8, 0)]) 2 [] 0 0 (1 # 4)%Q)) /\
  gen_filter_method (fun l => norm (filter (fun _ => false) l)) (VObj ex_j2)
  = Ok (VObj (mkS CJetscape [[]] (A2 [(7, 0)]) 1 [] 0 0 (1 # 4)%Q)).
Proof. exact source_example. Qed.
Print Assumptions C04_source_example.

(* C01 source tie - the hand models of the construction of a Particle from one line of a file (Model/Oscar.v
   blank / mk_particle, Model/Jetscape.v mk_jet_particle, on which the C01/C02/C06/C07 theorems are stated) equal
   Particle.__init__, Particle.__initialize_from_array and everything they reach in src/sparkx/Particle.py, as
   regenerated into Gen/GenParticleInit.v on every run (tools/py2coq/gen_particle_init.py, runtime
   Model/ParticleInitRt.v).  Only statements closed by [exact]; proofs and the closed forms mk_any / hand_mass /
   hand_charge / charge_stored / p2_of / sqrt_at / sqrt_ext / int_oracle in Proofs/ParticleInit_Source.v.
   o : the oracles float(token), int(token), PDGID(x).is_valid, PDGID(x).charge, np.sqrt (universally quantified).
     int_oracle o        int(token) yields integers (denominator 1)
     sqrt_ext f          f depends on the rational value only
     sqrt_at f x         f x is the non-negative root of x (exact arithmetic: no float rounding, DESIGN 4.1)
     mk_any o fmt attrs toks = mk_jet_particle toks for "JETSCAPE", mk_particle fmt attrs toks otherwise *)
From Coq Require Import List String ZArith QArith Qabs Bool.
From SX Require Import Lib.Strs Gen.GenParticleMap Model.Oscar Model.Jetscape Model.ParticleInitRt Gen.GenParticleInit
  Proofs.ParticleInit_Source.
Import ListNotations.
Local Open Scope string_scope.

(* the dict / list literals of the source are the tables of Gen/GenParticleMap.v over which the hand model is written,
   and the massless list of the hand model *)
Theorem C01_source_tables :
  gen_lit_initialize_from_array_dict1 = gen_mapping
  /\ gen_lit_initialize_from_array_strlist1 = gen_relaxed_formats
  /\ gen_lit_initialize_from_array_strlist2 = gen_float_fields
  /\ gen_lit_initialize_from_array_strlist3 = gen_int_fields
  /\ gen_lit_mass_from_energy_momentum_intlist1 = massless_pdg.
Proof. exact source_tables. Qed.
Print Assumptions C01_source_tables.

(* the two constants of the column-count check that the hand model reads from the regenerated tables and that no
   other theorem fixes: which formats may be short, and by how many columns *)
Theorem C01_source_constants :
  gen_relaxed_formats = ["Oscar2013Extended"; "Oscar2013Extended_IC"] /\ gen_relax_slack = 2%nat.
Proof. exact source_constants. Qed.
Print Assumptions C01_source_constants.

(* Particle(): 25 nan slots, pdg_valid False *)
Theorem C01_source_init_blank : forall o,
  gen_init o gen_default_init_input_format gen_default_init_particle_array gen_default_init_attribute_list = Ok blank.
Proof. exact source_init_blank. Qed.
Print Assumptions C01_source_init_blank.

(* Particle(format, tokens[, attribute_list]) as the loaders call it (attribute list for ASCII only): the hand model,
   value or exception class, for every format string, token list and attribute list *)
Theorem C01_source_init : forall o fmt toks attrs,
  int_oracle o ->
  (fmt = "JETSCAPE" -> sqrt_ext (o_sqrt o) /\
     forall p px py pz, mk_particle (o_float o) (o_int o) (o_valid o) "JETSCAPE" [] toks = Ok p ->
       get_slot 6 p = Some px -> get_slot 7 p = Some py -> get_slot 8 p = Some pz -> sqrt_at (o_sqrt o) (p2_of px py pz)) ->
  fmt = "ASCII" \/ attrs = [] ->
  gen_init o (Some fmt) (Some toks) (Some attrs) = mk_any o fmt attrs toks.
Proof. exact source_init. Qed.
Print Assumptions C01_source_init.

(* the argument checks of __init__ (all ValueError) *)
Theorem C01_source_init_errors : forall o,
  (forall fmt attrs, gen_init o (Some fmt) None attrs = Err ValueError)
  /\ (forall toks attrs, gen_init o None (Some toks) attrs = Err ValueError)
  /\ (forall toks, gen_init o (Some "ASCII") toks None = Err ValueError)
  /\ (forall fmt toks a attrs, fmt <> "ASCII" -> gen_init o (Some fmt) toks (Some (a :: attrs)) = Err ValueError)
  /\ (forall fmt toks, fmt <> "ASCII" -> gen_init o (Some fmt) toks None = Err ValueError)
  /\ (forall attrs, attrs <> Some [] -> gen_init o None None attrs = Err ValueError).
Proof. exact source_init_errors. Qed.
Print Assumptions C01_source_init_errors.

(* __initialize_from_array on the blank particle *)
Theorem C01_source_initialize_from_array : forall o fmt toks attrs,
  int_oracle o ->
  (fmt = "JETSCAPE" -> sqrt_ext (o_sqrt o) /\
     forall p px py pz, mk_particle (o_float o) (o_int o) (o_valid o) "JETSCAPE" [] toks = Ok p ->
       get_slot 6 p = Some px -> get_slot 7 p = Some py -> get_slot 8 p = Some pz -> sqrt_at (o_sqrt o) (p2_of px py pz)) ->
  gen_initialize_from_array o blank fmt toks (Some attrs) = mk_any o fmt attrs toks.
Proof. exact source_initialize_from_array. Qed.
Print Assumptions C01_source_initialize_from_array.

(* mass_from_energy_momentum: the derived mass of the hand model (massless list, sqrt(E^2-p^2), nan for |E| < |p|) *)
Theorem C01_source_mass_from_energy_momentum : forall o p E px py pz pdg, List.length p = 25%nat ->
  get_slot 5 p = Some E -> get_slot 6 p = Some px -> get_slot 7 p = Some py -> get_slot 8 p = Some pz ->
  get_slot 9 p = Some pdg -> Qden pdg = 1%positive ->
  sqrt_ext (o_sqrt o) -> sqrt_at (o_sqrt o) (p2_of px py pz) ->
  gen_mass_from_energy_momentum o p = Ok (hand_mass o E px py pz pdg).
Proof. exact source_mass_from_energy_momentum. Qed.
Print Assumptions C01_source_mass_from_energy_momentum.

Theorem C01_source_mass_nan : forall o p, List.length p = 25%nat ->
  get_slot 5 p = None \/ get_slot 6 p = None \/ get_slot 7 p = None \/ get_slot 8 p = None ->
  gen_mass_from_energy_momentum o p = Ok None.
Proof. exact source_mass_nan. Qed.
Print Assumptions C01_source_mass_nan.

Theorem C01_source_p_abs : forall o p, List.length p = 25%nat ->
  gen_p_abs o p = Ok (match get_slot 6 p, get_slot 7 p, get_slot 8 p with
                      | Some px, Some py, Some pz => np_sqrt o (Some (p2_of px py pz))
                      | _, _, _ => None
                      end).
Proof. exact source_p_abs. Qed.
Print Assumptions C01_source_p_abs.

(* charge_from_pdg: nan unless pdg_valid, else the PDG charge *)
Theorem C01_source_charge_from_pdg : forall o p, List.length p = 25%nat ->
  gen_charge_from_pdg o p
  = if py_bool (get_slot 10 p)
    then match get_slot 9 p with Some pdg => Ok (Some (o_charge o (q_trunc pdg))) | None => Err ValueError end
    else Ok None.
Proof. exact source_charge_from_pdg. Qed.
Print Assumptions C01_source_charge_from_pdg.

(* the property setters the constructor goes through *)
Theorem C01_source_set_charge : forall o p v, List.length p = 25%nat ->
  gen_set_charge o p v = Ok (set_slot 12 (charge_stored v) p).
Proof. exact source_set_charge. Qed.
Print Assumptions C01_source_set_charge.

Theorem C01_source_set_mass : forall o p v, List.length p = 25%nat -> gen_set_mass o p v = Ok (set_slot 4 v p).
Proof. exact source_set_mass. Qed.
Print Assumptions C01_source_set_mass.

Theorem C01_source_set_pdg_valid : forall o p b, List.length p = 25%nat ->
  gen_set_pdg_valid o p b = Ok (set_slot 10 (Some (if b then 1 else 0)%Q) p).
Proof. exact source_set_pdg_valid. Qed.
Print Assumptions C01_source_set_pdg_valid.

(* the property getters the constructor goes through *)
Theorem C01_source_getters : forall o p, List.length p = 25%nat ->
  gen_get_E o p = Ok (get_slot 5 p) /\ gen_get_px o p = Ok (get_slot 6 p) /\ gen_get_py o p = Ok (get_slot 7 p)
  /\ gen_get_pz o p = Ok (get_slot 8 p)
  /\ gen_get_pdg o p = Ok (option_map q_trunc (get_slot 9 p))
  /\ gen_get_charge o p = Ok (option_map q_trunc (get_slot 12 p))
  /\ gen_get_pdg_valid o p = Ok (py_bool (get_slot 10 p)).
Proof. exact source_getters. Qed.
Print Assumptions C01_source_getters.

(* non-vacuity: a JETSCAPE row (momentum 3,4,0, E = 13) with table oracles meets the hypotheses of C01_source_init and
   is constructed as mass 12, charge 1, pdg_valid 1 *)
Theorem C01_source_example :
  int_oracle ex_oracles
  /\ sqrt_ext (o_sqrt ex_oracles)
  /\ (forall p px py pz, mk_particle (o_float ex_oracles) (o_int ex_oracles) (o_valid ex_oracles) "JETSCAPE" [] ex_toks = Ok p ->
        get_slot 6 p = Some px -> get_slot 7 p = Some py -> get_slot 8 p = Some pz ->
        sqrt_at (o_sqrt ex_oracles) (p2_of px py pz))
  /\ exists p, gen_init ex_oracles (Some "JETSCAPE") (Some ex_toks) (Some []) = Ok p
               /\ list_eqb oq_eqb p
                    [None; None; None; None; Some 12; Some 13; Some 3; Some 4; Some 0; Some 211; Some 1; Some 1; Some 1;
                     None; None; None; None; None; None; None; None; Some 27; None; None; None] = true.
Proof. exact source_example. Qed.
Print Assumptions C01_source_example.

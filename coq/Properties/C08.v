(* C08 - Particle kinematics satisfy their definitions; missing data gives NaN.
   Only statements closed by [exact]; the proofs live in Proofs/C08_*.v and are about
   Gen/GenKinematics.v, which is regenerated from src/sparkx/Particle.py on every run.
   A particle is p : prec = attr -> ext, the value every getter returns (NaN = unset);
   results are ext = Fin r | PInf | NInf | NaN | Raise cls (Lib/ExtReal.v).  Arithmetic is over the
   reals: float rounding is not modelled.  Domain bounds 1e-9 / 1e-6 are the property's. *)
From Coq Require Import Reals List Bool ZArith.
From SX Require Import Lib.RealAux Lib.ExtReal Gen.GenKinematics
  Proofs.C08_Defs Proofs.C08_Sym Proofs.C08_Nan.
Import ListNotations.
Local Open Scope R_scope.

(* pT^2 = px^2 + py^2 *)
Theorem C08_pT : forall p px py, p A_px = Fin px -> p A_py = Fin py ->
  exists v, pT_abs p = Fin v /\ 0 <= v /\ v * v = px * px + py * py.
Proof. exact pT_def. Qed.
Print Assumptions C08_pT.

(* p^2 = pT^2 + pz^2 (= px^2 + py^2 + pz^2), v = p_abs(), w = pT_abs() *)
Theorem C08_p : forall p px py pz, p A_px = Fin px -> p A_py = Fin py -> p A_pz = Fin pz ->
  exists v w, p_abs p = Fin v /\ pT_abs p = Fin w /\ 0 <= v /\ v * v = w * w + pz * pz
              /\ v * v = px * px + py * py + pz * pz.
Proof. exact p_def. Qed.
Print Assumptions C08_p.

(* phi = atan2(py, px) in (-pi, pi] for pT > 1e-6; atan2 (Lib/RealAux.v, built from atan) is the polar
   angle: its cosine and sine are px/pT and py/pT *)
Theorem C08_phi : forall p px py, p A_px = Fin px -> p A_py = Fin py ->
  (1 / 1000000) * (1 / 1000000) < px * px + py * py ->
  phi p = Fin (atan2 py px) /\ - PI < atan2 py px <= PI /\
  cos (atan2 py px) = px / sqrt (px * px + py * py) /\
  sin (atan2 py px) = py / sqrt (px * px + py * py).
Proof. exact phi_def. Qed.
Print Assumptions C08_phi.

(* cos(theta) = pz / p, theta in [0, pi], for p <> 0 *)
Theorem C08_theta : forall p px py pz, p A_px = Fin px -> p A_py = Fin py -> p A_pz = Fin pz ->
  0 < px * px + py * py + pz * pz ->
  exists th v, theta p = Fin th /\ p_abs p = Fin v /\ 0 < v /\ 0 <= th <= PI /\ cos th = pz / v.
Proof. exact theta_def. Qed.
Print Assumptions C08_theta.

(* y = artanh(pz / E) away from the regulated band ||E| - |pz|| <= 1e-9 *)
Theorem C08_rapidity : forall p E pz, p A_E = Fin E -> p A_pz = Fin pz ->
  1 / 1000000000 < Rabs E - Rabs pz ->
  rapidity p = Fin (atanh (pz / E)).
Proof. exact rapidity_def. Qed.
Print Assumptions C08_rapidity.

(* eta = artanh(pz / p) for p - |pz| > 1e-9 *)
Theorem C08_pseudorapidity : forall p px py pz, p A_px = Fin px -> p A_py = Fin py -> p A_pz = Fin pz ->
  1 / 1000000000 < sqrt (S3 px py pz) - Rabs pz ->
  pseudorapidity p = Fin (atanh (pz / sqrt (S3 px py pz))).
Proof. exact pseudorapidity_def. Qed.
Print Assumptions C08_pseudorapidity.

(* ... = - ln tan(theta / 2) with the theta that theta() returns *)
Theorem C08_pseudorapidity_theta : forall p px py pz,
  p A_px = Fin px -> p A_py = Fin py -> p A_pz = Fin pz ->
  1 / 1000000000 < sqrt (S3 px py pz) - Rabs pz ->
  exists eta th, pseudorapidity p = Fin eta /\ theta p = Fin th /\ 0 < th < PI /\
                 eta = - ln (tan (th / 2)).
Proof. exact pseudorapidity_theta. Qed.
Print Assumptions C08_pseudorapidity_theta.

(* mT^2 = E^2 - pz^2 *)
Theorem C08_mT : forall p E pz, p A_E = Fin E -> p A_pz = Fin pz -> Rabs pz <= Rabs E ->
  exists v, mT p = Fin v /\ 0 <= v /\ v * v = E * E - pz * pz.
Proof. exact mT_def. Qed.
Print Assumptions C08_mT.

(* m^2 = E^2 - p^2 unless the pdg code is in the code's massless list (then m = 0, next theorem) *)
Theorem C08_mass : forall p E px py pz,
  p A_E = Fin E -> p A_px = Fin px -> p A_py = Fin py -> p A_pz = Fin pz ->
  ein (p A_pdg) mass_from_energy_momentum_massless_pdg = false ->
  px * px + py * py + pz * pz <= E * E ->
  exists v, mass_from_energy_momentum p = Fin v /\ 0 <= v /\
            v * v = E * E - (px * px + py * py + pz * pz).
Proof. exact mass_def. Qed.
Print Assumptions C08_mass.

Theorem C08_mass_massless_species : forall p,
  is_nan (p A_E) || is_nan (p A_px) || is_nan (p A_py) || is_nan (p A_pz) = false ->
  ein (p A_pdg) mass_from_energy_momentum_massless_pdg = true ->
  mass_from_energy_momentum p = Fin 0.
Proof. exact mass_massless. Qed.
Print Assumptions C08_mass_massless_species.

(* tau^2 = t^2 - z^2 *)
Theorem C08_proper_time : forall p t z, p A_t = Fin t -> p A_z = Fin z -> Rabs z < t ->
  exists v, proper_time p = Fin v /\ 0 <= v /\ v * v = t * t - z * z.
Proof. exact proper_time_def. Qed.
Print Assumptions C08_proper_time.

(* eta_s = artanh(z / t) *)
Theorem C08_spacetime_rapidity : forall p t z, p A_t = Fin t -> p A_z = Fin z -> Rabs z < t ->
  spacetime_rapidity p = Fin (atanh (z / t)).
Proof. exact spacetime_rapidity_def. Qed.
Print Assumptions C08_spacetime_rapidity.

(* L = r x p, component by component *)
Theorem C08_angular_momentum : forall p x y z px py pz,
  p A_x = Fin x -> p A_y = Fin y -> p A_z = Fin z ->
  p A_px = Fin px -> p A_py = Fin py -> p A_pz = Fin pz ->
  angular_momentum_0 p = Fin (y * pz - z * py) /\
  angular_momentum_1 p = Fin (z * px - x * pz) /\
  angular_momentum_2 p = Fin (x * py - y * px).
Proof. exact angular_momentum_def. Qed.
Print Assumptions C08_angular_momentum.

(* y and eta change sign under pz -> -pz *)
Theorem C08_rapidity_odd : forall p E pz, p A_E = Fin E -> p A_pz = Fin pz ->
  1 / 1000000000 < Rabs E - Rabs pz ->
  rapidity (flipz p) = eneg (rapidity p).
Proof. exact rapidity_odd. Qed.
Print Assumptions C08_rapidity_odd.

Theorem C08_pseudorapidity_odd : forall p px py pz,
  p A_px = Fin px -> p A_py = Fin py -> p A_pz = Fin pz ->
  1 / 1000000000 < sqrt (S3 px py pz) - Rabs pz ->
  pseudorapidity (flipz p) = eneg (pseudorapidity p).
Proof. exact pseudorapidity_odd. Qed.
Print Assumptions C08_pseudorapidity_odd.

(* every scalar is unchanged by an azimuthal rotation (c, s), c^2 + s^2 = 1, of momentum and
   position - for ALL values of the other attributes (regulated, unphysical or unset included) *)
Theorem C08_rotation_invariant : forall c s p px py, c * c + s * s = 1 ->
  p A_px = Fin px -> p A_py = Fin py ->
  forall m, In m [M_rapidity; M_p_abs; M_pT_abs; M_theta; M_pseudorapidity; M_spacetime_rapidity;
                  M_proper_time; M_mass_from_energy_momentum; M_mT] ->
  run m (rot c s p) = run m p.
Proof. exact scalars_rot. Qed.
Print Assumptions C08_rotation_invariant.

(* the vector L turns with the rotation: Lz unchanged, (Lx, Ly) rotated *)
Theorem C08_rotation_angular_momentum : forall c s p px py, c * c + s * s = 1 ->
  p A_px = Fin px -> p A_py = Fin py ->
  forall x y z pz, p A_x = Fin x -> p A_y = Fin y -> p A_z = Fin z -> p A_pz = Fin pz ->
  angular_momentum_2 (rot c s p) = angular_momentum_2 p /\
  angular_momentum_0 (rot c s p) = Fin (c * (y * pz - z * py) - s * (z * px - x * pz)) /\
  angular_momentum_1 (rot c s p) = Fin (s * (y * pz - z * py) + c * (z * px - x * pz)).
Proof. exact angular_momentum_rot. Qed.
Print Assumptions C08_rotation_angular_momentum.

(* phi is the quantity that changes: it turns by the rotation angle *)
Theorem C08_rotation_phi : forall c s p px py, c * c + s * s = 1 ->
  p A_px = Fin px -> p A_py = Fin py ->
  (1 / 1000000) * (1 / 1000000) < px * px + py * py ->
  exists f f', phi p = Fin f /\ phi (rot c s p) = Fin f' /\
               cos f' = c * cos f - s * sin f /\ sin f' = s * cos f + c * sin f.
Proof. exact phi_rot. Qed.
Print Assumptions C08_rotation_phi.

(* missing data: for every method, an unset attribute among those it reads (transitively) gives
   NaN - not a finite number, not an exception.  classifiers m is [] except for
   mass_from_energy_momentum, where it is [pdg] (the optional massless-species switch). *)
Theorem C08_nan_total : forall m p a,
  In a (reads m) -> ~ In a (classifiers m) -> p a = NaN -> run m p = NaN.
Proof. exact nan_total. Qed.
Print Assumptions C08_nan_total.

Theorem C08_nan_total_scope : forall m, m <> M_mass_from_energy_momentum -> classifiers m = [].
Proof. exact classifiers_only_mass. Qed.
Print Assumptions C08_nan_total_scope.

(* unphysical inputs: |pz| > |E| beyond the regulated band, |E| < p, |z| >= t *)
Theorem C08_unphysical : forall p,
  (forall E pz, p A_E = Fin E -> p A_pz = Fin pz ->
     (1 / 1000000000 < Rabs pz - Rabs E -> rapidity p = NaN) /\
     (Rabs E < Rabs pz -> mT p = NaN) /\
     (forall px py, p A_px = Fin px -> p A_py = Fin py ->
        ein (p A_pdg) mass_from_energy_momentum_massless_pdg = false ->
        E * E < px * px + py * py + pz * pz -> mass_from_energy_momentum p = NaN)) /\
  (forall t z, p A_t = Fin t -> p A_z = Fin z -> t <= Rabs z ->
     spacetime_rapidity p = Raise ValueError /\ proper_time p = Raise ValueError).
Proof. exact unphysical. Qed.
Print Assumptions C08_unphysical.

Theorem C08_unphysical_never_finite : forall p,
  (forall E pz, p A_E = Fin E -> p A_pz = Fin pz ->
     (1 / 1000000000 < Rabs pz - Rabs E -> not_fin (rapidity p)) /\
     (Rabs E < Rabs pz -> not_fin (mT p)) /\
     (forall px py, p A_px = Fin px -> p A_py = Fin py ->
        ein (p A_pdg) mass_from_energy_momentum_massless_pdg = false ->
        E * E < px * px + py * py + pz * pz -> not_fin (mass_from_energy_momentum p))) /\
  (forall t z, p A_t = Fin t -> p A_z = Fin z -> t <= Rabs z ->
     not_fin (spacetime_rapidity p) /\ not_fin (proper_time p)).
Proof. exact unphysical_not_fin. Qed.
Print Assumptions C08_unphysical_never_finite.

(* non-vacuity: a concrete particle (E, p) = (13; 3, 4, 12), (t, r) = (5; 1, 2, 3) inside the domain *)
Theorem C08_example :
  pT_abs ex_particle = Fin 5 /\ p_abs ex_particle = Fin 13 /\ mT ex_particle = Fin 5 /\
  mass_from_energy_momentum ex_particle = Fin 0 /\ proper_time ex_particle = Fin 4 /\
  rapidity ex_particle = Fin (atanh (12 / 13)) /\ spacetime_rapidity ex_particle = Fin (atanh (3 / 5)) /\
  angular_momentum_2 ex_particle = Fin (-2) /\
  mass_from_energy_momentum (fun a => match a with A_px => NaN | _ => ex_particle a end) = NaN /\
  1 / 1000000000 < Rabs 13 - Rabs 12.
Proof. exact example. Qed.
Print Assumptions C08_example.

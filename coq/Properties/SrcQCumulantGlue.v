(* C11 / C12 source tie for the GLUE of the Q-cumulant estimator - the hand models Model/QCumulant.v (integrated_flow,
   differential_bin with sel_bin, sel_poi, Mof, Qof, total, the DErr / DEmpty / DVal cases) and Model/QCumulantErr.v
   (qc_error, qc_diff_error) equal the method bodies of QCumulantFlow.__init__, __sample_random_reaction_planes,
   integrated_flow and differential_flow as regenerated into Gen/GenQCumulantGlue.v on every run
   (tools/py2coq/gen_qcumulant_glue.py, runtime Model/QCumulantGlueRt.v; the formulas these methods call are the
   regenerated Gen/GenQCumulant.v and Gen/GenQCumulantErr.v).  Only statements closed by [exact]; proofs and the
   definitions named below in Proofs/QCumulantGlue_Source.v.

   Universally quantified (oracles): the carrier K with k0 k1 kadd kmul ksub kopp, division kdiv, comparisons kleb kltb,
   roots krpow / kcsqrt; A = float angles with their addition aadd and expi n a = np.exp(1j * float(n) * a); V = the value
   of the selected variable and the bin edges with the float literal vfloat and the comparisons vge (>=) vlt (<) vgt vle;
   P = particles with the observations p_phi, p_pT_abs, p_rapidity, p_pseudorapidity, p_pdg (None = NaN);
   rand_uniform i = the angle random.uniform returns in iteration i of the sampling comprehension of the call.
   Hypotheses (where needed): kadd and kmul commutative, expi n (a + b) = expi n a * expi n b.
   Arguments before their isinstance tests: pyscalar (SInt: int or bool, SNpInt: numpy integer, SStr, SOther) and
   pyseq (QNone, QList, QArray: 1-D ndarray, QOther).

   Definitions of Proofs/QCumulantGlue_Source.v used in the statements:
     zofn n p          = expi n (p_phi p)                         the particle's unit vector of the hand model
     mk_events n pd    = [(expi n (rand_uniform i), pd[i]) for i] the hand model's events: rotation of event i, its particles
     planes_of m       = [rand_uniform i for i in range(m)]       rand_reaction_planes_ after the call
     valid self        = k_ in gen_k_allowed and imaginary_ in gen_imag_allowed (every object __init__ returns)
     selval sel p      = pT_abs / rapidity / pseudorapidity of p for sel = "pT" / "rapidity" / "pseudorapidity", else 0.0
     inbin_of sel lo hi p = vge (selval sel p) lo && vlt (selval sel p) hi
     ispoi_of poi p    = true for None, pdg_in (p_pdg p) l for Some l
     poi_check poi     = Ok None for None; Ok (Some l) for a list / 1-D array of ints or numpy integers; else TypeError
     seq_arg / str_arg = Some for a list or 1-D array / a str, else None *)
From Coq Require Import String ZArith Bool List QArith.
From SX Require Import Lib.Py Lib.KRing Lib.Cpx Gen.GenQCumulant Gen.GenQCumulantErr Model.QCumulant Model.QCumulantErr
  Model.QCumulantGlueRt Gen.GenQCumulantGlue Proofs.QCumulantGlue_Source.
Import ListNotations.

(* QCumulantFlow(n, k, imaginary): TypeError unless n is an int, ValueError for n <= 0, TypeError unless k is an int,
   ValueError unless k is one of gen_k_allowed (the list the hand model consults), TypeError unless imaginary is a str,
   ValueError unless it is one of gen_imag_allowed - in this order; else the object with these attributes and no planes *)
Theorem QCG_source_init :
  forall (K : Type) (k0 k1 : K) (kadd kmul ksub : K -> K -> K) (kopp : K -> K) (kdiv : K -> K -> K) (kleb kltb : K -> K -> bool)
    (krpow : nat -> nat -> K -> K) (kcsqrt : cpx K -> cpx K) (A : Type) (aadd : A -> A -> A) (expi : Z -> A -> cpx K)
    (V : Type) (vfloat : Q -> V) (vge vlt vgt vle : V -> V -> bool) (P : Type) (p_phi : P -> A)
    (p_pT_abs p_rapidity p_pseudorapidity : P -> V) (p_pdg : P -> option Z) (rand_uniform : Z -> A) (n k imag : pyscalar),
  gen_init K k0 k1 kadd kmul ksub kopp kdiv kleb kltb krpow kcsqrt A aadd expi V vfloat vge vlt vgt vle P p_phi p_pT_abs
    p_rapidity p_pseudorapidity p_pdg rand_uniform n k imag =
    match n with
    | SInt n' =>
      if (n' <=? 0)%Z then Err ValueError else
      match k with
      | SInt k' =>
        if negb ((0 <? k')%Z && existsb (Nat.eqb (Z.to_nat k')) gen_k_allowed) then Err ValueError else
        match imag with
        | SStr s => if negb (existsb (String.eqb s) gen_imag_allowed) then Err ValueError else Ok (QCSelf n' k' s [])
        | _ => Err TypeError
        end
      | _ => Err TypeError
      end
    | _ => Err TypeError
    end.
Proof. exact source_init. Qed.
Print Assumptions QCG_source_init.

(* every object the constructor returns is valid (the guard of the hand model holds) and has n_, k_ > 0 *)
Theorem QCG_source_init_valid :
  forall (K : Type) (k0 k1 : K) (kadd kmul ksub : K -> K -> K) (kopp : K -> K) (kdiv : K -> K -> K) (kleb kltb : K -> K -> bool)
    (krpow : nat -> nat -> K -> K) (kcsqrt : cpx K -> cpx K) (A : Type) (aadd : A -> A -> A) (expi : Z -> A -> cpx K)
    (V : Type) (vfloat : Q -> V) (vge vlt vgt vle : V -> V -> bool) (P : Type) (p_phi : P -> A)
    (p_pT_abs p_rapidity p_pseudorapidity : P -> V) (p_pdg : P -> option Z) (rand_uniform : Z -> A) (n k imag : pyscalar)
    (self : qcself A),
  gen_init K k0 k1 kadd kmul ksub kopp kdiv kleb kltb krpow kcsqrt A aadd expi V vfloat vge vlt vgt vle P p_phi p_pT_abs
    p_rapidity p_pseudorapidity p_pdg rand_uniform n k imag = Ok self ->
  (existsb (Nat.eqb (Z.to_nat (k_ self))) gen_k_allowed && existsb (String.eqb (imaginary_ self)) gen_imag_allowed = true)
  /\ (0 < n_ self)%Z /\ (0 < k_ self)%Z.
Proof. exact init_valid. Qed.
Print Assumptions QCG_source_init_valid.

(* __sample_random_reaction_planes(m): one angle per event index, stored in rand_reaction_planes_ *)
Theorem QCG_source_sample_random_reaction_planes :
  forall (K : Type) (k0 k1 : K) (kadd kmul ksub : K -> K -> K) (kopp : K -> K) (kdiv : K -> K -> K) (kleb kltb : K -> K -> bool)
    (krpow : nat -> nat -> K -> K) (kcsqrt : cpx K -> cpx K) (A : Type) (aadd : A -> A -> A) (expi : Z -> A -> cpx K)
    (V : Type) (vfloat : Q -> V) (vge vlt vgt vle : V -> V -> bool) (P : Type) (p_phi : P -> A)
    (p_pT_abs p_rapidity p_pseudorapidity : P -> V) (p_pdg : P -> option Z) (rand_uniform : Z -> A) (self : qcself A) (m : Z),
  gen_sample_random_reaction_planes K k0 k1 kadd kmul ksub kopp kdiv kleb kltb krpow kcsqrt A aadd expi V vfloat vge vlt vgt vle
    P p_phi p_pT_abs p_rapidity p_pseudorapidity p_pdg rand_uniform self m
  = Ok (set_rand_reaction_planes_ self (map rand_uniform (py_range m)), tt).
Proof. exact source_sample_random_reaction_planes. Qed.
Print Assumptions QCG_source_sample_random_reaction_planes.

(* integrated_flow(particle_data) on a valid object, for EVERY list of particle lists: the planes are sampled, and the
   returned (value, error) are integrated_flow of Model/QCumulant.v and qc_error of Model/QCumulantErr.v on the events
   (rotation of event i, particles of event i) - for any inbin / ispoi (the integrated estimator does not read them) *)
Theorem QCG_source_integrated_flow :
  forall (K : Type) (k0 k1 : K) (kadd kmul ksub : K -> K -> K) (kopp : K -> K) (kdiv : K -> K -> K) (kleb kltb : K -> K -> bool)
    (krpow : nat -> nat -> K -> K) (kcsqrt : cpx K -> cpx K) (A : Type) (aadd : A -> A -> A) (expi : Z -> A -> cpx K)
    (V : Type) (vfloat : Q -> V) (vge vlt vgt vle : V -> V -> bool) (P : Type) (p_phi : P -> A)
    (p_pT_abs p_rapidity p_pseudorapidity : P -> V) (p_pdg : P -> option Z) (rand_uniform : Z -> A),
  (forall a b : K, kadd a b = kadd b a) -> (forall a b : K, kmul a b = kmul b a) ->
  (forall (n : Z) (a b : A), expi n (aadd a b) = cmul K kadd kmul ksub (expi n a) (expi n b)) ->
  forall (self : qcself A) (pd : list (list P)) (inbin ispoi : P -> bool),
  valid A self ->
  gen_integrated_flow K k0 k1 kadd kmul ksub kopp kdiv kleb kltb krpow kcsqrt A aadd expi V vfloat vge vlt vgt vle P p_phi
    p_pT_abs p_rapidity p_pseudorapidity p_pdg rand_uniform self pd =
    match integrated_flow K k0 k1 kadd kmul ksub kopp kdiv kleb kltb krpow P (zofn K A expi P p_phi (n_ self)) inbin ispoi
            (mk_events K A expi P rand_uniform (n_ self) pd) (Z.to_nat (k_ self)) (imaginary_ self),
          qc_error K k0 k1 kadd kmul ksub kopp kdiv kleb kltb krpow kcsqrt P (zofn K A expi P p_phi (n_ self)) inbin ispoi
            (mk_events K A expi P rand_uniform (n_ self) pd) (Z.to_nat (k_ self)) (imaginary_ self)
    with
    | Some v, Some e => Ok (set_rand_reaction_planes_ self (planes_of A rand_uniform (length pd)), (v, e))
    | _, _ => Err ValueError
    end.
Proof. exact source_integrated_flow. Qed.
Print Assumptions QCG_source_integrated_flow.

(* one bin [lo, hi) of the result: [flow value, error] of differential_bin / qc_diff_error, [] for DEmpty *)
Theorem QCG_source_bin_result :
  forall (K : Type) (k0 k1 : K) (kadd kmul ksub : K -> K -> K) (kopp : K -> K) (kdiv : K -> K -> K) (kleb kltb : K -> K -> bool)
    (krpow : nat -> nat -> K -> K) (kcsqrt : cpx K -> cpx K) (A : Type) (expi : Z -> A -> cpx K)
    (V : Type) (vfloat : Q -> V) (vge vlt : V -> V -> bool) (P : Type) (p_phi : P -> A)
    (p_pT_abs p_rapidity p_pseudorapidity : P -> V) (p_pdg : P -> option Z) (rand_uniform : Z -> A)
    (self : qcself A) (pd : list (list P)) (sel : string) (poi : option (list pyscalar)) (lo hi : V),
  diff_bin_result K k0 k1 kadd kmul ksub kopp kdiv kleb kltb krpow kcsqrt A expi V vfloat vge vlt P p_phi p_pT_abs p_rapidity
    p_pseudorapidity p_pdg rand_uniform self pd sel poi lo hi =
    match differential_bin K k0 k1 kadd kmul ksub kopp kdiv kleb kltb krpow P (zofn K A expi P p_phi (n_ self))
            (inbin_of V vfloat vge vlt P p_pT_abs p_rapidity p_pseudorapidity sel lo hi) (ispoi_of P p_pdg poi)
            (mk_events K A expi P rand_uniform (n_ self) pd) (Z.to_nat (k_ self)) (imaginary_ self),
          qc_diff_error K k0 k1 kadd kmul ksub kopp kdiv kleb kltb krpow kcsqrt P (zofn K A expi P p_phi (n_ self))
            (inbin_of V vfloat vge vlt P p_pT_abs p_rapidity p_pseudorapidity sel lo hi) (ispoi_of P p_pdg poi)
            (mk_events K A expi P rand_uniform (n_ self) pd) (Z.to_nat (k_ self)) (imaginary_ self)
    with
    | DVal _ v, DVal _ (Some e) => [v; Some e]
    | _, _ => []
    end.
Proof. exact diff_bin_result_def. Qed.
Print Assumptions QCG_source_bin_result.

(* differential_flow(particle_data, bins, flow_as_function_of, poi_pdg) on a valid object, for EVERY argument:
   TypeError unless bins is a list / ndarray, TypeError unless the selector is a str, TypeError unless poi_pdg is None or a
   list / ndarray of ints / numpy integers, ValueError unless the selector is one of gen_selectors_validated, ValueError
   for an order in gen_diff_rejected_k - in this order; else the planes are sampled and the result has one entry per pair
   of consecutive edges (bins[b], bins[b+1]), b < len(bins) - 1, which is the bin result above *)
Theorem QCG_source_differential_flow :
  forall (K : Type) (k0 k1 : K) (kadd kmul ksub : K -> K -> K) (kopp : K -> K) (kdiv : K -> K -> K) (kleb kltb : K -> K -> bool)
    (krpow : nat -> nat -> K -> K) (kcsqrt : cpx K -> cpx K) (A : Type) (aadd : A -> A -> A) (expi : Z -> A -> cpx K)
    (V : Type) (vfloat : Q -> V) (vge vlt vgt vle : V -> V -> bool) (P : Type) (p_phi : P -> A)
    (p_pT_abs p_rapidity p_pseudorapidity : P -> V) (p_pdg : P -> option Z) (rand_uniform : Z -> A),
  (forall a b : K, kadd a b = kadd b a) -> (forall a b : K, kmul a b = kmul b a) ->
  (forall (n : Z) (a b : A), expi n (aadd a b) = cmul K kadd kmul ksub (expi n a) (expi n b)) ->
  forall (self : qcself A) (pd : list (list P)) (bins : pyseq V) (sel : pyscalar) (poi : pyseq pyscalar),
  valid A self ->
  gen_differential_flow K k0 k1 kadd kmul ksub kopp kdiv kleb kltb krpow kcsqrt A aadd expi V vfloat vge vlt vgt vle P p_phi
    p_pT_abs p_rapidity p_pseudorapidity p_pdg rand_uniform self pd bins sel poi =
    match seq_arg bins with
    | None => Err TypeError
    | Some bl =>
      match str_arg sel with
      | None => Err TypeError
      | Some s =>
        match poi_check poi with
        | Err e => Err e
        | Ok po =>
          if negb (existsb (String.eqb s) gen_selectors_validated) then Err ValueError
          else if existsb (Nat.eqb (Z.to_nat (k_ self))) gen_diff_rejected_k then Err ValueError
          else Ok (set_rand_reaction_planes_ self (planes_of A rand_uniform (length pd)),
                   map (fun b => diff_bin_result K k0 k1 kadd kmul ksub kopp kdiv kleb kltb krpow kcsqrt A expi V vfloat vge vlt P
                                   p_phi p_pT_abs p_rapidity p_pseudorapidity p_pdg rand_uniform self pd s po
                                   (nth b bl (vfloat (0 # 1))) (nth (S b) bl (vfloat (0 # 1))))
                       (seq 0 (length bl - 1)))
        end
      end
    end.
Proof. exact source_differential_flow. Qed.
Print Assumptions QCG_source_differential_flow.

(* the same from the constructor arguments: no hypothesis on the object is left *)
Theorem QCG_source_ctor_integrated_flow :
  forall (K : Type) (k0 k1 : K) (kadd kmul ksub : K -> K -> K) (kopp : K -> K) (kdiv : K -> K -> K) (kleb kltb : K -> K -> bool)
    (krpow : nat -> nat -> K -> K) (kcsqrt : cpx K -> cpx K) (A : Type) (aadd : A -> A -> A) (expi : Z -> A -> cpx K)
    (V : Type) (vfloat : Q -> V) (vge vlt vgt vle : V -> V -> bool) (P : Type) (p_phi : P -> A)
    (p_pT_abs p_rapidity p_pseudorapidity : P -> V) (p_pdg : P -> option Z) (rand_uniform : Z -> A),
  (forall a b : K, kadd a b = kadd b a) -> (forall a b : K, kmul a b = kmul b a) ->
  (forall (n : Z) (a b : A), expi n (aadd a b) = cmul K kadd kmul ksub (expi n a) (expi n b)) ->
  forall (n k imag : pyscalar) (pd : list (list P)) (inbin ispoi : P -> bool),
  rbind (gen_init K k0 k1 kadd kmul ksub kopp kdiv kleb kltb krpow kcsqrt A aadd expi V vfloat vge vlt vgt vle P p_phi p_pT_abs
           p_rapidity p_pseudorapidity p_pdg rand_uniform n k imag)
        (fun self => gen_integrated_flow K k0 k1 kadd kmul ksub kopp kdiv kleb kltb krpow kcsqrt A aadd expi V vfloat vge vlt vgt
                       vle P p_phi p_pT_abs p_rapidity p_pseudorapidity p_pdg rand_uniform self pd)
  = rbind (init_spec A n k imag)
          (fun self => int_spec K k0 k1 kadd kmul ksub kopp kdiv kleb kltb krpow kcsqrt A expi P p_phi rand_uniform self pd inbin ispoi).
Proof. exact source_ctor_integrated_flow. Qed.
Print Assumptions QCG_source_ctor_integrated_flow.

Theorem QCG_source_ctor_differential_flow :
  forall (K : Type) (k0 k1 : K) (kadd kmul ksub : K -> K -> K) (kopp : K -> K) (kdiv : K -> K -> K) (kleb kltb : K -> K -> bool)
    (krpow : nat -> nat -> K -> K) (kcsqrt : cpx K -> cpx K) (A : Type) (aadd : A -> A -> A) (expi : Z -> A -> cpx K)
    (V : Type) (vfloat : Q -> V) (vge vlt vgt vle : V -> V -> bool) (P : Type) (p_phi : P -> A)
    (p_pT_abs p_rapidity p_pseudorapidity : P -> V) (p_pdg : P -> option Z) (rand_uniform : Z -> A),
  (forall a b : K, kadd a b = kadd b a) -> (forall a b : K, kmul a b = kmul b a) ->
  (forall (n : Z) (a b : A), expi n (aadd a b) = cmul K kadd kmul ksub (expi n a) (expi n b)) ->
  forall (n k imag : pyscalar) (pd : list (list P)) (bins : pyseq V) (sel : pyscalar) (poi : pyseq pyscalar),
  rbind (gen_init K k0 k1 kadd kmul ksub kopp kdiv kleb kltb krpow kcsqrt A aadd expi V vfloat vge vlt vgt vle P p_phi p_pT_abs
           p_rapidity p_pseudorapidity p_pdg rand_uniform n k imag)
        (fun self => gen_differential_flow K k0 k1 kadd kmul ksub kopp kdiv kleb kltb krpow kcsqrt A aadd expi V vfloat vge vlt
                       vgt vle P p_phi p_pT_abs p_rapidity p_pseudorapidity p_pdg rand_uniform self pd bins sel poi)
  = rbind (init_spec A n k imag)
          (fun self => diff_spec K k0 k1 kadd kmul ksub kopp kdiv kleb kltb krpow kcsqrt A expi V vfloat vge vlt P p_phi p_pT_abs
                         p_rapidity p_pseudorapidity p_pdg rand_uniform self pd bins sel poi).
Proof. exact source_ctor_differential_flow. Qed.
Print Assumptions QCG_source_ctor_differential_flow.

(* the theorems cover every event list of the hand model whose rotations are the unit vectors of the sampled angles *)
Theorem QCG_source_events_cover :
  forall (K : Type) (k0 : K) (A : Type) (expi : Z -> A -> cpx K) (P : Type) (rand_uniform : Z -> A) (n : Z)
    (evs : list (event K P)),
  (forall i : nat, (i < length evs)%nat -> fst (nth i evs (c0 K k0, [])) = expi n (rand_uniform (Z.of_nat i))) ->
  mk_events K A expi P rand_uniform n (map snd evs) = evs.
Proof. exact mk_events_cover. Qed.
Print Assumptions QCG_source_events_cover.

(* defaults: QCumulantFlow(n=2, k=2, imaginary="zero"), differential_flow(.., poi_pdg=None); they agree with the
   defaults Gen/GenQCumulant.v extracts for the C12 tables *)
Theorem QCG_source_defaults :
  gen_init_default_n = SInt 2 /\ gen_init_default_k = SInt 2 /\ gen_init_default_imaginary = SStr "zero"
  /\ gen_differential_flow_default_poi_pdg = QNone
  /\ gen_init_default_k = SInt (Z.of_nat gen_default_k) /\ gen_init_default_imaginary = SStr gen_default_imag.
Proof. exact source_defaults. Qed.
Print Assumptions QCG_source_defaults.

(* non-vacuity: an instance (K = Z, angles 0 / pi) satisfies the exponential law, the constructor accepts the defaults and
   differential_flow runs through both bins of [0, 3, 9] with an ndarray of a numpy integer and an int as poi_pdg *)
Theorem QCG_source_example :
  (forall n a b, ex_expi n (xorb a b) = cmul Z Z.add Z.mul Z.sub (ex_expi n a) (ex_expi n b)) /\
  (exists self, gen_init Z 0%Z 1%Z Z.add Z.mul Z.sub Z.opp Z.div Z.leb Z.ltb (fun _ _ x => x) (fun z => z) bool xorb ex_expi
                  Z (fun _ => 0%Z) Z.geb Z.ltb Z.gtb Z.leb nat (fun p => Nat.odd p) Z.of_nat Z.of_nat Z.of_nat (fun p => Some (Z.of_nat p))
                  (fun i => Z.odd i) (SInt 2) (SInt 2) (SStr "zero") = Ok self /\
     exists r, gen_differential_flow Z 0%Z 1%Z Z.add Z.mul Z.sub Z.opp Z.div Z.leb Z.ltb (fun _ _ x => x) (fun z => z) bool xorb ex_expi
                  Z (fun _ => 0%Z) Z.geb Z.ltb Z.gtb Z.leb nat (fun p => Nat.odd p) Z.of_nat Z.of_nat Z.of_nat (fun p => Some (Z.of_nat p))
                  (fun i => Z.odd i) self [[1; 2; 3; 4]%nat; [2; 3; 5]%nat] (QList [0; 3; 9]%Z) (SStr "pT") (QArray [SNpInt 3; SInt 2])
                = Ok (set_rand_reaction_planes_ self [false; true], r) /\ length r = 2%nat).
Proof. exact source_example. Qed.
Print Assumptions QCG_source_example.

(* C03 - every filter keeps exactly the particles / events its documented predicate selects.
   Statements only, closed by [exact]; proofs in Proofs/C03_*.v are about Gen/GenFilters.v, which is
   regenerated from src/sparkx/Filter.py on every run (tools/py2coq/gen_filters.py).

   Reading guide.  [gen_f evs args] is what the code of filter f does on the event list [evs] (particles are
   observation records: what each accessor returned on the real object) and the Python arguments [args];
   [spec_f] (Model/FilterSpec.v) is the documented predicate: [particle_level pred = map (filter pred)],
   [event_level epred = filter epred] (one empty event when nothing is left).  Every theorem is for ALL event
   lists (any number of events, empty events, any values incl. NaN and +-inf) and all admissible arguments.
   [no_raise accs evs]: the accessors the filter reads returned a value on every particle (none raised). *)
From Coq Require Import List ZArith QArith Bool String.
From SX Require Import Model.PyRt Model.FilterSpec Lib.PyRtLemmas Lib.Subseq Gen.GenFilters
  Proofs.C03_Args Proofs.C03_Class Proofs.C03_Window Proofs.C03_Event Proofs.C03_Corollaries Proofs.C03_Rejects.
Import ListNotations.

(* ---- charge / collisions: quantity defined and non-zero (zero) *)
Theorem C03_charged_particles :
  forall evs, no_raise [A_charge] evs -> gen_charged_particles evs = Ok (spec_charged_particles evs).
Proof. exact charged_particles_ok. Qed.
Print Assumptions C03_charged_particles.

Theorem C03_uncharged_particles :
  forall evs, no_raise [A_charge] evs -> gen_uncharged_particles evs = Ok (spec_uncharged_particles evs).
Proof. exact uncharged_particles_ok. Qed.
Print Assumptions C03_uncharged_particles.

Theorem C03_participants :
  forall evs, no_raise [A_ncoll] evs -> gen_participants evs = Ok (spec_participants evs).
Proof. exact participants_ok. Qed.
Print Assumptions C03_participants.

Theorem C03_spectators :
  forall evs, no_raise [A_ncoll] evs -> gen_spectators evs = Ok (spec_spectators evs).
Proof. exact spectators_ok. Qed.
Print Assumptions C03_spectators.

(* ---- classification by the PDG id: the method answered True (not False, not nan) *)
Theorem C03_keep_hadrons :
  forall evs, no_raise [M_is_hadron] evs -> gen_keep_hadrons evs = Ok (spec_keep_hadrons evs).
Proof. exact keep_hadrons_ok. Qed.
Print Assumptions C03_keep_hadrons.

Theorem C03_keep_leptons :
  forall evs, no_raise [M_is_lepton] evs -> gen_keep_leptons evs = Ok (spec_keep_leptons evs).
Proof. exact keep_leptons_ok. Qed.
Print Assumptions C03_keep_leptons.

Theorem C03_keep_quarks :
  forall evs, no_raise [M_is_quark] evs -> gen_keep_quarks evs = Ok (spec_keep_quarks evs).
Proof. exact keep_quarks_ok. Qed.
Print Assumptions C03_keep_quarks.

Theorem C03_keep_mesons :
  forall evs, no_raise [M_is_meson] evs -> gen_keep_mesons evs = Ok (spec_keep_mesons evs).
Proof. exact keep_mesons_ok. Qed.
Print Assumptions C03_keep_mesons.

Theorem C03_keep_baryons :
  forall evs, no_raise [M_is_baryon] evs -> gen_keep_baryons evs = Ok (spec_keep_baryons evs).
Proof. exact keep_baryons_ok. Qed.
Print Assumptions C03_keep_baryons.

Theorem C03_keep_up :
  forall evs, no_raise [M_has_up] evs -> gen_keep_up evs = Ok (spec_keep_up evs).
Proof. exact keep_up_ok. Qed.
Print Assumptions C03_keep_up.

Theorem C03_keep_down :
  forall evs, no_raise [M_has_down] evs -> gen_keep_down evs = Ok (spec_keep_down evs).
Proof. exact keep_down_ok. Qed.
Print Assumptions C03_keep_down.

Theorem C03_keep_strange :
  forall evs, no_raise [M_has_strange] evs -> gen_keep_strange evs = Ok (spec_keep_strange evs).
Proof. exact keep_strange_ok. Qed.
Print Assumptions C03_keep_strange.

Theorem C03_keep_charm :
  forall evs, no_raise [M_has_charm] evs -> gen_keep_charm evs = Ok (spec_keep_charm evs).
Proof. exact keep_charm_ok. Qed.
Print Assumptions C03_keep_charm.

Theorem C03_keep_bottom :
  forall evs, no_raise [M_has_bottom] evs -> gen_keep_bottom evs = Ok (spec_keep_bottom evs).
Proof. exact keep_bottom_ok. Qed.
Print Assumptions C03_keep_bottom.

Theorem C03_keep_top :
  forall evs, no_raise [M_has_top] evs -> gen_keep_top evs = Ok (spec_keep_top evs).
Proof. exact keep_top_ok. Qed.
Print Assumptions C03_keep_top.

(* ---- PDG ids and status codes, given as a scalar, list, tuple or numpy array *)
Theorem C03_particle_species :
  forall evs s ids, shape_ok s ids -> all_int64 ids -> int_or_nan A_pdg evs ->
  gen_particle_species evs (v_ids s ids) = Ok (spec_particle_species evs ids).
Proof. exact particle_species_ok. Qed.
Print Assumptions C03_particle_species.

Theorem C03_remove_particle_species :
  forall evs s ids, shape_ok s ids -> all_int64 ids -> int_or_nan A_pdg evs ->
  gen_remove_particle_species evs (v_ids s ids) = Ok (spec_remove_particle_species evs ids).
Proof. exact remove_particle_species_ok. Qed.
Print Assumptions C03_remove_particle_species.

Theorem C03_remove_photons :
  forall evs, int_or_nan A_pdg evs -> gen_remove_photons evs = Ok (spec_remove_photons evs).
Proof. exact remove_photons_ok. Qed.
Print Assumptions C03_remove_photons.

Theorem C03_particle_status :
  forall evs s ids, shape_ok s ids -> all_int64 ids -> no_raise [A_status] evs ->
  gen_particle_status evs (v_ids s ids) = Ok (spec_particle_status evs ids).
Proof. exact particle_status_ok. Qed.
Print Assumptions C03_particle_status.

Theorem C03_shapes_species :
  forall evs s1 s2 ids, shape_ok s1 ids -> shape_ok s2 ids -> all_int64 ids -> int_or_nan A_pdg evs ->
  gen_particle_species evs (v_ids s1 ids) = gen_particle_species evs (v_ids s2 ids) /\
  gen_remove_particle_species evs (v_ids s1 ids) = gen_remove_particle_species evs (v_ids s2 ids).
Proof. exact species_shapes. Qed.
Print Assumptions C03_shapes_species.

Theorem C03_shapes_status :
  forall evs s1 s2 ids, shape_ok s1 ids -> shape_ok s2 ids -> all_int64 ids -> no_raise [A_status] evs ->
  gen_particle_status evs (v_ids s1 ids) = gen_particle_status evs (v_ids s2 ids).
Proof. exact status_shapes. Qed.
Print Assumptions C03_shapes_status.

(* ---- inclusive windows; limits in either order; None = unbounded; NaN never passes *)
Theorem C03_limit_validation :
  forall a b an, (an = false -> a <> LNone /\ b <> LNone) -> (a <> LNone \/ b <> LNone) ->
  gen_ensure_tuple_is_valid_else_raise_error (v_pair (v_lim a) (v_lim b)) (VBool an) = Ok VNone.
Proof. exact ensure_tuple_ok. Qed.
Print Assumptions C03_limit_validation.

Theorem C03_pT_cut :
  forall evs lo hi, (lo <> LNone \/ hi <> LNone) -> lim_nonneg lo -> lim_nonneg hi -> no_raise [M_pT_abs] evs ->
  gen_pT_cut evs (v_pair (v_lim lo) (v_lim hi)) = Ok (spec_pT_cut evs lo hi).
Proof. exact pT_cut_ok. Qed.
Print Assumptions C03_pT_cut.

Theorem C03_mT_cut :
  forall evs lo hi, (lo <> LNone \/ hi <> LNone) -> lim_nonneg lo -> lim_nonneg hi -> no_raise [M_mT] evs ->
  gen_mT_cut evs (v_pair (v_lim lo) (v_lim hi)) = Ok (spec_mT_cut evs lo hi).
Proof. exact mT_cut_ok. Qed.
Print Assumptions C03_mT_cut.

Theorem C03_spacetime_cut :
  forall evs d lo hi, (lo <> LNone \/ hi <> LNone) -> no_raise [dim_acc d] evs ->
  gen_spacetime_cut evs (v_dim d) (v_pair (v_lim lo) (v_lim hi)) = Ok (spec_spacetime_cut evs d lo hi).
Proof. exact spacetime_cut_ok. Qed.
Print Assumptions C03_spacetime_cut.

Theorem C03_rapidity_cut :
  forall evs c1 c2, no_raise [M_rapidity] evs ->
  gen_rapidity_cut evs (v_pair (v_num c1) (v_num c2)) = Ok (spec_rapidity_cut evs c1 c2).
Proof. exact rapidity_cut_ok. Qed.
Print Assumptions C03_rapidity_cut.

Theorem C03_rapidity_cut_single :
  forall evs c, no_raise [M_rapidity] evs ->
  gen_rapidity_cut evs (v_num c) = Ok (spec_rapidity_cut_sym evs c).
Proof. exact rapidity_cut_sym_ok. Qed.
Print Assumptions C03_rapidity_cut_single.

Theorem C03_pseudorapidity_cut :
  forall evs c1 c2, no_raise [M_pseudorapidity] evs ->
  gen_pseudorapidity_cut evs (v_pair (v_num c1) (v_num c2)) = Ok (spec_pseudorapidity_cut evs c1 c2).
Proof. exact pseudorapidity_cut_ok. Qed.
Print Assumptions C03_pseudorapidity_cut.

Theorem C03_pseudorapidity_cut_single :
  forall evs c, no_raise [M_pseudorapidity] evs ->
  gen_pseudorapidity_cut evs (v_num c) = Ok (spec_pseudorapidity_cut_sym evs c).
Proof. exact pseudorapidity_cut_sym_ok. Qed.
Print Assumptions C03_pseudorapidity_cut_single.

Theorem C03_spacetime_rapidity_cut :
  forall evs c1 c2, no_raise [M_spacetime_rapidity] evs ->
  gen_spacetime_rapidity_cut evs (v_pair (v_num c1) (v_num c2)) = Ok (spec_spacetime_rapidity_cut evs c1 c2).
Proof. exact spacetime_rapidity_cut_ok. Qed.
Print Assumptions C03_spacetime_rapidity_cut.

Theorem C03_spacetime_rapidity_cut_single :
  forall evs c, no_raise [M_spacetime_rapidity] evs ->
  gen_spacetime_rapidity_cut evs (v_num c) = Ok (spec_spacetime_rapidity_cut_sym evs c).
Proof. exact spacetime_rapidity_cut_sym_ok. Qed.
Print Assumptions C03_spacetime_rapidity_cut_single.

(* ---- event-level cuts *)
Theorem C03_lower_event_energy_cut :
  forall evs thr, num_pos thr -> no_raise [A_E] evs ->
  gen_lower_event_energy_cut evs (v_num thr) = Ok (spec_lower_event_energy_cut evs thr).
Proof. exact lower_event_energy_cut_ok. Qed.
Print Assumptions C03_lower_event_energy_cut.

Theorem C03_multiplicity_cut :
  forall evs lo hi, (lo <> LNone \/ hi <> LNone) -> lim_nonneg lo -> lim_nonneg hi ->
  gen_multiplicity_cut evs (v_pair (v_lim lo) (v_lim hi)) = Ok (spec_multiplicity_cut evs lo hi).
Proof. exact multiplicity_cut_ok. Qed.
Print Assumptions C03_multiplicity_cut.

(* ---- consequences for every particle-level / event-level filter *)
Theorem C03_every_event_represented :
  forall pred evs, List.length (particle_level pred evs) = List.length evs.
Proof. exact particle_level_length. Qed.
Print Assumptions C03_every_event_represented.

Theorem C03_survivors_in_order :
  forall pred evs,
  Forall2 (fun out inp => out = filter pred inp /\ subseq out inp) (particle_level pred evs) evs.
Proof. exact particle_level_events. Qed.
Print Assumptions C03_survivors_in_order.

Theorem C03_survivors_exact :
  forall pred evs k inp out p,
  nth_error evs k = Some inp -> nth_error (particle_level pred evs) k = Some out ->
  (In p out <-> In p inp /\ pred p = true).
Proof. exact particle_level_survivor. Qed.
Print Assumptions C03_survivors_exact.

Theorem C03_no_duplication :
  forall pred evs k inp out,
  nth_error evs k = Some inp -> nth_error (particle_level pred evs) k = Some out ->
  NoDup (map pid inp) -> NoDup (map pid out).
Proof. exact particle_level_nodup. Qed.
Print Assumptions C03_no_duplication.

Theorem C03_event_level_events :
  forall epred evs,
  (filter epred evs = [] /\ event_level epred evs = [[]]) \/
  (event_level epred evs = filter epred evs /\ subseq (event_level epred evs) evs).
Proof. exact event_level_events. Qed.
Print Assumptions C03_event_level_events.

Theorem C03_nan_dropped_window :
  forall a lo hi p, oval p a = NaN -> window a lo hi p = false.
Proof. exact window_nan. Qed.
Print Assumptions C03_nan_dropped_window.

Theorem C03_nan_dropped_window2 :
  forall a c1 c2 p, oval p a = NaN -> window2 a c1 c2 p = false.
Proof. exact window2_nan. Qed.
Print Assumptions C03_nan_dropped_window2.

Theorem C03_nan_dropped_window_sym :
  forall a c p, oval p a = NaN -> window_sym a c p = false.
Proof. exact window_sym_nan. Qed.
Print Assumptions C03_nan_dropped_window_sym.

Theorem C03_nan_dropped_charge_class :
  forall a p, oval p a = NaN -> holds a p = false /\ vanishes a p = false.
Proof. exact holds_nan. Qed.
Print Assumptions C03_nan_dropped_charge_class.

Theorem C03_nan_dropped_ids :
  forall ids p,
  (oval p A_pdg = NaN -> pdg_in ids p = false /\ pdg_notin ids p = false) /\
  (oval p A_status = NaN -> status_in ids p = false).
Proof. exact ids_nan. Qed.
Print Assumptions C03_nan_dropped_ids.

(* ---- rejected arguments; a raising accessor *)
Theorem C03_pT_cut_rejects :
  forall evs,
  gen_pT_cut evs (v_pair VNone VNone) = Err ValueError /\
  (forall l, gen_pT_cut evs (VList l) = Err TypeError) /\
  (forall z hi, (z < 0)%Z -> gen_pT_cut evs (v_pair (VInt z) (v_lim hi)) = Err ValueError).
Proof. exact pT_cut_rejects. Qed.
Print Assumptions C03_pT_cut_rejects.

Theorem C03_spacetime_cut_rejects_dim :
  forall evs s lo hi, (lo <> LNone \/ hi <> LNone) ->
  s <> "t"%string -> s <> "x"%string -> s <> "y"%string -> s <> "z"%string ->
  gen_spacetime_cut evs (VStr s) (v_pair (v_lim lo) (v_lim hi)) = Err ValueError.
Proof. exact spacetime_cut_rejects_dim. Qed.
Print Assumptions C03_spacetime_cut_rejects_dim.

Theorem C03_energy_cut_rejects :
  forall evs,
  (forall z, (z <= 0)%Z -> gen_lower_event_energy_cut evs (VInt z) = Err ValueError) /\
  gen_lower_event_energy_cut evs (VFloat NaN) = Err ValueError /\
  gen_lower_event_energy_cut evs VNone = Err TypeError.
Proof. exact energy_cut_rejects. Qed.
Print Assumptions C03_energy_cut_rejects.

Theorem C03_raising_accessor_propagates :
  forall p ev rest e c, obs p M_spacetime_rapidity = Raises e ->
  gen_spacetime_rapidity_cut ((p :: ev) :: rest) (v_num c) = Err e.
Proof. exact raising_accessor_propagates. Qed.
Print Assumptions C03_raising_accessor_propagates.

(* ---- non-vacuity: three events (one empty), status codes given as a list: every event is represented,
   the unset status (NaN) is dropped, order and identity (pid) are kept *)
Theorem C03_example :
  match gen_particle_status [[ex_p 1 (Fin 1); ex_p 2 NaN; ex_p 3 (Fin 0)]; []; [ex_p 4 (Fin 2); ex_p 5 (Fin 1)]]
                            (VList [VInt 1; VInt 0]) with
  | Ok out => map (map pid) out = [[1; 3]; []; [5]]%Z
  | Err _ => False
  end.
Proof. exact example_status_list. Qed.
Print Assumptions C03_example.

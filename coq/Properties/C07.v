(* C07 - truncated or damaged input is detected, never silently mis-loaded (loader models of C01).

   C07_trunc / C07_jetscape_trunc: ONE statement per format family over EVERY truncation point of every
   well-formed file.  The truncated file is what the loaders see after their split into lines and blank-separated
   tokens: n complete lines, then either nothing (the cut falls on a line boundary; the file still ends with a
   newline: load) or the first j tokens of line n followed by an arbitrary prefix p of token j, empty and whole
   token included (no final newline: load_nonl).  C07_cut_bytes_are_token_cuts proves that every non-empty
   string prefix of a rendered file is of this form.  The result is an error, or exactly the first m complete events
   with matching counts, and then the cut is the line boundary after event m or lies in the footer line of event m
   at or after its word "end" (Oscar; the loader still sees '#' and 'end' in that line) / in the trailer at or
   after the word sigmaGen with ALL events returned (JETSCAPE).
   Hypotheses beyond wf: the comment lines have the SMASH shape '# event <i> out <n>' / '# event <i> end ...'
   with decimal numerals without leading zeros, the three file header lines do not contain "event" (shape);
   only the JETSCAPE trailer contains "sigmaGen" and it starts with '#' (jshape); int() of a decimal numeral is
   its value and int('') fails (int_oracle_ok).
   The line-level theorems of the first stage (boundary cut, after header, non-comment last line, lost line,
   duplicated line) are kept below; the truncation ones are now ingredients of C07_trunc. *)
From Coq Require Import List String ZArith QArith Bool Arith.
From SX Require Import Lib.Strs Lib.DecStr Lib.Split Lib.CutSplit Gen.GenParticleMap Model.Oscar Model.OscarDoc Model.Jetscape Model.JetscapeDoc
  Model.C07Aux Proofs.C01_Oscar Proofs.C01_Example Proofs.C02_JetscapeExample
  Proofs.C07_Oscar Proofs.C07_Jetscape Proofs.C07_OscarTrunc Proofs.C07_JetscapeTrunc Proofs.C07_TruncExample Proofs.C07_Bytes
  Proofs.C07_OscarDamage Proofs.C07_JetscapeDamage.
Import ListNotations.
Local Open Scope string_scope.

(* ---- every truncation point, Oscar family (Oscar2013 / Oscar2013Extended / ASCII) *)
Theorem C07_trunc :
  forall tok_float tok_int pdg_valid, int_oracle_ok tok_int ->
  forall d fmt attrs n (c : partial),
  wf tok_float tok_int pdg_valid d fmt attrs -> shape d ->
  (n <= List.length (render d))%nat -> valid_partial (nth n (render d) []) c ->
  match load_cut tok_float tok_int pdg_valid (cut_lines (render d) n c) c with
  | Err _ => True
  | Ok r =>
    exists m, (1 <= m <= List.length (d_events d))%nat /\
              same_data r (expected tok_float tok_int pdg_valid (truncd m d) fmt attrs) /\
              oscar_cut_position d n c m /\
              l_footers r = oscar_cut_footers d n c m
  end.
Proof. exact oscar_trunc. Qed.
Print Assumptions C07_trunc.

(* the same through Oscar.__init__ (load, then impact_parameter() over the end lines that were kept) *)
Theorem C07_trunc_ctor :
  forall tok_float tok_int pdg_valid d fmt attrs n (c : partial),
  int_oracle_ok tok_int -> wf tok_float tok_int pdg_valid d fmt attrs -> shape d ->
  (n <= List.length (render d))%nat -> valid_partial (nth n (render d) []) c ->
  match ctor_cut tok_float tok_int pdg_valid (cut_lines (render d) n c) c with
  | Err _ => True
  | Ok (r, imps) =>
    exists m, (1 <= m <= List.length (d_events d))%nat /\
              same_data r (expected tok_float tok_int pdg_valid (truncd m d) fmt attrs) /\
              oscar_cut_position d n c m /\ List.length imps = m
  end.
Proof. exact oscar_trunc_ctor. Qed.
Print Assumptions C07_trunc_ctor.

(* non-vacuity: hypotheses met by a concrete file; cuts that load (boundaries, '# event 1 end', '# event 1 end 0 imp')
   and cuts that fail, evaluated on the model *)
Theorem C07_trunc_example :
  int_oracle_ok dec_int /\ wf ex_tf dec_int ex_pv ex_doc "Oscar2013" [] /\ shape ex_doc /\
  summary (ex_cut 6 None) = Some ([1%nat], 1%Z, [(0, 1)%Z], 1%nat) /\
  summary (ex_cut 8 None) = Some ([1%nat; 0%nat], 2%Z, [(0, 1); (1, 0)]%Z, 2%nat) /\
  summary (ex_cut 7 (Some (3%nat, "end"))) = Some ([1%nat; 0%nat], 2%Z, [(0, 1); (1, 0)]%Z, 1%nat) /\
  summary (ex_cut 7 (Some (5%nat, "imp"))) = Some ([1%nat; 0%nat], 2%Z, [(0, 1); (1, 0)]%Z, 2%nat) /\
  errof (ctor_cut ex_tf dec_int ex_pv (cut_lines (render ex_doc) 7 (Some (5%nat, "imp"))) (Some (5%nat, "imp"))) = Some ValueError /\
  errof (ctor_cut ex_tf dec_int ex_pv (cut_lines (render ex_doc) 7 (Some (3%nat, "end"))) (Some (3%nat, "end"))) = Some IndexError /\
  (exists r, ctor_cut ex_tf dec_int ex_pv (cut_lines (render ex_doc) 7 (Some (4%nat, "0"))) (Some (4%nat, "0")) = Ok r) /\
  errof (ex_cut 7 (Some (3%nat, "en"))) = Some ValueError /\
  errof (ex_cut 6 (Some (2%nat, "1"))) = Some IndexError /\
  errof (ex_cut 6 (Some (3%nat, "out"))) = Some IndexError /\
  errof (ex_cut 6 (Some (4%nat, "0"))) = Some IndexError /\
  errof (ex_cut 4 (Some (3%nat, "0."))) = Some TypeError /\
  errof (ex_cut 1 (Some (1%nat, "Uni"))) = Some TypeError.
Proof. exact example_cuts. Qed.
Print Assumptions C07_trunc_example.

(* the digit-string case: '# event 10 out 0' / '# event 11 out 0' cut to '# event 1' is rejected by the final
   comparison (2 events announced, 10 / 11 read); the cut at the boundary before it loads 10 events *)
Theorem C07_trunc_example_label_prefix :
  errof (load_cut ex_tf dec_int ex_pv (cut_lines (render ex_doc12) 23 (Some (2%nat, "1"))) (Some (2%nat, "1"))) = Some IndexError /\
  errof (load_cut ex_tf dec_int ex_pv (cut_lines (render ex_doc12) 25 (Some (2%nat, "1"))) (Some (2%nat, "1"))) = Some IndexError /\
  summary (load_cut ex_tf dec_int ex_pv (cut_lines (render ex_doc12) 23 None) None)
  = Some (repeat 0%nat 10, 10%Z, map (fun i => (Z.of_nat i, 0%Z)) (seq 0 10), 10%nat).
Proof. exact example_label_prefix. Qed.
Print Assumptions C07_trunc_example_label_prefix.

(* ---- every truncation point, JETSCAPE (the model's jload makes no use of a final newline) *)
Theorem C07_jetscape_trunc :
  forall tok_float tok_int pdg_valid pdg_charge usqrt defstr d s1 s2 n (c : partial),
  jwf tok_float tok_int pdg_valid pdg_charge usqrt defstr d s1 s2 -> jshape d ->
  (n <= List.length (jrender d))%nat -> valid_partial (nth n (jrender d) []) c ->
  match jload tok_float tok_int pdg_valid pdg_charge usqrt None (cut_lines (jrender d) n c) defstr SelAll with
  | Err _ => True
  | Ok r =>
    same_jdata r (jexpected tok_float tok_int pdg_valid pdg_charge usqrt d s1 s2) /\
    match c with
    | None => n = List.length (jrender d) /\ r = jexpected tok_float tok_int pdg_valid pdg_charge usqrt d s1 s2
    | Some (j, p) => S n = List.length (jrender d) /\ has "sigmaGen" (cut_line (jd_trailer d) j p) = true
    end
  end.
Proof. exact jet_trunc. Qed.
Print Assumptions C07_jetscape_trunc.

Theorem C07_jetscape_trunc_example :
  jwf exj_tf exj_ti exj_pv exj_pc exj_sqrt "N_hadrons" exj_doc (3#2) (1#8) /\ jshape exj_doc /\
  jsummary (exj_cut 10 None) = Some ([2; 0; 1; 1]%nat, 4%Z, [(1, 2); (2, 0); (3, 1); (4, 1)]%Z, ((3#2)%Q, (1#8)%Q)) /\
  jsummary (exj_cut 9 (Some (4%nat, "0"))) = Some ([2; 0; 1; 1]%nat, 4%Z, [(1, 2); (2, 0); (3, 1); (4, 1)]%Z, ((3#2)%Q, 0%Q)) /\
  errof (exj_cut 9 (Some (3%nat, "sigmaE"))) = Some IndexError /\
  errof (exj_cut 9 (Some (1%nat, "sigmaG"))) = Some ValueError /\
  errof (exj_cut 9 None) = Some ValueError /\
  errof (exj_cut 8 (Some (2%nat, "2"))) = Some ValueError.
Proof. exact exj_cuts. Qed.
Print Assumptions C07_jetscape_trunc_example.

(* ---- a byte-level cut IS a token-level cut: every non-empty string prefix P of the text of a file (lines joined
   and terminated by newlines, tokens joined by single blanks) splits, the way the loaders split, into
   cut_lines lines n c for some n and some valid partial c *)
Theorem C07_cut_bytes_are_token_cuts :
  forall (lines : list line) (P : string),
  Forall (fun l => l <> [] /\ forallb (fun t => no_char sp t && no_char nl t) l = true) lines ->
  prefix P (file_text lines) = true -> P <> "" ->
  exists n c, (n <= List.length lines)%nat /\ valid_partial (nth n lines []) c /\
              lines_seen P = cut_lines lines n c /\
              ends_with_newline c = string_ends_with_newline P.
Proof. exact cut_bytes_are_token_cuts. Qed.
Print Assumptions C07_cut_bytes_are_token_cuts.

(* ---- one particle line lost / duplicated anywhere in a well-formed file (row k of any event): the load fails *)
Theorem C07_delete :
  forall tok_float tok_int pdg_valid d fmt attrs pre e post k,
  wf tok_float tok_int pdg_valid d fmt attrs -> d_events d = (pre ++ e :: post)%list -> (k < List.length (e_rows e))%nat ->
  load tok_float tok_int pdg_valid None
       (render (with_events d (pre ++ set_rows e (delete_row k (e_rows e)) :: post)%list)) SelAll = Err IndexError.
Proof. exact delete_any_row. Qed.
Print Assumptions C07_delete.

Theorem C07_dup :
  forall tok_float tok_int pdg_valid d fmt attrs pre e post k,
  wf tok_float tok_int pdg_valid d fmt attrs -> d_events d = (pre ++ e :: post)%list -> (k < List.length (e_rows e))%nat ->
  load tok_float tok_int pdg_valid None
       (render (with_events d (pre ++ set_rows e (dup_row k (e_rows e)) :: post)%list)) SelAll = Err IndexError.
Proof. exact duplicate_any_row. Qed.
Print Assumptions C07_dup.

Theorem C07_jetscape_delete :
  forall tok_float tok_int pdg_valid pdg_charge usqrt defstr d s1 s2 pre e post k,
  jwf tok_float tok_int pdg_valid pdg_charge usqrt defstr d s1 s2 -> jd_events d = (pre ++ e :: post)%list ->
  (k < List.length (je_rows e))%nat ->
  jload tok_float tok_int pdg_valid pdg_charge usqrt None
        (jrender (jwith_events d (pre ++ jset_rows e (delete_row k (je_rows e)) :: post)%list)) defstr SelAll = Err IndexError.
Proof. exact jet_delete_any_row. Qed.
Print Assumptions C07_jetscape_delete.

Theorem C07_jetscape_dup :
  forall tok_float tok_int pdg_valid pdg_charge usqrt defstr d s1 s2 pre e post k,
  jwf tok_float tok_int pdg_valid pdg_charge usqrt defstr d s1 s2 -> jd_events d = (pre ++ e :: post)%list ->
  (k < List.length (je_rows e))%nat ->
  jload tok_float tok_int pdg_valid pdg_charge usqrt None
        (jrender (jwith_events d (pre ++ jset_rows e (dup_row k (je_rows e)) :: post)%list)) defstr SelAll = Err IndexError.
Proof. exact jet_duplicate_any_row. Qed.
Print Assumptions C07_jetscape_dup.

(* ---- first-stage line-level theorems (declared-vs-present counts; ingredients of the theorems above) *)
(* cut at an event boundary: the first m complete events, with matching counts *)
Theorem C07_trunc_event_boundary :
  forall tok_float tok_int pdg_valid d fmt attrs m,
  wf tok_float tok_int pdg_valid d fmt attrs -> foot_labels tok_int 0 (d_events d) ->
  (1 <= m <= List.length (d_events d))%nat ->
  render (C07_Oscar.trunc m d) = firstn (3 + List.length (render_events (firstn m (d_events d)))) (render d) /\
  load tok_float tok_int pdg_valid None (render (C07_Oscar.trunc m d)) SelAll
    = Ok (expected tok_float tok_int pdg_valid (C07_Oscar.trunc m d) fmt attrs) /\
  l_events (expected tok_float tok_int pdg_valid (C07_Oscar.trunc m d) fmt attrs)
    = firstn m (l_events (expected tok_float tok_int pdg_valid d fmt attrs)) /\
  l_counts (expected tok_float tok_int pdg_valid (C07_Oscar.trunc m d) fmt attrs)
    = firstn m (l_counts (expected tok_float tok_int pdg_valid d fmt attrs)) /\
  l_nevents (expected tok_float tok_int pdg_valid (C07_Oscar.trunc m d) fmt attrs) = Z.of_nat m.
Proof. exact cut_at_event_boundary. Qed.
Print Assumptions C07_trunc_event_boundary.

(* cut right after the header line of the next event (any declared count): IndexError *)
Theorem C07_trunc_after_header :
  forall tok_float tok_int pdg_valid d fmt attrs evs (h : line) (dcl : nat),
  hdr_ok d fmt attrs -> wf_events tok_float tok_int pdg_valid fmt attrs 0 evs ->
  kind_scan h = SOut -> kind_loop h = KSkip ->
  (exists lt ct, nth_error h 2 = Some lt /\ nth_error h 4 = Some ct /\
                 tok_int lt = Some (zq (Z.of_nat (List.length evs))) /\ tok_int ct = Some (zq (Z.of_nat dcl))) ->
  nth 0 h "" = "#" -> mem_str "event" (removelast_s h) = true ->
  load tok_float tok_int pdg_valid None (d_h1 d :: d_h2 d :: d_h3 d :: render_events evs ++ [h])%list SelAll
  = Err IndexError.
Proof. exact cut_after_header. Qed.
Print Assumptions C07_trunc_after_header.

(* the last line is not an event comment (a particle line, any prefix of one, a prefix of the format line):
   TypeError, with and without a final newline - whatever precedes it *)
Theorem C07_trunc_last_line_not_comment :
  forall tok_float tok_int pdg_valid file first rest fmt attrs,
  file = first :: rest -> oscar_format first = Ok (fmt, attrs) -> std_format fmt ->
  nth 0 (last file []) "" <> "#" ->
  load tok_float tok_int pdg_valid None file SelAll = Err TypeError /\
  (rest <> [] -> load_nonl tok_float tok_int pdg_valid None file SelAll = Err TypeError).
Proof. exact last_line_not_comment. Qed.
Print Assumptions C07_trunc_last_line_not_comment.

(* one (or more) particle lines lost anywhere: fewer lines than the event headers declare *)
Theorem C07_lost_line :
  forall tok_float tok_int pdg_valid d fmt attrs evs decls nlast,
  hdr_ok d fmt attrs -> evs <> [] -> lwf_events tok_float tok_int pdg_valid fmt attrs 0 decls evs ->
  wf_last tok_int nlast (e_foot (last evs {| e_head := []; e_rows := []; e_foot := [] |})) ->
  (List.length (render_events evs) < total_decl decls)%nat ->
  load tok_float tok_int pdg_valid None (d_h1 d :: d_h2 d :: d_h3 d :: render_events evs) SelAll = Err IndexError.
Proof. exact lost_line. Qed.
Print Assumptions C07_lost_line.

(* one particle line duplicated anywhere: one line more than declared *)
Theorem C07_duplicated_line :
  forall tok_float tok_int pdg_valid d fmt attrs evs elast decls nlast,
  hdr_ok d fmt attrs -> lwf_events tok_float tok_int pdg_valid fmt attrs 0 decls (evs ++ [elast])%list ->
  wf_last tok_int nlast (e_foot elast) -> nlast = S (List.length evs) ->
  (List.length (render_events (evs ++ [elast])) = S (total_decl decls))%nat ->
  load tok_float tok_int pdg_valid None (d_h1 d :: d_h2 d :: d_h3 d :: render_events (evs ++ [elast])) SelAll
  = Err IndexError.
Proof. exact extra_line. Qed.
Print Assumptions C07_duplicated_line.

(* a well-formed file is an instance of the declared-count setting (non-vacuity of the two theorems above) *)
Theorem C07_wf_is_declared :
  forall tok_float tok_int pdg_valid fmt attrs evs i,
  wf_events tok_float tok_int pdg_valid fmt attrs i evs ->
  lwf_events tok_float tok_int pdg_valid fmt attrs i (map (fun e => List.length (e_rows e)) evs) evs.
Proof. exact wf_lwf. Qed.
Print Assumptions C07_wf_is_declared.

(* JETSCAPE: any file (any selection, any constructor filter) whose last line does not contain "sigmaGen" is rejected;
   every truncation that stops before that word of the trailer leaves such a last line *)
Theorem C07_jetscape_no_trailer :
  forall tok_float tok_int pdg_valid pdg_charge usqrt flt (file : list line) defstr sel,
  has "sigmaGen" (last file []) = false ->
  jload tok_float tok_int pdg_valid pdg_charge usqrt flt file defstr sel = Err ValueError.
Proof. exact jet_last_line_without_sigmaGen. Qed.
Print Assumptions C07_jetscape_no_trailer.

(* JETSCAPE, a particle line lost anywhere (fewer lines than the event headers declare): IndexError *)
Theorem C07_jetscape_lost_line :
  forall tok_float tok_int pdg_valid pdg_charge usqrt defstr h0 e0 evs trailer dc ds,
  is_count_line defstr h0 = false ->
  jl_events tok_float tok_int pdg_valid pdg_charge usqrt defstr 0 (dc :: ds) (e0 :: evs) ->
  is_trailer trailer = true -> is_count_line defstr trailer = false ->
  (S (List.length (je_rows e0)) + List.length (jrender_events evs) < jtotal (dc :: ds))%nat ->
  jload tok_float tok_int pdg_valid pdg_charge usqrt None (h0 :: jrender_events (e0 :: evs) ++ [trailer])%list defstr SelAll
  = Err IndexError.
Proof. exact jet_lost_line. Qed.
Print Assumptions C07_jetscape_lost_line.

(* JETSCAPE, a particle line duplicated anywhere (one line more than declared): IndexError *)
Theorem C07_jetscape_duplicated_line :
  forall tok_float tok_int pdg_valid pdg_charge usqrt defstr h0 e0 evs trailer dc ds,
  is_count_line defstr h0 = false ->
  jl_events tok_float tok_int pdg_valid pdg_charge usqrt defstr 0 (dc :: ds) (e0 :: evs) ->
  is_trailer trailer = true -> is_count_line defstr trailer = false ->
  (S (List.length (je_rows e0)) + List.length (jrender_events evs) = S (jtotal (dc :: ds)))%nat ->
  jload tok_float tok_int pdg_valid pdg_charge usqrt None (h0 :: jrender_events (e0 :: evs) ++ [trailer])%list defstr SelAll
  = Err IndexError.
Proof. exact jet_extra_line. Qed.
Print Assumptions C07_jetscape_duplicated_line.

(* C07 - truncated or damaged input is detected, never silently mis-loaded (Oscar family, loader model of C01).
   Proved at line level: a cut at an event boundary loads exactly the complete events before it; a cut right
   after an event header, a cut that ends in (any prefix of) a particle line or of the format line, a lost
   particle line and a duplicated particle line all fail to load.  NOT proved here (covered by the exhaustive
   byte-offset correspondence only): cuts inside an event-header / footer comment line (Oscar) and inside the trailer after
   the word sigmaGen (JETSCAPE) -
   hence the name C07_trunc_partial_* for the truncation theorems. *)
From Coq Require Import List String ZArith QArith Bool Arith.
From SX Require Import Lib.Strs Gen.GenParticleMap Model.Oscar Model.OscarDoc Model.Jetscape Model.JetscapeDoc Proofs.C01_Oscar
  Proofs.C07_Oscar Proofs.C07_Jetscape.
Import ListNotations.
Local Open Scope string_scope.

(* cut at an event boundary: the first m complete events, with matching counts *)
Theorem C07_trunc_partial_event_boundary :
  forall tok_float tok_int pdg_valid d fmt attrs m,
  wf tok_float tok_int pdg_valid d fmt attrs -> foot_labels tok_int 0 (d_events d) ->
  (1 <= m <= List.length (d_events d))%nat ->
  render (trunc m d) = firstn (3 + List.length (render_events (firstn m (d_events d)))) (render d) /\
  load tok_float tok_int pdg_valid None (render (trunc m d)) SelAll
    = Ok (expected tok_float tok_int pdg_valid (trunc m d) fmt attrs) /\
  l_events (expected tok_float tok_int pdg_valid (trunc m d) fmt attrs)
    = firstn m (l_events (expected tok_float tok_int pdg_valid d fmt attrs)) /\
  l_counts (expected tok_float tok_int pdg_valid (trunc m d) fmt attrs)
    = firstn m (l_counts (expected tok_float tok_int pdg_valid d fmt attrs)) /\
  l_nevents (expected tok_float tok_int pdg_valid (trunc m d) fmt attrs) = Z.of_nat m.
Proof. exact cut_at_event_boundary. Qed.
Print Assumptions C07_trunc_partial_event_boundary.

(* cut right after the header line of the next event (any declared count): IndexError *)
Theorem C07_trunc_partial_after_header :
  forall tok_float tok_int pdg_valid d fmt attrs evs (h : line) (dcl : nat),
  hdr_ok d fmt attrs -> wf_events tok_float tok_int pdg_valid fmt attrs 0 evs ->
  kind_scan h = SOut -> kind_loop h = KSkip ->
  (exists lt ct, nth_error h 2 = Some lt /\ nth_error h 4 = Some ct /\
                 tok_int lt = Some (zq (Z.of_nat (List.length evs))) /\ tok_int ct = Some (zq (Z.of_nat dcl))) ->
  nth 0 h "" = "#" -> mem_str "event" (removelast_s h) = true ->
  load tok_float tok_int pdg_valid None (d_h1 d :: d_h2 d :: d_h3 d :: render_events evs ++ [h])%list SelAll
  = Err IndexError.
Proof. exact cut_after_header. Qed.
Print Assumptions C07_trunc_partial_after_header.

(* the last line is not an event comment (a particle line, any prefix of one, a prefix of the format line):
   TypeError, with and without a final newline - whatever precedes it *)
Theorem C07_trunc_partial_last_line_not_comment :
  forall tok_float tok_int pdg_valid file first rest fmt attrs,
  file = first :: rest -> oscar_format first = Ok (fmt, attrs) -> std_format fmt ->
  nth 0 (last file []) "" <> "#" ->
  load tok_float tok_int pdg_valid None file SelAll = Err TypeError /\
  (rest <> [] -> load_nonl tok_float tok_int pdg_valid None file SelAll = Err TypeError).
Proof. exact last_line_not_comment. Qed.
Print Assumptions C07_trunc_partial_last_line_not_comment.

(* one (or more) particle lines lost anywhere: fewer lines than the event headers declare *)
Theorem C07_lost_line :
  forall tok_float tok_int pdg_valid d fmt attrs evs decls nlast,
  hdr_ok d fmt attrs -> evs <> [] -> lwf_events tok_float tok_int pdg_valid fmt attrs 0 decls evs ->
  wf_last tok_int nlast (e_foot (last evs {| e_head := []; e_rows := []; e_foot := [] |})) ->
  (List.length (render_events evs) < total_decl decls)%nat ->
  load tok_float tok_int pdg_valid None (d_h1 d :: d_h2 d :: d_h3 d :: render_events evs) SelAll = Err IndexError.
Proof. exact lost_line. Qed.
Print Assumptions C07_lost_line.

(* one particle line duplicated anywhere: one line more than declared *)
Theorem C07_duplicated_line :
  forall tok_float tok_int pdg_valid d fmt attrs evs elast decls nlast,
  hdr_ok d fmt attrs -> lwf_events tok_float tok_int pdg_valid fmt attrs 0 decls (evs ++ [elast])%list ->
  wf_last tok_int nlast (e_foot elast) -> nlast = S (List.length evs) ->
  (List.length (render_events (evs ++ [elast])) = S (total_decl decls))%nat ->
  load tok_float tok_int pdg_valid None (d_h1 d :: d_h2 d :: d_h3 d :: render_events (evs ++ [elast])) SelAll
  = Err IndexError.
Proof. exact extra_line. Qed.
Print Assumptions C07_duplicated_line.

(* a well-formed file is an instance of the declared-count setting (non-vacuity of the two theorems above) *)
Theorem C07_wf_is_declared :
  forall tok_float tok_int pdg_valid fmt attrs evs i,
  wf_events tok_float tok_int pdg_valid fmt attrs i evs ->
  lwf_events tok_float tok_int pdg_valid fmt attrs i (map (fun e => List.length (e_rows e)) evs) evs.
Proof. exact wf_lwf. Qed.
Print Assumptions C07_wf_is_declared.

(* JETSCAPE: any file (any selection, any constructor filter) whose last line does not contain "sigmaGen" is rejected;
   every truncation that stops before that word of the trailer leaves such a last line *)
Theorem C07_jetscape_trunc_partial_no_trailer :
  forall tok_float tok_int pdg_valid pdg_charge usqrt flt (file : list line) defstr sel,
  has "sigmaGen" (last file []) = false ->
  jload tok_float tok_int pdg_valid pdg_charge usqrt flt file defstr sel = Err ValueError.
Proof. exact jet_last_line_without_sigmaGen. Qed.
Print Assumptions C07_jetscape_trunc_partial_no_trailer.

(* JETSCAPE, a particle line lost anywhere (fewer lines than the event headers declare): IndexError *)
Theorem C07_jetscape_lost_line :
  forall tok_float tok_int pdg_valid pdg_charge usqrt defstr h0 e0 evs trailer dc ds,
  is_count_line defstr h0 = false ->
  jl_events tok_float tok_int pdg_valid pdg_charge usqrt defstr 0 (dc :: ds) (e0 :: evs) ->
  is_trailer trailer = true -> is_count_line defstr trailer = false ->
  (S (List.length (je_rows e0)) + List.length (jrender_events evs) < jtotal (dc :: ds))%nat ->
  jload tok_float tok_int pdg_valid pdg_charge usqrt None (h0 :: jrender_events (e0 :: evs) ++ [trailer])%list defstr SelAll
  = Err IndexError.
Proof. exact jet_lost_line. Qed.
Print Assumptions C07_jetscape_lost_line.

(* JETSCAPE, a particle line duplicated anywhere (one line more than declared): IndexError *)
Theorem C07_jetscape_duplicated_line :
  forall tok_float tok_int pdg_valid pdg_charge usqrt defstr h0 e0 evs trailer dc ds,
  is_count_line defstr h0 = false ->
  jl_events tok_float tok_int pdg_valid pdg_charge usqrt defstr 0 (dc :: ds) (e0 :: evs) ->
  is_trailer trailer = true -> is_count_line defstr trailer = false ->
  (S (List.length (je_rows e0)) + List.length (jrender_events evs) = S (jtotal (dc :: ds)))%nat ->
  jload tok_float tok_int pdg_valid pdg_charge usqrt None (h0 :: jrender_events (e0 :: evs) ++ [trailer])%list defstr SelAll
  = Err IndexError.
Proof. exact jet_extra_line. Qed.
Print Assumptions C07_jetscape_duplicated_line.

(* C17 source tie - the hand model Model/Lattice.v (addressing, arithmetic, CSV) equals the method bodies of
   src/sparkx/Lattice3D.py as regenerated on every run (Gen/GenLatticeMethods.v by tools/py2coq/gen_lattice_methods.py over the
   runtime Model/LatticeRt.v).  Only statements closed by [exact]; proofs in Proofs/Lattice_Source.v.
   V: the grid values; cx: what numpy / scipy contribute as given (operations on grid values, np.linspace and interpn as
   oracles); to_model: the runtime object as the model's lattice; wf: node counts = lengths of the axis arrays = grid shape;
   made: wf and the axis arrays are np.linspace of the extents, node counts positive (what __init__ leaves); with_cells s g: s
   after stores into self.grid_; new_with s g: the new object an operator returns; wmap / wlift / zz3: result conversions
   (model indices are nat, Python's are int). *)
From Coq Require Import List ZArith QArith Qabs Bool String.
From SX Require Import Lib.Py Lib.QCheck Gen.GenLattice Model.Lattice Model.Smear Model.LatticeRt Gen.GenLatticeMethods
     Proofs.Lattice_Source.
Import ListNotations.

(* __is_valid_index *)
Theorem C17_source_is_valid_index :
  forall (V : Type) (s : lobj V) (i j k : Z),
  wf V s -> gen_p_is_valid_index V s i j k = is_valid_index V (to_model V s) i j k.
Proof. exact source_is_valid_index. Qed.
Print Assumptions C17_source_is_valid_index.

(* set_value_by_index: the model's result (WOk / Warned), the object is self with the model's cells *)
Theorem C17_source_set_value_by_index :
  forall (V : Type) (s : lobj V) (i j k : Z) (v : V),
  wf V s ->
  gen_set_value_by_index V s i j k v =
  wmap (fun L' : lattice V => (with_cells V s (grid L'), tt)) (set_value_by_index V (to_model V s) i j k v).
Proof. exact source_set_value_by_index. Qed.
Print Assumptions C17_source_set_value_by_index.

(* get_value_by_index *)
Theorem C17_source_get_value_by_index :
  forall (V : Type) (s : lobj V) (i j k : Z),
  wf V s -> gen_get_value_by_index V s i j k = get_value_by_index V (to_model V s) i j k.
Proof. exact source_get_value_by_index. Qed.
Print Assumptions C17_source_get_value_by_index.

(* __get_index, for ANY list and ANY float value (NaN, +-inf included): ValueError outside, IndexError on an empty array *)
Theorem C17_source_get_index :
  forall (V : Type) (s : lobj V) (value : fv) (values : list Q),
  gen_p_get_index V s value values = wlift (rmap Z.of_nat (get_index value values)).
Proof. exact source_get_index. Qed.
Print Assumptions C17_source_get_index.

(* __get_index_nearest_neighbor (|value - values|, first minimum) *)
Theorem C17_source_get_index_nearest_neighbor :
  forall (V : Type) (s : lobj V) (value : fv) (values : list Q),
  gen_p_get_index_nearest_neighbor V s value values = wlift (rmap Z.of_nat (get_index_nn value values)).
Proof. exact source_get_index_nearest_neighbor. Qed.
Print Assumptions C17_source_get_index_nearest_neighbor.

(* __find_closest_index (|values - value|; all distances NaN or inf: position 0; empty: ValueError) *)
Theorem C17_source_find_closest_index :
  forall (V : Type) (s : lobj V) (value : fv) (values : list Q),
  gen_p_find_closest_index V s value values = wlift (rmap Z.of_nat (find_closest_index value values)).
Proof. exact source_find_closest_index. Qed.
Print Assumptions C17_source_find_closest_index.

(* __get_indices: x, then y, then z; the first failing lookup raises *)
Theorem C17_source_get_indices :
  forall (V : Type) (s : lobj V) (x y z : fv),
  gen_p_get_indices V s x y z = wlift (rmap zz3 (indices3 V get_index (to_model V s) x y z)).
Proof. exact source_get_indices. Qed.
Print Assumptions C17_source_get_indices.

(* __get_indices_nearest_neighbor *)
Theorem C17_source_get_indices_nearest_neighbor :
  forall (V : Type) (s : lobj V) (x y z : fv),
  gen_p_get_indices_nearest_neighbor V s x y z = wlift (rmap zz3 (indices3 V get_index_nn (to_model V s) x y z)).
Proof. exact source_get_indices_nearest_neighbor. Qed.
Print Assumptions C17_source_get_indices_nearest_neighbor.

(* set_value *)
Theorem C17_source_set_value :
  forall (V : Type) (s : lobj V) (x y z : fv) (v : V),
  wf V s ->
  gen_set_value V s x y z v =
  wmap (fun L' : lattice V => (with_cells V s (grid L'), tt)) (set_value V (to_model V s) x y z v).
Proof. exact source_set_value. Qed.
Print Assumptions C17_source_set_value.

(* set_value_nearest_neighbor *)
Theorem C17_source_set_value_nearest_neighbor :
  forall (V : Type) (s : lobj V) (x y z : fv) (v : V),
  wf V s ->
  gen_set_value_nearest_neighbor V s x y z v =
  wmap (fun L' : lattice V => (with_cells V s (grid L'), tt))
    (set_value_nearest_neighbor V (to_model V s) x y z v).
Proof. exact source_set_value_nearest_neighbor. Qed.
Print Assumptions C17_source_set_value_nearest_neighbor.

(* get_value *)
Theorem C17_source_get_value :
  forall (V : Type) (s : lobj V) (x y z : fv),
  wf V s -> gen_get_value V s x y z = get_value V (to_model V s) x y z.
Proof. exact source_get_value. Qed.
Print Assumptions C17_source_get_value.

(* get_value_nearest_neighbor *)
Theorem C17_source_get_value_nearest_neighbor :
  forall (V : Type) (s : lobj V) (x y z : fv),
  wf V s -> gen_get_value_nearest_neighbor V s x y z = get_value_nearest_neighbor V (to_model V s) x y z.
Proof. exact source_get_value_nearest_neighbor. Qed.
Print Assumptions C17_source_get_value_nearest_neighbor.

(* __get_value(index, values, num_points) where num_points is the length of values (as get_coordinates calls it) *)
Theorem C17_source_get_value_at :
  forall (V : Type) (s : lobj V) (index : Z) (values : list Q) (num_points : Z) (lo hi : Q),
  num_points = Z.of_nat (Datatypes.length values) ->
  gen_p_get_value V s index values num_points =
  wlift (coord1 index {| amin := lo; amax := hi; avals := values |}).
Proof. exact source_get_value_at. Qed.
Print Assumptions C17_source_get_value_at.

(* get_coordinates *)
Theorem C17_source_get_coordinates :
  forall (V : Type) (s : lobj V) (i j k : Z),
  wf V s -> gen_get_coordinates V s i j k = wlift (get_coordinates V (to_model V s) i j k).
Proof. exact source_get_coordinates. Qed.
Print Assumptions C17_source_get_coordinates.

(* __is_within_range *)
Theorem C17_source_is_within_range :
  forall (V : Type) (s : lobj V) (x y z : fv),
  gen_p_is_within_range V s x y z = is_within_range V (to_model V s) x y z.
Proof. exact source_is_within_range. Qed.
Print Assumptions C17_source_is_within_range.

(* find_closest_indices: warns outside the extents and still answers *)
Theorem C17_source_find_closest_indices :
  forall (V : Type) (s : lobj V) (x y z : fv),
  gen_find_closest_indices V s x y z = wmap zz3 (find_closest_indices V (to_model V s) x y z).
Proof. exact source_find_closest_indices. Qed.
Print Assumptions C17_source_find_closest_indices.

(* interpolate_value: TypeError outside the extents, else scipy's interpn (oracle c_interpn of the context, as a function of the model lattice: interpn_of) *)
Theorem C17_source_interpolate_value :
  forall (V : Type) (cx : npctx V) (s : lobj V) (x y z : fv) (method : string),
  wf V s ->
  gen_interpolate_value V cx s x y z method =
  wlift (interpolate_value V (interpn_of V cx method) (to_model V s) x y z).
Proof. exact source_interpolate_value. Qed.
Print Assumptions C17_source_interpolate_value.

(* interpolate_value(..., method="nearest") *)
Theorem C17_source_interpolate_default :
  gen_default_interpolate_value_method = "nearest"%string.
Proof. exact source_interpolate_default. Qed.
Print Assumptions C17_source_interpolate_default.

(* __init__ with positive node counts: the object init_obj (Proofs/Lattice_Source.v: extents, counts, |volume / nodes|, the three np.linspace arrays, zero grid, n_sigma defaults 3, spacings values[1] - values[0] or None, densities) *)
Theorem C17_source_init :
  forall (V : Type) (cx : npctx V) (x0 x1 y0 y1 z0 z1 : Q) (nx ny nz : Z) (sx sy sz : option Q),
  linspace_len V cx ->
  (0 < nx)%Z ->
  (0 < ny)%Z ->
  (0 < nz)%Z ->
  gen_init V cx x0 x1 y0 y1 z0 z1 nx ny nz sx sy sz = WOk (init_obj V cx x0 x1 y0 y1 z0 z1 nx ny nz sx sy sz).
Proof. exact source_init. Qed.
Print Assumptions C17_source_init.

(* __init__: a zero node count raises ZeroDivisionError (cell volume, Python floats), else a negative one ValueError (np.linspace) *)
Theorem C17_source_init_errors :
  forall (V : Type) (cx : npctx V) (x0 x1 y0 y1 z0 z1 : Q) (nx ny nz : Z) (sx sy sz : option Q),
  ((nx * ny * nz)%Z = 0%Z -> gen_init V cx x0 x1 y0 y1 z0 z1 nx ny nz sx sy sz = WErr ZeroDivisionError) /\
  ((nx * ny * nz)%Z <> 0%Z ->
   (nx < 0)%Z \/ (ny < 0)%Z \/ (nz < 0)%Z -> gen_init V cx x0 x1 y0 y1 z0 z1 nx ny nz sx sy sz = WErr ValueError).
Proof. exact source_init_errors. Qed.
Print Assumptions C17_source_init_errors.

(* __init__(..., n_sigma_x=None, n_sigma_y=None, n_sigma_z=None) *)
Theorem C17_source_init_defaults :
  gen_default_init_n_sigma_x = None /\ gen_default_init_n_sigma_y = None /\ gen_default_init_n_sigma_z = None.
Proof. exact source_init_defaults. Qed.
Print Assumptions C17_source_init_defaults.

(* the constructed object satisfies the invariants the other theorems assume (wf: node counts = array lengths = grid shape; made: arrays are np.linspace of the extents, counts positive) *)
Theorem C17_source_init_made :
  forall (V : Type) (cx : npctx V) (x0 x1 y0 y1 z0 z1 : Q) (nx ny nz : Z) (sx sy sz : option Q),
  linspace_len V cx ->
  (0 < nx)%Z -> (0 < ny)%Z -> (0 < nz)%Z -> made V cx (init_obj V cx x0 x1 y0 y1 z0 z1 nx ny nz sx sy sz).
Proof. exact source_init_made. Qed.
Print Assumptions C17_source_init_made.

(* the constructed object as a model lattice; spacing_x_ is Model/Smear.v's spacing of the x axis *)
Theorem C17_source_init_model :
  forall (V : Type) (cx : npctx V) (x0 x1 y0 y1 z0 z1 : Q) (nx ny nz : Z) (sx sy sz : option Q),
  to_model V (init_obj V cx x0 x1 y0 y1 z0 z1 nx ny nz sx sy sz) =
  {|
    ax := {| amin := x0; amax := x1; avals := c_linspace cx x0 x1 nx |};
    ay := {| amin := y0; amax := y1; avals := c_linspace cx y0 y1 ny |};
    az := {| amin := z0; amax := z1; avals := c_linspace cx z0 z1 nz |};
    grid := fun _ _ _ : nat => c_zero cx
  |} /\
  spacing_x_ (init_obj V cx x0 x1 y0 y1 z0 z1 nx ny nz sx sy sz) =
  spacing (ax (to_model V (init_obj V cx x0 x1 y0 y1 z0 z1 nx ny nz sx sy sz))).
Proof. exact source_init_model. Qed.
Print Assumptions C17_source_init_model.

(* __operate_on_lattice(other, operation) for an element-wise numpy operation f: TypeError for a non-lattice, ValueError for another shape, else a NEW object (constructor on self's extents and counts, default n_sigma) with the model's cells *)
Theorem C17_source_operate_on_lattice :
  forall (V : Type) (cx : npctx V) (s : lobj V) (other : pyval V) (op : grid3 V -> grid3 V -> result (grid3 V))
    (f : V -> V -> V),
  linspace_len V cx ->
  made V cx s ->
  operand_wf V other ->
  (forall a b : grid3 V, op a b = np_binop f a b) ->
  gen_p_operate_on_lattice V cx s other op =
  wlift
    (rmap (fun L' : lattice V => new_with V cx s (grid L')) (operate V f (to_model V s) (operand_of V other))).
Proof. exact source_operate_on_lattice. Qed.
Print Assumptions C17_source_operate_on_lattice.

(* __add__ *)
Theorem C17_source_add :
  forall (V : Type) (cx : npctx V) (s : lobj V) (other : pyval V),
  linspace_len V cx ->
  made V cx s ->
  operand_wf V other ->
  gen_add V cx s other =
  wlift
    (rmap (fun L' : lattice V => new_with V cx s (grid L'))
       (operate V (c_add cx) (to_model V s) (operand_of V other))).
Proof. exact source_add. Qed.
Print Assumptions C17_source_add.

(* __sub__ *)
Theorem C17_source_sub :
  forall (V : Type) (cx : npctx V) (s : lobj V) (other : pyval V),
  linspace_len V cx ->
  made V cx s ->
  operand_wf V other ->
  gen_sub V cx s other =
  wlift
    (rmap (fun L' : lattice V => new_with V cx s (grid L'))
       (operate V (c_sub cx) (to_model V s) (operand_of V other))).
Proof. exact source_sub. Qed.
Print Assumptions C17_source_sub.

(* __mul__ *)
Theorem C17_source_mul :
  forall (V : Type) (cx : npctx V) (s : lobj V) (other : pyval V),
  linspace_len V cx ->
  made V cx s ->
  operand_wf V other ->
  gen_mul V cx s other =
  wlift
    (rmap (fun L' : lattice V => new_with V cx s (grid L'))
       (operate V (c_mul cx) (to_model V s) (operand_of V other))).
Proof. exact source_mul. Qed.
Print Assumptions C17_source_mul.

(* __truediv__ *)
Theorem C17_source_truediv :
  forall (V : Type) (cx : npctx V) (s : lobj V) (other : pyval V),
  linspace_len V cx ->
  made V cx s ->
  operand_wf V other ->
  gen_truediv V cx s other =
  wlift
    (rmap (fun L' : lattice V => new_with V cx s (grid L'))
       (operate V (c_div cx) (to_model V s) (operand_of V other))).
Proof. exact source_truediv. Qed.
Print Assumptions C17_source_truediv.

(* rescale *)
Theorem C17_source_rescale :
  forall (V : Type) (cx : npctx V) (s : lobj V) (factor : V),
  gen_rescale V cx s factor = WOk (with_cells V s (grid (rescale V (c_mul cx) (to_model V s) factor)), tt).
Proof. exact source_rescale. Qed.
Print Assumptions C17_source_rescale.

(* average(self, others...): per operand the type test then the shape test (self first); np.mean over the stacked grids = c_sum / count, cell by cell (pointwise: no function extensionality) *)
Theorem C17_source_average :
  forall (V : Type) (cx : npctx V) (s : lobj V) (others : list (pyval V)),
  linspace_len V cx ->
  made V cx s ->
  Forall (operand_wf V) others ->
  match average V (c_sum cx) (c_divn cx) (to_model V s) (map (operand_of V) others) with
  | Ok L' =>
      exists g' : nat -> nat -> nat -> V,
        gen_average V cx s others = WOk (new_with V cx s g') /\ (forall i j k : nat, g' i j k = grid L' i j k)
  | Err e => gen_average V cx s others = WErr e
  end.
Proof. exact source_average. Qed.
Print Assumptions C17_source_average.

(* reset: every node becomes the int 0 as numpy stores it, nothing else changes *)
Theorem C17_source_reset :
  forall (V : Type) (cx : npctx V) (s : lobj V) (nx ny nz : nat),
  gshape (grid_ s) = (nx, ny, nz) ->
  exists g' : nat -> nat -> nat -> V,
    gen_reset V cx s = WOk (with_cells V s g', tt) /\
    (forall a b c : nat,
     ((a < nx)%nat /\ (b < ny)%nat /\ (c < nz)%nat -> g' a b c = c_of_Z cx 0) /\
     (~ ((a < nx)%nat /\ (b < ny)%nat /\ (c < nz)%nat) -> g' a b c = gcell (grid_ s) a b c)).
Proof. exact source_reset. Qed.
Print Assumptions C17_source_reset.

(* a store into self.grid_ keeps the invariants *)
Theorem C17_source_stores_keep_wf :
  forall (V : Type) (cx : npctx V) (s : lobj V) (g : nat -> nat -> nat -> V),
  (wf V s -> wf V (with_cells V s g)) /\ (made V cx s -> made V cx (with_cells V s g)).
Proof. exact source_stores_keep_wf. Qed.
Print Assumptions C17_source_stores_keep_wf.

(* save_to_csv: the delimiter and the model's row of tokens (six extents, three counts as floats, the grid in C order), formatted by the oracle fmt (savetxt's default) *)
Theorem C17_source_save_to_csv :
  forall (tok : Type) (fmt : fv -> tok) (cx : npctx fv) (s : lobj fv),
  wf fv s -> gen_save_to_csv tok fmt cx s = WOk {| cdelim := ","; crow := save tok fmt (pstate_of s) |}.
Proof. exact source_save_to_csv. Qed.
Print Assumptions C17_source_save_to_csv.

(* load_from_csv on the rows of load_domain (not a one-token row, finite extents, count fields not +-inf and not zero): the model's error, or an object whose persisted state is the model's and which satisfies the invariants *)
Theorem C17_source_load_from_csv :
  forall (tok : Type) (parse : tok -> fv) (cx : npctx fv) (fs : csvfile tok),
  linspace_len fv cx ->
  cdelim fs = ","%string ->
  load_domain (map parse (crow fs)) ->
  match load tok parse (crow fs) with
  | Ok st => exists o : lobj fv, gen_load_from_csv tok parse cx fs = WOk o /\ pstate_of o = st /\ made fv cx o
  | Err e => gen_load_from_csv tok parse cx fs = WErr e
  end.
Proof. exact source_load_from_csv. Qed.
Print Assumptions C17_source_load_from_csv.

(* non-vacuity: a context (exact linspace) and a 3 x 2 x 2 lattice with negative and mixed-sign axes on which the hypotheses hold, and what the regenerated methods compute there *)
Theorem C17_source_example :
  linspace_len fv ex_cx /\
  match gen_init fv ex_cx 0 2 (-3) (-2) 0 (1 # 2) 3 2 2 None None None with
  | WOk o =>
      made fv ex_cx o /\
      x_values_ o = [0; 1; 2] /\
      spacing_x_ o = Some 1 /\
      cell_volume_ o == 1 # 12 /\
      match gen_set_value fv o (Fin (3 # 2)) (Fin (-5 # 2)) (Fin (1 # 4)) (Fin 7) with
      | WOk (o', _) =>
          (gen_get_value fv o' (Fin 1) (Fin (-3)) (Fin 0), gen_get_value fv o' (Fin 2) (Fin (-2)) (Fin (1 # 2)),
           gen_get_value fv o' (Fin 3) (Fin (-3)) (Fin 0), gen_get_value_by_index fv o' (-1) 0 0,
           gen_find_closest_indices fv o' (Fin (3 # 2)) (Fin (-2)) (Fin 5), gen_get_coordinates fv o' 2 1 1) =
          (WOk (Some (Fin 7)), WOk (Some (Fin 0)), WErr ValueError, Warned None, Warned (1%Z, 1%Z, 1%Z),
           WOk (2, -2, 1 # 2))
      | _ => False
      end
  | _ => False
  end.
Proof. exact source_example. Qed.
Print Assumptions C17_source_example.

(* C19 source tie - the hand model Model/Centrality.v (on which the C19 theorems are stated) equals the method bodies of
   src/sparkx/CentralityClasses.py as regenerated into Gen/GenCentralityMethods.v on every run
   (tools/py2coq/gen_centrality_methods.py, runtime Model/CentralityRt.v).  Only statements closed by [exact]; proofs
   and the closed forms create_model / self_of / avgs_of / warns_model / out_model in Proofs/Centrality_Source.v.
   T, leb, t0: the multiplicities with their order and zero (as in Properties/C19.v); F, f_*: the averages - np.mean,
   np.sqrt and the float arithmetic on them are uninterpreted (universally quantified).  pyarg / pystr: an argument
   before its isinstance test (list, 1-D ndarray, other / str, other). *)
From Coq Require Import List ZArith QArith Bool String.
From SX Require Import Lib.Py Gen.GenCentrality Model.Centrality Model.CentralityRt Gen.GenCentralityMethods
  Proofs.Centrality_Source.
Import ListNotations.

(* __init__: TypeError unless both arguments are a list or an ndarray; otherwise the warnings are [0] "not sorted"
   iff the edges are not ascending and [1] "duplicates" iff the sorted edges repeat a value, and the result is the
   hand model's: the same exception class on the same inputs (ValueError for an edge outside [0,100] - tested on the
   sorted list BEFORE de-duplication -, for fewer than 4 events, for a negative multiplicity; IndexError for no
   edges), else the object with centrality_bins_ = clean edges, dNchdetaMin_/Max_ = dmin/dmax of the model and the
   averages avgs_of *)
Theorem C19_source_init :
  forall (T F : Type) (leb : T -> T -> bool) (t0 : T) (f_mean : list T -> F) (f_sqrt : F -> F)
         (f_add f_sub f_div : F -> F -> F) (f_pow : F -> Z -> F) (f_lit : Q -> F)
         (em : pyarg T) (cb : pyarg Q),
  gen_init T F leb t0 f_mean f_sqrt f_add f_sub f_div f_pow f_lit em cb =
    match arg_seq em, arg_seq cb with
    | Some sample, Some edges =>
      (warns_model edges,
       rbind (construct T leb t0 sample edges)
             (fun st => Ok (self_of T F leb f_mean f_sqrt f_add f_sub f_div f_pow f_lit sample st)))
    | _, _ => ([], Err TypeError)
    end.
Proof. exact source_init. Qed.
Print Assumptions C19_source_init.

(* __create_centrality_classes on the object __init__ hands over (attributes set, the four result lists empty):
   size check, negative multiplicity, edges[0], then bounds of the model over the descending record *)
Theorem C19_source_create :
  forall (T F : Type) (leb : T -> T -> bool) (t0 : T) (f_mean : list T -> F) (f_sqrt : F -> F)
         (f_add f_sub f_div : F -> F -> F) (f_pow : F -> Z -> F) (f_lit : Q -> F)
         (sample : list T) (bs : list Q),
  gen_create_centrality_classes T F leb t0 f_mean f_sqrt f_add f_sub f_div f_pow f_lit (self_before T F sample bs)
    = create_model T F leb t0 f_mean f_sqrt f_add f_sub f_div f_pow f_lit sample bs.
Proof. exact source_create. Qed.
Print Assumptions C19_source_create.

(* ... and on an object whose attributes were never assigned *)
Theorem C19_source_create_unset :
  forall (T F : Type) (leb : T -> T -> bool) (t0 : T) (f_mean : list T -> F) (f_sqrt : F -> F)
         (f_add f_sub f_div : F -> F -> F) (f_pow : F -> Z -> F) (f_lit : Q -> F),
  gen_create_centrality_classes T F leb t0 f_mean f_sqrt f_add f_sub f_div f_pow f_lit cs_new = Err AttributeError.
Proof. exact source_create_unset. Qed.
Print Assumptions C19_source_create_unset.

(* get_centrality_class is lookup of the model on the stored minima, for EVERY object and query (including the
   fall-through -1 and the index errors on an empty list) *)
Theorem C19_source_get :
  forall (T F : Type) (leb : T -> T -> bool) (self : cself T F) (x : T),
  gen_get_centrality_class T F leb self x =
    match dNchdetaMin_ self with
    | None => Err AttributeError
    | Some mins => lookup T leb mins x
    end.
Proof. exact source_get. Qed.
Print Assumptions C19_source_get.

(* output_centrality_classes on an object of the shape __init__ builds: whatever the file held, it now holds the
   header and one line "e_j - e_(j+1) min_j max_j avg_j err_j" for every class j EXCEPT THE LAST ONE *)
Theorem C19_source_output :
  forall (T F : Type) (t0 : T) (f_lit : Q -> F) (em : option (list T)) (bs : list Q) (mn : list (ext T))
         (mx : list T) (av er : list F) (fs : file T F) (name : string),
  shaped T F bs mn mx av er ->
  gen_output_centrality_classes T F (CSelf em (Some bs) (Some mn) (Some mx) (Some av) (Some er)) fs (PyStr name)
    = (Some (out_model T F t0 f_lit bs mn mx av er), Ok tt).
Proof. exact source_output. Qed.
Print Assumptions C19_source_output.

Theorem C19_source_output_type :
  forall (T F : Type) (self : cself T F) (fs : file T F),
  gen_output_centrality_classes T F self fs PyNoStr = (fs, Err TypeError).
Proof. exact source_output_type. Qed.
Print Assumptions C19_source_output_type.

(* the hypothesis of C19_source_output holds for every object that __init__ returns *)
Theorem C19_source_init_shaped :
  forall (T F : Type) (leb : T -> T -> bool) (t0 : T) (f_mean : list T -> F) (f_sqrt : F -> F)
         (f_add f_sub f_div : F -> F -> F) (f_pow : F -> Z -> F) (f_lit : Q -> F)
         (sample : list T) (edges : list Q) (st : cstate T),
  construct T leb t0 sample edges = Ok st ->
  shaped T F (bins st) (dmin st) (dmax st)
    (fst (avgs_of T F leb f_mean f_sqrt f_add f_sub f_div f_pow f_lit sample (bins st)))
    (snd (avgs_of T F leb f_mean f_sqrt f_add f_sub f_div f_pow f_lit sample (bins st))).
Proof. exact source_init_shaped. Qed.
Print Assumptions C19_source_init_shaped.

(* what Gen/GenCentrality.v (gen_centrality.py) extracts, spelled out: the hand model contains these through it *)
Theorem C19_source_constants :
  gen_min_events = 4%Z
  /\ (forall N e, gen_rank N e = Qtrunc (inject_Z N * e / 100)%Q)
  /\ (forall T (record : list T) a b, gen_max_entry T record a b = pyget record a)
  /\ (forall T (record : list T) a b,
        gen_min_entry T record a b = if (0 <? b)%Z then rmap Val (pyget record (b - 1)) else Ok Inf).
Proof. exact source_constants. Qed.
Print Assumptions C19_source_constants.

(* non-vacuity: the regenerated methods run on concrete calls (Z multiplicities; exact rational averages with the
   identity in place of np.sqrt): unsorted + duplicated edges given as an ndarray, the lookup, the file, an empty
   first class (+inf), too few events, an edge above 100 (after the "not sorted" warning), a wrong argument type *)
Theorem C19_source_example :
  ex_init (PyList [3; 1; 2; 2; 5; 0; 7; 8]%Z) (PyArray [0; 50; 100; 50]%Q) = ([0; 1]%nat, Ok ex_self)
  /\ map (gen_get_centrality_class Z Q Z.leb ex_self) [9; 3; 2; 0]%Z = [Ok 0; Ok 0; Ok 1; Ok 1]%Z
  /\ gen_output_centrality_classes Z Q ex_self None (PyStr "centrality.txt")
     = (Some [ [PS "# CentralityMin CentralityMax dNchdEtaMin dNchdEtaMax dNchdEtaAvg dNchdEtaAvgErr"%string];
               [PQ 0; PS " - "%string; PQ 50; PS " "%string; PE (Val 3%Z); PS " "%string; PT 8%Z; PS " "%string;
                PF (21 # 4); PS " "%string; PF (115 # 12)] ], Ok tt)
  /\ ex_init (PyList [1; 2; 3; 4]%Z) (PyList [0; 10; 100]%Q)
     = ([], Ok (CSelf (Some [1; 2; 3; 4]%Z) (Some [0; 10; 100]%Q) (Some [Inf; Val 1%Z]) (Some [4; 4]%Z)
                      (Some [0; 5 # 2]%Q) (Some [0; 5 # 3]%Q)))
  /\ ex_init (PyList [1; 2; 3]%Z) (PyList [0; 100]%Q) = ([], Err ValueError)
  /\ ex_init (PyList [1; 2; 3; 4]%Z) (PyList [100; 0; 101]%Q) = ([0]%nat, Err ValueError)
  /\ ex_init PyOther (PyList [0; 100]%Q) = ([], Err TypeError).
Proof. exact source_example. Qed.
Print Assumptions C19_source_example.

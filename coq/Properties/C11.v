(* C11 - Q-cumulant flow equals the defining multi-particle azimuthal correlators.
   Statements only; proofs in Proofs/C11_*.v about Gen/GenQCumulant.v (regenerated from QCumulantFlow.py on
   every run) and the hand model Model/QCumulant.v.  K is any commutative ring; a particle enters through
   z = exp(i n phi) with z * conj z = 1; an event carries the unit rho of the random reaction-plane rotation. *)
From Coq Require Import String ZArith Ring_theory Reals RealField Bool List.
From SX Require Import Lib.KRing Lib.Cpx Lib.Distinct Gen.GenQCumulant Model.QCumulant
  Proofs.C11_Closed Proofs.C11_Aux Proofs.C11_Corr Proofs.C11_Diff Proofs.C11_Reals Proofs.C11_Main.
Import ListNotations.

(* the definition: cons-recursion of the sum over tuples of distinct positions (spec sanity) *)
Theorem C11_dsum2_cons :
  forall C c0 c1 cadd cmul csub copp (cj : C -> C), ring_theory c0 c1 cadd cmul csub copp (@eq C) ->
  forall a b z l,
  dsum2 c0 c1 cadd cmul cj a b (z :: l) =
  cadd (cadd (dsum2 c0 c1 cadd cmul cj a b l)
             (cmul (cmul (knat c0 c1 cadd a) z) (dsum2 c0 c1 cadd cmul cj (pred a) b l)))
       (cmul (cmul (knat c0 c1 cadd b) (cj z)) (dsum2 c0 c1 cadd cmul cj a (pred b) l)).
Proof. exact dsum2_cons. Qed.
Print Assumptions C11_dsum2_cons.

(* <<2>>, <<4>>, <<6>>: any number of events, any multiplicities, unit-modulus entries, any unit rotations *)
Theorem C11_corr2 :
  forall K k0 k1 kadd kmul ksub kopp kdiv kleb kltb krpow, ring_theory k0 k1 kadd kmul ksub kopp (@eq K) ->
  forall P zof inbin ispoi evs, Forall (good K k0 k1 kadd kmul ksub kopp P zof) evs ->
  corr2 K k0 k1 kadd kmul ksub kopp kdiv kleb kltb krpow P zof inbin ispoi evs
  = kdiv (spec_num K k0 k1 kadd kmul ksub kopp P zof 1 evs) (spec_den K k0 k1 kadd P 1 evs).
Proof. exact corr2_ok. Qed.
Print Assumptions C11_corr2.

Theorem C11_corr4 :
  forall K k0 k1 kadd kmul ksub kopp kdiv kleb kltb krpow, ring_theory k0 k1 kadd kmul ksub kopp (@eq K) ->
  forall P zof inbin ispoi evs, Forall (good K k0 k1 kadd kmul ksub kopp P zof) evs ->
  corr4 K k0 k1 kadd kmul ksub kopp kdiv kleb kltb krpow P zof inbin ispoi evs
  = kdiv (spec_num K k0 k1 kadd kmul ksub kopp P zof 2 evs) (spec_den K k0 k1 kadd P 2 evs).
Proof. exact corr4_ok. Qed.
Print Assumptions C11_corr4.

Theorem C11_corr6 :
  forall K k0 k1 kadd kmul ksub kopp kdiv kleb kltb krpow, ring_theory k0 k1 kadd kmul ksub kopp (@eq K) ->
  forall P zof inbin ispoi evs, Forall (good K k0 k1 kadd kmul ksub kopp P zof) evs ->
  corr6 K k0 k1 kadd kmul ksub kopp kdiv kleb kltb krpow P zof inbin ispoi evs
  = kdiv (spec_num K k0 k1 kadd kmul ksub kopp P zof 3 evs) (spec_den K k0 k1 kadd P 3 evs).
Proof. exact corr6_ok. Qed.
Print Assumptions C11_corr6.

(* c_2 = <<2>>, c_4 = <<4>> - 2<<2>>^2, c_6 = <<6>> - 9<<2>><<4>> + 12<<2>>^3 *)
Theorem C11_cumulant4 :
  forall K k0 k1 kadd kmul ksub kopp kdiv kleb kltb krpow, ring_theory k0 k1 kadd kmul ksub kopp (@eq K) ->
  forall P zof inbin ispoi evs,
  let c2 := corr2 K k0 k1 kadd kmul ksub kopp kdiv kleb kltb krpow P zof inbin ispoi evs in
  let c4 := corr4 K k0 k1 kadd kmul ksub kopp kdiv kleb kltb krpow P zof inbin ispoi evs in
  cumulant2 K k0 k1 kadd kmul ksub kopp kdiv kleb kltb krpow P zof inbin ispoi evs = c2 /\
  cumulant4 K k0 k1 kadd kmul ksub kopp kdiv kleb kltb krpow P zof inbin ispoi evs
  = ksub c4 (kmul (kz k0 k1 kadd kmul kopp 2) (kmul c2 c2)).
Proof. exact p_C11_cumulant4. Qed.
Print Assumptions C11_cumulant4.

Theorem C11_cumulant6 :
  forall K k0 k1 kadd kmul ksub kopp kdiv kleb kltb krpow, ring_theory k0 k1 kadd kmul ksub kopp (@eq K) ->
  forall P zof inbin ispoi evs,
  let c2 := corr2 K k0 k1 kadd kmul ksub kopp kdiv kleb kltb krpow P zof inbin ispoi evs in
  let c4 := corr4 K k0 k1 kadd kmul ksub kopp kdiv kleb kltb krpow P zof inbin ispoi evs in
  let c6 := corr6 K k0 k1 kadd kmul ksub kopp kdiv kleb kltb krpow P zof inbin ispoi evs in
  cumulant6 K k0 k1 kadd kmul ksub kopp kdiv kleb kltb krpow P zof inbin ispoi evs
  = kadd (ksub c6 (kmul (kz k0 k1 kadd kmul kopp 9) (kmul c2 c4)))
         (kmul (kz k0 k1 kadd kmul kopp 12) (kmul c2 (kmul c2 c2))).
Proof. exact cumulant6_ok. Qed.
Print Assumptions C11_cumulant6.

(* v_n{2}^2 = c_2, v_n{4}^4 = -c_4, v_n{6}^6 = c_6/4:  the factors, the real branch, the `imaginary` modes *)
Theorem C11_factors :
  forall K k0 k1 kadd kmul ksub kopp kdiv kleb kltb krpow,
  gen_factor K k0 k1 kadd kmul ksub kopp kdiv kleb kltb krpow 2 = k1 /\
  gen_factor K k0 k1 kadd kmul ksub kopp kdiv kleb kltb krpow 4 = kopp k1 /\
  gen_factor K k0 k1 kadd kmul ksub kopp kdiv kleb kltb krpow 6 = kdiv k1 (kz k0 k1 kadd kmul kopp 4).
Proof. exact factor_values. Qed.
Print Assumptions C11_factors.

Theorem C11_vn :
  forall K k0 k1 kadd kmul ksub kopp kdiv kleb kltb krpow kk imag c,
  (forall x, kleb k0 x = true -> kpow k1 kmul (krpow 1%nat kk x) kk = x) ->
  kleb k0 (kmul (gen_factor K k0 k1 kadd kmul ksub kopp kdiv kleb kltb krpow kk) c) = true ->
  exists v, gen_ffc K k0 k1 kadd kmul ksub kopp kdiv kleb kltb krpow kk imag c = Some v /\
            kpow k1 kmul v kk = kmul (gen_factor K k0 k1 kadd kmul ksub kopp kdiv kleb kltb krpow kk) c.
Proof. exact ffc_power. Qed.
Print Assumptions C11_vn.

Theorem C11_vn_imaginary :
  forall K k0 k1 kadd kmul ksub kopp kdiv kleb kltb krpow, ring_theory k0 k1 kadd kmul ksub kopp (@eq K) ->
  forall kk c,
  let x := kmul (gen_factor K k0 k1 kadd kmul ksub kopp kdiv kleb kltb krpow kk) c in
  kleb k0 x = false ->
  gen_ffc K k0 k1 kadd kmul ksub kopp kdiv kleb kltb krpow kk "negative" c = Some (kopp (krpow 1%nat kk (kopp x))) /\
  gen_ffc K k0 k1 kadd kmul ksub kopp kdiv kleb kltb krpow kk "zero" c = Some k0 /\
  gen_ffc K k0 k1 kadd kmul ksub kopp kdiv kleb kltb krpow kk "nan" c = None.
Proof. exact ffc_imaginary. Qed.
Print Assumptions C11_vn_imaginary.

(* integrated_flow(...)[0] is the flow of the cumulant of the requested order; other orders / modes are rejected *)
Theorem C11_integrated :
  forall K k0 k1 kadd kmul ksub kopp kdiv kleb kltb krpow P zof inbin ispoi evs k imag,
  In imag gen_imag_allowed ->
  integrated_flow K k0 k1 kadd kmul ksub kopp kdiv kleb kltb krpow P zof inbin ispoi evs k imag =
    match k with
    | 2%nat => Some (gen_ffc K k0 k1 kadd kmul ksub kopp kdiv kleb kltb krpow 2 imag
                       (cumulant2 K k0 k1 kadd kmul ksub kopp kdiv kleb kltb krpow P zof inbin ispoi evs))
    | 4%nat => Some (gen_ffc K k0 k1 kadd kmul ksub kopp kdiv kleb kltb krpow 4 imag
                       (cumulant4 K k0 k1 kadd kmul ksub kopp kdiv kleb kltb krpow P zof inbin ispoi evs))
    | 6%nat => Some (gen_ffc K k0 k1 kadd kmul ksub kopp kdiv kleb kltb krpow 6 imag
                       (cumulant6 K k0 k1 kadd kmul ksub kopp kdiv kleb kltb krpow P zof inbin ispoi evs))
    | _ => None
    end.
Proof. exact integrated_ok. Qed.
Print Assumptions C11_integrated.

(* differential <<2'>> and <<4'>>: first particle a particle of interest in the bin, the others from the whole event *)
Theorem C11_diff2 :
  forall K k0 k1 kadd kmul ksub kopp kdiv kleb kltb krpow, ring_theory k0 k1 kadd kmul ksub kopp (@eq K) ->
  forall P zof inbin ispoi evs, Forall (good K k0 k1 kadd kmul ksub kopp P zof) evs ->
  dcorr2 K k0 k1 kadd kmul ksub kopp kdiv kleb kltb krpow P zof inbin ispoi evs
  = cdivr K kdiv (spec_dnum K k0 k1 kadd kmul ksub kopp P zof inbin ispoi 0 1 evs) (spec_dden K k0 k1 kadd P inbin ispoi 1 evs).
Proof. exact dcorr2_ok. Qed.
Print Assumptions C11_diff2.

Theorem C11_diff4 :
  forall K k0 k1 kadd kmul ksub kopp kdiv kleb kltb krpow, ring_theory k0 k1 kadd kmul ksub kopp (@eq K) ->
  forall P zof inbin ispoi evs, Forall (good K k0 k1 kadd kmul ksub kopp P zof) evs ->
  re (dcorr4 K k0 k1 kadd kmul ksub kopp kdiv kleb kltb krpow P zof inbin ispoi evs)
  = kdiv (re (spec_dnum K k0 k1 kadd kmul ksub kopp P zof inbin ispoi 1 2 evs)) (spec_dden K k0 k1 kadd P inbin ispoi 3 evs).
Proof. exact dcorr4_ok. Qed.
Print Assumptions C11_diff4.

(* d_n{4} = <<4'>> - 2<<2'>><<2>>, c_n{4} as in the integrated case *)
Theorem C11_dn4 :
  forall K k0 k1 kadd kmul ksub kopp kdiv kleb kltb krpow, ring_theory k0 k1 kadd kmul ksub kopp (@eq K) ->
  forall P zof inbin ispoi evs,
  dn4 K k0 k1 kadd kmul ksub kopp kdiv kleb kltb krpow P zof inbin ispoi evs
  = csub K ksub (dcorr4 K k0 k1 kadd kmul ksub kopp kdiv kleb kltb krpow P zof inbin ispoi evs)
      (cscale K kmul (kmul (kz k0 k1 kadd kmul kopp 2) (corr2 K k0 k1 kadd kmul ksub kopp kdiv kleb kltb krpow P zof inbin ispoi evs))
         (dcorr2 K k0 k1 kadd kmul ksub kopp kdiv kleb kltb krpow P zof inbin ispoi evs))
  /\ cn4 K k0 k1 kadd kmul ksub kopp kdiv kleb kltb krpow P zof inbin ispoi evs
     = cumulant4 K k0 k1 kadd kmul ksub kopp kdiv kleb kltb krpow P zof inbin ispoi evs.
Proof. exact p_C11_dn4. Qed.
Print Assumptions C11_dn4.

(* v'_n{2} = Re d_n{2} / sqrt(c_n{2}),  v'_n{4} = - Re d_n{4} / (-c_n{4})^(3/4), `imaginary` modes otherwise *)
Theorem C11_vn_diff2 :
  forall K k0 k1 kadd kmul ksub kopp kdiv kleb kltb krpow imag c d,
  option_map re (gen_ffcd K k0 k1 kadd kmul ksub kopp kdiv kleb kltb krpow 2 imag c d) =
    if kltb k0 c then Some (kdiv (re d) (krpow 1%nat 2%nat (kmul k1 c)))
    else if String.eqb imag "negative" then Some (kdiv (re d) (krpow 1%nat 2%nat (kmul (kopp k1) c)))
    else if String.eqb imag "zero" then Some k0 else None.
Proof. exact p_C11_vn_diff2. Qed.
Print Assumptions C11_vn_diff2.

Theorem C11_vn_diff4 :
  forall K k0 k1 kadd kmul ksub kopp kdiv kleb kltb krpow imag c d,
  option_map re (gen_ffcd K k0 k1 kadd kmul ksub kopp kdiv kleb kltb krpow 4 imag c d) =
    if kltb c k0 then Some (kdiv (kopp (re d)) (krpow 3%nat 4%nat (kmul (kopp k1) c)))
    else if String.eqb imag "negative" then Some (kdiv (kopp (re d)) (krpow 3%nat 4%nat (kmul (kopp (kopp k1)) c)))
    else if String.eqb imag "zero" then Some k0 else None.
Proof. exact p_C11_vn_diff4. Qed.
Print Assumptions C11_vn_diff4.

(* one bin of differential_flow: the guard, the orders, and which cumulants feed the flow *)
Theorem C11_differential_bin :
  forall K k0 k1 kadd kmul ksub kopp kdiv kleb kltb krpow P zof inbin ispoi evs k imag,
  In imag gen_imag_allowed ->
  let nonempty := ((0 <? length evs) && (0 <? total K P evs (sel_bin K P inbin)) && (0 <? total K P evs (sel_poi K P inbin ispoi)))%nat in
  differential_bin K k0 k1 kadd kmul ksub kopp kdiv kleb kltb krpow P zof inbin ispoi evs k imag =
    match k with
    | 2%nat => if nonempty then DVal K (option_map re (gen_ffcd K k0 k1 kadd kmul ksub kopp kdiv kleb kltb krpow 2 imag
                     (corr2 K k0 k1 kadd kmul ksub kopp kdiv kleb kltb krpow P zof inbin ispoi evs)
                     (dcorr2 K k0 k1 kadd kmul ksub kopp kdiv kleb kltb krpow P zof inbin ispoi evs))) else DEmpty K
    | 4%nat => if nonempty then DVal K (option_map re (gen_ffcd K k0 k1 kadd kmul ksub kopp kdiv kleb kltb krpow 4 imag
                     (cn4 K k0 k1 kadd kmul ksub kopp kdiv kleb kltb krpow P zof inbin ispoi evs)
                     (dn4 K k0 k1 kadd kmul ksub kopp kdiv kleb kltb krpow P zof inbin ispoi evs))) else DEmpty K
    | _ => DErr K
    end.
Proof. exact differential_bin_ok. Qed.
Print Assumptions C11_differential_bin.

(* selectors: validated list = dispatched list = the documented one; constructor lists and defaults *)
Theorem C11_selectors :
  gen_selectors_validated = ["pT"; "rapidity"; "pseudorapidity"]%string /\
  gen_selectors_dispatched = ["pT"; "rapidity"; "pseudorapidity"]%string /\
  gen_k_allowed = [2; 4; 6]%nat /\ gen_imag_allowed = ["zero"; "negative"; "nan"]%string /\
  In gen_default_k gen_k_allowed /\ In gen_default_imag gen_imag_allowed.
Proof. exact p_C11_selectors. Qed.
Print Assumptions C11_selectors.

(* over the reals: the statement users read, and the bridge to the angles *)
Theorem C11_corr4_R :
  forall kdiv kleb kltb krpow P (zof : P -> cpx R) inbin ispoi evs,
  Forall (good R 0%R 1%R Rplus Rmult Rminus Ropp P zof) evs ->
  corr4 R 0%R 1%R Rplus Rmult Rminus Ropp kdiv kleb kltb krpow P zof inbin ispoi evs
  = kdiv (spec_num R 0%R 1%R Rplus Rmult Rminus Ropp P zof 2 evs) (spec_den R 0%R 1%R Rplus P 2 evs).
Proof. exact (fun kdiv kleb kltb krpow => corr4_ok R _ _ _ _ _ _ kdiv kleb kltb krpow RTheory). Qed.
Print Assumptions C11_corr4_R.

Theorem C11_corr6_R :
  forall kdiv kleb kltb krpow P (zof : P -> cpx R) inbin ispoi evs,
  Forall (good R 0%R 1%R Rplus Rmult Rminus Ropp P zof) evs ->
  corr6 R 0%R 1%R Rplus Rmult Rminus Ropp kdiv kleb kltb krpow P zof inbin ispoi evs
  = kdiv (spec_num R 0%R 1%R Rplus Rmult Rminus Ropp P zof 3 evs) (spec_den R 0%R 1%R Rplus P 3 evs).
Proof. exact (fun kdiv kleb kltb krpow => corr6_ok R _ _ _ _ _ _ kdiv kleb kltb krpow RTheory). Qed.
Print Assumptions C11_corr6_R.

Theorem C11_cos_bridge :
  (forall t, cunit R 0%R 1%R Rplus Rmult Rminus Ropp (cis t)) /\
  (forall t h, cpow R 0%R 1%R Rplus Rmult Rminus (cis t) h = cis (INR h * t)) /\
  (forall a b, re (cmul R Rplus Rmult Rminus (cis a) (Rconj (cis b))) = cos (a - b)) /\
  (forall a1 a2 a3 a4,
     re (cmul R Rplus Rmult Rminus (cis a1) (cmul R Rplus Rmult Rminus (cis a2)
        (cmul R Rplus Rmult Rminus (Rconj (cis a3)) (Rconj (cis a4))))) = cos (a1 + a2 - a3 - a4)) /\
  (forall a1 a2 a3 a4 a5 a6,
     re (cmul R Rplus Rmult Rminus (cis a1) (cmul R Rplus Rmult Rminus (cis a2) (cmul R Rplus Rmult Rminus (cis a3)
        (cmul R Rplus Rmult Rminus (Rconj (cis a4)) (cmul R Rplus Rmult Rminus (Rconj (cis a5)) (Rconj (cis a6)))))))
     = cos (a1 + a2 + a3 - a4 - a5 - a6)).
Proof. exact p_C11_cos_bridge. Qed.
Print Assumptions C11_cos_bridge.

(* non-vacuity: Gaussian-integer units, two events of 5 and 4 particles, rotations i and -1 *)
Theorem C11_example :
  Forall (good Z 0%Z 1%Z Z.add Z.mul Z.sub Z.opp (cpx Z) (fun z => z)) ex_evs /\
  spec_num Z 0%Z 1%Z Z.add Z.mul Z.sub Z.opp (cpx Z) (fun z => z) 2 ex_evs = (-16)%Z /\
  spec_den Z 0%Z 1%Z Z.add (cpx Z) 2 ex_evs = 144%Z /\
  corr4 Z 0%Z 1%Z Z.add Z.mul Z.sub Z.opp (fun a b => (a * 1000 / b)%Z) Z.leb Z.ltb (fun _ _ x => x)
        (cpx Z) (fun z => z) (fun _ => true) (fun _ => true) ex_evs = (-112)%Z.
Proof. exact p_C11_example. Qed.
Print Assumptions C11_example.

(* The Histogram class is tied to the source for every property whose results are Histogram objects (C14: the spectra returned by
   BulkObservables are histograms built through this class; C09/C10 state the same theorems in their own files): every method body of
   Histogram.py, regenerated on every run into Gen/GenHistogram.v (tools/py2coq/gen_histogram.py, runtime Lib/HistRt.v), equals the hand
   model Model/Histogram.v.  Only Theorem / exact / Print Assumptions in this file. *)
From Coq Require Import String List ZArith QArith Qcanon Bool Arith.
From SX Require Import Model.Histogram Lib.HistBase Lib.HistRt Gen.GenHistogram Proofs.C10_Shape Proofs.C09_Source Proofs.C10_Source.
Import ListNotations.

Theorem Hist_source_init_tuple :
  forall ul lo hi b n, init_tuple ul lo hi b n = gen_init_tuple ul lo hi b n.
Proof. exact source_init_tuple. Qed.
Print Assumptions Hist_source_init_tuple.
Theorem Hist_source_init_list : forall es, init_list es = gen_init_list es.
Proof. exact source_init_list. Qed.
Print Assumptions Hist_source_init_list.
Theorem Hist_source_add_value :
  forall h v w, edges h <> [] -> add_value h v w = gen_add_value h (of_vals v) (of_wts w).
Proof. exact source_add_value. Qed.
Print Assumptions Hist_source_add_value.
Theorem Hist_source_scale_histogram :
  forall h s, scale_histogram h s = gen_scale_histogram h (of_scl s).
Proof. exact source_scale_histogram. Qed.
Print Assumptions Hist_source_scale_histogram.
Theorem Hist_source_statistical_error :
  forall usqrt h, (exists erows, hERR h = A2 erows) -> statistical_error usqrt h = gen_statistical_error usqrt h.
Proof. exact source_statistical_error. Qed.
Print Assumptions Hist_source_statistical_error.
Theorem Hist_source_make_density :
  forall usqrt h, (exists erows, hERR h = A2 erows) -> make_density usqrt h = gen_make_density usqrt h.
Proof. exact source_make_density. Qed.
Print Assumptions Hist_source_make_density.
Theorem Hist_source_bin_width : forall h, gen_bin_width h = Ok (widths (edges h)).
Proof. exact source_bin_width. Qed.
Print Assumptions Hist_source_bin_width.
Theorem Hist_source_bin_centers : forall h, gen_bin_centers h = Ok (centers (edges h)).
Proof. exact source_bin_centers. Qed.
Print Assumptions Hist_source_bin_centers.
Theorem Hist_source_bounds :
  forall h, gen_bin_bounds_left h = Ok (bounds_left (edges h)) /\ gen_bin_bounds_right h = Ok (bounds_right (edges h))
            /\ gen_bin_boundaries h = Ok (edges h) /\ gen_histogram h = Ok (hH h).
Proof. exact source_bounds. Qed.
Print Assumptions Hist_source_bounds.
Theorem Hist_source_add_histogram : forall h, add_histogram h = gen_add_histogram h.
Proof. exact source_add_histogram. Qed.
Print Assumptions Hist_source_add_histogram.
Theorem Hist_source_set_error : forall h l, set_error h l = gen_set_error h l.
Proof. exact source_set_error. Qed.
Print Assumptions Hist_source_set_error.
Theorem Hist_source_set_systematic_error : forall h l, set_systematic_error h l = gen_set_systematic_error h l.
Proof. exact source_set_systematic_error. Qed.
Print Assumptions Hist_source_set_systematic_error.
Theorem Hist_source_add_bin : forall h index e, add_bin h index e = gen_add_bin h index e.
Proof. exact source_add_bin. Qed.
Print Assumptions Hist_source_add_bin.
Theorem Hist_source_remove_bin :
  forall h index, length (edges h) = S (nbins h) -> remove_bin h index = gen_remove_bin h index.
Proof. exact source_remove_bin. Qed.
Print Assumptions Hist_source_remove_bin.
Theorem Hist_source_average_weighted :
  forall usqrt h ws, average_weighted usqrt h ws = gen_average_weighted usqrt h ws.
Proof. exact source_average_weighted. Qed.
Print Assumptions Hist_source_average_weighted.
Theorem Hist_source_average : forall usqrt h, average usqrt h = gen_average usqrt h.
Proof. exact source_average. Qed.
Print Assumptions Hist_source_average.
Theorem Hist_source_average_weighted_by_error :
  forall usqrt h, average_weighted_by_error usqrt h = gen_average_weighted_by_error usqrt h.
Proof. exact source_average_weighted_by_error. Qed.
Print Assumptions Hist_source_average_weighted_by_error.
Theorem Hist_source_default_columns :
  gen_column_names_1 = ["bin_center"; "bin_low"; "bin_high"; "distribution"; "stat_err+"; "stat_err-"; "sys_err+"; "sys_err-"]%string
  /\ colkeys gen_column_names_1 = default_columns.
Proof. exact source_default_columns. Qed.
Print Assumptions Hist_source_default_columns.
Theorem Hist_source_write_to_file :
  forall h labels columns, (forall cs, columns = Some cs -> cs <> []) ->
  write_to_file h labels columns = gen_write_to_file h labels columns.
Proof. exact source_write_to_file. Qed.
Print Assumptions Hist_source_write_to_file.
Theorem Hist_source_step : forall usqrt h o, Shape h -> step usqrt h o = gen_step usqrt h o.
Proof. exact source_step. Qed.
Print Assumptions Hist_source_step.
Theorem Hist_source_run : forall usqrt ops h, Shape h -> run usqrt h ops = gen_run usqrt h ops.
Proof. exact source_run. Qed.
Print Assumptions Hist_source_run.

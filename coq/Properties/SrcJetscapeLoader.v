(* Source tie of the JETSCAPE reader (attached to C01, C02, C06, C07): the hand model Model/Jetscape.v equals the
   method bodies of loader/JetscapeLoader.py and of the helpers inherited from loader/BaseLoader.py as they are
   regenerated into Gen/GenJetscapeLoader.v on every run (tools/py2coq/gen_jetscapeloader.py, runtime
   Model/JetscapeLoaderRt.v).  Only statements closed by [exact]; proofs in Proofs/JetscapeLoader_Source.v.

   Reading guide.  [raw] is the file as the list of the str values readline() returns; [lines_ok raw]: every line is
   non-empty and has a newline at most as its last character.  The hand model is run on [map toks raw], [toks] being
   the tokenisation the source applies (line.replace("\n","").replace("\t"," ").split(" ")); [JL_toks_join]: on a
   line that is the join by single blanks or tabs of blank-, tab- and newline-free tokens, [toks] returns these tokens
   (the lines of Model/JetscapeDoc.v jrender).  [kw_sel kw sel]: the keyword dictionary holds no `events`
   (SelAll), events = k >= 0 (SelOne k) or events = (a, b), 0 <= a <= b (SelRange a b).  [flt_rel o_apply kw flt]:
   no `filters` key (None), or a `filters` value on which __apply_kwargs_filters (o_apply, translated by
   gen_dispatch) maps a one-event list [d] to [f d] without raising (Some f).  zint / mkp: int(str), the int32
   conversion of np.array and Particle("JETSCAPE", tokens) are read as the oracles tok_int / mk_jet_particle of the
   hand model.  fuel bounds the two `while` loops (more than the number of lines / characters of the last line). *)
From Coq Require Import List String Ascii ZArith QArith Bool.
From SX Require Import Lib.Strs Lib.Split Model.Oscar Model.Jetscape Model.JetscapeDoc Model.JetscapeLoaderRt
     Gen.GenJetscapeLoader Proofs.JetscapeLoader_Source.
Import ListNotations.
Local Open Scope string_scope.

(* `p in line` on the raw line, for a pattern without blank, tab, newline, is the token-level test of the hand model *)
Theorem JL_contains_toks : forall p s, pat_ok p -> line_ok s -> contains p s = has p (toks s).
Proof. exact contains_toks. Qed.
Print Assumptions JL_contains_toks.

Theorem JL_toks_join : forall (l : list string) (seps : list ascii),
  l <> [] -> Forall tok_ok l -> Forall sep_ok seps ->
  toks (join_seps l seps ++ String "010"%char "") = l /\ toks (join_seps l seps) = l
  /\ line_ok (join_seps l seps ++ String "010"%char "") /\ (join_seps l seps <> "" -> line_ok (join_seps l seps)).
Proof. exact toks_join. Qed.
Print Assumptions JL_toks_join.

(* __get_num_read_lines = jnum_read (count array as set_num_output_per_event leaves it: 1-D empty or >= 1 row) *)
Theorem JL_source_get_num_read_lines : forall self sel,
  kw_sel (optional_arguments_ self) sel -> arr_std (num_output_per_event_ self) ->
  gen_get_num_read_lines self = jnum_read sel (arr_rows (num_output_per_event_ self)).
Proof. exact source_get_num_read_lines. Qed.
Print Assumptions JL_source_get_num_read_lines.

(* _get_num_skip_lines = jnum_skip *)
Theorem JL_source_get_num_skip_lines : forall self sel,
  kw_sel (optional_arguments_ self) sel ->
  gen_get_num_skip_lines self = jnum_skip sel (arr_rows (num_output_per_event_ self)).
Proof. exact source_get_num_skip_lines. Qed.
Print Assumptions JL_source_get_num_skip_lines.

(* BaseLoader._skip_lines consumes that many lines *)
Theorem JL_source_skip_lines : forall self sel (f : list string),
  kw_sel (optional_arguments_ self) sel ->
  gen_skip_lines self f
  = bind (jnum_skip sel (arr_rows (num_output_per_event_ self))) (fun ns => Ok (skipn (Z.to_nat ns) f, tt)).
Proof. exact source_skip_lines. Qed.
Print Assumptions JL_source_skip_lines.

(* set_num_output_per_event = jscan, except for the error class when a count line with fewer than nine tokens follows a
   count line whose label or count is not an integer (source: IndexError, jscan: ValueError) *)
Theorem JL_source_set_num_output_per_event : forall tok_int fs self raw fuel,
  lines_ok raw -> fs (PATH_JETSCAPE_ self) = raw -> (List.length raw < fuel)%nat ->
  pat_ok (particle_type_defining_string_ self) ->
  gen_set_num_output_per_event fs (zint tok_int) fuel self
  = if has_short (particle_type_defining_string_ self) (map toks raw) then Err IndexError
    else match jscan tok_int (particle_type_defining_string_ self) (map toks raw) with
         | Ok c => Ok (set_num_events_ (set_num_output_per_event_ self (arr_of c)) (zlen c), tt)
         | Err e => Err e
         end.
Proof. exact source_set_num_output_per_event. Qed.
Print Assumptions JL_source_set_num_output_per_event.

Theorem JL_source_set_num_output_per_event_eq : forall tok_int fs self raw fuel,
  lines_ok raw -> fs (PATH_JETSCAPE_ self) = raw -> (List.length raw < fuel)%nat ->
  pat_ok (particle_type_defining_string_ self) ->
  jscan tok_int (particle_type_defining_string_ self) (map toks raw) <> Err ValueError ->
  gen_set_num_output_per_event fs (zint tok_int) fuel self
  = match jscan tok_int (particle_type_defining_string_ self) (map toks raw) with
    | Ok c => Ok (set_num_events_ (set_num_output_per_event_ self (arr_of c)) (zlen c), tt)
    | Err e => Err e
    end.
Proof. exact source_set_num_output_per_event_eq. Qed.
Print Assumptions JL_source_set_num_output_per_event_eq.

Theorem JL_has_short_jscan : forall tok_int defstr (file : list line),
  has_short defstr file = true ->
  jscan tok_int defstr file = Err IndexError \/ jscan tok_int defstr file = Err ValueError.
Proof. exact has_short_jscan. Qed.
Print Assumptions JL_has_short_jscan.

(* [trailer_last raw]: a line containing '#' and 'sigmaGen' is followed by no other line.  The runtime gives lists value
   semantics; the source appends `data` to particle_list at such a line WITHOUT rebinding it, so a particle line read
   afterwards changes, in place, the event that already sits in particle_list (the real reader then returns that
   event twice, e.g. [[p1, p2], [p1, p2]] where the hand model has [[p1], [p1, p2]]); the translator guards every
   in-place change of such a list with an alias flag and the runtime abstains (OtherError) when it is set.  Holds
   when no line but the last is such a line: *)
Theorem JL_trailer_last_of_forall : forall raw,
  Forall (fun l => has "#" (toks l) && has "sigmaGen" (toks l) = false) (removelast raw) -> trailer_last raw.
Proof. exact trailer_last_of_forall. Qed.
Print Assumptions JL_trailer_last_of_forall.

(* set_particle_list (kwargs = self.optional_arguments_, as load calls it) = what jload does after the header scan:
   skip / read arithmetic, the read loop with the events= / filters= bookkeeping of the count array, the
   end-of-file checks; returned events, num_events_, count rows, and nothing else of the object changes *)
Theorem JL_source_set_particle_list : forall tok_float tok_int pdg_valid pdg_charge usqrt fs o_apply self raw sel flt,
  lines_ok raw -> trailer_last raw -> fs (PATH_JETSCAPE_ self) = raw ->
  kw_sel (optional_arguments_ self) sel -> flt_rel o_apply (optional_arguments_ self) flt ->
  arr_std (num_output_per_event_ self) ->
  match gen_set_particle_list fs (zint tok_int) (mkp tok_float tok_int pdg_valid pdg_charge usqrt) o_apply self
                              (optional_arguments_ self) with
  | Ok (self', pl) =>
    jload_tail tok_float tok_int pdg_valid pdg_charge usqrt flt (map toks raw)
               (arr_rows (num_output_per_event_ self)) (num_events_ self) sel
    = Ok (pl, num_events_ self', arr_rows (num_output_per_event_ self'))
    /\ self' = set_num_events_ (set_num_output_per_event_ self (num_output_per_event_ self')) (num_events_ self')
  | Err e =>
    jload_tail tok_float tok_int pdg_valid pdg_charge usqrt flt (map toks raw)
               (arr_rows (num_output_per_event_ self)) (num_events_ self) sel = Err e
  end.
Proof. exact source_set_particle_list. Qed.
Print Assumptions JL_source_set_particle_list.

Theorem JL_source_check_tuple : forall l : list pyval,
  gen_check_that_tuple_contains_integers_only (VTuple l) = if forallb isinstance_int l then Ok tt else Err TypeError.
Proof. exact source_check_tuple. Qed.
Print Assumptions JL_source_check_tuple.

(* load for EVERY keyword dictionary: unknown key -> ValueError; then the events checks (check_events: non-integer
   in the tuple -> TypeError, fewer than two -> IndexError, a > b or negative -> ValueError, negative int ->
   ValueError), then the particletype checks (check_ptype: not a str -> TypeError, not hadron / parton -> ValueError),
   in this order; then the header scan and the read loop on the updated object *)
Theorem JL_source_load : forall tok_float tok_int pdg_valid pdg_charge usqrt fs o_apply self kw fuel,
  gen_load fs (zint tok_int) (zint tok_int) (mkp tok_float tok_int pdg_valid pdg_charge usqrt) o_apply fuel self kw
  = if negb (forallb known_key (dict_keys kw)) then Err ValueError else
    bind (check_events (assoc "events" kw)) (fun _ =>
    bind (check_ptype (assoc "particletype" kw) (particle_type_ self)) (fun pt =>
    let self1 := set_particle_type_defining_string_
                   (set_particle_type_ (set_event_end_lines_ (set_optional_arguments_ self kw) []) pt) (defstr_of pt) in
    bind (gen_set_num_output_per_event fs (zint tok_int) fuel self1) (fun '(self2, _) =>
    bind (gen_set_particle_list fs (zint tok_int) (mkp tok_float tok_int pdg_valid pdg_charge usqrt) o_apply self2 kw)
         (fun '(self3, pl) => Ok (self3, (pl, num_events_ self3, num_output_per_event_ self3, [])))))).
Proof. exact source_load. Qed.
Print Assumptions JL_source_load.

(* load on a dictionary that stands for a selector = jscan then jload_tail (jload without the sigmaGen parts) *)
Theorem JL_source_load_model : forall tok_float tok_int pdg_valid pdg_charge usqrt fs o_apply self raw kw sel flt pt fuel,
  lines_ok raw -> trailer_last raw -> fs (PATH_JETSCAPE_ self) = raw -> (List.length raw < fuel)%nat ->
  forallb known_key (dict_keys kw) = true -> kw_sel kw sel -> flt_rel o_apply kw flt ->
  check_ptype (assoc "particletype" kw) (particle_type_ self) = Ok pt ->
  jscan tok_int (defstr_of pt) (map toks raw) <> Err ValueError ->
  match gen_load fs (zint tok_int) (zint tok_int) (mkp tok_float tok_int pdg_valid pdg_charge usqrt) o_apply fuel self kw with
  | Ok (self', (pl, nev, a, ends)) =>
    jload_mid tok_float tok_int pdg_valid pdg_charge usqrt flt (map toks raw) (defstr_of pt) sel = Ok (pl, nev, arr_rows a)
    /\ ends = [] /\ nev = num_events_ self' /\ a = num_output_per_event_ self'
    /\ self' = JSelf (PATH_JETSCAPE_ self) pt (defstr_of pt) kw [] a nev
  | Err e => jload_mid tok_float tok_int pdg_valid pdg_charge usqrt flt (map toks raw) (defstr_of pt) sel = Err e
  end.
Proof. exact source_load_model. Qed.
Print Assumptions JL_source_load_model.

(* get_last_line: the backward byte scan returns the stripped last line of a file of >= 2 lines ... *)
Theorem JL_source_get_last_line : forall fs path pre L fuel,
  fs path = (pre ++ [L])%list -> pre <> [] -> Forall ends_nl pre -> line_ok L -> (String.length L < fuel)%nat ->
  gen_get_last_line fs fuel path = Ok (py_strip L).
Proof. exact source_get_last_line. Qed.
Print Assumptions JL_source_get_last_line.

(* ... and fails (OSError of the seek before the start) on a one-line file *)
Theorem JL_source_get_last_line_one_line : forall fs path L fuel,
  fs path = [L] -> line_ok L -> (String.length L < fuel)%nat ->
  gen_get_last_line fs fuel path = Err OtherError.
Proof. exact source_get_last_line_one_line. Qed.
Print Assumptions JL_source_get_last_line_one_line.

(* get_sigmaGen = the first two float tokens of the last line (no whitespace other than blank, tab, newline in it) *)
Theorem JL_source_get_sigmaGen : forall tok_float fs self pre L fuel,
  fs (PATH_JETSCAPE_ self) = (pre ++ [L])%list -> pre <> [] -> Forall ends_nl pre -> line_ok L -> plain_ws L ->
  (String.length L < fuel)%nat ->
  gen_get_sigmaGen fs tok_float fuel self
  = match first_floats tok_float 2 (filter (fun s => negb (s =? "")%string) (toks L)) with
    | [s1; s2] => Ok (s1, s2)
    | _ => Err IndexError
    end.
Proof. exact source_get_sigmaGen. Qed.
Print Assumptions JL_source_get_sigmaGen.

(* __init__: the file name test, the sigmaGen test on the last line, the initial attributes *)
Theorem JL_source_init : forall fs path pre L fuel,
  fs path = (pre ++ [L])%list -> pre <> [] -> Forall ends_nl pre -> line_ok L -> (String.length L < fuel)%nat ->
  gen_init fs fuel path
  = if negb (contains ".dat" path) then Err OtherError
    else if negb (has "sigmaGen" (toks L)) then Err ValueError
    else Ok (JSelf path "hadron" "N_hadrons" [] [] A1 0).
Proof. exact source_init. Qed.
Print Assumptions JL_source_init.

Theorem JL_source_getters : forall self,
  gen_get_particle_type self = Ok (particle_type_ self)
  /\ gen_get_particle_type_defining_string self = Ok (particle_type_defining_string_ self)
  /\ gen_event_end_lines self = Ok (event_end_lines_ self).
Proof. exact source_getters. Qed.
Print Assumptions JL_source_getters.

(* the three calls of Jetscape.__init__ (JetscapeLoader(path), load, get_sigmaGen) in sequence = jload: same events,
   number of events, count rows, sigmaGen pair, same exception class *)
Theorem JL_source_jetscape : forall tok_float tok_int pdg_valid pdg_charge usqrt fs o_apply path pre L kw sel flt pt fuel,
  fs path = (pre ++ [L])%list -> pre <> [] -> Forall ends_nl pre -> lines_ok (pre ++ [L]) -> plain_ws L ->
  trailer_last (pre ++ [L]) -> contains ".dat" path = true ->
  (List.length (pre ++ [L]) < fuel)%nat -> (String.length L < fuel)%nat ->
  forallb known_key (dict_keys kw) = true -> kw_sel kw sel -> flt_rel o_apply kw flt ->
  check_ptype (assoc "particletype" kw) "hadron" = Ok pt ->
  jscan tok_int (defstr_of pt) (map toks (pre ++ [L])) <> Err ValueError ->
  match gen_jetscape tok_float tok_int pdg_valid pdg_charge usqrt fs o_apply fuel path kw with
  | Ok (pl, nev, a, sg) =>
    exists ld, jload tok_float tok_int pdg_valid pdg_charge usqrt flt (map toks (pre ++ [L])) (defstr_of pt) sel = Ok ld
               /\ j_events ld = pl /\ j_nevents ld = nev /\ j_counts ld = arr_rows a /\ j_sigma ld = sg
  | Err e => jload tok_float tok_int pdg_valid pdg_charge usqrt flt (map toks (pre ++ [L])) (defstr_of pt) sel = Err e
  end.
Proof. exact source_jetscape. Qed.
Print Assumptions JL_source_jetscape.

(* non-vacuity: a concrete tab-separated four-event file, events=(1, 3) with a charged-particle filter chain, meets
   every hypothesis of JL_source_jetscape; its tokenisation is the document of Proofs/C02_JetscapeExample.v; the
   regenerated reader run on it returns events of sizes [0; 1], 2 events, count rows (2,0) (3,1), sigmaGen (1.5, 0.125) *)
Theorem JL_source_example :
  let tf := C02_JetscapeExample.exj_tf in let ti := C02_JetscapeExample.exj_ti in
  let pv := C02_JetscapeExample.exj_pv in let pc := C02_JetscapeExample.exj_pc in
  let sq := C02_JetscapeExample.exj_sqrt in
  exs_pre <> [] /\ Forall ends_nl exs_pre /\ lines_ok (exs_pre ++ [exs_last]) /\ plain_ws exs_last
  /\ trailer_last (exs_pre ++ [exs_last])
  /\ contains ".dat" "events.dat" = true
  /\ forallb known_key (dict_keys exs_kw) = true /\ kw_sel exs_kw (SelRange 1 3)
  /\ flt_rel exs_apply exs_kw (Some C02_JetscapeExample.exj_charged)
  /\ check_ptype (assoc "particletype" exs_kw) "hadron" = Ok "hadron"
  /\ jscan ti (defstr_of "hadron") (map toks (exs_pre ++ [exs_last])) <> Err ValueError
  /\ map toks (exs_pre ++ [exs_last]) = jrender C02_JetscapeExample.exj_doc
  /\ match gen_jetscape tf ti pv pc sq exs_fs exs_apply 100 "events.dat" exs_kw with
     | Ok (pl, nev, a, sg) => Some (map (@List.length particle) pl, nev, a, sg)
     | Err _ => None
     end = Some ([0; 1]%nat, 2%Z, A2 [(2, 0); (3, 1)]%Z, ((3#2)%Q, (1#8)%Q)).
Proof. exact exs_example. Qed.
Print Assumptions JL_source_example.

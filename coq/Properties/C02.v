(* C02 - event selection equals loading everything and slicing (Oscar family, loader model of C01).
   [sliced d fmt attrs a n] is the unrestricted load restricted to events a .. a+n-1: same particles in order,
   counts under the ORIGINAL labels, n events.  Statements only; proofs in Proofs/C02_Oscar.v. *)
From Coq Require Import List String ZArith QArith Bool Arith.
From SX Require Import Lib.Strs Gen.GenParticleMap Model.Oscar Model.OscarDoc Model.Jetscape Model.JetscapeDoc
  Proofs.C01_Oscar Proofs.C02_Oscar Proofs.C02_Jetscape Proofs.C02_Filter.
Import ListNotations.

Theorem C02_oscar_range :
  forall tok_float tok_int pdg_valid d fmt attrs (a b : nat),
  wf tok_float tok_int pdg_valid d fmt attrs -> (a <= b)%nat -> (b < List.length (d_events d))%nat ->
  load tok_float tok_int pdg_valid None (render d) (SelRange (Z.of_nat a) (Z.of_nat b))
  = Ok (sliced tok_float tok_int pdg_valid d fmt attrs a (b - a + 1)).
Proof. exact load_range. Qed.
Print Assumptions C02_oscar_range.

Theorem C02_oscar_single :
  forall tok_float tok_int pdg_valid d fmt attrs (k : nat),
  wf tok_float tok_int pdg_valid d fmt attrs -> (k < List.length (d_events d))%nat ->
  load tok_float tok_int pdg_valid None (render d) (SelOne (Z.of_nat k))
  = Ok (sliced tok_float tok_int pdg_valid d fmt attrs k 1).
Proof. exact load_single. Qed.
Print Assumptions C02_oscar_single.

(* for ANY file (well-formed or not): events=k behaves exactly as events=(k,k) *)
Theorem C02_single_is_range :
  forall tok_float tok_int pdg_valid file k, (0 <= k)%Z ->
  load tok_float tok_int pdg_valid None file (SelOne k) = load tok_float tok_int pdg_valid None file (SelRange k k).
Proof. exact load_single_is_range. Qed.
Print Assumptions C02_single_is_range.

(* a selection reaching past the last event is rejected, never wrapped to another event *)
Theorem C02_oscar_out_of_range :
  forall tok_float tok_int pdg_valid d fmt attrs (a b : nat),
  wf tok_float tok_int pdg_valid d fmt attrs -> (a <= b)%nat -> (List.length (d_events d) <= b)%nat ->
  load tok_float tok_int pdg_valid None (render d) (SelRange (Z.of_nat a) (Z.of_nat b)) = Err IndexError.
Proof. exact load_range_oob. Qed.
Print Assumptions C02_oscar_out_of_range.

(* the selected events keep their own impact parameters *)
Theorem C02_oscar_impacts :
  forall tok_float tok_int pdg_valid d fmt attrs a n,
  wf tok_float tok_int pdg_valid d fmt attrs ->
  impact_parameters tok_float (sliced tok_float tok_int pdg_valid d fmt attrs a n)
  = Ok (firstn n (skipn a (map (spec_impact tok_float) (d_events d)))).
Proof. exact impacts_sliced. Qed.
Print Assumptions C02_oscar_impacts.

(* the selection of the full load really is the slice of the full load *)
Theorem C02_sliced_is_slice :
  forall tok_float tok_int pdg_valid d fmt attrs a n,
  l_events (sliced tok_float tok_int pdg_valid d fmt attrs a n)
  = firstn n (skipn a (l_events (expected tok_float tok_int pdg_valid d fmt attrs))) /\
  l_counts (sliced tok_float tok_int pdg_valid d fmt attrs a n)
  = firstn n (skipn a (l_counts (expected tok_float tok_int pdg_valid d fmt attrs))).
Proof. exact sliced_is_slice. Qed.
Print Assumptions C02_sliced_is_slice.

(* JETSCAPE: events=(a,b) is the slice a..b of the unrestricted load (labels a+1..b+1 kept, sigmaGen kept) *)
Theorem C02_jetscape_range :
  forall tok_float tok_int pdg_valid pdg_charge usqrt defstr d s1 s2 (a b : nat),
  jwf tok_float tok_int pdg_valid pdg_charge usqrt defstr d s1 s2 ->
  (a <= b)%nat -> (b < List.length (jd_events d))%nat ->
  jload tok_float tok_int pdg_valid pdg_charge usqrt None (jrender d) defstr (SelRange (Z.of_nat a) (Z.of_nat b))
  = Ok (jsliced tok_float tok_int pdg_valid pdg_charge usqrt d s1 s2 a (b - a + 1)).
Proof. exact jload_range. Qed.
Print Assumptions C02_jetscape_range.

(* with a constructor filter f (ANY function on one event's particle list): select, then filter.
   Every selected event is filtered on its own; an event the filter empties is dropped unless it was empty in the
   file; the count rows are those of the events kept, labelled consecutively from the first selected label *)
Theorem C02_oscar_range_with_filter :
  forall tok_float tok_int pdg_valid (f : list particle -> list particle) d fmt attrs (a b : nat),
  wf tok_float tok_int pdg_valid d fmt attrs -> (a <= b)%nat -> (b < List.length (d_events d))%nat ->
  load tok_float tok_int pdg_valid (Some f) (render d) (SelRange (Z.of_nat a) (Z.of_nat b))
  = Ok (filtered tok_float tok_int pdg_valid f d fmt attrs a (b - a + 1)).
Proof. exact load_range_filtered. Qed.
Print Assumptions C02_oscar_range_with_filter.

Theorem C02_filtered_is_select_then_filter :
  forall tok_float tok_int pdg_valid (f : list particle -> list particle) d fmt attrs a n,
  match l_events (filtered tok_float tok_int pdg_valid f d fmt attrs a n) with
  | [[]] => kept f (l_events (sliced tok_float tok_int pdg_valid d fmt attrs a n)) = [] \/
            kept f (l_events (sliced tok_float tok_int pdg_valid d fmt attrs a n)) = [[]]
  | evs => evs = kept f (l_events (sliced tok_float tok_int pdg_valid d fmt attrs a n))
  end /\
  map snd (l_counts (filtered tok_float tok_int pdg_valid f d fmt attrs a n))
  = map (fun ev => Z.of_nat (List.length ev)) (kept f (l_events (sliced tok_float tok_int pdg_valid d fmt attrs a n))).
Proof. exact filtered_is_select_then_filter. Qed.
Print Assumptions C02_filtered_is_select_then_filter.

(* ---- the particle-object storer (Model/PObj.v; the filter chain is ANY, possibly raising, function of one event) ---- *)
From SX Require Import Lib.Py Model.PObj Proofs.C02_PObj.

(* events=(a,b) is the slice a..b of the unrestricted construction: same events in order, b-a+1 events, the selected
   rows of the count table under their original labels - with or without a constructor filter *)
Theorem C02_pobj_range :
  forall (P : Type) (flt : option (list P -> Py.result (list P))) evs full (a b : Z),
  pload P flt PAll evs = Py.Ok full -> (0 <= a <= b)%Z -> (b < Z.of_nat (List.length evs))%Z ->
  pload P flt (PRange a b) evs =
    Py.Ok {| p_events := pslice a b (p_events P full); p_nevents := (b + 1 - a)%Z;
             p_counts := pslice a b (p_counts P full) |}.
Proof. exact pobj_range_is_slice. Qed.
Print Assumptions C02_pobj_range.

Theorem C02_pobj_single :
  forall (P : Type) (flt : option (list P -> Py.result (list P))) evs (k : Z),
  (0 <= k)%Z -> (k < Z.of_nat (List.length evs))%Z ->
  pload P flt (POne k) evs = pload P flt (PRange k k) evs.
Proof. exact pobj_single_is_range. Qed.
Print Assumptions C02_pobj_single.

Theorem C02_pobj_counts :
  forall (P : Type) (flt : option (list P -> Py.result (list P))) s evs st,
  pload P flt s evs = Py.Ok st ->
  p_nevents P st = Z.of_nat (List.length (p_events P st)) /\
  map snd (p_counts P st) = map (fun e => Z.of_nat (List.length e)) (p_events P st) /\
  (forall i c, nth_error (p_counts P st) i = Some c -> fst c = (pfirst s + Z.of_nat i)%Z).
Proof. exact pobj_counts_consistent. Qed.
Print Assumptions C02_pobj_counts.

Theorem C02_pobj_select_then_filter :
  forall (P : Type) (f : list P -> Py.result (list P)) s evs st0,
  pload P None s evs = Py.Ok st0 ->
  pload P (Some f) s evs =
    rbind (mapr f (p_events P st0)) (fun held =>
      Py.Ok {| p_events := held; p_nevents := Z.of_nat (List.length held); p_counts := label_from P (pfirst s) held |}).
Proof. exact pobj_select_then_filter. Qed.
Print Assumptions C02_pobj_select_then_filter.

Theorem C02_pobj_invalid_selector :
  forall (P : Type) (flt : option (list P -> Py.result (list P))) evs,
  (forall k, (k < 0)%Z -> pload P flt (POne k) evs = Py.Err Py.ValueError) /\
  (forall a b, (b < a \/ a < 0 \/ b < 0)%Z -> pload P flt (PRange a b) evs = Py.Err Py.ValueError) /\
  (forall k, (Z.of_nat (List.length evs) <= k)%Z -> pload P flt (POne k) evs = Py.Err Py.IndexError).
Proof. exact pobj_invalid_selector. Qed.
Print Assumptions C02_pobj_invalid_selector.

Theorem C02_pobj_example :
  pload nat (Some (fun e => Py.Ok (filter Nat.even e))) (PRange 1 2) [[1;2]; [3;4;6]; []; [8]]%nat
  = Py.Ok {| p_events := [[4;6]; []]%nat; p_nevents := 2; p_counts := [(1, 2); (2, 0)]%Z |}.
Proof. exact pobj_example. Qed.
Print Assumptions C02_pobj_example.

(* ---- JETSCAPE (Model/Jetscape.v): single selectors, selections past the last event, constructor filters, sigmaGen ---- *)
From SX Require Import Proofs.C02_JetscapeSel Proofs.C02_JetscapeExample.

(* for ANY file (well-formed or not) and any constructor filter: events=k behaves exactly as events=(k,k) - every observable
   the model records, including the 2-D shape flag of the count array that particle_list() consumes *)
Theorem C02_jetscape_single_is_range :
  forall tok_float tok_int pdg_valid pdg_charge usqrt defstr flt file k, (0 <= k)%Z ->
  jload tok_float tok_int pdg_valid pdg_charge usqrt flt file defstr (SelOne k)
  = jload tok_float tok_int pdg_valid pdg_charge usqrt flt file defstr (SelRange k k).
Proof. exact jload_single_is_range. Qed.
Print Assumptions C02_jetscape_single_is_range.

(* events=k is event k of the unrestricted load: its particles, one event, the row (k+1, size) as a 2-D table, sigmaGen *)
Theorem C02_jetscape_single :
  forall tok_float tok_int pdg_valid pdg_charge usqrt defstr d s1 s2 (k : nat),
  jwf tok_float tok_int pdg_valid pdg_charge usqrt defstr d s1 s2 -> (k < List.length (jd_events d))%nat ->
  jload tok_float tok_int pdg_valid pdg_charge usqrt None (jrender d) defstr (SelOne (Z.of_nat k))
  = Oscar.Ok (jsliced tok_float tok_int pdg_valid pdg_charge usqrt d s1 s2 k 1).
Proof. exact jload_single. Qed.
Print Assumptions C02_jetscape_single.

(* [jsliced] really is the slice of the unrestricted load (C01: jload .. SelAll = Oscar.Ok (jexpected ..)), field by field *)
Theorem C02_jetscape_sliced_is_slice :
  forall tok_float tok_int pdg_valid pdg_charge usqrt d s1 s2 a n,
  j_events (jsliced tok_float tok_int pdg_valid pdg_charge usqrt d s1 s2 a n)
  = firstn n (skipn a (j_events (jexpected tok_float tok_int pdg_valid pdg_charge usqrt d s1 s2))) /\
  j_counts (jsliced tok_float tok_int pdg_valid pdg_charge usqrt d s1 s2 a n)
  = firstn n (skipn a (j_counts (jexpected tok_float tok_int pdg_valid pdg_charge usqrt d s1 s2))) /\
  j_counts_2d (jsliced tok_float tok_int pdg_valid pdg_charge usqrt d s1 s2 a n)
  = j_counts_2d (jexpected tok_float tok_int pdg_valid pdg_charge usqrt d s1 s2) /\
  j_sigma (jsliced tok_float tok_int pdg_valid pdg_charge usqrt d s1 s2 a n)
  = j_sigma (jexpected tok_float tok_int pdg_valid pdg_charge usqrt d s1 s2) /\
  j_nevents (jsliced tok_float tok_int pdg_valid pdg_charge usqrt d s1 s2 a n) = Z.of_nat n.
Proof. exact jsliced_is_slice. Qed.
Print Assumptions C02_jetscape_sliced_is_slice.

(* the property stated on the two loads themselves *)
Theorem C02_jetscape_range_is_slice_of_full_load :
  forall tok_float tok_int pdg_valid pdg_charge usqrt defstr d s1 s2 (a b : nat),
  jwf tok_float tok_int pdg_valid pdg_charge usqrt defstr d s1 s2 ->
  (a <= b)%nat -> (b < List.length (jd_events d))%nat ->
  exists full,
    jload tok_float tok_int pdg_valid pdg_charge usqrt None (jrender d) defstr SelAll = Oscar.Ok full /\
    jload tok_float tok_int pdg_valid pdg_charge usqrt None (jrender d) defstr (SelRange (Z.of_nat a) (Z.of_nat b))
    = Oscar.Ok {| j_events := firstn (b - a + 1) (skipn a (j_events full));
            j_nevents := Z.of_nat (b - a + 1);
            j_counts := firstn (b - a + 1) (skipn a (j_counts full));
            j_counts_2d := j_counts_2d full;
            j_sigma := j_sigma full |}.
Proof. exact jload_range_vs_full. Qed.
Print Assumptions C02_jetscape_range_is_slice_of_full_load.

(* a selection reaching past the last event is rejected with IndexError (with or without a constructor filter),
   never wrapped to another event *)
Theorem C02_jetscape_out_of_range :
  forall tok_float tok_int pdg_valid pdg_charge usqrt defstr flt d s1 s2 (a b : nat),
  jwf tok_float tok_int pdg_valid pdg_charge usqrt defstr d s1 s2 ->
  (a <= b)%nat -> (List.length (jd_events d) <= b)%nat ->
  jload tok_float tok_int pdg_valid pdg_charge usqrt flt (jrender d) defstr (SelRange (Z.of_nat a) (Z.of_nat b))
  = Oscar.Err Oscar.IndexError.
Proof. exact jload_range_oob. Qed.
Print Assumptions C02_jetscape_out_of_range.

Theorem C02_jetscape_single_out_of_range :
  forall tok_float tok_int pdg_valid pdg_charge usqrt defstr flt d s1 s2 (k : nat),
  jwf tok_float tok_int pdg_valid pdg_charge usqrt defstr d s1 s2 -> (List.length (jd_events d) <= k)%nat ->
  jload tok_float tok_int pdg_valid pdg_charge usqrt flt (jrender d) defstr (SelOne (Z.of_nat k)) = Oscar.Err Oscar.IndexError.
Proof. exact jload_single_oob. Qed.
Print Assumptions C02_jetscape_single_out_of_range.

(* with a constructor filter f (ANY function on one event's particle list): select, then filter.  Every selected event is
   filtered on its own; an event the filter empties is dropped unless it was empty in the file; the count rows are those
   of the events kept, labelled consecutively from the first selected label a+1 (what the code does: the labels after a
   dropped event are decremented) *)
Theorem C02_jetscape_range_with_filter :
  forall tok_float tok_int pdg_valid pdg_charge usqrt defstr (f : list particle -> list particle) d s1 s2 (a b : nat),
  jwf tok_float tok_int pdg_valid pdg_charge usqrt defstr d s1 s2 ->
  (a <= b)%nat -> (b < List.length (jd_events d))%nat ->
  jload tok_float tok_int pdg_valid pdg_charge usqrt (Some f) (jrender d) defstr (SelRange (Z.of_nat a) (Z.of_nat b))
  = Oscar.Ok (jfiltered tok_float tok_int pdg_valid pdg_charge usqrt f d s1 s2 a (b - a + 1)).
Proof. exact jload_range_filtered. Qed.
Print Assumptions C02_jetscape_range_with_filter.

Theorem C02_jetscape_single_with_filter :
  forall tok_float tok_int pdg_valid pdg_charge usqrt defstr (f : list particle -> list particle) d s1 s2 (k : nat),
  jwf tok_float tok_int pdg_valid pdg_charge usqrt defstr d s1 s2 -> (k < List.length (jd_events d))%nat ->
  jload tok_float tok_int pdg_valid pdg_charge usqrt (Some f) (jrender d) defstr (SelOne (Z.of_nat k))
  = Oscar.Ok (jfiltered tok_float tok_int pdg_valid pdg_charge usqrt f d s1 s2 k 1).
Proof. exact jload_single_filtered. Qed.
Print Assumptions C02_jetscape_single_with_filter.

Theorem C02_jetscape_filtered_is_select_then_filter :
  forall tok_float tok_int pdg_valid pdg_charge usqrt (f : list particle -> list particle) d s1 s2 a n,
  match j_events (jfiltered tok_float tok_int pdg_valid pdg_charge usqrt f d s1 s2 a n) with
  | [[]] => kept f (j_events (jsliced tok_float tok_int pdg_valid pdg_charge usqrt d s1 s2 a n)) = [] \/
            kept f (j_events (jsliced tok_float tok_int pdg_valid pdg_charge usqrt d s1 s2 a n)) = [[]]
  | evs => evs = kept f (j_events (jsliced tok_float tok_int pdg_valid pdg_charge usqrt d s1 s2 a n))
  end /\
  map snd (j_counts (jfiltered tok_float tok_int pdg_valid pdg_charge usqrt f d s1 s2 a n))
  = map (fun ev => Z.of_nat (List.length ev))
        (kept f (j_events (jsliced tok_float tok_int pdg_valid pdg_charge usqrt d s1 s2 a n))) /\
  j_nevents (jfiltered tok_float tok_int pdg_valid pdg_charge usqrt f d s1 s2 a n)
  = Z.of_nat (List.length (kept f (j_events (jsliced tok_float tok_int pdg_valid pdg_charge usqrt d s1 s2 a n)))) /\
  j_counts_2d (jfiltered tok_float tok_int pdg_valid pdg_charge usqrt f d s1 s2 a n) = true /\
  j_sigma (jfiltered tok_float tok_int pdg_valid pdg_charge usqrt f d s1 s2 a n)
  = j_sigma (jsliced tok_float tok_int pdg_valid pdg_charge usqrt d s1 s2 a n).
Proof. exact jfiltered_is_select_then_filter. Qed.
Print Assumptions C02_jetscape_filtered_is_select_then_filter.

(* labels under a filter: row i carries a+1+i; when the filter drops no selected event these are the ORIGINAL labels of
   the selected events and the counts are the filtered sizes, event by event *)
Theorem C02_jetscape_filter_labels :
  forall tok_float tok_int pdg_valid pdg_charge usqrt (f : list particle -> list particle) d s1 s2 a n,
  (forall i c, nth_error (j_counts (jfiltered tok_float tok_int pdg_valid pdg_charge usqrt f d s1 s2 a n)) i = Some c ->
               fst c = (Z.of_nat a + 1 + Z.of_nat i)%Z) /\
  ((a + n <= List.length (jd_events d))%nat ->
   Forall (fun ev => keeps f ev = true) (j_events (jsliced tok_float tok_int pdg_valid pdg_charge usqrt d s1 s2 a n)) ->
   map fst (j_counts (jfiltered tok_float tok_int pdg_valid pdg_charge usqrt f d s1 s2 a n))
   = map fst (j_counts (jsliced tok_float tok_int pdg_valid pdg_charge usqrt d s1 s2 a n)) /\
   map snd (j_counts (jfiltered tok_float tok_int pdg_valid pdg_charge usqrt f d s1 s2 a n))
   = map (fun ev => Z.of_nat (List.length (f ev)))
         (j_events (jsliced tok_float tok_int pdg_valid pdg_charge usqrt d s1 s2 a n))).
Proof. exact jfiltered_labels. Qed.
Print Assumptions C02_jetscape_filter_labels.

(* sigmaGen is read from the last line only: any two successful loads of the same file - whatever the selections and
   constructor filters - report the same pair *)
Theorem C02_jetscape_sigma_unaffected :
  forall tok_float tok_int pdg_valid pdg_charge usqrt defstr flt1 flt2 file sel1 sel2 r1 r2,
  jload tok_float tok_int pdg_valid pdg_charge usqrt flt1 file defstr sel1 = Oscar.Ok r1 ->
  jload tok_float tok_int pdg_valid pdg_charge usqrt flt2 file defstr sel2 = Oscar.Ok r2 ->
  j_sigma r1 = j_sigma r2.
Proof. exact jload_sigma_indep. Qed.
Print Assumptions C02_jetscape_sigma_unaffected.

(* non-vacuity: a concrete four-event hadron document (event 2 empty, event 3 a single photon) is well-formed ... *)
Theorem C02_jetscape_example_wf : jwf exj_tf exj_ti exj_pv exj_pc exj_sqrt "N_hadrons" exj_doc (3#2) (1#8).
Proof. exact exj_wf. Qed.
Print Assumptions C02_jetscape_example_wf.

(* ... events=(1,3) keeps labels 2..4; with the charged-particle filter the empty event 2 stays, event 3 is dropped and the
   event read after it is relabelled 3; events=2 with the filter leaves no event; events=4 is IndexError *)
Theorem C02_jetscape_example :
  exj_summary (jload exj_tf exj_ti exj_pv exj_pc exj_sqrt None (jrender exj_doc) "N_hadrons" (SelRange 1 3))
  = Some ([0; 1; 1]%nat, 3%Z, [(2, 0); (3, 1); (4, 1)]%Z, true, ((3#2)%Q, (1#8)%Q)) /\
  exj_summary (jload exj_tf exj_ti exj_pv exj_pc exj_sqrt (Some exj_charged) (jrender exj_doc) "N_hadrons" (SelRange 1 3))
  = Some ([0; 1]%nat, 2%Z, [(2, 0); (3, 1)]%Z, true, ((3#2)%Q, (1#8)%Q)) /\
  exj_summary (jload exj_tf exj_ti exj_pv exj_pc exj_sqrt (Some exj_charged) (jrender exj_doc) "N_hadrons" (SelOne 2))
  = Some ([0]%nat, 0%Z, [], true, ((3#2)%Q, (1#8)%Q)) /\
  jload exj_tf exj_ti exj_pv exj_pc exj_sqrt None (jrender exj_doc) "N_hadrons" (SelOne 4) = Oscar.Err Oscar.IndexError.
Proof. exact exj_loads. Qed.
Print Assumptions C02_jetscape_example.

(* C20, rest of the source tie: the getters and the dispatch on `jet_algorithm` (DESIGN 11.2 listed them as
   "by correspondence only").  Gen/GenJetsRest.v is regenerated on every run from the CURRENT text of JetAnalysis.py
   (tools/py2coq/gen_jets_rest.py: get_jets, get_associated_particles, and perform_jet_finding once more with the
   algorithm argument as a Python value and fastjet's exception class kept apart; runtime Model/JetsRt.v +
   Model/JetsRestRt.v).  Only statements closed by [exact]; proofs in Proofs/C20_SourceRest.v.
   o_* are the fastjet oracles (o_clusterx: the jets fastjet finds for a jet definition and the input momenta;
   perp/eta/phi, delta_phi_to) and np.sqrt. *)
From Coq Require Import List ZArith QArith Bool String.
From SX Require Import Model.Jets Model.JetsSpec Model.JetsRt Model.JetsRestRt Gen.GenJets Gen.GenJetsRest
     Proofs.C20_Source Proofs.C20_SourceRest.
Import ListNotations.

(* ---- 1. the getters ------------------------------------------------------------------------------------------------ *)

(* get_jets = the model's: TypeError when nothing was read, the first row of every group, IndexError on an empty group *)
Theorem C20_rest_get_jets :
  forall self,
  gen_get_jets self
  = match jet_data_ self with None => PErr TypeError | Some d => res_of (get_jets d) end.
Proof. exact source_get_jets. Qed.
Print Assumptions C20_rest_get_jets.

(* get_associated_particles = the model's: TypeError when nothing was read, every group without its first row, in order *)
Theorem C20_rest_get_associated :
  forall self,
  gen_get_associated_particles self
  = match jet_data_ self with None => PErr TypeError | Some d => POk (get_associated_particles d) end.
Proof. exact source_get_associated. Qed.
Print Assumptions C20_rest_get_associated.

(* nothing was read (a new object, or any object whose jet_data_ is None): both getters raise TypeError *)
Theorem C20_rest_getters_unread :
  gen_get_jets gen_new = PErr TypeError /\ gen_get_associated_particles gen_new = PErr TypeError
  /\ (forall self, jet_data_ self = None ->
      gen_get_jets self = PErr TypeError /\ gen_get_associated_particles self = PErr TypeError).
Proof. exact source_getters_unread. Qed.
Print Assumptions C20_rest_getters_unread.

(* EVERY file content the reader accepts: get_jets succeeds (no empty group); every group is its jet row followed by its
   associated rows; the groups in order are the rows of the file, none lost or moved; associated rows have an
   index <> 0 and every jet row except possibly the first has index 0 (so the split is the one at the index-0 rows) *)
Theorem C20_rest_getters_after_read :
  forall (fs : file) d,
  read_jet_data fs = Ok d ->
  exists jets,
    get_jets d = Ok jets
    /\ List.length jets = List.length (get_associated_particles d)
    /\ d = map (fun ja => fst ja :: snd ja) (combine jets (get_associated_particles d))
    /\ content fs = map JetLine (List.concat d)
    /\ Forall (Forall (fun r => r_idx r <> 0%Z)) (get_associated_particles d)
    /\ Forall (fun r => r_idx r = 0%Z) (tl jets).
Proof. exact getters_after_read. Qed.
Print Assumptions C20_rest_getters_after_read.

(* the same on the regenerated methods: read_jet_data returned, then the getters return what the model's return *)
Theorem C20_rest_read_then_getters :
  forall self (fs f' : file) self',
  gen_read_jet_data self fs = (f', POk (self', tt)) ->
  f' = fs
  /\ exists d jets,
       read_jet_data fs = Ok d /\ jet_data_ self' = Some d /\ get_jets d = Ok jets
       /\ gen_get_jets self' = POk jets
       /\ gen_get_associated_particles self' = POk (get_associated_particles d).
Proof. exact source_read_then_getters. Qed.
Print Assumptions C20_rest_read_then_getters.

(* composed with the writer (C20_source_perform + C20_content): what perform_jet_finding wrote, read back with
   read_jet_data, is returned by get_jets as the jet rows of exactly the selected jets (momentum after hole subtraction,
   event index) and by get_associated_particles, jet by jet, as the rows of their associated particles numbered from 1.
   Same hypotheses as C20_content and C20_source_perform. *)
Theorem C20_rest_roundtrip :
  forall o_cluster o_perp o_eta o_phi o_dphi o_sqrt self (prior : file) evs al R eta pt ch,
  let a := Params al R eta pt ch in
  let dR := dR_of o_eta o_dphi o_sqrt in
  let js := selected_jets o_cluster o_eta dR a evs in
  valid a -> Forall (event_ok o_cluster o_eta a) evs ->
  (forall w p ev jet holes,
     check_params a = Ok (w, p) -> In ev evs -> In jet (select o_cluster o_eta a w p ev) ->
     fill dR R jet Negative false ev = Ok holes -> perp_at o_perp (jet_hole_subtraction jet holes)) ->
  exists self1,
    gen_perform_jet_finding o_cluster o_perp o_eta o_phi o_dphi o_sqrt self prior evs R eta pt ch (GModel al)
    = (Some (lines_of o_perp o_eta o_phi js), POk (self1, tt))
    /\ forall self2, exists self3,
         gen_read_jet_data self2 (Some (lines_of o_perp o_eta o_phi js)) = (Some (lines_of o_perp o_eta o_phi js), POk (self3, tt))
         /\ gen_get_jets self3 = POk (map (fun jo => jet_row o_perp o_eta o_phi (jo_mom jo) (jo_event jo)) js)
         /\ gen_get_associated_particles self3
            = POk (map (fun jo => hadron_rows o_perp o_eta o_phi 1 (jo_assoc jo) (jo_event jo)) js).
Proof. exact source_roundtrip. Qed.
Print Assumptions C20_rest_roundtrip.

(* ---- 2. the dispatch on jet_algorithm ------------------------------------------------------------------------------ *)

(* perform_jet_finding for EVERY value of jet_algorithm (an int [AInt n], or a value that is no int [AOther]; 99 =
   plugin_algorithm excluded: the real call ends the process): the parameter check comes first and the file is created
   empty; then either every event is clustered with ONE fastjet definition - number, radius R, and the extra parameter
   -1.0 exactly for genkt and ee_genkt - and the call is Model/Jets.v's [perform] with that clustering; or, for an
   unsupported value, the first event raises (TypeError / fastjet's FastJetError) with the file left empty, and a call
   without events returns normally.  [dispatch_of] (Proofs/C20_SourceRest.v) is the closed form of that table. *)
Theorem C20_rest_perform_dispatch :
  forall o_clusterx o_perp o_eta o_phi o_dphi o_sqrt self (fs : file) evs R eta pt ch a,
  a <> AInt 99 ->
  (forall n x w p ev jet holes,
     dispatch_of a = DCluster n x ->
     check_params (Params AntiKt R eta pt ch) = Ok (w, p) -> In ev evs ->
     In jet (select (cluster_of o_clusterx n x) o_eta (Params AntiKt R eta pt ch) w p ev) ->
     fill (dR_of o_eta o_dphi o_sqrt) R jet Negative false ev = Ok holes ->
     perp_at o_perp (jet_hole_subtraction jet holes)) ->
  genx_perform_jet_finding o_clusterx o_perp o_eta o_phi o_dphi o_sqrt self fs evs R eta pt ch a
  = let pa := Params AntiKt R eta pt ch in
    match dispatch_of a with
    | DRaise e =>
      match check_params pa with
      | Err e' => (fs, XErr (XPy (exn_of e')))
      | Ok (w, p) => (Some [], match evs with [] => XOk (self_after self evs R w p, tt) | _ :: _ => XErr e end)
      end
    | DCluster n x =>
      let r := perform (cluster_of o_clusterx n x) o_perp o_eta o_phi (dR_of o_eta o_dphi o_sqrt) pa fs evs in
      (fst r, match snd r with
              | Some e => XErr (XPy (exn_of e))
              | None => match check_params pa with
                        | Ok (w, p) => XOk (self_after self evs R w p, tt)
                        | Err e => XErr (XPy (exn_of e))
                        end
              end)
    end.
Proof. exact source_perform_dispatch. Qed.
Print Assumptions C20_rest_perform_dispatch.

(* the table itself: the default, fastjet's named algorithms, every other int, a non-int; and for the five algorithms of
   Model/JetsRt.v ([galg]) the definition requested is the one gen_jets.py's translation builds (extra parameter -1
   exactly for GGenKt / GEEGenKt), by number *)
Theorem C20_rest_dispatch_table :
  genx_default_perform_jet_finding_jet_algorithm = AInt 2
  /\ genx_default_perform_jet_finding_assoc_only_charged = true
  /\ dispatch_of (AInt fj_kt_algorithm) = DCluster 0 None
  /\ dispatch_of (AInt fj_cambridge_algorithm) = DCluster 1 None
  /\ dispatch_of (AInt fj_cambridge_aachen_algorithm) = DCluster 1 None
  /\ dispatch_of (AInt fj_antikt_algorithm) = DCluster 2 None
  /\ dispatch_of (AInt fj_genkt_algorithm) = DCluster 3 (Some (-1 # 1))
  /\ dispatch_of (AInt fj_ee_genkt_algorithm) = DCluster 53 (Some (-1 # 1))
  /\ dispatch_of (AInt fj_cambridge_for_passive_algorithm) = DCluster 11 None
  /\ dispatch_of (AInt fj_ee_kt_algorithm) = DRaise FastJetError
  /\ dispatch_of (AInt fj_genkt_for_passive_algorithm) = DRaise FastJetError
  /\ dispatch_of (AInt fj_undefined_jet_algorithm) = DRaise FastJetError
  /\ dispatch_of AOther = DRaise (XPy TypeError)
  /\ (forall n, ~ In n [0; 1; 2; 3; 11; 53]%Z -> (-2147483648 <= n <= 2147483647)%Z -> dispatch_of (AInt n) = DRaise FastJetError)
  /\ (forall n, (n < -2147483648 \/ 2147483647 < n)%Z -> dispatch_of (AInt n) = DRaise (XPy TypeError))
  /\ (forall g R, exists x, dispatch_of (AInt (code_of g)) = DCluster (code_of g) x
                          /\ x = (if galg_eqb g GEEGenKt || galg_eqb g GGenKt then Some (-1 # 1) else None)
                          /\ XJetDefinition (code_of g) R x = xjetdef_of (JetDefinition g R x)).
Proof. exact source_dispatch_table. Qed.
Print Assumptions C20_rest_dispatch_table.

(* on the three algorithms of Model/Jets.v this translation and gen_jets.py's (C20_source_perform) are the same function:
   the wider oracle restricted to Model/JetsRt.v's [cluster], same hypothesis as C20_source_perform *)
Theorem C20_rest_perform_model :
  forall o_cluster o_perp o_eta o_phi o_dphi o_sqrt self (fs : file) evs al R eta pt ch,
  (forall w p ev jet holes,
     check_params (Params al R eta pt ch) = Ok (w, p) -> In ev evs ->
     In jet (select o_cluster o_eta (Params al R eta pt ch) w p ev) ->
     fill (dR_of o_eta o_dphi o_sqrt) R jet Negative false ev = Ok holes ->
     perp_at o_perp (jet_hole_subtraction jet holes)) ->
  genx_perform_jet_finding (xcluster_of o_cluster) o_perp o_eta o_phi o_dphi o_sqrt self fs evs R eta pt ch
                           (AInt (code_of (GModel al)))
  = xliftF (gen_perform_jet_finding o_cluster o_perp o_eta o_phi o_dphi o_sqrt self fs evs R eta pt ch (GModel al)).
Proof. exact source_perform_x_model. Qed.
Print Assumptions C20_rest_perform_model.

(* the model's [perform] looks at the clustering function only at the call's algorithm and radius - so every theorem of
   Properties/C20.v (quantified over the clustering) applies to [cluster_of o_clusterx n x], genkt included *)
Theorem C20_rest_perform_ext :
  forall (cl1 cl2 : alg -> Q -> list vec4 -> list vec4) o_perp o_eta o_phi dR al1 al2 R eta pt ch f evs,
  (forall l, cl1 al1 R l = cl2 al2 R l) ->
  perform cl1 o_perp o_eta o_phi dR (Params al1 R eta pt ch) f evs
  = perform cl2 o_perp o_eta o_phi dR (Params al2 R eta pt ch) f evs.
Proof. exact perform_ext. Qed.
Print Assumptions C20_rest_perform_ext.

(* write / read back / get for EVERY argument that is dispatched to a clustering (genkt, ee_genkt with p = -1 included) *)
Theorem C20_rest_roundtrip_dispatch :
  forall o_clusterx o_perp o_eta o_phi o_dphi o_sqrt self (prior : file) evs R eta pt ch alg n x,
  let a := Params AntiKt R eta pt ch in
  let cl := cluster_of o_clusterx n x in
  let dR := dR_of o_eta o_dphi o_sqrt in
  let js := selected_jets cl o_eta dR a evs in
  alg <> AInt 99 -> dispatch_of alg = DCluster n x ->
  valid a -> Forall (event_ok cl o_eta a) evs ->
  (forall w p ev jet holes,
     check_params a = Ok (w, p) -> In ev evs -> In jet (select cl o_eta a w p ev) ->
     fill dR R jet Negative false ev = Ok holes -> perp_at o_perp (jet_hole_subtraction jet holes)) ->
  exists self1,
    genx_perform_jet_finding o_clusterx o_perp o_eta o_phi o_dphi o_sqrt self prior evs R eta pt ch alg
    = (Some (lines_of o_perp o_eta o_phi js), XOk (self1, tt))
    /\ forall self2, exists self3,
         gen_read_jet_data self2 (Some (lines_of o_perp o_eta o_phi js)) = (Some (lines_of o_perp o_eta o_phi js), POk (self3, tt))
         /\ gen_get_jets self3 = POk (map (fun jo => jet_row o_perp o_eta o_phi (jo_mom jo) (jo_event jo)) js)
         /\ gen_get_associated_particles self3
            = POk (map (fun jo => hadron_rows o_perp o_eta o_phi 1 (jo_assoc jo) (jo_event jo)) js).
Proof. exact source_roundtrip_dispatch. Qed.
Print Assumptions C20_rest_roundtrip_dispatch.

(* non-vacuity: genkt on the call of C20_source_example (only the definition genkt, R = 1, p = -1 finds the jet: the
   hypothesis holds and two rows are written), antikt finds nothing there, and the unsupported arguments *)
Theorem C20_rest_dispatch_example :
  (forall n x w p ev jet holes,
     dispatch_of (AInt fj_genkt_algorithm) = DCluster n x ->
     check_params (Params AntiKt 1 (Some 2, Some (-2)) (None, Some 6) true) = Ok (w, p) -> In ev sx_events ->
     In jet (select (cluster_of sxx_cluster n x) sx_eta (Params AntiKt 1 (Some 2, Some (-2)) (None, Some 6) true) w p ev) ->
     fill (dR_of sx_eta sx_dphi sx_sqrt) 1 jet Negative false ev = Ok holes ->
     perp_at sx_perp (jet_hole_subtraction jet holes))
  /\ List.length (content (fst (sxx_run (AInt fj_genkt_algorithm)))) = 2%nat
  /\ (exists s, snd (sxx_run (AInt fj_genkt_algorithm)) = XOk (s, tt))
  /\ sxx_run (AInt fj_antikt_algorithm) = (Some [], snd (sxx_run (AInt fj_antikt_algorithm)))
  /\ sxx_run (AInt fj_ee_kt_algorithm) = (Some [], XErr FastJetError)
  /\ sxx_run (AInt 7) = (Some [], XErr FastJetError)
  /\ sxx_run (AInt fj_undefined_jet_algorithm) = (Some [], XErr FastJetError)
  /\ sxx_run AOther = (Some [], XErr (XPy TypeError)).
Proof. exact source_dispatch_example. Qed.
Print Assumptions C20_rest_dispatch_example.

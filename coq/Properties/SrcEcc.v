(* C18 source tie - the hand model Model/Ecc.v (ecc_from_particles, ecc_from_lattice and everything they are built from)
   equals the method bodies of EventCharacteristics in src/sparkx/EventCharacteristics.py as regenerated on every run
   (Gen/GenEccMethods.v by tools/py2coq/gen_ecc_methods.py over the runtime Model/EccRt.v): set_event_data, __init__,
   eccentricity_from_particles, eccentricity_from_lattice, eccentricity - whole bodies: argument checks, type checks, the
   weight dispatch, the loops over the particles / over np.ndindex of the grid shape, the radial-power chain, the division
   and the returned complex number.  Only statements closed by [exact]; proofs in Proofs/Ecc_Source.v.
   K, k0 .. kopp: the carrier of the float values with its operations; kis0: its zero test (only [kis0 k0 = true] is used:
   an empty event divides the Python floats 0.0 / 0.0).
   ORACLES upow (`**` with a float exponent), uatan2, ucos, usin (np.arctan2, np.cos, np.sin): what is assumed of them is
   [point_law n E x y r] for every point the loop visits, with r the radius the hand model carries for that point -
       (x**2 + y**2) ** (E / 2.0) = r^E      and      (cos, sin)(n * arctan2(y, x)) = (unit vector of (x, y, r))^n  [cis_pow]
   - written out in C18_source_point_law; C18_source_laws_R: over R these are facts about cos, sin, the polar angle atan2 and
   exp(e ln b), for every point with r = sqrt(x^2 + y^2).
   A particle is the observation record pobs of Model/Ecc.v; a Lattice3D is the record EccRt.lattice, [lattice_wf] says that
   its coordinate arrays have num_points_* entries and its grid that shape (what Lattice3D.__init__ establishes). *)
From Coq Require Import List ZArith Bool String Reals.
From SX Require Import Lib.KRing Lib.Py Lib.RealAux Gen.GenEcc Model.Ecc Model.EccRt Gen.GenEccMethods Proofs.C18_Model Proofs.C18_Real
  Proofs.Ecc_Source.
Import ListNotations.

(* set_event_data: a Lattice3D is stored as it is with has_lattice_ = True; a list / ndarray whose elements are all Particle
   objects is stored with has_lattice_ = False; a list / ndarray with another element, or any other object: TypeError *)
Theorem C18_source_set_event_data :
  forall (K : Type) (self : ecself K) (arg : evarg K),
  gen_set_event_data K self arg
  = match arg with
    | ALattice _ => Ok (ECSelf arg true)
    | ASeq _ items => if forallb (fun o => match o with OParticle _ => true | OOther => false end) items
                      then Ok (ECSelf arg false) else Err TypeError
    | AOther => Err TypeError
    end.
Proof. exact source_set_event_data. Qed.
Print Assumptions C18_source_set_event_data.

(* __init__ only calls set_event_data *)
Theorem C18_source_init :
  forall (K : Type) (self : ecself K) (arg : evarg K), gen_init K self arg = gen_set_event_data K self arg.
Proof. exact (fun K self arg => eq_trans (source_init K self arg) (eq_sym (source_set_event_data K self arg))). Qed.
Print Assumptions C18_source_init.

(* eccentricity_from_particles on an object that holds a list / array of particles IS the hand model, for every harmonic_n,
   harmonic_m, weight name and particle list: both ValueErrors of the argument checks, ZeroDivisionError for an empty event,
   ValueError for an unknown weight (only when there is a particle), a non-finite result (None) for a NaN weight or a
   vanishing denominator, the value otherwise *)
Theorem C18_source_eccentricity_from_particles :
  forall (K : Type) (k0 k1 : K) (kadd kmul ksub kdiv : K -> K -> K) (kopp : K -> K) (kis0 : K -> bool)
         (upow uatan2 : K -> K -> K) (ucos usin : K -> K),
  kis0 k0 = true ->
  forall (self : ecself K) (n : Z) (m : option Z) (wq : string) (b : bool) (ps : list (pobs K)),
  event_data_ self = ASeq b (map OParticle ps) ->
  (forall p, In p ps ->
     point_law K k0 k1 kadd kmul ksub kdiv kopp kis0 upow uatan2 ucos usin n (radial_power n m) (ox p) (oy p) (orad p)) ->
  gen_eccentricity_from_particles K k0 k1 kadd kmul kdiv kopp kis0 upow uatan2 ucos usin self n m wq
  = ecc_from_particles K k0 k1 kadd kmul ksub kdiv kopp kis0 n m wq ps.
Proof. exact source_eccentricity_from_particles. Qed.
Print Assumptions C18_source_eccentricity_from_particles.

(* ... on an object that holds no list / array (a lattice, anything else): TypeError, after the two argument checks *)
Theorem C18_source_eccentricity_from_particles_type :
  forall (K : Type) (k0 k1 : K) (kadd kmul kdiv : K -> K -> K) (kopp : K -> K) (kis0 : K -> bool)
         (upow uatan2 : K -> K -> K) (ucos usin : K -> K) (self : ecself K) (n : Z) (m : option Z) (wq : string),
  (1 <= n)%Z -> match m with Some v => (1 <= v)%Z | None => True end ->
  (forall b items, event_data_ self <> ASeq b items) ->
  gen_eccentricity_from_particles K k0 k1 kadd kmul kdiv kopp kis0 upow uatan2 ucos usin self n m wq = Err TypeError.
Proof. exact source_eccentricity_from_particles_type. Qed.
Print Assumptions C18_source_eccentricity_from_particles_type.

(* eccentricity_from_lattice on an object that holds a well-formed lattice IS the hand model: the nodes in the order of
   np.ndindex (x index slowest, z fastest; every z), coordinates from get_coordinates, weight from get_value_by_index *)
Theorem C18_source_eccentricity_from_lattice :
  forall (K : Type) (k0 k1 : K) (kadd kmul ksub kdiv : K -> K -> K) (kopp : K -> K) (kis0 : K -> bool)
         (upow uatan2 : K -> K -> K) (ucos usin : K -> K),
  kis0 k0 = true ->
  forall (self : ecself K) (n : Z) (m : option Z) (L : lattice K) (rad : K -> K -> K),
  event_data_ self = ALattice L -> lattice_wf K L ->
  (forall x y, In x (l_x_values L) -> In y (l_y_values L) ->
     point_law K k0 k1 kadd kmul ksub kdiv kopp kis0 upow uatan2 ucos usin n (radial_power n m) x y (rad x y)) ->
  gen_eccentricity_from_lattice K k0 k1 kadd kmul kdiv kopp kis0 upow uatan2 ucos usin self n m
  = ecc_from_lattice K k0 k1 kadd kmul ksub kdiv kopp kis0 n m (l_x_values L) (l_y_values L) (List.length (l_z_values L)) rad
      (l_grid L).
Proof. exact source_eccentricity_from_lattice. Qed.
Print Assumptions C18_source_eccentricity_from_lattice.

(* ... on an object that holds a list / array: TypeError after the argument checks; on any other object: no grid_ *)
Theorem C18_source_eccentricity_from_lattice_type :
  forall (K : Type) (k0 k1 : K) (kadd kmul kdiv : K -> K -> K) (kopp : K -> K) (kis0 : K -> bool)
         (upow uatan2 : K -> K -> K) (ucos usin : K -> K) (self : ecself K) (n : Z) (m : option Z),
  (1 <= n)%Z -> match m with Some v => (1 <= v)%Z | None => True end ->
  (forall b items, event_data_ self = ASeq b items ->
     gen_eccentricity_from_lattice K k0 k1 kadd kmul kdiv kopp kis0 upow uatan2 ucos usin self n m = Err TypeError)
  /\ (event_data_ self = AOther ->
      gen_eccentricity_from_lattice K k0 k1 kadd kmul kdiv kopp kis0 upow uatan2 ucos usin self n m = Err AttributeError).
Proof. exact source_eccentricity_from_lattice_type. Qed.
Print Assumptions C18_source_eccentricity_from_lattice_type.

(* eccentricity: dispatch on has_lattice_; harmonic_n, harmonic_m, weight_quantity are passed through unchanged *)
Theorem C18_source_eccentricity :
  forall (K : Type) (k0 k1 : K) (kadd kmul kdiv : K -> K -> K) (kopp : K -> K) (kis0 : K -> bool)
         (upow uatan2 : K -> K -> K) (ucos usin : K -> K) (self : ecself K) (n : Z) (m : option Z) (wq : string),
  gen_eccentricity K k0 k1 kadd kmul kdiv kopp kis0 upow uatan2 ucos usin self n m wq
  = if has_lattice_ self
    then gen_eccentricity_from_lattice K k0 k1 kadd kmul kdiv kopp kis0 upow uatan2 ucos usin self n m
    else gen_eccentricity_from_particles K k0 k1 kadd kmul kdiv kopp kis0 upow uatan2 ucos usin self n m wq.
Proof. exact source_eccentricity. Qed.
Print Assumptions C18_source_eccentricity.

(* the public call on an object constructed from particles / from a lattice is the hand model *)
Theorem C18_source_eccentricity_particles :
  forall (K : Type) (k0 k1 : K) (kadd kmul ksub kdiv : K -> K -> K) (kopp : K -> K) (kis0 : K -> bool)
         (upow uatan2 : K -> K -> K) (ucos usin : K -> K),
  kis0 k0 = true ->
  forall (self0 self : ecself K) (n : Z) (m : option Z) (wq : string) (b : bool) (ps : list (pobs K)),
  gen_init K self0 (ASeq b (map OParticle ps)) = Ok self ->
  (forall p, In p ps ->
     point_law K k0 k1 kadd kmul ksub kdiv kopp kis0 upow uatan2 ucos usin n (radial_power n m) (ox p) (oy p) (orad p)) ->
  gen_eccentricity K k0 k1 kadd kmul kdiv kopp kis0 upow uatan2 ucos usin self n m wq
  = ecc_from_particles K k0 k1 kadd kmul ksub kdiv kopp kis0 n m wq ps.
Proof. exact source_eccentricity_particles. Qed.
Print Assumptions C18_source_eccentricity_particles.

Theorem C18_source_eccentricity_lattice :
  forall (K : Type) (k0 k1 : K) (kadd kmul ksub kdiv : K -> K -> K) (kopp : K -> K) (kis0 : K -> bool)
         (upow uatan2 : K -> K -> K) (ucos usin : K -> K),
  kis0 k0 = true ->
  forall (self0 self : ecself K) (n : Z) (m : option Z) (wq : string) (L : lattice K) (rad : K -> K -> K),
  gen_init K self0 (ALattice L) = Ok self -> lattice_wf K L ->
  (forall x y, In x (l_x_values L) -> In y (l_y_values L) ->
     point_law K k0 k1 kadd kmul ksub kdiv kopp kis0 upow uatan2 ucos usin n (radial_power n m) x y (rad x y)) ->
  gen_eccentricity K k0 k1 kadd kmul kdiv kopp kis0 upow uatan2 ucos usin self n m wq
  = ecc_from_lattice K k0 k1 kadd kmul ksub kdiv kopp kis0 n m (l_x_values L) (l_y_values L) (List.length (l_z_values L)) rad
      (l_grid L).
Proof. exact source_eccentricity_lattice. Qed.
Print Assumptions C18_source_eccentricity_lattice.

(* defaults: harmonic_m = None everywhere, weight_quantity = "energy" *)
Theorem C18_source_defaults :
  gen_default_eccentricity_from_particles_harmonic_m = None
  /\ gen_default_eccentricity_from_particles_weight_quantity = "energy"%string
  /\ gen_default_eccentricity_from_lattice_harmonic_m = None
  /\ gen_default_eccentricity_harmonic_m = None
  /\ gen_default_eccentricity_weight_quantity = "energy"%string.
Proof. exact source_defaults. Qed.
Print Assumptions C18_source_defaults.

(* what is assumed of the oracles, written out *)
Theorem C18_source_point_law :
  forall (K : Type) (k0 k1 : K) (kadd kmul ksub kdiv : K -> K -> K) (kopp : K -> K) (kis0 : K -> bool)
         (upow uatan2 : K -> K -> K) (ucos usin : K -> K) (n E : Z) (x y r : K),
  point_law K k0 k1 kadd kmul ksub kdiv kopp kis0 upow uatan2 ucos usin n E x y r
  = (upow (kadd (kpow k1 kmul x 2) (kpow k1 kmul y 2)) (kdiv (k_lit K k0 k1 kadd kmul kopp E) (k_lit K k0 k1 kadd kmul kopp 2))
     = kpow k1 kmul r (Z.to_nat E)
     /\ (let u := unitv K k0 k1 kdiv kis0 {| px := x; py := y; pr := r; pw := None |} in
         cis_pow K k0 k1 kadd kmul ksub (fst u) (snd u) (Z.to_nat n))
        = (ucos (kmul (k_lit K k0 k1 kadd kmul kopp n) (uatan2 y x)), usin (kmul (k_lit K k0 k1 kadd kmul kopp n) (uatan2 y x)))).
Proof. exact source_point_law. Qed.
Print Assumptions C18_source_point_law.

(* ... and it holds over R for cos, sin, the polar angle and b ** e = exp (e ln b) (0 ** e = 0), at every point with its
   Euclidean radius, for every n >= 1 and radial power E >= 1 *)
Theorem C18_source_laws_R :
  forall (x y : R) (n E : Z), (1 <= n)%Z -> (1 <= E)%Z ->
  point_law R 0%R 1%R Rplus Rmult Rminus Rdiv Ropp ris0 rpow atan2 cos sin n E x y (sqrt (x * x + y * y)).
Proof. exact source_laws_R. Qed.
Print Assumptions C18_source_laws_R.

(* C05 bridge (attached to C05): the constructor path of Model/CtorFilters.v - [file_loader] / [pobj_loader], the
   per-event application loop that the C05 theorems compare with the method path - is what the loader models
   Model/Oscar.v [load], Model/Jetscape.v [jload], Model/PObj.v [pload] do when their per-event filter parameter is
   the chain applied to a single event.  The loader models are proved equal to the method bodies regenerated from
   OscarLoader.py / JetscapeLoader.py / ParticleObjectLoader.py on every run (Properties/SrcOscarLoader.v,
   SrcJetscapeLoader.v, SrcPObj.v), so the loop of CtorFilters.v no longer rests on the correspondence alone.
   Statements only, closed by [exact]; proofs in Proofs/C05_Bridge.v, C05_BridgeChain.v (loads: Proofs/Bridge_Loads.v over C01/C02).

   Reading guide.
   - [view] is ANY function from a loaded particle (its 25 data slots) to the observation record the filters read.
   - [sel_in_range sel N]: no selector, events=k with 0 <= k < N, or events=(a,b) with 0 <= a <= b < N.
   - ld0 = the load WITHOUT filters for the same selector: its events are "the selected events".
   - [realises view apply f evs]: on every event of evs the chain succeeds and f is its result,
       apply_one apply (map view data) = Ok (map view (f data))   (apply_one e = apply [e] [0]).
     The loader models take a TOTAL per-event function (Model/Oscar.v, as in the source tie's akf_hand), so a chain
     that raises on a selected event is outside the file-loader bridges (CtorFilters.v then returns that exception,
     the loader models have no counterpart); the particle-object bridge covers it ([pload]'s filter may raise).
   - labels: CtorFilters.v carries the COUNT COLUMN only.  The bridges state  map snd (count rows of the loader)
     = counts of CtorFilters.v,  and separately [consecutive first rows]: the loader's labels are first, first+1, ...
     (first = the first selected position; + 1 for JETSCAPE) - after a dropped event the later labels are renumbered,
     which is what the code does (C02).  When no event is left both sides hold the placeholder [[]] and no rows. *)
From Coq Require Import List String ZArith QArith Bool.
From SX Require Import Lib.Strs Gen.GenParticleMap Model.Oscar Model.OscarDoc Model.Jetscape Model.JetscapeDoc
  Proofs.C02_Filter Proofs.Bridge_Loads.
From SX Require Import Lib.Py Model.PObj.
From SX Require Import Model.PyRt Model.FilterSpec Model.CtorFilters Gen.GenFilters Gen.GenDispatch
  Proofs.C05_Link Proofs.C05_Main Proofs.C05_Bridge Proofs.C05_BridgeChain Proofs.Bridge_Example.
Import ListNotations.

(* ---- the loop of CtorFilters.v in closed form, for ANY chain realised by f: every event is filtered on its own and
   dropped iff it was non-empty and became empty ([kept] of C02); [[]] when nothing is left; counts = sizes kept *)
Theorem C05_bridge_loop :
  forall (view : particle -> pobs) apply f evs,
  realises view apply f evs ->
  file_loader apply (map (map view) evs)
  = PyRt.Ok (map (map view) (norm_events (kept f evs)), map (fun e => Z.of_nat (List.length e)) (kept f evs)).
Proof. exact file_loader_kept. Qed.
Print Assumptions C05_bridge_loop.

(* ---- Oscar: every well-formed document, every selector in range, every chain *)
Theorem C05_bridge_oscar :
  forall tok_float tok_int pdg_valid (view : particle -> pobs) apply f d fmt attrs sel ld0,
  wf tok_float tok_int pdg_valid d fmt attrs -> sel_in_range sel (List.length (d_events d)) ->
  load tok_float tok_int pdg_valid None (render d) sel = Oscar.Ok ld0 ->
  realises view apply f (l_events ld0) ->
  exists ld, load tok_float tok_int pdg_valid (Some f) (render d) sel = Oscar.Ok ld /\
    file_loader apply (map (map view) (l_events ld0)) = PyRt.Ok (map (map view) (l_events ld), map snd (l_counts ld)) /\
    consecutive (sel_first sel) (l_counts ld) /\
    l_nevents ld = Z.of_nat (List.length (l_counts ld)) /\
    l_format ld = l_format ld0 /\ l_attrs ld = l_attrs ld0 /\ l_footers ld = l_footers ld0.
Proof. exact bridge_oscar. Qed.
Print Assumptions C05_bridge_oscar.

(* the load without filters exists for every selector in range (C01/C02), so the theorem above is not vacuous *)
Theorem C05_bridge_oscar_selected :
  forall tok_float tok_int pdg_valid d fmt attrs sel,
  wf tok_float tok_int pdg_valid d fmt attrs -> sel_in_range sel (List.length (d_events d)) ->
  exists a n, sel_span sel (List.length (d_events d)) = Some (a, n) /\
    load tok_float tok_int pdg_valid None (render d) sel
    = Oscar.Ok (C02_Oscar.sliced tok_float tok_int pdg_valid d fmt attrs a n).
Proof. exact load_selected. Qed.
Print Assumptions C05_bridge_oscar_selected.

(* the regenerated dispatch chain of OscarLoader with documented filter calls (the hypotheses of C05_equiv_Oscar): the
   per-event function is given explicitly - [lift_ops view ops] filters by the predicate on the viewed particle for a
   particle-level filter and keeps or empties the event for an event-level cut - no hypothesis about f is left *)
Theorem C05_bridge_oscar_chain :
  forall tok_float tok_int pdg_valid (view : particle -> pobs) cs d fmt attrs sel ld0,
  wf tok_float tok_int pdg_valid d fmt attrs -> sel_in_range sel (List.length (d_events d)) ->
  load tok_float tok_int pdg_valid None (render d) sel = Oscar.Ok ld0 ->
  Forall admissible cs -> Forall (available gen_arity_Oscar) cs -> keys_distinct cs ->
  obs_total (map (map view) (l_events ld0)) ->
  exists ld, load tok_float tok_int pdg_valid (Some (lift_ops view (map call_op cs))) (render d) sel = Oscar.Ok ld /\
    file_loader (fun ev => gen_apply_kwargs_Oscar ev (VDict (dict_of cs))) (map (map view) (l_events ld0))
    = PyRt.Ok (map (map view) (l_events ld), map snd (l_counts ld)) /\
    consecutive (sel_first sel) (l_counts ld) /\
    l_nevents ld = Z.of_nat (List.length (l_counts ld)).
Proof. exact bridge_oscar_chain. Qed.
Print Assumptions C05_bridge_oscar_chain.

(* what [lift_ops] is: the abstract per-event operation of CtorFilters.v seen through [view] *)
Theorem C05_bridge_lift :
  forall (view : particle -> pobs) ops data, abs_event ops (map view data) = map view (lift_ops view ops data).
Proof. exact abs_event_lift. Qed.
Print Assumptions C05_bridge_lift.

(* ---- JETSCAPE *)
Theorem C05_bridge_jetscape :
  forall tok_float tok_int pdg_valid pdg_charge usqrt defstr (view : particle -> pobs) apply f d s1 s2 sel ld0,
  jwf tok_float tok_int pdg_valid pdg_charge usqrt defstr d s1 s2 -> sel_in_range sel (List.length (jd_events d)) ->
  jload tok_float tok_int pdg_valid pdg_charge usqrt None (jrender d) defstr sel = Oscar.Ok ld0 ->
  realises view apply f (j_events ld0) ->
  exists ld, jload tok_float tok_int pdg_valid pdg_charge usqrt (Some f) (jrender d) defstr sel = Oscar.Ok ld /\
    file_loader apply (map (map view) (j_events ld0)) = PyRt.Ok (map (map view) (j_events ld), map snd (j_counts ld)) /\
    consecutive (sel_first sel + 1) (j_counts ld) /\
    j_nevents ld = Z.of_nat (List.length (j_counts ld)) /\
    j_sigma ld = j_sigma ld0.
Proof. exact bridge_jetscape. Qed.
Print Assumptions C05_bridge_jetscape.

Theorem C05_bridge_jetscape_selected :
  forall tok_float tok_int pdg_valid pdg_charge usqrt defstr d s1 s2 sel,
  jwf tok_float tok_int pdg_valid pdg_charge usqrt defstr d s1 s2 -> sel_in_range sel (List.length (jd_events d)) ->
  exists a n, sel_span sel (List.length (jd_events d)) = Some (a, n) /\
    jload tok_float tok_int pdg_valid pdg_charge usqrt None (jrender d) defstr sel
    = Oscar.Ok (C02_Jetscape.jsliced tok_float tok_int pdg_valid pdg_charge usqrt d s1 s2 a n).
Proof. exact jload_selected. Qed.
Print Assumptions C05_bridge_jetscape_selected.

Theorem C05_bridge_jetscape_chain :
  forall tok_float tok_int pdg_valid pdg_charge usqrt defstr (view : particle -> pobs) cs d s1 s2 sel ld0,
  jwf tok_float tok_int pdg_valid pdg_charge usqrt defstr d s1 s2 -> sel_in_range sel (List.length (jd_events d)) ->
  jload tok_float tok_int pdg_valid pdg_charge usqrt None (jrender d) defstr sel = Oscar.Ok ld0 ->
  Forall admissible cs -> Forall (available gen_arity_Jetscape) cs -> keys_distinct cs ->
  obs_total (map (map view) (j_events ld0)) ->
  exists ld, jload tok_float tok_int pdg_valid pdg_charge usqrt (Some (lift_ops view (map call_op cs))) (jrender d) defstr sel
             = Oscar.Ok ld /\
    file_loader (fun ev => gen_apply_kwargs_Jetscape ev (VDict (dict_of cs))) (map (map view) (j_events ld0))
    = PyRt.Ok (map (map view) (j_events ld), map snd (j_counts ld)) /\
    consecutive (sel_first sel + 1) (j_counts ld) /\
    j_nevents ld = Z.of_nat (List.length (j_counts ld)).
Proof. exact bridge_jetscape_chain. Qed.
Print Assumptions C05_bridge_jetscape_chain.

(* ---- particle objects: [pload]'s per-event filter may raise, so the bridge is total - EVERY selector (valid or not),
   event list and chain; [pobj_flt apply] = e |-> apply [e] [0] with the exception class carried over ([py_exn]);
   every selected event is kept *)
Theorem C05_bridge_pobj :
  forall apply s evs,
  match pload pobs None s evs with
  | Py.Err e => pload pobs (Some (pobj_flt apply)) s evs = Py.Err e
  | Py.Ok st0 =>
    match pobj_loader apply (p_events pobs st0) with
    | PyRt.Err e => pload pobs (Some (pobj_flt apply)) s evs = Py.Err (py_exn e)
    | PyRt.Ok (ctor, cnts) =>
      exists st, pload pobs (Some (pobj_flt apply)) s evs = Py.Ok st /\
        p_events pobs st = ctor /\ map snd (p_counts pobs st) = cnts /\
        consecutive (pfirst s) (p_counts pobs st) /\
        p_nevents pobs st = Z.of_nat (List.length ctor)
    end
  end.
Proof. exact bridge_pobj. Qed.
Print Assumptions C05_bridge_pobj.

Theorem C05_bridge_pobj_chain :
  forall cs s evs st0,
  pload pobs None s evs = Py.Ok st0 ->
  Forall admissible cs -> Forall (available gen_arity_PObj) cs -> keys_distinct cs -> obs_total (p_events pobs st0) ->
  exists st ctor cnts,
    pload pobs (Some (pobj_flt (fun ev => gen_apply_kwargs_PObj ev (VDict (dict_of cs))))) s evs = Py.Ok st /\
    pobj_loader (fun ev => gen_apply_kwargs_PObj ev (VDict (dict_of cs))) (p_events pobs st0) = PyRt.Ok (ctor, cnts) /\
    p_events pobs st = ctor /\ map snd (p_counts pobs st) = cnts /\
    consecutive (pfirst s) (p_counts pobs st) /\ p_nevents pobs st = Z.of_nat (List.length ctor).
Proof. exact bridge_pobj_chain. Qed.
Print Assumptions C05_bridge_pobj_chain.

(* ---- non-vacuity: a concrete three-event Oscar2013 document (event 0: a charged and a neutral particle with IDs 7 and
   1, event 1 empty, event 2 one neutral particle), chain charged_particles=True then multiplicity_cut=(1, None):
   the hypotheses of C05_bridge_oscar_chain hold and both sides of its conclusion are computed - the unrestricted
   load keeps [7] and the empty event and drops event 2; events=(1,2) leaves the empty event under label 1;
   events=2 leaves no event (placeholder, no rows) *)
Theorem C05_bridge_example :
  wf bx_tf bx_ti bx_pv bx_doc "Oscar2013" [] /\
  Forall admissible bx_cs /\ Forall (available gen_arity_Oscar) bx_cs /\ keys_distinct bx_cs /\
  (forall sel, obs_total (bx_selected sel)) /\
  map (map pid) (bx_selected SelAll) = [[7; 1]; []; [1]]%Z /\
  bx_loaded SelAll = Some ([[7]; []], 2, [(0, 1); (1, 0)])%Z /\ bx_ctor SelAll = Some ([[7]; []], [1; 0])%Z /\
  bx_loaded (SelRange 1 2) = Some ([[]], 1, [(1, 0)])%Z /\ bx_ctor (SelRange 1 2) = Some ([[]], [0])%Z /\
  bx_loaded (SelOne 2) = Some ([[]], 0, [])%Z /\ bx_ctor (SelOne 2) = Some ([[]], [])%Z.
Proof. exact bridge_example. Qed.
Print Assumptions C05_bridge_example.

(* the same document through the theorem instead of by computation *)
Theorem C05_bridge_example_by_theorem :
  exists ld0 ld,
    load bx_tf bx_ti bx_pv None (render bx_doc) (SelRange 0 2) = Oscar.Ok ld0 /\
    load bx_tf bx_ti bx_pv (Some bx_flt) (render bx_doc) (SelRange 0 2) = Oscar.Ok ld /\
    file_loader bx_chain (map (map bx_view) (l_events ld0))
    = PyRt.Ok (map (map bx_view) (l_events ld), map snd (l_counts ld)) /\
    map snd (l_counts ld) = [1; 0]%Z.
Proof. exact bridge_example_by_theorem. Qed.
Print Assumptions C05_bridge_example_by_theorem.

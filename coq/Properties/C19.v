(* C19 - centrality classification is total, monotone and consistent with its sample.
   Only statements closed by [exact]; the proofs live in Proofs/C19_*.v and are about Model/Centrality.v over
   Gen/GenCentrality.v (rank boundary and stored entries regenerated from the Python source on every run).
   T is any type of multiplicities with a decidable total preorder [leb] (instances below: Q, Z); [t0] is zero.
   Ranks are positions in sort_desc sample (the descending record); class i of the cleaned edge list
   e_0 < e_1 < ... holds the ranks  gen_rank N e_i <= r < gen_rank N e_(i+1). *)
From Coq Require Import List ZArith QArith Bool Sorted Permutation.
From SX Require Import Lib.Py Gen.GenCentrality Model.Centrality
  Proofs.C19_Sort Proofs.C19_Lookup Proofs.C19_Edges Proofs.C19_Build.
Import ListNotations.

(* the record the ranks refer to: a descending permutation of the sample *)
Theorem C19_sorted_record :
  forall T (leb : T -> T -> bool),
  (forall a b, leb a b = true \/ leb b a = true) ->
  (forall a b c, leb a b = true -> leb b c = true -> leb a c = true) ->
  forall sample, Permutation (sort_desc T leb sample) sample /\
                 StronglySorted (fun a b => leb b a = true) (sort_desc T leb sample).
Proof. exact (fun T leb tot tr sample => conj (sort_desc_perm T leb sample) (sort_desc_sorted T leb tot tr sample)). Qed.
Print Assumptions C19_sorted_record.

(* every multiplicity gets exactly one class index in 0..k-1 (k = number of classes >= 1); the fall-through -1 is
   unreachable; the class is the first one whose stored minimum is <= x, else the last *)
Theorem C19_total :
  forall T (leb : T -> T -> bool) (t0 : T),
  (forall a b, leb a b = true \/ leb b a = true) ->
  (forall a b c, leb a b = true -> leb b c = true -> leb a c = true) ->
  forall sample edges st, construct T leb t0 sample edges = Ok st -> (2 <= length (bins st))%nat ->
  forall x, exists c : nat, classify T leb st x = Ok (Z.of_nat c) /\ (c < length (bins st) - 1)%nat /\
                            c = firstge T leb x (dmin st).
Proof. exact classify_total. Qed.
Print Assumptions C19_total.

(* a larger multiplicity is never assigned a more peripheral class *)
Theorem C19_mono :
  forall T (leb : T -> T -> bool) (t0 : T),
  (forall a b, leb a b = true \/ leb b a = true) ->
  (forall a b c, leb a b = true -> leb b c = true -> leb a c = true) ->
  forall sample edges st, construct T leb t0 sample edges = Ok st -> (2 <= length (bins st))%nat ->
  forall x y cx cy, leb x y = true -> classify T leb st x = Ok cx -> classify T leb st y = Ok cy -> (cy <= cx)%Z.
Proof. exact classify_antitone. Qed.
Print Assumptions C19_mono.

(* an event of descending rank r inside the rank interval of class i is assigned class c <= i, and c < i only if the
   event is tied with the stored minimum (lower boundary) of every class c .. i-1 *)
Theorem C19_consistent :
  forall T (leb : T -> T -> bool) (t0 : T),
  (forall a b, leb a b = true \/ leb b a = true) ->
  (forall a b c, leb a b = true -> leb b c = true -> leb a c = true) ->
  forall sample edges st, construct T leb t0 sample edges = Ok st ->
  forall i ea eb r x,
  nth_error (bins st) i = Some ea -> nth_error (bins st) (S i) = Some eb ->
  (rank_of T sample ea <= Z.of_nat r < rank_of T sample eb)%Z ->
  nth_error (sort_desc T leb sample) r = Some x ->
  exists c : nat, classify T leb st x = Ok (Z.of_nat c) /\ (c <= i)%nat /\
    forall j, (c <= j < i)%nat ->
      exists b, nth_error (dmin st) j = Some (Val b) /\ leb b x = true /\ leb x b = true.
Proof. exact classify_consistent. Qed.
Print Assumptions C19_consistent.

(* a class whose rank interval is non-empty stores the multiplicities found at its last and first rank, and these
   bound every multiplicity of the interval *)
Theorem C19_minmax :
  forall T (leb : T -> T -> bool) (t0 : T),
  (forall a b, leb a b = true \/ leb b a = true) ->
  (forall a b c, leb a b = true -> leb b c = true -> leb a c = true) ->
  forall sample edges st, construct T leb t0 sample edges = Ok st ->
  forall i ea eb,
  nth_error (bins st) i = Some ea -> nth_error (bins st) (S i) = Some eb ->
  (rank_of T sample ea < rank_of T sample eb)%Z ->
  exists mn mx,
    nth_error (dmin st) i = Some (Val mn) /\ nth_error (dmax st) i = Some mx /\
    nth_error (sort_desc T leb sample) (Z.to_nat (rank_of T sample eb - 1)) = Some mn /\
    nth_error (sort_desc T leb sample) (Z.to_nat (rank_of T sample ea)) = Some mx /\
    (0 <= rank_of T sample ea)%Z /\
    forall r x, (rank_of T sample ea <= Z.of_nat r < rank_of T sample eb)%Z ->
      nth_error (sort_desc T leb sample) r = Some x -> leb mn x = true /\ leb x mx = true.
Proof. exact minmax_extreme. Qed.
Print Assumptions C19_minmax.

(* unsorted / duplicated edges: same object as from the cleaned list, which is strictly increasing, has the same
   elements and is what centrality_bins_ holds; cleaning is idempotent *)
Theorem C19_clean :
  forall T (leb : T -> T -> bool) (t0 : T) sample edges,
  construct T leb t0 sample edges = construct T leb t0 sample (clean edges) /\
  StronglySorted Qlt (clean edges) /\
  (forall q, InQ q (clean edges) <-> InQ q edges) /\
  clean (clean edges) = clean edges /\
  (forall st, construct T leb t0 sample edges = Ok st -> bins st = clean edges).
Proof.
  exact (fun T leb t0 sample edges =>
    conj (construct_clean T leb t0 sample edges) (conj (clean_strict edges) (conj (clean_same_elements edges)
    (conj (clean_idem edges) (construct_bins T leb t0 sample edges))))).
Qed.
Print Assumptions C19_clean.

(* exactly the admissible inputs are accepted: >= 4 events, no negative multiplicity, edges within [0,100] *)
Theorem C19_accepts :
  forall T (leb : T -> T -> bool) (t0 : T) sample edges,
  (4 <= length sample)%nat -> (forall m, In m sample -> leb t0 m = true) ->
  Forall (fun e => 0 <= e <= 100)%Q edges -> edges <> [] ->
  exists st, construct T leb t0 sample edges = Ok st.
Proof. exact construct_accepts. Qed.
Print Assumptions C19_accepts.

Theorem C19_rejects :
  forall T (leb : T -> T -> bool) (t0 : T) sample edges,
  ((length sample < 4)%nat \/ (exists m, In m sample /\ leb t0 m = false) \/
   (exists e, In e edges /\ ~ (0 <= e <= 100)%Q)) ->
  construct T leb t0 sample edges = Err ValueError.
Proof. exact construct_rejects. Qed.
Print Assumptions C19_rejects.

Theorem C19_no_edges :
  forall T (leb : T -> T -> bool) (t0 : T) sample,
  (4 <= length sample)%nat -> (forall m, In m sample -> leb t0 m = true) ->
  construct T leb t0 sample [] = Err IndexError.
Proof. exact construct_no_edges. Qed.
Print Assumptions C19_no_edges.

(* the statements users read: multiplicities as rationals (every finite double is one) *)
Theorem C19_total_Q :
  forall sample edges st, construct Q Qle_bool 0%Q sample edges = Ok st -> (2 <= length (bins st))%nat ->
  forall x, exists c : nat, classify Q Qle_bool st x = Ok (Z.of_nat c) /\ (c < length (bins st) - 1)%nat /\
                            c = firstge Q Qle_bool x (dmin st).
Proof. exact (classify_total Q Qle_bool 0%Q Qle_bool_total Qle_bool_trans). Qed.
Print Assumptions C19_total_Q.

Theorem C19_mono_Q :
  forall sample edges st, construct Q Qle_bool 0%Q sample edges = Ok st -> (2 <= length (bins st))%nat ->
  forall x y cx cy, (x <= y)%Q -> classify Q Qle_bool st x = Ok cx -> classify Q Qle_bool st y = Ok cy -> (cy <= cx)%Z.
Proof.
  exact (fun sample edges st H H2 x y cx cy L =>
    classify_antitone Q Qle_bool 0%Q Qle_bool_total Qle_bool_trans sample edges st H H2 x y cx cy
      (proj2 (Qle_bool_iff x y) L)).
Qed.
Print Assumptions C19_mono_Q.

Theorem C19_consistent_Z :
  forall sample edges st, construct Z Z.leb 0%Z sample edges = Ok st ->
  forall i ea eb r x,
  nth_error (bins st) i = Some ea -> nth_error (bins st) (S i) = Some eb ->
  (rank_of Z sample ea <= Z.of_nat r < rank_of Z sample eb)%Z ->
  nth_error (sort_desc Z Z.leb sample) r = Some x ->
  exists c : nat, classify Z Z.leb st x = Ok (Z.of_nat c) /\ (c <= i)%nat /\
    forall j, (c <= j < i)%nat ->
      exists b, nth_error (dmin st) j = Some (Val b) /\ Z.leb b x = true /\ Z.leb x b = true.
Proof. exact (classify_consistent Z Z.leb 0%Z Zleb_total Zleb_trans). Qed.
Print Assumptions C19_consistent_Z.

(* non-vacuity: 4 events, a first class (0-10%) that holds no rank: its minimum is +inf, every event is class 1 *)
Theorem C19_example :
  construct Z Z.leb 0%Z [1; 2; 3; 4]%Z [100; 0; 10; 10]%Q
    = Ok {| bins := [0; 10; 100]%Q; dmin := [Inf; Val 1%Z]; dmax := [4; 4]%Z |}
  /\ map (lookup Z Z.leb [Inf; Val 1%Z]) [0; 1; 4; 7]%Z = [Ok 1; Ok 1; Ok 1; Ok 1]%Z
  /\ construct Z Z.leb 0%Z [3; 1; 2; 2; 5; 0]%Z [0; 50; 100]%Q
    = Ok {| bins := [0; 50; 100]%Q; dmin := [Val 2; Val 0]%Z; dmax := [5; 2]%Z |}.
Proof. exact (conj (eq_refl _) (conj (eq_refl _) (eq_refl _))). Qed.
Print Assumptions C19_example.

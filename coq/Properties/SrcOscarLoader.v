(* Source tie of the Oscar reader (attached to C01, C02, C06, C07): the methods of sparkx.loader.OscarLoader and the
   helpers inherited from BaseLoader, regenerated from the CURRENT source on every run (Gen/GenOscarLoader.v, Gallina
   over the Python/numpy fragment Model/OscarLoaderRt.v), equal the hand model Model/Oscar.v.
   Only statements closed by [exact]; proofs in Proofs/OscarLoader_Source.v.

   Reading guide.  The file is its text; [render_lines ls] is the text whose lines are the joins by single blanks of
   the tokens of ls, each followed by a newline; [line_ok]: at least one token, tokens free of blanks and newlines
   (empty tokens allowed).  tf / ti are float(str) / int(str) (None = ValueError), Particle_hand mk is the Particle
   constructor over Model/Oscar.v's mk_particle, akf_hand F is __apply_kwargs_filters as a total map of one event that
   depends on the value of filters=.  A generated method returns (the object afterwards, [a changed argument,] the
   value returned); mkO text path format options end_lines num_events num_output_per_event custom_attr_list is the
   object.  Err classes are those of Model/Oscar.v. *)
From Coq Require Import List String Ascii ZArith QArith Bool.
From SX Require Import Lib.Strs Gen.GenParticleMap Model.Oscar Model.OscarLoaderRt Gen.GenOscarLoader Proofs.OscarLoader_Source.
Import ListNotations.
Local Open Scope string_scope.

(* load(): option checks passed (keys among events/filters; events absent, an int >= 0 or a pair 0 <= a <= b), then
   set_oscar_format, set_num_events, the header scan and set_particle_list in this order, and the returned tuple -
   for every rendered file of at least two lines it is Model/Oscar.v's load, error classes included.
   Hypotheses: int() ignores a final newline (the last line is split with its newline on); the labels of the "out"
   lines are numerals (the source converts them after the scan, the model at once: see labels_ok); the format is not
   one of the two whose header scan the model leaves out. *)
Theorem SrcOscarLoader_load :
  forall tf ti pv F path fmt0 opts0 ends0 nev0 cnt0 d sel first rest,
  (forall t, ti (t ++ String nlc "") = ti t) ->
  Forall line_ok (first :: rest) -> rest <> [] -> labels_ok ti (first :: rest) ->
  (forall fa, oscar_format first = Ok fa -> (fst fa =? "Oscar2013Extended_IC") || (fst fa =? "Oscar2013Extended_Photons") = false) ->
  keys_ok d = true -> assoc "events" d = sel_val sel -> sel_ok sel ->
  gen_load ti (Particle_hand (mk_particle tf ti pv)) (akf_hand F)
    (mkO (render_lines (first :: rest)) path fmt0 opts0 ends0 nev0 cnt0 (OList [])) (ODict d)
  = match load tf ti pv (flt_of F d) (first :: rest) sel with
    | Ok ld => Ok (mkO (render_lines (first :: rest)) path (OStr (l_format ld)) (ODict d) (enc_foots (l_footers ld))
                       (OInt (l_nevents ld)) (OArr (inj_cnt (l_counts ld))) (enc_strs (l_attrs ld)),
                   OTuple [enc_events (l_events ld); OInt (l_nevents ld); OArr (inj_cnt (l_counts ld)); enc_strs (l_attrs ld)])
    | Err e => Err e
    end.
Proof. exact source_load. Qed.
Print Assumptions SrcOscarLoader_load.

(* the same without any assumption on the labels: whenever the model loads the file, the source returns that result *)
Theorem SrcOscarLoader_load_ok :
  forall tf ti pv F path fmt0 opts0 ends0 nev0 cnt0 d sel first rest ld,
  (forall t, ti (t ++ String nlc "") = ti t) ->
  Forall line_ok (first :: rest) -> rest <> [] ->
  keys_ok d = true -> assoc "events" d = sel_val sel -> sel_ok sel ->
  load tf ti pv (flt_of F d) (first :: rest) sel = Ok ld ->
  gen_load ti (Particle_hand (mk_particle tf ti pv)) (akf_hand F)
    (mkO (render_lines (first :: rest)) path fmt0 opts0 ends0 nev0 cnt0 (OList [])) (ODict d)
  = Ok (mkO (render_lines (first :: rest)) path (OStr (l_format ld)) (ODict d) (enc_foots (l_footers ld))
            (OInt (l_nevents ld)) (OArr (inj_cnt (l_counts ld))) (enc_strs (l_attrs ld)),
        OTuple [enc_events (l_events ld); OInt (l_nevents ld); OArr (inj_cnt (l_counts ld)); enc_strs (l_attrs ld)]).
Proof. exact source_load_ok. Qed.
Print Assumptions SrcOscarLoader_load_ok.

(* and a file the model refuses is refused by the source; without labels_ok the class may differ: the model reports an
   event label that is not a numeral at its line (ValueError), the source only when it builds the count table, so
   that a later line with too few tokens wins there (IndexError) *)
Theorem SrcOscarLoader_load_err :
  forall tf ti pv F path fmt0 opts0 ends0 nev0 cnt0 d sel first rest e,
  (forall t, ti (t ++ String nlc "") = ti t) ->
  Forall line_ok (first :: rest) -> rest <> [] ->
  (forall fa, oscar_format first = Ok fa -> (fst fa =? "Oscar2013Extended_IC") || (fst fa =? "Oscar2013Extended_Photons") = false) ->
  keys_ok d = true -> assoc "events" d = sel_val sel -> sel_ok sel ->
  load tf ti pv (flt_of F d) (first :: rest) sel = Err e ->
  exists e', gen_load ti (Particle_hand (mk_particle tf ti pv)) (akf_hand F)
               (mkO (render_lines (first :: rest)) path fmt0 opts0 ends0 nev0 cnt0 (OList [])) (ODict d) = Err e'.
Proof. exact source_load_err. Qed.
Print Assumptions SrcOscarLoader_load_err.

(* load(): what is rejected before the file is touched, and with which class - an unknown keyword (ValueError), a
   tuple with a non-int (TypeError), first > second or a negative bound (ValueError), a negative int (ValueError) *)
Theorem SrcOscarLoader_load_rejects :
  forall ti PART AKF self d e,
  opts_verdict d = Some e -> gen_load ti PART AKF self (ODict d) = Err e.
Proof. exact source_load_rejects. Qed.
Print Assumptions SrcOscarLoader_load_rejects.

(* set_particle_list: __get_num_read_lines, _skip_lines, the rows of the selected events, the read loop with the
   events= / filters= bookkeeping of num_output_per_event_, num_events_, [[]] for no event - equal to the model's load
   from num_skip on (load_tail), for every rendered file, count table, selector and filters *)
Theorem SrcOscarLoader_set_particle_list :
  forall tf ti pv F ls path fmt d ends nev rows foots attrs sel,
  Forall line_ok ls -> assoc "events" d = sel_val sel -> sel_ok sel ->
  gen_set_particle_list ti (Particle_hand (mk_particle tf ti pv)) (akf_hand F)
     (mkO (render_lines ls) path (OStr fmt) (ODict d) ends (OInt nev) (OArr (cnt_of rows)) (enc_strs attrs)) (ODict d)
  = match load_tail tf ti pv (flt_of F d) ls sel fmt attrs nev (rows, foots) with
    | Ok ld => Ok (mkO (render_lines ls) path (OStr fmt) (ODict d) ends (OInt (l_nevents ld)) (OArr (inj_cnt (l_counts ld)))
                       (enc_strs attrs), enc_events (l_events ld))
    | Err e => Err e
    end.
Proof. exact source_set_particle_list. Qed.
Print Assumptions SrcOscarLoader_set_particle_list.

(* __get_num_read_lines / _get_num_skip_lines / _skip_lines *)
Theorem SrcOscarLoader_get_num_read_lines :
  forall ti self d sel rows,
  o_opts self = ODict d -> assoc "events" d = sel_val sel -> sel_nonneg sel -> o_cnt self = OArr (cnt_of rows) ->
  int_of (pair self) (gen_get_num_read_lines ti self) (num_read sel rows).
Proof. exact source_get_num_read_lines. Qed.
Print Assumptions SrcOscarLoader_get_num_read_lines.

Theorem SrcOscarLoader_get_num_skip_lines :
  forall self d sel rows,
  o_opts self = ODict d -> assoc "events" d = sel_val sel -> o_cnt self = OArr (cnt_of rows) ->
  int_of (pair self) (gen_get_num_skip_lines self) (num_skip sel rows).
Proof. exact source_get_num_skip_lines. Qed.
Print Assumptions SrcOscarLoader_get_num_skip_lines.

Theorem SrcOscarLoader_skip_lines :
  forall self d sel rows ls,
  o_opts self = ODict d -> assoc "events" d = sel_val sel -> o_cnt self = OArr (cnt_of rows) -> Forall line_ok ls ->
  gen_skip_lines self (OFile (render_lines ls))
  = match num_skip sel rows with
    | Ok z => Ok (self, OFile (render_lines (skipn (Z.to_nat z) ls)), ONone)
    | Err e => Err e
    end.
Proof. exact source_skip_lines. Qed.
Print Assumptions SrcOscarLoader_skip_lines.

(* set_num_output_per_event_and_event_footers for the formats other than Oscar2013Extended_IC / _Photons: the end
   lines appended to event_end_lines_, the count table as np.array(..., dtype=np.int32, ndmin=2) *)
Theorem SrcOscarLoader_scan :
  forall ti path fmt opts E nev cnt attrs ls,
  Forall line_ok ls -> fmt <> "Oscar2013Extended_IC" -> fmt <> "Oscar2013Extended_Photons" -> labels_ok ti ls ->
  gen_set_num_output_per_event_and_event_footers ti (mkO (render_lines ls) path (OStr fmt) opts (OList E) nev cnt attrs)
  = match scan ti ls with
    | Ok (cs, fs) => Ok (mkO (render_lines ls) path (OStr fmt) opts (OList (E ++ map (fun l => OStr (render_line l)) fs)) nev
                             (OArr (cnt_of cs)) attrs, ONone)
    | Err e => Err e
    end.
Proof. exact source_scan. Qed.
Print Assumptions SrcOscarLoader_scan.

(* set_num_events: the backward byte search for the last line (seek / read(1)), its split with the newline still on,
   the test for "#" and "event", int(token 2) + 1.  [pre] is any non-empty list of lines before the last one. *)
Theorem SrcOscarLoader_set_num_events :
  forall ti path fmt opts ends nev cnt attrs pre lst,
  (forall t, ti (t ++ String nlc "") = ti t) -> pre <> [] -> line_ok lst ->
  gen_set_num_events ti (mkO (render_lines (pre ++ [lst])) path fmt opts ends nev cnt attrs)
  = match num_events_of ti lst with
    | Ok z => Ok (mkO (render_lines (pre ++ [lst])) path fmt opts ends (OInt z) cnt attrs, ONone)
    | Err e => Err e
    end.
Proof. exact source_set_num_events. Qed.
Print Assumptions SrcOscarLoader_set_num_events.

(* a file of a single line: the backward search leaves the file (OSError); Model/Oscar.v's load goes on with that line *)
Theorem SrcOscarLoader_set_num_events_one_line :
  forall ti path fmt opts ends nev cnt attrs l,
  line_ok l ->
  gen_set_num_events ti (mkO (render_lines [l]) path fmt opts ends nev cnt attrs) = Err OtherError.
Proof. exact source_set_num_events_one_line. Qed.
Print Assumptions SrcOscarLoader_set_num_events_one_line.

(* set_oscar_format (+ _set_custom_attr_list): the format sniffed from the first line, in the order of the source *)
Theorem SrcOscarLoader_set_oscar_format :
  forall self first rest, line_ok first -> o_text self = render_lines (first :: rest) ->
  gen_set_oscar_format self = match oscar_format first with Ok fa => Ok (fmt_state self fa, ONone) | Err e => Err e end.
Proof. exact source_set_oscar_format. Qed.
Print Assumptions SrcOscarLoader_set_oscar_format.

Theorem SrcOscarLoader_set_custom_attr_list :
  forall self header,
  gen_set_custom_attr_list self (enc_strs header)
  = Ok (py_setattr self A_attrs (enc_strs (custom_attrs header)), enc_strs (custom_attrs header)).
Proof. exact source_set_custom_attr_list. Qed.
Print Assumptions SrcOscarLoader_set_custom_attr_list.

(* an empty file is a TypeError of set_oscar_format (Model/Oscar.v's load says OtherError there) *)
Theorem SrcOscarLoader_set_oscar_format_empty :
  forall self, o_text self = "" -> gen_set_oscar_format self = Err TypeError.
Proof. exact source_set_oscar_format_empty. Qed.
Print Assumptions SrcOscarLoader_set_oscar_format_empty.

(* impact_parameter: float of the third-last non-empty piece of every kept end line (split with its newline on),
   re-indexed by the labels of num_output_per_event_; end lines whose last token is not empty, labels >= 0 *)
Theorem SrcOscarLoader_impact_parameter :
  forall tf text path fmt opts nev attrs foots counts ld,
  Forall line_ok foots -> Forall (fun l => last l "" <> "") foots -> Forall (fun c : Z * Z => (0 <= fst c)%Z) counts ->
  l_footers ld = foots -> l_counts ld = counts ->
  gen_impact_parameter tf (mkO text path fmt opts (enc_foots foots) nev (OArr (inj_cnt counts)) attrs)
  = match impact_parameters tf ld with
    | Ok qs => Ok (mkO text path fmt opts (enc_foots foots) nev (OArr (inj_cnt counts)) attrs, OList (map OFloat qs))
    | Err e => Err e
    end.
Proof. exact source_impact_parameter. Qed.
Print Assumptions SrcOscarLoader_impact_parameter.

(* _check_that_tuple_contains_integers_only, the accessors oscar_format() / event_end_lines(), __init__ *)
Theorem SrcOscarLoader_check_tuple :
  forall self l,
  gen_check_that_tuple_contains_integers_only self (OTuple l)
  = if forallb is_pyint l then Ok (self, ONone) else Err TypeError.
Proof. exact source_check_tuple. Qed.
Print Assumptions SrcOscarLoader_check_tuple.

Theorem SrcOscarLoader_accessors :
  forall self,
  gen_oscar_format self = (v <- py_getattr self A_fmt ;; Ok (self, v)) /\
  gen_event_end_lines self = (v <- py_getattr self A_ends ;; Ok (self, v)).
Proof. exact source_accessors. Qed.
Print Assumptions SrcOscarLoader_accessors.

Theorem SrcOscarLoader_init :
  forall text p,
  gen_init__ (new_object text) (OStr p)
  = if contains ".oscar" p || contains ".dat" p
    then Ok (mkO text (OStr p) ONone OUnbound OUnbound OUnbound OUnbound (OList []), ONone)
    else Err OtherError.
Proof. exact source_init. Qed.
Print Assumptions SrcOscarLoader_init.

(* non-vacuity: the translated loader run on a two-event file (whole file; events=1 with filters=; filters= only;
   impact parameters; an unknown keyword; a reversed range; an event beyond the file) *)
Theorem SrcOscarLoader_example :
  (exists ld, ex_hand None SelAll = Ok ld) /\
  ex_load [] = match ex_hand None SelAll with
               | Ok ld => Ok (mkO (render_lines ex_lines) (OStr "f.oscar") (OStr (l_format ld)) (ODict []) (enc_foots (l_footers ld))
                                  (OInt (l_nevents ld)) (OArr (inj_cnt (l_counts ld))) (enc_strs (l_attrs ld)),
                              OTuple [enc_events (l_events ld); OInt (l_nevents ld); OArr (inj_cnt (l_counts ld)); enc_strs (l_attrs ld)])
               | Err e => Err e end /\
  (match ex_load [("events", OInt 1); ("filters", OOpaque 0)] with
   | Ok (s, OTuple [OList [OList [OPart p]]; n; c; a]) => (n, c, get_slot 9 p) = (OInt 1, OArr (A2 [(1, 1)%Z]), Some (2212 # 1)%Q)
   | _ => False end) /\
  (match ex_load [("filters", OOpaque 0)] with Ok (s, _) => o_cnt s = OArr (A2 [(0, 1); (1, 1)]%Z) | _ => False end) /\
  (match ex_load [] with Ok (s, _) => exists s', gen_impact_parameter ex_num s = Ok (s', OList [OFloat 3; OFloat 4]) | _ => False end) /\
  ex_load [("event", OInt 0)] = Err ValueError /\
  ex_load [("events", OTuple [OInt 1; OInt 0])] = Err ValueError /\
  ex_load [("events", OInt 2)] = Err IndexError.
Proof. exact source_example. Qed.
Print Assumptions SrcOscarLoader_example.

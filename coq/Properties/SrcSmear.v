(* C16, tie to the source.  Gen/GenSmear.v is regenerated on every run from src/sparkx/Lattice3D.py
   (tools/py2coq/gen_smear.py: the whole bodies of add_particle_data, add_same_spaced_grid, reset and of every method of
   the class they reach, over the runtime Model/SmearRt.v).  The theorems below state that the hand model
   Model/Smear.v - about which the C16 theorems are - and the addressing functions of Model/Lattice.v it uses are what
   these method bodies compute.  Statements only; proofs in Proofs/Smear_Source.v.
   K is the carrier of lattice values (any field; None = NaN), coordinates are exact rationals, fv adds +-inf/NaN;
   kgtb is `>` on K, kofq the embedding of a coordinate-type float into K; P is the particle with its attributes
   pfv / pfk; o_mvn / o_pdf / o_sqrt are scipy's frozen multivariate normal, its pdf and np.sqrt (oracles). *)
From Coq Require Import List ZArith QArith Qabs Bool String Field_theory.
From SX Require Import Lib.KRing Lib.Py Lib.QCheck Gen.GenLattice Model.Lattice Model.Smear Model.SmearRt Gen.GenSmear
     Proofs.C16_Smear Proofs.Smear_Source.
Import ListNotations.

(* ---- the whole method.  [Abs s L]: the object s and the model state L describe the same lattice (consistent node counts /
   arrays / shape / spacings, same axes, cell volume, and node by node the same grid content).  Hypotheses (the domain on which
   the model is claimed to describe the code, see Proofs/Smear_Source.v): no axis has spacing 0; building the kernel object does
   not raise (scipy raises for sigma = 0); a None spacing is not preceded by an axis with a negative half width (the code raises
   TypeError first, the model ValueError); and THE FLOAT PATH [apd_lands]: for every validated particle d, node (i,j,k) of the
   temporary lattice, moved by the coordinates of the closest node dc d, passes the range test of add_same_spaced_grid exactly
   when dc d + (i,j,k) - dm d is a node, and then that node is its nearest neighbour.  [obs] is the model's view of a source
   particle (attributes, the NaN test of the covariant branch as written, the pdf value at each node of the temporary lattice).
   Conclusion: both raise the same exception class, or the resulting object and the resulting model state again describe the
   same lattice. *)
Theorem C16_source_add_particle_data :
  forall (K : Type) (k0 k1 : K) (kadd kmul ksub kdiv : K -> K -> K) (kopp kinv : K -> K) (kgtb : K -> K -> bool)
         (kofq : Q -> K) (P : Type) (pfv : string -> P -> fv) (pfk : string -> P -> option K) (KERN : Type)
         (o_mvn : list fv -> smat -> result KERN) (o_pdf : KERN -> list fv -> option K) (o_sqrt : fv -> fv),
  field_theory k0 k1 kadd kmul ksub kopp kdiv kinv eq ->
  forall (s : lat K) (L : slat K) (ps : list P) (sigma : Q) (quantity kernel : string) (add : bool),
  Abs K s L ->
  spacing_nonzero K s ->
  mvn_ok KERN o_mvn sigma ->
  hw_order_ok K s sigma ->
  (forall (p : P) (d : dep K),
     In p ps -> prep_of K k1 P pfv pfk KERN o_mvn o_pdf o_sqrt s sigma quantity kernel p = Ok d -> apd_lands K k0 kofq s d) ->
  res_rel K (gen_add_particle_data K k0 k1 kadd kmul kdiv kgtb kofq P pfv pfk KERN o_mvn o_pdf o_sqrt s ps sigma quantity kernel add)
    (add_particle_data K k0 k1 kadd kmul kdiv (fun N : K => kgtb N k0) L (nsig3 K s)
       (map (obs K P pfv pfk KERN o_mvn o_pdf o_sqrt s sigma kernel) ps) sigma quantity (kern_of kernel) add).
Proof. exact source_add_particle_data. Qed.
Print Assumptions C16_source_add_particle_data.

(* the float path axis by axis, in the functions of Model/Lattice.v.  [lands1 a dx c m]: node i of the temporary lattice
   (half width m, nodes np.linspace(-m*dx, m*dx, 2m+1)), moved by the coordinate of node c, fails the range test
   (pos < amin - 1e-6*|dx| or pos > amax + 1e-6*|dx|) exactly when c + i - m is not a node of the axis, and otherwise the node
   nearest to min(max(pos, amin), amax) (get_index_nn) is c + i - m.  The three axes give [apd_lands]. *)
Theorem C16_source_float_path_axes :
  forall (K : Type) (k0 : K) (kofq : Q -> K) (s : lat K) (d : dep K),
  wf K s ->
  (let '(mx, my, mz) := dm d in (0 <= mx)%Z /\ (0 <= my)%Z /\ (0 <= mz)%Z) ->
  (forall dx dy dz : Q,
     spacing_x_ s = Some dx -> spacing_y_ s = Some dy -> spacing_z_ s = Some dz ->
     let '(cx, cy, cz) := dc d in let '(mx, my, mz) := dm d in
     lands1 (axis_x K s) dx cx mx /\ lands1 (axis_y K s) dy cy my /\ lands1 (axis_z K s) dz cz mz) ->
  (let '(cx, cy, cz) := dc d in
   (0 <= cx < Z.of_nat (npts (axis_x K s)))%Z /\ (0 <= cy < Z.of_nat (npts (axis_y K s)))%Z /\ (0 <= cz < Z.of_nat (npts (axis_z K s)))%Z) ->
  apd_lands K k0 kofq s d.
Proof. exact apd_lands_axes. Qed.
Print Assumptions C16_source_float_path_axes.

(* ... and in exact arithmetic it HOLDS on a uniformly spaced axis (node k = amin + k*dx, dx > 0, amax the last node):
   what the correspondence checks on doubles is a theorem on rationals *)
Theorem C16_source_float_path_uniform :
  forall (a : axis) (dx : Q) (c m : Z),
  (0 < dx /\ (forall k : nat, (k < npts a)%nat -> nth k (avals a) 0 == amin a + inject_Z (Z.of_nat k) * dx)
   /\ amax a == amin a + inject_Z (Z.of_nat (npts a) - 1) * dx) ->
  (0 <= c < Z.of_nat (npts a))%Z -> (0 <= m)%Z -> lands1 a dx c m.
Proof. exact lands1_uniform. Qed.
Print Assumptions C16_source_float_path_uniform.

(* hence on a lattice whose three axes are uniformly spaced the regenerated method IS the hand model, with no assumption
   about the float path (only: kernel construction does not raise) *)
Theorem C16_source_add_particle_data_uniform :
  forall (K : Type) (k0 k1 : K) (kadd kmul ksub kdiv : K -> K -> K) (kopp kinv : K -> K) (kgtb : K -> K -> bool)
         (kofq : Q -> K) (P : Type) (pfv : string -> P -> fv) (pfk : string -> P -> option K) (KERN : Type)
         (o_mvn : list fv -> smat -> result KERN) (o_pdf : KERN -> list fv -> option K) (o_sqrt : fv -> fv),
  field_theory k0 k1 kadd kmul ksub kopp kdiv kinv eq ->
  forall (s : lat K) (L : slat K) (ps : list P) (sigma : Q) (quantity kernel : string) (add : bool),
  Abs K s L ->
  ((exists dx : Q, spacing_x_ s = Some dx /\ uniform (axis_x K s) dx) /\
   (exists dy : Q, spacing_y_ s = Some dy /\ uniform (axis_y K s) dy) /\ (exists dz : Q, spacing_z_ s = Some dz /\ uniform (axis_z K s) dz)) ->
  mvn_ok KERN o_mvn sigma ->
  res_rel K (gen_add_particle_data K k0 k1 kadd kmul kdiv kgtb kofq P pfv pfk KERN o_mvn o_pdf o_sqrt s ps sigma quantity kernel add)
    (add_particle_data K k0 k1 kadd kmul kdiv (fun N : K => kgtb N k0) L (nsig3 K s)
       (map (obs K P pfv pfk KERN o_mvn o_pdf o_sqrt s sigma kernel) ps) sigma quantity (kern_of kernel) add).
Proof. exact source_add_particle_data_uniform. Qed.
Print Assumptions C16_source_add_particle_data_uniform.

(* end to end: C16_conserve transported to the regenerated method.  A consistent object with finite cell volume and no NaN in
   its grid; whenever the regenerated add_particle_data returns, cell_volume * sum(grid) has grown by the quantities of the
   validated particles ds - provided every one of them has finite kernel values, a kernel sum that passes the guard and its
   stencil inside the lattice ([good], the hypotheses of C16_conserve) *)
Theorem C16_source_conserves :
  forall (K : Type) (k0 k1 : K) (kadd kmul ksub kdiv : K -> K -> K) (kopp kinv : K -> K) (kgtb : K -> K -> bool)
         (kofq : Q -> K) (P : Type) (pfv : string -> P -> fv) (pfk : string -> P -> option K) (KERN : Type)
         (o_mvn : list fv -> smat -> result KERN) (o_pdf : KERN -> list fv -> option K) (o_sqrt : fv -> fv),
  field_theory k0 k1 kadd kmul ksub kopp kdiv kinv eq ->
  (forall N : K, kgtb N k0 = true -> N <> k0) ->
  forall (s s' : lat K) (vol : K) (ps : list P) (sigma : Q) (quantity kernel : string) (add : bool) (ds : list (dep K)),
  wf K s -> cell_volume_ s = Some vol -> vol <> k0 ->
  (forall q : Z * Z * Z, inside (dims K s) q = true -> cell (grid_ s) q <> None) ->
  spacing_nonzero K s -> mvn_ok KERN o_mvn sigma -> hw_order_ok K s sigma ->
  (forall (p : P) (d : dep K),
     In p ps -> prep_of K k1 P pfv pfk KERN o_mvn o_pdf o_sqrt s sigma quantity kernel p = Ok d -> apd_lands K k0 kofq s d) ->
  gen_add_particle_data K k0 k1 kadd kmul kdiv kgtb kofq P pfv pfk KERN o_mvn o_pdf o_sqrt s ps sigma quantity kernel add = Ok s' ->
  mapM (prep K k1 (axis_x K s) (axis_y K s) (axis_z K s) (nsig3 K s) sigma quantity (kern_of kernel))
       (map (obs K P pfv pfk KERN o_mvn o_pdf o_sqrt s sigma kernel) ps) = Ok ds ->
  Forall (good K k0 kadd (fun N : K => kgtb N k0) (dims K s)) ds ->
  kmul vol (gsum K k0 kadd (dims K s) (content K k0 s'))
  = kadd (kmul vol (gsum K k0 kadd (dims K s) (if add then content K k0 s else fun _ : Z * Z * Z => k0))) (ksum k0 kadd (map dv ds)).
Proof. exact source_conserves. Qed.
Print Assumptions C16_source_conserves.

(* ---- add_same_spaced_grid: cell (i,j,k) of [other] is added onto node tgt (i,j,k) of self, where [lands] states what tgt is
   in terms of the float path (coordinate of other + centre, range test with tolerance 1e-6 * |spacing|, clamping, nearest
   node); a None spacing of self raises TypeError, spacings that differ by 1e-3 or more ValueError *)
Theorem C16_source_add_same_spaced_grid :
  forall (K : Type) (kadd : K -> K -> K) (s other : lat K) (cx cy cz dx dy dz : Q) (tgt : Z * Z * Z -> option (Z * Z * Z)),
  shape (grid_ s) = dims K s ->
  spacing_x_ s = Some dx -> spacing_y_ s = Some dy -> spacing_z_ s = Some dz ->
  spacing_close dx (spacing_x_ other) && spacing_close dy (spacing_y_ other) && spacing_close dz (spacing_z_ other) = true ->
  lands K s other dx dy dz cx cy cz tgt ->
  gen_add_same_spaced_grid K kadd s other cx cy cz
  = Ok (set_grid_ s (fold_left (place_step K kadd (grid_ other) tgt) (np_ndindex (shape (grid_ other))) (grid_ s))).
Proof. exact source_add_same_spaced_grid. Qed.
Print Assumptions C16_source_add_same_spaced_grid.

Theorem C16_source_add_same_spaced_grid_errors :
  forall (K : Type) (kadd : K -> K -> K) (s other : lat K) (cx cy cz : Q),
  (spacing_x_ s = None \/ spacing_y_ s = None \/ spacing_z_ s = None ->
   gen_add_same_spaced_grid K kadd s other cx cy cz = Err TypeError)
  /\ (forall dx dy dz : Q,
      spacing_x_ s = Some dx -> spacing_y_ s = Some dy -> spacing_z_ s = Some dz ->
      spacing_close dx (spacing_x_ other) && spacing_close dy (spacing_y_ other) && spacing_close dz (spacing_z_ other) = false ->
      gen_add_same_spaced_grid K kadd s other cx cy cz = Err ValueError).
Proof. exact source_add_same_spaced_grid_errors. Qed.
Print Assumptions C16_source_add_same_spaced_grid_errors.

(* ---- reset: every cell of the grid becomes 0, nothing else changes *)
Theorem C16_source_reset :
  forall (K : Type) (k0 : K) (s : lat K),
  gen_reset K k0 s
  = Ok (set_grid_ s (fold_left (fun (g : ndarr K) (p : Z * Z * Z) => arr_upd g p (Some k0)) (np_ndindex (shape (grid_ s))) (grid_ s)))
  /\ forall q : Z * Z * Z,
     cell (fold_left (fun (g : ndarr K) (p : Z * Z * Z) => arr_upd g p (Some k0)) (np_ndindex (shape (grid_ s))) (grid_ s)) q
     = (if inside (shape (grid_ s)) q then Some k0 else cell (grid_ s) q).
Proof. exact (fun K k0 s => conj (source_reset K k0 s) (reset_cell K k0 s)). Qed.
Print Assumptions C16_source_reset.

(* ---- the constructor (the temporary lattice): ZeroDivisionError for a zero node count, ValueError for a negative one,
   otherwise the object init_obj (linspace nodes, zero grid, spacing = difference of the first two nodes), which is
   consistent in the sense [wf] *)
Theorem C16_source_init :
  forall (K : Type) (k0 : K) (kofq : Q -> K) (x0 x1 y0 y1 z0 z1 : Q) (nx ny nz : Z) (sx sy sz : option Q),
  gen___init__ K k0 kofq x0 x1 y0 y1 z0 z1 nx ny nz sx sy sz
  = (if (nx * ny * nz =? 0)%Z then Err ZeroDivisionError
     else if (nx <? 0)%Z || (ny <? 0)%Z || (nz <? 0)%Z then Err ValueError
     else Ok (init_obj K k0 kofq x0 x1 y0 y1 z0 z1 nx ny nz sx sy sz))
  /\ ((0 <= nx)%Z -> (0 <= ny)%Z -> (0 <= nz)%Z -> wf K (init_obj K k0 kofq x0 x1 y0 y1 z0 z1 nx ny nz sx sy sz)).
Proof. exact (fun K k0 kofq x0 x1 y0 y1 z0 z1 nx ny nz sx sy sz =>
                conj (source___init__ K k0 kofq x0 x1 y0 y1 z0 z1 nx ny nz sx sy sz)
                     (init_wf K k0 kofq x0 x1 y0 y1 z0 z1 nx ny nz sx sy sz)). Qed.
Print Assumptions C16_source_init.

(* ---- the addressing helpers these methods call *)
Theorem C16_source_is_valid_index :
  forall (K : Type) (s : lat K) (i j k : Z), gen___is_valid_index K s i j k = Ok (inside (dims K s) (i, j, k)).
Proof. exact source___is_valid_index. Qed.
Print Assumptions C16_source_is_valid_index.

Theorem C16_source_set_value_by_index :
  forall (K : Type) (s : lat K) (i j k : Z) (v : option K),
  shape (grid_ s) = dims K s ->
  gen_set_value_by_index K s i j k v = Ok (if inside (dims K s) (i, j, k) then set_grid_ s (arr_upd (grid_ s) (i, j, k) v) else s).
Proof. exact source_set_value_by_index. Qed.
Print Assumptions C16_source_set_value_by_index.

Theorem C16_source_get_value_by_index :
  forall (K : Type) (s : lat K) (i j k : Z),
  shape (grid_ s) = dims K s ->
  gen_get_value_by_index K s i j k = Ok (if inside (dims K s) (i, j, k) then Some (cell (grid_ s) (i, j, k)) else None).
Proof. exact source_get_value_by_index. Qed.
Print Assumptions C16_source_get_value_by_index.

Theorem C16_source_get_index_nearest_neighbor :
  forall (K : Type) (s : lat K) (value : Q) (values : list Q),
  gen___get_index_nearest_neighbor K s value values = rmap Z.of_nat (get_index_nn (Fin value) values).
Proof. exact source___get_index_nearest_neighbor. Qed.
Print Assumptions C16_source_get_index_nearest_neighbor.

Theorem C16_source_get_indices_nearest_neighbor :
  forall (K : Type) (s : lat K) (x y z : Q),
  gen___get_indices_nearest_neighbor K s x y z
  = rbind (rmap Z.of_nat (get_index_nn (Fin x) (x_values_ s)))
      (fun i : Z => rbind (rmap Z.of_nat (get_index_nn (Fin y) (y_values_ s)))
         (fun j : Z => rbind (rmap Z.of_nat (get_index_nn (Fin z) (z_values_ s))) (fun k : Z => Ok (i, j, k)))).
Proof. exact source___get_indices_nearest_neighbor. Qed.
Print Assumptions C16_source_get_indices_nearest_neighbor.

Theorem C16_source_set_value_nearest_neighbor :
  forall (K : Type) (s : lat K) (x y z : Q) (v : option K),
  shape (grid_ s) = dims K s ->
  gen_set_value_nearest_neighbor K s x y z v
  = rbind (gen___get_indices_nearest_neighbor K s x y z)
      (fun p : Z * Z * Z => Ok (if inside (dims K s) p then set_grid_ s (arr_upd (grid_ s) p v) else s)).
Proof. exact source_set_value_nearest_neighbor. Qed.
Print Assumptions C16_source_set_value_nearest_neighbor.

Theorem C16_source_get_value_nearest_neighbor :
  forall (K : Type) (s : lat K) (x y z : Q),
  shape (grid_ s) = dims K s ->
  gen_get_value_nearest_neighbor K s x y z
  = rbind (gen___get_indices_nearest_neighbor K s x y z)
      (fun p : Z * Z * Z => Ok (if inside (dims K s) p then Some (cell (grid_ s) p) else None)).
Proof. exact source_get_value_nearest_neighbor. Qed.
Print Assumptions C16_source_get_value_nearest_neighbor.

Theorem C16_source_get_value :
  forall (K : Type) (s : lat K) (index : Z) (a : axis), gen___get_value K s index (avals a) (Z.of_nat (npts a)) = coord1 index a.
Proof. exact source___get_value. Qed.
Print Assumptions C16_source_get_value.

Theorem C16_source_get_coordinates :
  forall (K : Type) (s : lat K) (i j k : Z),
  wf K s ->
  gen_get_coordinates K s i j k
  = rbind (coord1 i (axis_x K s))
      (fun x : Q => rbind (coord1 j (axis_y K s)) (fun y : Q => rbind (coord1 k (axis_z K s)) (fun z : Q => Ok (x, y, z)))).
Proof. exact source_get_coordinates. Qed.
Print Assumptions C16_source_get_coordinates.

Theorem C16_source_find_closest_index :
  forall (K : Type) (s : lat K) (value : fv) (values : list Q),
  gen___find_closest_index K s value values = rmap Z.of_nat (find_closest_index value values).
Proof. exact source___find_closest_index. Qed.
Print Assumptions C16_source_find_closest_index.

Theorem C16_source_is_within_range :
  forall (K : Type) (s : lat K) (x y z : fv),
  gen___is_within_range K s x y z = Ok (within1 x (axis_x K s) && within1 y (axis_y K s) && within1 z (axis_z K s)).
Proof. exact source___is_within_range. Qed.
Print Assumptions C16_source_is_within_range.

Theorem C16_source_find_closest_indices :
  forall (K : Type) (s : lat K) (x y z : fv),
  gen_find_closest_indices K s x y z
  = rbind (closest1 x (axis_x K s))
      (fun i : Z => rbind (closest1 y (axis_y K s)) (fun j : Z => rbind (closest1 z (axis_z K s)) (fun k : Z => Ok (i, j, k)))).
Proof. exact source_find_closest_indices. Qed.
Print Assumptions C16_source_find_closest_indices.

Theorem C16_source_defaults :
  gen_default_add_particle_data_kernel = "gaussian"%string /\ gen_default_add_particle_data_add = false
  /\ gen_default___init___n_sigma_x = None /\ gen_default___init___n_sigma_y = None /\ gen_default___init___n_sigma_z = None.
Proof. exact source_defaults. Qed.
Print Assumptions C16_source_defaults.

(* non-vacuity: a computed instance over Q (5 x 3 x 3 nodes, two particles, one with a clipped stencil) on which the
   regenerated method, run through its float path, and the hand model give the same grid node by node *)
Theorem C16_source_example : ex_check = true.
Proof. exact source_example. Qed.
Print Assumptions C16_source_example.

(* C01 - readers load exactly what the file contains.  Statements only; proofs in Proofs/C01_*.v.
   tok_float / tok_int / pdg_valid / pdg_charge / usqrt are the oracles of DESIGN.md 4.4 (Python float(),
   int(), the `particle` package, numpy sqrt): universally quantified functions, no law assumed unless stated. *)
From Coq Require Import List String Ascii ZArith QArith Qabs Bool Arith.
From SX Require Import Lib.Strs Lib.StrLemmas Lib.Split Gen.GenParticleMap Model.Oscar Model.OscarDoc Model.Jetscape
  Model.JetscapeDoc Proofs.C01_Oscar Proofs.C01_Columns Proofs.C01_Shapes Proofs.C01_Std Proofs.C01_Jetscape
  Proofs.C01_Derived Proofs.C01_Example.
Import ListNotations.
Local Open Scope string_scope.

(* Oscar2013 / Oscar2013Extended / ASCII, any number of events >= 1, any multiplicities (empty events anywhere):
   events in file order, particle lines in file order, counts under labels 0.., number of events, format, footers *)
Theorem C01_oscar_load :
  forall tok_float tok_int pdg_valid d fmt attrs,
  wf tok_float tok_int pdg_valid d fmt attrs ->
  load tok_float tok_int pdg_valid None (render d) SelAll = Ok (expected tok_float tok_int pdg_valid d fmt attrs).
Proof. exact load_render. Qed.
Print Assumptions C01_oscar_load.

(* every event's own impact parameter, in file order *)
Theorem C01_oscar_impacts :
  forall tok_float tok_int pdg_valid d fmt attrs,
  wf tok_float tok_int pdg_valid d fmt attrs ->
  impact_parameters tok_float (expected tok_float tok_int pdg_valid d fmt attrs)
  = Ok (map (spec_impact tok_float) (d_events d)).
Proof. exact impacts_render. Qed.
Print Assumptions C01_oscar_impacts.

(* lines of the documented shapes are recognised as what they are, for any numeric tokens *)
Theorem C01_row_shape : forall r, forallb numeric r = true -> kind_scan r = SOther /\ kind_loop r = KRow.
Proof. exact row_kinds. Qed.
Print Assumptions C01_row_shape.

Theorem C01_header_shape : forall lt ct, numeric lt = true -> numeric ct = true ->
  let h := ["#"; "event"; lt; "out"; ct] in
  kind_scan h = SOut /\ kind_loop h = KSkip /\ nth_error h 2 = Some lt /\ nth_error h 4 = Some ct.
Proof. exact header_kinds. Qed.
Print Assumptions C01_header_shape.

Theorem C01_footer_shape : forall lt b yn, numeric lt = true -> numeric b = true -> (yn = "yes" \/ yn = "no") -> b <> "" ->
  let f := smash_footer lt b yn in
  kind_scan f = SEnd /\ kind_loop f = KEnd /\
  nth 0 f "" = "#" /\ (2 <= List.length f)%nat /\ mem_str "event" (removelast_s f) = true /\
  nth_error f 2 = Some lt /\
  (forall tok_float, impact_of tok_float f = match tok_float b with Some v => Ok v | None => Err ValueError end).
Proof. exact footer_kinds. Qed.
Print Assumptions C01_footer_shape.

(* composition for the documented Oscar2013 layout: numeric tokens, parseable rows => loads to its content.
   dec prints labels/counts; its two laws are the oracle laws of int() on decimal strings *)
Theorem C01_oscar2013_standard :
  forall tok_float tok_int pdg_valid (dec : nat -> string),
  (forall n, numeric (dec n) = true) ->
  (forall n, tok_int (dec n) = Some (zq (Z.of_nat n))) ->
  forall h2 h3 l,
  kind_scan h2 = SOther -> kind_scan h3 = SOther -> l <> [] ->
  Forall (ok_sevent tok_float tok_int pdg_valid "Oscar2013" []) l ->
  load tok_float tok_int pdg_valid None (render (std_doc_2013 dec h2 h3 l)) SelAll
  = Ok (expected tok_float tok_int pdg_valid (std_doc_2013 dec h2 h3 l) "Oscar2013" []).
Proof. exact std_2013_loads. Qed.
Print Assumptions C01_oscar2013_standard.

(* column -> slot mapping and casts, on the tables regenerated from Particle.py / OscarLoader.py *)
Theorem C01_colmap_2013 : assoc "Oscar2013" gen_mapping = Some (doc_mapping "_" doc_cols_2013).
Proof. exact colmap_2013. Qed.
Print Assumptions C01_colmap_2013.
Theorem C01_colmap_extended : assoc "Oscar2013Extended" gen_mapping = Some (doc_mapping "_" doc_cols_ext).
Proof. exact colmap_ext. Qed.
Print Assumptions C01_colmap_extended.
Theorem C01_colmap_ascii :
  forallb (fun a => match assoc a allfields with Some sc => (fst sc =? slot_of a)%nat | None => false end)
          (map snd doc_header_names) = true.
Proof. exact colmap_ascii. Qed.
Print Assumptions C01_colmap_ascii.
Theorem C01_header_names : gen_attr_map = doc_header_names.
Proof. exact header_names. Qed.
Print Assumptions C01_header_names.
Theorem C01_casts_real : gen_float_fields = map (fun a => a ++ "_") doc_reals.
Proof. exact casts_real. Qed.
Print Assumptions C01_casts_real.

(* each listed column is cast and stored in its slot; no other slot is touched *)
Theorem C01_fill_slots :
  forall tok_float tok_int ascii m toks p p',
  fill tok_float tok_int ascii m toks p = Ok p' ->
  NoDup (map (fun e => fst (snd e)) m) -> List.length p = 25%nat ->
  Forall (fun e => (fst (snd e) < 25)%nat) m ->
  (forall a s c, In (a, (s, c)) m -> (c < List.length toks)%nat ->
      get_slot s p' = cast tok_float tok_int (if ascii then a ++ "_" else a) (nth c toks "")) /\
  (forall s, ~ In s (map (fun e => fst (snd e)) (filter (fun e => snd (snd e) <? List.length toks)%nat m)) ->
      get_slot s p' = get_slot s p) /\
  List.length p' = 25%nat.
Proof. exact fill_spec. Qed.
Print Assumptions C01_fill_slots.

(* JETSCAPE hadron / parton files (defstr = N_hadrons / N_partons), tab- or blank-separated headers *)
Theorem C01_jetscape_load :
  forall tok_float tok_int pdg_valid pdg_charge usqrt defstr d s1 s2,
  jwf tok_float tok_int pdg_valid pdg_charge usqrt defstr d s1 s2 ->
  jload tok_float tok_int pdg_valid pdg_charge usqrt None (jrender d) defstr SelAll
  = Ok (jexpected tok_float tok_int pdg_valid pdg_charge usqrt d s1 s2).
Proof. exact jload_render. Qed.
Print Assumptions C01_jetscape_load.

(* derived JETSCAPE mass = sqrt(E^2-p^2) (0 for photons/gluons/neutrinos, NaN when |E|<|p|) and
   charge = PDG charge (x3 when |q|<1), all other slots as read *)
Theorem C01_jetscape_derived :
  forall tok_float tok_int pdg_valid pdg_charge usqrt toks p,
  mk_jet_particle tok_float tok_int pdg_valid pdg_charge usqrt toks = Ok p ->
  exists p0 E px py pz pdg,
    mk_particle tok_float tok_int pdg_valid "JETSCAPE" [] toks = Ok p0 /\
    get_slot 5 p0 = Some E /\ get_slot 6 p0 = Some px /\ get_slot 7 p0 = Some py /\
    get_slot 8 p0 = Some pz /\ get_slot 9 p0 = Some pdg /\
    (List.length p0 = 25%nat ->
       get_slot 4 p = spec_mass usqrt E px py pz pdg /\ get_slot 12 p = spec_charge pdg_valid pdg_charge pdg /\
       forall s, s <> 4%nat -> s <> 12%nat -> get_slot s p = get_slot s p0).
Proof. exact jet_derived. Qed.
Print Assumptions C01_jetscape_derived.

(* non-vacuity: a concrete document (one particle, then an empty event) is well-formed *)
Theorem C01_example : wf ex_tf ex_ti ex_pv ex_doc "Oscar2013" [].
Proof. exact example_wf. Qed.
Print Assumptions C01_example.

(* character level -> token level.  A raw line is the join of its tokens with single blanks (plus the newline):
   Python's split(" ") gives the tokens back; a blank-free pattern ("#", "event", "out", "end", "sigmaGen", "Event",
   "weight", "N_hadrons", ...) occurs in the line iff it occurs inside a token; " p " occurs iff an inner token is p.
   (The two remaining raw tests, "in " and " start", are tied to their token forms by the correspondence only.) *)
Theorem C01_split_join :
  forall c l, l <> [] -> forallb (no_char c) l = true -> split_on c (join c l) = l.
Proof. exact split_join. Qed.
Print Assumptions C01_split_join.

Theorem C01_contains_join :
  forall p, no_char sp p = true -> p <> EmptyString -> forall l, contains p (join sp l) = has p l.
Proof. exact contains_join. Qed.
Print Assumptions C01_contains_join.

Theorem C01_contains_line :
  forall p, no_char "010"%char p = true -> p <> EmptyString ->
  forall x, contains p (x ++ String "010"%char EmptyString) = contains p x.
Proof. exact contains_line. Qed.
Print Assumptions C01_contains_line.

Theorem C01_contains_word_join :
  forall p, no_char sp p = true -> forall l, forallb (no_char sp) l = true ->
  contains (word p) (join sp l) = has_mid p l.
Proof. exact contains_word_join. Qed.
Print Assumptions C01_contains_word_join.

(* ---- files written by SPARKX's own flow generators (GenerateFlow.generate_dummy_... writers).
   gen_render interprets the write templates regenerated from GenerateFlow.py (Gen/GenGenFlow.v) for nev events of
   mult particles: header writes, per event the header write, one row write per particle index 0..mult-1 and the
   footer write, then the trailer writes; the stream is cut into lines at the newlines and into tokens as the
   readers do.  Oracles: dec = str(int) / "%d" % int (only its values up to max nev mult matter), vals = the "%g"
   texts; the hypotheses are laws of Python float()/int() on exactly the tokens that occur (the folded literal
   row constants by conversion class, the footer's impact literal, the trailer words). *)
From SX Require Import Gen.GenGenFlow Model.GenFlowDoc Proofs.C01_GenFlow.

Theorem C01_generators_oscar :
  forall tok_float tok_int pdg_valid dec vals w nev mult,
  In w gen_writers -> w_family w = "Oscar2013" -> (w_min_events w <= nev)%nat ->
  (forall n, (n <= Nat.max nev mult)%nat -> numeric (dec n) = true /\ tok_int (dec n) = Some (zq (Z.of_nat n))) ->
  (forall i j name, (i < nev)%nat -> (j < mult)%nat -> In name (row_holes "%g" w) ->
     numeric (vals i j name) = true /\ exists v, tok_float (vals i j name) = Some v) ->
  (forall t, In t (row_lits "%g" w) -> exists v, tok_float t = Some v) ->
  (forall t, In t (row_lits "%d" w) -> exists v, tok_int t = Some v) ->
  (exists v, tok_float (impact_lit w) = Some v) ->
  exists d, wf tok_float tok_int pdg_valid d "Oscar2013" [] /\
            gen_render dec vals w nev mult = render d /\
            List.length (d_events d) = nev /\
            Forall (fun e => List.length (e_rows e) = mult) (d_events d).
Proof. exact generators_oscar. Qed.
Print Assumptions C01_generators_oscar.

(* composed with C01_oscar_load: what loading the written file yields *)
Theorem C01_generators_oscar_load :
  forall tok_float tok_int pdg_valid dec vals w nev mult,
  In w gen_writers -> w_family w = "Oscar2013" -> (w_min_events w <= nev)%nat ->
  (forall n, (n <= Nat.max nev mult)%nat -> numeric (dec n) = true /\ tok_int (dec n) = Some (zq (Z.of_nat n))) ->
  (forall i j name, (i < nev)%nat -> (j < mult)%nat -> In name (row_holes "%g" w) ->
     numeric (vals i j name) = true /\ exists v, tok_float (vals i j name) = Some v) ->
  (forall t, In t (row_lits "%g" w) -> exists v, tok_float t = Some v) ->
  (forall t, In t (row_lits "%d" w) -> exists v, tok_int t = Some v) ->
  (exists v, tok_float (impact_lit w) = Some v) ->
  exists d ld, wf tok_float tok_int pdg_valid d "Oscar2013" [] /\
    gen_render dec vals w nev mult = render d /\
    load tok_float tok_int pdg_valid None (gen_render dec vals w nev mult) SelAll = Ok ld /\
    ld = expected tok_float tok_int pdg_valid d "Oscar2013" [] /\
    l_nevents ld = Z.of_nat nev /\
    l_counts ld = map (fun i => (Z.of_nat i, Z.of_nat mult)) (seq 0 nev) /\
    l_format ld = "Oscar2013" /\
    List.length (l_events ld) = nev /\
    Forall (fun ev => List.length ev = mult) (l_events ld).
Proof. exact generators_oscar_load. Qed.
Print Assumptions C01_generators_oscar_load.

Theorem C01_generators_jetscape :
  forall tok_float tok_int pdg_valid pdg_charge usqrt dec vals w nev mult s1 s2,
  In w gen_writers -> w_family w = "JETSCAPE" -> (w_min_events w <= nev)%nat ->
  (forall n, (n <= Nat.max nev mult)%nat -> numeric (dec n) = true /\ tok_int (dec n) = Some (zq (Z.of_nat n))) ->
  (forall i j name, (i < nev)%nat -> (j < mult)%nat -> In name (row_holes "%g" w) ->
     numeric (vals i j name) = true /\ exists v, tok_float (vals i j name) = Some v) ->
  (forall t, In t (row_lits "%g" w) -> exists v, tok_float t = Some v) ->
  (forall t, In t (row_lits "%d" w) -> exists v, tok_int t = Some v) ->
  first_floats tok_float 2 (nonempty (trailer_line w)) = [s1; s2] ->
  exists d, jwf tok_float tok_int pdg_valid pdg_charge usqrt "N_hadrons" d s1 s2 /\
            gen_render dec vals w nev mult = jrender d /\
            List.length (jd_events d) = nev /\
            Forall (fun e => List.length (je_rows e) = mult) (jd_events d).
Proof. exact generators_jetscape. Qed.
Print Assumptions C01_generators_jetscape.

Theorem C01_generators_jetscape_load :
  forall tok_float tok_int pdg_valid pdg_charge usqrt dec vals w nev mult s1 s2,
  In w gen_writers -> w_family w = "JETSCAPE" -> (w_min_events w <= nev)%nat ->
  (forall n, (n <= Nat.max nev mult)%nat -> numeric (dec n) = true /\ tok_int (dec n) = Some (zq (Z.of_nat n))) ->
  (forall i j name, (i < nev)%nat -> (j < mult)%nat -> In name (row_holes "%g" w) ->
     numeric (vals i j name) = true /\ exists v, tok_float (vals i j name) = Some v) ->
  (forall t, In t (row_lits "%g" w) -> exists v, tok_float t = Some v) ->
  (forall t, In t (row_lits "%d" w) -> exists v, tok_int t = Some v) ->
  first_floats tok_float 2 (nonempty (trailer_line w)) = [s1; s2] ->
  exists d ld, jwf tok_float tok_int pdg_valid pdg_charge usqrt "N_hadrons" d s1 s2 /\
    gen_render dec vals w nev mult = jrender d /\
    jload tok_float tok_int pdg_valid pdg_charge usqrt None (gen_render dec vals w nev mult) "N_hadrons" SelAll = Ok ld /\
    ld = jexpected tok_float tok_int pdg_valid pdg_charge usqrt d s1 s2 /\
    j_nevents ld = Z.of_nat nev /\
    j_counts ld = map (fun i => (Z.of_nat i + 1, Z.of_nat mult)%Z) (seq 0 nev) /\
    j_sigma ld = (s1, s2) /\
    List.length (j_events ld) = nev /\
    Forall (fun ev => List.length ev = mult) (j_events ld).
Proof. exact generators_jetscape_load. Qed.
Print Assumptions C01_generators_jetscape_load.

(* all eight writers are covered: four of each family, nothing else *)
Theorem C01_generators_families :
  map w_family gen_writers = ["JETSCAPE"; "JETSCAPE"; "JETSCAPE"; "JETSCAPE"; "Oscar2013"; "Oscar2013"; "Oscar2013"; "Oscar2013"].
Proof. exact generators_families. Qed.
Print Assumptions C01_generators_families.

(* non-vacuity: concrete oracles meet every hypothesis above (two events of one particle) *)
Theorem C01_generators_example :
  (exists d ld, wf gx_tf gx_ti gx_pv d "Oscar2013" [] /\
     load gx_tf gx_ti gx_pv None (gen_render gx_dec gx_vals wo 2 1) SelAll = Ok ld /\
     l_nevents ld = 2%Z /\ l_counts ld = [(0, 1); (1, 1)]%Z) /\
  (exists d ld, jwf gx_tf gx_ti gx_pv (fun _ => 1%Q) (fun x => x) "N_hadrons" d 0%Q 0%Q /\
     jload gx_tf gx_ti gx_pv (fun _ => 1%Q) (fun x => x) None (gen_render gx_dec gx_vals wj 2 1) "N_hadrons" SelAll = Ok ld /\
     j_nevents ld = 2%Z /\ j_counts ld = [(1, 1); (2, 1)]%Z).
Proof. exact generators_example. Qed.
Print Assumptions C01_generators_example.

From Coq Require Import List.
Theorem C01_placeholder : True. Proof. exact I. Qed.
Print Assumptions C01_placeholder.

(* C14 - bulk observables are normalised per event and per unit of the variable.
   Only statements closed by [exact]; proofs in Proofs/C14_*.v about the hand model Model/Bulk.v on top of
   Model/Histogram.v.  A particle is the observation of the methods the code calls on it: the value q of the
   binned / windowed quantity (a cell: None = NaN) and, for the means, x = pT_abs() or mT(). *)
From Coq Require Import List ZArith QArith Qcanon Bool Arith.
From SX Require Import Model.Histogram Model.Bulk Lib.HistBase Proofs.C09_Count Proofs.C10_Write
                       Proofs.C14_Mid Proofs.C14_Yield Proofs.C14_Main Proofs.C14_Example.
Import ListNotations.
Local Open Scope nat_scope.

(* dN/dy, dN/dpT, dN/deta, dN/dmT (they differ only in the observed quantity), explicit strictly increasing
   edges, >= 1 events of finite values, empty events anywhere: ONE well-shaped histogram whose bin i holds
   (number of particles of all events with e_i <= q < e_i+1) / (N_ev * width_i) *)
Theorem C14_yield :
  forall usqrt ul es n qevs, length es = S n ->
  (forall i, i < n -> (nth i es 0 < nth (S i) es 0)%Qc) -> qevs <> [] ->
  exists h, differential_yield usqrt ul true (BList es) (map (map (@Some Qc)) qevs) = Ok h
    /\ Shape h /\ nhist h = 1 /\ nbins h = n /\ edges h = es
    /\ forall i, i < n ->
         content h i = Some (qnat (count_in es i (concat qevs))
                             / (qnat (length qevs) * (nth (S i) es 0 - nth i es 0)))%Qc.
Proof. exact yield_list. Qed.
Print Assumptions C14_yield.

(* the same for a tuple (lo, hi, n) with the exact linspace *)
Theorem C14_yield_tuple :
  forall usqrt lo hi n qevs, (lo < hi)%Qc -> (0 < n)%Z -> qevs <> [] ->
  let es := linspace_exact lo hi (Z.to_nat n) in
  exists h, differential_yield usqrt linspace_exact true (BTuple lo hi true n) (map (map (@Some Qc)) qevs) = Ok h
    /\ Shape h /\ nhist h = 1 /\ nbins h = Z.to_nat n /\ edges h = es
    /\ forall i, i < Z.to_nat n ->
         content h i = Some (qnat (count_in es i (concat qevs))
                             / (qnat (length qevs) * (nth (S i) es 0 - nth i es 0)))%Qc.
Proof. exact yield_tuple. Qed.
Print Assumptions C14_yield_tuple.

(* the bin counts add up to the number of in-range particles, hence
   N_ev * sum_i content_i * width_i = #{particles with e_0 <= q < e_n} *)
Theorem C14_partition :
  forall es n, length es = S n -> nondecreasing es = true -> forall qs,
  list_sum (map (fun i => count_in es i qs) (seq 0 n)) = length (filter (in_range es n) qs).
Proof. exact counts_partition. Qed.
Print Assumptions C14_partition.

(* for ANY events, binning and quantity: a returned histogram is one well-shaped histogram ... *)
Theorem C14_shape :
  forall usqrt ul qc b evs h, (forall lo hi n, length (ul lo hi n) = S n) ->
  differential_yield usqrt ul qc b evs = Ok h -> Shape h /\ nhist h = 1.
Proof. exact differential_yield_shape. Qed.
Print Assumptions C14_shape.

(* ... so write_to_file is total on it and writes the requested columns (C10) *)
Theorem C14_writable :
  forall usqrt ul qc b evs h labels columns, (forall lo hi n, length (ul lo hi n) = S n) ->
  differential_yield usqrt ul qc b evs = Ok h -> args_ok h labels columns ->
  write_to_file h labels columns = Ok (write_spec h labels columns).
Proof. exact differential_yield_writable. Qed.
Print Assumptions C14_writable.

(* the window test: -w/2 <= q <= w/2, a NaN-valued q is outside *)
Theorem C14_window :
  forall w x, in_window w (Some x) = true <-> (- w / q2 <= x)%Qc /\ (x <= w / q2)%Qc.
Proof. exact in_window_spec. Qed.
Print Assumptions C14_window.

(* mid_rapidity_yield: (1/N_ev) sum_ev #{p in ev | q(p) in the window}, for >= 1 events, empty ones anywhere *)
Theorem C14_mid_yield :
  forall w evs, (0 < w)%Qc -> evs <> [] ->
  mid_rapidity_yield true w evs
  = Ok (qnat (list_sum (map (fun ev => length (filter (in_window w) ev)) evs)) / qnat (length evs))%Qc.
Proof. exact mid_yield_spec. Qed.
Print Assumptions C14_mid_yield.

(* mean pT / mT: every event has particles in the window -> (1/N_ev) sum_ev mean_{p in window(ev)} x(p) *)
Theorem C14_mean :
  forall w evs, (0 < w)%Qc -> evs <> [] -> forallb (has_window w) evs = true ->
  mid_rapidity_mean true w evs = Ok (cdiv (csum (map (ev_mean w) evs)) (Some (qnat (length evs)))).
Proof. exact mid_mean_all. Qed.
Print Assumptions C14_mean.

(* without that hypothesis: the average over the events that do have particles in the window (0 if there is none) *)
Theorem C14_mean_general :
  forall w evs, (0 < w)%Qc -> evs <> [] ->
  mid_rapidity_mean true w evs
  = Ok (let good := filter (has_window w) evs in
        if Nat.eqb (length good) 0 then c0 else cdiv (csum (map (ev_mean w) good)) (Some (qnat (length good)))).
Proof. exact mid_mean_spec. Qed.
Print Assumptions C14_mean_general.

(* a non-positive width is rejected *)
Theorem C14_width_rejected :
  forall b w evs evs', (w <= 0)%Qc ->
  mid_rapidity_yield b w evs = Err ValueError /\ mid_rapidity_mean b w evs' = Err ValueError.
Proof. exact (fun b w evs evs' H => conj (mid_yield_rejected b w evs H) (mid_mean_rejected b w evs' H)). Qed.
Print Assumptions C14_width_rejected.

(* non-vacuity: three events (the first empty), edges 0,1,3: contents 2/(3*1), 3/(3*2); window width 1:
   yield (2+1)/3 = 1; mean pT: event 2 -> (1+2)/2, event 3 -> 5, event 1 has no particle: (3/2+5)/2 = 13/4 *)
Theorem C14_example :
  match differential_yield qsqrt linspace_exact true (BList [z2 0 1; z2 1 1; z2 3 1]) ex_events with
  | Ok h => shapeb h = true /\ map (option_map this) (cur (hH h)) = [Some (2 # 3); Some (1 # 2)]%Q
  | Err _ => False
  end
  /\ match mid_rapidity_yield true (z2 1 1) (map (map fst) ex_mid) with Ok v => this v = (1 # 1)%Q | Err _ => False end
  /\ match mid_rapidity_mean true (z2 1 1) ex_mid with Ok (Some v) => this v = (13 # 4)%Q | _ => False end.
Proof. exact c14_example. Qed.
Print Assumptions C14_example.

(* ------------------------------------------------------------------------------------------------------------
   Tie to the source.  Gen/GenBulk.v is regenerated on every run from src/sparkx/BulkObservables.py
   (tools/py2coq/gen_bulk.py, fail-closed): the bodies of _differential_yield, dNdy, dNdpT, dNdEta, dNdmT,
   mid_rapidity_yield, mid_rapidity_mean_pT, mid_rapidity_mean_mT, statement by statement, over Model/BulkRt.v.
   The theorems below say that the hand model the theorems above are about EQUALS the regenerated methods for all
   arguments.  A particle of the regenerated methods is an abstract P observed through obs name p
   (= getattr(p, name)()) and is_callable name; the model's particle is the value of these observations. *)
From Coq Require Import String.
From SX Require Import Model.BulkRt Gen.GenBulk Proofs.C14_Source.

(* _differential_yield: argument checks for a tuple (number, number, n) / list of numbers, Histogram(bin_properties),
   1 / bin_width, one histogram per event filled with quantity() of every particle (AttributeError when it is not
   callable), no empty histogram after the last event, average, scale by the inverse widths *)
Theorem C14_source_differential_yield :
  forall usqrt ul (P : Type) (obs : string -> P -> cell) (is_callable : string -> bool) quantity b evs,
  gen__differential_yield usqrt ul P obs is_callable quantity b evs
  = differential_yield usqrt ul (is_callable quantity) b (map (map (obs quantity)) evs).
Proof. exact source_differential_yield. Qed.
Print Assumptions C14_source_differential_yield.

(* the four spectra: which Particle method is binned and the default binning when none is given *)
Theorem C14_source_dNdy :
  forall usqrt ul (P : Type) (obs : string -> P -> cell) (is_callable : string -> bool) ob evs,
  gen_dNdy usqrt ul P obs is_callable ob evs
  = differential_yield usqrt ul (is_callable "rapidity"%string) (bins_or ob (tuple_bins (-2) 2 11)) (map (map (obs "rapidity"%string)) evs).
Proof. exact source_dNdy. Qed.
Print Assumptions C14_source_dNdy.

Theorem C14_source_dNdpT :
  forall usqrt ul (P : Type) (obs : string -> P -> cell) (is_callable : string -> bool) ob evs,
  gen_dNdpT usqrt ul P obs is_callable ob evs
  = differential_yield usqrt ul (is_callable "pT_abs"%string) (bins_or ob (tuple_bins 0 4 11)) (map (map (obs "pT_abs"%string)) evs).
Proof. exact source_dNdpT. Qed.
Print Assumptions C14_source_dNdpT.

Theorem C14_source_dNdEta :
  forall usqrt ul (P : Type) (obs : string -> P -> cell) (is_callable : string -> bool) ob evs,
  gen_dNdEta usqrt ul P obs is_callable ob evs
  = differential_yield usqrt ul (is_callable "pseudorapidity"%string) (bins_or ob (tuple_bins (-2) 2 11)) (map (map (obs "pseudorapidity"%string)) evs).
Proof. exact source_dNdEta. Qed.
Print Assumptions C14_source_dNdEta.

Theorem C14_source_dNdmT :
  forall usqrt ul (P : Type) (obs : string -> P -> cell) (is_callable : string -> bool) ob evs,
  gen_dNdmT usqrt ul P obs is_callable ob evs
  = differential_yield usqrt ul (is_callable "mT"%string) (bins_or ob (tuple_bins 0 4 11)) (map (map (obs "mT"%string)) evs).
Proof. exact source_dNdmT. Qed.
Print Assumptions C14_source_dNdmT.

(* mid_rapidity_yield with a number as y_width: the width check, the empty sample, the callable test on the first
   particle of the first non-empty event, the count of -y_width/2 <= quantity() <= y_width/2 over all events,
   the division by the number of events; anything that is not an int or a float as y_width: TypeError *)
Theorem C14_source_mid_yield :
  forall (P : Type) (obs : string -> P -> cell) (is_callable : string -> bool) w quantity evs,
  gen_mid_rapidity_yield P obs is_callable (WNum w) quantity evs
  = mid_rapidity_yield (is_callable quantity) w (map (map (obs quantity)) evs)
  /\ gen_mid_rapidity_yield P obs is_callable WOther quantity evs = Err TypeError.
Proof. exact (fun P obs ic w q evs => conj (source_mid_yield P obs ic w q evs) (source_mid_yield_type P obs ic q evs)). Qed.
Print Assumptions C14_source_mid_yield.

(* mid_rapidity_mean_pT / _mT: the same checks and window; per event the sum of pT_abs() / mT() and the count inside
   the window, the per-event mean only for events with a non-empty window, the division by the number of such events *)
Theorem C14_source_mid_mean_pT :
  forall (P : Type) (obs : string -> P -> cell) (is_callable : string -> bool) w quantity evs,
  gen_mid_rapidity_mean_pT P obs is_callable (WNum w) quantity evs
  = mid_rapidity_mean (is_callable quantity) w (map (map (fun p => (obs quantity p, obs "pT_abs"%string p))) evs).
Proof. exact source_mid_mean_pT. Qed.
Print Assumptions C14_source_mid_mean_pT.

Theorem C14_source_mid_mean_mT :
  forall (P : Type) (obs : string -> P -> cell) (is_callable : string -> bool) w quantity evs,
  gen_mid_rapidity_mean_mT P obs is_callable (WNum w) quantity evs
  = mid_rapidity_mean (is_callable quantity) w (map (map (fun p => (obs quantity p, obs "mT"%string p))) evs).
Proof. exact source_mid_mean_mT. Qed.
Print Assumptions C14_source_mid_mean_mT.

Theorem C14_source_mid_mean_type :
  forall (P : Type) (obs : string -> P -> cell) (is_callable : string -> bool) quantity evs,
  gen_mid_rapidity_mean_pT P obs is_callable WOther quantity evs = Err TypeError
  /\ gen_mid_rapidity_mean_mT P obs is_callable WOther quantity evs = Err TypeError.
Proof. exact source_mid_mean_type. Qed.
Print Assumptions C14_source_mid_mean_type.

(* defaults of y_width and quantity *)
Theorem C14_source_mid_defaults :
  gen_mid_rapidity_yield_default_y_width = 1%Qc /\ gen_mid_rapidity_yield_default_quantity = "rapidity"%string
  /\ gen_mid_rapidity_mean_pT_default_y_width = 1%Qc /\ gen_mid_rapidity_mean_pT_default_quantity = "rapidity"%string
  /\ gen_mid_rapidity_mean_mT_default_y_width = 1%Qc /\ gen_mid_rapidity_mean_mT_default_quantity = "rapidity"%string.
Proof. exact source_mid_defaults. Qed.
Print Assumptions C14_source_mid_defaults.

(* the read-only wrapper: reads pass through, the list mutators only raise *)
Theorem C14_source_wrapper :
  (forall m, In m gen_wrapper_reads -> In m ["__getitem__"; "__len__"; "__iter__"; "__repr__"]%string)
  /\ (forall m, In m ["__setitem__"; "append"; "extend"; "insert"; "remove"; "pop"; "clear"]%string -> In m gen_wrapper_blocked).
Proof. exact source_wrapper. Qed.
Print Assumptions C14_source_wrapper.

(* non-vacuity: the regenerated methods evaluated on the sample of C14_example (same numbers), on an attribute that
   is not callable, on a zero width, on a y_width that is not a number, on the default binning of dNdpT *)
Theorem C14_source_example : source_example_stmt.
Proof. exact source_example. Qed.
Print Assumptions C14_source_example.

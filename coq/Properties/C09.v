(* C09 - histogram bins count exactly the values in [left, right).
   Only statements closed by [exact]; the proofs live in Proofs/C09_*.v and are about the hand model
   Model/Histogram.v (carrier Qc: a finite double is the rational it denotes; a cell [None] is NaN/inf).
   [Shape h]: every per-histogram array is 2-D of shape (n_hist, n_bins) and there are n_bins+1 edges
   (the invariant of C10, established there for every reachable state). *)
From Coq Require Import List ZArith QArith Qcanon Bool Arith.
From SX Require Import Model.Histogram Lib.HistBase Proofs.C09_Count Proofs.C09_Scale Proofs.C09_Density Proofs.C09_Example.
Import ListNotations.
Local Open Scope nat_scope.

(* np.digitize as modelled (number of edges <= v on non-decreasing edges) returns i+1 exactly when
   e_i <= v < e_i+1 : the documented contract, for ANY non-decreasing edge list *)
Theorem C09_digitize_spec :
  forall es v i, nondecreasing es = true -> S i < length es ->
  (digitize v es = Ok (S i) <-> (nth i es 0 <= v)%Qc /\ (v < nth (S i) es 0)%Qc).
Proof. exact digitize_spec. Qed.
Print Assumptions C09_digitize_spec.

(* one value v with weight w: bin i of the current histogram (and of the raw counts) gains w iff
   e_i <= v < e_i+1; earlier histograms, errors, scaling, edges are untouched; the call never fails *)
Theorem C09_fill_one :
  forall h v w, Shape h -> nondecreasing (edges h) = true ->
  exists h', fill_one h v w = Ok h' /\ Shape h' /\ frame h h'
    /\ forall i, i < nbins h ->
         content h' i = bump (edges h) v w i (content h i) /\ rawc h' i = bump (edges h) v w i (rawc h i).
Proof. exact fill_one_spec. Qed.
Print Assumptions C09_fill_one.

(* add_value with a scalar or a list/array, with or without weights (the pairs [ps] the call carries):
   content_i after = content_i before + sum of the weights of the values lying in [e_i, e_i+1) *)
Theorem C09_count :
  forall h v w l ps, Shape h -> nondecreasing (edges h) = true ->
  call_pairs v w = Some l -> qpairs l = Some ps ->
  exists h', add_value h v w = Ok h' /\ Shape h' /\ frame h h'
    /\ forall i, i < nbins h ->
         content h' i = cadd (content h i) (Some (wsum (edges h) i ps))
         /\ rawc h' i = cadd (rawc h i) (Some (wsum (edges h) i ps)).
Proof. exact add_value_count. Qed.
Print Assumptions C09_count.

(* values outside [first edge, last edge) change nothing: the state is identical *)
Theorem C09_outside :
  forall h v w, Shape h -> nondecreasing (edges h) = true ->
  (v < nth 0 (edges h) 0)%Qc \/ (nth (nbins h) (edges h) 0 <= v)%Qc -> fill_one h v w = Ok h.
Proof. exact fill_one_outside. Qed.
Print Assumptions C09_outside.

(* NaN among the values is rejected, whatever the weights *)
Theorem C09_nan_rejected :
  forall h v w, has_nan v = true -> add_value h v w = Err ValueError.
Proof. exact nan_rejected. Qed.
Print Assumptions C09_nan_rejected.

(* scaling (scalar or per-bin array): contents and errors of the current histogram are multiplied by the
   factor, raw counts are untouched; a negative factor is rejected *)
Theorem C09_scale :
  forall h s h', Shape h -> scale_histogram h s = Ok h' ->
  hRAW h' = hRAW h /\
  forall i, i < nbins h ->
    content h' i = cmul (content h i) (factor s i) /\ errc h' i = cmul (errc h i) (factor s i).
Proof. exact scale_content. Qed.
Print Assumptions C09_scale.

Theorem C09_scale_rejected :
  forall h s, valid_scale (nbins h) s = false -> scale_histogram h s = Err ValueError.
Proof. exact scale_invalid. Qed.
Print Assumptions C09_scale_rejected.

(* ANY interleaving of valid add_value calls and scalings: each added weight is multiplied by exactly the
   factors applied after it (spec_content), raw counts ignore the factors (spec_raw) *)
Theorem C09_history :
  forall usqrt ops h cl h', Shape h -> nondecreasing (edges h) = true ->
  abstract ops = Some cl -> run usqrt h ops = Ok h' ->
  Shape h' /\ edges h' = edges h /\ nbins h' = nbins h /\
  forall i, i < nbins h ->
    content h' i = spec_content (edges h) i (content h i) cl
    /\ rawc h' i = spec_raw (edges h) i (rawc h i) cl.
Proof. exact history_spec. Qed.
Print Assumptions C09_history.

(* statistical_error: the error array becomes the square root of the contents (through the sqrt oracle) *)
Theorem C09_stat_error :
  forall usqrt h, Shape h ->
  exists rows, hH h = A2 rows /\
    statistical_error usqrt h =
      Ok (mkH (nbins h) (edges h) (nhist h) (hH h) (hRAW h) (A2 (map (map (csqrt usqrt)) rows)) (hSCAL h) (hSYS h)).
Proof. exact statistical_error_spec. Qed.
Print Assumptions C09_stat_error.

(* centres, widths and bounds agree with the edges, for any edge list *)
Theorem C09_geometry :
  forall es i, S i < length es ->
  nth i (centers es) 0%Qc = ((nth i es 0 + nth (S i) es 0) / q2)%Qc
  /\ nth i (widths es) 0%Qc = (nth (S i) es 0 - nth i es 0)%Qc
  /\ nth i (bounds_left es) 0%Qc = nth i es 0%Qc
  /\ nth i (bounds_right es) 0%Qc = nth (S i) es 0%Qc.
Proof. exact geometry. Qed.
Print Assumptions C09_geometry.

Theorem C09_geometry_length :
  forall es, length (centers es) = length es - 1 /\ length (widths es) = length es - 1
  /\ length (bounds_left es) = length es - 1 /\ length (bounds_right es) = length es - 1.
Proof. exact geometry_length. Qed.
Print Assumptions C09_geometry_length.

(* uniform binning with the exact linspace: accepted iff lo < hi and n > 0, e_i = lo + i (hi-lo)/n, sorted *)
Theorem C09_uniform :
  forall lo hi n, (lo < hi)%Qc -> (0 < n)%Z ->
  exists h, init_tuple linspace_exact lo hi true n = Ok h
    /\ Shape h /\ nbins h = Z.to_nat n /\ edges h = linspace_exact lo hi (Z.to_nat n)
    /\ nondecreasing (edges h) = true
    /\ forall i, i <= Z.to_nat n -> nth i (edges h) 0%Qc = (lo + qn i * (hi - lo) / qn (Z.to_nat n))%Qc.
Proof. exact init_tuple_uniform. Qed.
Print Assumptions C09_uniform.

Theorem C09_tuple_rejected :
  forall ul lo hi b n, (hi <= lo)%Qc \/ b = false \/ (n <= 0)%Z -> init_tuple ul lo hi b n = Err ValueError.
Proof. exact init_tuple_rejected. Qed.
Print Assumptions C09_tuple_rejected.

(* make_density: strictly increasing edges, finite current histogram: the integral over the binned range is 1 *)
Theorem C09_density :
  forall usqrt h h', Shape h ->
  (forall i, i < nbins h -> (nth i (edges h) 0 < nth (S i) (edges h) 0)%Qc) ->
  (forall i, i < nbins h -> exists x, content h i = Some x) ->
  make_density usqrt h = Ok h' ->
  csum (map2 cmul (cur (hH h')) (map (@Some Qc) (widths (edges h')))) = Some 1%Qc
  /\ edges h' = edges h /\ hRAW h' = hRAW h /\ Shape h'.
Proof. exact density_unit. Qed.
Print Assumptions C09_density.

(* non-vacuity: edges 0,1,3; values 0,1,2.5,3,-0.5 with weights 1,0.5,2.5,7,9; scale by 2; value 0.5;
   make_density: contents 1/3,1/3 (integral 1/3*1 + 1/3*2 = 1), raw counts 2,3 *)
Theorem C09_example :
  obs (run qsqrt (fresh 2 [z2 0 1; z2 1 1; z2 3 1])
         [OFill (VList [Some (z2 0 1); Some (z2 1 1); Some (z2 5 2); Some (z2 3 1); Some (z2 (-1) 2)])
                (WList [Some (z2 1 1); Some (z2 1 2); Some (z2 5 2); Some (z2 7 1); Some (z2 9 1)]);
          OScale (SScalar (Some (z2 2 1))); OFill (VScalar (Some (z2 1 2))) WNone; ODensity])
  = Some ([Some (1 # 3); Some (1 # 3)], [Some (2 # 1); Some (3 # 1)])%Q.
Proof. exact c09_example. Qed.
Print Assumptions C09_example.

(* ---- source tie: the functions of the hand model used above EQUAL the Gallina functions that
   tools/py2coq/gen_histogram.py regenerates from the current src/sparkx/Histogram.py on every run
   (Gen/GenHistogram.v; numpy vocabulary Lib/HistRt.v).  [of_vals]/[of_wts]/[of_scl] inject the model's argument
   forms into None | number | list.  The hypotheses are consequences of [Shape h]. *)
From SX Require Import Lib.HistRt Gen.GenHistogram Proofs.C09_Source.

Theorem C09_source_init_tuple :
  forall ul lo hi b n, init_tuple ul lo hi b n = gen_init_tuple ul lo hi b n.
Proof. exact source_init_tuple. Qed.
Print Assumptions C09_source_init_tuple.

Theorem C09_source_init_list : forall es, init_list es = gen_init_list es.
Proof. exact source_init_list. Qed.
Print Assumptions C09_source_init_list.

Theorem C09_source_add_value :
  forall h v w, edges h <> [] -> add_value h v w = gen_add_value h (of_vals v) (of_wts w).
Proof. exact source_add_value. Qed.
Print Assumptions C09_source_add_value.

Theorem C09_source_scale_histogram :
  forall h s, scale_histogram h s = gen_scale_histogram h (of_scl s).
Proof. exact source_scale_histogram. Qed.
Print Assumptions C09_source_scale_histogram.

Theorem C09_source_statistical_error :
  forall usqrt h, (exists erows, hERR h = A2 erows) -> statistical_error usqrt h = gen_statistical_error usqrt h.
Proof. exact source_statistical_error. Qed.
Print Assumptions C09_source_statistical_error.

Theorem C09_source_make_density :
  forall usqrt h, (exists erows, hERR h = A2 erows) -> make_density usqrt h = gen_make_density usqrt h.
Proof. exact source_make_density. Qed.
Print Assumptions C09_source_make_density.

Theorem C09_source_bin_width : forall h, gen_bin_width h = Ok (widths (edges h)).
Proof. exact source_bin_width. Qed.
Print Assumptions C09_source_bin_width.

Theorem C09_source_bin_centers : forall h, gen_bin_centers h = Ok (centers (edges h)).
Proof. exact source_bin_centers. Qed.
Print Assumptions C09_source_bin_centers.

Theorem C09_source_bounds :
  forall h, gen_bin_bounds_left h = Ok (bounds_left (edges h)) /\ gen_bin_bounds_right h = Ok (bounds_right (edges h))
            /\ gen_bin_boundaries h = Ok (edges h) /\ gen_histogram h = Ok (hH h).
Proof. exact source_bounds. Qed.
Print Assumptions C09_source_bounds.

(* C13 - multi-particle pT correlations equal the sum over distinct tuples.
   Only statements closed by [exact]; the proofs live in Proofs/C13_*.v and are about
   Gen/GenPtCorr.v, which is regenerated from the Python source on every run. *)
From Coq Require Import List ZArith Ring_theory Reals RealField QArith Qcanon.
From SX Require Import Lib.KRing Lib.Tuples Gen.GenPtCorr Model.PtCorr Proofs.C13_Num Proofs.C13_Kappa Proofs.C13_Model.
Import ListNotations.

(* any commutative ring K: per event, order index c (k = c+1 <= 8), numerator and denominator are
   the sums over ordered k-tuples of distinct particles of prod(w_i pT_i), resp. prod(w_i) *)
Theorem C13_numerator :
  forall K k0 k1 kadd kmul ksub kopp, ring_theory k0 k1 kadd kmul ksub kopp (@eq K) ->
  forall c ev, (c < 8)%nat ->
  N_event K k0 k1 kadd kmul ksub kopp c ev = Some (dsum k0 k1 kadd kmul (S c) (map (wpt K k1 kmul) ev)).
Proof. exact N_event_spec. Qed.
Print Assumptions C13_numerator.

Theorem C13_denominator :
  forall K k0 k1 kadd kmul ksub kopp, ring_theory k0 k1 kadd kmul ksub kopp (@eq K) ->
  forall c ev, (c < 8)%nat ->
  D_event K k0 k1 kadd kmul ksub kopp c ev = Some (dsum k0 k1 kadd kmul (S c) (map (wgt K k1) ev)).
Proof. exact D_event_spec. Qed.
Print Assumptions C13_denominator.

(* the returned correlation is the ratio of the event sums (non-finite when the denominator vanishes) *)
Theorem C13_ratio :
  forall K k0 k1 kadd kmul ksub kopp, ring_theory k0 k1 kadd kmul ksub kopp (@eq K) ->
  forall kdiv kis0 c evs, (c < 8)%nat ->
  let n := ksum k0 kadd (map (fun ev => dsum k0 k1 kadd kmul (S c) (map (wpt K k1 kmul) ev)) evs) in
  let d := ksum k0 kadd (map (fun ev => dsum k0 k1 kadd kmul (S c) (map (wgt K k1) ev)) evs) in
  corr K k0 k1 kadd kmul ksub kopp kdiv kis0 c evs = if kis0 d then None else Some (kdiv n d).
Proof. exact corr_spec. Qed.
Print Assumptions C13_ratio.

(* events with fewer than k particles contribute nothing to either sum *)
Theorem C13_short_events :
  forall K k0 k1 kadd kmul ksub kopp, ring_theory k0 k1 kadd kmul ksub kopp (@eq K) ->
  forall k l, (length l < k)%nat -> dsum k0 k1 kadd kmul k l = k0.
Proof. exact dsum_short. Qed.
Print Assumptions C13_short_events.

(* the cumulant formulas are the moment-cumulant recursion, orders 1..8 *)
Theorem C13_kappa :
  forall K k0 k1 kadd kmul ksub kopp, ring_theory k0 k1 kadd kmul ksub kopp (@eq K) ->
  forall k C, (1 <= k <= 8)%nat ->
  gen_kappa K k0 k1 kadd kmul ksub kopp k C = Some (cumulant K k0 k1 kadd kmul ksub C k).
Proof. exact gen_kappa_ok. Qed.
Print Assumptions C13_kappa.

Theorem C13_kappa_model :
  forall K k0 k1 kadd kmul ksub kopp, ring_theory k0 k1 kadd kmul ksub kopp (@eq K) ->
  forall kdiv kis0 c evs, (c < 8)%nat ->
  all_finite K k0 k1 kadd kmul ksub kopp kdiv kis0 c evs = true ->
  kappa K k0 k1 kadd kmul ksub kopp kdiv kis0 c evs =
  Some (cumulant K k0 k1 kadd kmul ksub (Carr K k0 k1 kadd kmul ksub kopp kdiv kis0 evs) (S c)).
Proof. exact kappa_spec. Qed.
Print Assumptions C13_kappa_model.

(* unit weight when unset *)
Theorem C13_unit_weight :
  forall K (k1 : K) (kmul : K -> K -> K) pt, wgt K k1 (pt, None) = k1 /\ wpt K k1 kmul (pt, None) = kmul k1 pt.
Proof. exact unset_weight_is_one. Qed.
Print Assumptions C13_unit_weight.

(* the statement users read: over the reals, and over the canonical rationals (every finite
   double is one), orders 1..8, any event *)
Theorem C13_numerator_R : forall c ev, (c < 8)%nat ->
  N_event R 0%R 1%R Rplus Rmult Rminus Ropp c ev
  = Some (dsum 0%R 1%R Rplus Rmult (S c) (map (wpt R 1%R Rmult) ev)).
Proof. exact (N_event_spec R _ _ _ _ _ _ RTheory). Qed.
Print Assumptions C13_numerator_R.

Theorem C13_numerator_Qc : forall c ev, (c < 8)%nat ->
  N_event Qc 0%Qc 1%Qc Qcplus Qcmult Qcminus Qcopp c ev
  = Some (dsum 0%Qc 1%Qc Qcplus Qcmult (S c) (map (wpt Qc 1%Qc Qcmult) ev)).
Proof. exact (N_event_spec Qc _ _ _ _ _ _ Qcrt). Qed.
Print Assumptions C13_numerator_Qc.

(* non-vacuity: a concrete two-event sample over Z, k = 3: tuples of distinct particles *)
Theorem C13_example :
  corr_pair Z 0%Z 1%Z Z.add Z.mul Z.sub Z.opp 2
    [[(1, None); (2, Some 3); (3, None); (1, Some 2)]; [(2, None); (5, None); (1, None)]]%Z
  = Some (492, 108)%Z.
Proof. exact (eq_refl _). Qed.
Print Assumptions C13_example.

(* what "dsum" is: the sum over all ordered k-tuples of distinct positions of the product of the entries,
   and there are M(M-1)...(M-k+1) such tuples, each with k entries *)
Theorem C13_dsum_is_tuple_sum :
  forall K k0 k1 kadd kmul ksub kopp, ring_theory k0 k1 kadd kmul ksub kopp (@eq K) ->
  forall k l, dsum k0 k1 kadd kmul k l = ksum k0 kadd (map (kprod k1 kmul) (sel k l)).
Proof. exact dsum_is_tuple_sum. Qed.
Print Assumptions C13_dsum_is_tuple_sum.

Theorem C13_tuple_count :
  forall A k (l : list A), length (sel k l) = falling (length l) k /\ (forall t, In t (sel k l) -> length t = k).
Proof. exact (fun A k l => conj (sel_count k l) (sel_length k l)). Qed.
Print Assumptions C13_tuple_count.

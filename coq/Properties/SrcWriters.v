(* Source tie of C06: the hand model of the two file writers (Model/Writer.v) equals the method bodies of
   src/sparkx/Oscar.py and src/sparkx/Jetscape.py as regenerated on every run (Gen/GenWriters.v, translated by
   tools/py2coq/gen_writers.py over the runtime Model/WritersRt.v; BaseStorer.particle_list() is Gen/GenStorer.v).
   Statements only; proofs in Proofs/Writers_Source.v.
   Oracles (universally quantified): fmt f v = what `'%g' % v`, `'%.9g' % v`, `'%d' % v` print for a finite double,
   dec z = str(z); laws assumed: `%d` prints the integer part (fmt FD (trq v) = fmt FD v) and dec 0 = "0".
   Domain [odom src s] (Oscar) / [jdom src s] (JETSCAPE): the invariant of C06 (counts describe the held events,
   labels have end lines, three header lines), the header being the head of the input file which has an end line
   within the first 1000000 lines, end lines with a token after the event number, a format the model writes (ASCII:
   every column has a printf format), no NaN in a written column, no event with more than 20 columns after a first
   one with 20. *)
From Coq Require Import List String ZArith QArith Bool.
From SX Require Import Lib.Strs Gen.GenFormats Model.Oscar Model.Writer Model.WritersRt Gen.GenWriters Proofs.Writers_Source.
From SX Require Proofs.C06_Example.
Import ListNotations.
Local Open Scope string_scope.

(* Oscar.print_particle_lists_to_file: header copy, event numbering, "# event i out n", rows, end line lookup and
   renumbering, the empty-event / no-event / single-event branches, the 21/22-column extension, ASCII formats;
   whatever the output file held before *)
Theorem SrcWriters_oscar_print :
  forall fmt dec, (forall v, fmt FD (trq v) = fmt FD v) ->
  forall (s : ostate) (out0 : list line), dec 0%Z = "0" ->
  forall src, odom src s ->
  gen_oscar_print fmt dec out0 (oself_of src s) = write_oscar fmt dec s.
Proof. exact source_oscar_print. Qed.
Print Assumptions SrcWriters_oscar_print.

(* Jetscape.print_particle_lists_to_file: header, "# Event i+1 weight 1 EPangle 0 <type> n", rows, trailer *)
Theorem SrcWriters_jetscape_print :
  forall fmt dec, (forall v, fmt FD (trq v) = fmt FD v) ->
  forall (s : jstate) (out0 src : list line), jdom src s ->
  gen_jetscape_print fmt dec out0 (jself_of src s) = write_jetscape fmt dec s.
Proof. exact source_jetscape_print. Qed.
Print Assumptions SrcWriters_jetscape_print.

(* Oscar._particle_as_list: every input and exception in closed form; and against the hand model's values *)
Theorem SrcWriters_oscar_row_spec :
  forall self p, gen_oscar_particle_as_list self p = oscar_row_spec (o_format self) (o_attrs self) p.
Proof. exact source_oscar_particle_as_list_spec. Qed.
Print Assumptions SrcWriters_oscar_row_spec.

Theorem SrcWriters_oscar_row :
  forall self p vs, row_values (o_format self) (o_attrs self) p = Ok vs ->
  gen_oscar_particle_as_list self p = Ok (cellsQ (row_flags (o_format self) (o_attrs self) p) vs).
Proof. exact source_oscar_particle_as_list. Qed.
Print Assumptions SrcWriters_oscar_row.

(* Jetscape._particle_as_list *)
Theorem SrcWriters_jetscape_row_spec :
  forall self p, gen_jetscape_particle_as_list self p = mapr (cellf p) jet_cols.
Proof. exact source_jetscape_particle_as_list_spec. Qed.
Print Assumptions SrcWriters_jetscape_row_spec.

Theorem SrcWriters_jetscape_row :
  forall self p vs, mapr (fun c => col_value c p) jet_cols = Ok vs ->
  gen_jetscape_particle_as_list self p = Ok (cellsQ (map snd jet_cols) vs).
Proof. exact source_jetscape_particle_as_list. Qed.
Print Assumptions SrcWriters_jetscape_row.

(* Oscar.__event_footer: the end line of the label, renumbered; IndexError for a label without end line *)
Theorem SrcWriters_oscar_event_footer :
  forall dec self lab (pos : nat), (0 <= lab)%Z ->
  (forall f, nth_error (o_end_lines self) (Z.to_nat lab) = Some f -> (4 <= List.length f)%nat) ->
  gen_oscar_event_footer dec self lab (Z.of_nat pos) = footer_for dec (o_end_lines self) lab pos.
Proof. exact source_oscar_event_footer. Qed.
Print Assumptions SrcWriters_oscar_event_footer.

(* an attribute that is None: ValueError *)
Theorem SrcWriters_oscar_print_none :
  forall fmt dec out0 self header,
  src_ok (o_src self) header -> (o_format self =? "ASCII") = false ->
  o_events self = None \/ o_counts self = None \/ o_nevents self = None ->
  gen_oscar_print fmt dec out0 self = Err ValueError.
Proof. exact source_oscar_print_none. Qed.
Print Assumptions SrcWriters_oscar_print_none.

Theorem SrcWriters_jetscape_print_none :
  forall fmt dec out0 self,
  j_events self = None \/ j_counts self = None \/ j_nevents self = None ->
  gen_jetscape_print fmt dec out0 self = Err ValueError.
Proof. exact source_jetscape_print_none. Qed.
Print Assumptions SrcWriters_jetscape_print_none.

(* the constructors: what the attributes the writers read are set from *)
Theorem SrcWriters_oscar_init :
  gen_oscar_init = [("PATH_OSCAR_", "OSCAR_FILE"); ("oscar_format_", "self.loader_.oscar_format()");
                    ("event_end_lines_", "self.loader_.event_end_lines()");
                    ("impact_parameters_", "self.loader_.impact_parameter()")].
Proof. exact source_oscar_init. Qed.
Print Assumptions SrcWriters_oscar_init.

Theorem SrcWriters_jetscape_init :
  gen_jetscape_init = [("sigmaGen_", "self.loader_.get_sigmaGen()"); ("particle_type_", "self.loader_.get_particle_type()");
                       ("JETSCAPE_FILE", "JETSCAPE_FILE");
                       ("particle_type_defining_string_", "self.loader_.get_particle_type_defining_string()");
                       ("last_line_", "self.loader_.get_last_line(JETSCAPE_FILE)")].
Proof. exact source_jetscape_init. Qed.
Print Assumptions SrcWriters_jetscape_init.

(* the getters of Particle behind the hand model's attribute table *)
Theorem SrcWriters_particle_props :
  (forall a x, assoc a attr_table = Some x -> assoc a gen_particle_props = Some x) /\
  assoc "status" gen_particle_props = Some (21%nat, true) /\ assoc "weight" gen_particle_props = Some (24%nat, false).
Proof. exact source_particle_props. Qed.
Print Assumptions SrcWriters_particle_props.

(* non-vacuity: the state of C06_example is in the domain *)
Theorem SrcWriters_example : odom ex_src C06_Example.ex_state.
Proof. exact source_oscar_example. Qed.
Print Assumptions SrcWriters_example.

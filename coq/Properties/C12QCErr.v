(* C12 (Q-cumulant part, attached to C12 through EXTRA_PROPERTY_FILES): the ERRORS of the Q-cumulant estimator, integrated
   and differential, and the differential correlators <<2'>>, <<4'>> / flow values do not depend on the per-event random
   rotation, on the order of the particles in an event or on the order of the events.
   Statements only; proofs in Proofs/C12_QCErr.v about Gen/GenQCumulantErr.v (regenerated from QCumulantFlow.py on every
   run: __calculate_corr errors and event-by-event arrays, __cov, __cov_term, __cov_term_differential, the error returned
   by __cumulant_flow and by __compute_differential_flow_bin) and the glue Model/QCumulantErr.v.
   K is any commutative ring; kdiv, kleb, kltb, krpow (x ** (c/k)) and kcsqrt (np.sqrt of a complex number) are arbitrary
   functions.  Hypotheses as in C12_qc_invariant: particles and rotations of evs are units, rotations of evs' are units,
   evs' = evs with every event rotated by its own unit, its particles reordered, and the events reordered. *)
From Coq Require Import String ZArith Ring_theory Bool List.
From SX Require Import Lib.KRing Lib.Cpx Lib.Distinct Gen.GenQCumulant Model.QCumulant Proofs.C11_Corr Proofs.C12_QC
  Gen.GenQCumulantErr Model.QCumulantErr Proofs.C12_QCErr.
Import ListNotations.

(* integrated: errors of <<2>>, <<4>>, <<6>>, the covariance terms, and integrated_flow(...)[1] for every k and mode *)
Theorem C12_qc_error_invariant :
  forall K k0 k1 kadd kmul ksub kopp kdiv kleb kltb krpow kcsqrt, ring_theory k0 k1 kadd kmul ksub kopp (@eq K) ->
  forall P zof inbin ispoi evs evs',
  Forall (good K k0 k1 kadd kmul ksub kopp P zof) evs ->
  Forall (fun e => cunit K k0 k1 kadd kmul ksub kopp (fst e)) evs' ->
  qc_related K P evs evs' ->
  (corr_err2 K k0 k1 kadd kmul ksub kopp kdiv kleb kltb krpow kcsqrt P zof inbin ispoi evs
   = corr_err2 K k0 k1 kadd kmul ksub kopp kdiv kleb kltb krpow kcsqrt P zof inbin ispoi evs' /\
   corr_err4 K k0 k1 kadd kmul ksub kopp kdiv kleb kltb krpow kcsqrt P zof inbin ispoi evs
   = corr_err4 K k0 k1 kadd kmul ksub kopp kdiv kleb kltb krpow kcsqrt P zof inbin ispoi evs' /\
   corr_err6 K k0 k1 kadd kmul ksub kopp kdiv kleb kltb krpow kcsqrt P zof inbin ispoi evs
   = corr_err6 K k0 k1 kadd kmul ksub kopp kdiv kleb kltb krpow kcsqrt P zof inbin ispoi evs') /\
  (cov24 K k0 k1 kadd kmul ksub kopp kdiv kleb kltb krpow kcsqrt P zof inbin ispoi evs
   = cov24 K k0 k1 kadd kmul ksub kopp kdiv kleb kltb krpow kcsqrt P zof inbin ispoi evs' /\
   cov26 K k0 k1 kadd kmul ksub kopp kdiv kleb kltb krpow kcsqrt P zof inbin ispoi evs
   = cov26 K k0 k1 kadd kmul ksub kopp kdiv kleb kltb krpow kcsqrt P zof inbin ispoi evs' /\
   cov46 K k0 k1 kadd kmul ksub kopp kdiv kleb kltb krpow kcsqrt P zof inbin ispoi evs
   = cov46 K k0 k1 kadd kmul ksub kopp kdiv kleb kltb krpow kcsqrt P zof inbin ispoi evs') /\
  (forall k imag,
   qc_error K k0 k1 kadd kmul ksub kopp kdiv kleb kltb krpow kcsqrt P zof inbin ispoi evs k imag
   = qc_error K k0 k1 kadd kmul ksub kopp kdiv kleb kltb krpow kcsqrt P zof inbin ispoi evs' k imag).
Proof. exact qc_error_invariant. Qed.
Print Assumptions C12_qc_error_invariant.

(* by-product: each event-by-event correlator <2k>_i is the sum over ordered tuples of distinct particles of the
   UNROTATED event divided by the number of tuples (so it does not see the rotation or the order) *)
Theorem C12_qc_ebe_closed :
  forall K k0 k1 kadd kmul ksub kopp kdiv kleb kltb krpow kcsqrt, ring_theory k0 k1 kadd kmul ksub kopp (@eq K) ->
  forall P zof inbin ispoi evs e, good K k0 k1 kadd kmul ksub kopp P zof e ->
  let DS := dsum2 (c0 K k0) (c1 K k0 k1) (cadd K kadd) (cmul K kadd kmul ksub) (@conj K kopp) in
  ebe2 K k0 k1 kadd kmul ksub kopp kdiv kleb kltb krpow kcsqrt P zof inbin ispoi evs e
  = kdiv (re (DS 1%nat 1%nat (zs0 K P zof e))) (knat k0 k1 kadd (ffact 2 (length (snd e)))) /\
  ebe4 K k0 k1 kadd kmul ksub kopp kdiv kleb kltb krpow kcsqrt P zof inbin ispoi evs e
  = kdiv (re (DS 2%nat 2%nat (zs0 K P zof e))) (knat k0 k1 kadd (ffact 4 (length (snd e)))) /\
  ebe6 K k0 k1 kadd kmul ksub kopp kdiv kleb kltb krpow kcsqrt P zof inbin ispoi evs e
  = kdiv (re (DS 3%nat 3%nat (zs0 K P zof e))) (knat k0 k1 kadd (ffact 6 (length (snd e)))).
Proof. exact qc_ebe_closed. Qed.
Print Assumptions C12_qc_ebe_closed.

(* differential: <<2'>>, <<4'>>, d_n{4}, c_n{4} and one bin of differential_flow (value) for every k and mode *)
Theorem C12_qc_diff_invariant :
  forall K k0 k1 kadd kmul ksub kopp kdiv kleb kltb krpow, ring_theory k0 k1 kadd kmul ksub kopp (@eq K) ->
  forall P zof inbin ispoi evs evs',
  Forall (good K k0 k1 kadd kmul ksub kopp P zof) evs ->
  Forall (fun e => cunit K k0 k1 kadd kmul ksub kopp (fst e)) evs' ->
  qc_related K P evs evs' ->
  dcorr2 K k0 k1 kadd kmul ksub kopp kdiv kleb kltb krpow P zof inbin ispoi evs
  = dcorr2 K k0 k1 kadd kmul ksub kopp kdiv kleb kltb krpow P zof inbin ispoi evs' /\
  dcorr4 K k0 k1 kadd kmul ksub kopp kdiv kleb kltb krpow P zof inbin ispoi evs
  = dcorr4 K k0 k1 kadd kmul ksub kopp kdiv kleb kltb krpow P zof inbin ispoi evs' /\
  dn4 K k0 k1 kadd kmul ksub kopp kdiv kleb kltb krpow P zof inbin ispoi evs
  = dn4 K k0 k1 kadd kmul ksub kopp kdiv kleb kltb krpow P zof inbin ispoi evs' /\
  cn4 K k0 k1 kadd kmul ksub kopp kdiv kleb kltb krpow P zof inbin ispoi evs
  = cn4 K k0 k1 kadd kmul ksub kopp kdiv kleb kltb krpow P zof inbin ispoi evs' /\
  (forall k imag,
   differential_bin K k0 k1 kadd kmul ksub kopp kdiv kleb kltb krpow P zof inbin ispoi evs k imag
   = differential_bin K k0 k1 kadd kmul ksub kopp kdiv kleb kltb krpow P zof inbin ispoi evs' k imag).
Proof. exact (fun K k0 k1 kadd kmul ksub kopp kdiv kleb kltb krpow => qc_diff_invariant K k0 k1 kadd kmul ksub kopp kdiv kleb kltb krpow (fun z => z)). Qed.
Print Assumptions C12_qc_diff_invariant.

(* by-product: the per-event sums of <2'>, <4'> are the tuple sums of the UNROTATED event with the first particle a particle
   of interest in the bin (Eq. (32) as coded carries an extra imaginary term 6 Im <2'>-sum), the weights count those tuples *)
Theorem C12_qc_dsum_closed :
  forall K k0 k1 kadd kmul ksub kopp kdiv kleb kltb krpow kcsqrt, ring_theory k0 k1 kadd kmul ksub kopp (@eq K) ->
  forall P zof inbin ispoi evs e, good K k0 k1 kadd kmul ksub kopp P zof e ->
  let PD := pdsum2 (c0 K k0) (c1 K k0 k1) (cadd K kadd) (cmul K kadd kmul ksub) (@conj K kopp) in
  let fl := flagged K P zof inbin ispoi e in
  dsum2_ev K k0 k1 kadd kmul ksub kopp kdiv kleb kltb krpow kcsqrt P zof inbin ispoi evs e = PD 0%nat 1%nat fl /\
  dsum4_ev K k0 k1 kadd kmul ksub kopp kdiv kleb kltb krpow kcsqrt P zof inbin ispoi evs e
  = cadd K kadd (PD 1%nat 2%nat fl) (k0, kmul (kz k0 k1 kadd kmul kopp 6) (im (PD 0%nat 1%nat fl))) /\
  dw2 K k0 k1 kadd kmul ksub kopp kdiv kleb kltb krpow kcsqrt P zof inbin ispoi evs e
  = knat k0 k1 kadd (length (snd (sel_poi K P inbin ispoi e)) * ffact 1 (pred (length (snd e)))) /\
  dw4 K k0 k1 kadd kmul ksub kopp kdiv kleb kltb krpow kcsqrt P zof inbin ispoi evs e
  = knat k0 k1 kadd (length (snd (sel_poi K P inbin ispoi e)) * ffact 3 (pred (length (snd e)))).
Proof. exact qc_dsum_closed. Qed.
Print Assumptions C12_qc_dsum_closed.

(* differential errors: k = 2, k = 4, and one bin of differential_flow (error) for every k and mode *)
Theorem C12_qc_diff_error_invariant :
  forall K k0 k1 kadd kmul ksub kopp kdiv kleb kltb krpow kcsqrt, ring_theory k0 k1 kadd kmul ksub kopp (@eq K) ->
  forall P zof inbin ispoi evs evs',
  Forall (good K k0 k1 kadd kmul ksub kopp P zof) evs ->
  Forall (fun e => cunit K k0 k1 kadd kmul ksub kopp (fst e)) evs' ->
  qc_related K P evs evs' ->
  diff_err2 K k0 k1 kadd kmul ksub kopp kdiv kleb kltb krpow kcsqrt P zof inbin ispoi evs
  = diff_err2 K k0 k1 kadd kmul ksub kopp kdiv kleb kltb krpow kcsqrt P zof inbin ispoi evs' /\
  diff_err4 K k0 k1 kadd kmul ksub kopp kdiv kleb kltb krpow kcsqrt P zof inbin ispoi evs
  = diff_err4 K k0 k1 kadd kmul ksub kopp kdiv kleb kltb krpow kcsqrt P zof inbin ispoi evs' /\
  (forall k imag,
   qc_diff_error K k0 k1 kadd kmul ksub kopp kdiv kleb kltb krpow kcsqrt P zof inbin ispoi evs k imag
   = qc_diff_error K k0 k1 kadd kmul ksub kopp kdiv kleb kltb krpow kcsqrt P zof inbin ispoi evs' k imag).
Proof. exact qc_diff_error_invariant. Qed.
Print Assumptions C12_qc_diff_error_invariant.

(* non-vacuity: Gaussian-integer units, three events of 7, 6, 8 particles (5, 5, 6 particles of interest), rotations
   i, -1, -i, particles and events reordered; integer stand-ins for division and roots; every error / flow
   value of the two samples is the same, is a value and is not 0 (ex_nz, ex_nzd) *)
Theorem C12_qcerr_example :
  Forall (good Z 0%Z 1%Z Z.add Z.mul Z.sub Z.opp exP fst) ex_a /\
  Forall (fun e : event Z exP => cunit Z 0%Z 1%Z Z.add Z.mul Z.sub Z.opp (fst e)) ex_b /\
  qc_related Z exP ex_a ex_b /\
  map (fun k => ex_err k ex_a) [2; 4; 6; 3]%nat = map (fun k => ex_err k ex_b) [2; 4; 6; 3]%nat /\
  forallb ex_nz (map (fun k => ex_err k ex_a) [2; 4; 6]%nat) = true /\ ex_err 3 ex_a = None /\
  map (fun k => ex_derr k ex_a) [2; 4; 6]%nat = map (fun k => ex_derr k ex_b) [2; 4; 6]%nat /\
  forallb ex_nzd (map (fun k => ex_derr k ex_a) [2; 4]%nat) = true /\ ex_derr 6 ex_a = DErr Z /\
  map (fun k => ex_dval k ex_a) [2; 4; 6]%nat = map (fun k => ex_dval k ex_b) [2; 4; 6]%nat /\
  forallb ex_nzd (map (fun k => ex_dval k ex_a) [2; 4]%nat) = true.
Proof. exact p_C12_qcerr_example. Qed.
Print Assumptions C12_qcerr_example.

(* C02 source tie, particle-object part - the hand model Model/PObj.v (pvalidate, pselect / pslice, the per-event
   filter, pfirst / label_from, pload) equals the method bodies of loader/ParticleObjectLoader.py, loader/BaseLoader.py,
   BaseStorer.py (__init__) and ParticleObjectStorer.py as regenerated on every run (Gen/GenPObj.v by
   tools/py2coq/gen_pobj.py over the runtime Model/PObjRt.v).  Only statements closed by [exact]; proofs in
   Proofs/PObj_Source.v.
   P: particle objects (opaque); flt: self.__apply_kwargs_filters as a function of (list of events, filters value)
   (its chain is Gen/GenDispatch.v, C05); pattr: reading an attribute of a Particle object.
   An object is VObj <class> <attribute dictionary>; of_evs: a nested list of particle objects as a Python value.
   keys_ok kw: every keyword is `events` or `filters`.  sel_of: the value of `events` as a selector of the model -
   absent = PAll, an int or bool k = POne k, a tuple (a, b, ...) of ints = PRange a b (items after the second are
   never read).  flt_of: the value of `filters` as the model's per-event function
   e |-> self.__apply_kwargs_filters([e], filters)[0].  held_of: that function over the selected events.
   obs: the attributes particle_list_, num_events_, num_output_per_event_ of the finished storer, and that loader_
   has been deleted. *)
From Coq Require Import List ZArith Bool String.
From SX Require Import Lib.Py Model.PObj Model.PObjRt Gen.GenPObj Proofs.PObj_Source.
Import ListNotations.
Local Open Scope Z_scope.

(* ParticleObjectStorer(evs, **kw) IS pload: same events held, their number, the rows [label, count]; the same
   exception class (ValueError for an invalid selector, IndexError for events=k beyond the list, whatever the filter
   raises) *)
Theorem C02_source_pload :
  forall (P : Type) (flt : list (list P) -> pv P -> result (list (list P)))
         (evs : list (list P)) (kw : list (string * pv P)) (s : psel),
  keys_ok P kw = true -> sel_of P (lookup "events" kw) = Some s ->
  obs P (gen_new_ParticleObjectStorer P flt (of_evs evs) (VDict kw))
  = rmap (of_storer P) (pload P (flt_of P flt (lookup "filters" kw)) s evs).
Proof. exact source_pload. Qed.
Print Assumptions C02_source_pload.

(* the property on the regenerated constructor: events=(a, b) holds the slice a..b of the load without `events` *)
Theorem C02_source_range_is_slice :
  forall (P : Type) (flt : list (list P) -> pv P -> result (list (list P)))
         (evs : list (list P)) (kw : list (string * pv P)) (a b : Z) (ev_full : list (list P)) (n : Z) (cnts : list (Z * Z)),
  keys_ok P kw = true -> lookup "events" kw = None -> 0 <= a <= b -> b < zlen evs ->
  obs P (gen_new_ParticleObjectStorer P flt (of_evs evs) (VDict kw)) = Ok (of_evs ev_full, VInt n, VArr2 cnts) ->
  obs P (gen_new_ParticleObjectStorer P flt (of_evs evs) (VDict (("events"%string, VTuple [VInt a; VInt b]) :: kw)))
  = Ok (of_evs (pslice a b ev_full), VInt (b + 1 - a), VArr2 (pslice a b cnts)).
Proof. exact source_range_is_slice. Qed.
Print Assumptions C02_source_range_is_slice.

(* ParticleObjectLoader.__init__: the type check of the argument *)
Theorem C02_source_loader_init :
  forall (P : Type) (c : string) (attrs : list (string * pv P)) (x : pv P),
  gen_ParticleObjectLoader_init P (VObj c attrs) x
  = (if py_isinstance x T_list then Ok (VObj c (update "particle_list_" x attrs), VNone) else Err TypeError).
Proof. exact source_loader_init. Qed.
Print Assumptions C02_source_loader_init.

(* BaseLoader._check_that_tuple_contains_integers_only *)
Theorem C02_source_check_tuple :
  forall (P : Type) (self : pv P) (l : list (pv P)),
  gen_BaseLoader_check_that_tuple_contains_integers_only P self (VTuple l)
  = (if ints P l then Ok (self, VNone) else Err TypeError).
Proof. exact source_check_tuple. Qed.
Print Assumptions C02_source_check_tuple.

(* ParticleObjectLoader.set_num_output_per_event: the sizes of ALL input events, as a plain list *)
Theorem C02_source_set_num_output_per_event :
  forall (P : Type) (c : string) (attrs : list (string * pv P)) (evs : list (list P)),
  lookup "particle_list_" attrs = Some (of_evs evs) ->
  lookup "num_events_" attrs = Some (VInt (zlen evs)) ->
  gen_ParticleObjectLoader_set_num_output_per_event P (VObj c attrs)
  = Ok (VObj c (update "num_output_per_event_" (VList (counts_of P evs)) attrs), VList (counts_of P evs)).
Proof. exact source_set_num_output_per_event. Qed.
Print Assumptions C02_source_set_num_output_per_event.

(* ParticleObjectLoader.set_particle_list = pselect, then the filter on each selected event; for a selector that
   passed load's validation (a negative index would wrap around here, which the model's pselect does not do) *)
Theorem C02_source_set_particle_list :
  forall (P : Type) (flt : list (list P) -> pv P -> result (list (list P)))
         (c : string) (attrs : list (string * pv P)) (evs : list (list P)) (kw : list (string * pv P)) (s : psel),
  lookup "particle_list_" attrs = Some (of_evs evs) ->
  sel_of P (lookup "events" kw) = Some s -> pvalidate s = Ok tt ->
  gen_ParticleObjectLoader_set_particle_list P flt (VObj c attrs) (VDict kw)
  = rbind (pselect P s evs) (fun sel =>
    rbind (held_of P flt (lookup "filters" kw) sel) (fun held =>
    Ok (VObj c (update "particle_list_" (of_evs held) attrs), of_evs held))).
Proof. exact source_set_particle_list. Qed.
Print Assumptions C02_source_set_particle_list.

(* ParticleObjectLoader.load: pvalidate, then the selection; the returned tuple carries the number and the sizes of
   all INPUT events *)
Theorem C02_source_load :
  forall (P : Type) (flt : list (list P) -> pv P -> result (list (list P)))
         (c : string) (attrs : list (string * pv P)) (evs : list (list P)) (kw : list (string * pv P)) (s : psel),
  lookup "particle_list_" attrs = Some (of_evs evs) ->
  keys_ok P kw = true -> sel_of P (lookup "events" kw) = Some s ->
  rmap snd (gen_ParticleObjectLoader_load P flt (VObj c attrs) (VDict kw))
  = rbind (pvalidate s) (fun _ =>
    rbind (pselect P s evs) (fun sel =>
    rbind (held_of P flt (lookup "filters" kw) sel) (fun held =>
    Ok (VTuple [of_evs held; VInt (zlen evs); VList (counts_of P evs); VList []])))).
Proof. exact source_load. Qed.
Print Assumptions C02_source_load.

(* load: a keyword other than events / filters *)
Theorem C02_source_load_unknown_key :
  forall (P : Type) (flt : list (list P) -> pv P -> result (list (list P)))
         (c : string) (attrs : list (string * pv P)) (l : list (pv P)) (kw : list (string * pv P)),
  lookup "particle_list_" attrs = Some (VList l) -> keys_ok P kw = false ->
  gen_ParticleObjectLoader_load P flt (VObj c attrs) (VDict kw) = Err ValueError.
Proof. exact source_load_unknown_key. Qed.
Print Assumptions C02_source_load_unknown_key.

(* load: events=<tuple> with a non-int item is TypeError; a tuple of fewer than two ints is IndexError *)
Theorem C02_source_load_bad_tuple :
  forall (P : Type) (flt : list (list P) -> pv P -> result (list (list P)))
         (c : string) (attrs : list (string * pv P)) (l : list (pv P)) (kw : list (string * pv P)) (t : list (pv P)),
  lookup "particle_list_" attrs = Some (VList l) -> keys_ok P kw = true ->
  lookup "events" kw = Some (VTuple t) ->
  (ints P t = false -> gen_ParticleObjectLoader_load P flt (VObj c attrs) (VDict kw) = Err TypeError) /\
  (ints P t = true -> (List.length t < 2)%nat ->
   gen_ParticleObjectLoader_load P flt (VObj c attrs) (VDict kw) = Err IndexError).
Proof. exact source_load_bad_tuple. Qed.
Print Assumptions C02_source_load_bad_tuple.

(* BaseStorer.__init__: the loader is created and the tuple returned by load() is taken over attribute by
   attribute (base_post: particle_list_, num_events_, num_output_per_event_, custom_attr_list; loader_ is set) *)
Theorem C02_source_base_storer_init :
  forall (P : Type) (flt : list (list P) -> pv P -> result (list (list P)))
         (c : string) (attrs : list (string * pv P)) (evs : list (list P)) (kw : list (string * pv P)) (s : psel),
  keys_ok P kw = true -> sel_of P (lookup "events" kw) = Some s ->
  match held_events P flt kw s evs with
  | Ok held => exists r, gen_BaseStorer_init P flt (VObj c attrs) (of_evs evs) (VDict kw) = Ok r /\ base_post P c evs held r
  | Err e => gen_BaseStorer_init P flt (VObj c attrs) (of_evs evs) (VDict kw) = Err e
  end.
Proof. exact source_base_storer_init. Qed.
Print Assumptions C02_source_base_storer_init.

(* the constructor outside the model: not a list; an unknown keyword; a keyword that is a named parameter of
   BaseStorer.__init__ (Python: "got multiple values for argument") *)
Theorem C02_source_new_not_a_list :
  forall (P : Type) (flt : list (list P) -> pv P -> result (list (list P))) (x : pv P) (kw : list (string * pv P)),
  keys_ok P kw = true -> py_isinstance x T_list = false ->
  gen_new_ParticleObjectStorer P flt x (VDict kw) = Err TypeError.
Proof. exact source_new_not_a_list. Qed.
Print Assumptions C02_source_new_not_a_list.

Theorem C02_source_new_unknown_key :
  forall (P : Type) (flt : list (list P) -> pv P -> result (list (list P))) (evs : list (list P)) (kw : list (string * pv P)),
  keys_ok P kw = false ->
  existsb (fun k => str_mem k ["self"; "path"]%string) (map fst kw) = false ->
  gen_new_ParticleObjectStorer P flt (of_evs evs) (VDict kw) = Err ValueError.
Proof. exact source_new_unknown_key. Qed.
Print Assumptions C02_source_new_unknown_key.

Theorem C02_source_new_clashing_key :
  forall (P : Type) (flt : list (list P) -> pv P -> result (list (list P))) (x : pv P) (kw : list (string * pv P)),
  existsb (fun k => str_mem k ["self"; "path"]%string) (map fst kw) = true ->
  gen_new_ParticleObjectStorer P flt x (VDict kw) = Err TypeError.
Proof. exact source_new_clashing_key. Qed.
Print Assumptions C02_source_new_clashing_key.

(* ParticleObjectStorer.create_loader / _update_after_merge / _particle_as_list *)
Theorem C02_source_create_loader :
  forall (P : Type) (c : string) (attrs : list (string * pv P)) (evs : list (list P)),
  gen_ParticleObjectStorer_create_loader P (VObj c attrs) (of_evs evs)
  = Ok (VObj c (update "loader_" (VObj "ParticleObjectLoader" [("particle_list_"%string, of_evs evs)]) attrs), VNone).
Proof. exact source_create_loader. Qed.
Print Assumptions C02_source_create_loader.

Theorem C02_source_update_after_merge :
  forall (P : Type) (self other : pv P),
  gen_ParticleObjectStorer_update_after_merge P self other = Ok (self, VNone).
Proof. exact source_update_after_merge. Qed.
Print Assumptions C02_source_update_after_merge.

Theorem C02_source_particle_as_list :
  forall (P : Type) (pattr : P -> string -> result (pv P)) (self : pv P) (p : P),
  gen_ParticleObjectStorer_particle_as_list P pattr self (VP p)
  = rbind (mapM (pattr p)
      ["t"; "x"; "y"; "z"; "mass"; "E"; "px"; "py"; "pz"; "pdg"; "ID"; "charge"; "ncoll"; "form_time"; "xsecfac";
       "proc_id_origin"; "proc_type_origin"; "t_last_coll"; "pdg_mother1"; "pdg_mother2"; "baryon_number";
       "strangeness"; "weight"; "status"]%string) (fun l => Ok (self, VList l)).
Proof. exact source_particle_as_list. Qed.
Print Assumptions C02_source_particle_as_list.

(* non-vacuity: the translated constructor run on a concrete list with events=(1, 2) and an (empty) filters dict,
   the filter chain being "keep the even ones" *)
Theorem C02_source_example :
  obs nat (gen_new_ParticleObjectStorer nat (fun l _ => Ok (map (filter Nat.even) l))
             (of_evs [[1; 2]; [3; 4; 6]; []; [8]]%nat)
             (VDict [("events", VTuple [VInt 1; VInt 2]); ("filters", VDict [])]%string))
  = Ok (of_evs [[4; 6]; []]%nat, VInt 2, VArr2 [(1, 2); (2, 0)]).
Proof. exact source_example. Qed.
Print Assumptions C02_source_example.

(* C12 - flow estimates depend only on relative azimuthal geometry.
   Statements only; proofs in Proofs/C12_*.v about the hand models Model/FlowRP.v, FlowSP.v, FlowEP.v, the generated
   Q-cumulant formulas (through C11) and the regenerated tables Gen/GenFlowTables.v.  K is any commutative ring;
   a particle is (u, d) with u = exp(i n phi); rotating by alpha multiplies u by the unit rho = exp(i n alpha). *)
From Coq Require Import String ZArith Ring_theory Reals RealField Bool List Permutation.
From SX Require Import Lib.KRing Lib.Cpx Model.FlowRP Model.FlowSP Model.FlowEP Gen.GenFlowTables Gen.GenQCumulant Model.QCumulant
  Proofs.C11_Corr Proofs.C11_Reals Proofs.C12_Skel Proofs.C12_RP Proofs.C12_SP Proofs.C12_EPReal Proofs.C12_QC Proofs.C12_Tables.
Import ListNotations.

(* ---------------- reaction plane ---------------- *)
(* a common rotation of all particles: the result acquires exactly the factor rho *)
Theorem C12_rp_rotation :
  forall K k0 k1 kadd kmul ksub kopp kinv kis0, ring_theory k0 k1 kadd kmul ksub kopp (@eq K) ->
  forall D pwt rho evs,
  rp_integrated K k0 kadd kmul kinv kis0 D pwt (map (map (rotp K kadd kmul ksub D rho)) evs)
  = option_map (cmul K kadd kmul ksub rho) (rp_integrated K k0 kadd kmul kinv kis0 D pwt evs).
Proof. exact rp_rotation. Qed.
Print Assumptions C12_rp_rotation.

(* with positive particle weights: the weighted mean of exp(i n phi); ZeroDivisionError without weight *)
Theorem C12_rp_mean :
  forall K k0 k1 kadd kmul ksub kopp kinv kis0, ring_theory k0 k1 kadd kmul ksub kopp (@eq K) ->
  forall D pwt (pos : K -> Prop),
  (forall a b, pos a -> pos b -> pos (kadd a b)) -> (forall a, pos a -> kis0 a = false) -> kis0 k0 = true ->
  (forall d, pos (pwt d)) ->
  forall evs,
  rp_integrated K k0 kadd kmul kinv kis0 D pwt evs =
    if kis0 (ksum k0 kadd (map (ewt K k0 kadd D pwt) evs)) then None else Some (rp_mean K k0 kadd kmul kinv D pwt evs).
Proof. exact rp_is_mean. Qed.
Print Assumptions C12_rp_mean.

Theorem C12_rp_reorder :
  forall K k0 k1 kadd kmul ksub kopp kinv kis0, ring_theory k0 k1 kadd kmul ksub kopp (@eq K) ->
  forall D pwt (pos : K -> Prop),
  (forall a b, pos a -> pos b -> pos (kadd a b)) -> (forall a, pos a -> kis0 a = false) -> kis0 k0 = true ->
  (forall d, pos (pwt d)) ->
  forall evs evs1 evs', Forall2 (@Permutation (part K D)) evs evs1 -> Permutation evs1 evs' ->
  rp_integrated K k0 kadd kmul kinv kis0 D pwt evs = rp_integrated K k0 kadd kmul kinv kis0 D pwt evs'.
Proof. exact rp_reorder. Qed.
Print Assumptions C12_rp_reorder.

Theorem C12_rp_diff_all :
  forall K k0 k1 kadd kmul ksub kopp kinv kis0, ring_theory k0 k1 kadd kmul ksub kopp (@eq K) ->
  forall D pwt (pos : K -> Prop),
  (forall a b, pos a -> pos b -> pos (kadd a b)) -> (forall a, pos a -> kis0 a = false) -> kis0 k0 = true ->
  (forall d, pos (pwt d)) ->
  forall inbin evs v, (forall d, inbin d = true) ->
  rp_integrated K k0 kadd kmul kinv kis0 D pwt evs = Some v ->
  rp_differential_bin K k0 kadd kmul kinv kis0 D pwt inbin evs = v.
Proof. exact rp_diff_all. Qed.
Print Assumptions C12_rp_diff_all.

Theorem C12_rp_diff_rotation :
  forall K k0 k1 kadd kmul ksub kopp kinv kis0, ring_theory k0 k1 kadd kmul ksub kopp (@eq K) ->
  forall D pwt inbin rho evs,
  rp_differential_bin K k0 kadd kmul kinv kis0 D pwt inbin (map (map (rotp K kadd kmul ksub D rho)) evs)
  = cmul K kadd kmul ksub rho (rp_differential_bin K k0 kadd kmul kinv kis0 D pwt inbin evs).
Proof. exact (fun K k0 k1 kadd kmul ksub kopp kinv kis0 Kth D pwt => rp_diff_rotation K k0 k1 kadd kmul ksub kopp kinv kis0 Kth D pwt). Qed.
Print Assumptions C12_rp_diff_rotation.

(* ---------------- scalar product ---------------- *)
(* value and error are unchanged when every event (flow and reference particles) is rotated by its own unit *)
Theorem C12_sp_rotation :
  forall K k0 k1 kadd kmul ksub kopp kinv ksqrt kabs kis0 kltb, ring_theory k0 k1 kadd kmul ksub kopp (@eq K) ->
  forall D pw pwt inA inB self_corr evs evs', rotated K k0 k1 kadd kmul ksub kopp D evs evs' ->
  sp_integrated K k0 k1 kadd kmul ksub kopp kinv ksqrt kabs kis0 kltb D pw pwt inA inB self_corr evs
  = sp_integrated K k0 k1 kadd kmul ksub kopp kinv ksqrt kabs kis0 kltb D pw pwt inA inB self_corr evs'.
Proof. exact sp_rotation. Qed.
Print Assumptions C12_sp_rotation.

(* ... when the particles of any event and the events are reordered *)
Theorem C12_sp_reorder :
  forall K k0 k1 kadd kmul ksub kopp kinv ksqrt kabs kis0 kltb, ring_theory k0 k1 kadd kmul ksub kopp (@eq K) ->
  forall D pw pwt inA inB self_corr evs evs', reordered K D evs evs' ->
  sp_integrated K k0 k1 kadd kmul ksub kopp kinv ksqrt kabs kis0 kltb D pw pwt inA inB self_corr evs
  = sp_integrated K k0 k1 kadd kmul ksub kopp kinv ksqrt kabs kis0 kltb D pw pwt inA inB self_corr evs'.
Proof. exact sp_reorder. Qed.
Print Assumptions C12_sp_reorder.

Theorem C12_sp_diff_rotation :
  forall K k0 k1 kadd kmul ksub kopp kinv ksqrt kabs kis0 kltb, ring_theory k0 k1 kadd kmul ksub kopp (@eq K) ->
  forall D pw pwt inA inB inbin self_corr evs evs', rotated K k0 k1 kadd kmul ksub kopp D evs evs' ->
  sp_differential_bin K k0 k1 kadd kmul ksub kopp kinv ksqrt kabs kis0 kltb D pw pwt inA inB inbin self_corr evs
  = sp_differential_bin K k0 k1 kadd kmul ksub kopp kinv ksqrt kabs kis0 kltb D pw pwt inA inB inbin self_corr evs'.
Proof. exact sp_diff_rotation. Qed.
Print Assumptions C12_sp_diff_rotation.

Theorem C12_sp_diff_reorder :
  forall K k0 k1 kadd kmul ksub kopp kinv ksqrt kabs kis0 kltb, ring_theory k0 k1 kadd kmul ksub kopp (@eq K) ->
  forall D pw pwt inA inB inbin self_corr evs evs', reordered K D evs evs' ->
  sp_differential_bin K k0 k1 kadd kmul ksub kopp kinv ksqrt kabs kis0 kltb D pw pwt inA inB inbin self_corr evs
  = sp_differential_bin K k0 k1 kadd kmul ksub kopp kinv ksqrt kabs kis0 kltb D pw pwt inA inB inbin self_corr evs'.
Proof. exact sp_diff_reorder. Qed.
Print Assumptions C12_sp_diff_reorder.

Theorem C12_sp_diff_all :
  forall K k0 k1 kadd kmul ksub kopp kinv ksqrt kabs kis0 kltb D pw pwt inA inB inbin self_corr evs,
  (forall d, inbin d = true) ->
  sp_differential_bin K k0 k1 kadd kmul ksub kopp kinv ksqrt kabs kis0 kltb D pw pwt inA inB inbin self_corr evs
  = sp_integrated K k0 k1 kadd kmul ksub kopp kinv ksqrt kabs kis0 kltb D pw pwt inA inB self_corr evs.
Proof. exact sp_diff_all. Qed.
Print Assumptions C12_sp_diff_all.

(* ---------------- event plane ---------------- *)
(* [cosAB], [obs] are the two uses of arctan2; their invariance is what arctan2 provides (C12_ep_arg_R);
   no vector whose angle is taken may vanish *)
Theorem C12_ep_rotation :
  forall K k0 k1 kadd kmul ksub kopp kinv ksqrt kabs kis0 kltb, ring_theory k0 k1 kadd kmul ksub kopp (@eq K) ->
  forall D pw pwt inA inB cosAB obs res_fun,
  (forall rho a b, cunit K k0 k1 kadd kmul ksub kopp rho -> a <> c0 K k0 -> b <> c0 K k0 ->
     cosAB (cmul K kadd kmul ksub rho a) (cmul K kadd kmul ksub rho b) = cosAB a b) ->
  (forall rho u Q, cunit K k0 k1 kadd kmul ksub kopp rho -> Q <> c0 K k0 ->
     obs (cmul K kadd kmul ksub rho u) (cmul K kadd kmul ksub rho Q) = obs u Q) ->
  forall self_corr evs evs', rotated K k0 k1 kadd kmul ksub kopp D evs evs' ->
  Forall (nondegenerate K k0 kadd kmul ksub kinv ksqrt kabs kis0 D pw inA inB self_corr) evs ->
  ep_integrated K k0 k1 kadd kmul ksub kinv ksqrt kabs kis0 kltb D pw pwt inA inB cosAB obs res_fun self_corr evs
  = ep_integrated K k0 k1 kadd kmul ksub kinv ksqrt kabs kis0 kltb D pw pwt inA inB cosAB obs res_fun self_corr evs'.
Proof. exact (fun K k0 k1 kadd kmul ksub kopp kinv ksqrt kabs kis0 kltb Kth D pw pwt inA inB cosAB obs res_fun =>
                ep_rotation K k0 k1 kadd kmul ksub kopp kinv ksqrt kabs kis0 kltb Kth D pw pwt inA inB cosAB obs res_fun). Qed.
Print Assumptions C12_ep_rotation.

Theorem C12_ep_reorder :
  forall K k0 k1 kadd kmul ksub kopp kinv ksqrt kabs kis0 kltb, ring_theory k0 k1 kadd kmul ksub kopp (@eq K) ->
  forall D pw pwt inA inB cosAB obs res_fun self_corr evs evs', reordered K D evs evs' ->
  ep_integrated K k0 k1 kadd kmul ksub kinv ksqrt kabs kis0 kltb D pw pwt inA inB cosAB obs res_fun self_corr evs
  = ep_integrated K k0 k1 kadd kmul ksub kinv ksqrt kabs kis0 kltb D pw pwt inA inB cosAB obs res_fun self_corr evs'.
Proof. exact ep_reorder. Qed.
Print Assumptions C12_ep_reorder.

Theorem C12_ep_diff_rotation :
  forall K k0 k1 kadd kmul ksub kopp kinv ksqrt kabs kis0 kltb, ring_theory k0 k1 kadd kmul ksub kopp (@eq K) ->
  forall D pw pwt inA inB inbin cosAB obs res_fun,
  (forall rho a b, cunit K k0 k1 kadd kmul ksub kopp rho -> a <> c0 K k0 -> b <> c0 K k0 ->
     cosAB (cmul K kadd kmul ksub rho a) (cmul K kadd kmul ksub rho b) = cosAB a b) ->
  (forall rho u Q, cunit K k0 k1 kadd kmul ksub kopp rho -> Q <> c0 K k0 ->
     obs (cmul K kadd kmul ksub rho u) (cmul K kadd kmul ksub rho Q) = obs u Q) ->
  forall self_corr evs evs', rotated K k0 k1 kadd kmul ksub kopp D evs evs' ->
  Forall (nondegenerate K k0 kadd kmul ksub kinv ksqrt kabs kis0 D pw inA inB self_corr) evs ->
  ep_differential_bin K k0 k1 kadd kmul ksub kinv ksqrt kabs kis0 kltb D pw pwt inA inB inbin cosAB obs res_fun self_corr evs
  = ep_differential_bin K k0 k1 kadd kmul ksub kinv ksqrt kabs kis0 kltb D pw pwt inA inB inbin cosAB obs res_fun self_corr evs'.
Proof. exact (fun K k0 k1 kadd kmul ksub kopp kinv ksqrt kabs kis0 kltb Kth D pw pwt inA inB inbin cosAB obs res_fun =>
                ep_diff_rotation K k0 k1 kadd kmul ksub kopp kinv ksqrt kabs kis0 kltb Kth D pw pwt inA inB inbin cosAB obs res_fun). Qed.
Print Assumptions C12_ep_diff_rotation.

Theorem C12_ep_diff_reorder :
  forall K k0 k1 kadd kmul ksub kopp kinv ksqrt kabs kis0 kltb, ring_theory k0 k1 kadd kmul ksub kopp (@eq K) ->
  forall D pw pwt inA inB inbin cosAB obs res_fun self_corr evs evs', reordered K D evs evs' ->
  ep_differential_bin K k0 k1 kadd kmul ksub kinv ksqrt kabs kis0 kltb D pw pwt inA inB inbin cosAB obs res_fun self_corr evs
  = ep_differential_bin K k0 k1 kadd kmul ksub kinv ksqrt kabs kis0 kltb D pw pwt inA inB inbin cosAB obs res_fun self_corr evs'.
Proof. exact ep_diff_reorder. Qed.
Print Assumptions C12_ep_diff_reorder.

Theorem C12_ep_diff_all :
  forall K k0 k1 kadd kmul ksub kinv ksqrt kabs kis0 kltb D pw pwt inA inB inbin cosAB obs res_fun self_corr evs,
  (forall d, inbin d = true) ->
  ep_differential_bin K k0 k1 kadd kmul ksub kinv ksqrt kabs kis0 kltb D pw pwt inA inB inbin cosAB obs res_fun self_corr evs
  = ep_integrated K k0 k1 kadd kmul ksub kinv ksqrt kabs kis0 kltb D pw pwt inA inB cosAB obs res_fun self_corr evs.
Proof. exact ep_diff_all. Qed.
Print Assumptions C12_ep_diff_all.

(* over the reals, from the defining property of arctan2: the two cosines have closed forms ... *)
Theorem C12_ep_arg_R :
  forall atan2 : R -> R -> R,
  (forall x y, (x * x + y * y <> 0)%R ->
     cos (atan2 y x) = (x / sqrt (x * x + y * y))%R /\ sin (atan2 y x) = (y / sqrt (x * x + y * y))%R) ->
  forall n, (0 < n)%nat ->
  (forall phi Q, norm2 R Rplus Rmult Q <> 0%R ->
     obsR atan2 n phi Q = (re (Rcmul (Rconj (cis (INR n * phi))) Q) / sqrt (norm2 R Rplus Rmult Q))%R) /\
  (forall A B, norm2 R Rplus Rmult A <> 0%R -> norm2 R Rplus Rmult B <> 0%R ->
     cosABR atan2 n A B = (re (Rcmul A (Rconj B)) / (sqrt (norm2 R Rplus Rmult A) * sqrt (norm2 R Rplus Rmult B)))%R).
Proof. exact (fun atan2 Hs n Hn => Logic.conj (obsR_closed atan2 Hs n Hn) (cosABR_closed atan2 Hs n Hn)). Qed.
Print Assumptions C12_ep_arg_R.

(* ... that are invariant under a common unit rotation *)
Theorem C12_ep_closed_rot :
  forall rho, cunit R 0%R 1%R Rplus Rmult Rminus Ropp rho ->
  (forall u Q, (re (Rcmul (Rconj (Rcmul rho u)) (Rcmul rho Q)) / sqrt (norm2 R Rplus Rmult (Rcmul rho Q))
               = re (Rcmul (Rconj u) Q) / sqrt (norm2 R Rplus Rmult Q))%R) /\
  (forall A B, (re (Rcmul (Rcmul rho A) (Rconj (Rcmul rho B))) / (sqrt (norm2 R Rplus Rmult (Rcmul rho A)) * sqrt (norm2 R Rplus Rmult (Rcmul rho B)))
               = re (Rcmul A (Rconj B)) / (sqrt (norm2 R Rplus Rmult A) * sqrt (norm2 R Rplus Rmult B)))%R).
Proof. exact (fun rho H => Logic.conj (fun u Q => obs_closed_rot rho u Q H) (fun A B => cosAB_closed_rot rho A B H)). Qed.
Print Assumptions C12_ep_closed_rot.

(* ---------------- Q-cumulants ---------------- *)
(* <<2>>, <<4>>, <<6>> do not depend on the random rotations, the order of particles or the order of events *)
Theorem C12_qc_invariant :
  forall K k0 k1 kadd kmul ksub kopp kdiv kleb kltb krpow, ring_theory k0 k1 kadd kmul ksub kopp (@eq K) ->
  forall P zof inbin ispoi evs evs',
  Forall (good K k0 k1 kadd kmul ksub kopp P zof) evs ->
  Forall (fun e => cunit K k0 k1 kadd kmul ksub kopp (fst e)) evs' ->
  qc_related K P evs evs' ->
  corr2 K k0 k1 kadd kmul ksub kopp kdiv kleb kltb krpow P zof inbin ispoi evs
  = corr2 K k0 k1 kadd kmul ksub kopp kdiv kleb kltb krpow P zof inbin ispoi evs' /\
  corr4 K k0 k1 kadd kmul ksub kopp kdiv kleb kltb krpow P zof inbin ispoi evs
  = corr4 K k0 k1 kadd kmul ksub kopp kdiv kleb kltb krpow P zof inbin ispoi evs' /\
  corr6 K k0 k1 kadd kmul ksub kopp kdiv kleb kltb krpow P zof inbin ispoi evs
  = corr6 K k0 k1 kadd kmul ksub kopp kdiv kleb kltb krpow P zof inbin ispoi evs'.
Proof. exact qc_invariant. Qed.
Print Assumptions C12_qc_invariant.

(* ---------------- tables (finite, regenerated) ---------------- *)
Theorem C12_tables :
  map fst tab_selectors_validated = estimators /\
  map fst tab_selectors_dispatched = estimators /\
  map fst tab_ctor_defaults = estimators /\
  Forall (fun e => snd e = documented_selectors) tab_selectors_validated /\
  Forall (fun e => snd e = documented_selectors) tab_selectors_dispatched /\
  defaults_ok = true /\ weights_ok = true /\
  lookup "ScalarProductFlow" tab_ctor_defaults = Some [("weight", "pT2")]%string /\
  lookup "EventPlaneFlow" tab_ctor_defaults = Some [("weight", "pT2")]%string /\
  lookup "QCumulantFlow" tab_ctor_defaults = Some [("imaginary", "zero"); ("k", "2")]%string.
Proof. exact tables_ok. Qed.
Print Assumptions C12_tables.

(* non-vacuity: two events over Z (Gaussian-integer units), rotated by i and -1, reordered *)
Theorem C12_example :
  let ev1 := ([((1, 0), 2); ((0, 1), 3)], [((1, 0), 2); ((0, 1), 3); ((-1, 0), 1); ((0, -1), 5)])%Z in
  let ev2 := ([((0, -1), 1)], [((0, 1), 1); ((1, 0), 2); ((0, -1), 1)])%Z in
  let sp := sp_integrated Z 0%Z 1%Z Z.add Z.mul Z.sub Z.opp (fun x => x) (fun x => x) Z.abs (Z.eqb 0) Z.ltb Z
              (fun d => d) (fun _ => 1%Z) (fun d => Z.leb 2 d) (fun d => Z.ltb d 2) true in
  rotated Z 0%Z 1%Z Z.add Z.mul Z.sub Z.opp Z [ev1; ev2]
          [rote Z Z.add Z.mul Z.sub Z (0, 1)%Z ev1; rote Z Z.add Z.mul Z.sub Z (-1, 0)%Z ev2] /\
  sp [ev1; ev2] = sp [rote Z Z.add Z.mul Z.sub Z (0, 1)%Z ev1; rote Z Z.add Z.mul Z.sub Z (-1, 0)%Z ev2] /\
  sp [ev1; ev2] = sp [ev2; ev1].
Proof. exact c12_example. Qed.
Print Assumptions C12_example.

From Coq Require Import QArith.
From SX Require Import Model.FlowQ Gen.GenFlowEst Proofs.C12_Source.

(* ---------------- the hand models against the functions regenerated from the Python source ----------------
   Gen/GenFlowEst.v is written by tools/py2coq/gen_flowest.py from the current ReactionPlaneFlow.py, ScalarProductFlow.py,
   EventPlaneFlow.py (whole method bodies, exact arithmetic, no non-finite floats); src_* are the leaf functions the source
   computes per particle (Proofs/C12_Source.v).  A change of a formula, comparison, constant, index or statement order in
   the translated methods changes the regenerated term and these theorems stop checking. *)
(* ReactionPlaneFlow.integrated_flow: the hand model is the regenerated method body (None = division by a zero total weight) *)
Theorem C12_source_rp_integrated :
  forall (K : Type) (k0 k1 : K) (kadd kmul ksub : K -> K -> K) (kopp kinv ksqrt kabs : K -> K) (kis0 : K -> bool) (kleb kltb : K -> K -> bool),
       ring_theory k0 k1 kadd kmul ksub kopp eq ->
       forall (D : Type) (pt rap eta : D -> K) (wt : D -> option K) (cosAB obs : cpx K -> cpx K -> K) (res_fun : K -> K) 
         (n : nat) (weight_ : string) (gap : K) (evs : list (list (FlowRP.part K D))),
       rp_integrated K k0 kadd kmul kinv kis0 D
         (src_rp_pwt K k0 k1 kadd kmul ksub kopp kinv ksqrt kabs kis0 kleb kltb D pt rap eta wt cosAB obs res_fun n weight_ gap) evs =
       (if kis0 (rp_total K k0 k1 kadd kmul ksub kopp kinv ksqrt kabs kis0 kleb kltb D pt rap eta wt cosAB obs res_fun n weight_ gap evs)
        then None
        else
         Some (gen_rp_integrated_flow K k0 k1 kadd kmul ksub kopp kinv ksqrt kabs kis0 kleb kltb D pt rap eta wt cosAB obs res_fun n weight_ gap evs)).
Proof. exact source_rp_integrated. Qed.
Print Assumptions C12_source_rp_integrated.

(* ReactionPlaneFlow.__differential_flow_calculation applied to the binned events = the hand model's value of every bin *)
Theorem C12_source_rp_differential :
  forall (K : Type) (k0 k1 : K) (kadd kmul ksub : K -> K -> K) (kopp kinv ksqrt kabs : K -> K) (kis0 : K -> bool) (kleb kltb : K -> K -> bool),
       ring_theory k0 k1 kadd kmul ksub kopp eq ->
       forall (D : Type) (pt rap eta : D -> K) (wt : D -> option K) (cosAB obs : cpx K -> cpx K -> K) (res_fun : K -> K) 
         (n : nat) (weight_ : string) (gap : K) (tests : list (D -> bool)) (evs : list (list (FlowRP.part K D))),
       gen_rp_differential_flow_calculation K k0 k1 kadd kmul ksub kopp kinv ksqrt kabs kis0 kleb kltb D pt rap eta wt cosAB obs res_fun n weight_
         gap (map (fun t : D -> bool => map (binned K D t) evs) tests) =
       map
         (fun t : D -> bool =>
          rp_differential_bin K k0 kadd kmul kinv kis0 D
            (src_rp_pwt K k0 k1 kadd kmul ksub kopp kinv ksqrt kabs kis0 kleb kltb D pt rap eta wt cosAB obs res_fun n weight_ gap) t evs) tests.
Proof. exact source_rp_differential. Qed.
Print Assumptions C12_source_rp_differential.

(* ReactionPlaneFlow.differential_flow, body of the loop over the bins: the particles of every event with lo <= val < hi (selector dispatch and comparison operators as in the source) *)
Theorem C12_source_rp_binning :
  forall (K : Type) (k0 k1 : K) (kadd kmul ksub : K -> K -> K) (kopp kinv ksqrt kabs : K -> K) (kis0 : K -> bool) (kleb kltb : K -> K -> bool),
       ring_theory k0 k1 kadd kmul ksub kopp eq ->
       forall (D : Type) (pt rap eta : D -> K) (wt : D -> option K) (cosAB obs : cpx K -> cpx K -> K) (res_fun : K -> K) 
         (n : nat) (weight_ : string) (gap : K) (sel : string) (lo hi : K) (evs : list (list (cpx K * D))),
       gen_rp_bin_events K k0 k1 kadd kmul ksub kopp kinv ksqrt kabs kis0 kleb kltb D pt rap eta wt cosAB obs res_fun n weight_ gap sel lo hi evs =
       map
         (binned K D
            (src_rp_inbin K k0 k1 kadd kmul ksub kopp kinv ksqrt kabs kis0 kleb kltb D pt rap eta wt cosAB obs res_fun n weight_ gap sel lo hi)) evs.
Proof. exact source_rp_binning. Qed.
Print Assumptions C12_source_rp_binning.

(* ReactionPlaneFlow.differential_flow for any list of bins (lo, hi): binning followed by __differential_flow_calculation = the model's value of every bin *)
Theorem C12_source_rp_differential_flow :
  forall (K : Type) (k0 k1 : K) (kadd kmul ksub : K -> K -> K) (kopp kinv ksqrt kabs : K -> K) (kis0 : K -> bool) (kleb kltb : K -> K -> bool),
       ring_theory k0 k1 kadd kmul ksub kopp eq ->
       forall (D : Type) (pt rap eta : D -> K) (wt : D -> option K) (cosAB obs : cpx K -> cpx K -> K) (res_fun : K -> K) 
         (n : nat) (weight_ : string) (gap : K) (sel : string) (edges : list (K * K)) (evs : list (list (cpx K * D))),
       gen_rp_differential_flow_calculation K k0 k1 kadd kmul ksub kopp kinv ksqrt kabs kis0 kleb kltb D pt rap eta wt cosAB obs res_fun n weight_
         gap
         (map
            (fun b : K * K =>
             gen_rp_bin_events K k0 k1 kadd kmul ksub kopp kinv ksqrt kabs kis0 kleb kltb D pt rap eta wt cosAB obs res_fun n weight_ gap sel 
               (fst b) (snd b) evs) edges) =
       map
         (fun b : K * K =>
          rp_differential_bin K k0 kadd kmul kinv kis0 D
            (src_rp_pwt K k0 k1 kadd kmul ksub kopp kinv ksqrt kabs kis0 kleb kltb D pt rap eta wt cosAB obs res_fun n weight_ gap)
            (src_rp_inbin K k0 k1 kadd kmul ksub kopp kinv ksqrt kabs kis0 kleb kltb D pt rap eta wt cosAB obs res_fun n weight_ gap sel 
               (fst b) (snd b)) evs) edges.
Proof. exact source_rp_differential_flow. Qed.
Print Assumptions C12_source_rp_differential_flow.

(* ScalarProductFlow.__compute_particle_weights *)
Theorem C12_source_sp_weights :
  forall (K : Type) (k0 k1 : K) (kadd kmul ksub : K -> K -> K) (kopp kinv ksqrt kabs : K -> K) (kis0 : K -> bool) (kleb kltb : K -> K -> bool),
       ring_theory k0 k1 kadd kmul ksub kopp eq ->
       forall (D : Type) (pt rap eta : D -> K) (wt : D -> option K) (cosAB obs : cpx K -> cpx K -> K) (res_fun : K -> K) 
         (n : nat) (weight_ : string) (gap : K) (pd : list (list (cpx K * D))),
       gen_sp_compute_particle_weights K k0 k1 kadd kmul ksub kopp kinv ksqrt kabs kis0 kleb kltb D pt rap eta wt cosAB obs res_fun n weight_ gap pd =
       map
         (map
            (fun p : FlowRP.part K D =>
             src_sp_pw K k0 k1 kadd kmul ksub kopp kinv ksqrt kabs kis0 kleb kltb D pt rap eta wt cosAB obs res_fun n weight_ gap (snd p))) pd.
Proof. exact source_sp_weights. Qed.
Print Assumptions C12_source_sp_weights.

(* ScalarProductFlow.__compute_flow_vectors = the model's full Q-vectors *)
Theorem C12_source_sp_flow_vectors :
  forall (K : Type) (k0 k1 : K) (kadd kmul ksub : K -> K -> K) (kopp kinv ksqrt kabs : K -> K) (kis0 : K -> bool) (kleb kltb : K -> K -> bool),
       ring_theory k0 k1 kadd kmul ksub kopp eq ->
       forall (D : Type) (pt rap eta : D -> K) (wt : D -> option K) (cosAB obs : cpx K -> cpx K -> K) (res_fun : K -> K) 
         (n : nat) (weight_ : string) (gap : K) (pd : list (list (cpx K * D))),
       gen_sp_compute_flow_vectors K k0 k1 kadd kmul ksub kopp kinv ksqrt kabs kis0 kleb kltb D pt rap eta wt cosAB obs res_fun n weight_ gap pd
         (map
            (map
               (fun p : FlowRP.part K D =>
                src_sp_pw K k0 k1 kadd kmul ksub kopp kinv ksqrt kabs kis0 kleb kltb D pt rap eta wt cosAB obs res_fun n weight_ gap (snd p))) pd) =
       map
         (qfull K k0 kadd kmul D
            (src_sp_pw K k0 k1 kadd kmul ksub kopp kinv ksqrt kabs kis0 kleb kltb D pt rap eta wt cosAB obs res_fun n weight_ gap)) pd.
Proof. exact source_sp_flow_vectors. Qed.
Print Assumptions C12_source_sp_flow_vectors.

(* ScalarProductFlow.__compute_event_angles_sub_events = the model's sub-event Q-vectors (eta >= +gap, eta < -gap as in the source) *)
Theorem C12_source_sp_sub_events :
  forall (K : Type) (k0 k1 : K) (kadd kmul ksub : K -> K -> K) (kopp kinv ksqrt kabs : K -> K) (kis0 : K -> bool) (kleb kltb : K -> K -> bool),
       ring_theory k0 k1 kadd kmul ksub kopp eq ->
       forall (D : Type) (pt rap eta : D -> K) (wt : D -> option K) (cosAB obs : cpx K -> cpx K -> K) (res_fun : K -> K) 
         (n : nat) (weight_ : string) (gap : K) (pd : list (list (cpx K * D))),
       gen_sp_compute_event_angles_sub_events K k0 k1 kadd kmul ksub kopp kinv ksqrt kabs kis0 kleb kltb D pt rap eta wt cosAB obs res_fun n weight_
         gap pd
         (map
            (map
               (fun p : FlowRP.part K D =>
                src_sp_pw K k0 k1 kadd kmul ksub kopp kinv ksqrt kabs kis0 kleb kltb D pt rap eta wt cosAB obs res_fun n weight_ gap (snd p))) pd) =
       (map
          (qvec K k0 kadd kmul D
             (src_sp_pw K k0 k1 kadd kmul ksub kopp kinv ksqrt kabs kis0 kleb kltb D pt rap eta wt cosAB obs res_fun n weight_ gap)
             (src_sp_inA K k0 k1 kadd kmul ksub kopp kinv ksqrt kabs kis0 kleb kltb D pt rap eta wt cosAB obs res_fun n weight_ gap)) pd,
        map
          (qvec K k0 kadd kmul D
             (src_sp_pw K k0 k1 kadd kmul ksub kopp kinv ksqrt kabs kis0 kleb kltb D pt rap eta wt cosAB obs res_fun n weight_ gap)
             (src_sp_inB K k0 k1 kadd kmul ksub kopp kinv ksqrt kabs kis0 kleb kltb D pt rap eta wt cosAB obs res_fun n weight_ gap)) pd).
Proof. exact source_sp_sub_events. Qed.
Print Assumptions C12_source_sp_sub_events.

(* ScalarProductFlow.__compute_u_vectors *)
Theorem C12_source_sp_u_vectors :
  forall (K : Type) (k0 k1 : K) (kadd kmul ksub : K -> K -> K) (kopp kinv ksqrt kabs : K -> K) (kis0 : K -> bool) (kleb kltb : K -> K -> bool),
       ring_theory k0 k1 kadd kmul ksub kopp eq ->
       forall (D : Type) (pt rap eta : D -> K) (wt : D -> option K) (cosAB obs : cpx K -> cpx K -> K) (res_fun : K -> K) 
         (n : nat) (weight_ : string) (gap : K) (pd : list (list (cpx K * D))),
       gen_sp_compute_u_vectors K k0 k1 kadd kmul ksub kopp kinv ksqrt kabs kis0 kleb kltb D pt rap eta wt cosAB obs res_fun n weight_ gap pd =
       map (map fst) pd.
Proof. exact source_sp_u_vectors. Qed.
Print Assumptions C12_source_sp_u_vectors.

(* ScalarProductFlow.__compute_event_plane_resolution: every finite resolution of the model is the regenerated 2 sqrt(mean Re(conj Q_A Q_B)) *)
Theorem C12_source_sp_resolution :
  forall (K : Type) (k0 k1 : K) (kadd kmul ksub : K -> K -> K) (kopp kinv ksqrt kabs : K -> K) (kis0 : K -> bool) (kleb kltb : K -> K -> bool),
       ring_theory k0 k1 kadd kmul ksub kopp eq ->
       forall (D : Type) (pt rap eta : D -> K) (wt : D -> option K) (cosAB obs : cpx K -> cpx K -> K) (res_fun : K -> K) 
         (n : nat) (weight_ : string) (gap : K) (evs : list (FlowSP.event K D)) (r : K),
       sp_resf K k0 k1 kadd kmul ksqrt kis0 kltb
         (mean K k0 k1 kadd kmul kinv
            (map
               (qnsq K k0 kadd kmul ksub kopp D
                  (src_sp_pw K k0 k1 kadd kmul ksub kopp kinv ksqrt kabs kis0 kleb kltb D pt rap eta wt cosAB obs res_fun n weight_ gap)
                  (src_sp_inA K k0 k1 kadd kmul ksub kopp kinv ksqrt kabs kis0 kleb kltb D pt rap eta wt cosAB obs res_fun n weight_ gap)
                  (src_sp_inB K k0 k1 kadd kmul ksub kopp kinv ksqrt kabs kis0 kleb kltb D pt rap eta wt cosAB obs res_fun n weight_ gap)) evs)) =
       Some r ->
       gen_sp_compute_event_plane_resolution K k0 k1 kadd kmul ksub kopp kinv ksqrt kabs kis0 kleb kltb D pt rap eta wt cosAB obs res_fun n weight_
         gap
         (map
            (fun e : FlowSP.event K D =>
             qvec K k0 kadd kmul D
               (src_sp_pw K k0 k1 kadd kmul ksub kopp kinv ksqrt kabs kis0 kleb kltb D pt rap eta wt cosAB obs res_fun n weight_ gap)
               (src_sp_inA K k0 k1 kadd kmul ksub kopp kinv ksqrt kabs kis0 kleb kltb D pt rap eta wt cosAB obs res_fun n weight_ gap) 
               (snd e)) evs)
         (map
            (fun e : FlowSP.event K D =>
             qvec K k0 kadd kmul D
               (src_sp_pw K k0 k1 kadd kmul ksub kopp kinv ksqrt kabs kis0 kleb kltb D pt rap eta wt cosAB obs res_fun n weight_ gap)
               (src_sp_inB K k0 k1 kadd kmul ksub kopp kinv ksqrt kabs kis0 kleb kltb D pt rap eta wt cosAB obs res_fun n weight_ gap) 
               (snd e)) evs) = r.
Proof. exact source_sp_resolution. Qed.
Print Assumptions C12_source_sp_resolution.

(* ScalarProductFlow.__compute_flow_particles = the model's per-particle values (self-correlation subtraction, Re(conj u Q), division by the resolution) *)
Theorem C12_source_sp_flow_particles :
  forall (K : Type) (k0 k1 : K) (kadd kmul ksub : K -> K -> K) (kopp kinv ksqrt kabs : K -> K) (kis0 : K -> bool) (kleb kltb : K -> K -> bool),
       ring_theory k0 k1 kadd kmul ksub kopp eq ->
       forall (D : Type) (pt rap eta : D -> K) (wt : D -> option K) (cosAB obs : cpx K -> cpx K -> K) (res_fun : K -> K) 
         (n : nat) (weight_ : string) (gap : K) (sc : bool) (r : K) (evs : list (FlowSP.event K D)),
       gen_sp_compute_flow_particles K k0 k1 kadd kmul ksub kopp kinv ksqrt kabs kis0 kleb kltb D pt rap eta wt cosAB obs res_fun n weight_ gap
         (map fst evs)
         (map
            (map
               (fun p : FlowRP.part K D =>
                src_sp_pw K k0 k1 kadd kmul ksub kopp kinv ksqrt kabs kis0 kleb kltb D pt rap eta wt cosAB obs res_fun n weight_ gap (snd p)))
            (map fst evs))
         (map
            (fun e : FlowSP.event K D =>
             qfull K k0 kadd kmul D
               (src_sp_pw K k0 k1 kadd kmul ksub kopp kinv ksqrt kabs kis0 kleb kltb D pt rap eta wt cosAB obs res_fun n weight_ gap) 
               (snd e)) evs) (map (map fst) (map fst evs)) r sc =
       sp_flow_values K k0 k1 kadd kmul ksub kopp kinv ksqrt kabs kis0 kleb kltb D pt rap eta wt cosAB obs res_fun n weight_ gap sc r evs.
Proof. exact source_sp_flow_particles. Qed.
Print Assumptions C12_source_sp_flow_particles.

(* ScalarProductFlow.__calculate_flow_event_average (finite arithmetic) on the model's (weight, value) lists; avg_fin_refines relates it to the model's option-valued average *)
Theorem C12_source_sp_average :
  forall (K : Type) (k0 k1 : K) (kadd kmul ksub : K -> K -> K) (kopp kinv ksqrt kabs : K -> K) (kis0 : K -> bool) (kleb kltb : K -> K -> bool),
       ring_theory k0 k1 kadd kmul ksub kopp eq ->
       forall (D : Type) (pt rap eta : D -> K) (wt : D -> option K) (cosAB obs : cpx K -> cpx K -> K) (res_fun : K -> K) 
         (n : nat) (weight_ : string) (gap : K) (val : FlowSP.event K D -> FlowRP.part K D -> K) (evs : list (list (cpx K * D) * list (FlowRP.part K D))),
       gen_sp_calculate_flow_event_average K k0 k1 kadd kmul ksub kopp kinv ksqrt kabs kis0 kleb kltb D pt rap eta wt cosAB obs res_fun n weight_ gap
         (map fst evs) (map (fun e : FlowSP.event K D => map (val e) (fst e)) evs) =
       avg_fin K k0 kmul ksub kinv ksqrt kis0
         (sums K k0 kadd kmul
            (map
               (fun e : FlowSP.event K D =>
                map
                  (fun p : cpx K * D =>
                   (src_sp_pwt K k0 k1 kadd kmul ksub kopp kinv ksqrt kabs kis0 kleb kltb D pt rap eta wt cosAB obs res_fun n weight_ gap (snd p),
                    val e p)) (fst e)) evs)).
Proof. exact source_sp_average. Qed.
Print Assumptions C12_source_sp_average.

(* ScalarProductFlow.differential_flow, body of the loop over the bins *)
Theorem C12_source_sp_binning :
  forall (K : Type) (k0 k1 : K) (kadd kmul ksub : K -> K -> K) (kopp kinv ksqrt kabs : K -> K) (kis0 : K -> bool) (kleb kltb : K -> K -> bool),
       ring_theory k0 k1 kadd kmul ksub kopp eq ->
       forall (D : Type) (pt rap eta : D -> K) (wt : D -> option K) (cosAB obs : cpx K -> cpx K -> K) (res_fun : K -> K) 
         (n : nat) (weight_ : string) (gap : K) (sel : string) (lo hi : K) (evs : list (list (cpx K * D))),
       gen_sp_bin_events K k0 k1 kadd kmul ksub kopp kinv ksqrt kabs kis0 kleb kltb D pt rap eta wt cosAB obs res_fun n weight_ gap sel lo hi evs =
       map
         (binned K D
            (src_sp_inbin K k0 k1 kadd kmul ksub kopp kinv ksqrt kabs kis0 kleb kltb D pt rap eta wt cosAB obs res_fun n weight_ gap sel lo hi)) evs.
Proof. exact source_sp_binning. Qed.
Print Assumptions C12_source_sp_binning.

(* ScalarProductFlow.integrated_flow: every finite value and every finite error of the hand model is the result of the regenerated method bodies *)
Theorem C12_source_sp_integrated :
  forall (K : Type) (k0 k1 : K) (kadd kmul ksub : K -> K -> K) (kopp kinv ksqrt kabs : K -> K) (kis0 : K -> bool) (kleb kltb : K -> K -> bool),
       ring_theory k0 k1 kadd kmul ksub kopp eq ->
       forall (D : Type) (pt rap eta : D -> K) (wt : D -> option K) (cosAB obs : cpx K -> cpx K -> K) (res_fun : K -> K) 
         (n : nat) (weight_ : string) (gap : K) (sc : bool) (evs : list (FlowSP.event K D)) (v : K) (oe : option K),
       sp_integrated K k0 k1 kadd kmul ksub kopp kinv ksqrt kabs kis0 kltb D
         (src_sp_pw K k0 k1 kadd kmul ksub kopp kinv ksqrt kabs kis0 kleb kltb D pt rap eta wt cosAB obs res_fun n weight_ gap)
         (src_sp_pwt K k0 k1 kadd kmul ksub kopp kinv ksqrt kabs kis0 kleb kltb D pt rap eta wt cosAB obs res_fun n weight_ gap)
         (src_sp_inA K k0 k1 kadd kmul ksub kopp kinv ksqrt kabs kis0 kleb kltb D pt rap eta wt cosAB obs res_fun n weight_ gap)
         (src_sp_inB K k0 k1 kadd kmul ksub kopp kinv ksqrt kabs kis0 kleb kltb D pt rap eta wt cosAB obs res_fun n weight_ gap) sc evs =
       (Some v, oe) ->
       fst
         (gen_sp_integrated_flow K k0 k1 kadd kmul ksub kopp kinv ksqrt kabs kis0 kleb kltb D pt rap eta wt cosAB obs res_fun n weight_ gap
            (map fst evs) (map snd evs) sc) = v /\
       (forall e : K,
        oe = Some e ->
        snd
          (gen_sp_integrated_flow K k0 k1 kadd kmul ksub kopp kinv ksqrt kabs kis0 kleb kltb D pt rap eta wt cosAB obs res_fun n weight_ gap
             (map fst evs) (map snd evs) sc) = e).
Proof. exact source_sp_integrated. Qed.
Print Assumptions C12_source_sp_integrated.

(* ScalarProductFlow.differential_flow, one bin *)
Theorem C12_source_sp_differential :
  forall (K : Type) (k0 k1 : K) (kadd kmul ksub : K -> K -> K) (kopp kinv ksqrt kabs : K -> K) (kis0 : K -> bool) (kleb kltb : K -> K -> bool),
       ring_theory k0 k1 kadd kmul ksub kopp eq ->
       forall (D : Type) (pt rap eta : D -> K) (wt : D -> option K) (cosAB obs : cpx K -> cpx K -> K) (res_fun : K -> K) 
         (n : nat) (weight_ : string) (gap : K) (sel : string) (lo hi : K) (sc : bool) (evs : list (FlowSP.event K D)) (v : K) (oe : option K),
       sp_differential_bin K k0 k1 kadd kmul ksub kopp kinv ksqrt kabs kis0 kltb D
         (src_sp_pw K k0 k1 kadd kmul ksub kopp kinv ksqrt kabs kis0 kleb kltb D pt rap eta wt cosAB obs res_fun n weight_ gap)
         (src_sp_pwt K k0 k1 kadd kmul ksub kopp kinv ksqrt kabs kis0 kleb kltb D pt rap eta wt cosAB obs res_fun n weight_ gap)
         (src_sp_inA K k0 k1 kadd kmul ksub kopp kinv ksqrt kabs kis0 kleb kltb D pt rap eta wt cosAB obs res_fun n weight_ gap)
         (src_sp_inB K k0 k1 kadd kmul ksub kopp kinv ksqrt kabs kis0 kleb kltb D pt rap eta wt cosAB obs res_fun n weight_ gap)
         (src_sp_inbin K k0 k1 kadd kmul ksub kopp kinv ksqrt kabs kis0 kleb kltb D pt rap eta wt cosAB obs res_fun n weight_ gap sel lo hi) sc evs =
       (Some v, oe) ->
       fst
         (gen_sp_differential_bin K k0 k1 kadd kmul ksub kopp kinv ksqrt kabs kis0 kleb kltb D pt rap eta wt cosAB obs res_fun n weight_ gap
            (gen_sp_bin_events K k0 k1 kadd kmul ksub kopp kinv ksqrt kabs kis0 kleb kltb D pt rap eta wt cosAB obs res_fun n weight_ gap sel lo hi
               (map fst evs)) (map snd evs) sc) = v /\
       (forall e : K,
        oe = Some e ->
        snd
          (gen_sp_differential_bin K k0 k1 kadd kmul ksub kopp kinv ksqrt kabs kis0 kleb kltb D pt rap eta wt cosAB obs res_fun n weight_ gap
             (gen_sp_bin_events K k0 k1 kadd kmul ksub kopp kinv ksqrt kabs kis0 kleb kltb D pt rap eta wt cosAB obs res_fun n weight_ gap sel lo hi
                (map fst evs)) (map snd evs) sc) = e).
Proof. exact source_sp_differential. Qed.
Print Assumptions C12_source_sp_differential.

(* EventPlaneFlow.__compute_particle_weights *)
Theorem C12_source_ep_weights :
  forall (K : Type) (k0 k1 : K) (kadd kmul ksub : K -> K -> K) (kopp kinv ksqrt kabs : K -> K) (kis0 : K -> bool) (kleb kltb : K -> K -> bool),
       ring_theory k0 k1 kadd kmul ksub kopp eq ->
       forall (D : Type) (pt rap eta : D -> K) (wt : D -> option K) (cosAB obs : cpx K -> cpx K -> K) (res_fun : K -> K) 
         (n : nat) (weight_ : string) (gap : K) (pd : list (list (cpx K * D))),
       gen_ep_compute_particle_weights K k0 k1 kadd kmul ksub kopp kinv ksqrt kabs kis0 kleb kltb D pt rap eta wt cosAB obs res_fun n weight_ gap pd =
       map
         (map
            (fun p : FlowRP.part K D =>
             src_ep_pw K k0 k1 kadd kmul ksub kopp kinv ksqrt kabs kis0 kleb kltb D pt rap eta wt cosAB obs res_fun n weight_ gap (snd p))) pd.
Proof. exact source_ep_weights. Qed.
Print Assumptions C12_source_ep_weights.

(* EventPlaneFlow.__compute_flow_vectors *)
Theorem C12_source_ep_flow_vectors :
  forall (K : Type) (k0 k1 : K) (kadd kmul ksub : K -> K -> K) (kopp kinv ksqrt kabs : K -> K) (kis0 : K -> bool) (kleb kltb : K -> K -> bool),
       ring_theory k0 k1 kadd kmul ksub kopp eq ->
       forall (D : Type) (pt rap eta : D -> K) (wt : D -> option K) (cosAB obs : cpx K -> cpx K -> K) (res_fun : K -> K) 
         (n : nat) (weight_ : string) (gap : K) (pd : list (list (cpx K * D))),
       gen_ep_compute_flow_vectors K k0 k1 kadd kmul ksub kopp kinv ksqrt kabs kis0 kleb kltb D pt rap eta wt cosAB obs res_fun n weight_ gap pd
         (map
            (map
               (fun p : FlowRP.part K D =>
                src_ep_pw K k0 k1 kadd kmul ksub kopp kinv ksqrt kabs kis0 kleb kltb D pt rap eta wt cosAB obs res_fun n weight_ gap (snd p))) pd) =
       map
         (qfull K k0 kadd kmul D
            (src_ep_pw K k0 k1 kadd kmul ksub kopp kinv ksqrt kabs kis0 kleb kltb D pt rap eta wt cosAB obs res_fun n weight_ gap)) pd.
Proof. exact source_ep_flow_vectors. Qed.
Print Assumptions C12_source_ep_flow_vectors.

(* EventPlaneFlow.__sum_weights *)
Theorem C12_source_ep_sum_weights :
  forall (K : Type) (k0 k1 : K) (kadd kmul ksub : K -> K -> K) (kopp kinv ksqrt kabs : K -> K) (kis0 : K -> bool) (kleb kltb : K -> K -> bool),
       ring_theory k0 k1 kadd kmul ksub kopp eq ->
       forall (D : Type) (pt rap eta : D -> K) (wt : D -> option K) (cosAB obs : cpx K -> cpx K -> K) (res_fun : K -> K) 
         (n : nat) (weight_ : string) (gap : K) (W : list (list K)),
       gen_ep_sum_weights K k0 k1 kadd kmul ksub kopp kinv ksqrt kabs kis0 kleb kltb D pt rap eta wt cosAB obs res_fun n weight_ gap W =
       map (fun ws : list K => ksum k0 kadd (map (fun x : K => kmul x x) ws)) W.
Proof. exact source_ep_sum_weights. Qed.
Print Assumptions C12_source_ep_sum_weights.

(* EventPlaneFlow.__compute_event_angles_sub_events: the vectors whose arctan2/n is returned = the model's normalised sub-event vectors (division by sqrt(sum w^2), zero guard) *)
Theorem C12_source_ep_sub_events :
  forall (K : Type) (k0 k1 : K) (kadd kmul ksub : K -> K -> K) (kopp kinv ksqrt kabs : K -> K) (kis0 : K -> bool) (kleb kltb : K -> K -> bool),
       ring_theory k0 k1 kadd kmul ksub kopp eq ->
       forall (D : Type) (pt rap eta : D -> K) (wt : D -> option K) (cosAB obs : cpx K -> cpx K -> K) (res_fun : K -> K) 
         (n : nat) (weight_ : string) (gap : K) (pd : list (list (cpx K * D))),
       gen_ep_compute_event_angles_sub_events K k0 k1 kadd kmul ksub kopp kinv ksqrt kabs kis0 kleb kltb D pt rap eta wt cosAB obs res_fun n weight_
         gap pd
         (map
            (map
               (fun p : FlowRP.part K D =>
                src_ep_pw K k0 k1 kadd kmul ksub kopp kinv ksqrt kabs kis0 kleb kltb D pt rap eta wt cosAB obs res_fun n weight_ gap (snd p))) pd) =
       (map
          (qnorm K k0 kadd kmul kinv ksqrt kis0 D
             (src_ep_pw K k0 k1 kadd kmul ksub kopp kinv ksqrt kabs kis0 kleb kltb D pt rap eta wt cosAB obs res_fun n weight_ gap)
             (src_ep_inA K k0 k1 kadd kmul ksub kopp kinv ksqrt kabs kis0 kleb kltb D pt rap eta wt cosAB obs res_fun n weight_ gap)) pd,
        map
          (qnorm K k0 kadd kmul kinv ksqrt kis0 D
             (src_ep_pw K k0 k1 kadd kmul ksub kopp kinv ksqrt kabs kis0 kleb kltb D pt rap eta wt cosAB obs res_fun n weight_ gap)
             (src_ep_inB K k0 k1 kadd kmul ksub kopp kinv ksqrt kabs kis0 kleb kltb D pt rap eta wt cosAB obs res_fun n weight_ gap)) pd).
Proof. exact source_ep_sub_events. Qed.
Print Assumptions C12_source_ep_sub_events.

(* EventPlaneFlow.__compute_u_vectors *)
Theorem C12_source_ep_u_vectors :
  forall (K : Type) (k0 k1 : K) (kadd kmul ksub : K -> K -> K) (kopp kinv ksqrt kabs : K -> K) (kis0 : K -> bool) (kleb kltb : K -> K -> bool),
       ring_theory k0 k1 kadd kmul ksub kopp eq ->
       forall (D : Type) (pt rap eta : D -> K) (wt : D -> option K) (cosAB obs : cpx K -> cpx K -> K) (res_fun : K -> K) 
         (n : nat) (weight_ : string) (gap : K) (pd : list (list (cpx K * D))),
       gen_ep_compute_u_vectors K k0 k1 kadd kmul ksub kopp kinv ksqrt kabs kis0 kleb kltb D pt rap eta wt cosAB obs res_fun n weight_ gap pd =
       map (map fst) pd.
Proof. exact source_ep_u_vectors. Qed.
Print Assumptions C12_source_ep_u_vectors.

(* EventPlaneFlow.__compute_event_plane_resolution: every finite resolution of the model is res_fun(sqrt(mean cos n(Psi_A - Psi_B))) as regenerated (res_fun = the Bessel inversion incl. its fallback, an oracle) *)
Theorem C12_source_ep_resolution :
  forall (K : Type) (k0 k1 : K) (kadd kmul ksub : K -> K -> K) (kopp kinv ksqrt kabs : K -> K) (kis0 : K -> bool) (kleb kltb : K -> K -> bool),
       ring_theory k0 k1 kadd kmul ksub kopp eq ->
       forall (D : Type) (pt rap eta : D -> K) (wt : D -> option K) (cosAB obs : cpx K -> cpx K -> K) (res_fun : K -> K) 
         (n : nat) (weight_ : string) (gap : K) (evs : list (FlowSP.event K D)) (r : K),
       ep_resf K k0 ksqrt kis0 kltb res_fun
         (mean K k0 k1 kadd kmul kinv
            (map
               (rn2 K k0 kadd kmul kinv ksqrt kis0 D
                  (src_ep_pw K k0 k1 kadd kmul ksub kopp kinv ksqrt kabs kis0 kleb kltb D pt rap eta wt cosAB obs res_fun n weight_ gap)
                  (src_ep_inA K k0 k1 kadd kmul ksub kopp kinv ksqrt kabs kis0 kleb kltb D pt rap eta wt cosAB obs res_fun n weight_ gap)
                  (src_ep_inB K k0 k1 kadd kmul ksub kopp kinv ksqrt kabs kis0 kleb kltb D pt rap eta wt cosAB obs res_fun n weight_ gap) cosAB) evs)) =
       Some r ->
       gen_ep_resolution K k0 k1 kadd kmul ksub kopp kinv ksqrt kabs kis0 kleb kltb D pt rap eta wt cosAB obs res_fun n weight_ gap
         (map
            (fun e : FlowSP.event K D =>
             qnorm K k0 kadd kmul kinv ksqrt kis0 D
               (src_ep_pw K k0 k1 kadd kmul ksub kopp kinv ksqrt kabs kis0 kleb kltb D pt rap eta wt cosAB obs res_fun n weight_ gap)
               (src_ep_inA K k0 k1 kadd kmul ksub kopp kinv ksqrt kabs kis0 kleb kltb D pt rap eta wt cosAB obs res_fun n weight_ gap) 
               (snd e)) evs)
         (map
            (fun e : FlowSP.event K D =>
             qnorm K k0 kadd kmul kinv ksqrt kis0 D
               (src_ep_pw K k0 k1 kadd kmul ksub kopp kinv ksqrt kabs kis0 kleb kltb D pt rap eta wt cosAB obs res_fun n weight_ gap)
               (src_ep_inB K k0 k1 kadd kmul ksub kopp kinv ksqrt kabs kis0 kleb kltb D pt rap eta wt cosAB obs res_fun n weight_ gap) 
               (snd e)) evs) = r.
Proof. exact source_ep_resolution. Qed.
Print Assumptions C12_source_ep_resolution.

(* EventPlaneFlow.__compute_flow_particles (first component) *)
Theorem C12_source_ep_flow_particles :
  forall (K : Type) (k0 k1 : K) (kadd kmul ksub : K -> K -> K) (kopp kinv ksqrt kabs : K -> K) (kis0 : K -> bool) (kleb kltb : K -> K -> bool),
       ring_theory k0 k1 kadd kmul ksub kopp eq ->
       forall (D : Type) (pt rap eta : D -> K) (wt : D -> option K) (cosAB obs : cpx K -> cpx K -> K) (res_fun : K -> K) 
         (n : nat) (weight_ : string) (gap : K) (sc : bool) (r : K) (evs : list (FlowSP.event K D)),
       gen_ep_compute_flow_particles K k0 k1 kadd kmul ksub kopp kinv ksqrt kabs kis0 kleb kltb D pt rap eta wt cosAB obs res_fun n weight_ gap
         (map fst evs)
         (map
            (map
               (fun p : FlowRP.part K D =>
                src_ep_pw K k0 k1 kadd kmul ksub kopp kinv ksqrt kabs kis0 kleb kltb D pt rap eta wt cosAB obs res_fun n weight_ gap (snd p)))
            (map fst evs))
         (map
            (fun e : FlowSP.event K D =>
             qfull K k0 kadd kmul D
               (src_ep_pw K k0 k1 kadd kmul ksub kopp kinv ksqrt kabs kis0 kleb kltb D pt rap eta wt cosAB obs res_fun n weight_ gap) 
               (snd e)) evs) (map (map fst) (map fst evs)) r sc =
       ep_flow_values K k0 k1 kadd kmul ksub kopp kinv ksqrt kabs kis0 kleb kltb D pt rap eta wt cosAB obs res_fun n weight_ gap sc r evs.
Proof. exact source_ep_flow_particles. Qed.
Print Assumptions C12_source_ep_flow_particles.

(* EventPlaneFlow.__calculate_flow_event_average (first two components) *)
Theorem C12_source_ep_average :
  forall (K : Type) (k0 k1 : K) (kadd kmul ksub : K -> K -> K) (kopp kinv ksqrt kabs : K -> K) (kis0 : K -> bool) (kleb kltb : K -> K -> bool),
       ring_theory k0 k1 kadd kmul ksub kopp eq ->
       forall (D : Type) (pt rap eta : D -> K) (wt : D -> option K) (cosAB obs : cpx K -> cpx K -> K) (res_fun : K -> K) 
         (n : nat) (weight_ : string) (gap : K) (val : FlowSP.event K D -> FlowRP.part K D -> K) (evs : list (list (cpx K * D) * list (FlowRP.part K D))),
       gen_ep_calculate_flow_event_average K k0 k1 kadd kmul ksub kopp kinv ksqrt kabs kis0 kleb kltb D pt rap eta wt cosAB obs res_fun n weight_ gap
         (map fst evs) (map (fun e : FlowSP.event K D => map (val e) (fst e)) evs) =
       avg_fin K k0 kmul ksub kinv ksqrt kis0
         (sums K k0 kadd kmul
            (map
               (fun e : FlowSP.event K D =>
                map
                  (fun p : cpx K * D =>
                   (src_ep_pwt K k0 k1 kadd kmul ksub kopp kinv ksqrt kabs kis0 kleb kltb D pt rap eta wt cosAB obs res_fun n weight_ gap (snd p),
                    val e p)) (fst e)) evs)).
Proof. exact source_ep_average. Qed.
Print Assumptions C12_source_ep_average.

(* EventPlaneFlow.differential_flow, body of the loop over the bins *)
Theorem C12_source_ep_binning :
  forall (K : Type) (k0 k1 : K) (kadd kmul ksub : K -> K -> K) (kopp kinv ksqrt kabs : K -> K) (kis0 : K -> bool) (kleb kltb : K -> K -> bool),
       ring_theory k0 k1 kadd kmul ksub kopp eq ->
       forall (D : Type) (pt rap eta : D -> K) (wt : D -> option K) (cosAB obs : cpx K -> cpx K -> K) (res_fun : K -> K) 
         (n : nat) (weight_ : string) (gap : K) (sel : string) (lo hi : K) (evs : list (list (cpx K * D))),
       gen_ep_bin_events K k0 k1 kadd kmul ksub kopp kinv ksqrt kabs kis0 kleb kltb D pt rap eta wt cosAB obs res_fun n weight_ gap sel lo hi evs =
       map
         (binned K D
            (src_ep_inbin K k0 k1 kadd kmul ksub kopp kinv ksqrt kabs kis0 kleb kltb D pt rap eta wt cosAB obs res_fun n weight_ gap sel lo hi)) evs.
Proof. exact source_ep_binning. Qed.
Print Assumptions C12_source_ep_binning.

(* EventPlaneFlow.integrated_flow (first two return values) *)
Theorem C12_source_ep_integrated :
  forall (K : Type) (k0 k1 : K) (kadd kmul ksub : K -> K -> K) (kopp kinv ksqrt kabs : K -> K) (kis0 : K -> bool) (kleb kltb : K -> K -> bool),
       ring_theory k0 k1 kadd kmul ksub kopp eq ->
       forall (D : Type) (pt rap eta : D -> K) (wt : D -> option K) (cosAB obs : cpx K -> cpx K -> K) (res_fun : K -> K) 
         (n : nat) (weight_ : string) (gap : K) (sc : bool) (evs : list (FlowSP.event K D)) (v : K) (oe : option K),
       ep_integrated K k0 k1 kadd kmul ksub kinv ksqrt kabs kis0 kltb D
         (src_ep_pw K k0 k1 kadd kmul ksub kopp kinv ksqrt kabs kis0 kleb kltb D pt rap eta wt cosAB obs res_fun n weight_ gap)
         (src_ep_pwt K k0 k1 kadd kmul ksub kopp kinv ksqrt kabs kis0 kleb kltb D pt rap eta wt cosAB obs res_fun n weight_ gap)
         (src_ep_inA K k0 k1 kadd kmul ksub kopp kinv ksqrt kabs kis0 kleb kltb D pt rap eta wt cosAB obs res_fun n weight_ gap)
         (src_ep_inB K k0 k1 kadd kmul ksub kopp kinv ksqrt kabs kis0 kleb kltb D pt rap eta wt cosAB obs res_fun n weight_ gap) cosAB obs res_fun sc
         evs = (Some v, oe) ->
       fst
         (gen_ep_integrated_flow K k0 k1 kadd kmul ksub kopp kinv ksqrt kabs kis0 kleb kltb D pt rap eta wt cosAB obs res_fun n weight_ gap
            (map fst evs) (map snd evs) sc) = v /\
       (forall e : K,
        oe = Some e ->
        snd
          (gen_ep_integrated_flow K k0 k1 kadd kmul ksub kopp kinv ksqrt kabs kis0 kleb kltb D pt rap eta wt cosAB obs res_fun n weight_ gap
             (map fst evs) (map snd evs) sc) = e).
Proof. exact source_ep_integrated. Qed.
Print Assumptions C12_source_ep_integrated.

(* EventPlaneFlow.differential_flow, one bin (first two return values) *)
Theorem C12_source_ep_differential :
  forall (K : Type) (k0 k1 : K) (kadd kmul ksub : K -> K -> K) (kopp kinv ksqrt kabs : K -> K) (kis0 : K -> bool) (kleb kltb : K -> K -> bool),
       ring_theory k0 k1 kadd kmul ksub kopp eq ->
       forall (D : Type) (pt rap eta : D -> K) (wt : D -> option K) (cosAB obs : cpx K -> cpx K -> K) (res_fun : K -> K) 
         (n : nat) (weight_ : string) (gap : K) (sel : string) (lo hi : K) (sc : bool) (evs : list (FlowSP.event K D)) (v : K) (oe : option K),
       ep_differential_bin K k0 k1 kadd kmul ksub kinv ksqrt kabs kis0 kltb D
         (src_ep_pw K k0 k1 kadd kmul ksub kopp kinv ksqrt kabs kis0 kleb kltb D pt rap eta wt cosAB obs res_fun n weight_ gap)
         (src_ep_pwt K k0 k1 kadd kmul ksub kopp kinv ksqrt kabs kis0 kleb kltb D pt rap eta wt cosAB obs res_fun n weight_ gap)
         (src_ep_inA K k0 k1 kadd kmul ksub kopp kinv ksqrt kabs kis0 kleb kltb D pt rap eta wt cosAB obs res_fun n weight_ gap)
         (src_ep_inB K k0 k1 kadd kmul ksub kopp kinv ksqrt kabs kis0 kleb kltb D pt rap eta wt cosAB obs res_fun n weight_ gap)
         (src_ep_inbin K k0 k1 kadd kmul ksub kopp kinv ksqrt kabs kis0 kleb kltb D pt rap eta wt cosAB obs res_fun n weight_ gap sel lo hi) cosAB
         obs res_fun sc evs = (Some v, oe) ->
       fst
         (gen_ep_differential_bin K k0 k1 kadd kmul ksub kopp kinv ksqrt kabs kis0 kleb kltb D pt rap eta wt cosAB obs res_fun n weight_ gap
            (gen_ep_bin_events K k0 k1 kadd kmul ksub kopp kinv ksqrt kabs kis0 kleb kltb D pt rap eta wt cosAB obs res_fun n weight_ gap sel lo hi
               (map fst evs)) (map snd evs) sc) = v /\
       (forall e : K,
        oe = Some e ->
        snd
          (gen_ep_differential_bin K k0 k1 kadd kmul ksub kopp kinv ksqrt kabs kis0 kleb kltb D pt rap eta wt cosAB obs res_fun n weight_ gap
             (gen_ep_bin_events K k0 k1 kadd kmul ksub kopp kinv ksqrt kabs kis0 kleb kltb D pt rap eta wt cosAB obs res_fun n weight_ gap sel lo hi
                (map fst evs)) (map snd evs) sc) = e).
Proof. exact source_ep_differential. Qed.
Print Assumptions C12_source_ep_differential.

(* executable instance Model/FlowQ.v: particle.weight with NaN -> 1 *)
Theorem C12_source_q_rp_weight :
  forall (cosAB obs : cpx Q -> cpx Q -> Q) (res_fun : Q -> Q) (weight : string) (n : nat) (gap : Q) (u : cpx Q) (d : fdata),
       fpwt d =
       gen_rp_weight Q 0%Q 1%Q rplus rmult rminus Qopp qinv qsqrt qabs qis0 Qle_bool qltb fdata dpt dy deta dw cosAB obs res_fun n weight gap (u, d).
Proof. exact source_q_rp_weight. Qed.
Print Assumptions C12_source_q_rp_weight.

Theorem C12_source_q_sp_weight :
  forall (cosAB obs : cpx Q -> cpx Q -> Q) (res_fun : Q -> Q) (weight : string) (n : nat) (gap : Q) (u : cpx Q) (d : fdata),
       fpwt d =
       gen_sp_weight Q 0%Q 1%Q rplus rmult rminus Qopp qinv qsqrt qabs qis0 Qle_bool qltb fdata dpt dy deta dw cosAB obs res_fun n weight gap (u, d).
Proof. exact source_q_sp_weight. Qed.
Print Assumptions C12_source_q_sp_weight.

Theorem C12_source_q_ep_weight :
  forall (cosAB obs : cpx Q -> cpx Q -> Q) (res_fun : Q -> Q) (weight : string) (n : nat) (gap : Q) (u : cpx Q) (d : fdata),
       fpwt d =
       gen_ep_weight Q 0%Q 1%Q rplus rmult rminus Qopp qinv qsqrt qabs qis0 Qle_bool qltb fdata dpt dy deta dw cosAB obs res_fun n weight gap (u, d).
Proof. exact source_q_ep_weight. Qed.
Print Assumptions C12_source_q_ep_weight.

(* executable instance: weight name -> expression (pT, pT**2, pT**n, rapidity, pseudorapidity, else 0) *)
Theorem C12_source_q_sp_particle_weight :
  forall (cosAB obs : cpx Q -> cpx Q -> Q) (res_fun : Q -> Q) (weight : string) (n : nat) (gap : Q) (u : cpx Q) (d : fdata),
       fpw weight n d =
       gen_sp_particle_weight Q 0%Q 1%Q rplus rmult rminus Qopp qinv qsqrt qabs qis0 Qle_bool qltb fdata dpt dy deta dw cosAB obs res_fun n weight gap
         (u, d).
Proof. exact source_q_sp_particle_weight. Qed.
Print Assumptions C12_source_q_sp_particle_weight.

Theorem C12_source_q_ep_particle_weight :
  forall (cosAB obs : cpx Q -> cpx Q -> Q) (res_fun : Q -> Q) (weight : string) (n : nat) (gap : Q) (u : cpx Q) (d : fdata),
       fpw weight n d =
       gen_ep_particle_weight Q 0%Q 1%Q rplus rmult rminus Qopp qinv qsqrt qabs qis0 Qle_bool qltb fdata dpt dy deta dw cosAB obs res_fun n weight gap
         (u, d).
Proof. exact source_q_ep_particle_weight. Qed.
Print Assumptions C12_source_q_ep_particle_weight.

(* executable instance: the sub-event tests *)
Theorem C12_source_q_sp_subevents :
  forall (cosAB obs : cpx Q -> cpx Q -> Q) (res_fun : Q -> Q) (weight : string) (n : nat) (gap : Q) (u : cpx Q) (d : fdata),
       finA gap d =
       gen_sp_in_A Q 0%Q 1%Q rplus rmult rminus Qopp qinv qsqrt qabs qis0 Qle_bool qltb fdata dpt dy deta dw cosAB obs res_fun n weight gap (u, d) /\
       finB gap d =
       gen_sp_in_B Q 0%Q 1%Q rplus rmult rminus Qopp qinv qsqrt qabs qis0 Qle_bool qltb fdata dpt dy deta dw cosAB obs res_fun n weight gap (u, d).
Proof. exact source_q_sp_subevents. Qed.
Print Assumptions C12_source_q_sp_subevents.

Theorem C12_source_q_ep_subevents :
  forall (cosAB obs : cpx Q -> cpx Q -> Q) (res_fun : Q -> Q) (weight : string) (n : nat) (gap : Q) (u : cpx Q) (d : fdata),
       finA gap d =
       gen_ep_in_A Q 0%Q 1%Q rplus rmult rminus Qopp qinv qsqrt qabs qis0 Qle_bool qltb fdata dpt dy deta dw cosAB obs res_fun n weight gap (u, d) /\
       finB gap d =
       gen_ep_in_B Q 0%Q 1%Q rplus rmult rminus Qopp qinv qsqrt qabs qis0 Qle_bool qltb fdata dpt dy deta dw cosAB obs res_fun n weight gap (u, d).
Proof. exact source_q_ep_subevents. Qed.
Print Assumptions C12_source_q_ep_subevents.

(* executable instance: selector dispatch and lo <= val < hi *)
Theorem C12_source_q_inbin :
  forall (cosAB obs : cpx Q -> cpx Q -> Q) (res_fun : Q -> Q) (weight : string) (n : nat) (gap : Q) (sel : string) (lo hi : Q) 
         (u : cpx Q) (d : fdata),
       finbin sel lo hi d =
       gen_rp_in_bin Q 0%Q 1%Q rplus rmult rminus Qopp qinv qsqrt qabs qis0 Qle_bool qltb fdata dpt dy deta dw cosAB obs res_fun n weight gap sel lo hi
         (u, d) /\
       finbin sel lo hi d =
       gen_sp_in_bin Q 0%Q 1%Q rplus rmult rminus Qopp qinv qsqrt qabs qis0 Qle_bool qltb fdata dpt dy deta dw cosAB obs res_fun n weight gap sel lo hi
         (u, d) /\
       finbin sel lo hi d =
       gen_ep_in_bin Q 0%Q 1%Q rplus rmult rminus Qopp qinv qsqrt qabs qis0 Qle_bool qltb fdata dpt dy deta dw cosAB obs res_fun n weight gap sel lo hi
         (u, d).
Proof. exact source_q_inbin. Qed.
Print Assumptions C12_source_q_inbin.

(* constructor defaults (n, pseudorapidity_gap), constructor guards and the default of self_corr *)
Theorem C12_source_defaults :
  gen_rp_default_n = 2%Z /\ gen_sp_default_n = 2%Z /\ gen_ep_default_n = 2%Z /\
  (gen_sp_default_gap == 0)%Q /\ (gen_ep_default_gap == 0)%Q /\
  gen_sp_default_self_corr_integrated = true /\ gen_sp_default_self_corr_differential = true /\
  gen_ep_default_self_corr_integrated = true /\ gen_ep_default_self_corr_differential = true /\
  gen_rp_ctor_rejects = [("n", "LtE", 0%Z)]%string /\
  gen_sp_ctor_rejects = [("n", "LtE", 0%Z); ("pseudorapidity_gap", "Lt", 0%Z)]%string /\
  gen_ep_ctor_rejects = [("n", "LtE", 0%Z); ("pseudorapidity_gap", "Lt", 0%Z)]%string.
Proof. exact source_defaults. Qed.
Print Assumptions C12_source_defaults.

(* non-vacuity of the hypotheses of C12_source_sp_integrated: a concrete sample with a finite value and a finite error *)
Theorem C12_source_example :
  exists v e,
    sp_integrated Z 0%Z 1%Z Z.add Z.mul Z.sub Z.opp (fun x => x) (fun x => x) Z.abs (Z.eqb 0) Z.ltb Z
      (src_sp_pw Z 0%Z 1%Z Z.add Z.mul Z.sub Z.opp (fun x => x) (fun x => x) Z.abs (Z.eqb 0) Z.leb Z.ltb Z (fun d => d) (fun d => d) (fun d => d)
         (fun _ => None) (fun _ _ => 0%Z) (fun _ _ => 0%Z) (fun x => x) 2 "pT" 0%Z)
      (src_sp_pwt Z 0%Z 1%Z Z.add Z.mul Z.sub Z.opp (fun x => x) (fun x => x) Z.abs (Z.eqb 0) Z.leb Z.ltb Z (fun d => d) (fun d => d) (fun d => d)
         (fun _ => None) (fun _ _ => 0%Z) (fun _ _ => 0%Z) (fun x => x) 2 "pT" 0%Z)
      (src_sp_inA Z 0%Z 1%Z Z.add Z.mul Z.sub Z.opp (fun x => x) (fun x => x) Z.abs (Z.eqb 0) Z.leb Z.ltb Z (fun d => d) (fun d => d) (fun d => d)
         (fun _ => None) (fun _ _ => 0%Z) (fun _ _ => 0%Z) (fun x => x) 2 "pT" 0%Z)
      (src_sp_inB Z 0%Z 1%Z Z.add Z.mul Z.sub Z.opp (fun x => x) (fun x => x) Z.abs (Z.eqb 0) Z.leb Z.ltb Z (fun d => d) (fun d => d) (fun d => d)
         (fun _ => None) (fun _ _ => 0%Z) (fun _ _ => 0%Z) (fun x => x) 2 "pT" 0%Z)
      true ex_evs = (Some v, Some e)
    /\ gen_sp_integrated_flow Z 0%Z 1%Z Z.add Z.mul Z.sub Z.opp (fun x => x) (fun x => x) Z.abs (Z.eqb 0) Z.leb Z.ltb Z (fun d => d) (fun d => d)
         (fun d => d) (fun _ => None) (fun _ _ => 0%Z) (fun _ _ => 0%Z) (fun x => x) 2 "pT" 0%Z (map fst ex_evs) (map snd ex_evs) true = (v, e).
Proof. exact source_example. Qed.
Print Assumptions C12_source_example.

(* C12 - flow estimates depend only on relative azimuthal geometry.
   Statements only; proofs in Proofs/C12_*.v about the hand models Model/FlowRP.v, FlowSP.v, FlowEP.v, the generated
   Q-cumulant formulas (through C11) and the regenerated tables Gen/GenFlowTables.v.  K is any commutative ring;
   a particle is (u, d) with u = exp(i n phi); rotating by alpha multiplies u by the unit rho = exp(i n alpha). *)
From Coq Require Import String ZArith Ring_theory Reals RealField Bool List Permutation.
From SX Require Import Lib.KRing Lib.Cpx Model.FlowRP Model.FlowSP Model.FlowEP Gen.GenFlowTables Gen.GenQCumulant Model.QCumulant
  Proofs.C11_Corr Proofs.C11_Reals Proofs.C12_Skel Proofs.C12_RP Proofs.C12_SP Proofs.C12_EPReal Proofs.C12_QC Proofs.C12_Tables.
Import ListNotations.

(* ---------------- reaction plane ---------------- *)
(* a common rotation of all particles: the result acquires exactly the factor rho *)
Theorem C12_rp_rotation :
  forall K k0 k1 kadd kmul ksub kopp kinv kis0, ring_theory k0 k1 kadd kmul ksub kopp (@eq K) ->
  forall D pwt rho evs,
  rp_integrated K k0 kadd kmul kinv kis0 D pwt (map (map (rotp K kadd kmul ksub D rho)) evs)
  = option_map (cmul K kadd kmul ksub rho) (rp_integrated K k0 kadd kmul kinv kis0 D pwt evs).
Proof. exact rp_rotation. Qed.
Print Assumptions C12_rp_rotation.

(* with positive particle weights: the weighted mean of exp(i n phi); ZeroDivisionError without weight *)
Theorem C12_rp_mean :
  forall K k0 k1 kadd kmul ksub kopp kinv kis0, ring_theory k0 k1 kadd kmul ksub kopp (@eq K) ->
  forall D pwt (pos : K -> Prop),
  (forall a b, pos a -> pos b -> pos (kadd a b)) -> (forall a, pos a -> kis0 a = false) -> kis0 k0 = true ->
  (forall d, pos (pwt d)) ->
  forall evs,
  rp_integrated K k0 kadd kmul kinv kis0 D pwt evs =
    if kis0 (ksum k0 kadd (map (ewt K k0 kadd D pwt) evs)) then None else Some (rp_mean K k0 kadd kmul kinv D pwt evs).
Proof. exact rp_is_mean. Qed.
Print Assumptions C12_rp_mean.

Theorem C12_rp_reorder :
  forall K k0 k1 kadd kmul ksub kopp kinv kis0, ring_theory k0 k1 kadd kmul ksub kopp (@eq K) ->
  forall D pwt (pos : K -> Prop),
  (forall a b, pos a -> pos b -> pos (kadd a b)) -> (forall a, pos a -> kis0 a = false) -> kis0 k0 = true ->
  (forall d, pos (pwt d)) ->
  forall evs evs1 evs', Forall2 (@Permutation (part K D)) evs evs1 -> Permutation evs1 evs' ->
  rp_integrated K k0 kadd kmul kinv kis0 D pwt evs = rp_integrated K k0 kadd kmul kinv kis0 D pwt evs'.
Proof. exact rp_reorder. Qed.
Print Assumptions C12_rp_reorder.

Theorem C12_rp_diff_all :
  forall K k0 k1 kadd kmul ksub kopp kinv kis0, ring_theory k0 k1 kadd kmul ksub kopp (@eq K) ->
  forall D pwt (pos : K -> Prop),
  (forall a b, pos a -> pos b -> pos (kadd a b)) -> (forall a, pos a -> kis0 a = false) -> kis0 k0 = true ->
  (forall d, pos (pwt d)) ->
  forall inbin evs v, (forall d, inbin d = true) ->
  rp_integrated K k0 kadd kmul kinv kis0 D pwt evs = Some v ->
  rp_differential_bin K k0 kadd kmul kinv kis0 D pwt inbin evs = v.
Proof. exact rp_diff_all. Qed.
Print Assumptions C12_rp_diff_all.

Theorem C12_rp_diff_rotation :
  forall K k0 k1 kadd kmul ksub kopp kinv kis0, ring_theory k0 k1 kadd kmul ksub kopp (@eq K) ->
  forall D pwt inbin rho evs,
  rp_differential_bin K k0 kadd kmul kinv kis0 D pwt inbin (map (map (rotp K kadd kmul ksub D rho)) evs)
  = cmul K kadd kmul ksub rho (rp_differential_bin K k0 kadd kmul kinv kis0 D pwt inbin evs).
Proof. exact (fun K k0 k1 kadd kmul ksub kopp kinv kis0 Kth D pwt => rp_diff_rotation K k0 k1 kadd kmul ksub kopp kinv kis0 Kth D pwt). Qed.
Print Assumptions C12_rp_diff_rotation.

(* ---------------- scalar product ---------------- *)
(* value and error are unchanged when every event (flow and reference particles) is rotated by its own unit *)
Theorem C12_sp_rotation :
  forall K k0 k1 kadd kmul ksub kopp kinv ksqrt kabs kis0 kltb, ring_theory k0 k1 kadd kmul ksub kopp (@eq K) ->
  forall D pw pwt inA inB self_corr evs evs', rotated K k0 k1 kadd kmul ksub kopp D evs evs' ->
  sp_integrated K k0 k1 kadd kmul ksub kopp kinv ksqrt kabs kis0 kltb D pw pwt inA inB self_corr evs
  = sp_integrated K k0 k1 kadd kmul ksub kopp kinv ksqrt kabs kis0 kltb D pw pwt inA inB self_corr evs'.
Proof. exact sp_rotation. Qed.
Print Assumptions C12_sp_rotation.

(* ... when the particles of any event and the events are reordered *)
Theorem C12_sp_reorder :
  forall K k0 k1 kadd kmul ksub kopp kinv ksqrt kabs kis0 kltb, ring_theory k0 k1 kadd kmul ksub kopp (@eq K) ->
  forall D pw pwt inA inB self_corr evs evs', reordered K D evs evs' ->
  sp_integrated K k0 k1 kadd kmul ksub kopp kinv ksqrt kabs kis0 kltb D pw pwt inA inB self_corr evs
  = sp_integrated K k0 k1 kadd kmul ksub kopp kinv ksqrt kabs kis0 kltb D pw pwt inA inB self_corr evs'.
Proof. exact sp_reorder. Qed.
Print Assumptions C12_sp_reorder.

Theorem C12_sp_diff_rotation :
  forall K k0 k1 kadd kmul ksub kopp kinv ksqrt kabs kis0 kltb, ring_theory k0 k1 kadd kmul ksub kopp (@eq K) ->
  forall D pw pwt inA inB inbin self_corr evs evs', rotated K k0 k1 kadd kmul ksub kopp D evs evs' ->
  sp_differential_bin K k0 k1 kadd kmul ksub kopp kinv ksqrt kabs kis0 kltb D pw pwt inA inB inbin self_corr evs
  = sp_differential_bin K k0 k1 kadd kmul ksub kopp kinv ksqrt kabs kis0 kltb D pw pwt inA inB inbin self_corr evs'.
Proof. exact sp_diff_rotation. Qed.
Print Assumptions C12_sp_diff_rotation.

Theorem C12_sp_diff_reorder :
  forall K k0 k1 kadd kmul ksub kopp kinv ksqrt kabs kis0 kltb, ring_theory k0 k1 kadd kmul ksub kopp (@eq K) ->
  forall D pw pwt inA inB inbin self_corr evs evs', reordered K D evs evs' ->
  sp_differential_bin K k0 k1 kadd kmul ksub kopp kinv ksqrt kabs kis0 kltb D pw pwt inA inB inbin self_corr evs
  = sp_differential_bin K k0 k1 kadd kmul ksub kopp kinv ksqrt kabs kis0 kltb D pw pwt inA inB inbin self_corr evs'.
Proof. exact sp_diff_reorder. Qed.
Print Assumptions C12_sp_diff_reorder.

Theorem C12_sp_diff_all :
  forall K k0 k1 kadd kmul ksub kopp kinv ksqrt kabs kis0 kltb D pw pwt inA inB inbin self_corr evs,
  (forall d, inbin d = true) ->
  sp_differential_bin K k0 k1 kadd kmul ksub kopp kinv ksqrt kabs kis0 kltb D pw pwt inA inB inbin self_corr evs
  = sp_integrated K k0 k1 kadd kmul ksub kopp kinv ksqrt kabs kis0 kltb D pw pwt inA inB self_corr evs.
Proof. exact sp_diff_all. Qed.
Print Assumptions C12_sp_diff_all.

(* ---------------- event plane ---------------- *)
(* [cosAB], [obs] are the two uses of arctan2; their invariance is what arctan2 provides (C12_ep_arg_R);
   no vector whose angle is taken may vanish *)
Theorem C12_ep_rotation :
  forall K k0 k1 kadd kmul ksub kopp kinv ksqrt kabs kis0 kltb, ring_theory k0 k1 kadd kmul ksub kopp (@eq K) ->
  forall D pw pwt inA inB cosAB obs res_fun,
  (forall rho a b, cunit K k0 k1 kadd kmul ksub kopp rho -> a <> c0 K k0 -> b <> c0 K k0 ->
     cosAB (cmul K kadd kmul ksub rho a) (cmul K kadd kmul ksub rho b) = cosAB a b) ->
  (forall rho u Q, cunit K k0 k1 kadd kmul ksub kopp rho -> Q <> c0 K k0 ->
     obs (cmul K kadd kmul ksub rho u) (cmul K kadd kmul ksub rho Q) = obs u Q) ->
  forall self_corr evs evs', rotated K k0 k1 kadd kmul ksub kopp D evs evs' ->
  Forall (nondegenerate K k0 kadd kmul ksub kinv ksqrt kabs kis0 D pw inA inB self_corr) evs ->
  ep_integrated K k0 k1 kadd kmul ksub kinv ksqrt kabs kis0 kltb D pw pwt inA inB cosAB obs res_fun self_corr evs
  = ep_integrated K k0 k1 kadd kmul ksub kinv ksqrt kabs kis0 kltb D pw pwt inA inB cosAB obs res_fun self_corr evs'.
Proof. exact (fun K k0 k1 kadd kmul ksub kopp kinv ksqrt kabs kis0 kltb Kth D pw pwt inA inB cosAB obs res_fun =>
                ep_rotation K k0 k1 kadd kmul ksub kopp kinv ksqrt kabs kis0 kltb Kth D pw pwt inA inB cosAB obs res_fun). Qed.
Print Assumptions C12_ep_rotation.

Theorem C12_ep_reorder :
  forall K k0 k1 kadd kmul ksub kopp kinv ksqrt kabs kis0 kltb, ring_theory k0 k1 kadd kmul ksub kopp (@eq K) ->
  forall D pw pwt inA inB cosAB obs res_fun self_corr evs evs', reordered K D evs evs' ->
  ep_integrated K k0 k1 kadd kmul ksub kinv ksqrt kabs kis0 kltb D pw pwt inA inB cosAB obs res_fun self_corr evs
  = ep_integrated K k0 k1 kadd kmul ksub kinv ksqrt kabs kis0 kltb D pw pwt inA inB cosAB obs res_fun self_corr evs'.
Proof. exact ep_reorder. Qed.
Print Assumptions C12_ep_reorder.

Theorem C12_ep_diff_rotation :
  forall K k0 k1 kadd kmul ksub kopp kinv ksqrt kabs kis0 kltb, ring_theory k0 k1 kadd kmul ksub kopp (@eq K) ->
  forall D pw pwt inA inB inbin cosAB obs res_fun,
  (forall rho a b, cunit K k0 k1 kadd kmul ksub kopp rho -> a <> c0 K k0 -> b <> c0 K k0 ->
     cosAB (cmul K kadd kmul ksub rho a) (cmul K kadd kmul ksub rho b) = cosAB a b) ->
  (forall rho u Q, cunit K k0 k1 kadd kmul ksub kopp rho -> Q <> c0 K k0 ->
     obs (cmul K kadd kmul ksub rho u) (cmul K kadd kmul ksub rho Q) = obs u Q) ->
  forall self_corr evs evs', rotated K k0 k1 kadd kmul ksub kopp D evs evs' ->
  Forall (nondegenerate K k0 kadd kmul ksub kinv ksqrt kabs kis0 D pw inA inB self_corr) evs ->
  ep_differential_bin K k0 k1 kadd kmul ksub kinv ksqrt kabs kis0 kltb D pw pwt inA inB inbin cosAB obs res_fun self_corr evs
  = ep_differential_bin K k0 k1 kadd kmul ksub kinv ksqrt kabs kis0 kltb D pw pwt inA inB inbin cosAB obs res_fun self_corr evs'.
Proof. exact (fun K k0 k1 kadd kmul ksub kopp kinv ksqrt kabs kis0 kltb Kth D pw pwt inA inB inbin cosAB obs res_fun =>
                ep_diff_rotation K k0 k1 kadd kmul ksub kopp kinv ksqrt kabs kis0 kltb Kth D pw pwt inA inB inbin cosAB obs res_fun). Qed.
Print Assumptions C12_ep_diff_rotation.

Theorem C12_ep_diff_reorder :
  forall K k0 k1 kadd kmul ksub kopp kinv ksqrt kabs kis0 kltb, ring_theory k0 k1 kadd kmul ksub kopp (@eq K) ->
  forall D pw pwt inA inB inbin cosAB obs res_fun self_corr evs evs', reordered K D evs evs' ->
  ep_differential_bin K k0 k1 kadd kmul ksub kinv ksqrt kabs kis0 kltb D pw pwt inA inB inbin cosAB obs res_fun self_corr evs
  = ep_differential_bin K k0 k1 kadd kmul ksub kinv ksqrt kabs kis0 kltb D pw pwt inA inB inbin cosAB obs res_fun self_corr evs'.
Proof. exact ep_diff_reorder. Qed.
Print Assumptions C12_ep_diff_reorder.

Theorem C12_ep_diff_all :
  forall K k0 k1 kadd kmul ksub kinv ksqrt kabs kis0 kltb D pw pwt inA inB inbin cosAB obs res_fun self_corr evs,
  (forall d, inbin d = true) ->
  ep_differential_bin K k0 k1 kadd kmul ksub kinv ksqrt kabs kis0 kltb D pw pwt inA inB inbin cosAB obs res_fun self_corr evs
  = ep_integrated K k0 k1 kadd kmul ksub kinv ksqrt kabs kis0 kltb D pw pwt inA inB cosAB obs res_fun self_corr evs.
Proof. exact ep_diff_all. Qed.
Print Assumptions C12_ep_diff_all.

(* over the reals, from the defining property of arctan2: the two cosines have closed forms ... *)
Theorem C12_ep_arg_R :
  forall atan2 : R -> R -> R,
  (forall x y, (x * x + y * y <> 0)%R ->
     cos (atan2 y x) = (x / sqrt (x * x + y * y))%R /\ sin (atan2 y x) = (y / sqrt (x * x + y * y))%R) ->
  forall n, (0 < n)%nat ->
  (forall phi Q, norm2 R Rplus Rmult Q <> 0%R ->
     obsR atan2 n phi Q = (re (Rcmul (Rconj (cis (INR n * phi))) Q) / sqrt (norm2 R Rplus Rmult Q))%R) /\
  (forall A B, norm2 R Rplus Rmult A <> 0%R -> norm2 R Rplus Rmult B <> 0%R ->
     cosABR atan2 n A B = (re (Rcmul A (Rconj B)) / (sqrt (norm2 R Rplus Rmult A) * sqrt (norm2 R Rplus Rmult B)))%R).
Proof. exact (fun atan2 Hs n Hn => Logic.conj (obsR_closed atan2 Hs n Hn) (cosABR_closed atan2 Hs n Hn)). Qed.
Print Assumptions C12_ep_arg_R.

(* ... that are invariant under a common unit rotation *)
Theorem C12_ep_closed_rot :
  forall rho, cunit R 0%R 1%R Rplus Rmult Rminus Ropp rho ->
  (forall u Q, (re (Rcmul (Rconj (Rcmul rho u)) (Rcmul rho Q)) / sqrt (norm2 R Rplus Rmult (Rcmul rho Q))
               = re (Rcmul (Rconj u) Q) / sqrt (norm2 R Rplus Rmult Q))%R) /\
  (forall A B, (re (Rcmul (Rcmul rho A) (Rconj (Rcmul rho B))) / (sqrt (norm2 R Rplus Rmult (Rcmul rho A)) * sqrt (norm2 R Rplus Rmult (Rcmul rho B)))
               = re (Rcmul A (Rconj B)) / (sqrt (norm2 R Rplus Rmult A) * sqrt (norm2 R Rplus Rmult B)))%R).
Proof. exact (fun rho H => Logic.conj (fun u Q => obs_closed_rot rho u Q H) (fun A B => cosAB_closed_rot rho A B H)). Qed.
Print Assumptions C12_ep_closed_rot.

(* ---------------- Q-cumulants ---------------- *)
(* <<2>>, <<4>>, <<6>> do not depend on the random rotations, the order of particles or the order of events *)
Theorem C12_qc_invariant :
  forall K k0 k1 kadd kmul ksub kopp kdiv kleb kltb krpow, ring_theory k0 k1 kadd kmul ksub kopp (@eq K) ->
  forall P zof inbin ispoi evs evs',
  Forall (good K k0 k1 kadd kmul ksub kopp P zof) evs ->
  Forall (fun e => cunit K k0 k1 kadd kmul ksub kopp (fst e)) evs' ->
  qc_related K P evs evs' ->
  corr2 K k0 k1 kadd kmul ksub kopp kdiv kleb kltb krpow P zof inbin ispoi evs
  = corr2 K k0 k1 kadd kmul ksub kopp kdiv kleb kltb krpow P zof inbin ispoi evs' /\
  corr4 K k0 k1 kadd kmul ksub kopp kdiv kleb kltb krpow P zof inbin ispoi evs
  = corr4 K k0 k1 kadd kmul ksub kopp kdiv kleb kltb krpow P zof inbin ispoi evs' /\
  corr6 K k0 k1 kadd kmul ksub kopp kdiv kleb kltb krpow P zof inbin ispoi evs
  = corr6 K k0 k1 kadd kmul ksub kopp kdiv kleb kltb krpow P zof inbin ispoi evs'.
Proof. exact qc_invariant. Qed.
Print Assumptions C12_qc_invariant.

(* ---------------- tables (finite, regenerated) ---------------- *)
Theorem C12_tables :
  map fst tab_selectors_validated = estimators /\
  map fst tab_selectors_dispatched = estimators /\
  map fst tab_ctor_defaults = estimators /\
  Forall (fun e => snd e = documented_selectors) tab_selectors_validated /\
  Forall (fun e => snd e = documented_selectors) tab_selectors_dispatched /\
  defaults_ok = true /\ weights_ok = true /\
  lookup "ScalarProductFlow" tab_ctor_defaults = Some [("weight", "pT2")]%string /\
  lookup "EventPlaneFlow" tab_ctor_defaults = Some [("weight", "pT2")]%string /\
  lookup "QCumulantFlow" tab_ctor_defaults = Some [("imaginary", "zero"); ("k", "2")]%string.
Proof. exact tables_ok. Qed.
Print Assumptions C12_tables.

(* non-vacuity: two events over Z (Gaussian-integer units), rotated by i and -1, reordered *)
Theorem C12_example :
  let ev1 := ([((1, 0), 2); ((0, 1), 3)], [((1, 0), 2); ((0, 1), 3); ((-1, 0), 1); ((0, -1), 5)])%Z in
  let ev2 := ([((0, -1), 1)], [((0, 1), 1); ((1, 0), 2); ((0, -1), 1)])%Z in
  let sp := sp_integrated Z 0%Z 1%Z Z.add Z.mul Z.sub Z.opp (fun x => x) (fun x => x) Z.abs (Z.eqb 0) Z.ltb Z
              (fun d => d) (fun _ => 1%Z) (fun d => Z.leb 2 d) (fun d => Z.ltb d 2) true in
  rotated Z 0%Z 1%Z Z.add Z.mul Z.sub Z.opp Z [ev1; ev2]
          [rote Z Z.add Z.mul Z.sub Z (0, 1)%Z ev1; rote Z Z.add Z.mul Z.sub Z (-1, 0)%Z ev2] /\
  sp [ev1; ev2] = sp [rote Z Z.add Z.mul Z.sub Z (0, 1)%Z ev1; rote Z Z.add Z.mul Z.sub Z (-1, 0)%Z ev2] /\
  sp [ev1; ev2] = sp [ev2; ev1].
Proof. exact c12_example. Qed.
Print Assumptions C12_example.

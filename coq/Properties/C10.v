(* C10 - the histogram stays well-formed over any history; averaging and output are exact.
   Only statements closed by [exact]; proofs in Proofs/C10_*.v about the hand model Model/Histogram.v.
   The arrays of the model carry their numpy shape (A1 = 1-D, A2 = 2-D): [Shape h] says that all five
   per-histogram arrays are 2-D of shape (n_hist, n_bins), that there are n_bins+1 edges and n_hist >= 1. *)
From Coq Require Import List ZArith QArith Qcanon Bool Arith.
From SX Require Import Model.Histogram Lib.HistBase Proofs.C09_Count Proofs.C10_Shape Proofs.C10_Avg
                       Proofs.C10_History Proofs.C10_Write Proofs.C10_Example.
Import ListNotations.
Local Open Scope nat_scope.

(* the executable test used by the correspondence is the invariant *)
Theorem C10_shapeb : forall h, shapeb h = true <-> Shape h.
Proof. exact shapeb_Shape. Qed.
Print Assumptions C10_shapeb.

(* the constructors establish the invariant (explicit edges; uniform tuple for any linspace returning n+1 values) *)
Theorem C10_shape_init_list : forall es h, init_list es = Ok h -> Shape h.
Proof. exact init_list_shape. Qed.
Print Assumptions C10_shape_init_list.

Theorem C10_shape_init_tuple :
  forall ul lo hi b n h, (forall lo hi n, length (ul lo hi n) = S n) -> init_tuple ul lo hi b n = Ok h -> Shape h.
Proof. exact init_tuple_shape. Qed.
Print Assumptions C10_shape_init_tuple.

(* every operation that returns preserves it: add_value (any argument form), add_histogram, scale_histogram,
   set_error, set_systematic_error, statistical_error, make_density, add_bin, remove_bin, average,
   average_weighted, average_weighted_by_error *)
Theorem C10_shape_step : forall usqrt h o h', Shape h -> step usqrt h o = Ok h' -> Shape h'.
Proof. exact step_shape. Qed.
Print Assumptions C10_shape_step.

(* hence over ANY finite history *)
Theorem C10_shape_history : forall usqrt ops h h', Shape h -> run usqrt h ops = Ok h' -> Shape h'.
Proof. exact run_shape. Qed.
Print Assumptions C10_shape_history.

(* on a well-shaped state write_to_file succeeds for every column subset / order (None = all eight) and for one
   label dictionary or one per histogram, and the file holds, for every histogram and bin, exactly the values of
   the requested columns under the labels of those columns *)
Theorem C10_write :
  forall h labels columns, Shape h -> args_ok h labels columns ->
  write_to_file h labels columns = Ok (write_spec h labels columns).
Proof. exact write_total_exact. Qed.
Print Assumptions C10_write.

(* average_weighted: exactly one histogram, bin i holds sum_k w_k h_k,i / sum_k w_k, its error is
   sqrt( sum_k w_k (h_k,i - mean_i)^2 / sum_k w_k ), raw counts are summed over the histograms *)
Theorem C10_avg :
  forall usqrt h ws h', Shape h -> average_weighted usqrt h ws = Ok h' ->
  Shape h' /\ nhist h' = 1 /\ nbins h' = nbins h /\ edges h' = edges h /\
  exists rows raws avg err raw,
    hH h = A2 rows /\ hRAW h = A2 raws /\ hH h' = A2 [avg] /\ hERR h' = A2 [err] /\ hRAW h' = A2 [raw] /\
    length ws = nhist h /\
    forall i, i < nbins h ->
      nth i avg None = wmean ws (col i rows)
      /\ nth i err None = csqrt usqrt (wmean ws (map (fun x => csq (csub x (wmean ws (col i rows)))) (col i rows)))
      /\ nth i raw None = csum (col i raws).
Proof. exact average_weighted_spec. Qed.
Print Assumptions C10_avg.

(* average() is average_weighted with unit weights *)
Theorem C10_average_unit_weights :
  forall usqrt h, average usqrt h = average_weighted usqrt h (ones (nhist h)).
Proof. exact (fun _ _ => eq_refl). Qed.
Print Assumptions C10_average_unit_weights.

(* the three averaging operations leave exactly one histogram *)
Theorem C10_avg_one :
  forall usqrt h o h', Shape h -> (o = OAverage \/ (exists ws, o = OAvgW ws) \/ o = OAvgErr) ->
  step usqrt h o = Ok h' -> nhist h' = 1.
Proof. exact average_one. Qed.
Print Assumptions C10_avg_one.

(* non-vacuity: fill, add_histogram, weighted fill, add_bin, average, per-bin scaling, remove_bin, add_histogram;
   the state is well-shaped (2 bins, 2 histograms, edges 1/2, 1, 2) and writing the columns
   (distribution, bin_low, stat_err+) under the labels 13, 11, 14 of a single dictionary gives these rows *)
Theorem C10_example :
  match run qsqrt (fresh 2 [z2 0 1; z2 1 1; z2 2 1]) ex_ops with
  | Ok h => shapeb h = true /\ map this (edges h) = [1 # 2; 1 # 1; 2 # 1]%Q
            /\ option_map tq (match write_to_file h [[(1, 11); (3, 13); (4, 14)]] (Some [3; 1; 4]) with Ok t => Some t | Err _ => None end)
               = Some [([13; 11; 14]%nat, [[Some (0 # 1); Some (1 # 2); Some (0 # 1)]; [Some (1 # 1); Some (1 # 1); Some (1 # 2)]]%Q);
                       ([13; 11; 14]%nat, [[Some (0 # 1); Some (1 # 2); Some (0 # 1)]; [Some (0 # 1); Some (1 # 1); Some (0 # 1)]]%Q)]
  | Err _ => False
  end.
Proof. exact c10_example. Qed.
Print Assumptions C10_example.

(* ---- source tie: every operation of the hand model EQUALS the Gallina function that tools/py2coq/gen_histogram.py
   regenerates from the current src/sparkx/Histogram.py on every run (Gen/GenHistogram.v; numpy vocabulary
   Lib/HistRt.v), hence so does every history; the theorems above are thereby about what the source says now. *)
From Coq Require Import String List.
From SX Require Import Lib.HistRt Gen.GenHistogram Proofs.C09_Source Proofs.C10_Source.
Import ListNotations.

Theorem C10_source_add_histogram : forall h, add_histogram h = gen_add_histogram h.
Proof. exact source_add_histogram. Qed.
Print Assumptions C10_source_add_histogram.

Theorem C10_source_set_error : forall h l, set_error h l = gen_set_error h l.
Proof. exact source_set_error. Qed.
Print Assumptions C10_source_set_error.

Theorem C10_source_set_systematic_error : forall h l, set_systematic_error h l = gen_set_systematic_error h l.
Proof. exact source_set_systematic_error. Qed.
Print Assumptions C10_source_set_systematic_error.

Theorem C10_source_add_bin : forall h index e, add_bin h index e = gen_add_bin h index e.
Proof. exact source_add_bin. Qed.
Print Assumptions C10_source_add_bin.

Theorem C10_source_remove_bin :
  forall h index, length (edges h) = S (nbins h) -> remove_bin h index = gen_remove_bin h index.
Proof. exact source_remove_bin. Qed.
Print Assumptions C10_source_remove_bin.

Theorem C10_source_average_weighted :
  forall usqrt h ws, average_weighted usqrt h ws = gen_average_weighted usqrt h ws.
Proof. exact source_average_weighted. Qed.
Print Assumptions C10_source_average_weighted.

Theorem C10_source_average : forall usqrt h, average usqrt h = gen_average usqrt h.
Proof. exact source_average. Qed.
Print Assumptions C10_source_average.

Theorem C10_source_average_weighted_by_error :
  forall usqrt h, average_weighted_by_error usqrt h = gen_average_weighted_by_error usqrt h.
Proof. exact source_average_weighted_by_error. Qed.
Print Assumptions C10_source_average_weighted_by_error.

(* the literal list `default_columns` of write_to_file, and its abstraction to the numbers 0..7 *)
Theorem C10_source_default_columns :
  gen_column_names_1 = ["bin_center"; "bin_low"; "bin_high"; "distribution"; "stat_err+"; "stat_err-"; "sys_err+"; "sys_err-"]%string
  /\ colkeys gen_column_names_1 = default_columns.
Proof. exact source_default_columns. Qed.
Print Assumptions C10_source_default_columns.

(* write_to_file (checks, label handling, the eight values per row and their selection by column);
   an explicitly EMPTY column list is excluded: there the code never indexes hist_labels, the model does *)
Theorem C10_source_write_to_file :
  forall h labels columns, (forall cs, columns = Some cs -> cs <> []) ->
  write_to_file h labels columns = gen_write_to_file h labels columns.
Proof. exact source_write_to_file. Qed.
Print Assumptions C10_source_write_to_file.

(* every operation and every history from a well-shaped state *)
Theorem C10_source_step : forall usqrt h o, Shape h -> step usqrt h o = gen_step usqrt h o.
Proof. exact source_step. Qed.
Print Assumptions C10_source_step.

Theorem C10_source_run : forall usqrt ops h, Shape h -> run usqrt h ops = gen_run usqrt h ops.
Proof. exact source_run. Qed.
Print Assumptions C10_source_run.

(* non-vacuity: the regenerated functions compute, and give the model's results on the history of C10_example *)
Theorem C10_source_example :
  gen_run qsqrt (fresh 2 [z2 0 1; z2 1 1; z2 2 1]) ex_ops = run qsqrt (fresh 2 [z2 0 1; z2 1 1; z2 2 1]) ex_ops
  /\ (exists h, gen_run qsqrt (fresh 2 [z2 0 1; z2 1 1; z2 2 1]) ex_ops = Ok h /\ shapeb h = true
       /\ exists t, gen_write_to_file h [[(1, 11); (3, 13); (4, 14)]] (Some [3; 1; 4]) = Ok t
                    /\ write_to_file h [[(1, 11); (3, 13); (4, 14)]] (Some [3; 1; 4]) = Ok t).
Proof. exact source_example. Qed.
Print Assumptions C10_source_example.

(* C20 - the jet output file holds exactly this call's jets with the right momentum and constituents, whatever
   it held before and whichever events have jets; read_jet_data returns them jet by jet.
   Only statements closed by [exact]; proofs in Proofs/C20_*.v, model in Model/Jets.v, specification in
   Model/JetsSpec.v.  cluster / acc_perp / acc_eta / acc_phi / dR are fastjet (universally quantified here). *)
From Coq Require Import List ZArith QArith Bool.
From SX Require Import Model.Jets Model.JetsSpec Model.JetsTable
     Proofs.C20_Write Proofs.C20_Read Proofs.C20_Params Proofs.C20_Example.
Import ListNotations.

(* ANY prior file (missing, empty, foreign, older rows), ANY event list (jet-less events anywhere), any accepted
   arguments: afterwards the file exists and holds the rows of selected_jets and nothing else.
   selected_jets (Model/JetsSpec.v): per event in order, the clustered jets with pT >= lower bound and eta inside
   the window (limits re-ordered, None unbounded), momentum = clustered - sum of the negative-status particles
   with dR < R, omitted iff pT of that momentum >= upper bound, associated = the non-negative-status particles
   (charged only, if requested) with dR < R in event order, each row carrying the event index. *)
Theorem C20_content :
  forall cluster acc_perp acc_eta acc_phi dR (a : params) (prior : file) (evs : list event),
  valid a -> Forall (event_ok cluster acc_eta a) evs ->
  perform cluster acc_perp acc_eta acc_phi dR a prior evs
  = (Some (lines_of acc_perp acc_eta acc_phi (selected_jets cluster acc_eta dR a evs)), None).
Proof. exact perform_content. Qed.
Print Assumptions C20_content.

(* two successive calls into the same file: only the second call's jets remain *)
Theorem C20_two_calls :
  forall cluster acc_perp acc_eta acc_phi dR a1 a2 (prior : file) evs1 evs2,
  valid a2 -> Forall (event_ok cluster acc_eta a2) evs2 ->
  perform cluster acc_perp acc_eta acc_phi dR a2 (fst (perform cluster acc_perp acc_eta acc_phi dR a1 prior evs1)) evs2
  = (Some (lines_of acc_perp acc_eta acc_phi (selected_jets cluster acc_eta dR a2 evs2)), None).
Proof. exact perform_twice. Qed.
Print Assumptions C20_two_calls.

(* no event has a jet to write: the file exists and is empty, whatever it held *)
Theorem C20_no_jets :
  forall cluster acc_perp acc_eta acc_phi dR a (prior : file) evs,
  valid a -> Forall (fun ev => candidates cluster acc_eta a ev = []) evs ->
  perform cluster acc_perp acc_eta acc_phi dR a prior evs = (Some [], None).
Proof. exact perform_no_jets. Qed.
Print Assumptions C20_no_jets.

(* read_jet_data on what was written: the jets, group by group (jet row, then its associated rows) *)
Theorem C20_read :
  forall acc_perp acc_eta acc_phi (js : list jetout),
  read_jet_data (Some (lines_of acc_perp acc_eta acc_phi js)) = Ok (map (jet_group acc_perp acc_eta acc_phi) js).
Proof. exact read_written. Qed.
Print Assumptions C20_read.

Theorem C20_getters :
  forall acc_perp acc_eta acc_phi (js : list jetout),
  get_jets (map (jet_group acc_perp acc_eta acc_phi) js)
  = Ok (map (fun jo => hd (Row 0 0 0 0 0 0 0 0) (jet_group acc_perp acc_eta acc_phi jo)) js)
  /\ get_associated_particles (map (jet_group acc_perp acc_eta acc_phi) js)
     = map (fun jo => tl (jet_group acc_perp acc_eta acc_phi jo)) js.
Proof. exact get_jets_written. Qed.
Print Assumptions C20_getters.

(* a foreign line anywhere makes the reader raise instead of returning mixed data *)
Theorem C20_read_foreign :
  forall pre tag post, exists e, read_jet_data (Some (pre ++ Foreign tag :: post)) = Err e.
Proof. exact read_foreign. Qed.
Print Assumptions C20_read_foreign.

(* swapped limits are re-ordered (the result is ordered and consists of the two given limits), None is unbounded *)
Theorem C20_limits :
  forall r : option Q * option Q,
  (ext_le (fst (norm_eta r)) (snd (norm_eta r)) = true
   /\ (norm_eta r = (lower_eta r, upper_of r) \/ norm_eta r = (upper_of r, lower_eta r)))
  /\ (ext_le (fst (norm_pt r)) (snd (norm_pt r)) = true
   /\ (norm_pt r = (lower_pt r, upper_of r) \/ norm_pt r = (upper_of r, lower_pt r))).
Proof. exact limits_reordered. Qed.
Print Assumptions C20_limits.

(* what the real code rejects: R <= 0 or a negative pT bound - ValueError, the file is left as it was *)
Theorem C20_rejects :
  forall cluster acc_perp acc_eta acc_phi dR a (prior : file) evs,
  (Qle_bool (a_R a) 0 = true \/ negative_bound (fst (a_pt a)) = true \/ negative_bound (snd (a_pt a)) = true) ->
  perform cluster acc_perp acc_eta acc_phi dR a prior evs = (prior, Some EValue).
Proof. exact perform_rejects. Qed.
Print Assumptions C20_rejects.

(* ... and an unset status in the first event that has a jet to write: ValueError, the file holds the jets of
   the events before it (and nothing of the prior content) *)
Theorem C20_unset_status :
  forall cluster acc_perp acc_eta acc_phi dR a (prior : file) evs1 ev evs2,
  valid a -> Forall (event_ok cluster acc_eta a) evs1 ->
  candidates cluster acc_eta a ev <> [] -> ~ Forall status_set ev ->
  perform cluster acc_perp acc_eta acc_phi dR a prior (evs1 ++ ev :: evs2)
  = (Some (lines_of acc_perp acc_eta acc_phi (selected_jets cluster acc_eta dR a evs1)), Some EValue).
Proof. exact perform_unset_status. Qed.
Print Assumptions C20_unset_status.

(* non-vacuity: a concrete call (fastjet answers as tables) - jet-less first and last event, three prior lines,
   swapped limits, a jet with neutral and charged holes, a jet exactly at the upper bound *)
Theorem C20_example :
  valid ex_params
  /\ Forall (event_ok (t_cluster ex_cluster) (t_eta ex_acc) ex_params) ex_events
  /\ map (fun ev => length (candidates (t_cluster ex_cluster) (t_eta ex_acc) ex_params ev)) ex_events = [0; 3; 0]%nat
  /\ length (content ex_prior) = 3%nat
  /\ snd ex_perform = None
  /\ file_eqb (fst ex_perform) ex_written = true
  /\ length (content ex_written) = 4%nat.
Proof. exact example. Qed.
Print Assumptions C20_example.

(* ---------------------------------------------------------------------------------------------------------------
   TIE TO THE SOURCE.  Gen/GenJets.v is regenerated on every run from the CURRENT text of JetAnalysis.py
   (tools/py2coq/gen_jets.py: the method bodies as written, over the fixed runtime Model/JetsRt.v).  The theorems
   below state that the hand model used above EQUALS the regenerated methods, for all arguments - so the theorems
   above are about what the source says now.  o_* are the fastjet oracles (clustering, perp/eta/phi, delta_phi_to)
   and np.sqrt; the model's dR is instantiated with the distance formula of the source (dR_of). *)
From Coq Require Import String.
From SX Require Import Model.JetsRt Gen.GenJets Proofs.C20_Source.

(* __init__ leaves every attribute None; defaults of the keyword parameters *)
Theorem C20_source_defaults :
  gen_new = JSelf None None None None None
  /\ gen_default_write_jet_output_new_file = false
  /\ gen_default_perform_jet_finding_assoc_only_charged = true
  /\ gen_default_perform_jet_finding_jet_algorithm = GModel AntiKt.
Proof. exact source_defaults. Qed.
Print Assumptions C20_source_defaults.

(* __initialize_and_check_parameters = check_params: the R test, the None defaults, the re-ordering test, the
   negative-bound test, the exception class, and which attribute each value lands in *)
Theorem C20_source_params :
  forall self hd al R eta pt ch,
  gen_initialize_and_check_parameters self hd R eta pt
  = match check_params (Params al R eta pt ch) with
    | Err e => PErr (exn_of e)
    | Ok (w, p) => POk (self_after self hd R w p, tt)
    end.
Proof. exact source_params. Qed.
Print Assumptions C20_source_params.

(* create_fastjet_PseudoJets: (px, py, pz, E) of every hadron, in order *)
Theorem C20_source_pseudojets :
  forall ev : event, gen_create_fastjet_PseudoJets ev = map pmom ev.
Proof. exact source_pseudojets. Qed.
Print Assumptions C20_source_pseudojets.

(* fill_associated_particles = fill: the unset-status exception, the status / charge skips with their operators and
   order, dR < R with dR as the source computes it, append in event order *)
Theorem C20_source_fill :
  forall o_eta o_dphi o_sqrt self hd R jet i ev s oc,
  hadron_data_ self = Some hd -> jet_R_ self = Some R ->
  (0 <= i < zlen hd)%Z -> py_index hd i = Some ev ->
  gen_fill_associated_particles o_eta o_dphi o_sqrt self jet i (sel_str s) oc
  = res_of (fill (dR_of o_eta o_dphi o_sqrt) R jet s oc ev).
Proof. exact source_fill. Qed.
Print Assumptions C20_source_fill.

(* jet_hole_subtraction: component sums from 0.0 in list order, then jet - sum, reset in the order px py pz E *)
Theorem C20_source_hole_subtraction :
  forall (jet : vec4) (holes : list particle),
  gen_jet_hole_subtraction jet holes = jet_hole_subtraction jet holes.
Proof. exact source_hole_subtraction. Qed.
Print Assumptions C20_source_hole_subtraction.

(* write_jet_output = the model's: the omission test `perp() < upper bound` (equal to the model's comparison on
   squares where perp() is the non-negative root of px^2+py^2 for this jet), the two row layouts, numbering from 1,
   the event index, mode "a" unless new_file, the returned False *)
Theorem C20_source_write :
  forall o_perp o_eta o_phi self (fs : file) pt jet assoc i nf,
  jet_pT_range_ self = Some pt -> perp_at o_perp jet -> bound_ok (snd pt) ->
  gen_write_jet_output o_perp o_eta o_phi self fs jet assoc i nf
  = (write_jet_output o_perp o_eta o_phi fs (snd pt) jet assoc i nf, POk false).
Proof. exact source_write. Qed.
Print Assumptions C20_source_write.

(* perform_jet_finding = perform: parameter check first, the file created empty, events in order with their index,
   JetDefinition(algorithm, R), inclusive_jets(lower pT bound), SelectorEtaRange(window), per jet: holes (negative,
   not charged-only), associated (positive, charged-only as requested), subtraction, write in append mode.
   Assumed: perp() is the non-negative root of px^2+py^2 on the hole-subtracted jets that are compared. *)
Theorem C20_source_perform :
  forall o_cluster o_perp o_eta o_phi o_dphi o_sqrt self (fs : file) evs al R eta pt ch,
  (forall w p ev jet holes,
     check_params (Params al R eta pt ch) = Ok (w, p) -> In ev evs ->
     In jet (select o_cluster o_eta (Params al R eta pt ch) w p ev) ->
     fill (dR_of o_eta o_dphi o_sqrt) R jet Negative false ev = Ok holes ->
     perp_at o_perp (jet_hole_subtraction jet holes)) ->
  gen_perform_jet_finding o_cluster o_perp o_eta o_phi o_dphi o_sqrt self fs evs R eta pt ch (GModel al)
  = let a := Params al R eta pt ch in
    let r := perform o_cluster o_perp o_eta o_phi (dR_of o_eta o_dphi o_sqrt) a fs evs in
    (fst r, match snd r with
            | Some e => PErr (exn_of e)
            | None => match check_params a with
                      | Ok (w, p) => POk (self_after self evs R w p, tt)
                      | Err e => PErr (exn_of e)
                      end
            end).
Proof. exact source_perform. Qed.
Print Assumptions C20_source_perform.

(* read_jet_data = the model's reader: what starts a new group, which column is parsed as int / float, the final
   group, FileNotFoundError / ValueError, the attribute that receives the result; the file is not changed *)
Theorem C20_source_read :
  forall self (fs : file),
  gen_read_jet_data self fs
  = (fs, match read_jet_data fs with
         | Ok d => POk (set_jet_data_ self (Some d), tt)
         | Err e => PErr (exn_of e)
         end).
Proof. exact source_read. Qed.
Print Assumptions C20_source_read.

(* non-vacuity of the hypothesis of C20_source_perform, and the regenerated method run on that call *)
Theorem C20_source_example :
  (forall w p ev jet holes,
     check_params (Params AntiKt 1 (Some 2, Some (-2)) (None, Some 6) true) = Ok (w, p) -> In ev sx_events ->
     In jet (select sx_cluster sx_eta (Params AntiKt 1 (Some 2, Some (-2)) (None, Some 6) true) w p ev) ->
     fill (dR_of sx_eta sx_dphi sx_sqrt) 1 jet Negative false ev = Ok holes ->
     perp_at sx_perp (jet_hole_subtraction jet holes))
  /\ List.length (content (fst sx_run)) = 2%nat
  /\ (exists s, snd sx_run = POk (s, tt)).
Proof. exact source_example. Qed.
Print Assumptions C20_source_example.

(* C20 - the jet output file holds exactly this call's jets with the right momentum and constituents, whatever
   it held before and whichever events have jets; read_jet_data returns them jet by jet.
   Only statements closed by [exact]; proofs in Proofs/C20_*.v, model in Model/Jets.v, specification in
   Model/JetsSpec.v.  cluster / acc_perp / acc_eta / acc_phi / dR are fastjet (universally quantified here). *)
From Coq Require Import List ZArith QArith Bool.
From SX Require Import Model.Jets Model.JetsSpec Model.JetsTable
     Proofs.C20_Write Proofs.C20_Read Proofs.C20_Params Proofs.C20_Example.
Import ListNotations.

(* ANY prior file (missing, empty, foreign, older rows), ANY event list (jet-less events anywhere), any accepted
   arguments: afterwards the file exists and holds the rows of selected_jets and nothing else.
   selected_jets (Model/JetsSpec.v): per event in order, the clustered jets with pT >= lower bound and eta inside
   the window (limits re-ordered, None unbounded), momentum = clustered - sum of the negative-status particles
   with dR < R, omitted iff pT of that momentum >= upper bound, associated = the non-negative-status particles
   (charged only, if requested) with dR < R in event order, each row carrying the event index. *)
Theorem C20_content :
  forall cluster acc_perp acc_eta acc_phi dR (a : params) (prior : file) (evs : list event),
  valid a -> Forall (event_ok cluster acc_eta a) evs ->
  perform cluster acc_perp acc_eta acc_phi dR a prior evs
  = (Some (lines_of acc_perp acc_eta acc_phi (selected_jets cluster acc_eta dR a evs)), None).
Proof. exact perform_content. Qed.
Print Assumptions C20_content.

(* two successive calls into the same file: only the second call's jets remain *)
Theorem C20_two_calls :
  forall cluster acc_perp acc_eta acc_phi dR a1 a2 (prior : file) evs1 evs2,
  valid a2 -> Forall (event_ok cluster acc_eta a2) evs2 ->
  perform cluster acc_perp acc_eta acc_phi dR a2 (fst (perform cluster acc_perp acc_eta acc_phi dR a1 prior evs1)) evs2
  = (Some (lines_of acc_perp acc_eta acc_phi (selected_jets cluster acc_eta dR a2 evs2)), None).
Proof. exact perform_twice. Qed.
Print Assumptions C20_two_calls.

(* no event has a jet to write: the file exists and is empty, whatever it held *)
Theorem C20_no_jets :
  forall cluster acc_perp acc_eta acc_phi dR a (prior : file) evs,
  valid a -> Forall (fun ev => candidates cluster acc_eta a ev = []) evs ->
  perform cluster acc_perp acc_eta acc_phi dR a prior evs = (Some [], None).
Proof. exact perform_no_jets. Qed.
Print Assumptions C20_no_jets.

(* read_jet_data on what was written: the jets, group by group (jet row, then its associated rows) *)
Theorem C20_read :
  forall acc_perp acc_eta acc_phi (js : list jetout),
  read_jet_data (Some (lines_of acc_perp acc_eta acc_phi js)) = Ok (map (jet_group acc_perp acc_eta acc_phi) js).
Proof. exact read_written. Qed.
Print Assumptions C20_read.

Theorem C20_getters :
  forall acc_perp acc_eta acc_phi (js : list jetout),
  get_jets (map (jet_group acc_perp acc_eta acc_phi) js)
  = Ok (map (fun jo => hd (Row 0 0 0 0 0 0 0 0) (jet_group acc_perp acc_eta acc_phi jo)) js)
  /\ get_associated_particles (map (jet_group acc_perp acc_eta acc_phi) js)
     = map (fun jo => tl (jet_group acc_perp acc_eta acc_phi jo)) js.
Proof. exact get_jets_written. Qed.
Print Assumptions C20_getters.

(* a foreign line anywhere makes the reader raise instead of returning mixed data *)
Theorem C20_read_foreign :
  forall pre tag post, exists e, read_jet_data (Some (pre ++ Foreign tag :: post)) = Err e.
Proof. exact read_foreign. Qed.
Print Assumptions C20_read_foreign.

(* swapped limits are re-ordered (the result is ordered and consists of the two given limits), None is unbounded *)
Theorem C20_limits :
  forall r : option Q * option Q,
  (ext_le (fst (norm_eta r)) (snd (norm_eta r)) = true
   /\ (norm_eta r = (lower_eta r, upper_of r) \/ norm_eta r = (upper_of r, lower_eta r)))
  /\ (ext_le (fst (norm_pt r)) (snd (norm_pt r)) = true
   /\ (norm_pt r = (lower_pt r, upper_of r) \/ norm_pt r = (upper_of r, lower_pt r))).
Proof. exact limits_reordered. Qed.
Print Assumptions C20_limits.

(* what the real code rejects: R <= 0 or a negative pT bound - ValueError, the file is left as it was *)
Theorem C20_rejects :
  forall cluster acc_perp acc_eta acc_phi dR a (prior : file) evs,
  (Qle_bool (a_R a) 0 = true \/ negative_bound (fst (a_pt a)) = true \/ negative_bound (snd (a_pt a)) = true) ->
  perform cluster acc_perp acc_eta acc_phi dR a prior evs = (prior, Some EValue).
Proof. exact perform_rejects. Qed.
Print Assumptions C20_rejects.

(* ... and an unset status in the first event that has a jet to write: ValueError, the file holds the jets of
   the events before it (and nothing of the prior content) *)
Theorem C20_unset_status :
  forall cluster acc_perp acc_eta acc_phi dR a (prior : file) evs1 ev evs2,
  valid a -> Forall (event_ok cluster acc_eta a) evs1 ->
  candidates cluster acc_eta a ev <> [] -> ~ Forall status_set ev ->
  perform cluster acc_perp acc_eta acc_phi dR a prior (evs1 ++ ev :: evs2)
  = (Some (lines_of acc_perp acc_eta acc_phi (selected_jets cluster acc_eta dR a evs1)), Some EValue).
Proof. exact perform_unset_status. Qed.
Print Assumptions C20_unset_status.

(* non-vacuity: a concrete call (fastjet answers as tables) - jet-less first and last event, three prior lines,
   swapped limits, a jet with neutral and charged holes, a jet exactly at the upper bound *)
Theorem C20_example :
  valid ex_params
  /\ Forall (event_ok (t_cluster ex_cluster) (t_eta ex_acc) ex_params) ex_events
  /\ map (fun ev => length (candidates (t_cluster ex_cluster) (t_eta ex_acc) ex_params ev)) ex_events = [0; 3; 0]%nat
  /\ length (content ex_prior) = 3%nat
  /\ snd ex_perform = None
  /\ file_eqb (fst ex_perform) ex_written = true
  /\ length (content ex_written) = 4%nat.
Proof. exact example. Qed.
Print Assumptions C20_example.

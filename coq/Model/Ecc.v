(* Hand model of EventCharacteristics.eccentricity_from_particles / _from_lattice around the pieces regenerated from
   the source (Gen/GenEcc.v: weight table, radial-power chain, the three loop-body terms, the return expression,
   the two argument checks).
   ALGEBRAIC FORM: the code computes phi = arctan2(y, x) and cos(n phi), sin(n phi); the model carries, per point,
   the radius r (an oracle value: sqrt(x^2+y^2)) and uses the unit vector u = (x/r, y/r) - (1,0) at the origin, as
   arctan2(0,0) = 0 - and (cos(n phi), sin(n phi)) = u^n by complex multiplication [cis_pow] (De Moivre; proved over
   R in Proofs/C18_Real.v).  rn = (x^2+y^2)^(E/2) is r^E.  Everything is over a field K given by its operations,
   so the same definitions run at Q and are reasoned about over any field.
   Results: Err cls | Ok None (numpy division by zero or NaN input: a non-finite complex) | Ok (Some (re, im)).
   Not modelled: float rounding; NaN/inf coordinates. *)
From Coq Require Import List ZArith Bool String.
From SX Require Import Lib.KRing Lib.Py Gen.GenEcc.
Import ListNotations.

Section Ecc.
  Variable K : Type.
  Variables (k0 k1 : K) (kadd kmul ksub kdiv : K -> K -> K) (kopp : K -> K).
  Variable kis0 : K -> bool.

  (* a point as the loop body sees it: x, y, the radius, the weight (None = NaN) *)
  Record pt := { px : K; py : K; pr : K; pw : option K }.

  Definition unitv (p : pt) : K * K :=
    if kis0 (pr p) then (k1, k0) else (kdiv (px p) (pr p), kdiv (py p) (pr p)).

  (* (c + i s)^n *)
  Fixpoint cis_pow (c s : K) (n : nat) : K * K :=
    match n with
    | O => (k1, k0)
    | S n' => let '(cn, sn) := cis_pow c s n' in (ksub (kmul c cn) (kmul s sn), kadd (kmul c sn) (kmul s cn))
    end.

  (* the generated pieces of one variant *)
  Record body := { b_real : K -> K -> K -> K -> K; b_imag : K -> K -> K -> K -> K; b_norm : K -> K -> K -> K -> K;
                   b_re : K -> K -> K -> K; b_im : K -> K -> K -> K }.
  Definition body_particles : body :=
    {| b_real := gen_real_term_particles K kmul; b_imag := gen_imag_term_particles K kmul;
       b_norm := gen_norm_term_particles K kmul;
       b_re := gen_result_re_particles K kdiv kopp; b_im := gen_result_im_particles K kdiv kopp |}.
  Definition body_lattice : body :=
    {| b_real := gen_real_term_lattice K kmul; b_imag := gen_imag_term_lattice K kmul;
       b_norm := gen_norm_term_lattice K kmul;
       b_re := gen_result_re_lattice K kdiv kopp; b_im := gen_result_im_lattice K kdiv kopp |}.

  (* one pass of the loop: real_eps, imag_eps, norm *)
  Definition step (B : body) (E n : nat) (a : K * K * K) (pw_ : pt * K) : K * K * K :=
    let '(re, im, nrm) := a in
    let '(p, w) := pw_ in
    let rn := kpow k1 kmul (pr p) E in
    let '(c, s) := unitv p in
    let '(cn, sn) := cis_pow c s n in
    (kadd re (b_real B rn cn sn w), kadd im (b_imag B rn cn sn w), kadd nrm (b_norm B rn cn sn w)).

  Fixpoint weights (pts : list pt) : option (list (pt * K)) :=
    match pts with
    | [] => Some []
    | p :: t => match pw p, weights t with Some w, Some r => Some ((p, w) :: r) | _, _ => None end
    end.

  (* the loop and the return; an empty event divides the Python floats 0.0/0.0 *)
  Definition ecc_core (B : body) (E n : nat) (pts : list pt) : result (option (K * K)) :=
    match pts with
    | [] => Err ZeroDivisionError
    | _ => match weights pts with
           | None => Ok None
           | Some l => let '(re, im, nrm) := fold_left (step B E n) l (k0, k0, k0) in
                       if kis0 nrm then Ok None else Ok (Some (b_re B re im nrm, b_im B re im nrm))
           end
    end.

  (* ---- eccentricity_from_particles ------------------------------------------------------------------------ *)
  Record pobs := { ox : K; oy : K; orad : K; oattr : string -> option K }.

  Fixpoint lookup {A} (key : string) (l : list (string * A)) : option A :=
    match l with [] => None | (k, v) :: t => if String.eqb k key then Some v else lookup key t end.

  Definition to_pt (sel : wsel) (o : pobs) : pt :=
    {| px := ox o; py := oy o; pr := orad o;
       pw := match sel with WOne => Some k1 | WAttr a => oattr o a end |}.

  Definition arg_check (nmin mmin n : Z) (m : option Z) : bool :=
    (n <? nmin)%Z || match m with Some v => (v <? mmin)%Z | None => false end.

  Definition ecc_from_particles (n : Z) (m : option Z) (weight_quantity : string) (ps : list pobs)
    : result (option (K * K)) :=
    if arg_check gen_n_min_particles gen_m_min_particles n m then Err ValueError else
    match ps with
    | [] => Err ZeroDivisionError                       (* nothing of the loop body runs *)
    | _ =>
      match lookup weight_quantity gen_weight_table with
      | None => Err ValueError
      | Some sel =>
        rbind (gen_rpow_particles n m) (fun E =>
          ecc_core body_particles (Z.to_nat E) (Z.to_nat n) (map (to_pt sel) ps))
      end
    end.

  (* ---- eccentricity_from_lattice: every node (all z), weight = node value ---------------------------------- *)
  Definition nodes (xs ys : list K) (nz : nat) (rad : K -> K -> K) (dens : nat -> nat -> nat -> K) : list pt :=
    flat_map (fun i => flat_map (fun j => map (fun k =>
      let x := nth i xs k0 in let y := nth j ys k0 in
      {| px := x; py := y; pr := rad x y; pw := Some (dens i j k) |}) (seq 0 nz)) (seq 0 (List.length ys))) (seq 0 (List.length xs)).

  Definition ecc_from_lattice (n : Z) (m : option Z) (xs ys : list K) (nz : nat) (rad : K -> K -> K)
             (dens : nat -> nat -> nat -> K) : result (option (K * K)) :=
    if arg_check gen_n_min_lattice gen_m_min_lattice n m then Err ValueError else
    match nodes xs ys nz rad dens with
    | [] => Err ZeroDivisionError
    | pts => rbind (gen_rpow_lattice n m) (fun E => ecc_core body_lattice (Z.to_nat E) (Z.to_nat n) pts)
    end.
End Ecc.
Arguments px {K}. Arguments py {K}. Arguments pr {K}. Arguments pw {K}.
Arguments ox {K}. Arguments oy {K}. Arguments orad {K}. Arguments oattr {K}.
Arguments b_real {K}. Arguments b_imag {K}. Arguments b_norm {K}. Arguments b_re {K}. Arguments b_im {K}.

(* executable instance: Q in lowest terms *)
From Coq Require Import QArith.
Definition eadd x y := Qred (Qplus x y).
Definition emul x y := Qred (Qmult x y).
Definition esub x y := Qred (Qminus x y).
Definition ediv x y := Qred (Qdiv x y).
Definition eis0 (x : Q) : bool := Qeq_bool x 0.
Definition q_ecc_from_particles := ecc_from_particles Q 0%Q 1%Q eadd emul esub ediv Qopp eis0.
Definition q_ecc_from_lattice := ecc_from_lattice Q 0%Q 1%Q eadd emul esub ediv Qopp eis0.

(* Runtime additions for tools/py2coq/gen_jets_rest.py (Gen/GenJetsRest.v) - definitions only, next to Model/JetsRt.v.
   The fixed, trusted reading of the Python / fastjet primitives that the getters of JetAnalysis and the algorithm
   dispatch of perform_jet_finding use and that JetsRt.v does not have.  Every fastjet statement below was observed on
   the installed fastjet (python bindings 3.5.1.4):

   * [mapE]: a list comprehension whose element may raise (the first failing element, in list order, ends it);
     [py_slice_from l i] = l[i:]
   * exceptions: [xexn] = the classes of JetsRt.v plus fastjet's own FastJetError (derived from Exception, unrelated to
     the builtin classes); [xres], [xloopE], [xloopF] as pyres / loopE / loopF of JetsRt.v over it
   * a `jet_algorithm` argument: the members of fastjet.JetAlgorithm are Python ints (kt 0, cambridge 1, antikt 2,
     genkt 3, cambridge_for_passive 11, genkt_for_passive 13, ee_kt 50, ee_genkt 53, plugin 99, undefined 999), so the
     argument is [AInt n]; [AOther] is a value that is no int and compares unequal to every int (None, a str, ...);
     a float is not modelled.  `jet_algorithm == fj.<name>` is [alg_is]
   * fj.JetDefinition(alg, R[, p]): the wrapper wants a C int (TypeError otherwise); fastjet then compares the number of
     parameters given (1 or 2) with the number the algorithm takes (ee_kt 0, genkt / ee_genkt 2, every other value 1)
     and raises FastJetError on a mismatch; otherwise the definition is the record of its arguments [xjetdef]
   * str(jet_definition) (what print calls): FastJetError for an algorithm without a description, i.e. every int except
     kt, cambridge, antikt, genkt, cambridge_for_passive, ee_kt, ee_genkt, undefined
   * fj.ClusterSequence(momenta, definition): FastJetError unless the algorithm is one fastjet runs natively
     (kt, cambridge, antikt, genkt, cambridge_for_passive, ee_kt, ee_genkt); else the record [xcseq]
   * plugin_algorithm (99): a definition built this way has no plugin; describing or running it ends the interpreter
     (no exception).  This is NOT modelled: the theorems about this file assume the argument is not 99
   * cluster.inclusive_jets(ptmin) = the oracle's jets for that definition and input (all inclusive jets, sorted by pT)
     with pT >= ptmin (on squares, Model/Jets.v pt_ge) *)
From Coq Require Import List ZArith QArith Bool String.
From SX Require Import Model.Jets Model.JetsRt.
Import ListNotations.

(* ---- Python lists -------------------------------------------------------------------------------------------- *)
(* [f(x) for x in l] where f may raise *)
Fixpoint mapE {A B} (f : A -> pyres B) (l : list A) : pyres (list B) :=
  match l with
  | [] => POk []
  | a :: t => match f a with
              | PErr e => PErr e
              | POk b => match mapE f t with PErr e => PErr e | POk r => POk (b :: r) end
              end
  end.
(* l[i:] : a negative start counts from the end (clamped at 0), a start beyond the end gives [] *)
Definition py_slice_from {A} (l : list A) (i : Z) : list A :=
  if (i <? 0)%Z then skipn (Z.to_nat (Z.max 0 (i + zlen l))) l else skipn (Z.to_nat i) l.

(* ---- exceptions including fastjet's ----------------------------------------------------------------------------- *)
Inductive xexn := XPy (e : pyexn) | FastJetError.
Inductive xres (A : Type) := XOk (a : A) | XErr (e : xexn).
Arguments XOk {A}. Arguments XErr {A}.

Fixpoint xloopE {A S} (body : S -> A -> xres S) (l : list A) (s : S) : xres S :=
  match l with
  | [] => XOk s
  | a :: t => match body s a with XErr e => XErr e | XOk s' => xloopE body t s' end
  end.
Fixpoint xloopF {A S} (body : file -> S -> A -> file * xres S) (l : list A) (fs : file) (s : S) : file * xres S :=
  match l with
  | [] => (fs, XOk s)
  | a :: t => match body fs s a with
              | (fs', XErr e) => (fs', XErr e)
              | (fs', XOk s') => xloopF body t fs' s'
              end
  end.

(* ---- fastjet.JetAlgorithm ----------------------------------------------------------------------------------------- *)
Inductive pyalg := AInt (n : Z) | AOther.
Definition fj_kt_algorithm : Z := 0.
Definition fj_cambridge_algorithm : Z := 1.
Definition fj_cambridge_aachen_algorithm : Z := 1.
Definition fj_antikt_algorithm : Z := 2.
Definition fj_genkt_algorithm : Z := 3.
Definition fj_cambridge_for_passive_algorithm : Z := 11.
Definition fj_genkt_for_passive_algorithm : Z := 13.
Definition fj_ee_kt_algorithm : Z := 50.
Definition fj_ee_genkt_algorithm : Z := 53.
Definition fj_plugin_algorithm : Z := 99.
Definition fj_undefined_jet_algorithm : Z := 999.
(* a == fj.<name> *)
Definition alg_is (a : pyalg) (c : Z) : bool := match a with AInt n => (n =? c)%Z | AOther => false end.

Definition c_int (n : Z) : bool := ((-2147483648 <=? n) && (n <=? 2147483647))%Z.
Definition fj_n_parameters (n : Z) : Z :=
  if (n =? fj_ee_kt_algorithm)%Z then 0%Z
  else if ((n =? fj_genkt_algorithm) || (n =? fj_ee_genkt_algorithm))%Z then 2%Z else 1%Z.
(* the algorithms fastjet itself runs and describes *)
Definition fj_native (n : Z) : bool :=
  existsb (Z.eqb n) [fj_kt_algorithm; fj_cambridge_algorithm; fj_antikt_algorithm; fj_genkt_algorithm;
                     fj_cambridge_for_passive_algorithm; fj_ee_kt_algorithm; fj_ee_genkt_algorithm].

Record xjetdef := XJetDefinition { xjd_alg : Z; xjd_R : Q; xjd_extra : option Q }.
Record xcseq := XClusterSequence { xcs_in : list vec4; xcs_def : xjetdef }.

Definition fjx_JetDefinition (a : pyalg) (R : Q) (extra : option Q) : xres xjetdef :=
  match a with
  | AOther => XErr (XPy TypeError)
  | AInt n =>
    if negb (c_int n) then XErr (XPy TypeError)
    else if (fj_n_parameters n =? (match extra with None => 1 | Some _ => 2 end))%Z
         then XOk (XJetDefinition n R extra) else XErr FastJetError
  end.
(* str(definition), as print evaluates it *)
Definition fjx_description (d : xjetdef) : xres unit :=
  if fj_native (xjd_alg d) || (xjd_alg d =? fj_undefined_jet_algorithm)%Z then XOk tt else XErr FastJetError.
Definition fjx_ClusterSequence (l : list vec4) (d : xjetdef) : xres xcseq :=
  if fj_native (xjd_alg d) then XOk (XClusterSequence l d) else XErr FastJetError.

Section FjX.
  (* clusterx definition momenta = ClusterSequence(momenta, definition).inclusive_jets(0.0) sorted by pT *)
  Variable clusterx : xjetdef -> list vec4 -> list vec4.
  Definition fjx_inclusive_jets (c : xcseq) (ptmin : ext) : list vec4 :=
    filter (fun j => pt_ge j ptmin) (clusterx (xcs_def c) (xcs_in c)).
End FjX.

(* Hand model of OscarLoader.load / Oscar.__init__ (no filters argument is interpreted here: the
   per-event constructor filter is an arbitrary function [flt]) and of
   Particle.__initialize_from_array for the Oscar/ASCII formats, over the tables regenerated from
   the source (Gen/GenParticleMap.v).  A file is the list of its lines, a line the list of its
   blank-separated tokens.  No proofs in this file. *)
From Coq Require Import List String ZArith QArith Bool Arith.
From SX Require Import Lib.Strs Gen.GenParticleMap.
Import ListNotations.
Local Open Scope string_scope.

Inductive err := TypeError | ValueError | IndexError | KeyError | OtherError.
Inductive result (A : Type) := Ok (a : A) | Err (e : err).
Arguments Ok {A}. Arguments Err {A}.
Definition bind {A B} (r : result A) (f : A -> result B) : result B :=
  match r with Ok a => f a | Err e => Err e end.
Notation "x <- r ;; k" := (bind r (fun x => k)) (at level 61, r at next level, right associativity).

Definition line := list string.

(* ---------------------------------------------------------------- particles *)
Definition particle := list (option Q).          (* the 25 data_ slots; None = NaN *)
Definition blank : particle :=
  (repeat None 10 ++ [Some 0%Q] ++ repeat None 14)%list.  (* pdg_valid (slot 10) starts as False *)
Fixpoint set_slot (i : nat) (v : option Q) (p : particle) : particle :=
  match p, i with
  | [], _ => []
  | _ :: t, O => v :: t
  | x :: t, S j => x :: set_slot j v t
  end.
Definition get_slot (i : nat) (p : particle) : option Q := nth i p None.

Section Loader.
  Variable tok_float : string -> option Q.   (* Python float(token); None = ValueError *)
  Variable tok_int : string -> option Q.     (* Python int(token), as the float it is stored as *)
  Variable pdg_valid : Q -> bool.            (* PDGID(pdg).is_valid  (third-party `particle` package) *)

  (* first occurrence wins (dict insertion order, list.index) *)
  Fixpoint ascii_mapping (attrs all : list string) (seen : list string)
    : result (list (string * (nat * nat))) :=
    match attrs with
    | [] => Ok []
    | a :: t =>
      match assoc "Allfields" gen_mapping with
      | None => Err KeyError
      | Some allf =>
        match assoc a allf with
        | None => Err KeyError
        | Some (slot, _) =>
          rest <- ascii_mapping t all (a :: seen) ;;
          if mem_str a seen then Ok rest
          else match index_of a all with
               | Some i => Ok ((a, (slot, i)) :: rest)
               | None => Err ValueError
               end
        end
      end
    end.

  Definition mapping_of (fmt : string) (attrs : list string) : result (list (string * (nat * nat))) :=
    if fmt =? "ASCII" then ascii_mapping attrs attrs []
    else match assoc fmt gen_mapping with Some m => Ok m | None => Err ValueError end.

  Definition cast (attr : string) (tok : string) : option Q :=
    if mem_str attr gen_float_fields then tok_float tok else tok_int tok.

  Fixpoint fill (ascii : bool) (m : list (string * (nat * nat))) (toks : list string) (p : particle)
    : result particle :=
    match m with
    | [] => Ok p
    | (attr, (slot, col)) :: t =>
      if (List.length toks <=? col)%nat then fill ascii t toks p
      else
        let attr' := if ascii then attr ++ "_" else attr in
        match cast attr' (nth col toks "") with
        | Some v => fill ascii t toks (set_slot slot (Some v) p)
        | None => Err ValueError
        end
    end.

  Definition set_pdg_valid (p : particle) : particle :=
    match get_slot 9 p with
    | None => set_slot 10 (Some 0%Q) p
    | Some pdg => set_slot 10 (Some (if pdg_valid pdg then 1 else 0)%Q) p
    end.

  (* Particle(format, tokens[, attribute_list]) for the Oscar family *)
  Definition mk_particle (fmt : string) (attrs : list string) (toks : list string) : result particle :=
    m <- mapping_of fmt attrs ;;
    let n := List.length toks in
    let lm := List.length m in
    let ok := (fmt =? "ASCII") || (n =? lm)%nat
              || (mem_str fmt gen_relaxed_formats && (n <=? lm)%nat && (lm - gen_relax_slack <=? n)%nat) in
    if ok then (p <- fill (fmt =? "ASCII") m toks blank ;; Ok (set_pdg_valid p))
    else Err ValueError.

  (* ---------------------------------------------------------------- line kinds *)
  Inductive loopkind := KSkip | KEnd | KBad | KRow.
  Definition kind_loop (l : line) : loopkind :=
    if has "event" l && (has "out" l || has_suffix_sp "in" l || has_sp_prefix "start" l) then KSkip
    else if has "#" l && has "end" l then KEnd
    else if has "#" l then KBad
    else KRow.

  Inductive scankind := SEnd | SOut | SOther.
  Definition kind_scan (l : line) : scankind :=
    if has "#" l && has_mid "end" l then SEnd
    else if has "#" l && has_mid "out" l then SOut
    else SOther.

  (* ---------------------------------------------------------------- format sniffing *)
  Definition custom_attrs (header : list string) : list string :=
    flat_map (fun h => match assoc h gen_attr_map with Some a => [a] | None => [] end) header.

  Definition oscar_format (first : line) : result (string * list string) :=
    let t0 := nth 0 first "" in
    let t1 := nth 1 first "" in
    if (List.length first =? 15)%nat || (t0 =? "#!OSCAR2013") then Ok ("Oscar2013", [])
    else if (t0 =? "#!OSCAR2013Extended") && (List.length first <? 2)%nat then Err IndexError
    else if (t0 =? "#!OSCAR2013Extended") && (t1 =? "SMASH_IC") then Ok ("Oscar2013Extended_IC", [])
    else if (t0 =? "#!OSCAR2013Extended") && (t1 =? "Photons") then Ok ("Oscar2013Extended_Photons", [])
    else if (List.length first =? 23)%nat || (t0 =? "#!OSCAR2013Extended") then Ok ("Oscar2013Extended", [])
    else if (t0 =? "#!ASCII") then Ok ("ASCII", custom_attrs (skipn 2 first))
    else Err TypeError.

  (* ---------------------------------------------------------------- set_num_events *)
  Definition to_Z (q : Q) : Z := Qnum q.     (* tok_int yields integers: denominator 1 *)
  Definition num_events_of (last : line) : result Z :=
    (* the raw last line keeps its newline on the final token, which therefore never equals "event" *)
    if (nth 0 last "" =? "#") && (2 <=? List.length last)%nat && mem_str "event" (removelast_s last) then
      match nth_error last 2 with
      | None => Err IndexError
      | Some t => match tok_int t with Some v => Ok (to_Z v + 1)%Z | None => Err ValueError end
      end
    else Err TypeError.

  (* ---------------------------------------------------------------- header scan (standard formats) *)
  Fixpoint scan (ls : list line) : result (list (Z * Z) * list line) :=
    match ls with
    | [] => Ok ([], [])
    | l :: t =>
      match kind_scan l with
      | SEnd => r <- scan t ;; Ok (fst r, l :: snd r)
      | SOut =>
        match nth_error l 2, nth_error l 4 with
        | Some e, Some c =>
          match tok_int e, tok_int c with
          | Some ev, Some cn => r <- scan t ;; Ok ((to_Z ev, to_Z cn) :: fst r, snd r)
          | _, _ => Err ValueError
          end
        | _, _ => Err IndexError
        end
      | SOther => scan t
      end
    end.

  (* ---------------------------------------------------------------- event selection *)
  Inductive selector := SelAll | SelOne (k : Z) | SelRange (a b : Z).

  Definition zcount (counts : list (Z * Z)) (i : nat) : result Z :=
    match nth_error counts i with Some c => Ok (snd c) | None => Err IndexError end.

  Fixpoint sum_counts (counts : list (Z * Z)) (from n : nat) : result Z :=
    match n with
    | O => Ok 0%Z
    | S m => c <- zcount counts from ;; r <- sum_counts counts (S from) m ;; Ok (c + 2 + r)%Z
    end.

  Definition num_skip (sel : selector) (counts : list (Z * Z)) : result Z :=
    match sel with
    | SelAll => Ok 3%Z
    | SelOne k => r <- sum_counts counts 0 (Z.to_nat k) ;; Ok (3 + r)%Z
    | SelRange a _ => r <- sum_counts counts 0 (Z.to_nat a) ;; Ok (3 + r)%Z
    end.

  Definition num_read (sel : selector) (counts : list (Z * Z)) : result Z :=
    match sel with
    | SelAll => match counts with
                | [] => Err IndexError
                | _ => Ok (fold_right (fun c acc => snd c + acc) 0 counts + 2 * Z.of_nat (List.length counts))%Z
                end
    | SelOne k => c <- zcount counts (Z.to_nat k) ;; Ok (c + 2)%Z
    | SelRange a b => sum_counts counts (Z.to_nat a) (Z.to_nat (b - a + 1))
    end.

  (* ---------------------------------------------------------------- read loop *)
  (* the constructor filter applied to one event; None = no `filters` argument *)
  Variable flt : option (list particle -> list particle).

  Fixpoint delete_row {A} (i : nat) (l : list A) : list A :=
    match l, i with
    | [], _ => []
    | _ :: t, O => t
    | x :: t, S j => x :: delete_row j t
    end.
  Fixpoint set_row {A} (i : nat) (v : A) (l : list A) : result (list A) :=
    match l, i with
    | [], _ => Err IndexError
    | _ :: t, O => Ok (v :: t)
    | x :: t, S j => r <- set_row j v t ;; Ok (x :: r)
    end.
  Definition dec_labels_from (i : nat) (l : list (Z * Z)) : list (Z * Z) :=
    (firstn i l ++ map (fun c => (fst c - 1, snd c)%Z) (skipn i l))%list.

  Definition slice {A} (from n : nat) (l : list A) : list A := firstn n (skipn from l).

  (* the count rows of the events that are read, and the label of the first of them *)
  Definition sel_counts (sel : selector) (cnts : list (Z * Z)) : list (Z * Z) :=
    match sel with
    | SelAll => cnts
    | SelOne k => slice (Z.to_nat k) 1 cnts
    | SelRange a b => slice (Z.to_nat a) (Z.to_nat (b - a + 1)) cnts
    end.
  Definition sel_first (sel : selector) : Z :=
    match sel with SelAll => 0 | SelOne k => k | SelRange a _ => a end%Z.

  Record lstate := { plist : list (list particle); data : list particle;
                     counts : list (Z * Z); cut : Z }.

  (* [first]: label of the first event that is read (0 unless an event selection is given) *)
  Definition close_event (first : Z) (st : lstate) : result lstate :=
    let old := List.length (data st) in
    let k := List.length (plist st) in
    let d := match flt with Some f => f (data st) | None => data st end in
    c' <- match flt with
          | None => Ok (counts st)
          | Some _ =>
            if negb (List.length d =? 0)%nat || (old =? 0)%nat
            then set_row k (first + Z.of_nat k, Z.of_nat (List.length d))%Z (counts st)
            else if (k <? List.length (counts st))%nat
                 then Ok (dec_labels_from k (delete_row k (counts st)))
                 else Err IndexError
          end ;;
    if negb (List.length d =? 0)%nat || (old =? 0)%nat
    then Ok {| plist := (plist st ++ [d])%list; data := []; counts := c'; cut := cut st |}
    else Ok {| plist := plist st; data := []; counts := c'; cut := (cut st + 1)%Z |}.

  Fixpoint read_loop (first : Z) (fmt : string) (attrs : list string) (n : nat) (ls : list line) (st : lstate)
    : result lstate :=
    match n with
    | O => Ok st
    | S m =>
      match ls with
      | [] => Err IndexError                       (* readline() returned '' *)
      | l :: t =>
        match kind_loop l with
        | KSkip => read_loop first fmt attrs m t st
        | KEnd => st' <- close_event first st ;; read_loop first fmt attrs m t st'
        | KBad => Err ValueError
        | KRow =>
          p <- mk_particle fmt attrs l ;;
          read_loop first fmt attrs m t {| plist := plist st; data := (data st ++ [p])%list; counts := counts st; cut := cut st |}
        end
      end
    end.


  Record loaded := { l_events : list (list particle); l_nevents : Z; l_counts : list (Z * Z);
                     l_format : string; l_attrs : list string; l_footers : list line }.

  (* OscarLoader.load on a file given as its lines (every line newline-terminated) *)
  Definition load (file : list line) (sel : selector) : result loaded :=
    match file with
    | [] => Err OtherError
    | first :: _ =>
      fa <- oscar_format first ;;
      let fmt := fst fa in let attrs := snd fa in
      (* the header scans of the IC / Photons variants are not modelled *)
      _ <- (if (fmt =? "Oscar2013Extended_IC") || (fmt =? "Oscar2013Extended_Photons") then Err OtherError else Ok tt) ;;
      nev <- num_events_of (last file []) ;;
      sc <- scan file ;;
      let cnts := fst sc in
      ns <- num_skip sel cnts ;;
      nr <- num_read sel cnts ;;
      let body := skipn (Z.to_nat ns) file in
      (* first line read must look like an event header *)
      first_ok <- match body, Z.to_nat nr with
                  | l0 :: _, S _ => if negb (has "#" l0) && negb (has "out" l0) then Err ValueError else Ok tt
                  | _, _ => Ok tt
                  end ;;
      st <- read_loop (sel_first sel) fmt attrs (Z.to_nat nr) body
              {| plist := []; data := []; counts := sel_counts sel cnts; cut := 0 |} ;;
      let nev' := (nev - cut st)%Z in
      fin <- match sel with
             | SelAll => if (Z.of_nat (List.length (plist st)) =? nev')%Z then Ok (nev', counts st) else Err IndexError
             | _ => Ok (Z.of_nat (List.length (plist st)), counts st)
             end ;;
      Ok {| l_events := match plist st with [] => [[]] | pl => pl end;
            l_nevents := fst fin; l_counts := snd fin; l_format := fmt; l_attrs := attrs;
            l_footers := snd sc |}
    end.

  (* the same loader on a file whose last line is NOT newline-terminated (a truncated file): the only
     difference is that the raw last line then carries no newline on its final token *)
  Definition num_events_of_nonl (last : line) : result Z :=
    if (nth 0 last "" =? "#") && mem_str "event" last then
      match nth_error last 2 with
      | None => Err IndexError
      | Some t => match tok_int t with Some v => Ok (to_Z v + 1)%Z | None => Err ValueError end
      end
    else Err TypeError.

  Definition load_nonl (file : list line) (sel : selector) : result loaded :=
    match file with
    | [] => Err OtherError
    | [_] => Err OtherError                       (* no newline in the file at all: the backward seek fails *)
    | first :: _ =>
      fa <- oscar_format first ;;
      let fmt := fst fa in let attrs := snd fa in
      _ <- (if (fmt =? "Oscar2013Extended_IC") || (fmt =? "Oscar2013Extended_Photons") then Err OtherError else Ok tt) ;;
      nev <- num_events_of_nonl (last file []) ;;
      sc <- scan file ;;
      let cnts := fst sc in
      ns <- num_skip sel cnts ;;
      nr <- num_read sel cnts ;;
      let body := skipn (Z.to_nat ns) file in
      first_ok <- match body, Z.to_nat nr with
                  | l0 :: _, S _ => if negb (has "#" l0) && negb (has "out" l0) then Err ValueError else Ok tt
                  | _, _ => Ok tt
                  end ;;
      st <- read_loop (sel_first sel) fmt attrs (Z.to_nat nr) body
              {| plist := []; data := []; counts := sel_counts sel cnts; cut := 0 |} ;;
      let nev' := (nev - cut st)%Z in
      fin <- match sel with
             | SelAll => if (Z.of_nat (List.length (plist st)) =? nev')%Z then Ok (nev', counts st) else Err IndexError
             | _ => Ok (Z.of_nat (List.length (plist st)), counts st)
             end ;;
      Ok {| l_events := match plist st with [] => [[]] | pl => pl end;
            l_nevents := fst fin; l_counts := snd fin; l_format := fmt; l_attrs := attrs;
            l_footers := snd sc |}
    end.

  (* Oscar.impact_parameters(): float(filter(None, footer.split(" "))[-3]), re-indexed by the labels *)
  Definition impact_of (footer : line) : result Q :=
    let ne := filter (fun s => negb (s =? "")) footer in
    match nth_error (rev ne) 2 with
    | Some t => match tok_float t with Some v => Ok v | None => Err ValueError end
    | None => Err IndexError
    end.
  Fixpoint mapr {A B} (f : A -> result B) (l : list A) : result (list B) :=
    match l with [] => Ok [] | x :: t => y <- f x ;; r <- mapr f t ;; Ok (y :: r) end.
  Definition impact_parameters (ld : loaded) : result (list Q) :=
    imps <- mapr impact_of (l_footers ld) ;;
    mapr (fun c => match nth_error imps (Z.to_nat (fst c)) with Some v => Ok v | None => Err IndexError end)
         (l_counts ld).
End Loader.

(* ------------------------------------------------------------------ comparison with the implementation
   (used by the generated correspondence cases only) *)
Definition oq_eqb (a b : option Q) : bool :=
  match a, b with Some x, Some y => Qeq_bool x y | None, None => true | _, _ => false end.
Fixpoint list_eqb {A} (e : A -> A -> bool) (l1 l2 : list A) : bool :=
  match l1, l2 with
  | [], [] => true
  | x :: t, y :: u => e x y && list_eqb e t u
  | _, _ => false
  end.
Definition err_eqb (a b : err) : bool :=
  match a, b with
  | TypeError, TypeError | ValueError, ValueError | IndexError, IndexError
  | KeyError, KeyError | OtherError, OtherError => true
  | _, _ => false
  end.
Definition zz_eqb (a b : Z * Z) : bool := (fst a =? fst b)%Z && (snd a =? snd b)%Z.

(* what the harness observed on the real object *)
Inductive observed :=
| ObsErr (e : err)
| ObsOk (events : list (list particle)) (nevents : Z) (counts : list (Z * Z)) (fmt : string)
        (attrs : list string) (impacts : list Q).

Definition check_oscar (tf ti : string -> option Q) (pv : Q -> bool) (file : list line) (sel : selector)
           (obs : observed) : nat :=
  let r := ld <- load tf ti pv None file sel ;; imps <- impact_parameters tf ld ;; Ok (ld, imps) in
  match r, obs with
  | Err e, ObsErr e' => if err_eqb e e' then 0 else 2
  | Ok (ld, imps), ObsOk ev n c f a im =>
    if negb (list_eqb (list_eqb (list_eqb oq_eqb)) (l_events ld) ev) then 3
    else if negb (l_nevents ld =? n)%Z then 4
    else if negb (list_eqb zz_eqb (l_counts ld) c) then 5
    else if negb (l_format ld =? f)%string then 6
    else if negb (list_eqb String.eqb (l_attrs ld) a) then 7
    else if negb (list_eqb Qeq_bool imps im) then 8
    else 0
  | Ok _, ObsErr _ => 9
  | Err _, ObsOk _ _ _ _ _ _ => 10
  end%nat.

(* C07: file possibly without final newline; Err classes are compared loosely (any error = detected) *)
Definition check_damaged (tf ti : string -> option Q) (pv : Q -> bool) (nl : bool) (file : list line)
           (obs : observed) : nat :=
  let ldr := if nl then load tf ti pv None file SelAll else load_nonl tf ti pv None file SelAll in
  let r := ld <- ldr ;; imps <- impact_parameters tf ld ;; Ok (ld, imps) in
  match r, obs with
  | Err e, ObsErr e' => if err_eqb e e' then 0 else 1
  | Ok (ld, imps), ObsOk ev n c f a im =>
    if negb (list_eqb (list_eqb (list_eqb oq_eqb)) (l_events ld) ev) then 3
    else if negb (l_nevents ld =? n)%Z then 4
    else if negb (list_eqb zz_eqb (l_counts ld) c) then 5
    else if negb (list_eqb Qeq_bool imps im) then 8
    else 0
  | Ok _, ObsErr _ => 9
  | Err _, ObsOk _ _ _ _ _ _ => 10
  end%nat.

Definition table (t : list (string * option Q)) : string -> option Q :=
  fun s => match assoc s t with Some v => v | None => None end.
Definition pvtable (t : list (Q * bool)) : Q -> bool :=
  fun q => match find (fun e => Qeq_bool (fst e) q) t with Some e => snd e | None => false end.

(* Python run-time fragment used by the code generated from Filter.py and from the loaders'
   dispatch chains (tools/py2coq/gen_filters.py, gen_dispatch.py).  Definitions only.

   - exceptions are results [Err cls]; [Err Unmodelled] marks inputs on which this model does not
     claim to describe Python (string ordering, int("..."), numpy 0-d arrays, ...): no theorem
     concludes [Ok] through it and the correspondence skips such inputs explicitly.
   - a finite double is the rational it denotes; comparisons are IEEE (false on NaN).
   - a particle is what its accessors returned on the real object (observation record). *)
From Coq Require Import List ZArith QArith Qabs Bool String.
Import ListNotations.
Local Open Scope Z_scope.

Inductive exn := TypeError | ValueError | IndexError | KeyError | AttributeError
               | ZeroDivisionError | OverflowError | UnboundLocalError | NotImplementedError
               | Unmodelled.

Inductive result (A : Type) := Ok (a : A) | Err (e : exn).
Arguments Ok {A} a.
Arguments Err {A} e.

Definition bind {A B} (r : result A) (f : A -> result B) : result B :=
  match r with Ok a => f a | Err e => Err e end.
Notation "x <- a ;; b" := (bind a (fun x => b)) (at level 61, a at next level, right associativity).

(* ------------------------------------------------------------------ extended floats *)
Inductive Fval := Fin (q : Q) | PInf | NInf | NaN.

Definition fle (a b : Fval) : bool :=
  match a, b with
  | NaN, _ => false
  | _, NaN => false
  | NInf, _ => true
  | _, PInf => true
  | Fin x, Fin y => Qle_bool x y
  | _, _ => false
  end.

Definition flt (a b : Fval) : bool :=
  match a, b with
  | NaN, _ => false
  | _, NaN => false
  | NInf, NInf => false
  | NInf, _ => true
  | PInf, _ => false
  | Fin x, Fin y => negb (Qle_bool y x)
  | Fin _, PInf => true
  | Fin _, NInf => false
  end.

Definition feq (a b : Fval) : bool :=
  match a, b with
  | Fin x, Fin y => Qeq_bool x y
  | PInf, PInf => true
  | NInf, NInf => true
  | _, _ => false
  end.

Definition fisnan (a : Fval) : bool := match a with NaN => true | _ => false end.
Definition fneg (a : Fval) : Fval :=
  match a with Fin q => Fin (Qopp q) | PInf => NInf | NInf => PInf | NaN => NaN end.
Definition fabs (a : Fval) : Fval :=
  match a with Fin q => Fin (Qabs q) | PInf => PInf | NInf => PInf | NaN => NaN end.
Definition fadd (a b : Fval) : Fval :=
  match a, b with
  | NaN, _ => NaN
  | _, NaN => NaN
  | Fin x, Fin y => Fin (Qplus x y)
  | PInf, NInf => NaN
  | NInf, PInf => NaN
  | PInf, _ => PInf
  | _, PInf => PInf
  | NInf, _ => NInf
  | _, NInf => NInf
  end.
(* int(x) of a finite value: truncation towards zero *)
Definition qtrunc (q : Q) : Z := Z.quot (Qnum q) (Zpos (Qden q)).
Definition fofZ (z : Z) : Fval := Fin (inject_Z z).

(* ------------------------------------------------------------------ particles *)
Inductive mres := Ret (v : Fval) | Raises (e : exn).

(* accessors of sparkx.Particle the filters may read: properties (prefix A) and zero-argument methods (prefix M) *)
Inductive acc :=
| A_t | A_x | A_y | A_z | A_mass | A_E | A_px | A_py | A_pz | A_pdg | A_ID | A_charge | A_ncoll
| A_form_time | A_xsecfac | A_proc_id_origin | A_proc_type_origin | A_t_last_coll
| A_pdg_mother1 | A_pdg_mother2 | A_status | A_baryon_number | A_strangeness | A_weight
| M_rapidity | M_p_abs | M_pT_abs | M_phi | M_theta | M_pseudorapidity | M_spacetime_rapidity
| M_proper_time | M_mT | M_is_quark | M_is_lepton | M_is_meson | M_is_baryon | M_is_hadron
| M_is_heavy_flavor | M_has_down | M_has_up | M_has_strange | M_has_charm | M_has_bottom | M_has_top.

Record pobs := mkP { pid : Z ; obs : acc -> mres }.
Notation pevent := (list pobs) (only parsing).
Notation plist := (list (list pobs)) (only parsing).

(* ------------------------------------------------------------------ Python values (arguments) *)
Inductive pyv :=
| VNone
| VBool (b : bool)
| VInt (z : Z)
| VFloat (f : Fval)
| VStr (s : string)
| VNpInt (z : Z)            (* numpy integer scalar (np.int64) *)
| VNpFloat (f : Fval)       (* np.float64 (a subclass of float) *)
| VList (l : list pyv)
| VTuple (l : list pyv)
| VArr (l : list pyv)       (* 1-d numpy array; iterating yields numpy scalars *)
| VDict (d : list (string * pyv)).   (* insertion-ordered, string keys *)

Inductive ptype := T_str | T_int | T_float | T_list | T_tuple | T_dict | T_np_integer | T_np_ndarray | T_bool.

Definition isinstance1 (v : pyv) (t : ptype) : bool :=
  match v, t with
  | VBool _, T_int => true      (* bool is a subclass of int *)
  | VBool _, T_bool => true
  | VInt _, T_int => true
  | VFloat _, T_float => true
  | VNpFloat _, T_float => true (* np.float64 is a subclass of float *)
  | VStr _, T_str => true
  | VNpInt _, T_np_integer => true
  | VList _, T_list => true
  | VTuple _, T_tuple => true
  | VArr _, T_np_ndarray => true
  | VDict _, T_dict => true
  | _, _ => false
  end.
Definition py_isinstance (v : pyv) (ts : list ptype) : bool := existsb (isinstance1 v) ts.

Definition num_of (v : pyv) : option Fval :=
  match v with
  | VBool b => Some (fofZ (if b then 1 else 0))
  | VInt z => Some (fofZ z)
  | VNpInt z => Some (fofZ z)
  | VFloat f => Some f
  | VNpFloat f => Some f
  | _ => None
  end.
Definition int_of (v : pyv) : option Z :=
  match v with
  | VBool b => Some (if b then 1 else 0)
  | VInt z => Some z
  | VNpInt z => Some z
  | _ => None
  end.
Definition is_seq (v : pyv) : bool :=
  match v with VList _ | VTuple _ | VArr _ | VDict _ => true | _ => false end.
Definition py_is_none (v : pyv) : bool := match v with VNone => true | _ => false end.

(* <, <=, >, >= *)
Definition py_ord (op : Fval -> Fval -> bool) (a b : pyv) : result bool :=
  match num_of a, num_of b with
  | Some x, Some y => Ok (op x y)
  | _, _ => if is_seq a || is_seq b then Err Unmodelled
            else match a, b with VStr _, VStr _ => Err Unmodelled | _, _ => Err TypeError end
  end.
Definition py_le (a b : pyv) := py_ord fle a b.
Definition py_lt (a b : pyv) := py_ord flt a b.
Definition py_ge (a b : pyv) := py_ord (fun x y => fle y x) a b.
Definition py_gt (a b : pyv) := py_ord (fun x y => flt y x) a b.

Definition py_eq (a b : pyv) : result bool :=
  match int_of a, int_of b with
  | Some x, Some y => Ok (x =? y)       (* ints compare exactly *)
  | _, _ =>
  match num_of a, num_of b with
  | Some x, Some y => Ok (feq x y)
  | _, _ => if is_seq a || is_seq b then Err Unmodelled
            else match a, b with
                 | VStr s, VStr t => Ok (String.eqb s t)
                 | VNone, VNone => Ok true
                 | _, _ => Ok false
                 end
  end
  end.
Definition py_ne (a b : pyv) : result bool := c <- py_eq a b ;; Ok (negb c).

Fixpoint existsM {A} (f : A -> result bool) (l : list A) : result bool :=
  match l with
  | [] => Ok false
  | x :: t => b <- f x ;; if b then Ok true else existsM f t
  end.

Fixpoint lookup (k : string) (d : list (string * pyv)) : option pyv :=
  match d with
  | [] => None
  | (k', v) :: t => if String.eqb k k' then Some v else lookup k t
  end.

(* x in c *)
Definition py_in (x c : pyv) : result bool :=
  match c with
  | VList l | VTuple l | VArr l => existsM (fun e => py_eq x e) l
  | VDict d => match x with
               | VStr k => Ok (match lookup k d with Some _ => true | None => false end)
               | _ => Err Unmodelled
               end
  | VStr _ => Err Unmodelled
  | _ => Err TypeError
  end.
Definition py_not_in (x c : pyv) : result bool := b <- py_in x c ;; Ok (negb b).

Definition vlen {A} (l : list A) : pyv := VInt (Z.of_nat (List.length l)).
Definition py_len (v : pyv) : result pyv :=
  match v with
  | VList l | VTuple l | VArr l => Ok (vlen l)
  | VDict d => Ok (vlen d)
  | VStr s => Ok (VInt (Z.of_nat (String.length s)))
  | _ => Err TypeError
  end.

(* position addressed by index i in a sequence of length n (negative indices count from the end) *)
Definition py_index (n : nat) (i : pyv) : result nat :=
  match int_of i with
  | Some z => if (0 <=? z) && (z <? Z.of_nat n) then Ok (Z.to_nat z)
              else if (z <? 0) && (- Z.of_nat n <=? z) then Ok (Z.to_nat (Z.of_nat n + z))
              else Err IndexError
  | None => Err TypeError
  end.

Definition seq_get {A} (l : list A) (i : pyv) : result A :=
  k <- py_index (List.length l) i ;;
  match nth_error l k with Some e => Ok e | None => Err IndexError end.
Definition seq_set {A} (l : list A) (i : pyv) (e : A) : result (list A) :=
  k <- py_index (List.length l) i ;;
  Ok (firstn k l ++ e :: skipn (S k) l).

Definition py_getitem (v i : pyv) : result pyv :=
  match v with
  | VList l | VTuple l | VArr l => seq_get l i
  | VDict d => match i with
               | VStr k => match lookup k d with Some x => Ok x | None => Err KeyError end
               | _ => Err KeyError
               end
  | VStr _ => Err Unmodelled
  | _ => Err TypeError
  end.

Definition py_range (a b : pyv) : result (list pyv) :=
  match int_of a, int_of b with
  | Some x, Some y => Ok (map (fun k => VInt (x + Z.of_nat k)) (seq 0 (Z.to_nat (y - x))))
  | _, _ => Err TypeError
  end.
Definition py_enumerate {A} (l : list A) : list (pyv * A) :=
  combine (map (fun k => VInt (Z.of_nat k)) (seq 0 (List.length l))) l.

(* max(a, b) / min(a, b): the second argument replaces the first only if it is strictly greater / smaller *)
Definition py_max2 (a b : pyv) : result pyv := c <- py_gt b a ;; Ok (if c then b else a).
Definition py_min2 (a b : pyv) : result pyv := c <- py_lt b a ;; Ok (if c then b else a).

(* np.abs *)
Definition py_abs (v : pyv) : result pyv :=
  match v with
  | VInt z | VNpInt z => Ok (VNpInt (Z.abs z))
  | VFloat f | VNpFloat f => Ok (VNpFloat (fabs f))
  | VBool _ => Err Unmodelled
  | VNone | VStr _ => Err TypeError
  | _ => Err Unmodelled
  end.
Definition py_neg (v : pyv) : result pyv :=
  match v with
  | VInt z => Ok (VInt (- z))
  | VNpInt z => Ok (VNpInt (- z))
  | VFloat f => Ok (VFloat (fneg f))
  | VNpFloat f => Ok (VNpFloat (fneg f))
  | VBool b => Ok (VInt (if b then -1 else 0))
  | VArr _ => Err Unmodelled
  | _ => Err TypeError
  end.

Definition int_of_f (f : Fval) : result pyv :=
  match f with
  | Fin q => Ok (VInt (qtrunc q))
  | NaN => Err ValueError
  | _ => Err OverflowError
  end.
Definition py_int (v : pyv) : result pyv :=
  match v with
  | VBool b => Ok (VInt (if b then 1 else 0))
  | VInt z | VNpInt z => Ok (VInt z)
  | VFloat f | VNpFloat f => int_of_f f
  | VStr _ => Err Unmodelled
  | VArr _ => Err Unmodelled
  | _ => Err TypeError
  end.

(* np.isnan(scalar) *)
Definition py_isnan (v : pyv) : result bool :=
  match num_of v with
  | Some f => Ok (fisnan f)
  | None => if is_seq v then Err Unmodelled else Err TypeError
  end.
(* np.isnan(x).any() *)
Definition py_isnan_any (v : pyv) : result bool :=
  match v with
  | VList l | VTuple l | VArr l =>
      if forallb (fun e => match num_of e with Some _ => true | None => false end) l
      then Ok (existsb (fun e => match num_of e with Some f => fisnan f | None => false end) l)
      else if existsb is_seq l then Err Unmodelled else Err TypeError
  | VDict _ => Err TypeError
  | _ => py_isnan v
  end.

Definition in_int64 (z : Z) : bool := (- 9223372036854775808 <=? z) && (z <=? 9223372036854775807).
Definition to_int64 (v : pyv) : result pyv :=
  match v with
  | VBool b => Ok (VNpInt (if b then 1 else 0))
  | VInt z => if in_int64 z then Ok (VNpInt z) else Err OverflowError
  | VNpInt z => Ok (VNpInt z)
  | VFloat (Fin q) | VNpFloat (Fin q) => if in_int64 (qtrunc q) then Ok (VNpInt (qtrunc q)) else Err Unmodelled
  | VNone => Err TypeError
  | _ => Err Unmodelled
  end.
Fixpoint mapM {A B} (f : A -> result B) (l : list A) : result (list B) :=
  match l with
  | [] => Ok []
  | x :: t => y <- f x ;; r <- mapM f t ;; Ok (y :: r)
  end.
(* np.asarray(x, dtype=np.int64) *)
Definition py_asarray_int64 (v : pyv) : result pyv :=
  match v with
  | VList l | VTuple l | VArr l => r <- mapM to_int64 l ;; Ok (VArr r)
  | _ => Err Unmodelled
  end.

Definition py_truthy (v : pyv) : result bool :=
  match v with
  | VNone => Ok false
  | VBool b => Ok b
  | VInt z | VNpInt z => Ok (negb (z =? 0))
  | VFloat f | VNpFloat f => Ok (match f with Fin q => negb (Qeq_bool q 0) | _ => true end)
  | VStr s => Ok (negb (String.eqb s EmptyString))
  | VList l | VTuple l => Ok (match l with [] => false | _ => true end)
  | VDict d => Ok (match d with [] => false | _ => true end)
  | VArr _ => Err Unmodelled
  end.

Definition py_add (a b : pyv) : result pyv :=
  match a, b with
  | VArr _, _ | _, VArr _ => Err Unmodelled
  | _, _ =>
    match int_of a, int_of b with
    | Some x, Some y =>
        match a, b with
        | VNpInt _, _ | _, VNpInt _ => Ok (VNpInt (x + y))
        | _, _ => Ok (VInt (x + y))
        end
    | _, _ =>
        match num_of a, num_of b with
        | Some x, Some y => Ok (VFloat (fadd x y))
        | _, _ => match a, b with
                  | VStr _, VStr _ | VList _, VList _ | VTuple _, VTuple _ => Err Unmodelled
                  | _, _ => Err TypeError
                  end
        end
    end
  end.

Definition py_iter (v : pyv) : result (list pyv) :=
  match v with
  | VList l | VTuple l | VArr l => Ok l
  | VDict d => Ok (map (fun kv => VStr (fst kv)) d)
  | VStr _ => Err Unmodelled
  | _ => Err TypeError
  end.
Definition py_keys (v : pyv) : result pyv :=
  match v with
  | VDict d => Ok (VList (map (fun kv => VStr (fst kv)) d))
  | _ => Err AttributeError
  end.
Definition py_append (l x : pyv) : result pyv :=
  match l with
  | VList l => Ok (VList (l ++ [x]))
  | _ => Err AttributeError
  end.
Definition py_unbound {A} (o : option A) : result A :=
  match o with Some a => Ok a | None => Err UnboundLocalError end.

(* what an accessor returned on the real object *)
Definition get_obs (p : pobs) (a : acc) : result pyv :=
  match obs p a with Ret f => Ok (VFloat f) | Raises e => Err e end.

(* ------------------------------------------------------------------ control *)
Fixpoint fold_leftM {S A} (f : S -> A -> result S) (l : list A) (s : S) : result S :=
  match l with
  | [] => Ok s
  | x :: t => s' <- f s x ;; fold_leftM f t s'
  end.
(* [x for x in l if c(x)]: conditions evaluated left to right, the first exception aborts *)
Fixpoint filterM {A} (f : A -> result bool) (l : list A) : result (list A) :=
  match l with
  | [] => Ok []
  | x :: t => b <- f x ;; r <- filterM f t ;; Ok (if b then x :: r else r)
  end.
Definition andM (a b : result bool) : result bool := x <- a ;; if x then b else Ok false.
Definition orM (a b : result bool) : result bool := x <- a ;; if x then Ok true else b.
Definition notM (a : result bool) : result bool := x <- a ;; Ok (negb x).

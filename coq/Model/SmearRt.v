(* Runtime of the fragment in which tools/py2coq/gen_smear.py re-states the smearing methods of
   src/sparkx/Lattice3D.py (Gen/GenSmear.v) - executable definitions only, no proofs.
   Everything here is the fixed, trusted reading of the Python / numpy primitives the translated methods call; the
   methods themselves (statements, operators, constants, argument order, defaults) are regenerated from the source on
   every run and proved equal to Model/Smear.v (and to the addressing functions of Model/Lattice.v) in
   Proofs/Smear_Source.v.

   Numbers.  A Python float takes one of four shapes in the fragment:
     Q          a finite float used as a coordinate / extent / spacing (exact rational, rounding not modelled)
     fv         a float that may be +-inf or NaN (a particle's position and momentum): Fin q | PInf | NInf | NaN
     option K   a float that is a lattice VALUE (grid cell, kernel value, smeared quantity, cell volume) over the
                abstract carrier K of the C16 theorems; None is NaN.  [kofq] embeds a coordinate-type float into K
                (only the constructor needs it, for cell_volume_)
     Z          Python int
   Division of finite floats raises ZeroDivisionError on a zero divisor (Python float semantics; when an operand is a
   numpy scalar the real code produces inf/nan instead and the following round() raises - the theorems exclude a zero
   spacing by hypothesis, so no exception class is claimed there).
   numpy: an array of floats is a list; linspace, zeros, ndindex, argmin (first minimum, first NaN wins), abs,
   array-scalar subtraction have their documented semantics on lists; grid_ is [ndarr] (shape + cell function,
   indices -n <= i < n, negative ones count from the end, IndexError otherwise).
   scipy: the frozen multivariate normal is abstract (type KERN, oracles o_mvn / o_pdf of the generated file).
   warnings.warn has no effect on the modelled state. *)
From Coq Require Import List ZArith QArith Qabs Qround Bool String.
From SX Require Import Lib.Py Lib.QCheck.
Import ListNotations.

(* ---- control ------------------------------------------------------------------------------------------------ *)
(* for x in l: body   (loop-carried variables = the state; an exception leaves the loop) *)
Fixpoint foldM {S A} (f : S -> A -> result S) (l : list A) (s : S) : result S :=
  match l with
  | [] => Ok s
  | a :: t => match f s a with Ok s' => foldM f t s' | Err e => Err e end
  end.
(* `a and b` / `a or b` where evaluating an operand may raise: b is only evaluated when a does not decide *)
Definition andM (a b : result bool) : result bool := rbind a (fun x => if x then b else Ok false).
Definition orM (a b : result bool) : result bool := rbind a (fun x => if x then Ok true else b).
(* a value that may be None where a number is needed: Python raises TypeError *)
Definition opt_get {A} (o : option A) : result A := match o with Some a => Ok a | None => Err TypeError end.
Definition is_none {A} (o : option A) : bool := match o with None => true | Some _ => false end.

(* ---- ints ---------------------------------------------------------------------------------------------------- *)
Definition py_range (n : Z) : list Z := map Z.of_nat (seq 0 (Z.to_nat n)).
(* np.ndindex((a, b, c)): C order, last index fastest *)
Definition np_ndindex (s : Z * Z * Z) : list (Z * Z * Z) :=
  let '(a, b, c) := s in
  flat_map (fun i => flat_map (fun j => map (fun k => (i, j, k)) (py_range c)) (py_range b)) (py_range a).

(* ---- finite floats ------------------------------------------------------------------------------------------- *)
Definition q_ltb (a b : Q) : bool := negb (Qle_bool b a).
Definition q_div (a b : Q) : result Q := if Qeq_bool b 0 then Err ZeroDivisionError else Ok (a / b)%Q.
(* min(a, b) / max(a, b): the first argument unless the second is strictly smaller / larger *)
Definition py_min (a b : Q) : Q := if q_ltb b a then b else a.
Definition py_max (a b : Q) : Q := if q_ltb a b then b else a.
(* round(x): to nearest, ties to even *)
Definition py_round (x : Q) : Z :=
  let f := Qfloor x in
  match Qcompare (x - inject_Z f) (1 # 2) with
  | Lt => f
  | Gt => (f + 1)%Z
  | Eq => if Z.even f then f else (f + 1)%Z
  end.
Definition py_float (x : Q) : Q := x.

(* ---- floats that may be infinite or NaN (IEEE, exact on finite values) -------------------------------------------- *)
Definition fv_isnan (a : fv) : bool := match a with NaN => true | _ => false end.
Definition fv_neg (a : fv) : fv := match a with Fin x => Fin (- x) | PInf => NInf | NInf => PInf | NaN => NaN end.
Definition fv_plus (a b : fv) : fv :=
  match a, b with
  | Fin x, Fin y => Fin (x + y)
  | NaN, _ | _, NaN => NaN
  | PInf, NInf | NInf, PInf => NaN
  | PInf, _ | _, PInf => PInf
  | NInf, _ | _, NInf => NInf
  end.
Definition fv_minus (a b : fv) : fv := fv_plus a (fv_neg b).
Definition fv_sign (a : fv) : Z :=
  match a with Fin x => Z.sgn (Qnum x) | PInf => 1%Z | NInf => (-1)%Z | NaN => 0%Z end.
Definition fv_inf_of (s : Z) : fv := match s with Z0 => NaN | Zpos _ => PInf | Zneg _ => NInf end.
Definition fv_times (a b : fv) : fv :=
  match a, b with
  | Fin x, Fin y => Fin (x * y)
  | NaN, _ | _, NaN => NaN
  | _, _ => fv_inf_of (fv_sign a * fv_sign b)
  end.
(* numpy scalar division: x/0 = +-inf, 0/0 = NaN *)
Definition fv_quot (a b : fv) : fv :=
  match a, b with
  | NaN, _ | _, NaN => NaN
  | Fin x, Fin y => if Qeq_bool y 0 then fv_inf_of (fv_sign a) else Fin (x / y)
  | Fin _, _ => Fin 0
  | _, Fin y => if Qeq_bool y 0 then a else fv_inf_of (fv_sign a * fv_sign b)
  | _, _ => NaN
  end.
Definition fv_abs (a : fv) : fv := match a with Fin x => Fin (Qabs x) | NaN => NaN | _ => PInf end.
(* comparisons: False as soon as one side is NaN *)
Definition fv_leb (a b : fv) : bool :=
  match a, b with
  | NaN, _ | _, NaN => false
  | Fin x, Fin y => Qle_bool x y
  | NInf, _ => true
  | _, PInf => true
  | _, _ => false
  end.
Definition fv_ltb (a b : fv) : bool :=
  match a, b with
  | NaN, _ | _, NaN => false
  | Fin x, Fin y => q_ltb x y
  | NInf, NInf | PInf, PInf => false
  | NInf, _ => true
  | _, PInf => true
  | _, _ => false
  end.

(* ---- numpy arrays of floats as lists ----------------------------------------------------------------------------- *)
(* values - value, value - values, np.abs *)
Definition np_sub_as (vs : list Q) (v : fv) : list fv := map (fun a => fv_minus (Fin a) v) vs.
Definition np_sub_sa (v : fv) (vs : list Q) : list fv := map (fun a => fv_minus v (Fin a)) vs.
Definition np_abs (l : list fv) : list fv := map fv_abs l.
(* argmin: first position of the smallest entry; a NaN counts as smallest (the first NaN wins); empty: ValueError *)
Fixpoint argmin_go (best : Z) (bv : fv) (i : Z) (l : list fv) : Z :=
  match l with
  | [] => best
  | d :: t => if fv_isnan bv then best
              else if fv_isnan d || fv_ltb d bv then argmin_go i d (i + 1)%Z t
              else argmin_go best bv (i + 1)%Z t
  end.
Definition np_argmin (l : list fv) : result Z :=
  match l with [] => Err ValueError | d :: t => Ok (argmin_go 0%Z d 1%Z t) end.
(* np.linspace(start, stop, num): num < 0 raises; num = 1 gives [start]; otherwise arange(num) * step + start with
   step = (stop - start) / (num - 1) and the last sample set to stop *)
Definition np_linspace (a b : Q) (n : Z) : result (list Q) :=
  if (n <? 0)%Z then Err ValueError
  else if (n =? 1)%Z then Ok [a]
  else let step := ((b - a) / inject_Z (n - 1))%Q in
       Ok (map (fun i => if (i =? n - 1)%Z then b else (inject_Z i * step + a)%Q) (py_range n)).

(* sigma**2 * np.eye(n): a scalar matrix *)
Record smat := SMat { m_scale : Q; m_dim : Z }.
Definition np_eye (n : Z) : smat := SMat 1 n.
Definition mat_scale (c : Q) (m : smat) : smat := SMat (c * m_scale m) (m_dim m).

(* ---- lattice values over the carrier K, the 3-d array, the object --------------------------------------------------- *)
Definition idx_eqb (p q : Z * Z * Z) : bool :=
  let '(a, b, c) := p in let '(d, e, f) := q in (a =? d)%Z && (b =? e)%Z && (c =? f)%Z.
(* position of index i on an axis of n entries *)
Definition norm_idx (i n : Z) : result Z :=
  if ((0 <=? i) && (i <? n))%Z then Ok i
  else if ((- n <=? i) && (i <? 0))%Z then Ok (i + n)%Z
  else Err IndexError.

Section Values.
  Variable K : Type.

  Definition fk_isnan (a : option K) : bool := is_none a.
  (* a + b, a * b, a / b on values: NaN propagates *)
  Definition olift2 (f : K -> K -> K) (a b : option K) : option K :=
    match a, b with Some x, Some y => Some (f x y) | _, _ => None end.
  (* a > b: False with a NaN *)
  Definition ocmp (f : K -> K -> bool) (a b : option K) : bool :=
    match a, b with Some x, Some y => f x y | _, _ => false end.

  Record ndarr := NdArr { shape : Z * Z * Z; cell : Z * Z * Z -> option K }.
  Definition arr_index (a : ndarr) (p : Z * Z * Z) : result (Z * Z * Z) :=
    let '(nx, ny, nz) := shape a in let '(i, j, k) := p in
    rbind (norm_idx i nx) (fun i' => rbind (norm_idx j ny) (fun j' => rbind (norm_idx k nz) (fun k' => Ok (i', j', k')))).
  Definition arr_get (a : ndarr) (p : Z * Z * Z) : result (option K) := rmap (cell a) (arr_index a p).
  Definition arr_upd (a : ndarr) (p : Z * Z * Z) (v : option K) : ndarr :=
    NdArr (shape a) (fun q => if idx_eqb q p then v else cell a q).
  Definition arr_set (a : ndarr) (p : Z * Z * Z) (v : option K) : result ndarr := rmap (fun p' => arr_upd a p' v) (arr_index a p).
  (* np.zeros((a, b, c)) *)
  Definition np_zeros (k0 : K) (s : Z * Z * Z) : result ndarr :=
    let '(a, b, c) := s in
    if ((a <? 0) || (b <? 0) || (c <? 0))%Z then Err ValueError else Ok (NdArr s (fun _ => Some k0)).

  (* the attributes of a Lattice3D object, in the order in which __init__ assigns them *)
  Record lat := Lat {
    x_min_ : Q; x_max_ : Q; y_min_ : Q; y_max_ : Q; z_min_ : Q; z_max_ : Q;
    num_points_x_ : Z; num_points_y_ : Z; num_points_z_ : Z;
    cell_volume_ : option K;
    x_values_ : list Q; y_values_ : list Q; z_values_ : list Q;
    grid_ : ndarr;
    n_sigma_x_ : Q; n_sigma_y_ : Q; n_sigma_z_ : Q;
    spacing_x_ : option Q; spacing_y_ : option Q; spacing_z_ : option Q;
    density_x_ : Q; density_y_ : Q; density_z_ : Q }.
  Definition set_grid_ (s : lat) (g : ndarr) : lat :=
    Lat (x_min_ s) (x_max_ s) (y_min_ s) (y_max_ s) (z_min_ s) (z_max_ s)
        (num_points_x_ s) (num_points_y_ s) (num_points_z_ s) (cell_volume_ s)
        (x_values_ s) (y_values_ s) (z_values_ s) g
        (n_sigma_x_ s) (n_sigma_y_ s) (n_sigma_z_ s) (spacing_x_ s) (spacing_y_ s) (spacing_z_ s)
        (density_x_ s) (density_y_ s) (density_z_ s).
End Values.

Arguments fk_isnan {K}. Arguments olift2 {K}. Arguments ocmp {K}.
Arguments NdArr {K}. Arguments shape {K}. Arguments cell {K}.
Arguments arr_index {K}. Arguments arr_get {K}. Arguments arr_upd {K}. Arguments arr_set {K}. Arguments np_zeros {K}.
Arguments Lat {K}. Arguments set_grid_ {K}.
Arguments x_min_ {K}. Arguments x_max_ {K}. Arguments y_min_ {K}. Arguments y_max_ {K}. Arguments z_min_ {K}. Arguments z_max_ {K}.
Arguments num_points_x_ {K}. Arguments num_points_y_ {K}. Arguments num_points_z_ {K}. Arguments cell_volume_ {K}.
Arguments x_values_ {K}. Arguments y_values_ {K}. Arguments z_values_ {K}. Arguments grid_ {K}.
Arguments n_sigma_x_ {K}. Arguments n_sigma_y_ {K}. Arguments n_sigma_z_ {K}.
Arguments spacing_x_ {K}. Arguments spacing_y_ {K}. Arguments spacing_z_ {K}.
Arguments density_x_ {K}. Arguments density_y_ {K}. Arguments density_z_ {K}.

(* Hand model of Lattice3D (src/sparkx/Lattice3D.py) - addressing, arithmetic, CSV - statement by statement.
   An axis is what the object holds: x_min_, x_max_ and the array x_values_ (a list of Q; numpy's linspace enters
   only through that list, which the harness reads from the object).  Coordinates handed to the methods are
   float VALUES [fv] (finite rational, +-inf, NaN) with IEEE comparisons, indices are Python ints (Z), so that
   "negative index" and "NaN coordinate" are representable.  Results are WOk | Warned | WErr cls
   (warnings.warn + fall-through is [Warned]).  The grid is a function of three list positions; numpy
   primitives are their documented list semantics: searchsorted(side="right") on an ascending array = number of
   leading entries <= value, argmin = first position of the minimum.
   Not modelled: float rounding (node coordinates are exact rationals), scipy's interpn (section variable),
   aliasing of numpy buffers (checked by snapshots in the correspondence), plotting / slice methods. *)
From Coq Require Import List ZArith QArith Qabs Bool.
From SX Require Import Lib.Py Lib.QCheck Gen.GenLattice.
Import ListNotations.

Inductive wres (A : Type) := WOk (a : A) | Warned (a : A) | WErr (e : errcls).
Arguments WOk {A}. Arguments Warned {A}. Arguments WErr {A}.

Definition Qlt_bool (a b : Q) : bool := negb (Qle_bool b a).

(* IEEE comparisons between a float value and a finite float; every comparison with NaN is False *)
Definition q_le_fv (a : Q) (v : fv) : bool := match v with Fin x => Qle_bool a x | PInf => true | _ => false end.
Definition fv_le_q (v : fv) (a : Q) : bool := match v with Fin x => Qle_bool x a | NInf => true | _ => false end.

Record axis := { amin : Q; amax : Q; avals : list Q }.
Definition npts (a : axis) : nat := length (avals a).

(* np.searchsorted(values, x, side="right") *)
Fixpoint ssr (vs : list Q) (x : Q) : nat :=
  match vs with [] => 0 | v :: t => if Qle_bool v x then S (ssr t x) else 0 end.

(* argmin: first position of the smallest entry; [best] is the running position, [i] the next one *)
Fixpoint argmin_from (best : nat) (bestd : Q) (i : nat) (ds : list Q) : nat :=
  match ds with
  | [] => best
  | d :: t => if Qlt_bool d bestd then argmin_from i d (S i) t else argmin_from best bestd (S i) t
  end.
Definition argmin (ds : list Q) : result nat :=
  match ds with [] => Err ValueError | d :: t => Ok (argmin_from 0 d 1 t) end.

Definition dists (x : Q) (vs : list Q) : list Q := map (fun v => Qabs (v - x)) vs.

(* `if not (values[0] <= value <= values[-1]): raise ValueError` *)
Definition in_axis_range (value : fv) (vs : list Q) : result bool :=
  match vs with
  | [] => Err IndexError
  | v0 :: _ => Ok (q_le_fv v0 value && fv_le_q value (last vs v0))
  end.

(* __get_index *)
Definition get_index (value : fv) (vs : list Q) : result nat :=
  rbind (in_axis_range value vs) (fun inside =>
    if negb inside then Err ValueError
    else match value with
         | Fin x => let index := ssr vs x in
                    let index := if Nat.eqb index 0 then S index else index in
                    Ok (index - 1)%nat
         | _ => Err OtherError       (* not reachable: a non-finite value fails the range test *)
         end).

(* __find_closest_index: np.argmin(np.abs(values - value)); all distances NaN or inf: position 0 *)
Definition find_closest_index (value : fv) (vs : list Q) : result nat :=
  match value with
  | Fin x => argmin (dists x vs)
  | _ => match vs with [] => Err ValueError | _ => Ok 0%nat end
  end.

(* __get_index_nearest_neighbor *)
Definition get_index_nn (value : fv) (vs : list Q) : result nat :=
  rbind (in_axis_range value vs) (fun inside =>
    if negb inside then Err ValueError else find_closest_index value vs).

Section Grid.
  Variable V : Type.

  Record lattice := { ax : axis; ay : axis; az : axis; grid : nat -> nat -> nat -> V }.

  Definition upd (g : nat -> nat -> nat -> V) (i j k : nat) (v : V) : nat -> nat -> nat -> V :=
    fun a b c => if Nat.eqb a i && Nat.eqb b j && Nat.eqb c k then v else g a b c.

  Definition with_grid (L : lattice) (g : nat -> nat -> nat -> V) : lattice :=
    {| ax := ax L; ay := ay L; az := az L; grid := g |}.

  (* 0 <= i < num_points: the guard is the one read from __is_valid_index in this run (Gen/GenLattice.v) *)
  Definition valid1 (i : Z) (a : axis) : bool := gen_valid1 i (Z.of_nat (npts a)).
  Definition is_valid_index (L : lattice) (i j k : Z) : bool :=
    valid1 i (ax L) && valid1 j (ay L) && valid1 k (az L).

  Definition set_value_by_index (L : lattice) (i j k : Z) (v : V) : wres lattice :=
    if negb (is_valid_index L i j k) then Warned L
    else WOk (with_grid L (upd (grid L) (Z.to_nat i) (Z.to_nat j) (Z.to_nat k) v)).

  Definition get_value_by_index (L : lattice) (i j k : Z) : wres (option V) :=
    if negb (is_valid_index L i j k) then Warned None
    else WOk (Some (grid L (Z.to_nat i) (Z.to_nat j) (Z.to_nat k))).

  (* the three per-axis lookups in source order: the first failing one raises *)
  Definition indices3 (look : fv -> list Q -> result nat) (L : lattice) (x y z : fv) : result (nat * nat * nat) :=
    rbind (look x (avals (ax L))) (fun i =>
    rbind (look y (avals (ay L))) (fun j =>
    rbind (look z (avals (az L))) (fun k => Ok (i, j, k)))).

  Definition set_at (look : fv -> list Q -> result nat) (L : lattice) (x y z : fv) (v : V) : wres lattice :=
    match indices3 look L x y z with
    | Err e => WErr e
    | Ok (i, j, k) => set_value_by_index L (Z.of_nat i) (Z.of_nat j) (Z.of_nat k) v
    end.
  Definition get_at (look : fv -> list Q -> result nat) (L : lattice) (x y z : fv) : wres (option V) :=
    match indices3 look L x y z with
    | Err e => WErr e
    | Ok (i, j, k) => get_value_by_index L (Z.of_nat i) (Z.of_nat j) (Z.of_nat k)
    end.

  Definition set_value := set_at get_index.
  Definition get_value := get_at get_index.
  Definition set_value_nearest_neighbor := set_at get_index_nn.
  Definition get_value_nearest_neighbor := get_at get_index_nn.

  (* __get_value / get_coordinates; guard and exception class read from the source (Gen/GenLattice.v) *)
  Definition coord1 (i : Z) (a : axis) : result Q :=
    if gen_coord_bad i (Z.of_nat (npts a)) then Err gen_coord_err
    else match nth_error (avals a) (Z.to_nat i) with Some v => Ok v | None => Err IndexError end.
  Definition get_coordinates (L : lattice) (i j k : Z) : result (Q * Q * Q) :=
    rbind (coord1 i (ax L)) (fun x => rbind (coord1 j (ay L)) (fun y => rbind (coord1 k (az L)) (fun z => Ok (x, y, z)))).

  (* __is_within_range: x_min_ <= x <= x_max_ and ... *)
  Definition within1 (x : fv) (a : axis) : bool := q_le_fv (amin a) x && fv_le_q x (amax a).
  Definition is_within_range (L : lattice) (x y z : fv) : bool :=
    within1 x (ax L) && within1 y (ay L) && within1 z (az L).

  Definition find_closest_indices (L : lattice) (x y z : fv) : wres (nat * nat * nat) :=
    match indices3 find_closest_index L x y z with
    | Err e => WErr e
    | Ok ijk => if negb (is_within_range L x y z) then Warned ijk else WOk ijk
    end.

  (* interpolate_value: scipy's interpn is an oracle *)
  Variable interpn : lattice -> fv * fv * fv -> V.
  Definition interpolate_value (L : lattice) (x y z : fv) : result V :=
    if negb (is_within_range L x y z) then Err TypeError else Ok (interpn L (x, y, z)).

  (* ---- element-wise operators -------------------------------------------------------------------------- *)
  Inductive operand := OLat (L : lattice) | ONotLattice.

  Definition same_shape (a b : lattice) : bool :=
    Nat.eqb (npts (ax a)) (npts (ax b)) && Nat.eqb (npts (ay a)) (npts (ay b)) && Nat.eqb (npts (az a)) (npts (az b)).

  (* __operate_on_lattice: the result is a NEW lattice with self's extents and node counts *)
  Definition operate (f : V -> V -> V) (self : lattice) (other : operand) : result lattice :=
    match other with
    | ONotLattice => Err TypeError
    | OLat o => if negb (same_shape self o) then Err ValueError
                else Ok (with_grid self (fun i j k => f (grid self i j k) (grid o i j k)))
    end.

  (* average(self, *lattices): per operand first the type test, then the shape test *)
  Fixpoint check_all (self : lattice) (ls : list operand) : result (list lattice) :=
    match ls with
    | [] => Ok []
    | ONotLattice :: _ => Err TypeError
    | OLat o :: t => if negb (same_shape self o) then Err ValueError
                     else rmap (cons o) (check_all self t)
    end.
  Variable vsum : list V -> V.            (* np.mean(..., axis=0) = sum / count *)
  Variable vdivn : V -> nat -> V.
  Definition average (self : lattice) (others : list operand) : result lattice :=
    rbind (check_all self (OLat self :: others)) (fun all =>
      Ok (with_grid self (fun i j k => vdivn (vsum (map (fun l => grid l i j k) all)) (length all)))).

  (* rescale: self.grid_ *= factor *)
  Variable vmul : V -> V -> V.
  Definition rescale (L : lattice) (factor : V) : lattice :=
    with_grid L (fun i j k => vmul (grid L i j k) factor).

  (* ---- histories of set operations ---------------------------------------------------------------------- *)
  Inductive setop :=
  | SetIdx (i j k : Z) (v : V)
  | SetVal (x y z : fv) (v : V)
  | SetNN (x y z : fv) (v : V).

  Definition apply_op (L : lattice) (o : setop) : wres lattice :=
    match o with
    | SetIdx i j k v => set_value_by_index L i j k v
    | SetVal x y z v => set_value L x y z v
    | SetNN x y z v => set_value_nearest_neighbor L x y z v
    end.
  (* an operation that warns or raises leaves the object as it was (the caller catches the exception) *)
  Definition step (L : lattice) (o : setop) : lattice :=
    match apply_op L o with WOk L' => L' | Warned L' => L' | WErr _ => L end.
  Definition run (L : lattice) (ops : list setop) : lattice := fold_left step ops L.
End Grid.

Arguments ax {V}. Arguments ay {V}. Arguments az {V}. Arguments grid {V}.
Arguments OLat {V}. Arguments ONotLattice {V}.
Arguments SetIdx {V}. Arguments SetVal {V}. Arguments SetNN {V}.

(* ---- CSV: save_to_csv / load_from_csv -------------------------------------------------------------------- *)
(* The persisted state: six extents and every grid value are doubles [fv], three node counts.  One row:
   metadata (9 numbers, the counts converted to float by np.array) followed by grid_.flatten() (C order),
   every number printed by savetxt's default "%.18e" [fmt] and read back by loadtxt [parse]. *)
Record pstate := { ext : list fv; cnt : nat * nat * nat; pgrid : nat -> nat -> nat -> fv }.

Section Csv.
  Variable tok : Type.
  Variable fmt : fv -> tok.
  Variable parse : tok -> fv.

  Definition of_nat (n : nat) : fv := Fin (inject_Z (Z.of_nat n)).
  (* int(float): truncation; NaN / inf raise ValueError / OverflowError *)
  Definition to_int (d : fv) : result Z := match d with Fin x => Ok (Qtrunc x) | _ => Err ValueError end.

  Definition flatten (n : nat * nat * nat) (g : nat -> nat -> nat -> fv) : list fv :=
    let '(nx, ny, nz) := n in
    flat_map (fun i => flat_map (fun j => map (fun k => g i j k) (seq 0 nz)) (seq 0 ny)) (seq 0 nx).

  Definition save (s : pstate) : list tok :=
    let '(nx, ny, nz) := cnt s in
    map fmt (ext s ++ [of_nat nx; of_nat ny; of_nat nz] ++ flatten (cnt s) (pgrid s)).

  (* data[0:9] unpacked into nine names (a short row raises ValueError), the constructor (negative counts make
     numpy raise ValueError), grid_data.reshape(shape) (ValueError when the sizes differ) *)
  Definition load (row : list tok) : result pstate :=
    let data := map parse row in
    match firstn 9 data with
    | [a; b; c; d; e; f; nx; ny; nz] =>
      rbind (to_int nx) (fun nx => rbind (to_int ny) (fun ny => rbind (to_int nz) (fun nz =>
        if (nx <? 0)%Z || (ny <? 0)%Z || (nz <? 0)%Z then Err ValueError
        else let n := (Z.to_nat nx, Z.to_nat ny, Z.to_nat nz) in
             let rest := skipn 9 data in
             if negb (Nat.eqb (length rest) (Z.to_nat nx * Z.to_nat ny * Z.to_nat nz)) then Err ValueError
             else Ok {| ext := [a; b; c; d; e; f]; cnt := n;
                        pgrid := fun i j k => nth ((i * Z.to_nat ny + j) * Z.to_nat nz + k) rest NaN |})))
    | _ => Err ValueError
    end.
End Csv.

(* ---- executable instance of the grid values: doubles as values, numpy's element-wise arithmetic ------------ *)
(* finite op finite is exact (rounding is not modelled); x/0 is +-inf, 0/0 and anything with NaN is NaN;
   overflow cannot happen on the exact side; inf arithmetic follows IEEE *)
Definition qsgn (x : Q) : Z := Z.sgn (Qnum x).
Definition fv_opp (a : fv) : fv := match a with Fin x => Fin (Qred (- x)) | PInf => NInf | NInf => PInf | NaN => NaN end.
Definition fv_add (a b : fv) : fv :=
  match a, b with
  | Fin x, Fin y => Fin (Qred (x + y))
  | NaN, _ | _, NaN => NaN
  | PInf, NInf | NInf, PInf => NaN
  | PInf, _ | _, PInf => PInf
  | NInf, _ | _, NInf => NInf
  end.
Definition fv_sub (a b : fv) : fv := fv_add a (fv_opp b).
Definition fv_signed_inf (s : Z) : fv := match s with Z0 => NaN | Zpos _ => PInf | Zneg _ => NInf end.
Definition fv_sgn (a : fv) : Z := match a with Fin x => qsgn x | PInf => 1%Z | NInf => (-1)%Z | NaN => 0%Z end.
Definition fv_mul (a b : fv) : fv :=
  match a, b with
  | Fin x, Fin y => Fin (Qred (x * y))
  | NaN, _ | _, NaN => NaN
  | _, _ => fv_signed_inf (fv_sgn a * fv_sgn b)
  end.
Definition fv_div (a b : fv) : fv :=
  match a, b with
  | NaN, _ | _, NaN => NaN
  | Fin x, Fin y => if Qeq_bool y 0 then fv_signed_inf (qsgn x) else Fin (Qred (x / y))
  | Fin _, _ => Fin 0
  | _, Fin y => if Qeq_bool y 0 then a else fv_signed_inf (fv_sgn a * qsgn y)
  | _, _ => NaN
  end.
Definition fv_sum (l : list fv) : fv := fold_left fv_add l (Fin 0).
Definition fv_divn (a : fv) (n : nat) : fv := fv_div a (Fin (inject_Z (Z.of_nat n))).

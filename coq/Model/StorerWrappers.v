(* The filter methods of the storer classes as read from the source by tools/py2coq/gen_storer_wrappers.py
   (which aborts unless each has the form `particle_list_ = f(particle_list_, args); recount; return self`,
   the form Model/Storer.v's apply_filter stands for).  Here: the name coverage, as an executable check. *)
From Coq Require Import List String Bool.
From SX Require Import Gen.GenStorerWrappers.
Import ListNotations.

Definition same_name (w : string * string) : bool := String.eqb (fst w) (snd w).
Definition smem (x : string) (l : list string) : bool := existsb (String.eqb x) l.

(* every wrapper applies the Filter.py function of its own name; every public function of Filter.py has a
   wrapper in BaseStorer and nothing else is wrapped; subclasses only refuse or re-wrap methods of that list *)
Definition wrappers_ok : bool :=
  forallb same_name gen_base_wrappers
  && forallb same_name (gen_own_Oscar ++ gen_own_Jetscape ++ gen_own_PObj)
  && forallb (fun f => smem f (map fst gen_base_wrappers)) gen_filter_functions
  && forallb (fun m => smem m gen_filter_functions) (map fst gen_base_wrappers)
  && forallb (fun m => smem m (map fst gen_base_wrappers))
       (gen_refused_Oscar ++ gen_refused_Jetscape ++ gen_refused_PObj
        ++ map fst (gen_own_Oscar ++ gen_own_Jetscape ++ gen_own_PObj)).

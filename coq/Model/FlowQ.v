(* Executable instances over Q of the hand models Model/FlowRP.v, FlowSP.v, FlowEP.v (correspondence only).
   Particle data: the values the real particle reports (pT_abs, pseudorapidity, rapidity as exact rationals of the
   doubles) and particle.weight (None = NaN).  sqrt is a rational approximation to about 18 digits.
   The two arctan2 uses of the event-plane estimator are instantiated with their closed forms (Proofs/C12_EPReal.v),
   including numpy's arctan2(0, 0) = 0; the resolution function is supplied by the harness (value obtained from
   the real private method). *)
From Coq Require Import String ZArith QArith Qabs Bool List.
From SX Require Import Lib.KRing Lib.Cpx Model.QCumulant Model.FlowRP Model.FlowSP Model.FlowEP.
Import ListNotations.
Local Open Scope Q_scope.

Record fdata := { dpt : Q ; deta : Q ; dy : Q ; dw : option Q }.
Definition fpart := (cpx Q * fdata)%type.

Definition qinv (x : Q) : Q := Qred (Qinv x).
Definition qsqrt (x : Q) : Q := qrpow 1 2 x.
Definition qabs (x : Q) : Q := Qabs x.
Definition qis0 (x : Q) : bool := Qeq_bool x 0.

(* __compute_particle_weights *)
Definition fpw (weight : string) (n : nat) (d : fdata) : Q :=
  if String.eqb weight "pT" then dpt d
  else if String.eqb weight "pT2" then Qred (dpt d * dpt d)
  else if String.eqb weight "pTn" then Qred (Qpower (dpt d) (Z.of_nat n))
  else if String.eqb weight "rapidity" then dy d
  else if String.eqb weight "pseudorapidity" then deta d
  else 0.
Definition fpwt (d : fdata) : Q := match dw d with Some w => w | None => 1 end.
Definition finA (gap : Q) (d : fdata) : bool := Qle_bool gap (deta d).
Definition finB (gap : Q) (d : fdata) : bool := negb (Qle_bool (- gap) (deta d)).
Definition fsel (sel : string) (d : fdata) : Q :=
  if String.eqb sel "pT" then dpt d else if String.eqb sel "rapidity" then dy d
  else if String.eqb sel "pseudorapidity" then deta d else 0.
Definition finbin (sel : string) (lo hi : Q) (d : fdata) : bool :=
  Qle_bool lo (fsel sel d) && negb (Qle_bool hi (fsel sel d)).

Definition q_rp_integrated := rp_integrated Q 0 rplus rmult qinv qis0 fdata fpwt.
Definition q_rp_diff (sel : string) (lo hi : Q) := rp_differential_bin Q 0 rplus rmult qinv qis0 fdata fpwt (finbin sel lo hi).

Definition q_sp_integrated (weight : string) (n : nat) (gap : Q) :=
  sp_integrated Q 0 1 rplus rmult rminus Qopp qinv qsqrt qabs qis0 qltb fdata (fpw weight n) fpwt (finA gap) (finB gap).
Definition q_sp_diff (weight : string) (n : nat) (gap : Q) (sel : string) (lo hi : Q) :=
  sp_differential_bin Q 0 1 rplus rmult rminus Qopp qinv qsqrt qabs qis0 qltb fdata (fpw weight n) fpwt (finA gap) (finB gap) (finbin sel lo hi).

(* direction of a vector as numpy's arctan2 sees it: (cos, sin), with arctan2(0,0) = 0 *)
Definition qdir (z : cpx Q) : cpx Q :=
  let n2 := rplus (rmult (re z) (re z)) (rmult (im z) (im z)) in
  if qis0 n2 then (1, 0) else (rmult (re z) (qinv (qsqrt n2)), rmult (im z) (qinv (qsqrt n2))).
Definition q_obs (u v : cpx Q) : Q := let d := qdir v in rplus (rmult (re u) (re d)) (rmult (im u) (im d)).
Definition q_cosAB (a b : cpx Q) : Q := q_obs (qdir a) b.

Definition q_rn2 (weight : string) (n : nat) (gap : Q) (evs : list (event Q fdata)) : Q :=
  mean Q 0 1 rplus rmult qinv
    (map (rn2 Q 0 rplus rmult qinv qsqrt qis0 fdata (fpw weight n) (finA gap) (finB gap) q_cosAB) evs).
Definition q_ep_integrated (weight : string) (n : nat) (gap : Q) (res : Q) :=
  ep_integrated Q 0 1 rplus rmult rminus qinv qsqrt qabs qis0 qltb fdata (fpw weight n) fpwt (finA gap) (finB gap)
    q_cosAB q_obs (fun _ => res).
Definition q_ep_diff (weight : string) (n : nat) (gap : Q) (res : Q) (sel : string) (lo hi : Q) :=
  ep_differential_bin Q 0 1 rplus rmult rminus qinv qsqrt qabs qis0 qltb fdata (fpw weight n) fpwt (finA gap) (finB gap)
    (finbin sel lo hi) q_cosAB q_obs (fun _ => res).

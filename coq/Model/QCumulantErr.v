(* Hand glue around the generated ERROR formulas of QCumulantFlow (Gen/GenQCumulantErr.v): the generated definitions are
   instantiated with the per-event quantities of Model/QCumulant.v (multiplicities, Q-vectors, bin and
   particle-of-interest sub-lists) exactly as Model/QCumulant.v does for the values; integrated_flow returns
   (value, error), differential_flow returns [value, error] per non-empty bin.  No proofs here.
   kcsqrt is the oracle for np.sqrt of a complex number (the differential error is computed with complex arithmetic:
   the per-event <2'>, <4'> keep their imaginary parts and are squared, not |.|^2). *)
From Coq Require Import String ZArith QArith Qabs Bool List.
From SX Require Import Lib.KRing Lib.Cpx Lib.Distinct Gen.GenQCumulant Gen.GenQCumulantErr Model.QCumulant.
Import ListNotations.

Section ModelErr.
  Variable K : Type.
  Variables (k0 k1 : K) (kadd kmul ksub : K -> K -> K) (kopp : K -> K) (kdiv : K -> K -> K).
  Variables (kleb kltb : K -> K -> bool).
  Variable krpow : nat -> nat -> K -> K.
  Variable kcsqrt : cpx K -> cpx K.
  Variable P : Type.
  Variable zof : P -> cpx K.
  Variables inbin ispoi : P -> bool.

  Notation event := (event K P).
  Notation Mf := (Mof K k0 k1 kadd P).
  Notation Qf := (Qof K k0 k1 kadd kmul ksub kopp kdiv kleb kltb krpow P zof).
  Notation SelB := (sel_bin K P inbin).
  Notation SelP := (sel_poi K P inbin ispoi).

  Section Sample.
    Variable evs : list event.
    Notation GE f := (f K k0 k1 kadd kmul ksub kopp kdiv kleb kltb krpow kcsqrt event evs
                        Mf (fun e => Mf (SelB e)) (fun e => Mf (SelP e))
                        Qf (fun h e => Qf h (SelB e)) (fun h e => Qf h (SelP e))).

    (* __calculate_corr(phi, k): the event-by-event correlators <2>_i, <4>_i, <6>_i and the errors of <<2>>, <<4>>, <<6>> *)
    Definition ebe2 : event -> K := GE gen_ebe_2.
    Definition ebe4 : event -> K := GE gen_ebe_4.
    Definition ebe6 : event -> K := GE gen_ebe_6.
    Definition corr_err2 : K := GE gen_corr_err_2.
    Definition corr_err4 : K := GE gen_corr_err_4.
    Definition corr_err6 : K := GE gen_corr_err_6.
    (* the covariance terms of __cumulant_flow *)
    Definition cov24 : K := GE gen_cov_term_2_4_R ebe2 ebe4.
    Definition cov26 : K := GE gen_cov_term_2_6_R ebe2 ebe6.
    Definition cov46 : K := GE gen_cov_term_4_6_R ebe4 ebe6.
    (* __cumulant_flow(phi)[1] *)
    Definition int_err2 : K := GE gen_int_err_2.
    Definition int_err4 : K := GE gen_int_err_4.
    Definition int_err6 : K := GE gen_int_err_6.

    (* QCumulantFlow(n, k, imaginary).integrated_flow(events)[1]: None = ValueError (constructor rejects k / imaginary) *)
    Definition qc_error (k : nat) (imag : string) : option K :=
      if existsb (Nat.eqb k) gen_k_allowed && existsb (String.eqb imag) gen_imag_allowed
      then GE gen_integrated_err k else None.

    (* __compute_differential_flow_bin: per-event sums and weights of <2'>, <4'>, and the returned error *)
    Definition dsum2_ev : event -> cpx K := GE gen_dsum2_ev.
    Definition dsum4_ev : event -> cpx K := GE gen_dsum4_ev.
    Definition dw2 : event -> K := GE gen_dw2.
    Definition dw4 : event -> K := GE gen_dw4.
    Definition diff_err2 : K := GE gen_diff_err_2.
    Definition diff_err4 : K := GE gen_diff_err_4.

    (* one bin of differential_flow, second entry: same validation and empty-bin guard as Model/QCumulant.differential_bin *)
    Definition qc_diff_error (k : nat) (imag : string) : dres K :=
      if negb (existsb (Nat.eqb k) gen_k_allowed && existsb (String.eqb imag) gen_imag_allowed) then DErr K
      else if existsb (Nat.eqb k) gen_diff_rejected_k then DErr K
      else if (0 <? length evs)%nat && (0 <? total K P evs SelB)%nat && (0 <? total K P evs SelP)%nat then
        match k with
        | 2%nat => DVal K (Some diff_err2)
        | 4%nat => DVal K (Some diff_err4)
        | _ => DErr K
        end
      else DEmpty K.
  End Sample.
End ModelErr.

(* ---------------- executable instance over Q ---------------- *)
(* x ** (c/k) for x >= 0 to about 24 digits (errors are small numbers: more digits than Model/QCumulant.qrpow) *)
Definition qscaleh : Z := (10 ^ 24)%Z.
Definition qrpowh (c k : nat) (x : Q) : Q :=
  let y := Qred (Qpower x (Z.of_nat c)) in
  if Qle_bool y 0 then 0 else
  Qred (Qmake (zroot k ((Qnum y * Z.pow qscaleh (Z.of_nat k)) / Zpos (Qden y))) 1 / inject_Z qscaleh).

(* principal square root of a + b i (numpy): re >= 0, im has the sign of b *)
Definition qcsqrt (z : cpx Q) : cpx Q :=
  let a := fst z in let b := snd z in
  let m := qrpowh 1 2 (rplus (rmult a a) (rmult b b)) in
  if Qle_bool 0 a then
    let r := qrpowh 1 2 (rdiv (rplus m a) 2) in
    (r, if Qeq_bool r 0 then 0 else rdiv b (rmult 2 r))
  else
    let s := qrpowh 1 2 (rdiv (rminus m a) 2) in
    (rdiv (Qabs b) (rmult 2 s), if Qle_bool 0 b then s else Qopp s).

Definition qqc_error (k : nat) (imag : string) (evs : list (event Q qpart)) : option Q :=
  qc_error Q 0 1 rplus rmult rminus Qopp rdiv qleb qltb qrpowh qcsqrt qpart qz (fun _ => true) (fun _ => true) evs k imag.
Definition qqc_corr_err (k : nat) (evs : list (event Q qpart)) : Q :=
  match k with
  | 2%nat => corr_err2 Q 0 1 rplus rmult rminus Qopp rdiv qleb qltb qrpowh qcsqrt qpart qz (fun _ => true) (fun _ => true) evs
  | 4%nat => corr_err4 Q 0 1 rplus rmult rminus Qopp rdiv qleb qltb qrpowh qcsqrt qpart qz (fun _ => true) (fun _ => true) evs
  | _ => corr_err6 Q 0 1 rplus rmult rminus Qopp rdiv qleb qltb qrpowh qcsqrt qpart qz (fun _ => true) (fun _ => true) evs
  end.
(* differential_flow(events, [lo, hi], sel, poi)[0][1]; selector validation first *)
Definition qqc_diff_error (k : nat) (imag sel : string) (lo hi : Q) (poi : option (list Z)) (evs : list (event Q qpart)) : dres Q :=
  if negb (existsb (String.eqb sel) gen_selectors_validated) then DErr Q
  else qc_diff_error Q 0 1 rplus rmult rminus Qopp rdiv qleb qltb qrpowh qcsqrt qpart qz (qinbin sel lo hi) (qispoi poi) evs k imag.

(* Hand model of JetAnalysis (src/sparkx/JetAnalysis.py), statement by statement:
   __initialize_and_check_parameters (R > 0, None -> -inf/+inf resp. 0/+inf, limits interchanged unless
   lower < upper, negative pT bounds rejected), perform_jet_finding (the output file is created empty once the
   parameters are accepted, then per event: clustering, lower pT bound, eta selector, per jet the two cone scans,
   hole subtraction, write_jet_output in append mode), fill_associated_particles (unset status raises ValueError,
   status / charge skips, dR < R), jet_hole_subtraction (component sums from 0.0, then the difference),
   write_jet_output (rows only when pT after subtraction is below the upper bound; the file is opened - hence
   created - either way; "w" truncates, "a" appends), read_jet_data / get_jets / get_associated_particles.

   State: the output file, [None] = does not exist, [Some lines] = its lines in order.  A line is a jet row
   (8 columns) or a foreign line (anything whose first cell is not an integer literal; the reader raises
   ValueError on it).

   ORACLES (section variables, given as data by the harness, fastjet computes them):
     cluster alg R momenta  = ClusterSequence(momenta, JetDefinition(alg, R)).inclusive_jets(0.0) sorted by pT,
                              every jet as its 4-vector (no pT cut, no selector: both selections are the model's)
     acc_perp/eta/phi v     = PseudoJet(v).perp() / .eta() / .phi()
     dR jet v               = sqrt((PseudoJet(v).eta() - jet.eta())^2 + PseudoJet(v).delta_phi_to(jet)^2)
   Not modelled: float rounding (exact Q; pT comparisons on squares: pT >= b is b*b <= px^2+py^2 for b >= 0,
   which is what fastjet's inclusive_jets(ptmin) evaluates, and equivalent to perp() < b for the upper bound),
   the isinstance/len checks of the two range tuples (typed here), the printed jet definition, the warnings,
   unset momenta / pdg. *)
From Coq Require Import List ZArith QArith Bool.
Import ListNotations.

Inductive jerr := EValue | EIndex | ENoFile.          (* ValueError, IndexError, FileNotFoundError *)
Inductive result (A : Type) := Ok (a : A) | Err (e : jerr).
Arguments Ok {A}. Arguments Err {A}.

Record vec4 := V4 { vx : Q; vy : Q; vz : Q; ve : Q }.
(* status / charge: None = unset (NaN in the Particle object) *)
Record particle := P { pmom : vec4; pstatus : option Z; pcharge : option Z; ppdg : Z }.
Definition event := list particle.

Inductive ext := NInf | Fin (x : Q) | PInf.
Definition qlt (x y : Q) : bool := negb (Qle_bool y x).
Definition ext_lt (a b : ext) : bool :=
  match a, b with
  | NInf, NInf => false
  | NInf, _ => true
  | Fin x, Fin y => qlt x y
  | Fin _, PInf => true
  | Fin _, NInf => false
  | PInf, _ => false
  end.
Definition ext_le (a b : ext) : bool := negb (ext_lt b a).

(* index, pT, eta, phi, status, pid, E, event index *)
Record row := Row { r_idx : Z; r_pt : Q; r_eta : Q; r_phi : Q; r_status : Z; r_pid : Z; r_E : Q; r_event : Z }.
Inductive line := JetLine (r : row) | Foreign (tag : Z).
Definition file := option (list line).
Definition content (f : file) : list line := match f with Some l => l | None => [] end.

Inductive alg := AntiKt | Kt | Cambridge.
Record params := Params { a_alg : alg; a_R : Q; a_eta : option Q * option Q; a_pt : option Q * option Q;
                          a_charged : bool }.

(* ---- __initialize_and_check_parameters ------------------------------------------------------------------ *)
Definition reorder (lower upper : ext) : ext * ext :=
  if ext_lt lower upper then (lower, upper) else (upper, lower).
Definition norm_eta (r : option Q * option Q) : ext * ext :=
  let lower_cut := match fst r with None => NInf | Some x => Fin x end in
  let upper_cut := match snd r with None => PInf | Some x => Fin x end in
  reorder lower_cut upper_cut.
Definition norm_pt (r : option Q * option Q) : ext * ext :=
  let lower_cut := match fst r with None => Fin 0 | Some x => Fin x end in
  let upper_cut := match snd r with None => PInf | Some x => Fin x end in
  reorder lower_cut upper_cut.
Definition negative_bound (b : option Q) : bool := match b with Some x => qlt x 0 | None => false end.
Definition check_params (a : params) : result ((ext * ext) * (ext * ext)) :=
  if Qle_bool (a_R a) 0 then Err EValue
  else if negative_bound (fst (a_pt a)) || negative_bound (snd (a_pt a)) then Err EValue
  else Ok (norm_eta (a_eta a), norm_pt (a_pt a)).

(* ---- momentum arithmetic ---------------------------------------------------------------------------------- *)
Definition perp2 (v : vec4) : Q := vx v * vx v + vy v * vy v.
(* pT(v) >= b for a bound b >= 0, on squares *)
Definition pt_ge (v : vec4) (b : ext) : bool :=
  match b with NInf => true | Fin x => Qle_bool (x * x) (perp2 v) | PInf => false end.
Definition pt_lt (v : vec4) (b : ext) : bool := negb (pt_ge v b).
Definition vzero : vec4 := V4 0 0 0 0.
Definition vadd (s h : vec4) : vec4 := V4 (vx s + vx h) (vy s + vy h) (vz s + vz h) (ve s + ve h).
Definition vsub (j s : vec4) : vec4 := V4 (vx j - vx s) (vy j - vy s) (vz j - vz s) (ve j - ve s).
(* E = px = py = pz = 0.0; for hole in holes: E += hole.E ... *)
Definition vsum (holes : list particle) : vec4 := fold_left (fun s h => vadd s (pmom h)) holes vzero.
(* jet_hole_subtraction *)
Definition jet_hole_subtraction (jet : vec4) (holes : list particle) : vec4 := vsub jet (vsum holes).

Definition charge_is_zero (p : particle) : bool :=
  match pcharge p with Some c => (c =? 0)%Z | None => false end.   (* nan == 0 is False *)
Definition status_of (p : particle) : Z := match pstatus p with Some s => s | None => 0%Z end.
Definition in_window (e : Q) (w : ext * ext) : bool := ext_le (fst w) (Fin e) && ext_le (Fin e) (snd w).

Inductive sel := Negative | Positive.

Section Jets.
  Variable cluster : alg -> Q -> list vec4 -> list vec4.
  Variables acc_perp acc_eta acc_phi : vec4 -> Q.
  Variable dR : vec4 -> vec4 -> Q.

  (* cluster.inclusive_jets(self.jet_pT_range_[0]) sorted by pT, then jet_selector(jets) *)
  Definition select (a : params) (w pt : ext * ext) (ev : event) : list vec4 :=
    filter (fun j => in_window (acc_eta j) w)
           (filter (fun j => pt_ge j (fst pt)) (cluster (a_alg a) (a_R a) (map pmom ev))).

  (* fill_associated_particles(jet, event, status_selection, only_charged) *)
  Definition skipped (s : sel) (only_charged : bool) (h : particle) (st : Z) : bool :=
    (match s with Negative => (0 <=? st)%Z | Positive => (st <? 0)%Z end) || (only_charged && charge_is_zero h).
  Fixpoint fill (R : Q) (jet : vec4) (s : sel) (only_charged : bool) (ev : event) : result (list particle) :=
    match ev with
    | [] => Ok []
    | h :: t =>
      match pstatus h with
      | None => Err EValue                                   (* "Hadron status not set" *)
      | Some st =>
        match fill R jet s only_charged t with
        | Err e => Err e
        | Ok rest =>
          if skipped s only_charged h st then Ok rest
          else if qlt (dR jet (pmom h)) R then Ok (h :: rest) else Ok rest
        end
      end
    end.

  (* write_jet_output: rows *)
  Definition jet_row (jet : vec4) (ev_index : Z) : row :=
    Row 0 (acc_perp jet) (acc_eta jet) (acc_phi jet) 10 10 (ve jet) ev_index.
  Definition hadron_row (i : Z) (p : particle) (ev_index : Z) : row :=
    Row i (acc_perp (pmom p)) (acc_eta (pmom p)) (acc_phi (pmom p)) (status_of p) (ppdg p) (ve (pmom p)) ev_index.
  Fixpoint hadron_rows (i : Z) (l : list particle) (ev_index : Z) : list row :=
    match l with
    | [] => []
    | p :: t => hadron_row i p ev_index :: hadron_rows (i + 1) t ev_index
    end.
  Definition output_list (hi : ext) (jet : vec4) (associated : list particle) (ev_index : Z) : list row :=
    if pt_lt jet hi then jet_row jet ev_index :: hadron_rows 1 associated ev_index else [].
  (* mode = "a" if not new_file else "w"; the file is opened (created) even when output_list is empty *)
  Definition write_jet_output (f : file) (hi : ext) (jet : vec4) (associated : list particle) (ev_index : Z)
             (new_file : bool) : file :=
    let out := map JetLine (output_list hi jet associated ev_index) in
    if new_file then Some out else Some (content f ++ out).

  (* for jet in jets: holes, associated, subtraction, write *)
  Fixpoint jets_loop (a : params) (hi : ext) (ev : event) (ev_index : Z) (jets : list vec4) (f : file)
    : file * option jerr :=
    match jets with
    | [] => (f, None)
    | jet :: t =>
      match fill (a_R a) jet Negative false ev with
      | Err e => (f, Some e)
      | Ok holes_in_jet =>
        match fill (a_R a) jet Positive (a_charged a) ev with
        | Err e => (f, Some e)
        | Ok associated =>
          jets_loop a hi ev ev_index t
                    (write_jet_output f hi (jet_hole_subtraction jet holes_in_jet) associated ev_index false)
        end
      end
    end.

  (* for event, hadron_data_event in enumerate(self.hadron_data_) *)
  Fixpoint events_loop (a : params) (w pt : ext * ext) (ev_index : Z) (evs : list event) (f : file)
    : file * option jerr :=
    match evs with
    | [] => (f, None)
    | ev :: t =>
      match jets_loop a (snd pt) ev ev_index (select a w pt ev) f with
      | (f', None) => events_loop a w pt (ev_index + 1) t f'
      | (f', Some e) => (f', Some e)
      end
    end.

  (* with open(output_filename, "w", newline=""): pass *)
  Definition create_empty (f : file) : file := Some [].

  (* perform_jet_finding: the file afterwards and the exception, if one ended the call *)
  Definition perform (a : params) (f : file) (evs : list event) : file * option jerr :=
    match check_params a with
    | Err e => (f, Some e)
    | Ok (w, pt) => events_loop a w pt 0 evs (create_empty f)
    end.
End Jets.

(* ---- read_jet_data ------------------------------------------------------------------------------------------ *)
Definition nonempty {A} (l : list A) : bool := match l with [] => false | _ => true end.
Fixpoint read_loop (ls : list line) (jet_data : list (list row)) (current_jet : list row)
  : result (list (list row)) :=
  match ls with
  | [] => Ok (if nonempty current_jet then jet_data ++ [current_jet] else jet_data)
  | Foreign _ :: _ => Err EValue                              (* int(row[0]) *)
  | JetLine r :: t =>
    if (r_idx r =? 0)%Z && nonempty current_jet
    then read_loop t (jet_data ++ [current_jet]) [r]
    else read_loop t jet_data (current_jet ++ [r])
  end.
Definition read_jet_data (f : file) : result (list (list row)) :=
  match f with None => Err ENoFile | Some ls => read_loop ls [] [] end.

(* [jet[0] for jet in jet_data_] (IndexError on an empty group), [jet[1:] for jet in jet_data_] *)
Fixpoint get_jets (d : list (list row)) : result (list row) :=
  match d with
  | [] => Ok []
  | [] :: _ => Err EIndex
  | (r :: _) :: t => match get_jets t with Ok l => Ok (r :: l) | Err e => Err e end
  end.
Definition get_associated_particles (d : list (list row)) : list (list row) := map (@tl row) d.

(* Comparison helpers used only by the generated correspondence cases of C14. *)
From Coq Require Import List ZArith QArith Qcanon Bool Arith.
From SX Require Import Model.Histogram Model.HistCheck Model.Bulk.
Import ListNotations.
Local Open Scope nat_scope.

Definition mk_bins (b : binspec) : initspec :=
  match b with BTuple lo hi i n => ITuple lo hi i n | BList es => IList es end.

(* dN/dx: returned histogram (all arrays), then write_to_file of it with all columns and one label dictionary *)
Definition check_yield (ls : list Qc) (qcallable : bool) (b : binspec) (evs : list (list cell))
                       (e : result hist) (ew : option (result table)) : nat :=
  let r := differential_yield qsqrt (fun _ _ _ => ls) qcallable b evs in
  first_bad [ lin_ok ls (mk_bins b);
              cmpres cmphist r e;
              match r, ew with
              | Ok h, Some t => cmpres cmptable (write_to_file h [map (fun c => (c, c)) (seq 0 8)] None) t
              | Ok _, None => 9
              | Err _, _ => 0
              end ].

Definition cmpresq (m : result Qc) (i : result cell) : nat := cmpres (fun a b => cmpc (Some a) b) m i.
Definition cmpresc (m : result cell) (i : result cell) : nat := cmpres cmpc m i.

Definition check_mid (qcallable : bool) (w : Qc) (evs : list (list (cell * cell * cell)))
                     (ey ept emt : result cell) : nat :=
  first_bad [ cmpresq (mid_rapidity_yield qcallable w (map (map (fun p => fst (fst p))) evs)) ey;
              cmpresc (mid_rapidity_mean qcallable w (map (map (fun p => (fst (fst p), snd (fst p)))) evs)) ept;
              cmpresc (mid_rapidity_mean qcallable w (map (map (fun p => (fst (fst p), snd p))) evs)) emt ].

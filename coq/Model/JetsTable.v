(* Finite tables standing in for the fastjet oracles of Model/Jets.v in executable instances (correspondence
   cases, the worked example): the harness asks fastjet and writes the answers down; lookups compare 4-vectors
   component-wise as rationals.  A missing entry yields a value no real answer can take (pT -1, dR -1, no jets). *)
From Coq Require Import List ZArith QArith Bool.
From SX Require Import Model.Jets.
Import ListNotations.

Definition veqb (a b : vec4) : bool :=
  Qeq_bool (vx a) (vx b) && Qeq_bool (vy a) (vy b) && Qeq_bool (vz a) (vz b) && Qeq_bool (ve a) (ve b).
Fixpoint vlist_eqb (a b : list vec4) : bool :=
  match a, b with
  | [], [] => true
  | x :: a', y :: b' => veqb x y && vlist_eqb a' b'
  | _, _ => false
  end.
Definition alg_id (a : alg) : nat := match a with AntiKt => 0 | Kt => 1 | Cambridge => 2 end.

Definition cluster_table := list ((nat * Q * list vec4) * list vec4).
Definition acc_table := list (vec4 * (Q * Q * Q)).
Definition dr_table := list ((vec4 * vec4) * Q).

Definition t_cluster (tab : cluster_table) (al : alg) (R : Q) (ps : list vec4) : list vec4 :=
  match find (fun e => match fst e with (n, r, k) => Nat.eqb n (alg_id al) && Qeq_bool r R && vlist_eqb k ps end) tab with
  | Some e => snd e
  | None => []
  end.
Definition t_acc (tab : acc_table) (v : vec4) : Q * Q * Q :=
  match find (fun e => veqb (fst e) v) tab with Some e => snd e | None => (-1, 0, 0) end.
Definition t_perp tab v := fst (fst (t_acc tab v)).
Definition t_eta tab v := snd (fst (t_acc tab v)).
Definition t_phi tab v := snd (t_acc tab v).
Definition t_dR (tab : dr_table) (jet v : vec4) : Q :=
  match find (fun e => veqb (fst (fst e)) jet && veqb (snd (fst e)) v) tab with Some e => snd e | None => -1 end.

Definition t_perform (ct : cluster_table) (at_ : acc_table) (dt : dr_table) :=
  perform (t_cluster ct) (t_perp at_) (t_eta at_) (t_phi at_) (t_dR dt).

(* equality of files up to equality of the rational columns as numbers *)
Definition row_eqb (a b : row) : bool :=
  Z.eqb (r_idx a) (r_idx b) && Qeq_bool (r_pt a) (r_pt b) && Qeq_bool (r_eta a) (r_eta b)
  && Qeq_bool (r_phi a) (r_phi b) && Z.eqb (r_status a) (r_status b) && Z.eqb (r_pid a) (r_pid b)
  && Qeq_bool (r_E a) (r_E b) && Z.eqb (r_event a) (r_event b).
Definition line_eqb (a b : line) : bool :=
  match a, b with
  | JetLine x, JetLine y => row_eqb x y
  | Foreign s, Foreign t => Z.eqb s t
  | _, _ => false
  end.
Fixpoint lines_eqb (a b : list line) : bool :=
  match a, b with
  | [], [] => true
  | x :: a', y :: b' => line_eqb x y && lines_eqb a' b'
  | _, _ => false
  end.
Definition file_eqb (a b : file) : bool :=
  match a, b with None, None => true | Some x, Some y => lines_eqb x y | _, _ => false end.

(* Runtime of the fragment in which tools/py2coq/gen_jackknife_methods.py re-states the method bodies of
   src/sparkx/Jackknife.py (Gen/GenJackknifeMethods.v) - definitions only.  Everything here is the fixed, trusted
   reading of the Python / random / numpy / multiprocessing primitives the translated methods call; the methods
   themselves (statements, operators, constants, argument order, defaults) are regenerated from the source on every
   run and proved equal to Model/Pool.v in Proofs/Jackknife_Source.v.

   * exceptions: [result] / [errcls] of Lib/Py.v.  Every translated method is
       gen_m self args g : result (value * St)
     where g is the state of the global `random` generator of the process that executes the method and the second
     component is that state afterwards (the state after an exception is not modelled).
   * values the USER passes and the code inspects with isinstance / `is None` are dynamic: [pyval] (delete_fraction,
     number_samples, seed of __init__; num_cores; what os.cpu_count() returns).  VInt is a Python int (bool
     included: True is VInt 1), VFloat a FINITE Python float (np.float64 included) as the rational it denotes,
     VOther anything else (str, numpy integer, list ...).  nan / +-inf are not represented.
   * the object: record [jself] of the three attributes, None = attribute not set (reading it: AttributeError).
   * data: an ndarray seen along axis 0 = [list A]; the statistic: [list A -> Args -> Kwargs -> K], a total pure
     function (Args / Kwargs: the opaque *args / **kwargs handed through); a number of the carrier K is what the
     statistic, np.mean and the variance arithmetic produce; [is_number] (oracle of the generated file) is what
     isinstance(x, (int, float)) answers for such a value.
   * random: rd.seed(z) overwrites the state ([reseed z]); rd.sample(range(n), d) is the oracle [draw] and raises
     ValueError for d < 0 or d > n, as CPython does.
   * multiprocessing (ASSUMED semantics, this is the one place where the real library is replaced by its contract):
       Pool(processes, initializer=f, initargs=(x,))  is a fresh worker process - a copy of the parent's generator
         state on which the initializer has run ([rt_pool]); processes must be None or an int >= 1 (int < 1:
         ValueError, anything else: TypeError, as CPython does); how many workers there are plays no role;
       pool.starmap(f, tuples)  applies f to the tuples IN ORDER on that worker and returns the results by
         position ([rt_starmap]); the parent's generator state is not touched; an exception in a task is re-raised.
     That the real pool (any number of workers, any assignment of tasks to workers, any order, any initial worker
     states) returns this very list is Properties/C15.v C15_sched on Model/Pool.v, whose tasks are proved equal to
     the translated task function (source_helper_unpack). *)
From Coq Require Import List ZArith QArith Qround Bool.
From SX Require Import Lib.Py Lib.KRing.
Import ListNotations.

(* ---- dynamically typed arguments ------------------------------------------------------------------------------ *)
Inductive pyval := VNone | VInt (z : Z) | VFloat (q : Q) | VOther.
Definition rt_as_int (v : pyval) : option Z := match v with VInt z => Some z | _ => None end.
Definition rt_as_float (v : pyval) : option Q := match v with VFloat q => Some q | _ => None end.
Definition rt_isinstance_int (v : pyval) : bool := match v with VInt _ => true | _ => false end.
Definition rt_isinstance_float (v : pyval) : bool := match v with VFloat _ => true | _ => false end.
Definition rt_is_none (v : pyval) : bool := match v with VNone => true | _ => false end.

(* ---- the object --------------------------------------------------------------------------------------------------- *)
Record jself := JSelf { delete_fraction_ : option Q; number_samples_ : option Z; seed_ : option Z }.
Definition jk_empty : jself := JSelf None None None.
Definition set_delete_fraction_ (s : jself) v := JSelf v (number_samples_ s) (seed_ s).
Definition set_number_samples_ (s : jself) v := JSelf (delete_fraction_ s) v (seed_ s).
Definition set_seed_ (s : jself) v := JSelf (delete_fraction_ s) (number_samples_ s) v.

(* ---- ints, floats, lists ---------------------------------------------------------------------------------------- *)
Definition zlen {T} (l : list T) : Z := Z.of_nat (length l).
(* range(n) *)
Definition rt_range (n : Z) : list Z := map Z.of_nat (seq 0 (Z.to_nat n)).
(* a < b on finite floats *)
Definition rt_qlt (a b : Q) : bool := negb (Qle_bool b a).
(* a // b on ints (floor division, ZeroDivisionError) *)
Definition rt_floordiv (a b : Z) : result Z := if (b =? 0)%Z then Err ZeroDivisionError else Ok (a / b)%Z.
(* l[i] *)
Definition rt_getitem {T} (l : list T) (i : Z) : result T := pyget l i.
(* l[:e] *)
Definition rt_slice_to {T} (l : list T) (e : Z) : list T :=
  if (e <? 0)%Z then firstn (Z.to_nat (zlen l + e)) l else firstn (Z.to_nat e) l.
(* for x in l: body (the body may raise) *)
Fixpoint rt_for {S T} (body : S -> T -> result S) (l : list T) (s : S) : result S :=
  match l with
  | [] => Ok s
  | a :: t => match body s a with Err e => Err e | Ok s' => rt_for body t s' end
  end.

(* ---- numpy ------------------------------------------------------------------------------------------------------- *)
Definition rt_copy {T} (l : list T) : list T := l.                 (* a.copy(): a value (aliasing is not modelled) *)
Definition rt_is_ndarray {T} (l : list T) : bool := true.          (* isinstance(data, np.ndarray): typed model *)
Definition rt_callable {F} (f : F) : bool := true.                 (* callable(function): typed model *)
Definition rt_np_array {T} (l : list T) : list T := l.             (* np.array(list of numbers) *)
(* np.delete(a, idx, axis=0) for indices inside range(len(a)) (what rd.sample(range(len(a)), d) returns) *)
Fixpoint rt_delete_from {T} (i : nat) (idx : list nat) (a : list T) : list T :=
  match a with
  | [] => []
  | x :: t => if existsb (Nat.eqb i) idx then rt_delete_from (S i) idx t else x :: rt_delete_from (S i) idx t
  end.
Definition rt_np_delete {T} (a : list T) (idx : list nat) : list T := rt_delete_from 0 idx a.

(* ---- random and multiprocessing --------------------------------------------------------------------------------- *)
Section Rng.
  Variable St : Type.
  Variable reseed : Z -> St.
  Variable draw : St -> nat -> nat -> list nat * St.

  (* rd.seed(z) *)
  Definition rt_seed (z : Z) (g : St) : St := reseed z.
  (* rd.sample(range(n), d) *)
  Definition rt_sample (g : St) (n d : Z) : result (list nat * St) :=
    let size := Z.max 0 n in
    if (d <? 0)%Z || (size <? d)%Z then Err ValueError else Ok (draw g (Z.to_nat size) (Z.to_nat d)).

  (* with Pool(processes, initializer=f, initargs=...) as pool: the worker process *)
  Definition rt_pool (processes : pyval) (initializer : St -> result (unit * St)) (g : St) : result St :=
    match processes with
    | VNone => rmap snd (initializer g)
    | VInt z => if (z <? 1)%Z then Err ValueError else rmap snd (initializer g)
    | _ => Err TypeError
    end.
  (* pool.starmap(f, tuples) *)
  Fixpoint rt_starmap {T R} (f : T -> St -> result (R * St)) (tuples : list T) (w : St) : result (list R) :=
    match tuples with
    | [] => Ok []
    | t :: rest => match f t w with
                   | Err e => Err e
                   | Ok (r, w') => rmap (cons r) (rt_starmap f rest w')
                   end
    end.
End Rng.

(* ---- numbers of the carrier ------------------------------------------------------------------------------------ *)
Section Num.
  Variable K : Type.
  Variables (k0 k1 : K) (kadd kmul kdiv : K -> K -> K) (kopp : K -> K).
  (* float(z) *)
  Definition rt_of_int (z : Z) : K := kz k0 k1 kadd kmul kopp z.
  (* np.mean(samples) *)
  Definition rt_np_mean (th : list K) : K := kdiv (ksum k0 kadd th) (rt_of_int (zlen th)).
  (* a / b on Python ints: the float quotient, ZeroDivisionError *)
  Definition rt_truediv_int (a b : Z) : result K :=
    if (b =? 0)%Z then Err ZeroDivisionError else Ok (kdiv (rt_of_int a) (rt_of_int b)).
End Num.

(* Runtime of the fragment in which tools/py2coq/gen_jets.py re-states JetAnalysis.py (Gen/GenJets.v) - definitions
   only.  Everything here is the fixed, trusted reading of the Python / fastjet / csv / file primitives the
   translated methods call; the methods themselves (statements, operators, constants, argument order, defaults) are
   regenerated from the source on every run and proved equal to Model/Jets.v in Proofs/C20_Source.v.

   * exceptions: [pyres] with the classes the methods raise; a method that touches the output file returns
     [file * pyres _] (the file survives an exception), the others [pyres _] or a plain value
   * the analysis object: record [jself] of the five attributes (None = not set); the attributes after a call that
     raised are not modelled
   * one file (the `output_filename` / `input_filename` argument) as a value, like Model/Jets.v:
     open "w" creates/truncates, "a" creates/keeps, "r" needs the file; csv rows are [line]s
   * fastjet: PseudoJet = vec4; JetDefinition / SelectorEtaRange / ClusterSequence are records of their arguments;
     inclusive_jets(ptmin) = the oracle's jets (all inclusive jets of that algorithm and R, sorted by pT) with
     pT >= ptmin (on squares, Model/Jets.v pt_ge); sorted_by_pt keeps an already sorted list; a selector keeps the
     jets with lo <= eta <= hi.  The generalised-kt algorithms (extra parameter) have no oracle: no jets. *)
From Coq Require Import List ZArith QArith Bool String.
From SX Require Import Model.Jets.
Import ListNotations.

Inductive pyexn := ValueError | TypeError | IndexError | FileNotFoundError.
Inductive pyres (A : Type) := POk (a : A) | PErr (e : pyexn).
Arguments POk {A}. Arguments PErr {A}.

(* ---- the object ---------------------------------------------------------------------------------------- *)
Record jself := JSelf { hadron_data_ : option (list event); jet_R_ : option Q; jet_eta_range_ : option (ext * ext);
                        jet_pT_range_ : option (ext * ext); jet_data_ : option (list (list row)) }.
Definition set_hadron_data_ (s : jself) v := JSelf v (jet_R_ s) (jet_eta_range_ s) (jet_pT_range_ s) (jet_data_ s).
Definition set_jet_R_ (s : jself) v := JSelf (hadron_data_ s) v (jet_eta_range_ s) (jet_pT_range_ s) (jet_data_ s).
Definition set_jet_eta_range_ (s : jself) v := JSelf (hadron_data_ s) (jet_R_ s) v (jet_pT_range_ s) (jet_data_ s).
Definition set_jet_pT_range_ (s : jself) v := JSelf (hadron_data_ s) (jet_R_ s) (jet_eta_range_ s) v (jet_data_ s).
Definition set_jet_data_ (s : jself) v := JSelf (hadron_data_ s) (jet_R_ s) (jet_eta_range_ s) (jet_pT_range_ s) v.

(* ---- Python lists ---------------------------------------------------------------------------------------- *)
Definition zlen {A} (l : list A) : Z := Z.of_nat (List.length l).
(* l[i] : negative indices count from the end, out of range = None (IndexError) *)
Definition py_index {A} (l : list A) (i : Z) : option A :=
  if (i <? 0)%Z then (if (i + zlen l <? 0)%Z then None else nth_error l (Z.to_nat (i + zlen l)))
  else nth_error l (Z.to_nat i).
Fixpoint enumerate_from {A} (start : Z) (l : list A) : list (Z * A) :=
  match l with [] => [] | a :: t => (start, a) :: enumerate_from (start + 1) t end.

(* for x in l: body   with exceptions / with the file *)
Fixpoint loopE {A S} (body : S -> A -> pyres S) (l : list A) (s : S) : pyres S :=
  match l with
  | [] => POk s
  | a :: t => match body s a with PErr e => PErr e | POk s' => loopE body t s' end
  end.
Fixpoint loopF {A S} (body : file -> S -> A -> file * pyres S) (l : list A) (fs : file) (s : S) : file * pyres S :=
  match l with
  | [] => (fs, POk s)
  | a :: t => match body fs s a with
              | (fs', PErr e) => (fs', PErr e)
              | (fs', POk s') => loopF body t fs' s'
              end
  end.

(* ---- the file --------------------------------------------------------------------------------------------- *)

Definition fs_open (fs : file) (mode : string) : pyres file :=
  if String.eqb mode "w"%string then POk (Some [])
  else if String.eqb mode "a"%string then POk (Some (content fs))
  else if String.eqb mode "r"%string then match fs with None => PErr FileNotFoundError | Some _ => POk fs end
  else PErr ValueError.
(* csv.writer(f).writerows(rows) on a handle opened with [mode] (io.UnsupportedOperation is a ValueError) *)
Definition fs_writerows (fs : file) (mode : string) (rows : list row) : pyres file :=
  if String.eqb mode "r"%string then PErr ValueError else POk (Some (content fs ++ map JetLine rows)).
(* csv.reader(f) *)
Definition fs_reader (fs : file) (mode : string) : pyres (list line) :=
  if String.eqb mode "r"%string then POk (content fs) else PErr ValueError.
(* int(row[k]) / float(row[k]) on a csv row: the integer columns are written as integer literals, the float columns
   by repr (never an integer literal), a foreign line has no cell that parses *)
Definition cell_int (l : line) (k : Z) : pyres Z :=
  match l with
  | Foreign _ => PErr ValueError
  | JetLine r =>
    if (k =? 0)%Z then POk (r_idx r) else if (k =? 4)%Z then POk (r_status r)
    else if (k =? 5)%Z then POk (r_pid r) else if (k =? 7)%Z then POk (r_event r)
    else if ((0 <=? k) && (k <? 8))%Z then PErr ValueError else PErr IndexError
  end.
Definition cell_float (l : line) (k : Z) : pyres Q :=
  match l with
  | Foreign _ => PErr ValueError
  | JetLine r =>
    if (k =? 1)%Z then POk (r_pt r) else if (k =? 2)%Z then POk (r_eta r)
    else if (k =? 3)%Z then POk (r_phi r) else if (k =? 6)%Z then POk (r_E r)
    else if (k =? 0)%Z then POk (inject_Z (r_idx r)) else if (k =? 4)%Z then POk (inject_Z (r_status r))
    else if (k =? 5)%Z then POk (inject_Z (r_pid r)) else if (k =? 7)%Z then POk (inject_Z (r_event r))
    else PErr IndexError
  end.

(* ---- fastjet ------------------------------------------------------------------------------------------------ *)
Inductive galg := GModel (a : alg) | GGenKt | GEEGenKt.
Definition alg_eqb (a b : alg) : bool :=
  match a, b with AntiKt, AntiKt | Kt, Kt | Cambridge, Cambridge => true | _, _ => false end.
Definition galg_eqb (a b : galg) : bool :=
  match a, b with
  | GModel x, GModel y => alg_eqb x y
  | GGenKt, GGenKt | GEEGenKt, GEEGenKt => true
  | _, _ => false
  end.
Record jetdef := JetDefinition { jd_alg : galg; jd_R : Q; jd_extra : option Q }.
Record selector := SelectorEtaRange { sel_lo : ext; sel_hi : ext }.
Record cseq := ClusterSequence { cs_in : list vec4; cs_def : jetdef }.

Section Fj.
  Variable cluster : alg -> Q -> list vec4 -> list vec4.
  Variable acc_eta : vec4 -> Q.
  Definition fj_all_jets (c : cseq) : list vec4 :=
    match jd_alg (cs_def c), jd_extra (cs_def c) with
    | GModel a, None => cluster a (jd_R (cs_def c)) (cs_in c)
    | _, _ => []
    end.
  Definition fj_inclusive_jets (c : cseq) (ptmin : ext) : list vec4 := filter (fun j => pt_ge j ptmin) (fj_all_jets c).
  Definition fj_sorted_by_pt (l : list vec4) : list vec4 := l.
  Definition fj_select (s : selector) (l : list vec4) : list vec4 :=
    filter (fun j => in_window (acc_eta j) (sel_lo s, sel_hi s)) l.
End Fj.

(* Python / numpy run-time fragment in which the methods of sparkx.loader.OscarLoader (and the helpers it inherits
   from BaseLoader) are written.  tools/py2coq/gen_oscarloader.py translates those method bodies statement by
   statement into Gallina over this file (Gen/GenOscarLoader.v); Proofs/OscarLoader_Source.v proves the hand model
   Model/Oscar.v equal to the result.  Executable definitions only.

   Values are dynamically typed, as in Python.  What is fixed here:
   * the file at PATH_OSCAR_ is ONE string (its text).  A file opened in text mode is the text not yet read;
     readline() returns the characters up to and including the next newline ("" at the end).  A file opened in
     binary mode is the text and a position (seek / read(1) / readline).  No carriage returns, no encoding
     (bytes and str hold the same characters).
   * `p in s`, s.replace(c, t) (c one character), s.split(c) (c one character) on characters.
   * a numpy integer array is [A2 rows] (shape (n,2), n >= 0), [A1 l] (shape (n,); np.array([]) is A1 []) or
     [A10] (shape (1,0): np.array([], dtype=np.int32, ndmin=2)).  Integers are unbounded (np.int32 overflow is
     not modelled), np.asarray(list of str) is the list.
   * int(str) / float(str) are the oracles tok_int / tok_float of Model/Oscar.v (None = ValueError).
   * Particle(...) and __apply_kwargs_filters(...) are arguments of the generated section; [Particle_hand] and
     [akf_hand] below are the instances over which the source theorems are stated.
   * the error classes are those of Model/Oscar.v; [Err OtherError] also marks every operation this fragment does
     not describe (AttributeError, OSError, UnboundLocalError, exhausted loop fuel, shapes outside the above ...). *)
From Coq Require Import List String Ascii ZArith QArith Bool Arith.
From SX Require Import Lib.Strs Lib.StrLemmas Lib.Split Model.Oscar.
Import ListNotations.
Local Open Scope string_scope.

Definition nlc : ascii := "010"%char.

Inductive arr := A2 (rows : list (Z * Z)) | A1 (l : list Z) | A10.

Inductive ov :=
| ONone
| OUnbound                              (* a name / attribute that has not been assigned *)
| OBool (b : bool)
| OInt (z : Z)                          (* Python int *)
| ONpInt (z : Z)                        (* numpy integer scalar *)
| OFloat (q : Q)                        (* a finite double *)
| OStr (s : string)
| OBytes (s : string)
| OList (l : list ov)
| OTuple (l : list ov)
| ODict (d : list (string * ov))        (* string keys, insertion order *)
| OArr (a : arr)
| OPart (p : particle)                  (* a Particle object *)
| OFile (rest : string)                 (* text file open for reading *)
| OBin (content : string) (pos : Z)     (* binary file open for reading *)
| OOpaque (n : nat).                    (* any other object; only handed on *)

(* the loader object *)
Record oself := mkO { o_text : string;          (* content of the file at PATH_OSCAR_ *)
                      o_path : ov; o_fmt : ov; o_opts : ov; o_ends : ov; o_nev : ov; o_cnt : ov; o_attrs : ov }.
Inductive attr := A_path | A_fmt | A_opts | A_ends | A_nev | A_cnt | A_attrs.

Definition attr_get (s : oself) (a : attr) : ov :=
  match a with
  | A_path => o_path s | A_fmt => o_fmt s | A_opts => o_opts s | A_ends => o_ends s
  | A_nev => o_nev s | A_cnt => o_cnt s | A_attrs => o_attrs s
  end.
Definition py_getattr (s : oself) (a : attr) : result ov :=
  match attr_get s a with OUnbound => Err OtherError | v => Ok v end.      (* AttributeError *)
Definition py_setattr (s : oself) (a : attr) (v : ov) : oself :=
  match a with
  | A_path => mkO (o_text s) v (o_fmt s) (o_opts s) (o_ends s) (o_nev s) (o_cnt s) (o_attrs s)
  | A_fmt => mkO (o_text s) (o_path s) v (o_opts s) (o_ends s) (o_nev s) (o_cnt s) (o_attrs s)
  | A_opts => mkO (o_text s) (o_path s) (o_fmt s) v (o_ends s) (o_nev s) (o_cnt s) (o_attrs s)
  | A_ends => mkO (o_text s) (o_path s) (o_fmt s) (o_opts s) v (o_nev s) (o_cnt s) (o_attrs s)
  | A_nev => mkO (o_text s) (o_path s) (o_fmt s) (o_opts s) (o_ends s) v (o_cnt s) (o_attrs s)
  | A_cnt => mkO (o_text s) (o_path s) (o_fmt s) (o_opts s) (o_ends s) (o_nev s) v (o_attrs s)
  | A_attrs => mkO (o_text s) (o_path s) (o_fmt s) (o_opts s) (o_ends s) (o_nev s) (o_cnt s) v
  end.
(* a new object before __init__ *)
Definition new_object (text : string) : oself := mkO text OUnbound OUnbound OUnbound OUnbound OUnbound OUnbound OUnbound.

Definition py_bound (v : ov) : result ov := match v with OUnbound => Err OtherError | _ => Ok v end.

(* ------------------------------------------------------------------ control *)
Fixpoint fold_leftM {S A} (f : S -> A -> result S) (l : list A) (s : S) : result S :=
  match l with
  | [] => Ok s
  | x :: t => s' <- f s x ;; fold_leftM f t s'
  end.
Fixpoint mapM {A B} (f : A -> result B) (l : list A) : result (list B) :=
  match l with [] => Ok [] | x :: t => y <- f x ;; r <- mapM f t ;; Ok (y :: r) end.
Fixpoint forallM {A} (f : A -> result bool) (l : list A) : result bool :=
  match l with [] => Ok true | x :: t => b <- f x ;; if b then forallM f t else Ok false end.
Fixpoint existsM {A} (f : A -> result bool) (l : list A) : result bool :=
  match l with [] => Ok false | x :: t => b <- f x ;; if b then Ok true else existsM f t end.
Definition andM (a b : result bool) : result bool := x <- a ;; if x then b else Ok false.
Definition orM (a b : result bool) : result bool := x <- a ;; if x then Ok true else b.
Definition notM (a : result bool) : result bool := x <- a ;; Ok (negb x).

(* while loops: the body says whether the loop goes on; a loop that outlives its fuel is not described *)
Inductive lres (S : Type) := LNext (s : S) | LBreak (s : S).
Arguments LNext {S}. Arguments LBreak {S}.
Fixpoint py_while {S} (fuel : nat) (body : S -> result (lres S)) (s : S) : result S :=
  match fuel with
  | O => Err OtherError
  | S m => r <- body s ;; match r with LNext s' => py_while m body s' | LBreak s' => Ok s' end
  end.
(* fuel: one more than what is left to read of the open files among the loop variables *)
Definition fuel_of (v : ov) : nat :=
  match v with OFile s => S (String.length s) | OBin s _ => S (String.length s) | _ => O end.
Definition py_fuel (l : list ov) : nat := S (fold_right (fun v n => (fuel_of v + n)%nat) O l).

(* ------------------------------------------------------------------ numbers *)
Definition as_int (v : ov) : option Z :=
  match v with OInt z | ONpInt z => Some z | _ => None end.
Definition int_like (a b : ov) (z : Z) : ov :=
  match a, b with ONpInt _, _ | _, ONpInt _ => ONpInt z | _, _ => OInt z end.

Definition py_add (a b : ov) : result ov :=
  match as_int a, as_int b with
  | Some x, Some y => Ok (int_like a b (x + y)%Z)
  | _, _ => match a, b with
            | OStr x, OStr y => Ok (OStr (x ++ y))
            | _, _ => Err OtherError
            end
  end.
Definition py_sub (a b : ov) : result ov :=
  match as_int a, as_int b with
  | Some x, Some y => Ok (int_like a b (x - y)%Z)
  | _, _ => Err OtherError
  end.
Definition py_mul (a b : ov) : result ov :=
  match as_int a, as_int b with
  | Some x, Some y => Ok (int_like a b (x * y)%Z)
  | _, _ => Err OtherError
  end.

Definition py_cmp (f : Z -> Z -> bool) (a b : ov) : result bool :=
  match as_int a, as_int b with
  | Some x, Some y => Ok (f x y)
  | _, _ => Err OtherError
  end.
Definition py_lt := py_cmp Z.ltb.
Definition py_le := py_cmp Z.leb.
Definition py_gt := py_cmp (fun x y => Z.ltb y x).
Definition py_ge := py_cmp (fun x y => Z.leb y x).

Definition is_nil {A} (l : list A) : bool := match l with [] => true | _ => false end.

(* a == b for the kinds of values the loader compares *)
Definition py_eq (a b : ov) : result bool :=
  match a, b with
  | OStr x, OStr y => Ok (String.eqb x y)
  | OBytes x, OBytes y => Ok (String.eqb x y)
  | ONone, ONone => Ok true
  | ONone, (OStr _ | OInt _ | ONpInt _ | OList _ | OTuple _ | OBytes _) => Ok false
  | (OStr _ | OInt _ | ONpInt _ | OList _ | OTuple _ | OBytes _), ONone => Ok false
  | OStr _, (OInt _ | ONpInt _ | OBytes _) | (OInt _ | ONpInt _ | OBytes _), OStr _ => Ok false
  | OList x, OList [] => Ok (is_nil x)
  | OList [], OList y => Ok (is_nil y)
  | _, _ => match as_int a, as_int b with
            | Some x, Some y => Ok (Z.eqb x y)
            | _, _ => Err OtherError
            end
  end.
Definition py_ne (a b : ov) : result bool := notM (py_eq a b).
Definition py_is_none (v : ov) : bool := match v with ONone => true | _ => false end.

Definition py_truthy (v : ov) : result bool :=
  match v with
  | ONone => Ok false
  | OBool b => Ok b
  | OInt z | ONpInt z => Ok (negb (Z.eqb z 0))
  | OStr s | OBytes s => Ok (negb (String.eqb s ""))
  | OList l | OTuple l => Ok (negb (is_nil l))
  | ODict d => Ok (negb (is_nil d))
  | OPart _ | OOpaque _ | OFile _ | OBin _ _ => Ok true
  | OFloat _ | OArr _ | OUnbound => Err OtherError
  end.

Inductive pytype := T_int | T_tuple.
Definition py_isinstance (v : ov) (t : pytype) : bool :=
  match t, v with
  | T_int, (OInt _ | OBool _) => true
  | T_tuple, OTuple _ => true
  | _, _ => false
  end.

(* ------------------------------------------------------------------ sequences *)
Definition zlen {A} (l : list A) : Z := Z.of_nat (List.length l).

Definition pyget {A} (l : list A) (i : Z) : result A :=
  let n := zlen l in
  let j := if (i <? 0)%Z then (n + i)%Z else i in
  if (j <? 0)%Z then Err IndexError
  else match nth_error l (Z.to_nat j) with Some x => Ok x | None => Err IndexError end.
Definition pyset {A} (l : list A) (i : Z) (v : A) : result (list A) :=
  let n := zlen l in
  let j := if (i <? 0)%Z then (n + i)%Z else i in
  if ((j <? 0) || (n <=? j))%Z then Err IndexError
  else Ok (firstn (Z.to_nat j) l ++ v :: skipn (S (Z.to_nat j)) l)%list.
(* where a slice bound falls *)
Definition clamp (i n : Z) : nat := Z.to_nat (if (i <? 0)%Z then Z.max 0 (n + i) else Z.min i n).
Definition pyslice {A} (l : list A) (lo hi : Z) : list A :=
  let a := clamp lo (zlen l) in let b := clamp hi (zlen l) in firstn (b - a) (skipn a l).
Definition pyslice_from {A} (l : list A) (lo : Z) : list A := skipn (clamp lo (zlen l)) l.

Definition py_len (v : ov) : result ov :=
  match v with
  | OList l | OTuple l => Ok (OInt (zlen l))
  | OStr s | OBytes s => Ok (OInt (Z.of_nat (String.length s)))
  | ODict d => Ok (OInt (zlen d))
  | OArr (A2 rows) => Ok (OInt (zlen rows))
  | OArr (A1 l) => Ok (OInt (zlen l))
  | OArr A10 => Ok (OInt 1)
  | _ => Err TypeError
  end.

Definition col_of (j : Z) : option bool :=
  if ((j =? 0) || (j =? -2))%Z then Some false else if ((j =? 1) || (j =? -1))%Z then Some true else None.
Definition rget (r : Z * Z) (c : bool) : Z := if c then snd r else fst r.
Definition rset (r : Z * Z) (c : bool) (v : Z) : Z * Z := if c then (fst r, v) else (v, snd r).

(* x[i] *)
Definition py_getitem (x i : ov) : result ov :=
  match i with
  | OStr k =>
    match x with
    | ODict d => match assoc k d with Some v => Ok v | None => Err KeyError end
    | OList _ | OTuple _ | OStr _ => Err TypeError
    | _ => Err OtherError
    end
  | OTuple [a; b] =>                                   (* x[a, b] *)
    match x, as_int a, as_int b with
    | OArr (A2 rows), Some a, Some b =>
        r <- pyget rows a ;; match col_of b with Some c => Ok (ONpInt (rget r c)) | None => Err IndexError end
    | OArr (A1 _), Some _, Some _ => Err IndexError    (* too many indices *)
    | OArr A10, Some _, Some _ => Err IndexError       (* axis 0 has size 1, axis 1 size 0 *)
    | (OList _ | OTuple _), _, _ => Err TypeError
    | _, _, _ => Err OtherError
    end
  | _ =>
    match as_int i with
    | None => Err OtherError
    | Some i =>
      match x with
      | OList l | OTuple l => pyget l i
      | OArr (A2 rows) => r <- pyget rows i ;; Ok (OArr (A1 [fst r; snd r]))
      | OArr (A1 l) => z <- pyget l i ;; Ok (ONpInt z)
      | OArr A10 => if ((i =? 0) || (i =? -1))%Z then Ok (OArr (A1 [])) else Err IndexError
      | ONpInt _ => Err IndexError                     (* invalid index to scalar variable *)
      | OInt _ | ONone | OBool _ | OFloat _ => Err TypeError
      | _ => Err OtherError
      end
    end
  end.

(* x[lo:] and x[lo:hi] *)
Definition py_slice_from (x lo : ov) : result ov :=
  match as_int lo, x with
  | Some lo, OList l => Ok (OList (pyslice_from l lo))
  | Some lo, OTuple l => Ok (OTuple (pyslice_from l lo))
  | Some lo, OArr (A2 rows) => Ok (OArr (A2 (pyslice_from rows lo)))
  | Some lo, OArr (A1 l) => Ok (OArr (A1 (pyslice_from l lo)))
  | _, _ => Err OtherError
  end.
Definition py_slice (x lo hi : ov) : result ov :=
  match as_int lo, as_int hi, x with
  | Some lo, Some hi, OList l => Ok (OList (pyslice l lo hi))
  | Some lo, Some hi, OTuple l => Ok (OTuple (pyslice l lo hi))
  | Some lo, Some hi, OArr (A2 rows) => Ok (OArr (A2 (pyslice rows lo hi)))
  | Some lo, Some hi, OArr (A1 l) => Ok (OArr (A1 (pyslice l lo hi)))
  | _, _, _ => Err OtherError
  end.
(* x[:, j] *)
Definition py_getcol (x j : ov) : result ov :=
  match as_int j, x with
  | Some j, OArr (A2 rows) =>
      match col_of j with Some c => Ok (OArr (A1 (map (fun r => rget r c) rows))) | None => Err IndexError end
  | Some _, OArr (A1 _) => Err IndexError
  | Some _, OArr A10 => Err IndexError
  | Some _, (OList _ | OTuple _) => Err TypeError
  | _, _ => Err OtherError
  end.

(* x[i] = v  (the new x) *)
Definition py_setitem (x i v : ov) : result ov :=
  match x, as_int i with
  | OArr (A2 rows), Some i =>
    match v with
    | OTuple [a; b] =>
      match as_int a, as_int b with
      | Some a, Some b => r <- pyset rows i (a, b) ;; Ok (OArr (A2 r))
      | _, _ => Err OtherError
      end
    | _ => Err OtherError
    end
  | OArr (A1 l), Some i => _ <- pyget l i ;; Err OtherError    (* a sequence into an element: not described *)
  | OArr A10, Some i => if ((i =? 0) || (i =? -1))%Z then Err ValueError else Err IndexError
  | OList l, Some i => r <- pyset l i v ;; Ok (OList r)
  | _, _ => Err OtherError
  end.

(* x[lo:, j] -= v  (the new x) *)
Definition py_isub_colslice (x lo j v : ov) : result ov :=
  match x, as_int lo, as_int j, as_int v with
  | OArr (A2 rows), Some lo, Some j, Some z =>
      match col_of j with
      | Some c => let k := clamp lo (zlen rows) in
                  Ok (OArr (A2 (firstn k rows ++ map (fun r => rset r c (rget r c - z)%Z) (skipn k rows))))
      | None => Err IndexError
      end
  | OArr (A1 _), Some _, Some _, Some _ => Err IndexError
  | OArr A10, Some _, Some _, Some _ => Err IndexError
  | _, _, _, _ => Err OtherError
  end.

(* l.append(x)  (the new l) *)
Definition py_append (l x : ov) : result ov :=
  match l with OList a => Ok (OList (a ++ [x])) | _ => Err OtherError end.

(* a, b = v *)
Definition py_unpack2 (v : ov) : result (ov * ov) :=
  match v with
  | OTuple [a; b] | OList [a; b] => Ok (a, b)
  | OTuple _ | OList _ => Err ValueError                 (* too many / not enough values to unpack *)
  | OInt _ | ONpInt _ | ONone | OBool _ | OFloat _ => Err TypeError
  | _ => Err OtherError
  end.

Fixpoint zrange_n (a : Z) (n : nat) : list Z := match n with O => [] | S n' => a :: zrange_n (a + 1) n' end.
Definition zrange (a b : Z) : list Z := zrange_n a (Z.to_nat (b - a)).
Definition py_range (a b : ov) : result (list ov) :=
  match as_int a, as_int b with
  | Some a, Some b => Ok (map OInt (zrange a b))
  | _, _ => Err OtherError
  end.
Definition py_iter (v : ov) : result (list ov) :=
  match v with
  | OList l | OTuple l => Ok l
  | OArr (A1 l) => Ok (map ONpInt l)
  | ODict d => Ok (map (fun kv => OStr (fst kv)) d)
  | OInt _ | ONpInt _ | ONone | OBool _ | OFloat _ => Err TypeError
  | _ => Err OtherError
  end.
Definition py_keys (v : ov) : result ov :=
  match v with ODict d => Ok (OList (map (fun kv => OStr (fst kv)) d)) | _ => Err OtherError end.
(* d.get(k) *)
Definition py_dict_get (d k : ov) : result ov :=
  match d, k with
  | ODict d, OStr k => Ok (match assoc k d with Some v => v | None => ONone end)
  | _, _ => Err OtherError
  end.
(* list(x) *)
Definition py_list (v : ov) : result ov := l <- py_iter v ;; Ok (OList l).
(* filter(None, x): the true elements (as a list; it is only handed to list()) *)
Fixpoint filterM {A} (f : A -> result bool) (l : list A) : result (list A) :=
  match l with
  | [] => Ok []
  | x :: t => b <- f x ;; r <- filterM f t ;; Ok (if b then x :: r else r)
  end.
Definition py_filter_none (v : ov) : result ov := l <- py_iter v ;; r <- filterM py_truthy l ;; Ok (OList r).

(* a in b *)
Definition py_in (a b : ov) : result bool :=
  match b with
  | OStr s => match a with OStr p => Ok (contains p s) | _ => Err TypeError end
  | OList l | OTuple l => existsM (fun x => py_eq x a) l
  | ODict d => match a with OStr k => Ok (existsb (fun kv => String.eqb k (fst kv)) d) | _ => Err OtherError end
  | _ => Err OtherError
  end.
Definition py_not_in (a b : ov) : result bool := notM (py_in a b).

(* ------------------------------------------------------------------ strings *)
Fixpoint replace_char (c : ascii) (t s : string) : string :=
  match s with
  | EmptyString => EmptyString
  | String a s' => if Ascii.eqb a c then t ++ replace_char c t s' else String a (replace_char c t s')
  end.
Definition py_str_replace (s a b : ov) : result ov :=
  match s, a, b with
  | OStr s, OStr (String c EmptyString), OStr t => Ok (OStr (replace_char c t s))
  | _, _, _ => Err OtherError
  end.
Definition py_str_split (s sep : ov) : result ov :=
  match s, sep with
  | OStr s, OStr (String c EmptyString) => Ok (OList (map OStr (split_on c s)))
  | _, _ => Err OtherError
  end.
Definition py_decode (v : ov) : result ov := match v with OBytes s => Ok (OStr s) | _ => Err OtherError end.

(* int(x), float(x) *)
Definition py_int (tok_int : string -> option Q) (v : ov) : result ov :=
  match v with
  | OInt z | ONpInt z => Ok (OInt z)
  | OStr s => match tok_int s with Some q => Ok (OInt (to_Z q)) | None => Err ValueError end
  | ONone | OList _ | OTuple _ | ODict _ => Err TypeError
  | _ => Err OtherError
  end.
Definition py_float (tok_float : string -> option Q) (v : ov) : result ov :=
  match v with
  | OStr s => match tok_float s with Some q => Ok (OFloat q) | None => Err ValueError end
  | OFloat q => Ok (OFloat q)
  | ONone | OList _ | OTuple _ | ODict _ => Err TypeError
  | _ => Err OtherError
  end.

(* ------------------------------------------------------------------ numpy *)
Definition py_shape (v : ov) : result ov :=
  match v with
  | OArr (A2 rows) => Ok (OTuple [OInt (zlen rows); OInt 2])
  | OArr (A1 l) => Ok (OTuple [OInt (zlen l)])
  | OArr A10 => Ok (OTuple [OInt 1; OInt 0])
  | _ => Err OtherError
  end.
Definition zsum (l : list Z) : Z := fold_right Z.add 0%Z l.
(* np.sum(x, axis=0) *)
Definition py_np_sum_axis0 (v : ov) : result ov :=
  match v with
  | OArr (A2 rows) => Ok (OArr (A1 [zsum (map fst rows); zsum (map snd rows)]))
  | OArr (A1 l) => Ok (ONpInt (zsum l))
  | OArr A10 => Ok (OArr (A1 []))
  | _ => Err OtherError
  end.
Definition py_np_atleast_2d (v : ov) : result ov :=
  match v with
  | OArr (A2 rows) => Ok (OArr (A2 rows))
  | OArr (A1 []) => Ok (OArr A10)
  | OArr (A1 [a; b]) => Ok (OArr (A2 [(a, b)]))
  | OArr A10 => Ok (OArr A10)
  | _ => Err OtherError
  end.
Fixpoint delete_nth {A} (i : nat) (l : list A) : list A :=
  match l, i with
  | [], _ => []
  | _ :: t, O => t
  | x :: t, S j => x :: delete_nth j t
  end.
(* np.delete(x, i, axis=0) *)
Definition py_np_delete_axis0 (x i : ov) : result ov :=
  match as_int i with
  | None => Err OtherError
  | Some i =>
    match x with
    | OArr (A2 rows) =>
        let n := zlen rows in let j := if (i <? 0)%Z then (n + i)%Z else i in
        if ((j <? 0) || (n <=? j))%Z then Err IndexError else Ok (OArr (A2 (delete_nth (Z.to_nat j) rows)))
    | OArr (A1 l) =>
        let n := zlen l in let j := if (i <? 0)%Z then (n + i)%Z else i in
        if ((j <? 0) || (n <=? j))%Z then Err IndexError else Ok (OArr (A1 (delete_nth (Z.to_nat j) l)))
    | OArr A10 => if ((i =? 0) || (i =? -1))%Z then Err OtherError else Err IndexError
    | _ => Err OtherError
    end
  end.
(* np.array([]) *)
Definition py_np_array_empty : ov := OArr (A1 []).
(* np.array(x, dtype=np.int32, ndmin=2) for a list of two-element lists of ints / numerals *)
Definition cell_int (tok_int : string -> option Q) (v : ov) : result Z :=
  match v with
  | OInt z | ONpInt z => Ok z
  | OStr s => match tok_int s with Some q => Ok (to_Z q) | None => Err ValueError end
  | _ => Err OtherError
  end.
Definition row_int (tok_int : string -> option Q) (v : ov) : result (Z * Z) :=
  match v with
  | OList [a; b] => x <- cell_int tok_int a ;; y <- cell_int tok_int b ;; Ok (x, y)
  | _ => Err OtherError
  end.
Definition py_np_array_int32_2d (tok_int : string -> option Q) (v : ov) : result ov :=
  match v with
  | OList [] => Ok (OArr A10)
  | OList l => r <- mapM (row_int tok_int) l ;; Ok (OArr (A2 r))
  | _ => Err OtherError
  end.
(* np.asarray(list of str) *)
Definition py_np_asarray (v : ov) : result ov :=
  match v with OList l => Ok (OList l) | _ => Err OtherError end.

(* ------------------------------------------------------------------ files *)
Definition py_open (s : oself) (binary : bool) : ov := if binary then OBin (o_text s) 0 else OFile (o_text s).

(* (the line up to and including the next newline, the rest) *)
Fixpoint read_line (s : string) : string * string :=
  match s with
  | EmptyString => (EmptyString, EmptyString)
  | String c s' => if Ascii.eqb c nlc then (String c EmptyString, s')
                   else let (l, r) := read_line s' in (String c l, r)
  end.
Fixpoint drop (n : nat) (s : string) : string :=
  match n, s with O, _ => s | S m, String _ s' => drop m s' | S _, EmptyString => EmptyString end.

(* f.readline(): (the file afterwards, the line) *)
Definition py_readline (f : ov) : result (ov * ov) :=
  match f with
  | OFile s => let (l, r) := read_line s in Ok (OFile r, OStr l)
  | OBin s p => let (l, _) := read_line (drop (Z.to_nat p) s) in
                Ok (OBin s (p + Z.of_nat (String.length l)), OBytes l)
  | _ => Err OtherError
  end.
(* f.read(1) of a binary file *)
Definition py_read (f n : ov) : result (ov * ov) :=
  match f, n with
  | OBin s p, OInt 1 =>
      match drop (Z.to_nat p) s with
      | EmptyString => Ok (OBin s p, OBytes EmptyString)
      | String c _ => Ok (OBin s (p + 1), OBytes (String c EmptyString))
      end
  | _, _ => Err OtherError
  end.
(* f.seek(off, whence), whence: 1 = os.SEEK_CUR, 2 = os.SEEK_END; a negative position is an OSError *)
Definition py_seek (f off whence : ov) : result ov :=
  match f, off, whence with
  | OBin s p, OInt off, OInt w =>
      let base := if (w =? 2)%Z then Some (Z.of_nat (String.length s)) else if (w =? 1)%Z then Some p else None in
      match base with
      | Some b => if (b + off <? 0)%Z then Err OtherError else Ok (OBin s (b + off))
      | None => Err OtherError
      end
  | _, _, _ => Err OtherError
  end.

(* ------------------------------------------------------------------ Particle and the filters, over the hand model *)
Definition strs_of (l : list ov) : option (list string) :=
  fold_right (fun v acc => match v, acc with OStr s, Some r => Some (s :: r) | _, _ => None end) (Some []) l.
Definition parts_of (l : list ov) : option (list particle) :=
  fold_right (fun v acc => match v, acc with OPart p, Some r => Some (p :: r) | _, _ => None end) (Some []) l.
Definition enc_strs (l : list string) : ov := OList (map OStr l).
Definition enc_parts (l : list particle) : ov := OList (map OPart l).
Definition enc_events (l : list (list particle)) : ov := OList (map enc_parts l).

(* Particle(format, tokens) / Particle(format, tokens, attribute_list) over a function of the type of
   Model/Oscar.v's mk_particle.  Without attribute list the call is described for the formats other than ASCII. *)
Definition Particle_hand (mk : string -> list string -> list string -> result particle) (args : list ov) : result ov :=
  match args with
  | [OStr fmt; OList toks] =>
      match strs_of toks with
      | Some t => if String.eqb fmt "ASCII" then Err OtherError else p <- mk fmt [] t ;; Ok (OPart p)
      | None => Err OtherError
      end
  | [OStr fmt; OList toks; OList attrs] =>
      match strs_of toks, strs_of attrs with
      | Some t, Some a => p <- mk fmt a t ;; Ok (OPart p)
      | _, _ => Err OtherError
      end
  | _ => Err OtherError
  end.

(* __apply_kwargs_filters([event], filters): as in Model/Oscar.v the filters are an arbitrary total map of one
   event, here depending on the value given as `filters` *)
Definition akf_hand (F : ov -> list particle -> list particle) (events filters : ov) : result ov :=
  match events with
  | OList [OList d] => match parts_of d with
                       | Some ps => Ok (OList [enc_parts (F filters ps)])
                       | None => Err OtherError
                       end
  | _ => Err OtherError
  end.

(* ------------------------------------------------------------------ the vocabulary of the source theorems
   (Proofs/OscarLoader_Source.v, Properties/SrcOscarLoader.v): rendered files, how the selector and the counts of
   Model/Oscar.v appear as Python values, and the part of Model/Oscar.v's load after the header scan *)
Definition tok_ok (t : string) : bool := no_char sp t && no_char nlc t.
Definition line_ok (l : line) : Prop := l <> [] /\ forallb tok_ok l = true.
Definition render_line (l : line) : string := join sp l ++ String nlc "".
Fixpoint render_lines (ls : list line) : string :=
  match ls with [] => "" | l :: t => join sp l ++ String nlc (render_lines t) end.

(* the keyword argument events= of load: absent / an int / a pair of ints *)
Definition sel_val (sel : selector) : option ov :=
  match sel with SelAll => None | SelOne k => Some (OInt k) | SelRange a b => Some (OTuple [OInt a; OInt b]) end.
Definition cnt_of (rows : list (Z * Z)) : arr := match rows with [] => A10 | _ => A2 rows end.
Definition inj_cnt (c : list (Z * Z)) : arr := match c with [] => A1 [] | _ => A2 c end.
(* the selector load() accepts (after its checks) *)
Definition sel_ok (sel : selector) : Prop :=
  match sel with SelAll => True | SelOne k => (0 <= k)%Z | SelRange a b => (0 <= a <= b)%Z end.
Definition sel_nonneg (sel : selector) : Prop :=
  match sel with SelAll => True | SelOne k => (0 <= k)%Z | SelRange a b => (0 <= a)%Z end.
(* a method that returns an integer: which integer, as which kind of Python number is left open *)
Definition int_of {A} (wrap : ov -> A) (r : result A) (h : result Z) : Prop :=
  match h with Ok z => exists v, r = Ok (wrap v) /\ as_int v = Some z | Err e => r = Err e end.
(* the object after set_oscar_format *)
Definition fmt_state (self : oself) (fa : string * list string) : oself :=
  let s := py_setattr self A_fmt (OStr (fst fa)) in
  if (fst fa =? "ASCII")%string then py_setattr s A_attrs (enc_strs (snd fa)) else s.
(* every event label of an "out" line is a numeral (the source converts it only after the whole scan) *)
Definition labels_ok (ti : string -> option Q) (ls : list line) : Prop :=
  Forall (fun l => kind_scan l = SOut -> forall e, nth_error l 2 = Some e -> ti e <> None) ls.
(* the constructor filter of Model/Oscar.v: present iff filters= is given *)
Definition flt_of (F : ov -> list particle -> list particle) (d : list (string * ov)) : option (list particle -> list particle) :=
  match assoc "filters" d with Some fv => Some (F fv) | None => None end.
(* Model/Oscar.v load, from num_skip on (what set_particle_list does) *)
Definition load_tail tf ti pv flt (file : list line) sel fmt attrs (nev : Z) (sc : list (Z * Z) * list line) : result loaded :=
  let cnts := fst sc in
  ns <- num_skip sel cnts ;;
  nr <- num_read sel cnts ;;
  let body := skipn (Z.to_nat ns) file in
  first_ok <- match body, Z.to_nat nr with
              | l0 :: _, S _ => if negb (has "#" l0) && negb (has "out" l0) then Err ValueError else Ok tt
              | _, _ => Ok tt
              end ;;
  st <- read_loop tf ti pv flt (sel_first sel) fmt attrs (Z.to_nat nr) body
          {| plist := []; data := []; counts := sel_counts sel cnts; cut := 0 |} ;;
  let nev' := (nev - cut st)%Z in
  fin <- match sel with
         | SelAll => if (Z.of_nat (List.length (plist st)) =? nev')%Z then Ok (nev', counts st) else Err IndexError
         | _ => Ok (Z.of_nat (List.length (plist st)), counts st)
         end ;;
  Ok {| l_events := match plist st with [] => [[]] | pl => pl end;
        l_nevents := fst fin; l_counts := snd fin; l_format := fmt; l_attrs := attrs;
        l_footers := snd sc |}.
Definition enc_foots (foots : list line) : ov := OList (map (fun l => OStr (render_line l)) foots).
(* keyword arguments of load *)
Definition keys_ok (d : list (string * ov)) : bool :=
  forallb (fun kv => String.eqb "events" (fst kv) || String.eqb "filters" (fst kv)) d.
Definition is_pyint (v : ov) : bool := py_isinstance v T_int.
Definition opts_verdict (d : list (string * ov)) : option err :=
  if negb (keys_ok d) then Some ValueError
  else match assoc "events" d with
       | Some (OTuple l) =>
           if negb (forallb is_pyint l) then Some TypeError
           else match l with
                | [OInt a; OInt b] => if (b <? a)%Z then Some ValueError
                                      else if (a <? 0)%Z || (b <? 0)%Z then Some ValueError else None
                | _ => None
                end
       | Some (OInt k) => if (k <? 0)%Z then Some ValueError else None
       | _ => None
       end.

(* Runtime of the fragment in which tools/py2coq/gen_jetscapeloader.py re-states loader/JetscapeLoader.py and the
   helpers of loader/BaseLoader.py (Gen/GenJetscapeLoader.v) - definitions only.  Everything here is the fixed,
   trusted reading of the Python / numpy / file primitives the translated methods call; the methods themselves
   (statements, conditions, operators, constants, argument order, loops, exceptions) are regenerated from the source
   on every run and proved equal to Model/Jetscape.v in Proofs/JetscapeLoader_Source.v.

   * results: [Oscar.result] with the exception classes of [Oscar.err]; [OtherError] stands for every other class
     (OSError of a backward seek, FileNotFoundError) AND for "this runtime does not define the operation on this
     operand" (bool / float / None ... operands of arithmetic, comparison of non-integers, iteration over a str):
     the runtime abstains instead of guessing, the theorems show that the result is not reached in their domain;
   * a value taken out of **kwargs is a [pyval]: a genuine int, a bool, a str, a tuple of values, or [VOther]
     (anything that is neither int (incl. bool), tuple nor str: float, None, list, dict, numpy scalar ...);
   * the count array self.num_output_per_event_ is [A1] (the 1-D empty array: np.array([]), np.array([], dtype))
     or [A2 rows] (shape (n, 2), n >= 0, integer; int32 wrap-around is not modelled);
   * a text file opened for reading is the list of the lines readline() will return (each with its newline, except
     possibly the last; never ""), readline() at the end returns ""; a binary file is its byte string and a
     position; ASCII only, no carriage returns (universal-newline translation is not modelled);
   * a str is a Coq string; `a in b` is [Strs.contains]; `s.split(c)` is [Split.split_on]; `s.split()` splits at
     every ASCII whitespace character and drops the empty pieces; `s.strip()` drops ASCII whitespace at both ends;
   * a list is a value: x.append(e) is x ++ [e]; where a list object is reachable under two names / inside another
     list and is changed in place, the translator inserts an alias flag and the method returns Err OtherError;
   * the object after a call that raised is not modelled. *)
From Coq Require Import List String Ascii ZArith QArith Bool Arith.
From SX Require Import Lib.Strs Lib.Split Model.Oscar.
Import ListNotations.
Local Open Scope string_scope.

(* ---- values out of **kwargs ---------------------------------------------------------------------------------- *)
Inductive pyval := VInt (z : Z) | VBool (b : bool) | VStr (s : string) | VTuple (l : list pyval) | VOther.
Notation kwargs := (list (string * pyval)).          (* dict in insertion order, keys distinct *)

Definition dict_mem (k : string) (d : kwargs) : bool := match assoc k d with Some _ => true | None => false end.
Definition dict_get (d : kwargs) (k : string) : result pyval :=
  match assoc k d with Some v => Ok v | None => Err KeyError end.
Definition dict_truthy (d : kwargs) : bool := match d with [] => false | _ => true end.
Definition dict_keys (d : kwargs) : list string := map fst d.

Definition isinstance_int (v : pyval) : bool := match v with VInt _ | VBool _ => true | _ => false end.
Definition isinstance_tuple (v : pyval) : bool := match v with VTuple _ => true | _ => false end.
Definition isinstance_str (v : pyval) : bool := match v with VStr _ => true | _ => false end.

(* an operand of + - range() indexing slicing *)
Definition as_int (v : pyval) : result Z := match v with VInt z => Ok z | _ => Err OtherError end.
(* a value stored where the model keeps a str *)
Definition as_str (v : pyval) : result string := match v with VStr s => Ok s | _ => Err OtherError end.

Definition dyn_cmp (op : Z -> Z -> bool) (a b : pyval) : result bool :=
  match a, b with VInt x, VInt y => Ok (op x y) | _, _ => Err OtherError end.
Definition dyn_lt := dyn_cmp Z.ltb.
Definition dyn_le := dyn_cmp Z.leb.
Definition dyn_gt := dyn_cmp Z.gtb.
Definition dyn_ge := dyn_cmp Z.geb.
(* == never raises; int / str / tuple are pairwise unequal kinds *)
Definition dyn_eq (a b : pyval) : result bool :=
  match a, b with
  | VInt x, VInt y => Ok (x =? y)%Z
  | VStr x, VStr y => Ok (x =? y)%string
  | VInt _, VStr _ | VStr _, VInt _ | VTuple _, VInt _ | VInt _, VTuple _ | VTuple _, VStr _ | VStr _, VTuple _ => Ok false
  | _, _ => Err OtherError
  end.

Definition zlen {A} (l : list A) : Z := Z.of_nat (List.length l).
(* l[i]: negative indices count from the end *)
Definition py_nth {A} (l : list A) (i : Z) : option A :=
  if (i <? 0)%Z then (if (i + zlen l <? 0)%Z then None else nth_error l (Z.to_nat (i + zlen l)))
  else nth_error l (Z.to_nat i).
Definition list_get {A} (l : list A) (i : Z) : result A :=
  match py_nth l i with Some a => Ok a | None => Err IndexError end.
Definition list_is_empty {A} (l : list A) : bool := match l with [] => true | _ => false end.

Definition dyn_index (v : pyval) (i : Z) : result pyval :=
  match v with
  | VTuple l => list_get l i
  | VInt _ | VBool _ => Err TypeError                  (* 'int' object is not subscriptable *)
  | _ => Err OtherError
  end.
(* a, b = v *)
Definition dyn_unpack2 (v : pyval) : result (pyval * pyval) :=
  match v with
  | VTuple [a; b] => Ok (a, b)
  | VTuple _ => Err ValueError                          (* too many / not enough values to unpack *)
  | VInt _ | VBool _ => Err TypeError                   (* cannot unpack non-iterable int *)
  | _ => Err OtherError
  end.
(* for x in v *)
Definition dyn_iter (v : pyval) : result (list pyval) :=
  match v with
  | VTuple l => Ok l
  | VInt _ | VBool _ => Err TypeError
  | _ => Err OtherError
  end.

(* int(str) is an oracle (None: ValueError) *)
Definition str_to_int (str_int : string -> option Z) (s : string) : result Z :=
  match str_int s with Some z => Ok z | None => Err ValueError end.
Definition str_to_float (str_float : string -> option Q) (s : string) : result Q :=
  match str_float s with Some q => Ok q | None => Err ValueError end.
(* int(v) *)
Definition dyn_int (str_int : string -> option Z) (v : pyval) : result Z :=
  match v with
  | VInt z => Ok z
  | VBool b => Ok (if b then 1 else 0)%Z
  | VStr s => str_to_int str_int s
  | VTuple _ => Err TypeError
  | VOther => Err OtherError
  end.

(* ---- str ------------------------------------------------------------------------------------------------------- *)
Definition str_truthy (s : string) : bool := negb (s =? "").
(* s.replace(c, r) for a one-character c *)
Fixpoint str_replace_char (c : ascii) (r : string) (s : string) : string :=
  match s with
  | EmptyString => EmptyString
  | String a t => if Ascii.eqb a c then r ++ str_replace_char c r t else String a (str_replace_char c r t)
  end.
(* str.isspace() on ASCII: \t \n \v \f \r, \x1c-\x1f, blank *)
Definition is_ws (a : ascii) : bool :=
  let n := nat_of_ascii a in ((9 <=? n) && (n <=? 13) || (28 <=? n) && (n <=? 32))%nat.
Fixpoint split_pred (p : ascii -> bool) (s : string) : list string :=
  match s with
  | EmptyString => [EmptyString]
  | String a s' =>
    if p a then EmptyString :: split_pred p s'
    else match split_pred p s' with
         | [] => [String a EmptyString]
         | t :: ts => String a t :: ts
         end
  end.
Definition py_split_ws (s : string) : list string := filter str_truthy (split_pred is_ws s).
Fixpoint py_lstrip (s : string) : string :=
  match s with
  | EmptyString => EmptyString
  | String a t => if is_ws a then py_lstrip t else s
  end.
Fixpoint py_rstrip (s : string) : string :=
  match s with
  | EmptyString => EmptyString
  | String a t => let r := py_rstrip t in if is_ws a && (r =? "") then EmptyString else String a r
  end.
Definition py_strip (s : string) : string := py_lstrip (py_rstrip s).

(* ---- the count array --------------------------------------------------------------------------------------------- *)
Inductive arr := A1 | A2 (rows : list (Z * Z)).
Inductive npv := NScalar (z : Z) | NVec (l : list Z).

Definition arr_len (a : arr) : Z := match a with A1 => 0%Z | A2 r => zlen r end.
Definition arr_shape0 (a : arr) : Z := arr_len a.
(* np.sum(a, axis=0) *)
Definition np_sum_axis0 (a : arr) : npv :=
  match a with
  | A1 => NScalar 0
  | A2 r => NVec [fold_right (fun c acc => fst c + acc)%Z 0%Z r; fold_right (fun c acc => snd c + acc)%Z 0%Z r]
  end.
Definition npv_index (v : npv) (i : Z) : result Z :=
  match v with NScalar _ => Err IndexError | NVec l => list_get l i end.
(* a[i] *)
Definition arr_row (a : arr) (i : Z) : result (Z * Z) :=
  match a with A1 => Err IndexError | A2 r => list_get r i end.
Definition row_get (r : Z * Z) (j : Z) : result Z :=
  if ((j =? 0) || (j =? -2))%Z then Ok (fst r) else if ((j =? 1) || (j =? -1))%Z then Ok (snd r) else Err IndexError.
(* a[i, j] *)
Definition arr_get2 (a : arr) (i j : Z) : result Z :=
  match a with A1 => Err IndexError | A2 r => bind (list_get r i) (fun row => row_get row j) end.
(* start:stop of a slice over n elements *)
Definition slice_bound (n : Z) (b : option Z) (dflt : Z) : Z :=
  match b with
  | None => dflt
  | Some i => if (i <? 0)%Z then Z.max (i + n) 0 else Z.min i n
  end.
Definition py_slice {A} (l : list A) (lo hi : option Z) : list A :=
  let n := zlen l in
  let a := slice_bound n lo 0 in
  let b := slice_bound n hi n in
  firstn (Z.to_nat (b - a)) (skipn (Z.to_nat a) l).
(* a[lo:hi] *)
Definition arr_slice (a : arr) (lo hi : option Z) : arr :=
  match a with A1 => A1 | A2 r => A2 (py_slice r lo hi) end.
Definition norm_index (n i : Z) : option nat :=
  let j := if (i <? 0)%Z then (i + n)%Z else i in
  if ((0 <=? j) && (j <? n))%Z then Some (Z.to_nat j) else None.
(* a[i] = (x, y) *)
Definition arr_set_row (a : arr) (i : Z) (v : Z * Z) : result arr :=
  match a with
  | A1 => Err IndexError
  | A2 r => match norm_index (zlen r) i with
            | Some k => Ok (A2 (firstn k r ++ v :: skipn (S k) r))
            | None => Err IndexError
            end
  end.
(* np.delete(a, i, axis=0) *)
Definition np_delete_row (a : arr) (i : Z) : result arr :=
  match a with
  | A1 => Err IndexError
  | A2 r => match norm_index (zlen r) i with
            | Some k => Ok (A2 (firstn k r ++ skipn (S k) r))
            | None => Err IndexError
            end
  end.
(* np.atleast_2d: a 2-D array is returned as it is (the 1-D empty array would become shape (1, 0): not modelled) *)
Definition np_atleast_2d (a : arr) : result arr := match a with A1 => Err OtherError | A2 _ => Ok a end.
(* a[lo:, j] -= d *)
Definition arr_sub_col_from (a : arr) (lo : Z) (j : Z) (d : Z) : result arr :=
  match a with
  | A1 => Err IndexError
  | A2 r =>
    let k := Z.to_nat (slice_bound (zlen r) (Some lo) 0) in
    if ((j =? 0) || (j =? -2))%Z then Ok (A2 (firstn k r ++ map (fun c => (fst c - d, snd c)%Z) (skipn k r)))
    else if ((j =? 1) || (j =? -1))%Z then Ok (A2 (firstn k r ++ map (fun c => (fst c, snd c - d)%Z) (skipn k r)))
    else Err IndexError
  end.
(* np.array(list of lists of str, dtype=np.int32); np_int32 is the conversion of one str (None: ValueError) *)
Fixpoint rows_int32 (np_int32 : string -> option Z) (l : list (list string)) : result (list (Z * Z)) :=
  match l with
  | [] => Ok []
  | [a; b] :: t =>
    match np_int32 a, np_int32 b with
    | Some x, Some y => bind (rows_int32 np_int32 t) (fun r => Ok ((x, y) :: r))
    | _, _ => Err ValueError
    end
  | _ :: _ => Err OtherError                            (* another shape than (n, 2): not modelled *)
  end.
Definition np_array_int32 (np_int32 : string -> option Z) (l : list (list string)) : result arr :=
  match l with
  | [] => Ok A1
  | _ => bind (rows_int32 np_int32 l) (fun r => Ok (A2 r))
  end.

(* ---- the object --------------------------------------------------------------------------------------------------- *)
Record jself := JSelf { PATH_JETSCAPE_ : string; particle_type_ : string; particle_type_defining_string_ : string;
                        optional_arguments_ : kwargs; event_end_lines_ : list string;
                        num_output_per_event_ : arr; num_events_ : Z }.
Definition set_PATH_JETSCAPE_ (s : jself) v :=
  JSelf v (particle_type_ s) (particle_type_defining_string_ s) (optional_arguments_ s) (event_end_lines_ s)
        (num_output_per_event_ s) (num_events_ s).
Definition set_particle_type_ (s : jself) v :=
  JSelf (PATH_JETSCAPE_ s) v (particle_type_defining_string_ s) (optional_arguments_ s) (event_end_lines_ s)
        (num_output_per_event_ s) (num_events_ s).
Definition set_particle_type_defining_string_ (s : jself) v :=
  JSelf (PATH_JETSCAPE_ s) (particle_type_ s) v (optional_arguments_ s) (event_end_lines_ s)
        (num_output_per_event_ s) (num_events_ s).
Definition set_optional_arguments_ (s : jself) v :=
  JSelf (PATH_JETSCAPE_ s) (particle_type_ s) (particle_type_defining_string_ s) v (event_end_lines_ s)
        (num_output_per_event_ s) (num_events_ s).
Definition set_event_end_lines_ (s : jself) v :=
  JSelf (PATH_JETSCAPE_ s) (particle_type_ s) (particle_type_defining_string_ s) (optional_arguments_ s) v
        (num_output_per_event_ s) (num_events_ s).
Definition set_num_output_per_event_ (s : jself) v :=
  JSelf (PATH_JETSCAPE_ s) (particle_type_ s) (particle_type_defining_string_ s) (optional_arguments_ s)
        (event_end_lines_ s) v (num_events_ s).
Definition set_num_events_ (s : jself) v :=
  JSelf (PATH_JETSCAPE_ s) (particle_type_ s) (particle_type_defining_string_ s) (optional_arguments_ s)
        (event_end_lines_ s) (num_output_per_event_ s) v.
(* the object inside __init__ before any attribute is assigned (the translator checks that no attribute is read
   before it is assigned there) *)
Definition jself_unset : jself := JSelf "" "" "" [] [] A1 0.

(* ---- loops ---------------------------------------------------------------------------------------------------------- *)
Inductive ctl (S : Type) := Next (s : S) | Break (s : S).
Arguments Next {S}. Arguments Break {S}.
Fixpoint loopC {A S} (body : S -> A -> result (ctl S)) (l : list A) (s : S) : result S :=
  match l with
  | [] => Ok s
  | a :: t => match body s a with
              | Err e => Err e
              | Ok (Next s') => loopC body t s'
              | Ok (Break s') => Ok s'
              end
  end.
(* while: the translator cannot bound a while loop; [fuel] iterations, then OtherError (the theorems show that the
   fuel they assume is not exhausted) *)
Fixpoint whileC {S} (fuel : nat) (body : S -> result (ctl S)) (s : S) : result S :=
  match fuel with
  | O => Err OtherError
  | S n => match body s with
           | Err e => Err e
           | Ok (Next s') => whileC n body s'
           | Ok (Break s') => Ok s'
           end
  end.
(* range(a, b) *)
Definition zrange (a b : Z) : list Z := map (fun k => (a + Z.of_nat k)%Z) (seq 0 (Z.to_nat (b - a))).

(* ---- files ------------------------------------------------------------------------------------------------------------ *)
Notation ftext := (list string).
Definition rt_open_text (lines : list string) : ftext := lines.
Definition rt_readline (f : ftext) : string * ftext :=
  match f with [] => (EmptyString, []) | l :: t => (l, t) end.

Notation fbin := (string * Z)%type.                  (* bytes, position *)
Definition rt_open_bin (lines : list string) : fbin := (String.concat "" lines, 0%Z).
Definition slen (s : string) : Z := Z.of_nat (String.length s).
(* f.seek(off, whence): a negative target is OSError *)
Definition fb_seek (f : fbin) (off whence : Z) : result fbin :=
  let base := if (whence =? 0)%Z then Some 0%Z else if (whence =? 1)%Z then Some (snd f)
              else if (whence =? 2)%Z then Some (slen (fst f)) else None in
  match base with
  | None => Err ValueError
  | Some b => if (b + off <? 0)%Z then Err OtherError else Ok (fst f, (b + off)%Z)
  end.
(* f.read(n), n >= 0 *)
Definition fb_read (f : fbin) (n : Z) : string * fbin :=
  let s := substring (Z.to_nat (snd f)) (Z.to_nat n) (fst f) in
  (s, (fst f, (snd f + slen s)%Z)).
Fixpoint upto_nl (s : string) : string :=
  match s with
  | EmptyString => EmptyString
  | String a t => if Ascii.eqb a "010"%char then String a EmptyString else String a (upto_nl t)
  end.
Definition fb_readline (f : fbin) : string * fbin :=
  let rest := substring (Z.to_nat (snd f)) (String.length (fst f)) (fst f) in
  let s := upto_nl rest in
  (s, (fst f, (snd f + slen s)%Z)).

(* Hand model of the storer bookkeeping: BaseStorer.py (constructor hand-over, every filter wrapper,
   _update_num_output_per_event_after_filter, particle_list, __add__), _update_after_merge of
   Oscar.py / Jetscape.py / ParticleObjectStorer.py, the constructor of ParticleObjectStorer and the
   shapes of what the three loaders' load() return.  Statement by statement, quirks included:
   the count array keeps its numpy shape (2-D rows / 1-D / a plain Python list), "no events" is the
   placeholder [[]] with num_events_ = 0 and an empty count array, particle_list() of a single event
   is flat.  Definitions only; the proofs are in Proofs/C04_*.v, the tie to the code is the
   correspondence of harness/props/c04.py. *)
From Coq Require Import List ZArith Bool QArith.
From SX Require Import Lib.Py.
Import ListNotations.
Local Open Scope Z_scope.

(* a particle is its identity; what the filters read from it is abstracted into the filter itself *)
Definition pid := Z.
Definition event := list pid.

(* num_output_per_event_ with its shape *)
Inductive carr :=
| A2 (rows : list (Z * Z))     (* ndarray of shape (n,2): rows (event label, count) *)
| A1 (vals : list Z)           (* ndarray of shape (n,)  *)
| PyL (vals : list Z).         (* a plain Python list (ParticleObjectLoader) *)

Inductive cls := COscar | CJetscape | CPobj.
Definition cls_eqb (a b : cls) : bool :=
  match a, b with COscar, COscar | CJetscape, CJetscape | CPobj, CPobj => true | _, _ => false end.

Record storer := mkS {
  scls : cls;
  events : list event;        (* particle_list_ *)
  counts : carr;              (* num_output_per_event_ *)
  nevents : Z;                (* num_events_ *)
  xend : list Z;              (* Oscar: event_end_lines_ (each footer line named by a number) *)
  xfmt : Z;                   (* Oscar: oscar_format_ *)
  xptype : Z;                 (* Jetscape: particle_type_ / particle_type_defining_string_ *)
  xsigma : Q                  (* Jetscape: sigmaGen_[0] *)
}.

Definition set_events (s : storer) (e : list event) : storer :=
  mkS (scls s) e (counts s) (nevents s) (xend s) (xfmt s) (xptype s) (xsigma s).
Definition set_counts (s : storer) (c : carr) : storer :=
  mkS (scls s) (events s) c (nevents s) (xend s) (xfmt s) (xptype s) (xsigma s).
Definition set_nevents (s : storer) (n : Z) : storer :=
  mkS (scls s) (events s) (counts s) n (xend s) (xfmt s) (xptype s) (xsigma s).

Definition zlen {A} (l : list A) : Z := Z.of_nat (length l).
Definition is_nil {A} (l : list A) : bool := match l with [] => true | _ => false end.

(* `if particle_list == []: particle_list = [[]]` (Filter.py event cuts, the loaders, BaseStorer) *)
Definition norm (l : list event) : list event := match l with [] => [[]] | _ => l end.

(* ------------------------------------------------------------------ filters *)
(* a particle-level filter rebuilds every event on its own; an event-level cut keeps or drops
   whole events and returns [[]] when nothing is left *)
Inductive fop := PL (f : event -> event) | EV (keep : event -> bool).
Definition gfun (o : fop) (l : list event) : list event :=
  match o with PL f => map f l | EV keep => norm (filter keep l) end.

(* the loop of _update_num_output_per_event_after_filter:
   updated[event] = (event + num_output_per_event_[0][0], len(particle_list_[event])) *)
Fixpoint recount (l0 : Z) (evs : list event) : list (Z * Z) :=
  match evs with [] => [] | e :: t => (l0, zlen e) :: recount (l0 + 1) t end.

(* a[1] = v on a 1-D array *)
Definition set1 (vals : list Z) (v : Z) : result (list Z) :=
  match vals with a :: _ :: t => Ok (a :: v :: t) | _ => Err IndexError end.

Definition renorm (s : storer) : storer :=
  if is_nil (events s) then set_events s [[]] else s.

Definition update_after_filter (s : storer) : result storer :=
  match counts s with
  | PyL _ => Err AttributeError                               (* a list has no .size / .ndim *)
  | A1 [] | A2 [] => Ok (renorm s)                            (* size == 0: no events are held *)
  | A1 vals =>                                                (* ndim == 1 *)
      rbind (pyget (events s) 0) (fun e0 =>
      rbind (set1 vals (zlen e0)) (fun vals' =>
      Ok (renorm (set_counts s (A1 vals')))))
  | A2 ((l0, _) :: _) =>                                      (* ndim == 2 *)
      Ok (renorm (set_nevents (set_counts s (A2 (recount l0 (events s)))) (zlen (events s))))
  end.

(* every filter wrapper: particle_list_ = f(particle_list_, args); recount; return self *)
Definition apply_filter (s : storer) (o : fop) : result storer :=
  update_after_filter (set_events s (gfun o (events s))).

(* ------------------------------------------------------------------ particle_list() *)
Inductive plres := Flat (l : list pid) | Nested (l : list (list pid)).

(* for i_part in range(c): particle_list_[i_ev][i_part]  (the event is only touched when c > 0) *)
Definition take_event (c : Z) (oe : option event) : result (list pid) :=
  if c <=? 0 then Ok []
  else match oe with
       | None => Err IndexError
       | Some ev => if c <=? zlen ev then Ok (firstn (Z.to_nat c) ev) else Err IndexError
       end.

Fixpoint plist_loop (k : nat) (cnts : list Z) (evs : list event) : result (list (list pid)) :=
  match k with
  | O => Ok []
  | S k' =>
    match cnts with
    | [] => Err IndexError                                    (* num_particles[i_ev] *)
    | c :: cnts' =>
      rbind (take_event c (hd_error evs)) (fun r =>
      rbind (plist_loop k' cnts' (tl evs)) (fun rest => Ok (r :: rest)))
    end
  end.

Definition particle_list (s : storer) : result plres :=
  if nevents s =? 0 then Ok (Nested [])
  else if nevents s =? 1 then
    rbind (match counts s with                                (* num_output_per_event_[0][1] *)
           | A2 [] | A1 [] | PyL [] => Err IndexError
           | A2 ((_, c) :: _) => Ok c
           | A1 (_ :: _) => Err IndexError                    (* invalid index to scalar variable *)
           | PyL (_ :: _) => Err TypeError                    (* 'int' object is not subscriptable *)
           end) (fun c =>
    rmap Flat (take_event c (hd_error (events s))))
  else
    rbind (match counts s with                                (* num_output_per_event_[:, 1] *)
           | A2 rows => Ok (map snd rows)
           | A1 _ => Err IndexError                           (* too many indices for array *)
           | PyL _ => Err TypeError                           (* list indices must be integers *)
           end) (fun cnts =>
    rmap Nested (plist_loop (Z.to_nat (nevents s)) cnts (events s))).

(* ------------------------------------------------------------------ __add__ *)
(* a.reshape(-1, 2) *)
Fixpoint pairs (v : list Z) : option (list (Z * Z)) :=
  match v with
  | [] => Some []
  | a :: b :: t => match pairs t with Some r => Some ((a, b) :: r) | None => None end
  | _ => None
  end.
Definition reshape2 (c : carr) : result (list (Z * Z)) :=
  match c with
  | A2 rows => Ok rows
  | A1 v => match pairs v with Some r => Ok r | None => Err ValueError end
  | PyL _ => Err AttributeError
  end.

Definition shift_lab (d : Z) (r : Z * Z) : Z * Z := (fst r + d, snd r).

(* if self.num_events_ > 0 and other.num_events_ > 0:
     combined[n:, 0] += combined[n - 1, 0] + 1 - combined[n, 0]        with n = self.num_events_ *)
Definition continue_labels (na nb : Z) (comb : list (Z * Z)) : result (list (Z * Z)) :=
  if (0 <? na) && (0 <? nb) then
    rbind (pyget comb (na - 1)) (fun ra =>
    rbind (pyget comb na) (fun rb =>
    let n := Z.to_nat na in
    Ok (firstn n comb ++ map (shift_lab (fst ra + 1 - fst rb)) (skipn n comb))))
  else Ok comb.

(* _update_after_merge, called on the copy of self *)
Definition update_after_merge (a b : storer) : result (list Z * Q) :=
  match scls a with
  | COscar => Ok (xend a ++ xend b, xsigma a)      (* a differing oscar_format_ only warns *)
  | CJetscape => if xptype a =? xptype b
                 then Ok (xend a, Qred ((xsigma a + xsigma b) / 2))
                 else Err TypeError
  | CPobj => Ok (xend a, xsigma a)
  end.

(* the events an object holds: the placeholder of an object without events is not an event *)
Definition held (s : storer) : list event := if 0 <? nevents s then events s else [].

Definition add (a b : storer) : result storer :=
  if negb (cls_eqb (scls a) (scls b)) then Err TypeError else
  let pl := held a ++ held b in
  rbind (reshape2 (counts a)) (fun ra =>
  rbind (reshape2 (counts b)) (fun rb =>
  rbind (continue_labels (nevents a) (nevents b) (ra ++ rb)) (fun rows =>
  rbind (update_after_merge a b) (fun x =>
  Ok (mkS (scls a) pl (A2 rows) (nevents a + nevents b) (fst x) (xfmt a) (xptype a) (snd x)))))).

(* ------------------------------------------------------------------ histories *)
Inductive op := F (o : fop) | ADD (other : storer).
Definition step (s : storer) (o : op) : result storer :=
  match o with F f => apply_filter s f | ADD b => add s b end.
Fixpoint run (s : storer) (ops : list op) : result storer :=
  match ops with [] => Ok s | o :: t => rbind (step s o) (fun s' => run s' t) end.

(* the same operations on plain nested lists (the events held, [] = none).  Filter.py itself returns
   the placeholder [[]] when an event-level cut leaves nothing; a list without events stays so *)
Definition spec_step (l : list event) (o : op) : list event :=
  match o with
  | F (PL f) => map f l
  | F (EV keep) => match l with [] => [] | _ => norm (filter keep l) end
  | ADD b => l ++ held b
  end.
Definition run_spec (l : list event) (ops : list op) : list event := fold_left spec_step ops l.

(* ------------------------------------------------------------------ what the loaders hand over *)
Inductive sel := SAll | SOne (k : Z) | SRange (a b : Z).

(* constructor filters: an ordered chain, applied to each event on its own as f([event])[0] *)
Definition gchain (fs : list fop) (l : list event) : list event := fold_left (fun acc o => gfun o acc) fs l.
Definition ctor_apply (fs : list fop) (data : event) : result event := pyget (gchain fs [data]) 0.

(* OscarLoader / JetscapeLoader read loop: an event that the filters empty is dropped, unless it was
   empty in the file *)
Fixpoint ctor_loop (fs : list fop) (sel : list event) : result (list event) :=
  match sel with
  | [] => Ok []
  | d :: t =>
    rbind (ctor_apply fs d) (fun d' =>
    rbind (ctor_loop fs t) (fun rest =>
    Ok (if negb (is_nil d') || is_nil d then d' :: rest else rest)))
  end.

Definition slice {A} (a b : Z) (l : list A) : list A :=
  firstn (Z.to_nat (b + 1 - a)) (skipn (Z.to_nat a) l).

(* the events argument as the two file loaders treat it: (index of the first selected event, events) *)
Definition select_file (evs : list event) (s : sel) : result (Z * list event) :=
  match s with
  | SAll => Ok (0, evs)
  | SOne k => if k <? 0 then Err ValueError
              else if k <? zlen evs then Ok (k, slice k k evs) else Err IndexError
  | SRange a b => if b <? a then Err ValueError
                  else if (a <? 0) || (b <? 0) then Err ValueError
                  else if b <? zlen evs then Ok (a, slice a b evs) else Err IndexError
  end.

(* base = label of the first event of a file: 0 (Oscar), 1 (Jetscape).  filt = None: no filters key *)
Definition load_file (c : cls) (base : Z) (evs : list event) (s : sel) (filt : option (list fop))
                     (xe : list Z) (fmt pt : Z) (sg : Q) : result storer :=
  match evs with
  | [] => Err (match c with COscar => TypeError | _ => IndexError end)   (* a file without events *)
  | _ =>
    rbind (select_file evs s) (fun fs =>
    rbind (match filt with None => Ok (snd fs) | Some ch => ctor_loop ch (snd fs) end) (fun kept =>
    Ok (match kept with
        | [] => mkS c [[]] (A1 []) 0 xe fmt pt sg
        | _ => mkS c kept (A2 (recount (base + fst fs) kept)) (zlen kept) xe fmt pt sg
        end)))
  end.

Definition load_oscar evs s filt fmt := load_file COscar 0 evs s filt (map Z.of_nat (seq 0 (length evs))) fmt 0 0%Q.
Definition load_jetscape evs s filt pt sg := load_file CJetscape 1 evs s filt [] 0 pt sg.

(* ParticleObjectLoader.load(): the counts of ALL input events as a plain list, the un-sliced number
   of events, the selected (sliced, never range-checked) and filtered events; every event is kept *)
Fixpoint rmapM {A B} (f : A -> result B) (l : list A) : result (list B) :=
  match l with
  | [] => Ok []
  | a :: t => rbind (f a) (fun b => rbind (rmapM f t) (fun r => Ok (b :: r)))
  end.

Definition select_pobj (evs : list event) (s : sel) : result (Z * list event) :=
  match s with
  | SAll => Ok (0, evs)
  | SOne k => if k <? 0 then Err ValueError
              else if k <? zlen evs then Ok (k, slice k k evs) else Err IndexError
  | SRange a b => if b <? a then Err ValueError
                  else if (a <? 0) || (b <? 0) then Err ValueError
                  else Ok (a, slice a b evs)
  end.

Definition pobj_loader (evs : list event) (s : sel) (filt : option (list fop))
  : result (Z * list event * Z * carr) :=
  rbind (select_pobj evs s) (fun fs =>
  rbind (match filt with None => Ok (snd fs) | Some ch => rmapM (ctor_apply ch) (snd fs) end) (fun l =>
  Ok (fst fs, l, zlen evs, PyL (map zlen evs)))).

(* ParticleObjectStorer.__init__: BaseStorer.__init__ takes the loader's tuple, then the storer
   recounts the events it really holds, labelled from the first selected one *)
Definition load_pobj (evs : list event) (s : sel) (filt : option (list fop)) : result storer :=
  rbind (pobj_loader evs s filt) (fun t =>
  match t with (first, l, _, _) =>
    Ok (mkS CPobj l (A2 (recount first l)) (zlen l) [] 0 0 0%Q)
  end).

(* Hand model of CentralityClasses (src/sparkx/CentralityClasses.py), statement by statement:
   __init__ (edge cleaning: sortedness test, list.sort(), first-occurrence de-duplication, range check on the
   sorted list *before* de-duplication), __create_centrality_classes (size check, negative-multiplicity check,
   sorted(..., reverse=True), the loop over the cleaned edges) and get_centrality_class (two special cases,
   the scan over the intermediate classes, the fall-through -1).
   The rank boundary int(N*e/100.0) and the two stored entries per class come from Gen/GenCentrality.v, i.e. from
   the source of this run.  Multiplicities live in any carrier T with a decidable order [leb] (instances: Z, Q);
   edges are Q (a finite double is a rational).
   Not modelled: dNchdetaAvg_/dNchdetaAvgErr_ (not part of C19; numpy means of the four sub-samples, they raise
   nothing), the isinstance checks (the model is typed), NaN edges / multiplicities, float rounding inside
   N*e/100.0 (edges are exact rationals here). *)
From Coq Require Import List ZArith QArith Qround Bool.
From SX Require Import Lib.Py Gen.GenCentrality.
Import ListNotations.

(* ---- edge cleaning ------------------------------------------------------------------------------------- *)
(* all(bins[i] <= bins[i+1] for i in range(len(bins)-1)) *)
Fixpoint sorted_q (l : list Q) : bool :=
  match l with
  | a :: t => match t with b :: _ => Qle_bool a b && sorted_q t | [] => true end
  | [] => true
  end.

(* list.sort(): stable, ascending *)
Fixpoint ins_asc (x : Q) (l : list Q) : list Q :=
  match l with
  | [] => [x]
  | y :: t => if Qle_bool x y then x :: y :: t else y :: ins_asc x t
  end.
Definition sort_asc (l : list Q) : list Q := fold_right ins_asc [] l.

(* for item in bins: if item not in seen: unique.append(item); seen.add(item)   (10 == 10.0 in Python: Qeq) *)
Fixpoint dedup (seen : list Q) (l : list Q) : list Q :=
  match l with
  | [] => []
  | x :: t => if existsb (Qeq_bool x) seen then dedup seen t else x :: dedup (x :: seen) t
  end.

Definition sorted_edges (edges : list Q) : list Q := if sorted_q edges then edges else sort_asc edges.
Definition clean (edges : list Q) : list Q := dedup [] (sorted_edges edges).
Definition out_of_range (v : Q) : bool := negb (Qle_bool 0 v) || negb (Qle_bool v 100).

Section Ord.
  Variable T : Type.
  Variable leb : T -> T -> bool.       (* leb a b  <->  a <= b *)
  Variable t0 : T.                     (* the number 0 *)

  (* sorted(l, reverse=True): stable, descending *)
  Fixpoint ins_desc (x : T) (l : list T) : list T :=
    match l with
    | [] => [x]
    | y :: t => if leb y x then x :: y :: t else y :: ins_desc x t
    end.
  Definition sort_desc (l : list T) : list T := fold_right ins_desc [] l.

  (* x >= m  and  x < m  for a finite query x and a stored minimum that may be float("inf") *)
  Definition ge_ext (x : T) (m : ext T) : bool := match m with Val t => leb t x | Inf => false end.
  Definition lt_ext (x : T) (m : ext T) : bool := negb (ge_ext x m).

  Record cstate := { bins : list Q; dmin : list (ext T); dmax : list T }.

  (* for i in range(1, len(bins)): MaxRecord = rank(bins[i]); Max.append(..); Min.append(..); MinRecord = MaxRecord *)
  Fixpoint bounds (N : Z) (record : list T) (MinRecord : Z) (es : list Q) : result (list (ext T) * list T) :=
    match es with
    | [] => Ok ([], [])
    | e :: es' =>
      let MaxRecord := gen_rank N e in
      rbind (gen_max_entry T record MinRecord MaxRecord) (fun mx =>
      rbind (gen_min_entry T record MinRecord MaxRecord) (fun mn =>
      rbind (bounds N record MaxRecord es') (fun r => Ok (mn :: fst r, mx :: snd r))))
    end.

  Definition construct (sample : list T) (edges : list Q) : result cstate :=
    let es1 := sorted_edges edges in
    let uniq := dedup [] es1 in
    if existsb out_of_range es1 then Err ValueError else
    let N := Z.of_nat (length sample) in
    if (N <? gen_min_events)%Z then Err ValueError else
    if existsb (fun m => negb (leb t0 m)) sample then Err ValueError else
    match uniq with
    | [] => Err IndexError                                   (* self.centrality_bins_[0] *)
    | e0 :: rest =>
      rbind (bounds N (sort_desc sample) (gen_rank N e0) rest) (fun r =>
      Ok {| bins := uniq; dmin := fst r; dmax := snd r |})
    end.

  (* for i in range(1, len(Min)-1): if x >= Min[i] and x < Min[i-1]: return i   ...   return -1 *)
  Fixpoint scan (x : T) (prev : ext T) (l : list (ext T)) (i : Z) : Z :=
    match l with
    | [] => (-1)%Z
    | m :: t => if ge_ext x m && lt_ext x prev then i else scan x m t (i + 1)%Z
    end.

  Definition lookup (mins : list (ext T)) (x : T) : result Z :=
    let k := Z.of_nat (length mins) in
    rbind (pyget mins 0) (fun m0 =>
    if ge_ext x m0 then Ok 0%Z else
    rbind (pyget mins (k - 2)) (fun mk =>                    (* Min[len-2]; len = 1 reads Min[-1] *)
    if lt_ext x mk then Ok (k - 1)%Z else
    Ok (scan x m0 (firstn (Z.to_nat (k - 2)) (tl mins)) 1%Z))).

  Definition classify (st : cstate) (x : T) : result Z := lookup (dmin st) x.
End Ord.

Arguments bins {T}. Arguments dmin {T}. Arguments dmax {T}.

(* executable instance: multiplicities and queries as exact rationals *)
Definition qconstruct := construct Q Qle_bool 0%Q.
Definition qlookup := lookup Q Qle_bool.

(* Hand model of Jackknife (src/sparkx/Jackknife.py): the worker pool as "any assignment of the tasks to workers in
   any order", the per-task computation (_helper_unpack -> _compute_one_jackknife_sample -> _randomly_delete_data ->
   function) and the driver compute_jackknife_estimates.

   What a process is here: a private state St of the global `random` generator.  rd.seed(z) overwrites it ([reseed z]),
   rd.sample(range(n), d) reads it and leaves a new one ([draw], an oracle: the Mersenne Twister is not modelled).
   A schedule is a list of (worker, task index): the order in which tasks start and who runs them.  The result of a
   task is stored under its index (starmap returns the results in task order).
   NOT in this model (it cannot exhibit them): the OS scheduler, fork/pickling, starmap's chunking, processes sharing
   the generator (threads) - a task is atomic on its worker because a worker process is sequential and owns its state.

   The formula-shaped parts (number of deleted points, the task seed, the summand and the scaling of the variance)
   come from Gen/GenJackknife.v, i.e. from the source of this run.  Arithmetic is over an abstract carrier K
   (executable instance Q; theorems over any field and over R); float rounding is not modelled.
   Typed model: the isinstance checks (data is an ndarray, function callable, test_result a number) have no
   counterpart; the statistic is a total function. *)
From Coq Require Import List ZArith QArith Qround Bool.
From SX Require Import Lib.Py Lib.KRing Gen.GenJackknife.
Import ListNotations.

Section Pool.
  Variable St : Type.                                   (* generator state of one process *)
  Variable A : Type.                                   (* one data point: an entry along axis 0 (number or row) *)
  Variable R : Type.                                   (* what the statistic returns *)
  Variable reseed : Z -> St.                            (* rd.seed(z) *)
  Variable draw : St -> nat -> nat -> list nat * St.     (* rd.sample(range(n), d): the indices, the state afterwards *)
  Variable stat : list A -> R.                         (* function(reduced_data, *args, **kwargs) *)

  (* np.delete(data, delete_indices, axis=0) on a copy *)
  Fixpoint delete_from (i : nat) (idx : list nat) (data : list A) : list A :=
    match data with
    | [] => []
    | a :: t => if existsb (Nat.eqb i) idx then delete_from (S i) idx t else a :: delete_from (S i) idx t
    end.
  Definition np_delete (idx : list nat) (data : list A) : list A := delete_from 0 idx data.

  Variable seed : Z.                                   (* instance.seed *)
  Variable dfrac : Q.                                  (* instance.delete_fraction *)
  Variable data : list A.

  (* one task, executed by a process whose generator is in state s; returns the value and the state it leaves *)
  Definition run_task (s : St) (index : nat) : R * St :=
    let s1 := reseed (gen_jk_task_seed seed (Z.of_nat index)) in          (* the old state s is overwritten *)
    let n := length data in
    let d := Z.to_nat (gen_jk_delete_n dfrac (Z.of_nat n)) in
    let ds := draw s1 n d in
    (stat (np_delete (fst ds) data), snd ds).

  Record pool_state := { wstate : nat -> St; results : nat -> option R }.

  Definition step (ps : pool_state) (ev : nat * nat) : pool_state :=
    let w := fst ev in
    let i := snd ev in
    let rs := run_task (wstate ps w) i in
    {| wstate := fun w' => if Nat.eqb w' w then snd rs else wstate ps w';
       results := fun j => if Nat.eqb j i then Some (fst rs) else results ps j |}.

  (* init: the generator state of every worker when it picks up its first task - whatever the parent had at fork
     time, what the initializer set, what earlier calls left *)
  Definition run_pool (sched : list (nat * nat)) (init : nat -> St) : pool_state :=
    fold_left step sched {| wstate := init; results := fun _ => None |}.

  (* np.array(results): all number_samples entries in index order; None if some task never ran *)
  Fixpoint collect_from (res : nat -> option R) (i cnt : nat) : option (list R) :=
    match cnt with
    | O => Some []
    | S c => match res i, collect_from res (S i) c with
             | Some r, Some l => Some (r :: l)
             | _, _ => None
             end
    end.
  Definition pool_samples (number_samples : nat) (sched : list (nat * nat)) (init : nat -> St) : option (list R) :=
    collect_from (results (run_pool sched init)) 0 number_samples.
End Pool.

Section Estimate.
  Variable K : Type.
  Variables (k0 k1 : K) (kadd kmul ksub kdiv : K -> K -> K) (kopp : K -> K).
  Variable ksqrt : K -> K.

  Notation ofZ := (kz k0 k1 kadd kmul kopp).

  (* np.mean(jackknife_samples) *)
  Definition mean_samples (th : list K) : K := kdiv (ksum k0 kadd th) (ofZ (Z.of_nat (length th))).

  (* variance_samples = 0.0; for i: variance_samples += term *)
  Definition variance_sum (th : list K) : K :=
    fold_left (fun acc t => kadd acc (gen_jk_term K k0 k1 kadd kmul ksub kdiv kopp t (mean_samples th))) th k0.

  (* the argument of np.sqrt: variance_samples *= factor *)
  Definition estimate_sq (n d : Z) (th : list K) : K :=
    kmul (variance_sum th)
         (gen_jk_factor K k0 k1 kadd kmul ksub kdiv kopp (ofZ n) (ofZ d) (ofZ (Z.of_nat (length th))) d).

  Variable St : Type.
  Variable A : Type.
  Variable reseed : Z -> St.
  Variable draw : St -> nat -> nat -> list nat * St.

  (* Jackknife(delete_fraction, number_samples, seed).compute_jackknife_estimates(data, function, num_cores):
     the jackknife samples and the radicand (the model's observable for an exact comparison), and the estimate *)
  Definition jackknife_sq (dfrac : Q) (number_samples : Z) (seed : Z) (data : list A) (stat : list A -> K)
             (sched : list (nat * nat)) (init : nat -> St) : result (list K * K) :=
    (* __init__ *)
    if negb (Qle_bool 0 dfrac) || Qle_bool 1 dfrac then Err ValueError else
    if (number_samples <? 1)%Z then Err ValueError else
    (* compute_jackknife_estimates *)
    let n := Z.of_nat (length data) in
    let d := gen_jk_delete_n dfrac n in
    if (d <? gen_jk_min_delete)%Z then Err ValueError else
    match pool_samples St A K reseed draw stat seed dfrac data (Z.to_nat number_samples) sched init with
    | None => Err OtherError                       (* a task never ran: starmap would not have returned *)
    | Some th => Ok (th, estimate_sq n d th)
    end.

  Definition jackknife dfrac number_samples seed data stat sched init : result K :=
    rmap (fun p => ksqrt (snd p)) (jackknife_sq dfrac number_samples seed data stat sched init).
End Estimate.

(* ---- executable instance: exact rationals; the generator is an oracle table filled by the harness ------------- *)
Definition rplus x y := Qred (Qplus x y).
Definition rmult x y := Qred (Qmult x y).
Definition rminus x y := Qred (Qminus x y).
Definition rdiv x y := Qred (Qdiv x y).

(* Some z: freshly seeded with z; None: any other state.  The table holds what random.sample returned for that seed;
   an entry whose length is not the requested d is rejected *)
Definition ostate := option Z.
Definition table_draw (table : list (Z * list nat)) (s : ostate) (n d : nat) : list nat * ostate :=
  match s with
  | Some z => match find (fun p => Z.eqb (fst p) z) table with
              | Some p => if Nat.eqb (length (snd p)) d then (snd p, None) else ([], None)
              | None => ([], None)
              end
  | None => ([], None)
  end.

Definition qjackknife_sq (table : list (Z * list nat)) (A : Type) :=
  jackknife_sq Q 0%Q 1%Q rplus rmult rminus rdiv Qopp ostate A (fun z => Some z) (table_draw table).

(* Hand model of ScalarProductFlow (integrated_flow, differential_flow), statement by statement; the pieces shared
   with EventPlaneFlow (sub-event Q-vectors, the weighted event average) are defined here too.
   A particle is (u, d): u = exp(i n phi); [pw d] is the event-plane weight selected by self.weight_
   (pT, pT^2, pT^n, rapidity, pseudorapidity of the particle), [pwt d] is particle.weight with NaN -> 1;
   [inA d] / [inB d] are the sub-event tests eta >= +gap / eta < -gap, [inbin d] the bin test.
   An event is the pair (particles whose flow is computed, particles that define the reference) of the SAME event:
   the real code takes two lists of events and pairs them by index (it raises IndexError when the flow sample has
   more events than the reference sample; that input is not represented).
   Oracles: kinv (1/x), ksqrt, kabs; None stands for a non-finite float (NaN/inf). *)
From Coq Require Import List ZArith QArith Bool.
From SX Require Import Lib.KRing Lib.Cpx Model.FlowRP.
Import ListNotations.

Section SP.
  Variable K : Type.
  Variables (k0 k1 : K) (kadd kmul ksub : K -> K -> K) (kopp : K -> K).
  Variables (kinv ksqrt kabs : K -> K) (kis0 : K -> bool) (kltb : K -> K -> bool).
  Variable D : Type.
  Variables (pw pwt : D -> K) (inA inB inbin : D -> bool).
  Notation part := (part K D).
  Definition event := (list part * list part)%type.

  (* __compute_flow_vectors / __compute_event_angles_sub_events: Q = sum w exp(i n phi) over the selected particles *)
  Definition qvec (sel : D -> bool) (ev : list part) : cpx K :=
    csum K k0 kadd (map (fun p : part => cscale K kmul (pw (snd p)) (fst p)) (filter (fun p : part => sel (snd p)) ev)).
  Definition qfull (ev : list part) : cpx K :=
    csum K k0 kadd (map (fun p : part => cscale K kmul (pw (snd p)) (fst p)) ev).

  (* np.mean *)
  Definition mean (l : list K) : K := kmul (ksum k0 kadd l) (kinv (knat k0 k1 kadd (length l))).

  (* __compute_event_plane_resolution: 2 sqrt(mean_events Re(conj Q_A Q_B)); non-finite when the mean is negative,
     and a zero resolution makes every particle value non-finite *)
  Definition qnsq (e : event) : K :=
    re (cmul K kadd kmul ksub (conj kopp (qvec inA (snd e))) (qvec inB (snd e))).
  (* __compute_flow_particles: vn_obs = Re(conj u (Q - [self_corr] |w| u)) *)
  Definition sp_obs (self_corr : bool) (Q : cpx K) (p : part) : K :=
    let Qp := if self_corr then csub K ksub Q (cscale K kmul (kabs (pw (snd p))) (fst p)) else Q in
    re (cmul K kadd kmul ksub (conj kopp (fst p)) Qp).

  (* __calculate_flow_event_average over (weight, value) of every particle of every event:
     (vn, sigma); the sample without weight gives (0, 0) *)
  Definition sums (vals : list (list (K * K))) : K * K * K :=
    (ksum k0 kadd (map (fun ev => ksum k0 kadd (map (fun wv : K * K => fst wv) ev)) vals),
     ksum k0 kadd (map (fun ev => ksum k0 kadd (map (fun wv : K * K => kmul (snd wv) (fst wv)) ev)) vals),
     ksum k0 kadd (map (fun ev => ksum k0 kadd (map (fun wv : K * K => kmul (kmul (snd wv) (snd wv)) (kmul (fst wv) (fst wv))) ev)) vals)).
  Definition average_of (s : K * K * K) : option K * option K :=
    let '(N, S1, S2) := s in
    if kis0 N then (Some k0, Some k0) else
    let vn := kmul S1 (kinv N) in
    let vsq := kmul S2 (kinv (kmul N N)) in
    let var := ksub (kmul vn vn) vsq in
    (Some vn, if kltb var k0 || kltb N k0 then None else Some (kmul (ksqrt var) (kinv (ksqrt N)))).

  (* the part common to ScalarProductFlow and EventPlaneFlow: a per-event quantity [qual] whose mean over events
     gives the resolution through [resf], a per-particle observable [ob] divided by the resolution, and the weighted
     event average.  flow_of_particle = vn_obs / resolution *)
  Section Skeleton.
    Variable qual : event -> K.
    Variable ob : event -> part -> K.
    Variable resf : K -> option K.
    Definition wv (e : event) : list (K * K) := map (fun p : part => (pwt (snd p), ob e p)) (fst e).
    Definition values (res : K) (evs : list event) : list (list (K * K)) :=
      map (fun e : event => map (fun x : K * K => (fst x, kmul (snd x) (kinv res))) (wv e)) evs.
    Definition skel (evs : list event) : option K * option K :=
      match resf (mean (map qual evs)) with
      | Some r => average_of (sums (values r evs))
      | None => (* every particle value is NaN; a sample without weight still gives (0, 0) *)
        if kis0 (fst (fst (sums (values k1 evs)))) then (Some k0, Some k0) else (None, None)
      end.
  End Skeleton.

  Definition sp_resf (m : K) : option K :=
    if kltb m k0 || kis0 m then None else Some (kmul (kadd k1 k1) (ksqrt m)).
  Definition sp_integrated (self_corr : bool) (evs : list event) : option K * option K :=
    skel qnsq (fun e p => sp_obs self_corr (qfull (snd e)) p) sp_resf evs.

  (* one bin of differential_flow: the reference is the whole reference sample, the flow particles are those in the bin *)
  Definition to_bin (e : event) : event := (filter (fun p : part => inbin (snd p)) (fst e), snd e).
  Definition sp_differential_bin (self_corr : bool) (evs : list event) : option K * option K :=
    sp_integrated self_corr (map to_bin evs).

  (* a rotation of one event (its flow and its reference particles alike) *)
  Definition rote (rho : cpx K) (e : event) : event :=
    (map (rotp K kadd kmul ksub D rho) (fst e), map (rotp K kadd kmul ksub D rho) (snd e)).
End SP.

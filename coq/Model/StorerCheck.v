(* Evaluation of correspondence cases for C04: a case is a small program over several storers
   (load, history of filters and additions referring to earlier storers); after every step the
   model state is compared with what the real object showed.  Used only by generated cases files. *)
From Coq Require Import List ZArith Bool QArith.
From SX Require Import Lib.Py Model.Storer.
Import ListNotations.
Local Open Scope Z_scope.

Fixpoint list_eqb {A} (eqb : A -> A -> bool) (a b : list A) : bool :=
  match a, b with
  | [], [] => true
  | x :: a', y :: b' => eqb x y && list_eqb eqb a' b'
  | _, _ => false
  end.
Definition ev_eqb := list_eqb Z.eqb.
Definition evs_eqb := list_eqb ev_eqb.
Definition row_eqb (a b : Z * Z) := (fst a =? fst b) && (snd a =? snd b).
Definition carr_eqb (a b : carr) : bool :=
  match a, b with
  | A2 x, A2 y => list_eqb row_eqb x y
  | A1 x, A1 y => list_eqb Z.eqb x y
  | PyL x, PyL y => list_eqb Z.eqb x y
  | _, _ => false
  end.
Definition errcls_eqb (a b : errcls) : bool :=
  match a, b with
  | TypeError, TypeError | ValueError, ValueError | IndexError, IndexError | KeyError, KeyError
  | AttributeError, AttributeError | ZeroDivisionError, ZeroDivisionError | OtherError, OtherError => true
  | _, _ => false
  end.

(* a concrete filter as observed on the real Filter.py function: the particles a particle-level
   filter keeps / the event contents an event-level cut keeps *)
Inductive kop := KPL (keepset : list pid) | KEV (kept : list event).
Definition fop_of (k : kop) : fop :=
  match k with
  | KPL ks => PL (filter (fun p => existsb (Z.eqb p) ks))
  | KEV tbl => EV (fun e => existsb (ev_eqb e) tbl)
  end.

Inductive base :=
| BFile (c : cls) (evs : list event) (s : sel) (filt : option (list kop)) (pt : Z) (sg : Q)
| BPobj (evs : list event) (s : sel) (filt : option (list kop)).
(* HInject: the harness overwrites num_output_per_event_ / num_events_ on the real object (states outside the
   invariant, to validate the model's error branches) *)
Inductive hop := HF (k : kop) | HAdd (j : nat) | HAddSelf | HInject (c : carr) (n : Z).

(* particle_list() as Python shows it: [] is both the flat and the nested empty list *)
Inductive plx := XFlat (l : list pid) | XNested (l : list (list pid)) | XEmpty.
Inductive obs :=
| OOk (n : Z) (c : carr) (ev : list event) (pl : result plx) (xe : list Z) (sg : Q)
| OErr (e : errcls).

Definition load_base (b : base) : result storer :=
  match b with
  | BFile COscar evs s filt _ _ => load_oscar evs s (option_map (map fop_of) filt) 0
  | BFile _ evs s filt pt sg => load_jetscape evs s (option_map (map fop_of) filt) pt sg
  | BPobj evs s filt => load_pobj evs s (option_map (map fop_of) filt)
  end.

Definition code (b : bool) (n : nat) : nat := if b then 0%nat else n.

Definition cmp_pl (m : result plres) (i : result plx) : nat :=
  match m, i with
  | Err a, Err b => code (errcls_eqb a b) 5
  | Ok (Flat a), Ok (XFlat b) => code (ev_eqb a b) 5
  | Ok (Nested a), Ok (XNested b) => code (evs_eqb a b) 5
  | Ok (Flat []), Ok XEmpty | Ok (Nested []), Ok XEmpty => 0%nat
  | _, _ => 5%nat
  end.

Fixpoint worst (l : list nat) : nat := match l with [] => 0%nat | x :: t => Nat.max x (worst t) end.

(* 0 agree; 2 num_events, 3 count array (values or shape), 4 particle_objects_list, 5 particle_list,
   6 exception class / outcome, 7 class-specific extras, 8 malformed case *)
Definition cmp_state (r : result storer) (o : obs) : nat :=
  match r, o with
  | Err a, OErr b => code (errcls_eqb a b) 6
  | Ok s, OOk n c ev pl xe sg =>
    worst [ code (n =? nevents s) 2; code (carr_eqb c (counts s)) 3;
            code (evs_eqb ev (events s)) 4; cmp_pl (particle_list s) pl;
            code (list_eqb Z.eqb xe (xend s) && Qeq_bool sg (xsigma s)) 7 ]
  | _, _ => 6%nat
  end.

Definition do_hop (env : list (result storer)) (s : storer) (o : hop) : result storer :=
  match o with
  | HF k => step s (F (fop_of k))
  | HAdd j => match nth_error env j with Some (Ok b) => step s (ADD b) | _ => Err OtherError end
  | HAddSelf => step s (ADD s)
  | HInject c n => Ok (set_nevents (set_counts s c) n)
  end.

Fixpoint check_hist (env : list (result storer)) (r : result storer) (h : list (hop * obs))
  : nat * result storer :=
  match h with
  | [] => (0%nat, r)
  | (o, ex) :: t =>
    match r with
    | Err _ => (8%nat, r)
    | Ok s => let r' := do_hop env s o in
              let cf := check_hist env r' t in
              (Nat.max (cmp_state r' ex) (fst cf), snd cf)
    end
  end.

Definition sdef := (base * obs * list (hop * obs))%type.

Fixpoint check_defs (env : list (result storer)) (ds : list sdef) : nat :=
  match ds with
  | [] => 0%nat
  | (b, o0, h) :: t =>
    let r0 := load_base b in
    let cf := check_hist env r0 h in
    Nat.max (Nat.max (cmp_state r0 o0) (fst cf)) (check_defs (env ++ [snd cf]) t)
  end.

Definition check (ds : list sdef) : nat := check_defs [] ds.

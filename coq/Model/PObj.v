(* Hand model of ParticleObjectLoader.load / set_particle_list and of ParticleObjectStorer.__init__:
   a particle-object storer is built from a nested list of events; `events=` selects by position
   (an int, or an inclusive pair through the Python slice [a : b+1]), `filters=` is then applied to
   each selected event on its own (the chain __apply_kwargs_filters([event], filters)[0] is the
   arbitrary, possibly raising, function [flt]; C05 is about the chain itself).  No proofs here. *)
From Coq Require Import List ZArith Bool Arith.
From SX Require Import Lib.Py.
Import ListNotations.

Section PObj.
  Variable P : Type.
  Variable flt : option (list P -> result (list P)).

  Inductive psel := PAll | POne (k : Z) | PRange (a b : Z).

  Record pstorer := { p_events : list (list P); p_nevents : Z; p_counts : list (Z * Z) }.

  (* ParticleObjectLoader.load: the checks on the selector (before anything is selected) *)
  Definition pvalidate (s : psel) : result unit :=
    match s with
    | PAll => Ok tt
    | POne k => if (k <? 0)%Z then Err ValueError else Ok tt
    | PRange a b =>
      if (b <? a)%Z then Err ValueError
      else if ((a <? 0) || (b <? 0))%Z then Err ValueError else Ok tt
    end.

  (* set_particle_list: [self.particle_list_[k]]  /  self.particle_list_[a : b + 1] *)
  Definition pslice {A} (a b : Z) (l : list A) : list A :=
    firstn (Z.to_nat (b + 1 - a)) (skipn (Z.to_nat a) l).

  Definition pselect (s : psel) (evs : list (list P)) : result (list (list P)) :=
    match s with
    | PAll => Ok evs
    | POne k => match nth_error evs (Z.to_nat k) with Some e => Ok [e] | None => Err IndexError end
    | PRange a b => Ok (pslice a b evs)
    end.

  Fixpoint mapr {A B} (f : A -> result B) (l : list A) : result (list B) :=
    match l with
    | [] => Ok []
    | x :: t => rbind (f x) (fun y => rbind (mapr f t) (fun ys => Ok (y :: ys)))
    end.

  Definition pfirst (s : psel) : Z := match s with PAll => 0%Z | POne k => k | PRange a _ => a end.

  (* ParticleObjectStorer.__init__: rows [first_event + i, len(event)] of the events actually held *)
  Fixpoint label_from (first : Z) (evs : list (list P)) : list (Z * Z) :=
    match evs with
    | [] => []
    | e :: t => (first, Z.of_nat (length e)) :: label_from (first + 1)%Z t
    end.

  Definition pload (s : psel) (evs : list (list P)) : result pstorer :=
    rbind (pvalidate s) (fun _ =>
    rbind (pselect s evs) (fun sel =>
    rbind (match flt with None => Ok sel | Some f => mapr f sel end) (fun held =>
    Ok {| p_events := held; p_nevents := Z.of_nat (length held); p_counts := label_from (pfirst s) held |}))).
End PObj.


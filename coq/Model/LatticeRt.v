(* Runtime of the fragment in which tools/py2coq/gen_lattice_methods.py re-states the addressing / arithmetic / CSV
   methods of src/sparkx/Lattice3D.py (Gen/GenLatticeMethods.v) - definitions only.  Everything here is the fixed,
   trusted reading of the Python / numpy / scipy primitives the translated methods call; the methods themselves
   (statements, operators, constants, argument order, defaults, exception classes) are regenerated from the source on
   every run and proved equal to Model/Lattice.v in Proofs/Lattice_Source.v.

   * results: [wres] of Model/Lattice.v (WOk | Warned | WErr cls): warnings.warn(...) is [wwarn], a later exception
     absorbs an earlier warning ([wbind]); primitives that can only raise return [result] and enter by [wlift]
   * numbers: a Python int is [Z]; a float that is finite by its role (extents, axis values, spacings) is the exact
     rational [Q] it denotes (rounding is not modelled); a float that may be NaN / +-inf (coordinates handed to the
     methods, numbers read from a file) is [fv] with IEEE comparisons; grid values are an abstract [V] with the
     operations of the context record [npctx] (CSV: V = fv)
   * float / int and float / float of PYTHON floats raise ZeroDivisionError on a zero divisor (np.float64 operands
     would give inf / nan and a RuntimeWarning: not modelled)
   * the object: record [lobj] of the attributes __init__ creates; an attribute store is a record update
     (aliasing of numpy buffers is not modelled)
   * numpy: a 1-D float array with finite entries is [list Q], with arbitrary entries [list fv]; the 3-D grid is
     [grid3] (shape + cell function);  a[i,j,k] wraps negative indices and raises IndexError out of range
     ([np_get3]/[np_set3]);  searchsorted(side="right") on an ascending array = number of leading entries <= x
     (NaN sorts after everything), side="left" = number of leading entries < x;  argmin = first NaN, else first
     minimum (ValueError on an empty array);  element-wise operators need equal shapes (broadcasting is outside the
     fragment: OtherError);  np.mean(list of grids, axis=0) = c_sum / count cell by cell;  flatten / reshape in C
     order;  np.linspace and scipy's interpn are ORACLES (fields of [npctx]);  savetxt / loadtxt: one row of tokens
     with its delimiter, number format "%.18e" / float parsing are the oracles [fmt] / [parse] of the generated
     section; a one-token file loads as a 0-d array
   * OtherError stands for "outside the modelled fragment" (and for OverflowError of int(inf)). *)
From Coq Require Import List ZArith QArith Qabs Bool String.
From SX Require Import Lib.Py Lib.QCheck Model.Lattice.
Import ListNotations.

(* ---- results -------------------------------------------------------------------------------------------------- *)
Definition wlift {A} (r : result A) : wres A := match r with Ok a => WOk a | Err e => WErr e end.
Definition wbind {A B} (r : wres A) (f : A -> wres B) : wres B :=
  match r with
  | WErr e => WErr e
  | WOk a => f a
  | Warned a => match f a with WOk b => Warned b | Warned b => Warned b | WErr e => WErr e end
  end.
Definition wwarn : wres unit := Warned tt.
(* for x in l: body   (the body may warn or raise; [s] are the loop-carried variables) *)
Fixpoint wloop {A S} (body : S -> A -> wres S) (l : list A) (s : S) : wres S :=
  match l with
  | [] => WOk s
  | a :: t => wbind (body s a) (fun s' => wloop body t s')
  end.
(* [f(x) for x in l]  with an element expression that may raise *)
Fixpoint wmapM {A B} (f : A -> wres B) (l : list A) : wres (list B) :=
  match l with
  | [] => WOk []
  | a :: t => wbind (f a) (fun b => wbind (wmapM f t) (fun bs => WOk (b :: bs)))
  end.

(* ---- numbers -------------------------------------------------------------------------------------------------- *)
Definition fv_of_Z (z : Z) : fv := Fin (inject_Z z).
(* a float that has to be finite where it is used (extent handed to the constructor) *)
Definition fv_finite (v : fv) : result Q := match v with Fin q => Ok q | _ => Err OtherError end.
(* float / int, float / float on Python floats *)
Definition py_truediv_QZ (a : Q) (b : Z) : result Q :=
  if (b =? 0)%Z then Err ZeroDivisionError else Ok (a / inject_Z b).
Definition py_truediv_QQ (a b : Q) : result Q :=
  if Qeq_bool b 0 then Err ZeroDivisionError else Ok (a / b).
(* int(x) of a float *)
Definition py_int_fv (v : fv) : result Z :=
  match v with Fin q => Ok (Qtrunc q) | NaN => Err ValueError | _ => Err OtherError end.
(* IEEE float arithmetic between a possibly non-finite scalar and a finite one *)
Definition fv_abs (v : fv) : fv := match v with Fin q => Fin (Qabs q) | NaN => NaN | _ => PInf end.
Definition fv_minus_q (v : fv) (q : Q) : fv := match v with Fin x => Fin (x - q) | o => o end.
Definition q_minus_fv (q : Q) (v : fv) : fv :=
  match v with Fin x => Fin (q - x) | PInf => NInf | NInf => PInf | NaN => NaN end.
Definition fv_le (a b : fv) : bool :=
  match a, b with
  | NaN, _ | _, NaN => false
  | NInf, _ | _, PInf => true
  | Fin x, Fin y => Qle_bool x y
  | _, _ => false
  end.
Definition fv_lt (a b : fv) : bool :=
  match a, b with
  | NaN, _ | _, NaN => false
  | PInf, _ | _, NInf => false
  | Fin x, Fin y => Qlt_bool x y
  | _, _ => true
  end.

(* ---- 1-D arrays ----------------------------------------------------------------------------------------------- *)
Definition np_array_Q (l : list Q) : list Q := l.          (* np.array(values), np.array(values, dtype=float) *)
Definition np_sub_scalar (l : list Q) (x : fv) : list fv := map (fun v => q_minus_fv v x) l.      (* values - value *)
Definition np_rsub_scalar (x : fv) (l : list Q) : list fv := map (fun v => fv_minus_q x v) l.     (* value - values *)
Definition np_abs (l : list fv) : list fv := map fv_abs l.
Definition np_searchsorted_right (vs : list Q) (x : fv) : Z :=
  match x with
  | Fin q => Z.of_nat (ssr vs q)
  | NInf => 0%Z
  | _ => Z.of_nat (List.length vs)
  end.
Fixpoint ssl (vs : list Q) (x : Q) : nat :=
  match vs with [] => 0 | v :: t => if Qlt_bool v x then S (ssl t x) else 0 end.
Definition np_searchsorted_left (vs : list Q) (x : fv) : Z :=
  match x with
  | Fin q => Z.of_nat (ssl vs q)
  | NInf => 0%Z
  | _ => Z.of_nat (List.length vs)
  end.
(* argmin: the first NaN if there is one, else the first position of the minimum *)
Definition is_nan (v : fv) : bool := match v with NaN => true | _ => false end.
Fixpoint first_nan (i : nat) (l : list fv) : option nat :=
  match l with [] => None | v :: t => if is_nan v then Some i else first_nan (S i) t end.
Fixpoint argmin_fv_from (best : nat) (bestd : fv) (i : nat) (ds : list fv) : nat :=
  match ds with
  | [] => best
  | d :: t => if fv_lt d bestd then argmin_fv_from i d (S i) t else argmin_fv_from best bestd (S i) t
  end.
Definition np_argmin (ds : list fv) : result Z :=
  match ds with
  | [] => Err ValueError
  | d :: t => match first_nan 0 ds with
              | Some i => Ok (Z.of_nat i)
              | None => Ok (Z.of_nat (argmin_fv_from 0 d 1 t))
              end
  end.

(* ---- the 3-D grid ----------------------------------------------------------------------------------------------- *)
Record grid3 (V : Type) := Grid3 { gshape : nat * nat * nat; gcell : nat -> nat -> nat -> V }.
Arguments Grid3 {V}. Arguments gshape {V}. Arguments gcell {V}.

Definition shape_eqb (a b : nat * nat * nat) : bool :=
  let '(a1, a2, a3) := a in let '(b1, b2, b3) := b in Nat.eqb a1 b1 && Nat.eqb a2 b2 && Nat.eqb a3 b3.
(* one index of a[i,j,k]: 0 <= i < n as it is, -n <= i < 0 from the end, else out of range *)
Definition np_norm_index (i : Z) (n : nat) : option nat :=
  if ((0 <=? i) && (i <? Z.of_nat n))%Z then Some (Z.to_nat i)
  else if ((- Z.of_nat n <=? i) && (i <? 0))%Z then Some (Z.to_nat (i + Z.of_nat n))
  else None.
Definition np_index3 (s : nat * nat * nat) (i j k : Z) : result (nat * nat * nat) :=
  let '(nx, ny, nz) := s in
  match np_norm_index i nx, np_norm_index j ny, np_norm_index k nz with
  | Some a, Some b, Some c => Ok (a, b, c)
  | _, _, _ => Err IndexError
  end.
Definition np_get3 {V} (g : grid3 V) (i j k : Z) : result V :=
  rbind (np_index3 (gshape g) i j k) (fun '(a, b, c) => Ok (gcell g a b c)).
Definition np_set3 {V} (g : grid3 V) (i j k : Z) (v : V) : result (grid3 V) :=
  rbind (np_index3 (gshape g) i j k) (fun '(a, b, c) => Ok (Grid3 (gshape g) (upd V (gcell g) a b c v))).
(* np.ndindex(shape): all index triples in C order *)
Definition np_ndindex (s : nat * nat * nat) : list (Z * Z * Z) :=
  let '(nx, ny, nz) := s in
  flat_map (fun i => flat_map (fun j => map (fun k => (Z.of_nat i, Z.of_nat j, Z.of_nat k)) (seq 0 nz)) (seq 0 ny))
           (seq 0 nx).
(* a.flatten() / a.reshape(shape) in C order *)
Definition np_flatten {V} (g : grid3 V) : list V :=
  let '(nx, ny, nz) := gshape g in
  flat_map (fun i => flat_map (fun j => map (fun k => gcell g i j k) (seq 0 nz)) (seq 0 ny)) (seq 0 nx).
Definition np_reshape3 (l : list fv) (s : nat * nat * nat) : result (grid3 fv) :=
  let '(nx, ny, nz) := s in
  if negb (Nat.eqb (List.length l) (nx * ny * nz)) then Err ValueError
  else Ok (Grid3 s (fun i j k => nth ((i * ny + j) * nz + k) l NaN)).

(* ---- what numpy / scipy contribute as given: operations on grid values and the two oracles ------------------------ *)
Record npctx (V : Type) := NpCtx {
  c_zero : V;                                   (* an entry of np.zeros *)
  c_of_Z : Z -> V;                              (* a Python int stored into the float grid *)
  c_add : V -> V -> V; c_sub : V -> V -> V; c_mul : V -> V -> V; c_div : V -> V -> V;
  c_sum : list V -> V; c_divn : V -> nat -> V;  (* np.mean = sum / count *)
  c_linspace : Q -> Q -> Z -> list Q;           (* np.linspace(a, b, n), n >= 0 *)
  c_interpn : list Q * list Q * list Q -> grid3 V -> list fv -> string -> V
                                                (* interpn(points, values, [x, y, z], method=m)[0] *)
}.
Arguments c_zero {V}. Arguments c_of_Z {V}. Arguments c_add {V}. Arguments c_sub {V}. Arguments c_mul {V}.
Arguments c_div {V}. Arguments c_sum {V}. Arguments c_divn {V}. Arguments c_linspace {V}. Arguments c_interpn {V}.

Definition np_linspace {V} (cx : npctx V) (a b : Q) (n : Z) : result (list Q) :=
  if (n <? 0)%Z then Err ValueError else Ok (c_linspace cx a b n).
Definition np_zeros3 {V} (cx : npctx V) (nx ny nz : Z) : result (grid3 V) :=
  if ((nx <? 0) || (ny <? 0) || (nz <? 0))%Z then Err ValueError
  else Ok (Grid3 (Z.to_nat nx, Z.to_nat ny, Z.to_nat nz) (fun _ _ _ => c_zero cx)).
Definition np_binop {V} (f : V -> V -> V) (a b : grid3 V) : result (grid3 V) :=
  if negb (shape_eqb (gshape a) (gshape b)) then Err OtherError
  else Ok (Grid3 (gshape a) (fun i j k => f (gcell a i j k) (gcell b i j k))).
(* a *= factor, factor a scalar *)
Definition np_mul_scalar {V} (cx : npctx V) (a : grid3 V) (f : V) : grid3 V :=
  Grid3 (gshape a) (fun i j k => c_mul cx (gcell a i j k) f).
(* np.mean([g1, g2, ...], axis=0) *)
Definition np_mean_axis0 {V} (cx : npctx V) (gs : list (grid3 V)) : result (grid3 V) :=
  match gs with
  | [] => Err OtherError
  | g :: _ => if negb (forallb (fun h => shape_eqb (gshape g) (gshape h)) gs) then Err OtherError
              else Ok (Grid3 (gshape g) (fun i j k => c_divn cx (c_sum cx (map (fun h => gcell h i j k) gs)) (List.length gs)))
  end.

(* ---- the object -------------------------------------------------------------------------------------------------- *)
Record lobj (V : Type) := LObj {
  x_min_ : Q; x_max_ : Q; y_min_ : Q; y_max_ : Q; z_min_ : Q; z_max_ : Q;
  num_points_x_ : Z; num_points_y_ : Z; num_points_z_ : Z;
  cell_volume_ : Q;
  x_values_ : list Q; y_values_ : list Q; z_values_ : list Q;
  grid_ : grid3 V;
  n_sigma_x_ : Q; n_sigma_y_ : Q; n_sigma_z_ : Q;
  spacing_x_ : option Q; spacing_y_ : option Q; spacing_z_ : option Q;
  density_x_ : Q; density_y_ : Q; density_z_ : Q }.
Arguments LObj {V}.
Arguments x_min_ {V}. Arguments x_max_ {V}. Arguments y_min_ {V}. Arguments y_max_ {V}. Arguments z_min_ {V}.
Arguments z_max_ {V}. Arguments num_points_x_ {V}. Arguments num_points_y_ {V}. Arguments num_points_z_ {V}.
Arguments cell_volume_ {V}. Arguments x_values_ {V}. Arguments y_values_ {V}. Arguments z_values_ {V}.
Arguments grid_ {V}. Arguments n_sigma_x_ {V}. Arguments n_sigma_y_ {V}. Arguments n_sigma_z_ {V}.
Arguments spacing_x_ {V}. Arguments spacing_y_ {V}. Arguments spacing_z_ {V}.
Arguments density_x_ {V}. Arguments density_y_ {V}. Arguments density_z_ {V}.

Definition set_grid_ {V} (s : lobj V) (g : grid3 V) : lobj V :=
  LObj (x_min_ s) (x_max_ s) (y_min_ s) (y_max_ s) (z_min_ s) (z_max_ s)
       (num_points_x_ s) (num_points_y_ s) (num_points_z_ s) (cell_volume_ s)
       (x_values_ s) (y_values_ s) (z_values_ s) g
       (n_sigma_x_ s) (n_sigma_y_ s) (n_sigma_z_ s) (spacing_x_ s) (spacing_y_ s) (spacing_z_ s)
       (density_x_ s) (density_y_ s) (density_z_ s).

(* an argument that is a Lattice3D, or some other Python object (isinstance(x, Lattice3D) is False) *)
Inductive pyval (V : Type) := PObj (o : lobj V) | PNotLattice.
Arguments PObj {V}. Arguments PNotLattice {V}.
Definition py_isinstance_lattice {V} (v : pyval V) : bool := match v with PObj _ => true | PNotLattice => false end.
(* v.grid_ on an object that need not be a lattice *)
Definition py_attr_grid_ {V} (v : pyval V) : result (grid3 V) :=
  match v with PObj o => Ok (grid_ o) | PNotLattice => Err AttributeError end.
(* list(args) of a *args tuple *)
Definition py_list {A} (l : list A) : list A := l.
(* isinstance(values, list) for a parameter that holds an ndarray attribute of the object *)
Definition py_ndarray_is_list (l : list Q) : bool := false.

(* ---- savetxt / loadtxt: one row of tokens -------------------------------------------------------------------------- *)
Record csvfile (tok : Type) := CsvFile { cdelim : string; crow : list tok }.
Arguments CsvFile {tok}. Arguments cdelim {tok}. Arguments crow {tok}.
(* a (1, n) array: metadata.reshape(1, -1), np.hstack of two such rows *)
Definition np_reshape_row {A} (l : list A) : list A := l.
Definition np_hstack2 {A} (a b : list A) : list A := a ++ b.
Definition np_savetxt {tok} (fmt : fv -> tok) (row : list fv) (delim : string) : csvfile tok :=
  CsvFile delim (map fmt row).
(* what np.loadtxt returns for a one-line file: a 0-d array for one token, else a 1-d array; a line written with
   another delimiter does not convert *)
Inductive nparr := Arr0 (x : fv) | Arr1 (l : list fv).
Definition np_loadtxt {tok} (parse : tok -> fv) (f : csvfile tok) (delim : string) : result nparr :=
  if negb (String.eqb (cdelim f) delim) then Err ValueError
  else match map parse (crow f) with [x] => Ok (Arr0 x) | l => Ok (Arr1 l) end.
(* data[a:b], data[a:] with non-negative literal bounds *)
Definition np_slice (d : nparr) (a : nat) (b : option nat) : result (list fv) :=
  match d with
  | Arr0 _ => Err IndexError
  | Arr1 l => Ok (match b with Some b => skipn a (firstn b l) | None => skipn a l end)
  end.

(* Runtime of the regenerated CentralityClasses methods (Gen/GenCentralityMethods.v, written by
   tools/py2coq/gen_centrality_methods.py) - definitions only.  Everything here is the fixed, trusted reading of the
   Python / numpy primitives the translated methods call; the methods themselves (statements, operators, constants,
   indices, argument order, exception classes) are regenerated from the source on every run and proved equal to
   Model/Centrality.v in Proofs/Centrality_Source.v.

   * exceptions: [result] / [errcls] of Lib/Py.v; an attribute of [self] that was never assigned is [None] and
     reading it raises AttributeError; l[i] is [pyget] of Lib/Py.v (negative indices wrap, IndexError)
   * numbers: a Python int is [Z]; a bin edge (a finite float or an int, as a value) is [Q]; int(x) is [Qtrunc];
     a multiplicity lives in the carrier [T] of the hand model with its decidable total preorder [leb] (no NaN):
     a <= b is [leb a b], a < b is [negb (leb b a)], the literal 0 is [t0]; np.inf is [Inf] of [ext T];
     the averages (np.mean of a list of multiplicities and the float arithmetic on it, np.sqrt) live in an
     uninterpreted type [F] whose operations are section variables of the generated file (oracles)
   * warnings.warn(..) appends the ordinal of the warn statement (position among the warn statements of the method,
     source order) to the list of warnings; the message text is not modelled
   * an argument that the method tests with isinstance is a [pyarg] (list, 1-D ndarray, anything else) / a [pystr]
   * sorted(l, reverse=True): descending and stable (equal elements keep their original order); list.sort():
     ascending and stable; a set of numbers is a list with membership up to numerical equality (10 == 10.0)
   * the one output file (named by the `fname` argument) is a value: None = does not exist, Some lines; one
     write(..) call whose text ends in its only newline is one line; a line is the list of its pieces, a formatted
     value {x} is a typed hole (str() of numbers is not modelled, it contains no blank and no newline) *)
From Coq Require Import List ZArith QArith Qround Bool String.
From SX Require Import Lib.Py.
Import ListNotations.

(* ---- isinstance ---------------------------------------------------------------------------------------- *)
Inductive pyty := Ty_list | Ty_ndarray | Ty_str.
Definition pyty_eqb (a b : pyty) : bool :=
  match a, b with Ty_list, Ty_list | Ty_ndarray, Ty_ndarray | Ty_str, Ty_str => true | _, _ => false end.
Definition has_ty (t : pyty) (tys : list pyty) : bool := existsb (pyty_eqb t) tys.

(* an argument that should be a list or a numpy array; PyOther is an object that is neither *)
Inductive pyarg (A : Type) := PyList (l : list A) | PyArray (l : list A) | PyOther.
Arguments PyList {A}. Arguments PyArray {A}. Arguments PyOther {A}.
(* `if not isinstance(x, tys): ...` (tys among list, np.ndarray): None = the test fails, Some l = it holds and x
   is the sequence l *)
Definition arg_narrow {A} (a : pyarg A) (tys : list pyty) : option (list A) :=
  match a with
  | PyList l => if has_ty Ty_list tys then Some l else None
  | PyArray l => if has_ty Ty_ndarray tys then Some l else None
  | PyOther => None
  end.
(* an argument that should be a str; PyNoStr is an object that is not *)
Inductive pystr := PyStr (s : string) | PyNoStr.
Definition str_narrow (a : pystr) (tys : list pyty) : option string :=
  match a with PyStr s => if has_ty Ty_str tys then Some s else None | PyNoStr => None end.

(* ---- lists, ranges, slices ------------------------------------------------------------------------------ *)
Definition zlen {A} (l : list A) : Z := Z.of_nat (List.length l).
(* range(a, b) *)
Definition py_range (a b : Z) : list Z := map (fun k => (a + Z.of_nat k)%Z) (seq 0 (Z.to_nat (b - a))).
(* enumerate(l, start) *)
Fixpoint enumerate_from {A} (start : Z) (l : list A) : list (Z * A) :=
  match l with [] => [] | a :: t => (start, a) :: enumerate_from (start + 1) t end.
(* l[a:b]: a bound below zero counts from the end, then both are clipped to 0..len *)
Definition py_clip (n i : Z) : Z := Z.max 0 (Z.min n (if (i <? 0)%Z then (n + i)%Z else i)).
Definition py_slice {A} (l : list A) (a b : Z) : list A :=
  let lo := py_clip (zlen l) a in
  let hi := py_clip (zlen l) b in
  firstn (Z.to_nat (hi - lo)) (skipn (Z.to_nat lo) l).
(* reading an attribute of self *)
Definition rd {A} (o : option A) : result A := match o with Some a => Ok a | None => Err AttributeError end.

(* ---- loops ---------------------------------------------------------------------------------------------- *)
(* for x in l: body, the body may raise *)
Fixpoint loopE {A S} (body : S -> A -> result S) (l : list A) (s : S) : result S :=
  match l with
  | [] => Ok s
  | a :: t => match body s a with Err e => Err e | Ok s' => loopE body t s' end
  end.
(* ... and changes a state [P] (the file, the warnings) that survives an exception *)
Fixpoint loopS {P A S} (body : P -> S -> A -> P * result S) (l : list A) (p : P) (s : S) : P * result S :=
  match l with
  | [] => (p, Ok s)
  | a :: t => match body p s a with
              | (p', Err e) => (p', Err e)
              | (p', Ok s') => loopS body t p' s'
              end
  end.
(* a loop without loop-carried variables whose body may `return v` (Some v) or fall through (None) *)
Fixpoint loopR {A R} (body : A -> result (option R)) (l : list A) : result (option R) :=
  match l with
  | [] => Ok None
  | a :: t => match body a with
              | Err e => Err e
              | Ok (Some r) => Ok (Some r)
              | Ok None => loopR body t
              end
  end.
(* all(f(x) for x in l) / any(..): evaluation stops at the first False / True, f may raise *)
Fixpoint all_res {A} (f : A -> result bool) (l : list A) : result bool :=
  match l with
  | [] => Ok true
  | a :: t => match f a with Err e => Err e | Ok true => all_res f t | Ok false => Ok false end
  end.
Fixpoint any_res {A} (f : A -> result bool) (l : list A) : result bool :=
  match l with
  | [] => Ok false
  | a :: t => match f a with Err e => Err e | Ok true => Ok true | Ok false => any_res f t end
  end.

(* ---- bin edges (Q) ---------------------------------------------------------------------------------------- *)
Definition q_lt (a b : Q) : bool := negb (Qle_bool b a).
(* list.sort() *)
Fixpoint q_insert (x : Q) (l : list Q) : list Q :=
  match l with
  | [] => [x]
  | y :: t => if Qle_bool x y then x :: y :: t else y :: q_insert x t
  end.
Definition q_sort (l : list Q) : list Q := fold_right q_insert [] l.
(* set(), s.add(x), x in s *)
Definition qset := list Q.
Definition set_empty : qset := [].
Definition set_add (x : Q) (s : qset) : qset := x :: s.
Definition set_mem (x : Q) (s : qset) : bool := existsb (Qeq_bool x) s.

(* ---- multiplicities (T) ------------------------------------------------------------------------------------- *)
Section Ord.
  Variable T : Type.
  Variable leb : T -> T -> bool.
  Definition t_le (a b : T) : bool := leb a b.
  Definition t_lt (a b : T) : bool := negb (leb b a).
  (* a finite x against a stored value m that may be +inf *)
  Definition te_ge (x : T) (m : ext T) : bool := match m with Val t => leb t x | Inf => false end.
  Definition te_lt (x : T) (m : ext T) : bool := match m with Val t => negb (leb t x) | Inf => true end.
  Definition te_le (x : T) (m : ext T) : bool := match m with Val t => leb x t | Inf => true end.
  Definition te_gt (x : T) (m : ext T) : bool := match m with Val t => negb (leb x t) | Inf => false end.
  (* sorted(l, reverse=True) *)
  Fixpoint t_insert_desc (x : T) (l : list T) : list T :=
    match l with
    | [] => [x]
    | y :: t => if leb y x then x :: y :: t else y :: t_insert_desc x t
    end.
  Definition py_sorted_rev (l : list T) : list T := fold_right t_insert_desc [] l.
  (* sorted(l) *)
  Fixpoint t_insert_asc (x : T) (l : list T) : list T :=
    match l with
    | [] => [x]
    | y :: t => if leb x y then x :: y :: t else y :: t_insert_asc x t
    end.
  Definition py_sorted (l : list T) : list T := fold_right t_insert_asc [] l.
End Ord.
Arguments t_le {T}. Arguments t_lt {T}. Arguments te_ge {T}. Arguments te_lt {T}. Arguments te_le {T}.
Arguments te_gt {T}. Arguments py_sorted_rev {T}. Arguments py_sorted {T}.

(* ---- the object and the file -------------------------------------------------------------------------------- *)
Section Obj.
  Variables T F : Type.
  Record cself := CSelf {
    events_multiplicity_ : option (list T);
    centrality_bins_ : option (list Q);
    dNchdetaMin_ : option (list (ext T));
    dNchdetaMax_ : option (list T);
    dNchdetaAvg_ : option (list F);
    dNchdetaAvgErr_ : option (list F) }.
  (* the object before __init__ has assigned anything *)
  Definition cs_new : cself := CSelf None None None None None None.
  Definition set_events_multiplicity_ (s : cself) v :=
    CSelf v (centrality_bins_ s) (dNchdetaMin_ s) (dNchdetaMax_ s) (dNchdetaAvg_ s) (dNchdetaAvgErr_ s).
  Definition set_centrality_bins_ (s : cself) v :=
    CSelf (events_multiplicity_ s) v (dNchdetaMin_ s) (dNchdetaMax_ s) (dNchdetaAvg_ s) (dNchdetaAvgErr_ s).
  Definition set_dNchdetaMin_ (s : cself) v :=
    CSelf (events_multiplicity_ s) (centrality_bins_ s) v (dNchdetaMax_ s) (dNchdetaAvg_ s) (dNchdetaAvgErr_ s).
  Definition set_dNchdetaMax_ (s : cself) v :=
    CSelf (events_multiplicity_ s) (centrality_bins_ s) (dNchdetaMin_ s) v (dNchdetaAvg_ s) (dNchdetaAvgErr_ s).
  Definition set_dNchdetaAvg_ (s : cself) v :=
    CSelf (events_multiplicity_ s) (centrality_bins_ s) (dNchdetaMin_ s) (dNchdetaMax_ s) v (dNchdetaAvgErr_ s).
  Definition set_dNchdetaAvgErr_ (s : cself) v :=
    CSelf (events_multiplicity_ s) (centrality_bins_ s) (dNchdetaMin_ s) (dNchdetaMax_ s) (dNchdetaAvg_ s) v.

  Inductive piece := PS (s : string) | PZ (z : Z) | PQ (q : Q) | PT (t : T) | PE (e : ext T) | PF (f : F).
  Definition line := list piece.
  Definition file := option (list line).
  Definition content (fs : file) : list line := match fs with Some c => c | None => [] end.
  (* open(fname, mode): "w" creates / truncates, "a" creates / keeps, "r" needs the file *)
  Definition fs_open (fs : file) (mode : string) : result file :=
    if String.eqb mode "w"%string then Ok (Some [])
    else if String.eqb mode "a"%string then Ok (Some (content fs))
    else if String.eqb mode "r"%string then match fs with None => Err OtherError | Some _ => Ok fs end
    else Err ValueError.
  (* handle.write(text) of one line on a handle opened with [mode] *)
  Definition fs_write (fs : file) (mode : string) (l : line) : result file :=
    if String.eqb mode "r"%string then Err OtherError else Ok (Some (content fs ++ [l])).
End Obj.
Arguments CSelf {T F}. Arguments cs_new {T F}.
Arguments events_multiplicity_ {T F}. Arguments centrality_bins_ {T F}. Arguments dNchdetaMin_ {T F}.
Arguments dNchdetaMax_ {T F}. Arguments dNchdetaAvg_ {T F}. Arguments dNchdetaAvgErr_ {T F}.
Arguments set_events_multiplicity_ {T F}. Arguments set_centrality_bins_ {T F}. Arguments set_dNchdetaMin_ {T F}.
Arguments set_dNchdetaMax_ {T F}. Arguments set_dNchdetaAvg_ {T F}. Arguments set_dNchdetaAvgErr_ {T F}.
Arguments PS {T F}. Arguments PZ {T F}. Arguments PQ {T F}. Arguments PT {T F}. Arguments PE {T F}. Arguments PF {T F}.
Arguments content {T F}. Arguments fs_open {T F}. Arguments fs_write {T F}.

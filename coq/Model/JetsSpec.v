(* C20: what the output file has to hold, stated without loops, file state or exceptions.
   The oracles (cluster, accessors, dR) are the same section variables as in Model/Jets.v. *)
From Coq Require Import List ZArith QArith Bool.
From SX Require Import Model.Jets.
Import ListNotations.

Definition status_set (p : particle) : Prop := pstatus p <> None.
Definition is_hole (p : particle) : bool := match pstatus p with Some s => (s <? 0)%Z | None => false end.
Definition is_hadron (p : particle) : bool := match pstatus p with Some s => (0 <=? s)%Z | None => false end.

(* accepted arguments: positive radius, no negative pT bound *)
Definition valid (a : params) : Prop :=
  Qle_bool (a_R a) 0 = false /\ negative_bound (fst (a_pt a)) = false /\ negative_bound (snd (a_pt a)) = false.

(* one written jet: event index, momentum after hole subtraction, associated particles in event order *)
Record jetout := JetOut { jo_event : Z; jo_mom : vec4; jo_assoc : list particle }.

Section Spec.
  Variable cluster : alg -> Q -> list vec4 -> list vec4.
  Variables acc_perp acc_eta acc_phi : vec4 -> Q.
  Variable dR : vec4 -> vec4 -> Q.

  Definition in_cone (a : params) (jet : vec4) (p : particle) : bool := qlt (dR jet (pmom p)) (a_R a).
  (* lower pT bound and eta window of the call: limits re-ordered, None unbounded *)
  Definition pt_lo (a : params) : ext := fst (norm_pt (a_pt a)).
  Definition pt_hi (a : params) : ext := snd (norm_pt (a_pt a)).
  Definition window (a : params) : ext * ext := norm_eta (a_eta a).

  (* the jets of the event that the algorithm and radius find with pT >= lower bound and eta inside the window *)
  Definition candidates (a : params) (ev : event) : list vec4 :=
    filter (fun j => pt_ge j (pt_lo a) && in_window (acc_eta j) (window a))
           (cluster (a_alg a) (a_R a) (map pmom ev)).
  (* negative-status particles inside the cone; non-negative-status (charged only, if requested) inside the cone *)
  Definition holes (a : params) (jet : vec4) (ev : event) : list particle :=
    filter (fun p => is_hole p && in_cone a jet p) ev.
  Definition associated (a : params) (jet : vec4) (ev : event) : list particle :=
    filter (fun p => is_hadron p && (if a_charged a then negb (charge_is_zero p) else true) && in_cone a jet p) ev.
  Definition momentum (a : params) (jet : vec4) (ev : event) : vec4 := vsub jet (vsum (holes a jet ev)).

  (* omitted iff pT after hole subtraction reaches the upper bound *)
  Definition event_jets (a : params) (i : Z) (ev : event) : list jetout :=
    flat_map (fun jet => if pt_ge (momentum a jet ev) (pt_hi a) then []
                         else [JetOut i (momentum a jet ev) (associated a jet ev)])
             (candidates a ev).
  Fixpoint jets_from (a : params) (i : Z) (evs : list event) : list jetout :=
    match evs with [] => [] | ev :: t => event_jets a i ev ++ jets_from a (i + 1) t end.
  Definition selected_jets (a : params) (evs : list event) : list jetout := jets_from a 0 evs.

  (* row layout: the jet row (index 0, status 10, pid 10), then the associated particles numbered from 1 *)
  Definition jet_group (jo : jetout) : list row :=
    Row 0 (acc_perp (jo_mom jo)) (acc_eta (jo_mom jo)) (acc_phi (jo_mom jo)) 10 10 (ve (jo_mom jo)) (jo_event jo)
    :: map (fun kp => Row (Z.of_nat (fst kp)) (acc_perp (pmom (snd kp))) (acc_eta (pmom (snd kp)))
                          (acc_phi (pmom (snd kp))) (status_of (snd kp)) (ppdg (snd kp)) (ve (pmom (snd kp)))
                          (jo_event jo))
           (combine (seq 1 (length (jo_assoc jo))) (jo_assoc jo)).
  Definition rows_of (js : list jetout) : list row := flat_map jet_group js.
  Definition lines_of (js : list jetout) : list line := map JetLine (rows_of js).

  (* an event the call can process: it has no jet to write, or every particle has its status set *)
  Definition event_ok (a : params) (ev : event) : Prop := candidates a ev = [] \/ Forall status_set ev.
End Spec.

(* C03 specification: the DOCUMENTED predicate of every filter of sparkx.Filter, written independently of
   the code (Gen/GenFilters.v is what the code does; Proofs/C03_*.v relate the two).

   Values live on the extended line: a window limit [None] is -inf / +inf, a quantity may be +-inf or NaN
   (unset attribute, undefined kinematics); IEEE comparisons are false on NaN, so an undefined quantity never
   passes a cut.  Limits are accepted in either order: [between a b v] says v lies between a and b.
   Particle-level filters are [map (filter pred)], event-level cuts are [filter epred] with the library's
   convention that "no event left" is the list with one empty event. *)
From Coq Require Import List ZArith QArith Bool String.
From SX Require Import Model.PyRt.
Import ListNotations.

(* the value an accessor returned (an accessor that raised has no value: the theorems exclude it) *)
Definition oval (p : pobs) (a : acc) : Fval :=
  match obs p a with Ret v => v | Raises _ => NaN end.

Definition particle_level (pred : pobs -> bool) (evs : plist) : plist := map (filter pred) evs.
Definition event_level (epred : pevent -> bool) (evs : plist) : plist :=
  match filter epred evs with [] => [[]] | l => l end.

(* ---- windows *)
Definition between (a b v : Fval) : bool := (fle a v && fle v b) || (fle b v && fle v a).
(* [min,max): inclusive lower, exclusive upper bound, limits in either order *)
Definition between_excl (a b v : Fval) : bool := (fle a v && flt v b) || (fle b v && flt v a).

(* a cut limit as the user writes it: None, an int or a (finite) float *)
Inductive lim := LNone | LInt (z : Z) | LFloat (q : Q).
Definition lim_val (l : lim) : option Fval :=
  match l with LNone => None | LInt z => Some (fofZ z) | LFloat q => Some (Fin q) end.
Definition lo_of (l : lim) : Fval := match lim_val l with Some v => v | None => NInf end.
Definition hi_of (l : lim) : Fval := match lim_val l with Some v => v | None => PInf end.
(* a number: int or finite float *)
Inductive num := NInt (z : Z) | NFloat (q : Q).
Definition num_val (n : num) : Fval := match n with NInt z => fofZ z | NFloat q => Fin q end.

Definition window (a : acc) (lo hi : lim) (p : pobs) : bool := between (lo_of lo) (hi_of hi) (oval p a).
Definition window2 (a : acc) (c1 c2 : num) (p : pobs) : bool := between (num_val c1) (num_val c2) (oval p a).
(* a single number: the window symmetric about zero *)
Definition window_sym (a : acc) (c : num) (p : pobs) : bool :=
  between (fneg (num_val c)) (num_val c) (oval p a).

Definition spec_pT_cut (evs : plist) (lo hi : lim) := particle_level (window M_pT_abs lo hi) evs.
Definition spec_mT_cut (evs : plist) (lo hi : lim) := particle_level (window M_mT lo hi) evs.
Inductive dim := Dt | Dx | Dy | Dz.
Definition dim_acc (d : dim) : acc := match d with Dt => A_t | Dx => A_x | Dy => A_y | Dz => A_z end.
Definition spec_spacetime_cut (evs : plist) (d : dim) (lo hi : lim) := particle_level (window (dim_acc d) lo hi) evs.
Definition spec_rapidity_cut (evs : plist) (c1 c2 : num) := particle_level (window2 M_rapidity c1 c2) evs.
Definition spec_rapidity_cut_sym (evs : plist) (c : num) := particle_level (window_sym M_rapidity c) evs.
Definition spec_pseudorapidity_cut (evs : plist) (c1 c2 : num) := particle_level (window2 M_pseudorapidity c1 c2) evs.
Definition spec_pseudorapidity_cut_sym (evs : plist) (c : num) := particle_level (window_sym M_pseudorapidity c) evs.
Definition spec_spacetime_rapidity_cut (evs : plist) (c1 c2 : num) := particle_level (window2 M_spacetime_rapidity c1 c2) evs.
Definition spec_spacetime_rapidity_cut_sym (evs : plist) (c : num) := particle_level (window_sym M_spacetime_rapidity c) evs.

(* ---- charge, collisions, classification: the quantity is defined and non-zero / zero *)
Definition nonzero (v : Fval) : bool :=
  match v with Fin q => negb (Qeq_bool q 0) | PInf | NInf => true | NaN => false end.
Definition iszero (v : Fval) : bool :=
  match v with Fin q => Qeq_bool q 0 | _ => false end.
Definition holds (a : acc) (p : pobs) : bool := nonzero (oval p a).
Definition vanishes (a : acc) (p : pobs) : bool := iszero (oval p a).

Definition spec_charged_particles (evs : plist) := particle_level (holds A_charge) evs.
Definition spec_uncharged_particles (evs : plist) := particle_level (vanishes A_charge) evs.
Definition spec_participants (evs : plist) := particle_level (holds A_ncoll) evs.
Definition spec_spectators (evs : plist) := particle_level (vanishes A_ncoll) evs.
(* the classification methods answer True (1), False (0) or nan (PDG code unknown) *)
Definition spec_keep_hadrons (evs : plist) := particle_level (holds M_is_hadron) evs.
Definition spec_keep_leptons (evs : plist) := particle_level (holds M_is_lepton) evs.
Definition spec_keep_quarks (evs : plist) := particle_level (holds M_is_quark) evs.
Definition spec_keep_mesons (evs : plist) := particle_level (holds M_is_meson) evs.
Definition spec_keep_baryons (evs : plist) := particle_level (holds M_is_baryon) evs.
Definition spec_keep_up (evs : plist) := particle_level (holds M_has_up) evs.
Definition spec_keep_down (evs : plist) := particle_level (holds M_has_down) evs.
Definition spec_keep_strange (evs : plist) := particle_level (holds M_has_strange) evs.
Definition spec_keep_charm (evs : plist) := particle_level (holds M_has_charm) evs.
Definition spec_keep_bottom (evs : plist) := particle_level (holds M_has_bottom) evs.
Definition spec_keep_top (evs : plist) := particle_level (holds M_has_top) evs.

(* ---- PDG id / status membership.  The pdg accessor returns an int or nan; its integer value: *)
Definition pdg_in (ids : list Z) (p : pobs) : bool :=
  match oval p A_pdg with Fin q => existsb (Z.eqb (qtrunc q)) ids | _ => false end.
Definition pdg_notin (ids : list Z) (p : pobs) : bool :=
  match oval p A_pdg with Fin q => negb (existsb (Z.eqb (qtrunc q)) ids) | _ => false end.
Definition status_in (ids : list Z) (p : pobs) : bool :=
  match oval p A_status with Fin q => existsb (fun z => Qeq_bool q (inject_Z z)) ids | _ => false end.

Definition spec_particle_species (evs : plist) (ids : list Z) := particle_level (pdg_in ids) evs.
Definition spec_remove_particle_species (evs : plist) (ids : list Z) := particle_level (pdg_notin ids) evs.
Definition spec_remove_photons (evs : plist) := particle_level (pdg_notin [22%Z]) evs.
Definition spec_particle_status (evs : plist) (ids : list Z) := particle_level (status_in ids) evs.

(* ---- event-level cuts *)
(* total energy: the energies that are defined, summed in event order *)
Definition total_energy (ev : pevent) : Fval :=
  fold_left fadd (filter (fun v => negb (fisnan v)) (map (fun p => oval p A_E) ev)) (fofZ 0).
Definition spec_lower_event_energy_cut (evs : plist) (thr : num) :=
  event_level (fun ev => fle (num_val thr) (total_energy ev)) evs.
Definition spec_multiplicity_cut (evs : plist) (lo hi : lim) :=
  event_level (fun ev => between_excl (lo_of lo) (hi_of hi) (fofZ (Z.of_nat (List.length ev)))) evs.

(* ---- admissible arguments (what the documentation allows) *)
Definition lim_set (l : lim) : Prop := l <> LNone.
Definition lim_nonneg (l : lim) : Prop :=
  match l with LNone => True | LInt z => (0 <= z)%Z | LFloat q => 0 <= q end.
Definition num_pos (n : num) : Prop := match n with NInt z => (0 < z)%Z | NFloat q => 0 < q end.

(* the arguments as Python values *)
Definition v_lim (l : lim) : pyv := match l with LNone => VNone | LInt z => VInt z | LFloat q => VFloat (Fin q) end.
Definition v_num (n : num) : pyv := match n with NInt z => VInt z | NFloat q => VFloat (Fin q) end.
Definition v_pair (a b : pyv) : pyv := VTuple [a; b].
Definition v_dim (d : dim) : pyv :=
  VStr (match d with Dt => "t" | Dx => "x" | Dy => "y" | Dz => "z" end)%string.
(* PDG ids / status codes: a scalar, a list, a tuple or a numpy integer array *)
Inductive shape := Scalar | SList | STuple | SArray.
Definition v_ids (s : shape) (ids : list Z) : pyv :=
  match s with
  | Scalar => match ids with [z] => VInt z | _ => VNone end
  | SList => VList (map VInt ids)
  | STuple => VTuple (map VInt ids)
  | SArray => VArr (map VNpInt ids)
  end.
Definition shape_ok (s : shape) (ids : list Z) : Prop :=
  match s with Scalar => List.length ids = 1%nat | _ => True end.

(* ---- hypotheses on the observations *)
(* the accessors read by a filter returned a value on every particle (none raised) *)
Definition no_raise (accs : list acc) (evs : plist) : Prop :=
  forall ev p a, In ev evs -> In p ev -> In a accs -> exists v, obs p a = Ret v.
(* the accessor returned an int or nan (never +-inf) - true of Particle.pdg by construction *)
Definition int_or_nan (a : acc) (evs : plist) : Prop :=
  forall ev p, In ev evs -> In p ev -> exists v, obs p a = Ret v /\ v <> PInf /\ v <> NInf.

(* Runtime of the regenerated BulkObservables methods (Gen/GenBulk.v, written by tools/py2coq/gen_bulk.py).

   The translator turns the method bodies of src/sparkx/BulkObservables.py into Gallina, statement by
   statement, over the vocabulary defined here.  Nothing here is specific to one method: these are the
   meanings given to the Python constructs the translator accepts.  Definitions only (no proofs).

   Python ints are [Z]; an exact number of the input domain (y_width, bin edges) is [Qc]; a float that may be
   NaN is a [cell] (Model/Histogram.v); exceptions are [Err cls].
   A particle is an abstract [P] observed through [obs name p] = the value returned by getattr(p, name)()
   and [is_callable name] = callable(getattr(p, name)) (a fact about the class, the same for every particle). *)
From Coq Require Import String List ZArith QArith Qcanon Bool Arith.
From SX Require Import Model.Histogram Model.Bulk.
Import ListNotations.

(* ---------------------------------------------------------------- isinstance *)
Inductive pyty := T_int | T_float | T_str | T_tuple | T_list.
Definition pyty_eqb (a b : pyty) : bool :=
  match a, b with
  | T_int, T_int | T_float, T_float | T_str, T_str | T_tuple, T_tuple | T_list, T_list => true
  | _, _ => false
  end.
Definition has (t : pyty) (tys : list pyty) : bool := existsb (pyty_eqb t) tys.
(* "a number" of the input domain is an int or a float, the model does not say which: the test is decided
   (true) only when both types are listed *)
Definition number_is (tys : list pyty) : bool := has T_int tys && has T_float tys.
Definition str_is (tys : list pyty) : bool := has T_str tys.

(* y_width: a number, or an object that is neither an int nor a float *)
Inductive warg := WNum (w : Qc) | WOther.

(* bin_properties (binspec of Model/Bulk.v): tuple (number, number, n) or list of numbers *)
Definition bins_is (b : binspec) (tys : list pyty) : bool :=
  match b with BTuple _ _ _ _ => has T_tuple tys | BList _ => has T_list tys end.
Definition bins_len (b : binspec) : Z :=
  match b with BTuple _ _ _ _ => 3%Z | BList es => Z.of_nat (length es) end.
Inductive item := INum | ICount (is_int : bool).
Definition item_is (i : item) (tys : list pyty) : bool :=
  match i with INum => number_is tys | ICount true => has T_int tys | ICount false => has T_float tys end.
Definition bins_items (b : binspec) : list item :=
  match b with BTuple _ _ is_int _ => [INum; INum; ICount is_int] | BList es => map (fun _ => INum) es end.

(* sequence[index] with Python's negative indices *)
Definition seq_get {A} (l : list A) (i : Z) : result A :=
  if (i <? 0)%Z then (if (Z.of_nat (length l) + i <? 0)%Z then Err IndexError
                      else nth_res l (Z.to_nat (Z.of_nat (length l) + i)))
  else nth_res l (Z.to_nat i).
Definition bins_item (b : binspec) (k : Z) : result item := seq_get (bins_items b) k.
Definition py_len {A} (l : list A) : Z := Z.of_nat (length l).
Definition py_range (n : Z) : list Z := map Z.of_nat (seq 0 (Z.to_nat n)).

(* ---------------------------------------------------------------- numbers *)
Definition int_q (z : Z) : Qc := Q2Qc (z # 1).
(* int / int: true division *)
Definition py_div_int (a b : Z) : result Qc :=
  if (b =? 0)%Z then Err ZeroDivisionError else Ok (int_q a / int_q b)%Qc.
(* comparison of two floats: false when one of them is NaN *)
Definition cmp_cc (op : Qc -> Qc -> bool) (a b : cell) : bool :=
  match a, b with Some x, Some y => op x y | _, _ => false end.
Definition Qcgeb (x y : Qc) : bool := Qcleb y x.
Definition Qcgtb (x y : Qc) : bool := Qcltb y x.

(* ---------------------------------------------------------------- control *)
Definition orM (a b : result bool) : result bool := bind a (fun x => if x then Ok true else b).
Definition andM (a b : result bool) : result bool := bind a (fun x => if x then b else Ok false).

Fixpoint fold_leftM {S A} (f : S -> A -> result S) (l : list A) (s : S) : result S :=
  match l with
  | [] => Ok s
  | a :: t => bind (f s a) (fun s' => fold_leftM f t s')
  end.
(* a loop with `break`: the body returns the new state and whether it left the loop *)
Fixpoint for_break {S A} (f : S -> A -> result (S * bool)) (l : list A) (s : S) : result S :=
  match l with
  | [] => Ok s
  | a :: t => bind (f s a) (fun r => if snd r then Ok (fst r) else for_break f t (fst r))
  end.

(* ---------------------------------------------------------------- Histogram calls *)
(* Histogram(bin_properties) *)
Definition hist_new (ulinspace : Qc -> Qc -> nat -> list Qc) (b : binspec) : result hist :=
  match b with
  | BTuple lo hi is_int n => init_tuple ulinspace lo hi is_int n
  | BList es => init_list es
  end.
(* hist.bin_width() *)
Definition hist_bin_width (h : hist) : list Qc := widths (edges h).
(* number / ndarray *)
Definition rdiv_list (c : Qc) (ws : list Qc) : list cell := map (fun w => cdiv (Some c) (Some w)) ws.
(* hist.add_value(x), x a scalar, no weight *)
Definition hist_add_value (h : hist) (x : cell) : result hist := add_value h (VScalar x) WNone.

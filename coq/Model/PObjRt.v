(* Python / numpy run-time fragment in which ParticleObjectLoader (__init__, load, set_particle_list,
   set_num_output_per_event), BaseLoader._check_that_tuple_contains_integers_only, BaseStorer.__init__ and
   ParticleObjectStorer (__init__, create_loader, _particle_as_list, _update_after_merge) are written.
   tools/py2coq/gen_pobj.py translates those method bodies statement by statement into Gallina over this
   file (Gen/GenPObj.v); Proofs/PObj_Source.v proves the hand model Model/PObj.v equal to the result.
   Definitions only.

   Values are dynamically typed, as in Python.
   - an object is its class name and its attribute dictionary (insertion ordered); reading a missing
     attribute is AttributeError.  Lists are values: aliasing is not modelled (the translator accepts
     in-place mutation only of a list that the same method has just created).
   - a particle object is an opaque value [VP p]; its attributes are read through an oracle.
   - [VOther k]: an object whose type is none of NoneType / bool / int / str / tuple / list / dict /
     ndarray / a sparkx class (a float, say).  Only isinstance is defined on it.
   - the int array of shape (n, 2) is the list of its rows.
   - [Err OtherError] marks operations this fragment does not describe: no theorem concludes [Ok]
     through it and the hand model never produces it. *)
From Coq Require Import List ZArith Bool String.
From SX Require Import Lib.Py.
Import ListNotations.
Local Open Scope Z_scope.

Notation bind := rbind (only parsing).
Notation "x <- a ;; b" := (rbind a (fun x => b)) (at level 61, a at next level, right associativity).

Section Rt.
Variable P : Type.

Inductive pv :=
| VNone
| VBool (b : bool)
| VInt (z : Z)
| VStr (s : string)
| VOther (k : Z)
| VP (p : P)
| VTuple (l : list pv)
| VList (l : list pv)
| VDict (d : list (string * pv))          (* insertion ordered, string keys *)
| VArr2 (rows : list (Z * Z))             (* numpy int array of shape (n, 2) *)
| VObj (c : string) (attrs : list (string * pv)).

(* ------------------------------------------------------------------ string-keyed dictionaries *)
Fixpoint lookup {A} (k : string) (d : list (string * A)) : option A :=
  match d with
  | [] => None
  | (k', v) :: t => if String.eqb k k' then Some v else lookup k t
  end.
(* d[k] = v: an existing key keeps its position *)
Fixpoint update {A} (k : string) (v : A) (d : list (string * A)) : list (string * A) :=
  match d with
  | [] => [(k, v)]
  | (k', v') :: t => if String.eqb k k' then (k', v) :: t else (k', v') :: update k v t
  end.
Fixpoint remove_key {A} (k : string) (d : list (string * A)) : list (string * A) :=
  match d with
  | [] => []
  | (k', v') :: t => if String.eqb k k' then remove_key k t else (k', v') :: remove_key k t
  end.
Definition str_mem (k : string) (l : list string) : bool := existsb (String.eqb k) l.

(* ------------------------------------------------------------------ types *)
Inductive pty := T_list | T_tuple | T_int.
Definition py_isinstance (v : pv) (t : pty) : bool :=
  match v, t with
  | VList _, T_list => true
  | VTuple _, T_tuple => true
  | VInt _, T_int => true
  | VBool _, T_int => true           (* bool is a subclass of int *)
  | _, _ => false
  end.
Definition py_is_none (v : pv) : bool := match v with VNone => true | _ => false end.
Definition as_int (v : pv) : option Z :=
  match v with VInt z => Some z | VBool b => Some (if b then 1 else 0) | _ => None end.
(* a builtin value that is not a number (comparing / adding it with an int is a TypeError) *)
Definition non_number (v : pv) : bool :=
  match v with VNone | VStr _ | VTuple _ | VList _ | VDict _ => true | _ => false end.

(* ------------------------------------------------------------------ monadic list operations *)
Fixpoint fold_leftM {S A} (f : S -> A -> result S) (l : list A) (s : S) : result S :=
  match l with
  | [] => Ok s
  | x :: t => s' <- f s x ;; fold_leftM f t s'
  end.
Fixpoint mapM {A B} (f : A -> result B) (l : list A) : result (list B) :=
  match l with
  | [] => Ok []
  | x :: t => y <- f x ;; r <- mapM f t ;; Ok (y :: r)
  end.
Fixpoint existsM {A} (f : A -> result bool) (l : list A) : result bool :=
  match l with
  | [] => Ok false
  | x :: t => b <- f x ;; if b then Ok true else existsM f t
  end.
(* all(c(x) for x in l): stops at the first false *)
Fixpoint forallM {A} (f : A -> result bool) (l : list A) : result bool :=
  match l with
  | [] => Ok true
  | x :: t => b <- f x ;; if b then forallM f t else Ok false
  end.
Definition andM (a b : result bool) : result bool := x <- a ;; if x then b else Ok false.
Definition orM (a b : result bool) : result bool := x <- a ;; if x then Ok true else b.
Definition notM (a : result bool) : result bool := x <- a ;; Ok (negb x).
Definition py_unbound {A} (o : option A) : result A :=
  match o with Some a => Ok a | None => Err OtherError end.      (* UnboundLocalError *)
Fixpoint opt_all {A} (l : list (option A)) : option (list A) :=
  match l with
  | [] => Some []
  | Some a :: t => match opt_all t with Some r => Some (a :: r) | None => None end
  | None :: _ => None
  end.

(* ------------------------------------------------------------------ arithmetic, comparisons *)
Definition py_add (a b : pv) : result pv :=
  match as_int a, as_int b with
  | Some x, Some y => Ok (VInt (x + y))
  | Some _, None => if non_number b then Err TypeError else Err OtherError
  | None, Some _ => if non_number a then Err TypeError else Err OtherError
  | None, None => Err OtherError
  end.
Definition py_cmp (f : Z -> Z -> bool) (a b : pv) : result bool :=
  match as_int a, as_int b with
  | Some x, Some y => Ok (f x y)
  | Some _, None => if non_number b then Err TypeError else Err OtherError
  | None, Some _ => if non_number a then Err TypeError else Err OtherError
  | None, None => Err OtherError
  end.
Definition py_lt := py_cmp Z.ltb.
Definition py_le := py_cmp Z.leb.
Definition py_gt := py_cmp Z.gtb.
Definition py_ge := py_cmp Z.geb.
(* == on None / int / bool / str; compound values are outside *)
Definition py_eq (a b : pv) : result bool :=
  match as_int a, as_int b with
  | Some x, Some y => Ok (x =? y)
  | _, _ =>
    match a, b with
    | VStr s, VStr t => Ok (String.eqb s t)
    | VNone, VNone => Ok true
    | VNone, (VBool _ | VInt _ | VStr _) => Ok false
    | VStr _, (VNone | VBool _ | VInt _) => Ok false
    | (VBool _ | VInt _), (VNone | VStr _) => Ok false
    | _, _ => Err OtherError
    end
  end.
Definition py_ne (a b : pv) : result bool := notM (py_eq a b).

(* ------------------------------------------------------------------ sequences, dictionaries *)
Definition zlen {A} (l : list A) : Z := Z.of_nat (List.length l).
Definition py_len (v : pv) : result pv :=
  match v with
  | VList l | VTuple l => Ok (VInt (zlen l))
  | VDict d => Ok (VInt (zlen d))
  | VArr2 r => Ok (VInt (zlen r))
  | VStr s => Ok (VInt (Z.of_nat (String.length s)))
  | VNone | VBool _ | VInt _ => Err TypeError
  | _ => Err OtherError
  end.

(* x[i] *)
Definition py_getitem (x i : pv) : result pv :=
  match x with
  | VList l | VTuple l =>
      match as_int i with
      | Some z => pyget l z
      | None => if non_number i then Err TypeError else Err OtherError
      end
  | VDict d =>
      match i with
      | VStr k => match lookup k d with Some v => Ok v | None => Err KeyError end
      | _ => Err OtherError
      end
  | VNone | VBool _ | VInt _ => Err TypeError          (* object is not subscriptable *)
  | _ => Err OtherError
  end.

(* the position a slice bound denotes in a sequence of length n *)
Definition slice_idx (n i : Z) : Z := if i <? 0 then Z.max 0 (n + i) else Z.min i n.
Definition pyslice {A} (l : list A) (lo hi : Z) : list A :=
  let s := slice_idx (zlen l) lo in
  let e := slice_idx (zlen l) hi in
  firstn (Z.to_nat (e - s)) (skipn (Z.to_nat s) l).
(* x[lo:hi] *)
Definition py_slice (x lo hi : pv) : result pv :=
  match x with
  | VList l =>
      match as_int lo, as_int hi with
      | Some a, Some b => Ok (VList (pyslice l a b))
      | _, _ => Err OtherError
      end
  | VTuple l =>
      match as_int lo, as_int hi with
      | Some a, Some b => Ok (VTuple (pyslice l a b))
      | _, _ => Err OtherError
      end
  | VNone | VBool _ | VInt _ => Err TypeError
  | _ => Err OtherError
  end.

Definition py_keys (v : pv) : result pv :=
  match v with
  | VDict d => Ok (VList (map (fun kv => VStr (fst kv)) d))
  | VNone | VBool _ | VInt _ | VStr _ | VTuple _ | VList _ => Err AttributeError
  | _ => Err OtherError
  end.
(* d.get(k, default) *)
Definition py_dict_get (d k dflt : pv) : result pv :=
  match d, k with
  | VDict d, VStr k => Ok (match lookup k d with Some v => v | None => dflt end)
  | _, _ => Err OtherError
  end.
(* x in c *)
Definition py_in (x c : pv) : result bool :=
  match c with
  | VList l | VTuple l => existsM (fun e => py_eq x e) l
  | VDict d => match x with
               | VStr k => Ok (match lookup k d with Some _ => true | None => false end)
               | _ => Err OtherError
               end
  | VNone | VBool _ | VInt _ => Err TypeError
  | _ => Err OtherError
  end.
Definition py_not_in (x c : pv) : result bool := notM (py_in x c).

Definition py_iter (v : pv) : result (list pv) :=
  match v with
  | VList l | VTuple l => Ok l
  | VDict d => Ok (map (fun kv => VStr (fst kv)) d)
  | VNone | VBool _ | VInt _ => Err TypeError
  | _ => Err OtherError
  end.
Definition zrange (a b : Z) : list Z := map (fun k => a + Z.of_nat k) (seq 0 (Z.to_nat (b - a))).
Definition py_range (a b : pv) : result (list pv) :=
  match as_int a, as_int b with
  | Some x, Some y => Ok (map VInt (zrange x y))
  | _, _ => if non_number a || non_number b then Err TypeError else Err OtherError
  end.
(* enumerate(x): the pairs are kept apart *)
Definition py_enumerate (v : pv) : result (list (pv * pv)) :=
  l <- py_iter v ;; Ok (combine (map (fun k => VInt (Z.of_nat k)) (seq 0 (List.length l))) l).
(* l.append(x)  (the new l) *)
Definition py_append (l x : pv) : result pv :=
  match l with
  | VList a => Ok (VList (a ++ [x]))
  | VNone | VBool _ | VInt _ | VStr _ | VTuple _ | VDict _ => Err AttributeError
  | _ => Err OtherError
  end.
(* a, b, ... = v  with n targets: the items of v *)
Definition py_unpack (v : pv) (n : nat) : result pv :=
  match v with
  | VTuple l | VList l => if Nat.eqb (List.length l) n then Ok (VTuple l) else Err ValueError
  | VNone | VBool _ | VInt _ => Err TypeError
  | _ => Err OtherError
  end.
(* f(..., **d) where f's named parameters are [names]: a key that is also a named parameter is
   "multiple values for argument" *)
Definition py_starstar (d : pv) (names : list string) : result pv :=
  match d with
  | VDict kv => if existsb (fun k => str_mem k names) (map fst kv) then Err TypeError else Ok (VDict kv)
  | VNone | VBool _ | VInt _ | VStr _ | VTuple _ | VList _ => Err TypeError
  | _ => Err OtherError
  end.

(* ------------------------------------------------------------------ objects *)
Definition py_getattr (o : pv) (a : string) : result pv :=
  match o with
  | VObj _ attrs => match lookup a attrs with Some v => Ok v | None => Err AttributeError end
  | VNone => Err AttributeError
  | _ => Err OtherError
  end.
Definition py_setattr (o : pv) (a : string) (v : pv) : result pv :=
  match o with
  | VObj c attrs => Ok (VObj c (update a v attrs))
  | VNone => Err AttributeError
  | _ => Err OtherError
  end.
(* del o.a *)
Definition py_delattr (o : pv) (a : string) : result pv :=
  match o with
  | VObj c attrs => match lookup a attrs with Some _ => Ok (VObj c (remove_key a attrs)) | None => Err AttributeError end
  | VNone => Err AttributeError
  | _ => Err OtherError
  end.
Definition py_class_of (o : pv) : result string :=
  match o with VObj c _ => Ok c | _ => Err OtherError end.
(* particle.<a>: what reading the attribute of the real Particle object yields (oracle) *)
Definition py_pattr (pattr : P -> string -> result pv) (x : pv) (a : string) : result pv :=
  match x with VP p => pattr p a | VNone => Err AttributeError | _ => Err OtherError end.

(* ------------------------------------------------------------------ nested lists of particle objects *)
Definition of_ev (e : list P) : pv := VList (map VP e).
Definition of_evs (l : list (list P)) : pv := VList (map of_ev l).
Definition as_p (v : pv) : option P := match v with VP p => Some p | _ => None end.
Definition as_ev (v : pv) : option (list P) :=
  match v with VList l => opt_all (map as_p l) | _ => None end.
Definition as_evs (v : pv) : option (list (list P)) :=
  match v with VList l => opt_all (map as_ev l) | _ => None end.
(* self.__apply_kwargs_filters(x, fd): the chain is translated elsewhere (Gen/GenDispatch.v, C05); here it is an
   arbitrary, possibly raising, function of a list of events and the filters value *)
Definition py_apply_filters (flt : list (list P) -> pv -> result (list (list P))) (x fd : pv) : result pv :=
  match as_evs x with
  | Some l => rmap of_evs (flt l fd)
  | None => Err OtherError
  end.

(* ------------------------------------------------------------------ numpy *)
Definition int_row (v : pv) : option (list Z) :=
  match v with VList l => opt_all (map as_int l) | _ => None end.
Fixpoint pairs (l : list Z) : option (list (Z * Z)) :=
  match l with
  | [] => Some []
  | a :: b :: t => match pairs t with Some r => Some ((a, b) :: r) | None => None end
  | _ => None
  end.
Definition same_lengths (rs : list (list Z)) : bool :=
  match rs with
  | [] => true
  | r :: t => forallb (fun r' => Nat.eqb (List.length r') (List.length r)) t
  end.
(* np.array(x, dtype=int).reshape(-1, 2) for a list x of equally long lists of ints ([] included) *)
Definition py_array_int_m1_2 (x : pv) : result pv :=
  match x with
  | VList rows =>
      match opt_all (map int_row rows) with
      | Some rs =>
          if same_lengths rs
          then match pairs (List.concat rs) with Some p => Ok (VArr2 p) | None => Err ValueError end
          else Err ValueError
      | None => Err OtherError
      end
  | _ => Err OtherError
  end.
End Rt.

Arguments VNone {P}.
Arguments VBool {P} b.
Arguments VInt {P} z.
Arguments VStr {P} s.
Arguments VOther {P} k.
Arguments VP {P} p.
Arguments VTuple {P} l.
Arguments VList {P} l.
Arguments VDict {P} d.
Arguments VArr2 {P} rows.
Arguments VObj {P} c attrs.
Arguments py_isinstance {P} v t.
Arguments py_is_none {P} v.
Arguments as_int {P} v.
Arguments non_number {P} v.
Arguments py_add {P} a b.
Arguments py_cmp {P} f a b.
Arguments py_lt {P}.
Arguments py_le {P}.
Arguments py_gt {P}.
Arguments py_ge {P}.
Arguments py_eq {P} a b.
Arguments py_ne {P} a b.
Arguments py_len {P} v.
Arguments py_getitem {P} x i.
Arguments py_slice {P} x lo hi.
Arguments py_keys {P} v.
Arguments py_dict_get {P} d k dflt.
Arguments py_in {P} x c.
Arguments py_not_in {P} x c.
Arguments py_iter {P} v.
Arguments py_range {P} a b.
Arguments py_enumerate {P} v.
Arguments py_append {P} l x.
Arguments py_unpack {P} v n.
Arguments py_starstar {P} d names.
Arguments py_getattr {P} o a.
Arguments py_setattr {P} o a v.
Arguments py_delattr {P} o a.
Arguments py_class_of {P} o.
Arguments py_pattr {P} pattr x a.
Arguments of_ev {P} e.
Arguments of_evs {P} l.
Arguments as_p {P} v.
Arguments as_ev {P} v.
Arguments as_evs {P} v.
Arguments py_apply_filters {P} flt x fd.
Arguments int_row {P} v.
Arguments py_array_int_m1_2 {P} x.

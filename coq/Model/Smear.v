(* Hand model of Lattice3D.add_particle_data (+ reset, add_same_spaced_grid) in INDEX SPACE, statement by statement.
   A particle is seen through what the code reads from it: position (float values), the attributes of the quantity
   dispatch, "momentum is NaN" (the covariant branch tests it), and the values kernel_value.pdf(...) returned for
   the (2mx+1)(2my+1)(2mz+1) nodes of the temporary lattice - the kernel is an ORACLE (scipy's multivariate_normal;
   None stands for a NaN pdf value).  From Gen/GenLattice.v (regenerated from the source every run): the quantity
   dispatch table, `value_to_add = value*smearing_factor/cell_volume_`, the guard in front of the normalisation and
   the division by norm.
   What the model abstracts: the code places the temporary lattice through float coordinates (temp coordinate +
   coordinate of the closest node, a range test against x_min_/x_max_, a nearest-node search); the model says
   offset o of the stencil lands on node c+o, and is skipped when c+o is not a node.  The correspondence compares,
   per particle, WHICH NODES received WHICH amount. *)
From Coq Require Import List ZArith QArith Qround Qabs Bool String.
From SX Require Import Lib.KRing Lib.Py Lib.QCheck Gen.GenLattice Model.Lattice.
Import ListNotations.

(* Python round() of a float: to nearest, ties to even *)
Definition round_half_even (x : Q) : Z :=
  let f := Qfloor x in
  let r := (x - inject_Z f)%Q in
  match Qcompare r (1 # 2) with
  | Lt => f
  | Gt => (f + 1)%Z
  | Eq => if Z.even f then f else (f + 1)%Z
  end.

Definition zrange (n : Z) : list Z := map Z.of_nat (seq 0 (Z.to_nat n)).
(* offsets -m .. m in the order of the loops over the temporary lattice *)
Definition offsets (m : Z) : list Z := map (fun i => (i - m)%Z) (zrange (2 * m + 1)).
Definition stencil (m : Z * Z * Z) : list (Z * Z * Z) :=
  let '(mx, my, mz) := m in
  flat_map (fun a => flat_map (fun b => map (fun c => (a, b, c)) (offsets mz)) (offsets my)) (offsets mx).
Definition cells (n : Z * Z * Z) : list (Z * Z * Z) :=
  let '(nx, ny, nz) := n in
  flat_map (fun a => flat_map (fun b => map (fun c => (a, b, c)) (zrange nz)) (zrange ny)) (zrange nx).

Definition eq3 (p q : Z * Z * Z) : bool :=
  let '(a, b, c) := p in let '(d, e, f) := q in (a =? d)%Z && (b =? e)%Z && (c =? f)%Z.
Definition add3 (p q : Z * Z * Z) : Z * Z * Z :=
  let '(a, b, c) := p in let '(d, e, f) := q in ((a + d)%Z, (b + e)%Z, (c + f)%Z).
Definition in1 (i n : Z) : bool := (0 <=? i)%Z && (i <? n)%Z.
Definition inside (n p : Z * Z * Z) : bool :=
  let '(nx, ny, nz) := n in let '(a, b, c) := p in in1 a nx && in1 b ny && in1 c nz.

Section Smear.
  Variable K : Type.
  Variables (k0 k1 : K) (kadd kmul ksub kdiv : K -> K -> K) (kopp : K -> K).
  Variable norm_ok : K -> bool.          (* the guard in front of `/= norm` *)

  Definition zgrid := Z * Z * Z -> K.
  Definition zupd (g : zgrid) (p : Z * Z * Z) (v : K) : zgrid := fun q => if eq3 q p then v else g q.
  Definition gsum (n : Z * Z * Z) (g : zgrid) : K := ksum k0 kadd (map g (cells n)).

  (* a validated particle: closest node, quantity, stencil half-widths, kernel values per offset *)
  Record dep := { dc : Z * Z * Z; dv : K; dm : Z * Z * Z; dk : Z * Z * Z -> option K }.

  (* norm += smearing_factor  (a NaN makes the sum NaN) *)
  Fixpoint osum (l : list (option K)) : option K :=
    match l with
    | [] => Some k0
    | Some x :: t => match osum t with Some s => Some (kadd x s) | None => None end
    | None :: _ => None
    end.
  Definition knorm (d : dep) : option K := osum (map (dk d) (stencil (dm d))).

  (* value_to_add (NaN -> 0.0), then the second loop: divided by norm when the guard lets it *)
  Definition temp (vol : K) (d : dep) (o : Z * Z * Z) : K :=
    match dk d o with Some s => gen_value_to_add K kmul kdiv (dv d) s vol | None => k0 end.
  Definition tempn_with (N : option K) (vol : K) (d : dep) (o : Z * Z * Z) : K :=
    match N with
    | Some N => if norm_ok N then gen_normalise K kdiv (temp vol d o) N else temp vol d o
    | None => temp vol d o
    end.
  Definition tempn (vol : K) (d : dep) (o : Z * Z * Z) : K := tempn_with (knorm d) vol d o.

  (* add_same_spaced_grid: node c+o receives temp[o]; offsets that leave the lattice are skipped *)
  Definition place_with (N : option K) (n : Z * Z * Z) (vol : K) (d : dep) (g : zgrid) (o : Z * Z * Z) : zgrid :=
    let p := add3 (dc d) o in
    if inside n p then zupd g p (kadd (g p) (tempn_with N vol d o)) else g.
  Definition place (n : Z * Z * Z) (vol : K) (d : dep) : zgrid -> Z * Z * Z -> zgrid := place_with (knorm d) n vol d.
  (* norm is computed once per particle (first pair of loops), then used by every node of the second *)
  Definition deposit_one (n : Z * Z * Z) (vol : K) (g : zgrid) (d : dep) : zgrid :=
    let N := knorm d in fold_left (place_with N n vol d) (stencil (dm d)) g.
  Definition deposit_all (n : Z * Z * Z) (vol : K) (g : zgrid) (ds : list dep) : zgrid :=
    fold_left (deposit_one n vol) ds g.

  (* ---- the particle as the code reads it, and the checks in front of the deposit ------------------------- *)
  Record part := {
    ppos : fv * fv * fv;                       (* particle.x, .y, .z *)
    pattr : string -> option K;                (* particle.<attr> of the quantity table; None = NaN *)
    pmom_nan : bool;                           (* np.isnan(px) or np.isnan(py) or np.isnan(pz) *)
    pkern : Z * Z * Z -> option K              (* kernel_value.pdf at the stencil offsets; None = NaN *)
  }.

  Fixpoint lookup {A} (key : string) (l : list (string * A)) : option A :=
    match l with [] => None | (k, v) :: t => if String.eqb k key then Some v else lookup key t end.

  Definition is_nan (v : fv) : bool := match v with NaN => true | _ => false end.

  Definition quantity_of (quantity : string) (p : part) : result K :=
    match lookup quantity gen_quantity_table with
    | None => Err gen_quantity_unknown
    | Some QOne => Ok k1
    | Some (QAttr a) => match pattr p a with Some v => Ok v | None => Err ValueError end
    end.

  Inductive kernel := Gaussian | Covariant | UnknownKernel.

  (* spacing_x_ = x_values_[1] - x_values_[0] if num_points_x > 1 else None *)
  Definition spacing (a : axis) : option Q :=
    match avals a with v0 :: v1 :: _ => Some (v1 - v0)%Q | _ => None end.

  (* num_x = round(n_sigma_x * sigma / spacing_x) *)
  Definition half_width (nsig sigma : Q) (a : axis) : result Z :=
    match spacing a with
    | None => Err TypeError
    | Some dx => let m := round_half_even (nsig * sigma / dx) in
                 if (m <? 0)%Z then Err ValueError else Ok m      (* a negative node count makes linspace raise *)
    end.

  Definition closest1 (c : fv) (a : axis) : result Z := rmap Z.of_nat (find_closest_index c (avals a)).

  Definition prep (ax ay az : axis) (nsig : Q * Q * Q) (sigma : Q) (quantity : string) (kern : kernel) (p : part)
    : result dep :=
    let '(x, y, z) := ppos p in
    if is_nan x || is_nan y || is_nan z then Err ValueError else
    rbind (quantity_of quantity p) (fun v =>
    match kern with
    | UnknownKernel => Err ValueError
    | _ =>
      if (match kern with Covariant => pmom_nan p | _ => false end) then Err ValueError else
      let '(sx, sy, sz) := nsig in
      rbind (half_width sx sigma ax) (fun mx => rbind (half_width sy sigma ay) (fun my =>
      rbind (half_width sz sigma az) (fun mz =>
      rbind (closest1 x ax) (fun cx => rbind (closest1 y ay) (fun cy => rbind (closest1 z az) (fun cz =>
      Ok {| dc := (cx, cy, cz); dv := v; dm := (mx, my, mz); dk := pkern p |}))))))
    end).

  Fixpoint mapM {A B} (f : A -> result B) (l : list A) : result (list B) :=
    match l with
    | [] => Ok []
    | a :: t => rbind (f a) (fun b => rmap (cons b) (mapM f t))
    end.

  (* the lattice state of this method: axes, cell_volume_, grid over index space *)
  Record slat := { sax : axis; say : axis; saz : axis; svol : K; sgrid : zgrid }.
  Definition sdims (L : slat) : Z * Z * Z :=
    (Z.of_nat (npts (sax L)), Z.of_nat (npts (say L)), Z.of_nat (npts (saz L))).

  (* add_particle_data(particle_data, sigma, quantity, kernel, add); an exception in the middle of the list
     loses the partially updated object, which a functional result cannot show: only Ok states are compared *)
  Definition add_particle_data (L : slat) (nsig : Q * Q * Q) (ps : list part) (sigma : Q) (quantity : string)
             (kern : kernel) (add : bool) : result slat :=
    let g0 : zgrid := if add then sgrid L else (fun _ => k0) in           (* if not add: self.reset() *)
    rbind (mapM (prep (sax L) (say L) (saz L) nsig sigma quantity kern) ps) (fun ds =>
      Ok {| sax := sax L; say := say L; saz := saz L; svol := svol L;
            sgrid := deposit_all (sdims L) (svol L) g0 ds |}).
End Smear.
Arguments dc {K}. Arguments dv {K}. Arguments dm {K}. Arguments dk {K}.
Arguments ppos {K}. Arguments pattr {K}. Arguments pmom_nan {K}. Arguments pkern {K}.
Arguments sdims {K}. Arguments sax {K}. Arguments say {K}. Arguments saz {K}. Arguments svol {K}. Arguments sgrid {K}.

(* executable instance: Q kept in lowest terms; the guard as read from the source *)
Definition qadd x y := Qred (Qplus x y).
Definition qmul x y := Qred (Qmult x y).
Definition qsub x y := Qred (Qminus x y).
Definition qdiv x y := Qred (Qdiv x y).
Definition q_add_particle_data := add_particle_data Q 0%Q 1%Q qadd qmul qdiv gen_norm_ok.

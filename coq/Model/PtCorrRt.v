(* Runtime of the regenerated MultiParticlePtCorrelations methods (Gen/GenPtCorrMethods.v, written by
   tools/py2coq/gen_ptcorr_methods.py).  Definitions only (no proofs): the fixed reading of the Python / numpy
   constructs the translator accepts.  The method bodies themselves (statements, operators, constants, indices,
   argument order, defaults, exception classes) are regenerated from the source on every run and proved equal to
   Model/PtCorr.v in Proofs/PtCorr_Source.v.

   * exceptions: [result] of Lib/Py.v ([Err cls]); the state of the objects after an exception is not modelled
   * a float is [F := option K] over the carrier K of Model/PtCorr.v: [Some x] a finite value, [None] a non-finite
     one (NaN and +-inf are not told apart; arithmetic is exact - rounding/overflow are not modelled - and strict in
     [None]; x / 0 is non-finite).  [np.isnan] is applied to particle weights only, which are finite or NaN (an
     infinite weight is outside the domain, as in the hand model), so there [None] reads "NaN".
   * a scalar carries whether it is a Python float or a numpy float64: the only place where it matters is `/`
     (Python float / Python float 0.0 raises ZeroDivisionError, a numpy scalar division gives inf/NaN) and `**`.
     Literals are Python floats; array elements, particle accessors and anything combined with them are numpy scalars.
   * a 1-D array is the list of its elements; a 2-D array is the list of its rows ([] is the 1-D empty array that
     np.array([]) returns: every 2-index access raises IndexError); `self.N_events` / `self.D_events` change their
     Python type over time (unset, None, list of rows, ndarray): [store]
   * a particle is the hand model's [particle K] = (pT_abs(), weight) with weight None = NaN
   * argument values of the public methods: [pyval] (isinstance decides on the constructor; bool is an int) *)
From Coq Require Import List ZArith QArith Bool.
From SX Require Import Lib.Py Lib.KRing Model.PtCorr.
Import ListNotations.

Definition bind {A B} := @rbind A B.

(* ---------------------------------------------------------------- argument values *)
(* a Python float as an argument value (ordered: the range check of delete_fraction) *)
Inductive fq := FQ (q : Q) | FPInf | FNInf | FNaN.
Definition fq_ltb (a b : fq) : bool :=
  match a, b with
  | FNaN, _ | _, FNaN => false
  | FQ x, FQ y => negb (Qle_bool y x)
  | FNInf, FNInf => false | FNInf, _ => true
  | _, FNInf => false
  | FPInf, _ => false
  | FQ _, FPInf => true
  end.
Definition fq_leb (a b : fq) : bool :=
  match a, b with
  | FNaN, _ | _, FNaN => false
  | FQ x, FQ y => Qle_bool x y
  | FNInf, _ => true
  | _, FPInf => true
  | _, _ => false
  end.
Inductive pyval := PBool (b : bool) | PInt (z : Z) | PFloat (x : fq) | POther.
(* isinstance(v, float) / isinstance(v, int) (True and False are ints) / isinstance(v, bool): the value seen at that type *)
Definition py_as_float (v : pyval) : option fq := match v with PFloat x => Some x | _ => None end.
Definition py_as_int (v : pyval) : option Z :=
  match v with PInt z => Some z | PBool b => Some (if b then 1 else 0)%Z | _ => None end.
Definition py_as_bool (v : pyval) : option bool := match v with PBool b => Some b | _ => None end.

(* ---------------------------------------------------------------- control *)
Fixpoint fold_leftM {S A} (f : S -> A -> result S) (l : list A) (s : S) : result S :=
  match l with
  | [] => Ok s
  | a :: t => bind (f s a) (fun s' => fold_leftM f t s')
  end.
(* `for x in l: body` where the body changes attributes of x: the state and the changed elements *)
Fixpoint for_mut {S A} (f : S -> A -> result (S * A)) (l : list A) (s : S) : result (S * list A) :=
  match l with
  | [] => Ok (s, [])
  | a :: t => bind (f s a) (fun sa => bind (for_mut f t (fst sa)) (fun st => Ok (fst st, snd sa :: snd st)))
  end.
Definition py_len {A} (l : list A) : Z := Z.of_nat (length l).
Definition py_range (n : Z) : list Z := map Z.of_nat (seq 0 (Z.to_nat n)).
(* sequence[:n] *)
Definition py_slice_to {A} (l : list A) (n : Z) : list A :=
  firstn (Z.to_nat (if (n <? 0)%Z then Z.max 0 (py_len l + n) else n)) l.

Section Rt.
  Variable K : Type.
  Variables (k0 k1 : K) (kadd kmul ksub : K -> K -> K) (kopp : K -> K).
  Variable kdiv : K -> K -> K.
  Variable kis0 : K -> bool.

  (* -------------------------------------------------------------- floats *)
  Definition F := option K.
  Definition f0 : F := Some k0.
  Definition f1 : F := Some k1.
  Definition flift2 (op : K -> K -> K) (a b : F) : F :=
    match a, b with Some x, Some y => Some (op x y) | _, _ => None end.
  Definition fadd := flift2 kadd.
  Definition fmul := flift2 kmul.
  Definition fsub := flift2 ksub.
  Definition fopp (a : F) : F := match a with Some x => Some (kopp x) | None => None end.
  Definition fdiv (a b : F) : F :=
    match a, b with Some x, Some y => if kis0 y then None else Some (kdiv x y) | _, _ => None end.
  Definition fis0 (a : F) : bool := match a with Some x => kis0 x | None => false end.
  Definition fisnan (a : F) : bool := match a with None => true | Some _ => false end.
  (* x ** n, n a Python int (nan ** 0 = 1.0) *)
  Definition fpow (a : F) (n : Z) : F :=
    if (n =? 0)%Z then f1
    else if (n <? 0)%Z then fdiv f1 (kpow f1 fmul a (Z.to_nat (- n)))
    else kpow f1 fmul a (Z.to_nat n).
  (* a literal m.0 *)
  Definition flit (m : Z) : F := Some (kz k0 k1 kadd kmul kopp m).

  Inductive scalar := PyF (x : F) | NpF (x : F).
  Definition sval (s : scalar) : F := match s with PyF x | NpF x => x end.
  Definition is_np (s : scalar) : bool := match s with NpF _ => true | PyF _ => false end.
  Definition smk (np : bool) (x : F) : scalar := if np then NpF x else PyF x.
  Definition sbin (op : F -> F -> F) (a b : scalar) : scalar := smk (is_np a || is_np b) (op (sval a) (sval b)).
  Definition sadd := sbin fadd.
  Definition ssub := sbin fsub.
  Definition smul := sbin fmul.
  Definition sneg (a : scalar) : scalar := smk (is_np a) (fopp (sval a)).
  Definition sdiv (a b : scalar) : result scalar :=
    match a, b with
    | PyF x, PyF y => if fis0 y then Err ZeroDivisionError else Ok (PyF (fdiv x y))
    | _, _ => Ok (NpF (fdiv (sval a) (sval b)))
    end.
  Definition spow (a : scalar) (n : Z) : result scalar :=
    match a with
    | PyF x => if (n <? 0)%Z && fis0 x then Err ZeroDivisionError else Ok (PyF (fpow x n))
    | NpF x => Ok (NpF (fpow x n))
    end.
  Definition np_isnan (a : scalar) : bool := fisnan (sval a).

  (* -------------------------------------------------------------- 1-D arrays *)
  Definition np_zeros (n : Z) : result (list F) :=
    if (n <? 0)%Z then Err ValueError else Ok (repeat f0 (Z.to_nat n)).
  Definition arr_get (a : list F) (i : Z) : result scalar := rmap NpF (pyget a i).
  Fixpoint set_nth (a : list F) (i : nat) (x : F) : list F :=
    match a, i with
    | [], _ => []
    | _ :: t, O => x :: t
    | y :: t, S j => y :: set_nth t j x
    end.
  Definition arr_set (a : list F) (i : Z) (x : scalar) : result (list F) :=
    let n := py_len a in
    let j := if (i <? 0)%Z then (n + i)%Z else i in
    if (j <? 0)%Z || (n <=? j)%Z then Err IndexError else Ok (set_nth a (Z.to_nat j) (sval x)).
  (* the array as the polynomials of Gen/GenPtCorr.v read it; the reads are guarded by [arr_need] *)
  Definition arr_fn (a : list F) : nat -> F := fun i => nth i a None.
  (* reading a[0..m] raises IndexError when the array is too short *)
  Definition arr_need (a : list F) (m : nat) : result unit :=
    if (length a <=? m)%nat then Err IndexError else Ok tt.
  (* the value of a polynomial of Gen/GenPtCorr.v (its dispatcher has a branch for every order of the if-chain) *)
  Definition poly_val (o : option F) : result scalar :=
    match o with Some x => Ok (NpF x) | None => Err OtherError end.

  (* -------------------------------------------------------------- 2-D arrays *)
  Definition nd := list (list F).
  Definition rect (rows : list (list F)) : bool :=
    match rows with [] => true | r :: t => forallb (fun r' => (length r' =? length r)%nat) t end.
  (* np.array([row, row, ...]) *)
  Definition np_array_rows (rows : list (list F)) : result nd := if rect rows then Ok rows else Err ValueError.
  Definition nd_T (a : nd) : nd :=
    match a with
    | [] => []
    | r :: _ => map (fun j => map (fun row => nth j row None) a) (seq 0 (length r))
    end.
  Definition nd_shape0 (a : nd) : Z := py_len a.
  Definition nd_shape1 (a : nd) : result Z := match a with [] => Err IndexError | r :: _ => Ok (py_len r) end.
  Definition nd_get (a : nd) (i j : Z) : result scalar :=
    bind (pyget a i) (fun r => rmap NpF (pyget r j)).
  (* np.empty((r, c)): the content is whatever [junk] was in memory *)
  Definition np_empty (junk : F) (r c : Z) : result nd :=
    if (r <? 0)%Z || (c <? 0)%Z then Err ValueError else Ok (repeat (repeat junk (Z.to_nat c)) (Z.to_nat r)).
  (* row[start::step] = src (exact length match) *)
  Fixpoint set_step (row : list F) (skip step : nat) (src : list F) : option (list F) :=
    match row with
    | [] => match src with [] => Some [] | _ => None end
    | x :: t =>
        match skip with
        | O => match src with
               | [] => None
               | y :: src' => option_map (cons y) (set_step t (step - 1) step src')
               end
        | S k => option_map (cons x) (set_step t k step src)
        end
    end.
  Fixpoint set_step_rows (a src : nd) (start step : nat) : option nd :=
    match a, src with
    | [], [] => Some []
    | r :: t, s :: u =>
        match set_step r start step s, set_step_rows t u start step with
        | Some r', Some t' => Some (r' :: t')
        | _, _ => None
        end
    | _, _ => None
    end.
  (* a[:, start::step] = src; the shapes must agree exactly (numpy would also broadcast a single column) *)
  Definition nd_set_cols_step (a : nd) (start step : nat) (src : nd) : result nd :=
    match a with
    | [] => Err IndexError
    | _ => match set_step_rows a src start step with Some a' => Ok a' | None => Err ValueError end
    end.

  (* -------------------------------------------------------------- self.N_events / self.D_events *)
  Inductive store := SUnset | SNone | SList (rows : list (list F)) | SArr (a : nd) | SArr0.
  (* x.append(row) *)
  Definition store_append (s : store) (r : list F) : result store :=
    match s with SList rows => Ok (SList (rows ++ [r])) | _ => Err AttributeError end.
  (* np.array(x): a list of equally long rows becomes a 2-D array, [] the 1-D empty array, None a 0-d array *)
  Definition np_array_store (s : store) : result store :=
    match s with
    | SUnset => Err AttributeError
    | SNone => Ok SArr0
    | SList rows => if rect rows then Ok (SArr rows) else Err ValueError
    | SArr a => Ok (SArr a)
    | SArr0 => Ok SArr0
    end.
  Fixpoint col_of (a : nd) (j : Z) : result (list F) :=
    match a with
    | [] => Ok []
    | r :: t => bind (pyget r j) (fun x => bind (col_of t j) (fun c => Ok (x :: c)))
    end.
  (* x[:, j] *)
  Definition store_col (s : store) (j : Z) : result (list F) :=
    match s with
    | SUnset => Err AttributeError
    | SNone | SList _ => Err TypeError
    | SArr0 | SArr [] => Err IndexError
    | SArr a => col_of a j
    end.
  (* x[:, :n] *)
  Definition store_cols_to (s : store) (n : Z) : result nd :=
    match s with
    | SUnset => Err AttributeError
    | SNone | SList _ => Err TypeError
    | SArr0 | SArr [] => Err IndexError
    | SArr a => Ok (map (fun r => py_slice_to r n) a)
    end.

  (* -------------------------------------------------------------- the object *)
  Inductive attr := AUnset | ANone | AArr (a : list F).
  Record obj := MkObj {
    o_max_order : Z;
    o_mean_pt_correlation : attr; o_mean_pt_correlation_error : attr;
    o_kappa : attr; o_kappa_error : attr;
    o_N_events : store; o_D_events : store;
    o_mean_pT_correlation : attr; o_mean_pT_correlation_error : attr }.
  (* before __init__ ran: nothing is set (the translator rejects a read of max_order before its assignment) *)
  Definition obj_blank : obj := MkObj 0 AUnset AUnset AUnset AUnset SUnset SUnset AUnset AUnset.
  Definition set_max_order (s : obj) v :=
    MkObj v (o_mean_pt_correlation s) (o_mean_pt_correlation_error s) (o_kappa s) (o_kappa_error s)
          (o_N_events s) (o_D_events s) (o_mean_pT_correlation s) (o_mean_pT_correlation_error s).
  Definition set_mean_pt_correlation (s : obj) v :=
    MkObj (o_max_order s) v (o_mean_pt_correlation_error s) (o_kappa s) (o_kappa_error s)
          (o_N_events s) (o_D_events s) (o_mean_pT_correlation s) (o_mean_pT_correlation_error s).
  Definition set_mean_pt_correlation_error (s : obj) v :=
    MkObj (o_max_order s) (o_mean_pt_correlation s) v (o_kappa s) (o_kappa_error s)
          (o_N_events s) (o_D_events s) (o_mean_pT_correlation s) (o_mean_pT_correlation_error s).
  Definition set_kappa (s : obj) v :=
    MkObj (o_max_order s) (o_mean_pt_correlation s) (o_mean_pt_correlation_error s) v (o_kappa_error s)
          (o_N_events s) (o_D_events s) (o_mean_pT_correlation s) (o_mean_pT_correlation_error s).
  Definition set_kappa_error (s : obj) v :=
    MkObj (o_max_order s) (o_mean_pt_correlation s) (o_mean_pt_correlation_error s) (o_kappa s) v
          (o_N_events s) (o_D_events s) (o_mean_pT_correlation s) (o_mean_pT_correlation_error s).
  Definition set_N_events (s : obj) v :=
    MkObj (o_max_order s) (o_mean_pt_correlation s) (o_mean_pt_correlation_error s) (o_kappa s) (o_kappa_error s)
          v (o_D_events s) (o_mean_pT_correlation s) (o_mean_pT_correlation_error s).
  Definition set_D_events (s : obj) v :=
    MkObj (o_max_order s) (o_mean_pt_correlation s) (o_mean_pt_correlation_error s) (o_kappa s) (o_kappa_error s)
          (o_N_events s) v (o_mean_pT_correlation s) (o_mean_pT_correlation_error s).
  Definition set_mean_pT_correlation (s : obj) v :=
    MkObj (o_max_order s) (o_mean_pt_correlation s) (o_mean_pt_correlation_error s) (o_kappa s) (o_kappa_error s)
          (o_N_events s) (o_D_events s) v (o_mean_pT_correlation_error s).
  Definition set_mean_pT_correlation_error (s : obj) v :=
    MkObj (o_max_order s) (o_mean_pt_correlation s) (o_mean_pt_correlation_error s) (o_kappa s) (o_kappa_error s)
          (o_N_events s) (o_D_events s) (o_mean_pT_correlation s) v.

  (* -------------------------------------------------------------- particles (Model/PtCorr.v: (pT_abs(), weight)) *)
  Definition p_pT_abs (p : particle K) : scalar := NpF (Some (fst p)).
  Definition p_weight (p : particle K) : scalar := NpF (snd p).
  Definition p_set_weight (p : particle K) (x : scalar) : particle K := (fst p, sval x).

  (* -------------------------------------------------------------- what a public method returns *)
  Inductive ret2 := RetArr (a : list F) | RetPair (a b : list F).
End Rt.

Arguments f0 {K}. Arguments f1 {K}. Arguments flift2 {K}. Arguments fadd {K}. Arguments fmul {K}. Arguments fsub {K}.
Arguments fopp {K}. Arguments fdiv {K}. Arguments fis0 {K}. Arguments fisnan {K}. Arguments fpow {K}. Arguments flit {K}.
Arguments sval {K}. Arguments is_np {K}. Arguments smk {K}. Arguments sbin {K}. Arguments sadd {K}. Arguments ssub {K}.
Arguments smul {K}. Arguments sneg {K}. Arguments sdiv {K}. Arguments spow {K}. Arguments np_isnan {K}.
Arguments np_zeros {K}. Arguments arr_get {K}. Arguments set_nth {K}. Arguments arr_set {K}. Arguments arr_fn {K}.
Arguments arr_need {K}. Arguments poly_val {K}. Arguments rect {K}. Arguments np_array_rows {K}. Arguments nd_T {K}.
Arguments nd_shape0 {K}. Arguments nd_shape1 {K}. Arguments nd_get {K}. Arguments np_empty {K}. Arguments set_step {K}.
Arguments set_step_rows {K}. Arguments nd_set_cols_step {K}. Arguments store_append {K}. Arguments np_array_store {K}.
Arguments col_of {K}. Arguments store_col {K}. Arguments store_cols_to {K}.
Arguments MkObj {K}. Arguments o_max_order {K}. Arguments o_mean_pt_correlation {K}. Arguments o_mean_pt_correlation_error {K}.
Arguments o_kappa {K}. Arguments o_kappa_error {K}. Arguments o_N_events {K}. Arguments o_D_events {K}.
Arguments o_mean_pT_correlation {K}. Arguments o_mean_pT_correlation_error {K}.
Arguments set_max_order {K}. Arguments set_mean_pt_correlation {K}. Arguments set_mean_pt_correlation_error {K}.
Arguments set_kappa {K}. Arguments set_kappa_error {K}. Arguments set_N_events {K}. Arguments set_D_events {K}.
Arguments set_mean_pT_correlation {K}. Arguments set_mean_pT_correlation_error {K}.
Arguments p_pT_abs {K}. Arguments p_weight {K}. Arguments p_set_weight {K}.
Arguments PyF {K}. Arguments NpF {K}.
Arguments SUnset {K}. Arguments SNone {K}. Arguments SList {K}. Arguments SArr {K}. Arguments SArr0 {K}.
Arguments AUnset {K}. Arguments ANone {K}. Arguments AArr {K}.
Arguments RetArr {K}. Arguments RetPair {K}.

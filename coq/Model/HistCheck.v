(* Comparison helpers used only by the generated correspondence cases of C09 / C10 / C14:
   the implementation's observations are written into the cases file as values of the model's
   own types and compared here; only a per-case code leaves Coq
   (0 exact, 1 within tolerance, >= 10 : 10 * component + reason of the first mismatch). *)
From Coq Require Import List ZArith QArith Qabs Qcanon Bool Arith.
From SX Require Import Model.Histogram.
Import ListNotations.
Local Open Scope nat_scope.

Definition qc (n : Z) (d : positive) : Qc := Q2Qc (n # d)%Q.
Definition F (n : Z) (d : positive) : cell := Some (qc n d).
Definition N : cell := None.

Definition tolr : Q := (1 # 1000000000)%Q.
Definition tola : Q := (1 # 1000000000000)%Q.

Definition cmpq (a b : Qc) : nat :=
  if Qc_eq_bool a b then 0
  else if Qle_bool (Qabs (this a - this b)%Q) (tolr * (Qabs (this a) + Qabs (this b)) + tola)%Q then 1 else 2.
Definition cmpc (m i : cell) : nat :=
  match m, i with
  | None, None => 0
  | Some a, Some b => cmpq a b
  | _, _ => 2
  end.
Fixpoint worst (l : list nat) : nat := match l with [] => 0 | x :: t => Nat.max x (worst t) end.
Fixpoint cmpl {A B} (f : A -> B -> nat) (m : list A) (i : list B) : nat :=
  match m, i with
  | [], [] => 0
  | a :: m', b :: i' => Nat.max (f a b) (cmpl f m' i')
  | _, _ => 3
  end.
Definition cmparr (m i : arr) : nat :=
  match m, i with
  | A1 a, A1 b => cmpl cmpc a b
  | A2 a, A2 b => cmpl (cmpl cmpc) a b
  | _, _ => 4
  end.
Definition cmphist (m i : hist) : nat :=
  worst [ (if Nat.eqb (nbins m) (nbins i) && Nat.eqb (nhist m) (nhist i) then 0 else 5);
          cmpl cmpq (edges m) (edges i);
          cmparr (hH m) (hH i); cmparr (hRAW m) (hRAW i); cmparr (hERR m) (hERR i);
          cmparr (hSCAL m) (hSCAL i); cmparr (hSYS m) (hSYS i) ].

Definition ecls_code (c : ecls) : nat :=
  match c with TypeError => 1 | ValueError => 2 | IndexError => 3 | KeyError => 4 | AttributeError => 5
             | ZeroDivisionError => 6 | Unmodelled => 7 end.
(* an exception outside the model's classes is written as [Err Unmodelled] by the harness and never agrees *)
Definition cmpres {A B} (f : A -> B -> nat) (m : result A) (i : result B) : nat :=
  match m, i with
  | Ok a, Ok b => f a b
  | Err Unmodelled, _ | _, Err Unmodelled => 7
  | Err c, Err d => if Nat.eqb (ecls_code c) (ecls_code d) then 0 else 6
  | _, _ => 8
  end.

(* shape signature of a state: what C10 talks about *)
Definition sigarr (a : arr) : list nat :=
  match a with A1 v => [1; length v; 0] | A2 rows => [2; length rows; ncols rows] end.
Definition sig (h : hist) : list nat :=
  [nbins h; nhist h; length (edges h)] ++ sigarr (hH h) ++ sigarr (hRAW h) ++ sigarr (hERR h)
  ++ sigarr (hSCAL h) ++ sigarr (hSYS h).
Definition sigres (r : result hist) : list nat :=
  match r with Ok h => 0 :: sig h | Err c => [100 + ecls_code c] end.
Definition eqnl (a b : list nat) : nat := if list_eq_dec Nat.eq_dec a b then 0 else 9.

Inductive initspec := ITuple (lo hi : Qc) (is_int : bool) (n : Z) | IList (es : list Qc).
Definition do_init (ls : list Qc) (s : initspec) : result hist :=
  match s with
  | ITuple lo hi b n => init_tuple (fun _ _ _ => ls) lo hi b n
  | IList es => init_list es
  end.
(* the linspace oracle's law, exercised: the values np.linspace returned are the exact ones up to rounding *)
Definition lin_ok (ls : list Qc) (s : initspec) : nat :=
  match s with
  | ITuple lo hi true n => if (0 <? n)%Z && Qcltb lo hi then cmpl cmpq (linspace_exact lo hi (Z.to_nat n)) ls else 0
  | _ => 0
  end.

Definition cmptable (m i : table) : nat :=
  cmpl (fun a b => Nat.max (eqnl (fst a) (fst b)) (cmpl (cmpl cmpc) (snd a) (snd b))) m i.

Definition first_bad (l : list nat) : nat :=
  (fix go (k : nat) (l : list nat) : nat :=
     match l with
     | [] => 0
     | x :: t => if 2 <=? x then 10 * k + x else Nat.max x (go (S k) t)
     end) 1 l.

Record expect := mkE {
  e_trace : list (list nat);            (* signature after every operation *)
  e_final : result hist;                (* state after the last operation, or the exception that ended the history *)
  e_geom : list (list cell);            (* bin_centers, bin_width, bin_bounds_left, bin_bounds_right of the final state *)
  e_write : option (result table)       (* parsed CSV of write_to_file, or its exception *)
}.

(* component numbers: 1 linspace law, 2 init, 3 trace signatures, 4 final state, 5 geometry, 6 write *)
Definition check (ls : list Qc) (s : initspec) (e_init : result hist) (ops : list op)
                 (wr : option (list ldict * option (list nat))) (e : expect) : nat :=
  let r0 := do_init ls s in
  match r0 with
  | Err _ => first_bad [lin_ok ls s; cmpres cmphist r0 e_init]
  | Ok h0 =>
      let tr := trace qsqrt h0 ops in
      let fin := run qsqrt h0 ops in
      first_bad [ lin_ok ls s;
                  cmpres cmphist r0 e_init;
                  cmpl eqnl (map sigres tr) (e_trace e);
                  cmpres cmphist fin (e_final e);
                  match fin with
                  | Ok hf => cmpl (cmpl cmpc)
                               (map (map (@Some Qc)) [centers (edges hf); widths (edges hf); bounds_left (edges hf); bounds_right (edges hf)])
                               (e_geom e)
                  | Err _ => 0
                  end;
                  match fin, wr, e_write e with
                  | Ok hf, Some (labels, cols), Some ew => cmpres cmptable (write_to_file hf labels cols) ew
                  | _, None, None => 0
                  | Err _, _, _ => 0
                  | _, _, _ => 9
                  end ]
  end.

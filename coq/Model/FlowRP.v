(* Hand model of ReactionPlaneFlow (integrated_flow, differential_flow), statement by statement.
   A particle is (u, d): u = exp(i n phi) and d everything else; [pwt d] is particle.weight with NaN -> 1.
   Division is multiplication by the inverse oracle [kinv]; [kis0] is the float test `x != 0.0`. *)
From Coq Require Import List ZArith QArith Bool.
From SX Require Import Lib.KRing Lib.Cpx.
Import ListNotations.

Section RP.
  Variable K : Type.
  Variables (k0 k1 : K) (kadd kmul ksub : K -> K -> K) (kopp : K -> K) (kinv : K -> K) (kis0 : K -> bool).
  Variable D : Type.
  Variable pwt : D -> K.
  Definition part := (cpx K * D)%type.

  (* inner particle loop of one event: flow_event += weight * exp(i n phi); number_particles += weight *)
  Definition eflow (ev : list part) : cpx K :=
    csum K k0 kadd (map (fun p : part => cscale K kmul (pwt (snd p)) (fst p)) ev).
  Definition ewt (ev : list part) : K := ksum k0 kadd (map (fun p : part => pwt (snd p)) ev).

  (* after each event: `if number_particles != 0.0: flow_event_average += flow_event else: flow_event_average = 0` -
     number_particles is NOT reset between events *)
  Definition rp_step (st : cpx K * K) (ev : list part) : cpx K * K :=
    let np := kadd (snd st) (ewt ev) in
    (if kis0 np then c0 K k0 else cadd K kadd (fst st) (eflow ev), np).

  (* `flow_event_average /= number_particles`: None = ZeroDivisionError (total weight 0.0) *)
  Definition rp_integrated (evs : list (list part)) : option (cpx K) :=
    let st := fold_left rp_step evs (c0 K k0, k0) in
    if kis0 (snd st) then None else Some (cscale K kmul (kinv (snd st)) (fst st)).

  (* one bin of differential_flow / __differential_flow_calculation *)
  Variable inbin : D -> bool.
  Definition binned (ev : list part) : list part := filter (fun p : part => inbin (snd p)) ev.
  Definition rp_differential_bin (evs : list (list part)) : cpx K :=
    let b := map binned evs in
    let f := csum K k0 kadd (map eflow b) in
    let np := ksum k0 kadd (map ewt b) in
    if kis0 np then c0 K k0 else cscale K kmul (kinv np) f.

  (* the property's definition: the weighted mean of exp(i n phi) over all particles of all events *)
  Definition rp_mean (evs : list (list part)) : cpx K :=
    cscale K kmul (kinv (ksum k0 kadd (map ewt evs))) (csum K k0 kadd (map eflow evs)).

  (* a common rotation of every particle *)
  Definition rotp (rho : cpx K) (p : part) : part := (cmul K kadd kmul ksub rho (fst p), snd p).
End RP.

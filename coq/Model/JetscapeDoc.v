(* Format definition of a JETSCAPE hadron/parton file and what loading it is expected to yield. *)
From Coq Require Import List String ZArith QArith Bool Arith.
From SX Require Import Lib.Strs Gen.GenParticleMap Model.Oscar Model.OscarDoc Model.Jetscape.
Import ListNotations.
Local Open Scope string_scope.

Record jevent := { je_head : line; je_rows : list line }.
Record jdoc := { jd_h0 : line; jd_events : list jevent; jd_trailer : line }.

Definition jrender_event (e : jevent) : list line := je_head e :: je_rows e.
Definition jrender_events (evs : list jevent) : list line := flat_map jrender_event evs.
Definition jrender (d : jdoc) : list line := jd_h0 d :: (jrender_events (jd_events d) ++ [jd_trailer d])%list.

Section JWF.
  Variable tok_float : string -> option Q.
  Variable tok_int : string -> option Q.
  Variable pdg_valid : Q -> bool.
  Variable pdg_charge : Q -> Q.
  Variable usqrt : Q -> Q.
  Variable defstr : string.                 (* "N_hadrons" or "N_partons" *)
  Notation MKJ := (mk_jet_particle tok_float tok_int pdg_valid pdg_charge usqrt).

  Definition is_count_line (l : line) : bool := has "#" l && has defstr l.
  Definition is_trailer (l : line) : bool := has "#" l && has "sigmaGen" l.
  Definition is_evhead (l : line) : bool := has "Event" l && has "weight" l.

  Definition jwf_row (r : line) : Prop :=
    is_count_line r = false /\ is_trailer r = false /\ is_evhead r = false /\ exists p, MKJ r = Ok p.

  (* event with 0-based position i carries the label i+1 *)
  Definition jwf_event (i : nat) (e : jevent) : Prop :=
    is_count_line (je_head e) = true /\ is_trailer (je_head e) = false /\ is_evhead (je_head e) = true /\
    (exists lt ct, nth_error (je_head e) 2 = Some lt /\ nth_error (je_head e) 8 = Some ct /\
                   tok_int lt = Some (zq (Z.of_nat i + 1)) /\
                   tok_int ct = Some (zq (Z.of_nat (List.length (je_rows e))))) /\
    Forall jwf_row (je_rows e).

  Fixpoint jwf_events (i : nat) (evs : list jevent) : Prop :=
    match evs with [] => True | e :: t => jwf_event i e /\ jwf_events (S i) t end.

  Definition jwf (d : jdoc) (s1 s2 : Q) : Prop :=
    is_count_line (jd_h0 d) = false /\
    jd_events d <> [] /\ jwf_events 0 (jd_events d) /\
    is_trailer (jd_trailer d) = true /\ is_count_line (jd_trailer d) = false /\
    first_floats tok_float 2 (filter (fun s => negb (s =? "")) (jd_trailer d)) = [s1; s2].

  Fixpoint jparse_rows (rows : list line) : list particle :=
    match rows with
    | [] => []
    | r :: t => match MKJ r with Ok p => p :: jparse_rows t | Err _ => jparse_rows t end
    end.

  Fixpoint jcounts_from (i : nat) (evs : list jevent) : list (Z * Z) :=
    match evs with
    | [] => []
    | e :: t => (Z.of_nat i + 1, Z.of_nat (List.length (je_rows e)))%Z :: jcounts_from (S i) t
    end.

  Definition jexpected (d : jdoc) (s1 s2 : Q) : jloaded :=
    {| j_events := map (fun e => jparse_rows (je_rows e)) (jd_events d);
       j_nevents := Z.of_nat (List.length (jd_events d));
       j_counts := jcounts_from 0 (jd_events d);
       j_counts_2d := true;
       j_sigma := (s1, s2) |}.
End JWF.

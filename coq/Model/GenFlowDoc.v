(* What the file writers of sparkx.flow.GenerateFlow put into their output file, obtained by
   interpreting the templates REGENERATED from GenerateFlow.py (Gen/GenGenFlow.v) - nothing about the
   layout is written down here.

   The file is the stream of everything passed to output.write, in program order:
     header writes;  for event i = 0 .. nev-1:  event-pre writes, for particle j = 0 .. mult-1: the row write,
     event-post writes;  trailer writes.
   A stream element is a literal character or the text filled into a hole (opaque: it is never looked
   into, i.e. it is taken to contain neither a separator nor a newline - what `%g`, `%d`, str(int) print).
   The stream is cut into lines at the newline characters as Python's readline() does (a last line
   without newline counts when it is not empty) and every line into tokens as the readers do:
   line.split(" ") (Oscar) resp. line.replace("\t"," ").split(" ") (JETSCAPE); empty tokens are kept.

   Holes: `event`, `event+1`, `multiplicity` are printed by str(int) (oracle [dec]); `particle` is the
   `%d` of the particle index (same oracle); every other hole is a `%g` of a float - its text is the
   oracle [vals i j name].  A hole name this interpreter does not know, or a row argument index out of
   range, yields the token [poison], which no theorem can accept.       No proofs in this file. *)
From Coq Require Import List String Ascii Bool Arith.
From SX Require Import Lib.Strs Gen.GenGenFlow.
Import ListNotations.
Local Open Scope string_scope.

Inductive sym := Ch (c : ascii) | Tok (s : string).

Definition poison : string := "<unknown-hole>".

Fixpoint syms_of (s : string) : list sym :=
  match s with EmptyString => [] | String c t => Ch c :: syms_of t end.

Definition fill_piece (env : string -> string) (args : list rowarg) (p : piece) : list sym :=
  match p with
  | Lit s => syms_of s
  | Hole n => [Tok (env n)]
  | Arg k => match nth_error args k with
             | Some a => match a_src a with
                         | Lit s => syms_of s          (* constant folded by Python's own % at translation time *)
                         | Hole n => [Tok (env n)]
                         | Arg _ => [Tok poison]
                         end
             | None => [Tok poison]
             end
  end.

Definition write (env : string -> string) (args : list rowarg) (tpl : list piece) : list sym :=
  flat_map (fill_piece env args) tpl.
Definition writes (env : string -> string) (args : list rowarg) (tpls : list (list piece)) : list sym :=
  flat_map (write env args) tpls.

Section Render.
  Variable dec : nat -> string.                         (* str(int) / "%d" % int on a non-negative int *)
  Variable vals : nat -> nat -> string -> string.       (* "%g" % value of hole [name], particle j of event i *)

  Definition no_env : string -> string := fun _ => poison.
  Definition ev_env (i mult : nat) : string -> string := fun n =>
    if n =? "event" then dec i
    else if n =? "event+1" then dec (S i)
    else if n =? "multiplicity" then dec mult
    else poison.
  Definition row_env (i j : nat) : string -> string := fun n =>
    if n =? "particle" then dec j else vals i j n.

  Definition row_syms (w : writer) (i j : nat) : list sym := write (row_env i j) (w_row_args w) (w_row w).
  Definition event_syms (w : writer) (mult i : nat) : list sym :=
    (writes (ev_env i mult) [] (w_event_pre w)
     ++ flat_map (row_syms w i) (seq 0 mult)
     ++ writes (ev_env i mult) [] (w_event_post w))%list.
  Definition file_syms (w : writer) (nev mult : nat) : list sym :=
    (writes no_env [] (w_header w)
     ++ flat_map (event_syms w mult) (seq 0 nev)
     ++ writes no_env [] (w_trailer w))%list.
End Render.

(* ---- lines and tokens *)
Definition is_nl (x : sym) : bool := match x with Ch c => Ascii.eqb c "010"%char | Tok _ => false end.

Fixpoint lines_acc (cur : list sym) (l : list sym) : list (list sym) :=
  match l with
  | [] => match cur with [] => [] | _ => [rev cur] end
  | x :: t => if is_nl x then rev cur :: lines_acc [] t else lines_acc (x :: cur) t
  end.
Definition file_lines (l : list sym) : list (list sym) := lines_acc [] l.

Fixpoint tok_string (l : list sym) : string :=
  match l with
  | [] => ""
  | Ch c :: t => String c (tok_string t)
  | [Tok s] => s
  | Tok s :: t => s ++ tok_string t
  end.

Definition is_sep (seps : list ascii) (x : sym) : bool :=
  match x with Ch c => existsb (Ascii.eqb c) seps | Tok _ => false end.

Fixpoint toks_acc (seps : list ascii) (cur : list sym) (l : list sym) : list string :=
  match l with
  | [] => [tok_string (rev cur)]
  | x :: t => if is_sep seps x then tok_string (rev cur) :: toks_acc seps [] t else toks_acc seps (x :: cur) t
  end.
Definition tokens (seps : list ascii) (l : list sym) : list string := toks_acc seps [] l.

Definition seps_of (family : string) : list ascii :=
  if family =? "JETSCAPE" then [" "%char; "009"%char] else [" "%char].

(* the written file as the readers see it: lines of tokens *)
Definition gen_render (dec : nat -> string) (vals : nat -> nat -> string -> string)
           (w : writer) (nev mult : nat) : list (list string) :=
  map (tokens (seps_of (w_family w))) (file_lines (file_syms dec vals w nev mult)).

(* the folded literal row constants per conversion, and the holes written with a conversion *)
Definition row_lits (conv : string) (w : writer) : list string :=
  flat_map (fun a => match a_src a with Lit s => if a_conv a =? conv then [s] else [] | _ => [] end) (w_row_args w).
Definition row_holes (conv : string) (w : writer) : list string :=
  flat_map (fun a => match a_src a with Hole n => if a_conv a =? conv then [n] else [] | _ => [] end) (w_row_args w).

Definition find_writer (name : string) : option writer :=
  find (fun w => w_name w =? name) gen_writers.

(* ---- comparison with a file the real writer produced (correspondence cases only):
   the file's own tokens are used as the oracle values; everything else must come out of the templates *)
Fixpoint lines_eqb (a b : list (list string)) : bool :=
  match a, b with
  | [], [] => true
  | x :: t, y :: u => (if list_eq_dec string_dec x y then true else false) && lines_eqb t u
  | _, _ => false
  end.

(* [decs]: str(n) for the integers that occur; [vtab]: ((i, j), name) -> token found in the file *)
Definition dec_table (t : list (nat * string)) : nat -> string :=
  fun n => match find (fun e => Nat.eqb (fst e) n) t with Some e => snd e | None => poison end.
Definition val_table (t : list (nat * nat * string * string)) : nat -> nat -> string -> string :=
  fun i j n => match find (fun e => Nat.eqb (fst (fst (fst e))) i && Nat.eqb (snd (fst (fst e))) j
                                    && (snd (fst e) =? n)) t with
               | Some e => snd e | None => poison end.

Definition check_genflow (name : string) (decs : list (nat * string)) (vtab : list (nat * nat * string * string))
           (nev mult : nat) (file : list (list string)) : nat :=
  match find_writer name with
  | None => 2
  | Some w =>
    if (nev <? w_min_events w)%nat || (mult <? w_min_mult w)%nat then 3
    else if lines_eqb (gen_render (dec_table decs) (val_table vtab) w nev mult) file then 0 else 4
  end.

(* literal parts of the event footer / trailer the theorems refer to (holes shown as [poison]) *)
Definition post_lines (w : writer) : list (list string) :=
  map (fun tpl => tokens (seps_of (w_family w)) (removelast (write no_env [] tpl))) (w_event_post w).
Definition nonempty (l : list string) : list string := filter (fun s => negb (s =? "")) l.
(* the token Oscar.impact_parameters() reads from the footer: third from the end of the non-empty words *)
Definition impact_lit (w : writer) : string := nth 2 (rev (nonempty (hd [] (post_lines w)))) "".
(* the last line of a JETSCAPE file (written without newline) *)
Definition trailer_line (w : writer) : list string :=
  last (map (fun tpl => tokens (seps_of (w_family w)) (write no_env [] tpl)) (w_trailer w)) [].

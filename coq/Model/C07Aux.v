(* C07: what a byte-level truncation of a rendered file looks like after the loaders' split into lines and
   tokens, and the concrete shape of the comment lines of a well-formed Oscar / JETSCAPE file (needed to
   say what a cut THROUGH such a line leaves behind).  Definitions only. *)
From Coq Require Import List String Ascii ZArith QArith Bool Arith.
From SX Require Import Lib.Strs Lib.StrLemmas Lib.Split Lib.DecStr Gen.GenParticleMap Model.Oscar Model.OscarDoc
  Model.Jetscape Model.JetscapeDoc.
Import ListNotations.
Local Open Scope string_scope.

(* ------------------------------------------------------------------ the cut
   text[:k] = n complete lines (each with its newline) followed by either nothing (the cut falls on a line
   boundary: the file still ends with a newline) or a non-empty proper prefix P of  line_n + "\n"  without
   that newline, i.e. the first j tokens of line n unchanged followed by a prefix p (possibly empty, possibly
   the whole token) of token j.  (j = 0, p = "") would be the empty P and is the line-boundary case. *)
Definition partial := option (nat * string).

Definition valid_partial (l : line) (c : partial) : Prop :=
  match c with
  | None => True
  | Some (j, p) => (j < List.length l)%nat /\ prefix p (nth j l "") = true /\ ((j = 0)%nat -> p <> "")
  end.

Definition cut_line (l : line) (j : nat) (p : string) : line := (firstn j l ++ [p])%list.

Definition cut_lines (file : list line) (n : nat) (c : partial) : list line :=
  match c with
  | None => firstn n file
  | Some (j, p) => (firstn n file ++ [cut_line (nth n file []) j p])%list
  end.

(* the file no longer ends with a newline exactly when something of line n is left *)
Definition ends_with_newline (c : partial) : bool := match c with None => true | Some _ => false end.

(* ------------------------------------------------------------------ the same at byte level
   the text of a file: tokens joined by single blanks, every line terminated by a newline; what the loaders see of
   a string P: its pieces between newlines (a final empty piece is no line), each split at blanks *)
Definition nl : ascii := "010"%char.
Fixpoint file_text (lines : list line) : string :=
  match lines with [] => EmptyString | l :: t => join sp l ++ String nl (file_text t) end.
Definition string_ends_with_newline (P : string) : bool := (last (split_on nl P) "" =? "").   (* P non-empty *)
Definition lines_seen (P : string) : list line :=
  let pieces := split_on nl P in
  map (split_on sp) (if string_ends_with_newline P then removelast pieces else pieces).

(* ------------------------------------------------------------------ the int() oracle on decimal numerals *)
Definition int_oracle_ok (tok_int : string -> option Q) : Prop :=
  tok_int "" = None /\
  forall s, digits s = true -> s <> "" -> tok_int s = Some (inject_Z (Z.of_nat (dval s))).

(* ------------------------------------------------------------------ Oscar: shape of the comment lines
   '# event <i> out <n>'  and  '# event <i> end ...'  with canonical decimal numerals; the three file
   header lines never mention the word "event". *)
Definition shape_event (i : nat) (e : event) : Prop :=
  (exists lt ct, e_head e = ["#"; "event"; lt; "out"; ct] /\ canon lt = true /\ dval lt = i /\ canon ct = true) /\
  (exists lt tail, e_foot e = "#" :: "event" :: lt :: "end" :: tail /\ canon lt = true /\ dval lt = i).

Fixpoint shape_events (i : nat) (evs : list event) : Prop :=
  match evs with
  | [] => True
  | e :: t => shape_event i e /\ shape_events (S i) t
  end.

Definition shape (d : doc) : Prop :=
  has "event" (d_h1 d) = false /\ has "event" (d_h2 d) = false /\ has "event" (d_h3 d) = false /\
  shape_events 0 (d_events d).

Definition truncd (m : nat) (d : doc) : doc :=
  {| d_h1 := d_h1 d; d_h2 := d_h2 d; d_h3 := d_h3 d; d_events := firstn m (d_events d) |}.

(* everything the property talks about (events, their number, the per-event counts) plus format data *)
Definition same_data (a b : loaded) : Prop :=
  l_events a = l_events b /\ l_nevents a = l_nevents b /\ l_counts a = l_counts b /\
  l_format a = l_format b /\ l_attrs a = l_attrs b.

Definition lines_before_end_of_event (m : nat) (d : doc) : nat :=
  (3 + List.length (render_events (firstn m (d_events d))))%nat.

(* where a cut that still loads can be: exactly after the footer line of event m (1-based), or inside that
   footer line at or after its word "end" (the loader then still sees '#' and 'end' in the line) *)
Definition oscar_cut_position (d : doc) (n : nat) (c : partial) (m : nat) : Prop :=
  match c with
  | None => n = lines_before_end_of_event m d
  | Some (j, p) => S n = lines_before_end_of_event m d /\ ((j = 3)%nat /\ p = "end" \/ (4 <= j)%nat)
  end.

(* the end lines kept by the loader in that case *)
Definition oscar_cut_footers (d : doc) (n : nat) (c : partial) (m : nat) : list line :=
  match c with
  | None => map e_foot (firstn m (d_events d))
  | Some (j, p) =>
    (map e_foot (firstn (m - 1) (d_events d))
     ++ (if (4 <=? j)%nat then [cut_line (nth n (render d) []) j p] else []))%list
  end.

(* the loader used on the truncated file *)
Definition load_cut (tf ti : string -> option Q) (pv : Q -> bool) (file : list line) (c : partial) : result loaded :=
  if ends_with_newline c then load tf ti pv None file SelAll else load_nonl tf ti pv None file SelAll.

(* the statement for one cut *)
Definition oscar_trunc_ok (tf ti : string -> option Q) (pv : Q -> bool)
           (d : doc) (fmt : string) (attrs : list string) (n : nat) (c : partial) : Prop :=
  match load_cut tf ti pv (cut_lines (render d) n c) c with
  | Err _ => True
  | Ok r =>
    exists m, (1 <= m <= List.length (d_events d))%nat /\
              same_data r (expected tf ti pv (truncd m d) fmt attrs) /\
              oscar_cut_position d n c m /\
              l_footers r = oscar_cut_footers d n c m
  end.

(* Oscar.__init__ = load, then impact_parameter() over the kept end lines *)
Definition ctor_cut (tf ti : string -> option Q) (pv : Q -> bool) (file : list line) (c : partial)
  : result (loaded * list Q) :=
  ld <- load_cut tf ti pv file c ;; imps <- impact_parameters tf ld ;; Ok (ld, imps).

(* ------------------------------------------------------------------ JETSCAPE: only the trailer mentions sigmaGen,
   and the trailer starts with the token '#' *)
Definition jshape (d : jdoc) : Prop :=
  (exists rest, jd_trailer d = "#" :: rest) /\
  has "sigmaGen" (jd_h0 d) = false /\
  Forall (fun e => has "sigmaGen" (je_head e) = false /\ Forall (fun r => has "sigmaGen" r = false) (je_rows e))
         (jd_events d).

Definition same_jdata (a b : jloaded) : Prop :=
  j_events a = j_events b /\ j_nevents a = j_nevents b /\ j_counts a = j_counts b /\ j_counts_2d a = j_counts_2d b.

Definition jet_trunc_ok (tf ti : string -> option Q) (pv : Q -> bool) (pc usqrt : Q -> Q) (defstr : string)
           (d : jdoc) (s1 s2 : Q) (n : nat) (c : partial) : Prop :=
  match jload tf ti pv pc usqrt None (cut_lines (jrender d) n c) defstr SelAll with
  | Err _ => True
  | Ok r =>
    same_jdata r (jexpected tf ti pv pc usqrt d s1 s2) /\
    match c with
    | None => n = List.length (jrender d) /\ r = jexpected tf ti pv pc usqrt d s1 s2
    | Some (j, p) => S n = List.length (jrender d) /\
                     has "sigmaGen" (cut_line (jd_trailer d) j p) = true
    end
  end.

(* Hand model of QCumulantFlow around the generated formulas (Gen/GenQCumulant.v):
   how integrated_flow / differential_flow turn lists of particles into the per-event quantities the
   generated code consumes (multiplicities, Q-vectors, bin and particle-of-interest sub-lists), the
   empty-bin guard and the argument validation.  The definitions that state the PROPERTY (sums over tuples of
   distinct particles) are at the end.  Parametric in the carrier: runs at Q, reasoned about over any ring. *)
From Coq Require Import String ZArith QArith Bool List.
From SX Require Import Lib.KRing Lib.Cpx Lib.Distinct Gen.GenQCumulant.
Import ListNotations.

Section Model.
  Variable K : Type.
  Variables (k0 k1 : K) (kadd kmul ksub : K -> K -> K) (kopp : K -> K) (kdiv : K -> K -> K).
  Variables (kleb kltb : K -> K -> bool).
  Variable krpow : nat -> nat -> K -> K.

  (* A particle as the estimator sees it: P is any record, [zof p] = exp(i n phi_p) for the harmonic n of the
     estimator; [inbin] is the bin test (val >= lo and val < hi on the selected variable), [ispoi] the species
     test (constantly true when poi_pdg is None). *)
  Variable P : Type.
  Variable zof : P -> cpx K.
  Variables inbin ispoi : P -> bool.

  (* an event: rho = exp(i n Psi) for the random reaction-plane angle Psi the estimator adds to every phi of the
     event, and the particles *)
  Definition event := (cpx K * list P)%type.
  Definition rotz (rho : cpx K) (p : P) : cpx K := cmul K kadd kmul ksub rho (zof p).
  Definition zs (e : event) : list (cpx K) := map (rotz (fst e)) (snd e).
  Definition sel_bin (e : event) : event := (fst e, filter inbin (snd e)).
  Definition sel_poi (e : event) : event := (fst e, filter (fun p => inbin p && ispoi p) (snd e)).
  Definition Mof (e : event) : K := knat k0 k1 kadd (length (snd e)).
  Definition Qof (h : nat) (e : event) : cpx K :=
    gen_Qh K k0 k1 kadd kmul ksub kopp kdiv kleb kltb krpow h (zs e).

  Section Sample.
    Variable evs : list event.
    Notation G f := (f K k0 k1 kadd kmul ksub kopp kdiv kleb kltb krpow event evs
                       Mof (fun e => Mof (sel_bin e)) (fun e => Mof (sel_poi e))
                       Qof (fun h e => Qof h (sel_bin e)) (fun h e => Qof h (sel_poi e))).

    Definition corr2 : K := G gen_corr_2.
    Definition corr4 : K := G gen_corr_4.
    Definition corr6 : K := G gen_corr_6.
    Definition cumulant2 : K := G gen_cumulant_2.
    Definition cumulant4 : K := G gen_cumulant_4.
    Definition cumulant6 : K := G gen_cumulant_6.
    Definition dcorr2 : cpx K := G gen_dcorr2.
    Definition dcorr4 : cpx K := G gen_dcorr4.
    Definition dn4 : cpx K := G gen_dn4.
    Definition cn4 : K := G gen_cn4.

    (* QCumulantFlow(n, k, imaginary).integrated_flow(events)[0]:
       None = ValueError (constructor rejects k / imaginary), Some None = NaN *)
    Definition integrated_flow (k : nat) (imag : string) : option (option K) :=
      if existsb (Nat.eqb k) gen_k_allowed && existsb (String.eqb imag) gen_imag_allowed
      then G gen_integrated k imag else None.

    (* one bin of differential_flow *)
    Inductive dres := DErr | DEmpty | DVal (v : option K).
    Definition total (f : event -> event) : nat := fold_right Nat.add 0%nat (map (fun e => length (snd (f e))) evs).
    Definition differential_bin (k : nat) (imag : string) : dres :=
      if negb (existsb (Nat.eqb k) gen_k_allowed && existsb (String.eqb imag) gen_imag_allowed) then DErr
      else if existsb (Nat.eqb k) gen_diff_rejected_k then DErr
      else if (0 <? length evs)%nat && (0 <? total sel_bin)%nat && (0 <? total sel_poi)%nat then
        match k with
        | 2%nat => DVal (G gen_diff_2 imag)
        | 4%nat => DVal (G gen_diff_4 imag)
        | _ => DErr
        end
      else DEmpty.
  End Sample.

  (* ---------------- the property's definitions ---------------- *)
  Notation DS := (dsum2 (c0 K k0) (c1 K k0 k1) (cadd K kadd) (cmul K kadd kmul ksub) (@conj K kopp)).
  Notation PD := (pdsum2 (c0 K k0) (c1 K k0 k1) (cadd K kadd) (cmul K kadd kmul ksub) (@conj K kopp)).
  (* the particles' unit vectors WITHOUT the random rotation *)
  Definition zs0 (e : event) : list (cpx K) := map zof (snd e).
  Definition flagged (e : event) : list (cpx K * bool) := map (fun p => (zof p, inbin p && ispoi p)) (snd e).

  (* sum over events of Re of the sum over ordered 2k-tuples of distinct particles of z..z conj z..conj z,
     and the number of such tuples *)
  Definition spec_num (k : nat) (evs : list event) : K :=
    ksum k0 kadd (map (fun e => re (DS k k (zs0 e))) evs).
  Definition spec_den (k : nat) (evs : list event) : K :=
    ksum k0 kadd (map (fun e => knat k0 k1 kadd (ffact (2 * k) (length (snd e)))) evs).
  (* differential: first particle restricted to the particles of interest in the bin, the others from the whole event *)
  Definition spec_dnum (a b : nat) (evs : list event) : cpx K :=
    csum K k0 kadd (map (fun e => PD a b (flagged e)) evs).
  Definition spec_dden (k : nat) (evs : list event) : K :=
    ksum k0 kadd (map (fun e => knat k0 k1 kadd (length (snd (sel_poi e)) * ffact k (pred (length (snd e))))) evs).
End Model.

(* ---------------- executable instance over Q ---------------- *)
Definition rplus x y := Qred (Qplus x y).
Definition rmult x y := Qred (Qmult x y).
Definition rminus x y := Qred (Qminus x y).
Definition rdiv x y := Qred (Qdiv x y).
Definition qleb (x y : Q) := Qle_bool x y.
Definition qltb (x y : Q) := negb (Qle_bool y x).

(* integer k-th root by bisection, and x ** (c/k) for x >= 0 to about 18 digits *)
Fixpoint zroot_aux (fuel : nat) (k : nat) (n lo hi : Z) : Z :=
  match fuel with
  | O => lo
  | S f => if (hi - lo <=? 1)%Z then lo else
           let mid := ((lo + hi) / 2)%Z in
           if (Z.pow mid (Z.of_nat k) <=? n)%Z then zroot_aux f k n mid hi else zroot_aux f k n lo mid
  end.
Definition zroot (k : nat) (n : Z) : Z := zroot_aux (S (S (Z.to_nat (Z.log2 (n + 1))))) k n 0 (n + 1).
Definition qscale : Z := (10 ^ 18)%Z.
Definition qrpow (c k : nat) (x : Q) : Q :=
  let y := Qred (Qpower x (Z.of_nat c)) in
  if Qle_bool y 0 then 0 else
  Qred (Qmake (zroot k ((Qnum y * Z.pow qscale (Z.of_nat k)) / Zpos (Qden y))) 1 / inject_Z qscale).

(* particle: z = exp(i n phi) on a rational point of the unit circle, the three selector values, pdg *)
Record qpart := { qz : cpx Q ; qpt : Q ; qy : Q ; qeta : Q ; qpdg : Z }.
Definition qsel (sel : string) (p : qpart) : Q :=
  if String.eqb sel "pT" then qpt p else if String.eqb sel "rapidity" then qy p
  else if String.eqb sel "pseudorapidity" then qeta p else 0.
Definition qinbin (sel : string) (lo hi : Q) (p : qpart) : bool :=
  Qle_bool lo (qsel sel p) && negb (Qle_bool hi (qsel sel p)).
Definition qispoi (poi : option (list Z)) (p : qpart) : bool :=
  match poi with None => true | Some l => existsb (Z.eqb (qpdg p)) l end.

Definition qintegrated :=
  integrated_flow Q 0 1 rplus rmult rminus Qopp rdiv qleb qltb qrpow qpart qz (fun _ => true) (fun _ => true).
Definition qcorr (k : nat) (evs : list (event Q qpart)) : Q :=
  match k with
  | 2%nat => corr2 Q 0 1 rplus rmult rminus Qopp rdiv qleb qltb qrpow qpart qz (fun _ => true) (fun _ => true) evs
  | 4%nat => corr4 Q 0 1 rplus rmult rminus Qopp rdiv qleb qltb qrpow qpart qz (fun _ => true) (fun _ => true) evs
  | _ => corr6 Q 0 1 rplus rmult rminus Qopp rdiv qleb qltb qrpow qpart qz (fun _ => true) (fun _ => true) evs
  end.
(* differential_flow(events, [lo, hi], sel, poi)[0][0]; selector validation first *)
Definition qdifferential (k : nat) (imag sel : string) (lo hi : Q) (poi : option (list Z)) (evs : list (event Q qpart)) :=
  if negb (existsb (String.eqb sel) gen_selectors_validated) then DErr Q
  else differential_bin Q 0 1 rplus rmult rminus Qopp rdiv qleb qltb qrpow qpart qz (qinbin sel lo hi) (qispoi poi) evs k imag.

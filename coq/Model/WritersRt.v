(* Runtime of the fragment in which tools/py2coq/gen_writers.py re-states the two file writers
   (Oscar.print_particle_lists_to_file, Oscar._particle_as_list, Oscar.__event_footer,
   Jetscape.print_particle_lists_to_file, Jetscape._particle_as_list) as Gen/GenWriters.v.  Definitions only.
   Everything here is the fixed reading of the Python / numpy / file primitives those methods call; the methods
   themselves (statements, conditions, constants, argument order, literals) are regenerated from the source on every
   run and proved equal to the hand model Model/Writer.v in Proofs/Writers_Source.v.

   Conventions (the same abstractions as Model/Writer.v and Model/Oscar.v):
   * text: a newline-terminated line is the list of its blank-separated tokens ([line]); a file is the list of its
     lines, every line newline-terminated.  [rline] is what readline() returns: such a line, or '' at the end of the
     file ([REOF]).  write(x) appends the line x (nothing for '').  Which white-space character separates two tokens
     of a JETSCAPE line (tab or blank) is not represented.
   * `s.split(" ")` of a line that still carries its newline leaves the newline on the last token: replacing that
     token would lose the newline, which this fragment does not describe ([Err OtherError]).
   * a printf format string "%g %d ..." is the list of its column formats ([list colfmt], Gen/GenFormats.v);
     `" ".join(fs)` is concatenation, `f.count("%")` the length, `k * " %d"` k copies.
   * a number that goes into a row is a cell [option Q]: a finite double / Python int as the rational it denotes,
     None = NaN.  int(NaN) raises ValueError, float(NaN) is NaN; `'%d' % NaN` raises ValueError; the TEXT that
     `'%g' % NaN` prints is not described ([Err OtherError], as in Model/Writer.v).
     `fmt` (format of one finite value) and `dec` (str of an int) are oracles handed in by the generated code.
   * Particle.<property>: the table regenerated from Particle.py (slot, whether the getter returns int(..)).
   * BaseStorer.particle_list(): the translation Gen/GenStorer.v (gen_particle_list, handed in as [pl]) is run on the
     storer view of the object (a particle is named by its position in the flattened event list); the rows
     `_particle_as_list(p)` it names are then computed in order.  (The real loop computes a row as soon as it has
     fetched the particle; the two orders differ only in WHICH exception is seen when an index error and a row error
     are both present.)
   * exceptions: [result] of Model/Oscar.v; RuntimeError, AttributeError, UnboundLocalError and everything this
     fragment does not describe are [OtherError].
   * `while True`: at most [while_fuel] passes are described. *)
From Coq Require Import List String ZArith QArith Bool Arith.
From SX Require Lib.Py Model.Storer Model.StorerRt.
From SX Require Import Lib.Strs Gen.GenFormats Model.Oscar Model.Writer.
Import ListNotations.
Local Open Scope string_scope.

Inductive rline := RL (toks : line) | REOF.
Definition row := list (option Q).
(* what particle_list() returns: [] / the rows of the only event / one list of rows per event *)
Inductive plist := PL0 | PFlat (rows : list row) | PNested (rowss : list (list row)).

(* the attributes of an Oscar object that the writer reads; PATH_OSCAR_ is given by the content of that file *)
Record oself := mkOself {
  o_src : list line; o_format : string; o_attrs : list string; o_end_lines : list line;
  o_events : option (list (list particle)); o_counts : option (list (Z * Z)); o_nevents : option Z }.
(* Jetscape: JETSCAPE_FILE by its content, particle_type_defining_string_, last_line_ (no newline) *)
Record jself := mkJself {
  j_src : list line; j_defstr : string; j_last : line;
  j_events : option (list (list particle)); j_counts : option (list (Z * Z)); j_nevents : option Z }.

(* ------------------------------------------------------------------ Python values *)
Definition zlen {A} (l : list A) : Z := Z.of_nat (List.length l).

(* l[i]: negative indices count from the end *)
Definition pyidx {A} (l : list A) (i : Z) : result A :=
  let n := zlen l in
  let j := if (i <? 0)%Z then (n + i)%Z else i in
  if (j <? 0)%Z then Err IndexError
  else match nth_error l (Z.to_nat j) with Some a => Ok a | None => Err IndexError end.
(* l[i] = v *)
Definition pyset {A} (l : list A) (i : Z) (v : A) : result (list A) :=
  let n := zlen l in
  let j := if (i <? 0)%Z then (n + i)%Z else i in
  if ((j <? 0) || (n <=? j))%Z then Err IndexError
  else Ok (firstn (Z.to_nat j) l ++ v :: skipn (S (Z.to_nat j)) l)%list.

Definition py_is_none {A} (o : option A) : bool := match o with None => true | Some _ => false end.
(* an attribute that may be None, used as a value: None[..], range(None), None > 1 raise TypeError *)
Definition py_the {A} (o : option A) : result A := match o with Some a => Ok a | None => Err TypeError end.
(* None == k is False *)
Definition py_oz_eq (o : option Z) (k : Z) : bool := match o with Some z => (z =? k)%Z | None => false end.
(* particle_list_ == [[]] *)
Definition py_is_nilnil {A} (o : option (list (list A))) : bool :=
  match o with Some [[]] => true | _ => false end.
(* a local name that is bound on some paths only *)
Definition py_unbound {A} (o : option A) : result A := match o with Some a => Ok a | None => Err OtherError end.

Fixpoint zrange_n (a : Z) (n : nat) : list Z := match n with O => [] | S n' => a :: zrange_n (a + 1)%Z n' end.
Definition py_range (a b : Z) : list Z := zrange_n a (Z.to_nat (b - a)).

(* ------------------------------------------------------------------ control *)
Fixpoint fold_leftM {S A} (f : S -> A -> result S) (l : list A) (s : S) : result S :=
  match l with
  | [] => Ok s
  | x :: t => s' <- f s x ;; fold_leftM f t s'
  end.
Definition andM (a b : result bool) : result bool := x <- a ;; if x then b else Ok false.
Definition orM (a b : result bool) : result bool := x <- a ;; if x then Ok true else b.
Definition notM (a : result bool) : result bool := x <- a ;; Ok (negb x).
(* while True: [step] returns the loop state and whether it left the loop through `break` *)
Fixpoint py_while {S} (fuel : nat) (step : S -> result (S * bool)) (s : S) : result S :=
  match fuel with
  | O => Err OtherError
  | S f => r <- step s ;; if snd r then Ok (fst r) else py_while f step (fst r)
  end.
Definition while_fuel : nat := Z.to_nat 2000000.

(* ------------------------------------------------------------------ the count array (n,2) *)
Definition col_of (j : Z) : option bool :=
  if ((j =? 0) || (j =? -2))%Z then Some false else if ((j =? 1) || (j =? -1))%Z then Some true else None.
Definition py_getcell (r : Z * Z) (j : Z) : result Z :=
  match col_of j with Some c => Ok (if c then snd r else fst r) | None => Err IndexError end.
Definition py_get2 (c : list (Z * Z)) (i j : Z) : result Z := r <- pyidx c i ;; py_getcell r j.

(* ------------------------------------------------------------------ text and files *)
Definition py_readline (h : list line) : rline * list line :=
  match h with [] => (REOF, []) | l :: t => (RL l, t) end.
(* line.replace("\n", "").split(" ") *)
Definition py_split_line (l : rline) : list string := match l with RL t => t | REOF => [""] end.
Definition py_write (h : list line) (l : rline) : list line :=
  match l with RL t => (h ++ [t])%list | REOF => h end.
(* open(.., "w") / open(.., "a") on the file whose content is [out]; closing a handle makes its content the file's *)
Definition py_open_w (out : list line) : list line := [].
Definition py_open_a (out : list line) : list line := out.
Definition py_close (h : list line) : list line := h.
(* s.split(" ") of a line with its newline; x[i] = v on the result; " ".join(x) *)
Definition py_split_nl (l : line) : list string := l.
Definition py_nl_set (t : list string) (i : Z) (v : string) : result (list string) :=
  let n := zlen t in
  let j := if (i <? 0)%Z then (n + i)%Z else i in
  if ((j <? 0) || (n <=? j))%Z then Err IndexError
  else if (j =? n - 1)%Z then Err OtherError
  else pyset t i v.
Definition py_nl_join (t : list string) : line := t.

(* ------------------------------------------------------------------ printf formats *)
Definition py_dict_get {A} (d : list (string * A)) (k : string) : result A :=
  match assoc k d with Some v => Ok v | None => Err KeyError end.
Definition py_fmt_join (l : list (list colfmt)) : list colfmt := List.concat l.
Definition py_fmt_count (f : list colfmt) : Z := zlen f.
Definition py_fmt_repeat (k : Z) (f : list colfmt) : list colfmt := List.concat (repeat f (Z.to_nat k)).

(* ------------------------------------------------------------------ particles, cells, rows *)
(* particle.<name>: the getter returns data_[slot], or int(data_[slot]) (NaN stays NaN) *)
Definition py_prop (props : list (string * (nat * bool))) (p : particle) (name : string) : result (option Q) :=
  match assoc name props with
  | Some (slot, isint) =>
      Ok (if isint then option_map (fun v => inject_Z (Py.Qtrunc v)) (get_slot slot p) else get_slot slot p)
  | None => Err OtherError
  end.
Definition py_float (c : option Q) : result (option Q) := Ok c.
Definition py_int (c : option Q) : result (option Q) :=
  match c with Some v => Ok (Some (inject_Z (Py.Qtrunc v))) | None => Err ValueError end.
Definition py_isnan (c : option Q) : bool := match c with None => true | Some _ => false end.
(* [x] * k *)
Definition py_list_repeat {A} (x : A) (k : Z) : list A := repeat x (Z.to_nat k).

(* np.asarray of a list of rows: rows of different lengths cannot form an array *)
Definition py_asarray_rows (r : list row) : result (list row) :=
  match r with
  | [] => Ok []
  | x :: t => if forallb (fun y => (List.length y =? List.length x)%nat) t then Ok r else Err ValueError
  end.
(* np.asarray(list_of_particles) where the list is what particle_list() returned *)
Definition py_asarray_plist (l : plist) : result (list row) :=
  match l with PL0 => Ok [] | PFlat r => py_asarray_rows r | PNested _ => Err OtherError end.
(* list_of_particles[i] as a list of rows *)
Definition py_plist_get (l : plist) (i : Z) : result (list row) :=
  match l with PNested ll => pyidx ll i | PL0 => Err IndexError | PFlat _ => Err OtherError end.

Section Fmt.
  Variable fmt : colfmt -> Q -> string.
  Definition fmt_cell (f : colfmt) (c : option Q) : result string :=
    match c with
    | Some v => Ok (fmt f v)
    | None => match f with FD => Err ValueError | _ => Err OtherError end
    end.
  Fixpoint fmt_row (fs : list colfmt) (r : row) : result line :=
    match fs, r with
    | [], [] => Ok []
    | f :: fs', c :: r' => t <- fmt_cell f c ;; rest <- fmt_row fs' r' ;; Ok (t :: rest)
    | _, _ => Err ValueError
    end.
  (* np.savetxt(handle, X, fmt=fs) with delimiter " " and newline "\n": the number of formats is compared with the
     number of columns first (an empty 1-D array counts as one column) *)
  Definition py_savetxt (h : list line) (x : list row) (fs : list colfmt) : result (list line) :=
    let ncol := match x with [] => 1%nat | r :: _ => List.length r end in
    if negb (ncol =? List.length fs)%nat then Err ValueError
    else ls <- mapr (fmt_row fs) x ;; Ok (h ++ ls)%list.
End Fmt.

(* ------------------------------------------------------------------ BaseStorer.particle_list() *)
Definition conv_err (e : Py.errcls) : err :=
  match e with
  | Py.TypeError => TypeError | Py.ValueError => ValueError | Py.IndexError => IndexError | Py.KeyError => KeyError
  | _ => OtherError
  end.
Definition lift_py {A} (r : Py.result A) : result A :=
  match r with Py.Ok a => Ok a | Py.Err e => Err (conv_err e) end.
Fixpoint numbering (k : Z) (evs : list (list particle)) : list (list Z) :=
  match evs with [] => [] | ev :: t => zrange_n k (List.length ev) :: numbering (k + zlen ev)%Z t end.
Definition lookup_p (all : list particle) (k : Z) : result particle :=
  if (k <? 0)%Z then Err OtherError
  else match nth_error all (Z.to_nat k) with Some p => Ok p | None => Err OtherError end.
Definition storer_view (e : list (list particle)) (c : list (Z * Z)) (n : Z) : Storer.storer :=
  Storer.mkS Storer.COscar (numbering 0 e) (Storer.A2 c) n [] 0%Z 0%Z 0%Q.
Definition py_particle_list (pl : StorerRt.pv -> Py.result StorerRt.pv) (rowf : particle -> result row)
           (evs : option (list (list particle))) (cnts : option (list (Z * Z))) (nev : option Z) : result plist :=
  match cnts, evs, nev with
  | Some c, Some e, Some n =>
    r <- lift_py (pl (StorerRt.VObj (storer_view e c n))) ;;
    let rowk := fun k => p <- lookup_p (List.concat e) k ;; rowf p in
    match r with
    | StorerRt.VL0 => Ok PL0
    | StorerRt.VRows l => rs <- mapr rowk l ;; Ok (PFlat rs)
    | StorerRt.VRowss ll => rss <- mapr (mapr rowk) ll ;; Ok (PNested rss)
    | _ => Err OtherError
    end
  | _, _, _ => Err ValueError
  end.

(* Hand model of MultiParticlePtCorrelations around the generated polynomials:
   _P_W_k (power sums, unset weight -> 1), the per-event numerator/denominator,
   the event-sum ratio and the cumulants.  Parametric in the carrier so that it runs at Q
   (correspondence) and is reasoned about over any commutative ring (theorems). *)
From Coq Require Import List ZArith QArith.
From SX Require Import Lib.KRing Gen.GenPtCorr.
Import ListNotations.

Section Model.
  Variable K : Type.
  Variables (k0 k1 : K) (kadd kmul ksub : K -> K -> K) (kopp : K -> K).

  (* a particle as the estimator sees it: pT_abs() and weight (None = unset/NaN) *)
  Definition particle := (K * option K)%type.
  Definition wgt (p : particle) : K := match snd p with Some w => w | None => k1 end.
  Definition wpt (p : particle) : K := kmul (wgt p) (fst p).

  Definition Pk (ev : list particle) : nat -> K := fun i => psum k0 k1 kadd kmul (S i) (map wpt ev).
  Definition Wk (ev : list particle) : nat -> K := fun i => psum k0 k1 kadd kmul (S i) (map wgt ev).

  Definition N_event (c : nat) (ev : list particle) : option K :=
    gen_N K k0 k1 kadd kmul ksub kopp c (Pk ev) (Wk ev).
  Definition D_event (c : nat) (ev : list particle) : option K :=
    gen_D K k0 k1 kadd kmul ksub kopp c (Pk ev) (Wk ev).

  Fixpoint osum (l : list (option K)) : option K :=
    match l with
    | [] => Some k0
    | Some x :: t => match osum t with Some s => Some (kadd x s) | None => None end
    | None :: _ => None
    end.

  (* mean_pT_correlations, order index c: (sum of numerators, sum of denominators) *)
  Definition corr_pair (c : nat) (evs : list (list particle)) : option (K * K) :=
    match osum (map (N_event c) evs), osum (map (D_event c) evs) with
    | Some n, Some d => Some (n, d)
    | _, _ => None
    end.

  Variable kdiv : K -> K -> K.
  Variable kis0 : K -> bool.
  (* a float division by zero gives inf/NaN, never a finite number: None *)
  Definition corr (c : nat) (evs : list (list particle)) : option K :=
    match corr_pair c evs with
    | Some (n, d) => if kis0 d then None else Some (kdiv n d)
    | None => None
    end.

  (* mean_pT_cumulants, order index c: kappa_{c+1} of the correlations C_1..C_{c+1};
     a non-finite correlation among them makes the result non-finite *)
  Definition Carr (evs : list (list particle)) : nat -> K :=
    fun i => match corr i evs with Some v => v | None => k0 end.
  Definition all_finite (c : nat) (evs : list (list particle)) : bool :=
    forallb (fun i => match corr i evs with Some _ => true | None => false end) (seq 0 (S c)).
  Definition kappa (c : nat) (evs : list (list particle)) : option K :=
    if all_finite c evs then gen_kappa K k0 k1 kadd kmul ksub kopp (S c) (Carr evs) else None.
End Model.

(* executable instance: Q with results kept in lowest terms (Qred x == x) *)
Definition rplus x y := Qred (Qplus x y).
Definition rmult x y := Qred (Qmult x y).
Definition rminus x y := Qred (Qminus x y).
Definition rdiv x y := Qred (Qdiv x y).
Definition qN := N_event Q 0%Q 1%Q rplus rmult rminus Qopp.
Definition qD := D_event Q 0%Q 1%Q rplus rmult rminus Qopp.
Definition qcorr := corr Q 0%Q 1%Q rplus rmult rminus Qopp rdiv (fun d => Qeq_bool d 0).
Definition qkappa := kappa Q 0%Q 1%Q rplus rmult rminus Qopp rdiv (fun d => Qeq_bool d 0).
